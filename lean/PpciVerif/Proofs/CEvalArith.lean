import PpciVerif.Proofs.CEval
import Mathlib.Tactic.Linarith
/-!
Value-level lemmas for C27: each Python operator of the evaluator, followed by `fit`,
computes the value `Spec.CInt` prescribes (when it prescribes one).
-/
set_option linter.unusedSimpArgs false
namespace Proofs.CEval
open Model.CEval Model.CSyntax
open Spec.CInt (Expr Base Suffix UnOp BinOp inRange convert uac typeOf arith toU ofU)
open Spec.Bits (wrapU testBit)

/-! ### conversions depend on the residue only -/

/-- `convert` written with the residue only -/
theorem convert_eq_mod (σ : Spec.CInt.Ty) (v : Int) :
    convert σ v = if σ.signed then
        (if v % 2 ^ σ.bits < 2 ^ (σ.bits - 1) then v % 2 ^ σ.bits else v % 2 ^ σ.bits - 2 ^ σ.bits)
      else v % 2 ^ σ.bits := by
  cases σ <;>
    simp only [convert, inRange, Spec.CInt.Ty.minV, Spec.CInt.Ty.maxV, Spec.CInt.Ty.signed, Spec.CInt.Ty.bits,
      Bool.and_eq_true, decide_eq_true_eq, if_true, if_false, Bool.false_eq_true, Nat.reduceSub, Int.reducePow,
      Int.reduceNeg, Int.reduceSub] <;>
    (repeat' split) <;> omega

theorem convert_congr (σ : Spec.CInt.Ty) {v w : Int} (h : v % 2 ^ σ.bits = w % 2 ^ σ.bits) :
    convert σ v = convert σ w := by
  rw [convert_eq_mod, convert_eq_mod, h]

theorem convert_unsigned {σ : Spec.CInt.Ty} (h : σ.signed = false) (v : Int) : convert σ v = v % 2 ^ σ.bits := by
  rw [convert_eq_mod, h]; simp

/-- `+ - *` (and every operator whose mathematical result is `m`) -/
theorem arith_fit {σ : Spec.CInt.Ty} {m r : Int} (h : arith σ m = some r) : toIntegerType (M σ) m = r := by
  rw [toIntegerType_eq_convert]
  unfold arith at h
  split at h
  · split at h
    · rename_i hr; injection h with h; subst h; exact convert_of_inRange hr
    · cases h
  · rename_i hs; injection h with h; subst h
    exact convert_unsigned (by simpa using hs) m

/-! ### division -/

theorem intDiv_eq_tdiv (x y : Int) : intDiv x y = Int.tdiv x y := by
  unfold intDiv
  rcases Int.eq_nat_or_neg x with ⟨a, rfl | rfl⟩ <;> rcases Int.eq_nat_or_neg y with ⟨b, rfl | rfl⟩
  · have h1 : ¬ ((a : Int) < 0) := by omega
    have h2 : ¬ ((b : Int) < 0) := by omega
    simp only [Int.natAbs_natCast, h1, h2, decide_false, if_true, Int.ofNat_tdiv]
  · rcases Nat.eq_zero_or_pos b with rfl | hb
    · simp
    · have h1 : ¬ ((a : Int) < 0) := by omega
      have h2 : (-(b : Int) < 0) := by omega
      simp only [Int.natAbs_natCast, Int.natAbs_neg, h1, h2, decide_false, decide_true, Int.tdiv_neg, Int.ofNat_tdiv]
      simp
  · rcases Nat.eq_zero_or_pos a with rfl | ha
    · simp
    · have h1 : (-(a : Int) < 0) := by omega
      have h2 : ¬ ((b : Int) < 0) := by omega
      simp only [Int.natAbs_natCast, Int.natAbs_neg, h1, h2, decide_false, decide_true, Int.neg_tdiv, Int.ofNat_tdiv]
      simp
  · rcases Nat.eq_zero_or_pos a with rfl | ha
    · simp
    · rcases Nat.eq_zero_or_pos b with rfl | hb
      · simp
      · have h1 : (-(a : Int) < 0) := by omega
        have h2 : (-(b : Int) < 0) := by omega
        simp only [Int.natAbs_natCast, Int.natAbs_neg, h1, h2, decide_true, Int.neg_tdiv, Int.tdiv_neg, Int.ofNat_tdiv]
        simp

theorem intRem_eq_tmod (x y : Int) : intRem x y = Int.tmod x y := by
  unfold intRem; rw [intDiv_eq_tdiv, Int.tmod_def]

theorem tmod_nat_le (n : Nat) (y : Int) : Int.tmod n y ≤ n := by
  rcases Int.eq_nat_or_neg y with ⟨b, rfl | rfl⟩
  · rw [← Int.ofNat_tmod]; exact Int.ofNat_le.mpr (Nat.mod_le n b)
  · rw [Int.tmod_neg, ← Int.ofNat_tmod]; exact Int.ofNat_le.mpr (Nat.mod_le n b)
theorem tmod_le_self {x : Int} (y : Int) (h : 0 ≤ x) : Int.tmod x y ≤ x := by
  have := tmod_nat_le x.toNat y
  rw [Int.toNat_of_nonneg h] at this; exact this

/-- the truncated remainder lies between `0` and the dividend -/
theorem tmod_inRange {σ : Spec.CInt.Ty} {x : Int} (y : Int) (hx : inRange σ x = true) : inRange σ (Int.tmod x y) = true := by
  have h : (0 ≤ x → 0 ≤ Int.tmod x y ∧ Int.tmod x y ≤ x) ∧ (x ≤ 0 → x ≤ Int.tmod x y ∧ Int.tmod x y ≤ 0) := by
    constructor
    · intro h0
      refine ⟨Int.tmod_nonneg y h0, ?_⟩
      exact tmod_le_self y h0
    · intro h0
      have h1 : 0 ≤ -x := by omega
      have := Int.tmod_nonneg y h1
      have h2 : Int.tmod (-x) y ≤ -x := tmod_le_self y h1
      rw [Int.neg_tmod] at this h2
      omega
  revert hx
  simp only [inRange, Bool.and_eq_true, decide_eq_true_eq]
  intro hx
  by_cases h0 : 0 ≤ x
  · have := h.1 h0
    have hmin : σ.minV ≤ 0 := by cases σ <;> simp [Spec.CInt.Ty.minV, Spec.CInt.Ty.signed]
    omega
  · have := h.2 (by omega)
    have hmax : 0 ≤ σ.maxV := by cases σ <;> simp [Spec.CInt.Ty.maxV, Spec.CInt.Ty.signed, Spec.CInt.Ty.bits]
    omega

/-! ### shifts -/

theorem shr_inRange {σ : Spec.CInt.Ty} {x : Int} (c : Nat) (hx : inRange σ x = true) : inRange σ (x / 2 ^ c) = true := by
  have hp : (0 : Int) < 2 ^ c := Int.pow_pos (by decide)
  revert hx
  simp only [inRange, Bool.and_eq_true, decide_eq_true_eq]
  intro hx
  have hmin : σ.minV ≤ 0 := by cases σ <;> simp [Spec.CInt.Ty.minV, Spec.CInt.Ty.signed]
  have hmax : 0 ≤ σ.maxV := by cases σ <;> simp [Spec.CInt.Ty.maxV, Spec.CInt.Ty.signed, Spec.CInt.Ty.bits]
  by_cases h0 : 0 ≤ x
  · have h1 : 0 ≤ x / 2 ^ c := Int.ediv_nonneg h0 (Int.le_of_lt hp)
    have h2 : x / 2 ^ c ≤ x := Int.ediv_le_self _ h0
    omega
  · have h1 : x / 2 ^ c < 0 := Int.ediv_neg_of_neg_of_pos (by omega) hp
    have h2 : x ≤ x / 2 ^ c := by
      rw [Int.le_ediv_iff_mul_le hp]
      have : x * 2 ^ c ≤ x * 1 := Int.mul_le_mul_of_nonpos_left (by omega) (by omega)
      omega
    omega

/-! ### bitwise operators -/

theorem PyAnd_eq (x y : Int) : PyAnd x y = Model.PyInt.and x y := by cases x <;> cases y <;> rfl
theorem PyOr_eq (x y : Int) : PyOr x y = Model.PyInt.or x y := by cases x <;> cases y <;> rfl
theorem PyXor_eq (x y : Int) : PyXor x y = Model.PyInt.xor x y := by cases x <;> cases y <;> rfl

theorem testBit_toU (σ : Spec.CInt.Ty) (x : Int) {i : Nat} (hi : i < σ.bits) :
    (toU σ x).testBit i = testBit x i := by
  have h0 : 0 ≤ x % 2 ^ σ.bits := Int.emod_nonneg _ (Proofs.Bits.pow_ne _)
  rw [← Proofs.Bits.testBit_natCast, toU, Int.toNat_of_nonneg h0]
  have := Proofs.Bits.testBit_wrapU σ.bits x i
  unfold wrapU at this
  rw [this]; simp [hi]

theorem band_fit (σ : Spec.CInt.Ty) (x y : Int) :
    toIntegerType (M σ) (PyAnd x y) = ofU σ (toU σ x &&& toU σ y) := by
  rw [toIntegerType_eq_convert, ofU]; apply convert_congr
  change wrapU σ.bits _ = wrapU σ.bits _
  apply Proofs.Bits.wrapU_eq_of_testBit_eq; intro i hi
  rw [PyAnd_eq, Proofs.PyInt.testBit_and, Proofs.Bits.testBit_natCast, Nat.testBit_and, testBit_toU _ _ hi,
    testBit_toU _ _ hi]

theorem bor_fit (σ : Spec.CInt.Ty) (x y : Int) :
    toIntegerType (M σ) (PyOr x y) = ofU σ (toU σ x ||| toU σ y) := by
  rw [toIntegerType_eq_convert, ofU]; apply convert_congr
  change wrapU σ.bits _ = wrapU σ.bits _
  apply Proofs.Bits.wrapU_eq_of_testBit_eq; intro i hi
  rw [PyOr_eq, Proofs.PyInt.testBit_or, Proofs.Bits.testBit_natCast, Nat.testBit_or, testBit_toU _ _ hi,
    testBit_toU _ _ hi]

theorem bxor_fit (σ : Spec.CInt.Ty) (x y : Int) :
    toIntegerType (M σ) (PyXor x y) = ofU σ (toU σ x ^^^ toU σ y) := by
  rw [toIntegerType_eq_convert, ofU]; apply convert_congr
  change wrapU σ.bits _ = wrapU σ.bits _
  apply Proofs.Bits.wrapU_eq_of_testBit_eq; intro i hi
  rw [PyXor_eq, Proofs.PyInt.testBit_xor, Proofs.Bits.testBit_natCast, Nat.testBit_xor, testBit_toU _ _ hi,
    testBit_toU _ _ hi]

/-- `~x = -x - 1` in Python, all bits flipped in C -/
theorem bnot_fit (σ : Spec.CInt.Ty) (x : Int) :
    toIntegerType (M σ) (-x - 1) = ofU σ (2 ^ σ.bits - 1 - toU σ x) := by
  rw [toIntegerType_eq_convert, ofU]; apply convert_congr
  have h0 : 0 ≤ x % 2 ^ σ.bits := Int.emod_nonneg _ (Proofs.Bits.pow_ne _)
  have h1 : x % 2 ^ σ.bits < 2 ^ σ.bits := Int.emod_lt_of_pos _ (Proofs.Bits.pow_pos _)
  have hc : ((toU σ x : Nat) : Int) = x % 2 ^ σ.bits := by rw [toU, Int.toNat_of_nonneg h0]
  have hlt : toU σ x < 2 ^ σ.bits := by
    have : ((toU σ x : Nat) : Int) < ((2 ^ σ.bits : Nat) : Int) := by rw [hc, Proofs.Bits.natCast_pow]; exact h1
    exact Int.ofNat_lt.mp this
  have hcast : ((2 ^ σ.bits - 1 - toU σ x : Nat) : Int) = 2 ^ σ.bits - 1 - x % 2 ^ σ.bits := by
    rw [Nat.sub_sub, Int.ofNat_sub (by omega)]; push_cast; rw [hc]; ring
  rw [hcast]
  have hx := Int.emod_add_mul_ediv x (2 ^ σ.bits)
  have : -x - 1 = (2 ^ σ.bits - 1 - x % 2 ^ σ.bits) + (-(x / 2 ^ σ.bits) - 1) * 2 ^ σ.bits := by
    have : x = x % 2 ^ σ.bits + 2 ^ σ.bits * (x / 2 ^ σ.bits) := by linarith
    generalize x % 2 ^ σ.bits = r at *
    generalize x / 2 ^ σ.bits = q at *
    generalize (2 : Int) ^ σ.bits = p at *
    subst this; ring
  rw [this, Int.add_mul_emod_self_right]

end Proofs.CEval
