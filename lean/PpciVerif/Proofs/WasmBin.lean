import PpciVerif.Model.WasmBin
import PpciVerif.Props.C20
/-! Helper lemmas for C21: the reader of `Model.WasmBin` inverts its writer (forward direction). -/
namespace Proofs.WasmBin
open Model.WasmBin
open Model.Leb128 (uencLoop sencLoop unsignedDecode signedDecode signedEncode)

/-! ### the parser monad -/

@[simp] theorem bind_apply {α β} (p : P α) (f : α → P β) (bs : Bytes) :
    (p >>= f) bs = match p bs with | .ok (a, rest) => f a rest | .error e => .error e := rfl

@[simp] theorem pure_apply {α} (a : α) (bs : Bytes) : (pure a : P α) bs = .ok (a, bs) := rfl

@[simp] theorem fail_apply {α} (e : Err) (bs : Bytes) : (fail e : P α) bs = .error e := rfl

@[simp] theorem guardP_true (e : Err) (bs : Bytes) : guardP true e bs = .ok ((), bs) := rfl
@[simp] theorem guardP_false (e : Err) (bs : Bytes) : guardP false e bs = .error e := rfl

@[simp] theorem liftOpt_some {α} (a : α) (e : Err) (bs : Bytes) : liftOpt (some a) e bs = .ok (a, bs) := rfl
@[simp] theorem liftOpt_none {α} (e : Err) (bs : Bytes) : (liftOpt (none : Option α) e) bs = .error e := rfl

@[simp] theorem rByte_cons (b : Nat) (r : Bytes) : rByte (b :: r) = .ok (b, r) := rfl

/-! ### primitives -/

theorem rU_enc (strict : Bool) (n : Nat) (rest : Bytes) : rU strict (encU n ++ rest) = .ok (n, rest) := by
  have hp : (uencLoop n).isPrefixOf (uencLoop n ++ rest) = true := by
    rw [List.isPrefixOf_iff_prefix]; exact List.prefix_append _ _
  simp [rU, encU, Props.C20.unsigned_roundtrip, hp]

theorem rS_enc (strict : Bool) (z : Int) (rest : Bytes) : rS strict (encS z ++ rest) = .ok (z, rest) := by
  have := Props.C20.signed_roundtrip z rest
  simp only [signedEncode] at this
  have hp : (sencLoop z).isPrefixOf (sencLoop z ++ rest) = true := by
    rw [List.isPrefixOf_iff_prefix]; exact List.prefix_append _ _
  simp [rS, encS, this, hp]

theorem encU_small (n : Nat) (h : n < 128) : encU n = [n] := by
  rw [encU, uencLoop]
  have h1 : n / 128 = 0 := by omega
  have h2 : n % 128 = n := by omega
  simp [h1, h2]

theorem rExact_append (bs rest : Bytes) : rExact bs.length (bs ++ rest) = .ok (bs, rest) := by
  simp [rExact]

theorem rSizedBytes_enc (strict : Bool) (bs rest : Bytes) :
    rSizedBytes strict (encSized bs ++ rest) = .ok (bs, rest) := by
  simp [rSizedBytes, encSized, rU_enc, rExact_append]

theorem rName_enc (strict : Bool) (s rest : Bytes) (h : utf8Valid s = true) :
    rName strict (encName s ++ rest) = .ok (s, rest) := by
  simp [rName, encName, rSizedBytes_enc, h]

theorem rBool_enc (strict : Bool) (b : Bool) (rest : Bytes) : rBool strict (encBool b ++ rest) = .ok (b, rest) := by
  cases b <;> cases strict <;> simp [rBool, encBool]

theorem rLimits_enc (strict : Bool) (l : Limits) (rest : Bytes) :
    rLimits strict (encLimits l ++ rest) = .ok (l, rest) := by
  obtain ⟨mn, mx⟩ := l
  cases mx <;> simp [rLimits, encLimits, rU_enc]

theorem rN_enc {α} (p : P α) (enc : α → Bytes) (xs : List α) (rest : Bytes)
    (h : ∀ x ∈ xs, ∀ rest, p (enc x ++ rest) = .ok (x, rest)) :
    rN p xs.length (xs.flatMap enc ++ rest) = .ok (xs, rest) := by
  induction xs with
  | nil => simp [rN]
  | cons x xs ih =>
    have hx := h x (by simp)
    have ih' := ih (fun y hy => h y (by simp [hy]))
    simp [rN, hx, ih']

theorem rVec_enc {α} (strict : Bool) (p : P α) (enc : α → Bytes) (xs : List α) (rest : Bytes)
    (h : ∀ x ∈ xs, ∀ rest, p (enc x ++ rest) = .ok (x, rest)) :
    rVec strict p (encVec enc xs ++ rest) = .ok (xs, rest) := by
  simp [rVec, encVec, rU_enc, rN_enc p enc xs rest h]

theorem rSub_enc {α} (p : P α) (payload rest : Bytes) (a : α) (h : p payload = .ok (a, [])) :
    rSub p payload.length (payload ++ rest) = .ok (a, rest) := by
  simp [rSub, h]

/-! ### what `Tables.Sane` gives -/

theorem allBelow_spec (p : Nat → Bool) : ∀ n, allBelow p n = true → ∀ i, i < n → p i = true
  | 0, _, i, hi => by omega
  | n + 1, h, i, hi => by
    simp only [allBelow, Bool.and_eq_true] at h
    rcases Nat.lt_succ_iff_lt_or_eq.mp hi with hlt | heq
    · exact allBelow_spec p n h.2 i hlt
    · rw [heq]; exact h.1

section Sane
variable {T : Tables} (hT : T.Sane = true)
include hT

theorem sane_instr (id : Nat) (h : id < T.count) : instrRowOk T id = true := by
  simp only [Tables.Sane, Bool.and_eq_true] at hT
  exact allBelow_spec _ _ hT.1.1.1.1.1.1.1.1.1.1 id h

theorem sane_type (t : Nat) (h : t < T.ntypes) : typeRowOk T t = true := by
  simp only [Tables.Sane, Bool.and_eq_true] at hT
  exact allBelow_spec _ _ hT.1.1.1.1.1.1.1.1.1.2 t h

theorem sane_rev1 (b : Nat) (h : b < 256) : rev1RowOk T b = true := by
  simp only [Tables.Sane, Bool.and_eq_true] at hT
  exact allBelow_spec _ _ hT.1.1.1.1.1.1.1.1.2 b h

theorem sane_rev2 (p s : Nat) (hp : p = 0xFC ∨ p = 0xFD) (h : s < T.maxSub) : rev2RowOk T p s = true := by
  simp only [Tables.Sane, Bool.and_eq_true] at hT
  rcases hp with rfl | rfl
  · exact allBelow_spec _ _ hT.1.1.1.1.1.1.1.2 s h
  · exact allBelow_spec _ _ hT.1.1.1.1.1.1.2 s h

theorem sane_typeRev (b : Nat) (h : b < 256) : typeRevRowOk T b = true := by
  simp only [Tables.Sane, Bool.and_eq_true] at hT
  exact allBelow_spec _ _ hT.1.1.1.1.1.2 b h

theorem sane_end : T.endId < T.count ∧ T.opcodeKey T.endId = some (0x0B, none) ∧ T.operands T.endId = some [] ∧
    T.isBlock T.endId = false := by
  simp only [Tables.Sane, Bool.and_eq_true] at hT
  obtain ⟨⟨⟨⟨⟨_, h1⟩, h2⟩, h3⟩, _⟩, _⟩ := hT
  refine ⟨by simpa using h1, ?_, ?_, by simpa using h3⟩
  · split at h2 <;> simp_all
  · split at h2 <;> simp_all

/-! ### value types -/

theorem type_row (t : Nat) (ht : typeOk T t = true) :
    ∃ b, b < 256 ∧ T.typeBytesOf t = some [b] ∧ T.typeOfByteOf b = some t := by
  have hlt : t < T.ntypes := by simpa [typeOk] using ht
  have := sane_type hT t hlt
  simp only [typeRowOk] at this
  split at this
  · rename_i b hb
    simp only [Bool.and_eq_true, decide_eq_true_eq] at this
    obtain ⟨hb256, hrev⟩ := this
    split at hrev
    · rename_i t2 ht2
      have : t2 = t := by simpa using hrev
      refine ⟨b, hb256, by simp [Tables.typeBytesOf, hlt, hb], by simp [Tables.typeOfByteOf, hb256, ht2, this]⟩
    · simp at hrev
  · simp at this

theorem rType_enc (t : Nat) (rest : Bytes) (ht : typeOk T t = true) :
    rType T (encType T t ++ rest) = .ok (t, rest) := by
  obtain ⟨b, _, h1, h2⟩ := type_row hT t ht
  simp [rType, encType, h1, h2]

/-! ### operands and instructions -/

omit hT in
theorem rExact_of_length (n : Nat) (bs rest : Bytes) (h : bs.length = n) : rExact n (bs ++ rest) = .ok (bs, rest) := by
  subst h; exact rExact_append bs rest

/-- the opcode byte written and the `result_types` operand fit together -/
def resCond (opc : Nat) (a : Arg) : Prop := (opc = 0x1C ∧ a ≠ .types []) ∨ (opc ≠ 0x1C ∧ a = .types [])

theorem rArg_enc (strict : Bool) (opc : Nat) (k : ImmKind) (a : Arg) (rest : Bytes)
    (h : argOk T k a = true) (hres : k = .resultTypes → resCond opc a) :
    rArg T strict opc k (encArg T opc k a ++ rest) = .ok (a, rest) := by
  cases k <;> cases a <;> simp [argOk] at h <;>
    try (simp [rArg, encArg, rU_enc, rS_enc, rType_enc hT, h]; done)
  case f32.raw bs =>
    simp [rArg, encArg, rExact_of_length 4 bs rest h.1, h.2]
  case f64.raw bs =>
    simp [rArg, encArg, rExact_of_length 8 bs rest h]
  case brTable.labels l =>
    have hl : l.length - 1 + 1 = l.length := by
      cases l with
      | nil => simp at h
      | cons => simp
    have := rN_enc (rU strict) encU l rest (fun x _ r => rU_enc strict x r)
    simp [rArg, encArg, rU_enc, hl, this]
  case resultTypes.types l =>
    rcases hres rfl with ⟨h1, h2⟩ | ⟨h1, h2⟩
    · have hne : l ≠ [] := by simpa using h2
      have := rVec_enc strict (rType T) (encType T) l rest (fun x hx r => rType_enc hT x r (h x hx))
      have he : l.isEmpty = false := by cases l <;> simp_all
      simp [rArg, encArg, h1, this, he]
    · have : l = [] := by simpa using h2
      simp [rArg, encArg, h1, this]

theorem rArgs_enc (strict : Bool) (opc : Nat) : ∀ (ks : List ImmKind) (as : List Arg) (rest : Bytes),
    argsOk T ks as = true → (∀ k a, (k, a) ∈ ks.zip as → k = .resultTypes → resCond opc a) →
    rArgs T strict opc ks (encArgs T opc ks as ++ rest) = .ok (as, rest)
  | [], [], rest, _, _ => by simp [rArgs, encArgs]
  | [], _ :: _, _, h, _ => by simp [argsOk] at h
  | _ :: _, [], _, h, _ => by simp [argsOk] at h
  | k :: ks, a :: as, rest, h, hres => by
    simp only [argsOk, Bool.and_eq_true] at h
    have h1 := rArg_enc hT strict opc k a (encArgs T opc ks as ++ rest) h.1 (hres k a (by simp))
    have h2 := rArgs_enc strict opc ks as rest h.2 (fun k' a' hm => hres k' a' (by simp [hm]))
    simp [rArgs, encArgs, h1, h2]

theorem rInstr_enc (strict : Bool) (i : Instr) (rest : Bytes) (h : instrOk T i = true) :
    rInstr T strict (encInstr T i ++ rest) = .ok (i, rest) := by
  obtain ⟨op, args⟩ := i
  simp only [instrOk] at h
  split at h
  case h_2 => simp at h
  rename_i key kinds hkey hkinds
  have hlt : op < T.count := by
    simp only [Tables.opcodeOf] at hkey
    split at hkey
    · assumption
    · simp at hkey
  have hrow := sane_instr hT op hlt
  have hkey' : T.opcodeKey op = some key := by simpa [Tables.opcodeOf, hlt] using hkey
  have hkinds' : T.operands op = some kinds := by simpa [Tables.operandsOf, hlt] using hkinds
  simp only [instrRowOk, hkey', hkinds'] at hrow
  obtain ⟨b, sub⟩ := key
  cases sub with
  | some s =>
    simp only [Bool.and_eq_true, Bool.or_eq_true, beq_iff_eq, decide_eq_true_eq, Bool.not_eq_true'] at hrow
    obtain ⟨⟨⟨hp, hs⟩, hrev⟩, hnores⟩ := hrow
    have hrev' : T.reverz2Of b s = some op := by
      split at hrev
      · rename_i id' hid; simp only [beq_iff_eq] at hrev; simp [Tables.reverz2Of, hs, hid, hrev]
      · simp at hrev
    have hargs := rArgs_enc hT strict b kinds args rest h (by
      intro k a hm hk
      have : k ∈ kinds := (List.of_mem_zip hm).1
      subst hk
      simp at hnores
      exact absurd this hnores)
    simp [rInstr, encInstr, hkey, hkinds, hp, rU_enc, hrev', hargs]
  | none =>
    simp only [Bool.and_eq_true, Bool.or_eq_true, beq_iff_eq, decide_eq_true_eq, Bool.not_eq_true', bne_iff_ne, ne_eq] at hrow
    obtain ⟨⟨⟨⟨⟨⟨hb256, hnfc⟩, hnfd⟩, hrev⟩, hsel⟩, hres⟩, _⟩ := hrow
    have hrev' : T.reverz1Of b = some op := by
      split at hrev
      · rename_i id' hid; simp only [beq_iff_eq] at hrev; simp [Tables.reverz1Of, hb256, hid, hrev]
      · simp at hrev
    by_cases hsw : b = 0x1C ∧ firstArgEmpty args = true
    · -- `select` without result types: written as 0x1B
      obtain ⟨hb, hfe⟩ := hsw
      have hrev1b : T.reverz1Of 0x1B = some op := by
        rcases hsel with hsel | hsel
        · simp [hb] at hsel
        · split at hsel
          · rename_i id' hid; simp only [beq_iff_eq] at hsel; simp [Tables.reverz1Of, hid, hsel]
          · simp at hsel
      have hargs := rArgs_enc hT strict 0x1B kinds args rest h (by
        intro k a hm hk
        subst hk
        rcases hres with hres | ⟨_, hres⟩
        · have : ImmKind.resultTypes ∈ kinds := (List.of_mem_zip hm).1
          simp at hres; exact absurd this hres
        · subst hres
          right
          refine ⟨by decide, ?_⟩
          cases args with
          | nil => simp at hm
          | cons a0 as =>
            simp only [List.zip_cons_cons, List.zip_nil_left, List.mem_cons, Prod.mk.injEq,
              List.not_mem_nil, or_false] at hm
            rw [hm.2]
            cases a0 <;> simp [firstArgEmpty] at hfe
            rename_i l; cases l <;> simp_all)
      simp [rInstr, encInstr, hkey, hkinds, hb, hfe, hrev1b, hargs]
    · have hargs := rArgs_enc hT strict b kinds args rest h (by
        intro k a hm hk
        subst hk
        rcases hres with hres | ⟨hb, hres⟩
        · have : ImmKind.resultTypes ∈ kinds := (List.of_mem_zip hm).1
          simp at hres; exact absurd this hres
        · subst hres
          left
          refine ⟨hb, ?_⟩
          cases args with
          | nil => simp at hm
          | cons a0 as =>
            simp only [List.zip_cons_cons, List.zip_nil_left, List.mem_cons, Prod.mk.injEq,
              List.not_mem_nil, or_false] at hm
            rw [hm.2]
            intro hc
            apply hsw
            exact ⟨hb, by rw [hc]; rfl⟩)
      have hb' : (if b = 0x1C ∧ firstArgEmpty args = true then 0x1B else b) = b := by simp [hsw]
      simp only [encInstr, hkey, hkinds, hb']
      simp [rInstr, hnfc, hnfd, hrev', hkinds, hargs]

/-! ### expressions -/

theorem encInstr_end : encInstr T ⟨T.endId, []⟩ = [0x0B] := by
  obtain ⟨h1, h2, h3, _⟩ := sane_end hT
  simp [encInstr, Tables.opcodeOf, Tables.operandsOf, h1, h2, h3, encArgs, firstArgEmpty]

theorem instrOk_end : instrOk T ⟨T.endId, []⟩ = true := by
  obtain ⟨h1, h2, h3, _⟩ := sane_end hT
  simp [instrOk, Tables.opcodeOf, Tables.operandsOf, h1, h2, h3, argsOk]

omit hT in
theorem encInstr_length_pos (i : Instr) (h : instrOk T i = true) : 1 ≤ (encInstr T i).length := by
  simp only [instrOk] at h
  simp only [encInstr]
  split at h
  · rename_i key kinds hk hks
    obtain ⟨b, sub⟩ := key
    cases sub <;> simp [hk, hks]
  · simp at h

omit hT in
theorem encInstrs_length (is : List Instr) (h : ∀ i ∈ is, instrOk T i = true) :
    is.length ≤ (encInstrs T is).length := by
  induction is with
  | nil => simp [encInstrs]
  | cons i is ih =>
    have h1 := encInstr_length_pos i (h i (by simp))
    have h2 := ih (fun j hj => h j (by simp [hj]))
    simp only [encInstrs, List.flatMap_cons, List.length_append, List.length_cons] at *
    omega

theorem rExprLoop_enc (strict : Bool) : ∀ (is : List Instr) (d fuel : Nat) (rest : Bytes),
    (∀ i ∈ is, instrOk T i = true) → balanced T d is = true → 1 ≤ d → is.length + 1 ≤ fuel →
    rExprLoop T strict fuel d (encInstrs T is ++ 0x0B :: rest) = .ok (is, rest)
  | [], d, fuel, rest, _, hb, _, hf => by
    obtain ⟨f, rfl⟩ : ∃ f, fuel = f + 1 := ⟨fuel - 1, by simp at hf; omega⟩
    have hd : d = 1 := by simpa [balanced] using hb
    have := rInstr_enc hT strict ⟨T.endId, []⟩ rest (instrOk_end hT)
    rw [encInstr_end hT] at this
    simp at this
    simp [rExprLoop, encInstrs, this, hd]
  | i :: is, d, fuel, rest, hok, hb, hd, hf => by
    obtain ⟨f, rfl⟩ : ∃ f, fuel = f + 1 := ⟨fuel - 1, by simp at hf; omega⟩
    have hi := rInstr_enc hT strict i (encInstrs T is ++ 0x0B :: rest) (hok i (by simp))
    have hok' : ∀ j ∈ is, instrOk T j = true := fun j hj => hok j (by simp [hj])
    have hf' : is.length + 1 ≤ f := by simp at hf; omega
    simp only [balanced] at hb
    simp only [encInstrs, List.flatMap_cons, List.append_assoc] at hi ⊢
    simp only [rExprLoop, bind_apply, hi]
    by_cases hend : i.op = T.endId
    · simp only [hend, if_true, Bool.and_eq_true, decide_eq_true_eq] at hb ⊢
      have ih := rExprLoop_enc strict is (d - 1) f rest hok' hb.2 (by omega) hf'
      have : ¬ d ≤ 1 := by omega
      simp only [encInstrs] at ih
      simp [this, ih]
    · simp only [hend, if_false] at hb ⊢
      by_cases hblk : T.isBlock i.op = true
      · simp only [hblk, if_true] at hb ⊢
        have ih := rExprLoop_enc strict is (d + 1) f rest hok' hb (by omega) hf'
        simp only [encInstrs] at ih
        simp [ih]
      · simp only [hblk] at hb ⊢
        have ih := rExprLoop_enc strict is d f rest hok' hb hd hf'
        simp only [encInstrs] at ih
        simp [ih]

theorem rExpr_body_enc (strict : Bool) (is : List Instr) (rest : Bytes) (h : exprOk T is = true) :
    rExpr T strict (encInstrs T is ++ 0x0B :: rest) = .ok (is, rest) := by
  simp only [exprOk, Bool.and_eq_true, List.all_eq_true] at h
  have hl := encInstrs_length is h.1
  exact rExprLoop_enc hT strict is 1 _ rest h.1 h.2 (by omega) (by simp; omega)

theorem rExpr_enc (strict : Bool) (is : List Instr) (rest : Bytes) (h : exprOk T is = true) :
    rExpr T strict (encExpr T is ++ rest) = .ok (is, rest) := by
  have := rExpr_body_enc hT strict is rest h
  simpa [encExpr, encInstr_end hT] using this

/-! ### definitions -/

theorem rFuncType_enc (strict : Bool) (t : FuncType) (rest : Bytes)
    (h : (t.params.all (typeOk T) && t.results.all (typeOk T)) = true) :
    rFuncType T strict (encFuncType T t ++ rest) = .ok (t, rest) := by
  simp only [Bool.and_eq_true, List.all_eq_true] at h
  have h1 := fun r => rVec_enc strict (rType T) (encType T) t.params r (fun x hx r => rType_enc hT x r (h.1 x hx))
  have h2 := fun r => rVec_enc strict (rType T) (encType T) t.results r (fun x hx r => rType_enc hT x r (h.2 x hx))
  simp [rFuncType, encFuncType, h1, h2]

theorem rImport_enc (strict : Bool) (i : Import) (rest : Bytes) (h : importOk T i = true) :
    rImport T strict (encImport T i ++ rest) = .ok (i, rest) := by
  obtain ⟨mn, nm, desc⟩ := i
  simp only [importOk, Bool.and_eq_true] at h
  obtain ⟨⟨hm, hn⟩, hd⟩ := h
  cases desc with
  | func ti => simp [rImport, encImport, encImportDesc, rName_enc, hm, hn, rU_enc]
  | table k l => simp [rImport, encImport, encImportDesc, rName_enc, hm, hn, rType_enc hT k _ hd, rLimits_enc]
  | memory l => simp [rImport, encImport, encImportDesc, rName_enc, hm, hn, rLimits_enc]
  | global t m => simp [rImport, encImport, encImportDesc, rName_enc, hm, hn, rType_enc hT t _ hd, rBool_enc]

theorem rTable_enc (strict : Bool) (t : Table) (rest : Bytes)
    (h : (t.kind == T.funcref || t.kind == T.externref) = true) :
    rTable T strict (encTable T t ++ rest) = .ok (t, rest) := by
  have hk : typeOk T t.kind = true := by
    simp only [Tables.Sane, Bool.and_eq_true, decide_eq_true_eq] at hT
    simp only [Bool.or_eq_true, beq_iff_eq] at h
    rcases h with h | h <;> simp [typeOk, h, hT.1.2, hT.2]
  simp [rTable, encTable, rType_enc hT t.kind _ hk, h, rLimits_enc]

theorem rGlobal_enc (strict : Bool) (g : Global) (rest : Bytes) (h : (typeOk T g.ty && exprOk T g.init) = true) :
    rGlobal T strict (encGlobal T g ++ rest) = .ok (g, rest) := by
  simp only [Bool.and_eq_true] at h
  simp [rGlobal, encGlobal, rType_enc hT g.ty _ h.1, rBool_enc, rExpr_enc hT strict g.init _ h.2]

omit hT in
theorem rExport_enc (strict : Bool) (e : Export) (rest : Bytes) (h : (utf8Valid e.name && decide (e.kind < 4)) = true) :
    rExport strict (encExport e ++ rest) = .ok (e, rest) := by
  simp only [Bool.and_eq_true, decide_eq_true_eq] at h
  simp [rExport, encExport, rName_enc, h.1, h.2, rU_enc]

theorem rElem_enc (strict : Bool) (e : Elem) (rest : Bytes) (h : elemOk T e = true) :
    rElem T strict (encElem T e ++ rest) = .ok (e, rest) := by
  obtain ⟨mode, refs⟩ := e
  cases mode with
  | none => simp [elemOk] at h
  | some mo =>
  obtain ⟨tbl, off⟩ := mo
  simp only [elemOk, Bool.and_eq_true, beq_iff_eq] at h
  obtain ⟨ht, ho⟩ := h
  subst ht
  have h0 : encU 0 = [0] := encU_small 0 (by omega)
  have hu : rU strict (0 :: (encExpr T off ++ (encVec encU refs ++ rest))) = .ok (0, encExpr T off ++ (encVec encU refs ++ rest)) := by
    have := rU_enc strict 0 (encExpr T off ++ (encVec encU refs ++ rest))
    simpa [h0] using this
  have hv := rVec_enc strict (rU strict) encU refs rest (fun x _ r => rU_enc strict x r)
  simp [rElem, encElem, h0, hu, rExpr_enc hT strict off _ ho, hv]

omit hT in
theorem groupLocals_mem : ∀ (l : List Nat) (p : Nat × Nat), p ∈ groupLocals l → p.2 ∈ l
  | [], p, h => by simp [groupLocals] at h
  | t :: r, p, h => by
    simp only [groupLocals] at h
    split at h
    · rename_i c t' g hg
      have ih := groupLocals_mem r
      rw [hg] at ih
      split at h
      · rename_i heq
        simp only [List.mem_cons] at h
        rcases h with rfl | h
        · simp
        · have := ih p (by simp [h]); simp [this]
      · simp only [List.mem_cons] at h
        rcases h with rfl | rfl | h
        · simp
        · have := ih (c, t') (by simp); simp at this; simp [this]
        · have := ih p (by simp [h]); simp [this]
    · simp only [List.mem_singleton] at h
      subst h; simp

omit hT in
theorem expand_group : ∀ (l : List Nat), expandLocals (groupLocals l) = l
  | [] => by simp [groupLocals, expandLocals]
  | t :: r => by
    have ih := expand_group r
    simp only [groupLocals]
    split
    · rename_i c t' g hg
      rw [hg] at ih
      split
      · rename_i heq
        subst heq
        simp only [expandLocals] at ih ⊢
        rw [← ih, List.replicate_succ]; simp
      · simp only [expandLocals] at ih ⊢
        rw [← ih]; simp
    · rename_i hg
      rw [hg] at ih
      simp only [expandLocals] at ih ⊢
      rw [← ih]; simp

omit hT in
theorem groupsCanon_group : ∀ (l : List Nat), groupsCanon (groupLocals l) = true
  | [] => by simp [groupLocals, groupsCanon]
  | t :: r => by
    have ih := groupsCanon_group r
    simp only [groupLocals]
    split
    · rename_i c t' g hg
      rw [hg] at ih
      split
      · rename_i heq
        subst heq
        simp only [groupsCanon, Bool.and_eq_true, decide_eq_true_eq] at ih ⊢
        exact ⟨⟨by omega, ih.1.2⟩, ih.2⟩
      · rename_i hne
        simp only [groupsCanon, Bool.and_eq_true, decide_eq_true_eq] at ih ⊢
        exact ⟨⟨by omega, by simpa using hne⟩, ih⟩
    · simp [groupsCanon]

theorem rFunc_enc (strict : Bool) (f : Func) (rest : Bytes)
    (h : (f.locals.all (typeOk T) && exprOk T f.body) = true) :
    rFunc T strict (encFunc T f ++ rest) = .ok ((f.locals, f.body), rest) := by
  simp only [Bool.and_eq_true, List.all_eq_true] at h
  have hg := rVec_enc strict (do let c ← rU strict; let t ← rType T; pure (c, t))
    (fun (p : Nat × Nat) => encU p.1 ++ encType T p.2) (groupLocals f.locals) (encInstrs T f.body ++ [0x0B])
    (fun p hp r => by
      have := rType_enc hT p.2 r (h.1 _ (groupLocals_mem _ p hp))
      simp [rU_enc, this])
  have hb := rExpr_body_enc hT strict f.body [] h.2
  have hbody : rFuncBody T strict (encFuncBody T f) = .ok ((f.locals, f.body), []) := by
    simp only [encFuncBody, List.append_assoc]
    simp [rFuncBody, hg, groupsCanon_group, hb, expand_group]
  have := rSub_enc (rFuncBody T strict) (encFuncBody T f) rest _ hbody
  simp [rFunc, encFunc, encSized, rU_enc, this]

theorem rData_enc (strict : Bool) (d : Data) (rest : Bytes) (h : dataOk T d = true) :
    rData T strict (encData T d ++ rest) = .ok (d, rest) := by
  obtain ⟨mode, bytes⟩ := d
  have h1 : encU 1 = [1] := encU_small 1 (by omega)
  have h0 : encU 0 = [0] := encU_small 0 (by omega)
  have h2 : encU 2 = [2] := encU_small 2 (by omega)
  cases mode with
  | none =>
    have hu := rU_enc strict 1 (encSized bytes ++ rest)
    simp only [h1, List.cons_append, List.nil_append] at hu
    simp [rData, encData, h1, hu, rSizedBytes_enc]
  | some mo =>
    obtain ⟨mem, off⟩ := mo
    simp only [dataOk] at h
    by_cases hm : mem = 0
    · subst hm
      have hu := rU_enc strict 0 (encExpr T off ++ (encSized bytes ++ rest))
      simp only [h0, List.cons_append, List.nil_append] at hu
      simp [rData, encData, h0, hu, rExpr_enc hT strict off _ h, rSizedBytes_enc]
    · have hpos : mem > 0 := Nat.pos_of_ne_zero hm
      have hu := rU_enc strict 2 (encU mem ++ (encExpr T off ++ (encSized bytes ++ rest)))
      simp only [h2, List.cons_append, List.nil_append] at hu
      simp [rData, encData, hpos, h2, hu, rU_enc, rExpr_enc hT strict off _ h, rSizedBytes_enc]

omit hT in
theorem rCustom_enc (strict : Bool) (c : Custom) (h : utf8Valid c.name = true) :
    rCustom strict (encCustom c) = .ok (c, []) := by
  have := rName_enc strict c.name c.data h
  simp [rCustom, encCustom, this]

/-! ### sections -/

omit hT in
/-- section framing: `id, size, payload` is split off exactly -/
theorem rFrame_enc (strict : Bool) (id : Nat) (hid : id < 128) (payload rest : Bytes) :
    rFrame strict (encSection id payload ++ rest) = .ok ((id, payload), rest) := by
  simp [rFrame, encSection, encU_small id hid, rSizedBytes_enc]

omit hT in
theorem rSections_mono (strict : Bool) : ∀ (f : Nat) (st : RState) (bs : Bytes) (r : RState × Bytes) (f' : Nat),
    rSections T strict f st bs = .ok r → f ≤ f' → rSections T strict f' st bs = .ok r
  | 0, _, _, _, _, h, _ => by simp [rSections] at h
  | f + 1, st, bs, r, f', h, hf => by
    obtain ⟨g, rfl⟩ : ∃ g, f' = g + 1 := ⟨f' - 1, by omega⟩
    simp only [rSections] at h ⊢
    split at h
    · rename_i he; simp [he, h]
    · rename_i he
      simp only [he]
      split at h
      · simp at h
      · rename_i id payload rest hfr
        split at h
        · simp at h
        · rename_i st' rem hb
          split at h
          · rename_i hrem
            simp only [hrem, if_true]
            exact rSections_mono strict f st' rest r g h (by omega)
          · simp at h

/-- the section loop, started in `st` on `bs`, ends in a state satisfying `Q` -/
def ReadsTo (T : Tables) (strict : Bool) (st : RState) (bs : Bytes) (Q : RState → Prop) : Prop :=
  ∃ f, f ≤ bs.length + 1 ∧ ∃ st', rSections T strict f st bs = .ok (st', []) ∧ Q st'

omit hT in
theorem readsTo_nil (strict : Bool) (st : RState) (Q : RState → Prop) (h : Q st) : ReadsTo T strict st [] Q :=
  ⟨1, by simp, st, by simp [rSections], h⟩

omit hT in
theorem readsTo_section (strict : Bool) (st st' : RState) (id : Nat) (hid : id < 128) (payload rest : Bytes)
    (Q : RState → Prop) (hbody : rSectionBody T strict st id payload = .ok (st', []))
    (hrest : ReadsTo T strict st' rest Q) : ReadsTo T strict st (encSection id payload ++ rest) Q := by
  obtain ⟨f, hf, st'', hr, hq⟩ := hrest
  refine ⟨f + 1, ?_, st'', ?_, hq⟩
  · have : 1 ≤ (encSection id payload).length := by simp [encSection, encU_small id hid]
    simp only [List.length_append]; omega
  · have hne : (encSection id payload ++ rest).isEmpty = false := by
      simp [encSection, encU_small id hid]
    simp only [rSections, hne, rFrame_enc strict id hid, hbody]
    simpa using hr

omit hT in
/-- tail of every vector-section arm of `rSectionBody` -/
theorem vec_body {α} (strict : Bool) (p : P α) (enc : α → Bytes) (mk : α → Def) (xs : List α) (st : RState)
    (hp : ∀ x ∈ xs, ∀ r, p (enc x ++ r) = .ok (x, r)) (hne : xs ≠ []) :
    (do let ys ← rVec strict p; addDefs strict st mk ys) (encVec enc xs) =
      .ok ({ st with defs := st.defs ++ xs.map mk }, []) := by
  have h := rVec_enc strict p enc xs [] hp
  simp only [List.append_nil] at h
  have he : xs.isEmpty = false := by cases xs <;> simp_all
  simp [h, addDefs, he]

/-- relation between the state before and after an (optional) section with id `id` -/
structure Step (st st' : RState) (id : Nat) (newDefs : List Def) : Prop where
  last : st'.last ≤ id
  defs : st'.defs = st.defs ++ newDefs
  t4f : st'.type4func = st.type4func
  nfuncs : st'.nfuncs = st.nfuncs

omit hT in
/-- an optional vector section handled by `addDefs` -/
theorem readsTo_vec {α} (strict : Bool) (id : Nat) (_hid0 : 0 < id) (hid : id < 128) (enc : α → Bytes) (mk : α → Def)
    (xs : List α) (st : RState) (rest : Bytes) (Q : RState → Prop) (hlast : st.last < id)
    (hbody : xs ≠ [] → rSectionBody T strict st id (encVec enc xs) =
      .ok ({ st with last := id, defs := st.defs ++ xs.map mk }, []))
    (hcont : ∀ st', Step st st' id (xs.map mk) → ReadsTo T strict st' rest Q) :
    ReadsTo T strict st (encVecSection id enc xs ++ rest) Q := by
  by_cases hx : xs = []
  · subst hx
    simpa [encVecSection] using hcont st ⟨by omega, by simp, rfl, rfl⟩
  · have he : xs.isEmpty = false := by cases xs <;> simp_all
    simp only [encVecSection, he]
    exact readsTo_section strict st _ id hid _ rest Q (hbody hx) (hcont _ ⟨by simp, rfl, rfl, rfl⟩)

omit hT in
theorem orderOk_of_lt (last id : Nat) (h0 : 0 < id) (h : last < id) : orderOk last id = true := by
  have : id ≠ 0 := by omega
  simp [orderOk, this, h]

theorem body_types (strict : Bool) (st : RState) (xs : List FuncType) (hl : st.last < 1) (hne : xs ≠ [])
    (hv : ∀ x ∈ xs, (x.params.all (typeOk T) && x.results.all (typeOk T)) = true) :
    rSectionBody T strict st 1 (encVec (encFuncType T) xs) =
      .ok ({ st with last := 1, defs := st.defs ++ xs.map Def.type }, []) := by
  have := vec_body strict (rFuncType T strict) (encFuncType T) Def.type xs { st with last := 1 }
    (fun x hx r => rFuncType_enc hT strict x r (hv x hx)) hne
  simp only [bind_apply] at this
  simpa [rSectionBody, orderOk_of_lt _ _ (by omega) hl] using this

theorem body_imports (strict : Bool) (st : RState) (xs : List Import) (hl : st.last < 2) (hne : xs ≠ [])
    (hv : ∀ x ∈ xs, importOk T x = true) :
    rSectionBody T strict st 2 (encVec (encImport T) xs) =
      .ok ({ st with last := 2, defs := st.defs ++ xs.map Def.imp }, []) := by
  have := vec_body strict (rImport T strict) (encImport T) Def.imp xs { st with last := 2 }
    (fun x hx r => rImport_enc hT strict x r (hv x hx)) hne
  simp only [bind_apply] at this
  simpa [rSectionBody, orderOk_of_lt _ _ (by omega) hl] using this

theorem body_tables (strict : Bool) (st : RState) (xs : List Table) (hl : st.last < 4) (hne : xs ≠ [])
    (hv : ∀ x ∈ xs, (x.kind == T.funcref || x.kind == T.externref) = true) :
    rSectionBody T strict st 4 (encVec (encTable T) xs) =
      .ok ({ st with last := 4, defs := st.defs ++ xs.map Def.table }, []) := by
  have := vec_body strict (rTable T strict) (encTable T) Def.table xs { st with last := 4 }
    (fun x hx r => rTable_enc hT strict x r (hv x hx)) hne
  simp only [bind_apply] at this
  simpa [rSectionBody, orderOk_of_lt _ _ (by omega) hl] using this

omit hT in
theorem body_memories (strict : Bool) (st : RState) (xs : List Limits) (hl : st.last < 5) (hne : xs ≠ []) :
    rSectionBody T strict st 5 (encVec encLimits xs) =
      .ok ({ st with last := 5, defs := st.defs ++ xs.map Def.memory }, []) := by
  have := vec_body strict (rLimits strict) encLimits Def.memory xs { st with last := 5 }
    (fun x _ r => rLimits_enc strict x r) hne
  simp only [bind_apply] at this
  simpa [rSectionBody, orderOk_of_lt _ _ (by omega) hl] using this

theorem body_globals (strict : Bool) (st : RState) (xs : List Global) (hl : st.last < 6) (hne : xs ≠ [])
    (hv : ∀ x ∈ xs, (typeOk T x.ty && exprOk T x.init) = true) :
    rSectionBody T strict st 6 (encVec (encGlobal T) xs) =
      .ok ({ st with last := 6, defs := st.defs ++ xs.map Def.global }, []) := by
  have := vec_body strict (rGlobal T strict) (encGlobal T) Def.global xs { st with last := 6 }
    (fun x hx r => rGlobal_enc hT strict x r (hv x hx)) hne
  simp only [bind_apply] at this
  simpa [rSectionBody, orderOk_of_lt _ _ (by omega) hl] using this

omit hT in
theorem body_exports (strict : Bool) (st : RState) (xs : List Export) (hl : st.last < 7) (hne : xs ≠ [])
    (hv : ∀ x ∈ xs, (utf8Valid x.name && decide (x.kind < 4)) = true) :
    rSectionBody T strict st 7 (encVec encExport xs) =
      .ok ({ st with last := 7, defs := st.defs ++ xs.map Def.export }, []) := by
  have := vec_body strict (rExport strict) encExport Def.export xs { st with last := 7 }
    (fun x hx r => rExport_enc strict x r (hv x hx)) hne
  simp only [bind_apply] at this
  simpa [rSectionBody, orderOk_of_lt _ _ (by omega) hl] using this

theorem body_elems (strict : Bool) (st : RState) (xs : List Elem) (hl : st.last < 9) (hne : xs ≠ [])
    (hv : ∀ x ∈ xs, elemOk T x = true) :
    rSectionBody T strict st 9 (encVec (encElem T) xs) =
      .ok ({ st with last := 9, defs := st.defs ++ xs.map Def.elem }, []) := by
  have := vec_body strict (rElem T strict) (encElem T) Def.elem xs { st with last := 9 }
    (fun x hx r => rElem_enc hT strict x r (hv x hx)) hne
  simp only [bind_apply] at this
  simpa [rSectionBody, orderOk_of_lt _ _ (by omega) hl] using this

theorem body_datas (strict : Bool) (st : RState) (xs : List Data) (hl : st.last < 11) (hne : xs ≠ [])
    (hv : ∀ x ∈ xs, dataOk T x = true) :
    rSectionBody T strict st 11 (encVec (encData T) xs) =
      .ok ({ st with last := 11, defs := st.defs ++ xs.map Def.data }, []) := by
  have := vec_body strict (rData T strict) (encData T) Def.data xs { st with last := 11 }
    (fun x hx r => rData_enc hT strict x r (hv x hx)) hne
  simp only [bind_apply] at this
  simpa [rSectionBody, orderOk_of_lt _ _ (by omega) hl] using this

omit hT in
theorem body_start (strict : Bool) (st : RState) (x : Nat) (hl : st.last < 8) :
    rSectionBody T strict st 8 (encU x) = .ok ({ st with last := 8, defs := st.defs ++ [Def.start x] }, []) := by
  have := rU_enc strict x []
  simp only [List.append_nil] at this
  simp [rSectionBody, orderOk_of_lt _ _ (by omega) hl, this]

omit hT in
theorem body_datacount (strict : Bool) (st : RState) (x : Nat) (hl : st.last < 12) :
    rSectionBody T strict st 12 (encU x) = .ok ({ st with last := 12, defs := st.defs ++ [Def.datacount x] }, []) := by
  have := rU_enc strict x []
  simp only [List.append_nil] at this
  simp [rSectionBody, orderOk_of_lt _ _ (by omega) hl, this]

omit hT in
theorem body_custom (strict : Bool) (st : RState) (c : Custom) (hl : st.last = 0) (hv : utf8Valid c.name = true) :
    rSectionBody T strict st 0 (encCustom c) = .ok ({ st with last := 0, defs := st.defs ++ [Def.custom c] }, []) := by
  simp [rSectionBody, orderOk, hl, rCustom_enc strict c hv]

omit hT in
theorem body_function (strict : Bool) (st : RState) (fs : List Func) (hl : st.last < 3) (hne : fs ≠ []) :
    rSectionBody T strict st 3 (encVec (fun (f : Func) => encU f.typeIdx) fs) =
      .ok ({ st with last := 3, type4func := fs.map (·.typeIdx) ++ st.type4func.drop fs.length }, []) := by
  have he : encVec (fun (f : Func) => encU f.typeIdx) fs = encVec encU (fs.map (·.typeIdx)) := by
    simp [encVec, List.flatMap_map]
  have h := rVec_enc strict (rU strict) encU (fs.map (·.typeIdx)) [] (fun x _ r => rU_enc strict x r)
  simp only [List.append_nil] at h
  have hne' : (fs.map (·.typeIdx)).isEmpty = false := by cases fs <;> simp_all
  rw [he]
  simp [rSectionBody, orderOk_of_lt _ _ (by omega) hl, h, hne']

theorem rFuncs_enc (strict : Bool) (t4f : List Nat) : ∀ (fs : List Func) (pre : List Nat) (rest : Bytes),
    t4f = pre ++ fs.map (·.typeIdx) → (∀ f ∈ fs, (f.locals.all (typeOk T) && exprOk T f.body) = true) →
    rFuncs T strict t4f fs.length pre.length (fs.flatMap (encFunc T) ++ rest) = .ok (fs, rest)
  | [], _, rest, _, _ => by simp [rFuncs]
  | f :: fs, pre, rest, ht, hv => by
    have h1 := rFunc_enc hT strict f (fs.flatMap (encFunc T) ++ rest) (hv f (by simp))
    have hidx : t4f[pre.length]? = some f.typeIdx := by simp [ht]
    have ih := rFuncs_enc strict t4f fs (pre ++ [f.typeIdx]) rest (by simp [ht]) (fun g hg => hv g (by simp [hg]))
    simp only [List.length_append, List.length_singleton] at ih
    simp [rFuncs, h1, hidx, ih]

theorem body_code (strict : Bool) (st : RState) (fs : List Func) (hl : st.last < 10) (hne : fs ≠ [])
    (ht : st.type4func = fs.map (·.typeIdx))
    (hv : ∀ f ∈ fs, (f.locals.all (typeOk T) && exprOk T f.body) = true) :
    rSectionBody T strict st 10 (encVec (encFunc T) fs) =
      .ok ({ st with last := 10, defs := st.defs ++ fs.map Def.func, nfuncs := st.nfuncs + fs.length }, []) := by
  have h := rFuncs_enc hT strict st.type4func fs [] [] (by simpa using ht) hv
  simp only [List.append_nil, List.length_nil] at h
  have he : fs.isEmpty = false := by cases fs <;> simp_all
  simp [rSectionBody, orderOk_of_lt _ _ (by omega) hl, encVec, rU_enc, h, he]

end Sane

end Proofs.WasmBin
