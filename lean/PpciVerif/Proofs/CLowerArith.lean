import PpciVerif.Model.CLower
import PpciVerif.Model.CBridge
import PpciVerif.Proofs.CExpr
/-!
Operator-level lemmas for C01: the IR instruction the C front-end chooses (`Spec.IR` /
`Spec.IRArith` semantics at the IR type `I σ` of the C type `σ`) computes the value
`Spec.CInt` prescribes, whenever C prescribes one.
-/
set_option linter.unusedSimpArgs false
set_option linter.unusedVariables false
namespace Proofs.CLower
open Model.CType (TExpr coerce promoteTy commonType)
open Model.CLower Model.CBridge Spec.IRExpr
open Spec.CInt (Base Suffix UnOp BinOp inRange convert promote uac arith ofBool evalArith evalShift evalCmp evalUn
  litType ofU toU)
open Proofs.CEval (convert_inRange convert_of_inRange inRange_promote convert_eq_mod convert_congr convert_unsigned)
open Proofs.CExpr

abbrev STy := Spec.CInt.Ty
abbrev MTy := Model.CType.Ty

/-- the IR type of a C type -/
def I (σ : STy) : ITy := irTy (M σ)

theorem I_bits (σ : STy) : (I σ).bits = σ.bits := by cases σ <;> rfl
theorem I_signed (σ : STy) : (I σ).signed = σ.signed := by cases σ <;> rfl

/-- `ir.Cast` to the IR type of `σ` is C's conversion to `σ` (6.3.1.3, gcc's choice for the signed case) -/
theorem wrap_eq_convert (σ : STy) (v : Int) : Spec.IRArith.wrap (I σ) v = convert σ v := by
  rw [convert_eq_mod]
  cases σ <;>
    simp only [I, M, irTy, Spec.IRArith.wrap, Spec.IRArith.Ty.signed, Spec.IRArith.Ty.bits, Spec.CInt.Ty.signed,
      Spec.CInt.Ty.bits, if_true, if_false, Bool.false_eq_true, Nat.reduceSub, Int.reducePow] <;>
    omega

theorem inRange_iff (σ : STy) (v : Int) : Spec.IRArith.InRange (I σ) v ↔ inRange σ v = true := by
  cases σ <;>
    simp [I, M, irTy, Spec.IRArith.InRange, Spec.IRArith.Ty.minVal, Spec.IRArith.Ty.maxVal, Spec.IRArith.Ty.signed,
      Spec.IRArith.Ty.bits, inRange, Spec.CInt.Ty.minV, Spec.CInt.Ty.maxV, Spec.CInt.Ty.signed, Spec.CInt.Ty.bits]

theorem wrap_of_inRange {σ : STy} {v : Int} (h : inRange σ v = true) : Spec.IRArith.wrap (I σ) v = v := by
  rw [wrap_eq_convert]; exact convert_of_inRange h

theorem minVal_I (σ : STy) : (I σ).minVal = σ.minV := by cases σ <;> rfl

/-! ### typing tables -/

theorem M_S (τ : MTy) : M (S τ) = τ := by cases τ <;> rfl

theorem promoteTy_M (σ : STy) : promoteTy (M σ) = M (promote σ) := by cases σ <;> decide

theorem commonType_M (a b : STy) : commonType (M (promote a)) (M (promote b)) = M (uac a b) := by
  cases a <;> cases b <;> decide

theorem commonType_self (τ : MTy) : commonType τ τ = τ := by cases τ <;> rfl

/-- types with the same `BasicType` have the same values -/
theorem inRange_of_M_eq {σ σ' : STy} (h : M σ = M σ') (v : Int) : inRange σ v = inRange σ' v := by
  cases σ <;> cases σ' <;> first | rfl | cases h

theorem convert_of_M_eq {σ σ' : STy} (h : M σ = M σ') (v : Int) : convert σ v = convert σ' v := by
  cases σ <;> cases σ' <;> first | rfl | cases h

/-! ### instructions -/

theorem evalConst_int (t : ITy) (v : Int) :
    valOf (Spec.IR.evalConst cfg (.int t) (.int v)) = some (Spec.IRArith.wrap t v) := rfl

theorem evalCast_int (t : ITy) (v : Int) :
    valOf (Spec.IR.evalCast cfg (.int t) (.int v)) = some (Spec.IRArith.wrap t v) := rfl

theorem evalCond_int (c : Spec.IR.Cond) (x y : Int) :
    boolOf (Spec.IR.evalCond c (.int x) (.int y)) = some (match c with
      | .eq => x == y | .ne => x != y | .lt => decide (x < y) | .gt => decide (x > y)
      | .le => decide (x ≤ y) | .ge => decide (x ≥ y)) := rfl

theorem evalBinop_int (t : ITy) (op : Spec.IR.BinOp) (o : Spec.IRArith.Op) (h : op.arith? = some o) (x y : Int) :
    valOf (Spec.IR.evalBinop cfg (.int t) op (.int x) (.int y)) = Spec.IRArith.binop t o x y := by
  simp only [Spec.IR.evalBinop, Spec.IR.intBinop, h]
  cases Spec.IRArith.binop t o x y <;> rfl

theorem evalUnop_neg (t : ITy) (x : Int) :
    valOf (Spec.IR.evalUnop cfg (.int t) .neg (.int x)) = some (Spec.IRArith.wrap t (-x)) := rfl

theorem evalUnop_not (t : ITy) (x : Int) :
    valOf (Spec.IR.evalUnop cfg (.int t) .not (.int x)) = some (Spec.IRArith.wrap t (-x - 1)) := rfl

/-! ### `+ - *`, unary `-` -/

theorem arith_wrap {σ : STy} {m r : Int} (h : arith σ m = some r) : Spec.IRArith.wrap (I σ) m = r := by
  rw [wrap_eq_convert]
  unfold arith at h
  split at h
  · split at h
    · rename_i hr; injection h with h; subst h; exact convert_of_inRange hr
    · cases h
  · rename_i hs; injection h with h; subst h
    exact convert_unsigned (by simpa using hs) m

/-! ### `/ %` -/

theorem unsigned_nonneg {σ : STy} (hs : σ.signed = false) {x : Int} (hx : inRange σ x = true) : 0 ≤ x := by
  revert hs hx
  cases σ <;> simp [inRange, Spec.CInt.Ty.signed, Spec.CInt.Ty.minV, Spec.CInt.Ty.maxV, Spec.CInt.Ty.bits] <;> omega

theorem min_not_neg_inRange {σ : STy} (hs : σ.signed = true) : inRange σ (-σ.minV) = false := by
  revert hs
  cases σ <;> simp [inRange, Spec.CInt.Ty.signed, Spec.CInt.Ty.minV, Spec.CInt.Ty.maxV, Spec.CInt.Ty.bits]

theorem tdiv_neg_one (x : Int) : Int.tdiv x (-1) = -x := by
  rw [Int.tdiv_neg, Int.tdiv_one]

/-- a quotient C defines is not one of the two undefined cases of the IR division -/
theorem not_divUndefined {σ : STy} {x y : Int} (hy : y ≠ 0) (hq : inRange σ (Int.tdiv x y) = true) :
    ¬ Spec.IRArith.divUndefined (I σ) x y := by
  intro h
  rcases h with h | ⟨hs, hx, hy1⟩
  · exact hy h
  · rw [I_signed] at hs
    rw [minVal_I] at hx
    subst hx; subst hy1
    rw [tdiv_neg_one, min_not_neg_inRange hs] at hq
    cases hq

theorem udiv_inRange {σ : STy} (hs : σ.signed = false) {x y : Int} (hx : inRange σ x = true) (hy : inRange σ y = true) :
    inRange σ (Int.tdiv x y) = true := by
  have h0 := unsigned_nonneg hs hx
  have h1 := unsigned_nonneg hs hy
  have h2 : 0 ≤ Int.tdiv x y := Int.tdiv_nonneg h0 h1
  have h3 : Int.tdiv x y ≤ x := Int.tdiv_le_self y h0
  revert hs hx
  cases σ <;> simp [inRange, Spec.CInt.Ty.signed, Spec.CInt.Ty.minV, Spec.CInt.Ty.maxV, Spec.CInt.Ty.bits] <;> omega

/-- the quotient whose value `arith` accepts lies in the range of the type -/
theorem div_quot_inRange {σ : STy} {x y r : Int} (hx : inRange σ x = true) (hy : inRange σ y = true)
    (h : arith σ (Int.tdiv x y) = some r) : inRange σ (Int.tdiv x y) = true ∧ r = Int.tdiv x y := by
  cases hs : σ.signed with
  | true =>
    unfold arith at h
    simp only [hs, if_true] at h
    split at h
    · rename_i hr; injection h with h; exact ⟨hr, h.symm⟩
    · cases h
  | false =>
    have hq := udiv_inRange hs hx hy
    refine ⟨hq, ?_⟩
    have := arith_wrap h
    rw [wrap_of_inRange hq] at this
    exact this.symm

/-! ### shifts -/

theorem small_inRange (σ : STy) {c : Int} (h0 : 0 ≤ c) (h1 : c < 64) : inRange σ c = true := by
  cases σ <;> simp [inRange, Spec.CInt.Ty.signed, Spec.CInt.Ty.minV, Spec.CInt.Ty.maxV, Spec.CInt.Ty.bits] <;> omega

theorem bits_le_64 (σ : STy) : (σ.bits : Int) ≤ 64 := by cases σ <;> simp [Spec.CInt.Ty.bits]

/-- a shift count C accepts survives the conversions the front-end inserts -/
theorem count_convert (σ τ : STy) {c : Int} (h0 : 0 ≤ c) (h1 : c < τ.bits) : convert σ c = c :=
  convert_of_inRange (small_inRange σ h0 (by have := bits_le_64 τ; omega))

theorem ushr_eq {x : Int} (hx : 0 ≤ x) (n : Nat) : Int.ofNat (x.toNat >>> n) = x / 2 ^ n := by
  rw [Nat.shiftRight_eq_div_pow]
  show ((x.toNat / 2 ^ n : Nat) : Int) = x / 2 ^ n
  rw [Int.natCast_ediv, Int.toNat_of_nonneg hx, Int.natCast_pow]
  rfl

/-- `<<` and `>>` : the IR shift at the type of the promoted left operand -/
theorem shift_binop {op : BinOp} {o : Spec.IRArith.Op} (ho : (op = .shl ∧ o = .shl) ∨ (op = .shr ∧ o = .shr))
    {σ : STy} {x c r : Int} (hx : inRange σ x = true) (h : evalShift op σ x c = some r) :
    Spec.IRArith.binop (I σ) o x c = some r := by
  unfold evalShift at h
  split at h
  · cases h
  · rename_i hc
    have hc0 : 0 ≤ c := by omega
    have hc1 : c < σ.bits := by omega
    have hok : Spec.IRArith.shiftOk (I σ) c := by
      unfold Spec.IRArith.shiftOk; rw [I_bits]; exact ⟨hc0, hc1⟩
    rcases ho with ⟨rfl, rfl⟩ | ⟨rfl, rfl⟩
    · simp only [Spec.IRArith.binop, hok, if_true]
      simp only at h
      split at h
      · split at h
        · cases h
        · split at h
          · rename_i hr; injection h with h; subst h
            rw [wrap_of_inRange hr]
          · cases h
      · rename_i hs; injection h with h; subst h
        rw [wrap_eq_convert, convert_unsigned (by simpa using hs)]
    · simp only [Spec.IRArith.binop, hok, if_true]
      simp only at h
      injection h with h; subst h
      rw [I_signed]
      cases hs : σ.signed with
      | true => simp
      | false =>
        simp only [Bool.false_eq_true, if_false]
        rw [ushr_eq (unsigned_nonneg hs hx)]

/-! ### `& | ^ ~` -/

theorem toBits_eq (σ : STy) (x : Int) : Spec.IRArith.toBits (I σ) x = toU σ x := by
  simp only [Spec.IRArith.toBits, toU, I_bits]

theorem ofBits_eq (σ : STy) (n : Nat) : Spec.IRArith.ofBits (I σ) n = ofU σ n := by
  simp only [Spec.IRArith.ofBits, ofU, wrap_eq_convert]; rfl

theorem bnot_wrap (σ : STy) (x : Int) : Spec.IRArith.wrap (I σ) (-x - 1) = ofU σ (2 ^ σ.bits - 1 - toU σ x) := by
  rw [wrap_eq_convert, ← Proofs.CEval.toIntegerType_eq_convert]
  exact Proofs.CEval.bnot_fit σ x

/-! ### the arithmetic operators together -/

/-- the `ir.Binop` operator of an arithmetic C operator -/
def arithOp : BinOp → Option Spec.IRArith.Op
  | .add => some .add | .sub => some .sub | .mul => some .mul | .div => some .div | .mod => some .rem
  | .band => some .and | .bor => some .or | .bxor => some .xor
  | _ => none

theorem arith_binop {op : BinOp} {o : Spec.IRArith.Op} (ho : arithOp op = some o) {σ : STy} {x y r : Int}
    (hx : inRange σ x = true) (hy : inRange σ y = true) (h : evalArith op σ x y = some r) :
    Spec.IRArith.binop (I σ) o x y = some r := by
  cases op <;> simp only [arithOp, Option.some.injEq] at ho <;> (try cases ho) <;>
    simp only [evalArith] at h
  case add => simp only [Spec.IRArith.binop, arith_wrap h]
  case sub => simp only [Spec.IRArith.binop, arith_wrap h]
  case mul => simp only [Spec.IRArith.binop, arith_wrap h]
  case div =>
    split at h
    · cases h
    · rename_i hy0
      have ⟨hq, hr⟩ := div_quot_inRange hx hy h
      simp only [Spec.IRArith.binop, not_divUndefined hy0 hq, if_false, hr]
  case mod =>
    split at h
    · cases h
    · rename_i hy0
      split at h
      · rename_i hq
        injection h with h; subst h
        simp only [Spec.IRArith.binop, not_divUndefined hy0 hq, if_false]
      · cases h
  case band => injection h with h; subst h; simp only [Spec.IRArith.binop, toBits_eq, ofBits_eq]
  case bor => injection h with h; subst h; simp only [Spec.IRArith.binop, toBits_eq, ofBits_eq]
  case bxor => injection h with h; subst h; simp only [Spec.IRArith.binop, toBits_eq, ofBits_eq]

end Proofs.CLower
