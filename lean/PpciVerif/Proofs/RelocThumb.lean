import PpciVerif.Proofs.Reloc
/-! thumb relocations: `wrap_new11` (B T2), `rel8` (B<c> T1), `lit8` (LDR literal), `bl_imm11` (BL). -/
namespace Proofs.Reloc
open Model.Token Model.Reloc Proofs.Token Spec.RelocSem

theorem align2_even {P : Int} (h : P % 2 = 0) : align P 2 = P := by
  unfold align
  have : (-P) % ((2 : Nat) : Int) = 0 := by norm_num; omega
  rw [this]; ring

theorem inRangeStep_ok {v a b : Int} {s : Nat} (h : inRangeStep v a b s = true) :
    a ≤ v ∧ v < b ∧ (v - a) % (s : Int) = 0 := by
  unfold inRangeStep at h; simpa using h

theorem data2' {data : List Nat} (hlen : data.length = 2) : ∃ b0 b1, data = [b0, b1] := by
  match data, hlen with
  | [b0, b1], _ => exact ⟨b0, b1, rfl⟩

/-! ### `wrap_new11`: `bv[0:11] = imm11` on the halfword -/

theorem wrapNew11_ok {S P : Int} {data out : List Nat} (hlen : data.length = 2) (hb : Bytes data)
    (hP : P % 2 = 0) (h : Thumb.wrapNew11 S data P = .ok out) :
    -2048 ≤ S - (P + 4) ∧ S - (P + 4) < 2046 ∧ (S - (P + 4)) % 2 = 0
      ∧ out = toLE 2 (writeBits 16 (fromLE data) 0 11 (stored 11 ((S - (P + 4)) / 2))) := by
  unfold Thumb.wrapNew11 at h
  rw [align2_even hP] at h
  obtain ⟨_, a1, h⟩ := bind_ok h
  obtain ⟨r, a2, h⟩ := bind_ok h
  obtain ⟨r1, r2, r3⟩ := inRangeStep_ok (assert_ok a1)
  obtain ⟨w1, w2, rfl⟩ := wrapNegative_ok a2
  obtain ⟨hd, hw⟩ := dataN hlen hb
  rw [hd, bvSet_word 2 _ 2 0 11 _ hw (by decide) (by decide) (by decide)
    (by have := emod_range ((S - (P + 4)) / 2) 11; simpa using this.2)] at h
  cases h
  refine ⟨r1, r2, by norm_num at r3; omega, ?_⟩
  have := stored_emod 11 ((S - (P + 4)) / 2)
  simp only [Nat.sub_zero] at this ⊢
  rw [this]

/-- `wrap_new11` checks its range exactly: every accepted reference is resolved exactly (no guard) -/
theorem wrapNew11_target {S P : Int} {data out : List Nat} (hlen : data.length = 2) (hb : Bytes data)
    (hP : P % 2 = 0) (h : Thumb.wrapNew11 S data P = .ok out) : thumbBTarget (wordLE out) P = S := by
  obtain ⟨h1, h2, h3, rfl⟩ := wrapNew11_ok hlen hb hP h
  unfold thumbBTarget
  rw [wordLE_eq, fromLE_toLE _ _ (writeBits_lt (stored_lt _ _) (by decide)),
    bits_write_same (stored_lt _ _) (by decide)]
  push_cast
  rw [stored_cast]
  unfold Spec.Bits.wrapS
  norm_num
  split <;> omega

/-! ### `rel8` and `lit8`: `data[0] = value` -/

theorem setByte0 {b0 b1 : Nat} {v : Int} {out : List Nat} (h : setByte [b0, b1] 0 v = .ok out) :
    0 ≤ v ∧ v < 256 ∧ out = [v.toNat, b1] := by
  unfold setByte at h
  split at h
  · cases h
  · rename_i hc
    simp only [List.length_cons, List.length_nil] at h
    norm_num at h
    cases h
    exact ⟨by omega, by omega, rfl⟩

theorem rel8_target {S P : Int} {data out : List Nat} (hlen : data.length = 2) (hb : Bytes data)
    (hP : P % 2 = 0) (h : Thumb.rel8 S data P = .ok out) : thumbBcTarget (wordLE out) P = S := by
  obtain ⟨b0, b1, rfl⟩ := data2' hlen
  unfold Thumb.rel8 at h
  rw [align2_even hP] at h
  obtain ⟨_, a0, h⟩ := bind_ok h
  obtain ⟨_, a1, h⟩ := bind_ok h
  obtain ⟨r, a2, h⟩ := bind_ok h
  obtain ⟨r1, r2, r3⟩ := inRangeStep_ok (assert_ok a1)
  obtain ⟨w1, w2, rfl⟩ := wrapNegative_ok a2
  obtain ⟨v0, v1, rfl⟩ := setByte0 h
  have hb1 : b1 < 256 := hb b1 (by simp)
  unfold thumbBcTarget bits wordLE wordLE wordLE
  have hv : (((S - (P + 4)) / 2 % 2 ^ 8).toNat : Int) = (S - (P + 4)) / 2 % 2 ^ 8 := Int.toNat_of_nonneg v0
  generalize ((S - (P + 4)) / 2 % 2 ^ 8).toNat = n at hv
  unfold Spec.Bits.wrapS
  norm_num at hv r3 ⊢
  split <;> omega

theorem alignP2 {P : Int} (hP : P % 2 = 0) : align (P + 2) 4 = alignDown4 (P + 4) := by
  unfold align alignDown4
  norm_num
  omega

theorem lit8_target {S P : Int} {data out : List Nat} (hlen : data.length = 2) (hb : Bytes data)
    (hP : P % 2 = 0) (h : Thumb.lit8 S data P = .ok out) : thumbLdrLitAddr (wordLE out) P = S := by
  obtain ⟨b0, b1, rfl⟩ := data2' hlen
  unfold Thumb.lit8 at h
  rw [alignP2 hP] at h
  obtain ⟨_, a0, h⟩ := bind_ok h
  obtain ⟨_, a1, h⟩ := bind_ok h
  obtain ⟨r1, r2, r3⟩ := inRangeStep_ok (assert_ok a1)
  obtain ⟨v0, v1, rfl⟩ := setByte0 h
  have hb1 : b1 < 256 := hb b1 (by simp)
  unfold thumbLdrLitAddr bits wordLE wordLE wordLE
  have hv : (((S - alignDown4 (P + 4)) / 4).toNat : Int) = (S - alignDown4 (P + 4)) / 4 := Int.toNat_of_nonneg v0
  generalize ((S - alignDown4 (P + 4)) / 4).toNat = n at hv
  norm_num at hv r3 ⊢
  unfold alignDown4 at *
  omega

/-! ### `bl_imm11` (BL; J1 = J2 = 1 as emitted by `Bl.encode`/`Bw.encode`) -/

def blWord (w : Nat) (i : Int) : Nat :=
  writeBits 32 (writeBits 32 (writeBits 32 w 0 10 (stored 10 (i / 2048 % 1024))) 10 1 (stored 1 (i / 16777216 % 2)))
    16 11 (stored 11 (i % 2048))

theorem blImm11_ok {S P : Int} {data out : List Nat} (hlen : data.length = 4) (hb : Bytes data)
    (hP : P % 2 = 0) (h : Thumb.blImm11 S data P = .ok out) :
    S % 2 = 0 ∧ -16777216 ≤ S - (P + 4) ∧ S - (P + 4) < 16777214
      ∧ out = toLE 4 (blWord (fromLE data) ((S - (P + 4)) / 2 % 2 ^ 32)) := by
  unfold Thumb.blImm11 at h
  rw [align2_even hP] at h
  obtain ⟨_, a0, h⟩ := bind_ok h
  obtain ⟨_, a1, h⟩ := bind_ok h
  obtain ⟨r, a2, h⟩ := bind_ok h
  obtain ⟨r1, r2, r3⟩ := inRangeStep_ok (assert_ok a1)
  obtain ⟨w1, w2, rfl⟩ := wrapNegative_ok a2
  obtain ⟨hd, hw⟩ := data4 hlen hb
  generalize fromLE data = w at hd hw
  subst hd
  simp only [bind, Except.bind] at h
  rw [bvSet_word 4 w 4 0 10 _ hw (by decide) (by decide) (by decide) (by norm_num; omega)] at h
  simp only at h
  rw [bvSet_word 4 _ 4 10 11 _ (writeBits_lt (stored_lt _ _) (by decide)) (by decide) (by decide) (by decide)
    (by norm_num; omega)] at h
  simp only at h
  rw [bvSet_word 4 _ 4 16 27 _ (writeBits_lt (stored_lt _ _) (by decide)) (by decide) (by decide) (by decide)
    (by norm_num; omega)] at h
  cases h
  exact ⟨even_of_beq (assert_ok a0), r1, r2, rfl⟩

theorem bits_mod {w k lo len : Nat} (h : lo + len ≤ k) : bits (w % 2 ^ k) lo len = bits w lo len := by
  unfold bits
  apply sliceVal_congr
  intro i h1 h2
  rw [Nat.testBit_mod_two_pow]
  have : i < k := by omega
  simp [this]

theorem bits_div (w k lo len : Nat) : bits (w / 2 ^ k) lo len = bits w (lo + k) len := by
  unfold bits
  rw [Nat.div_div_eq_div_mul, ← Nat.pow_add, Nat.add_comm]

/-- BL: with J1 = J2 = 1 in the instruction, a successful apply designates `S` whenever the distance fits
    23 bits (±4 MiB); the code accepts ±16 MiB (finding `BlImm11Relocation:wrong-target`) -/
theorem blImm11_target {S P : Int} {data out : List Nat} (hlen : data.length = 4) (hb : Bytes data)
    (hP : P % 2 = 0) (hj1 : bits (wordLE data) 29 1 = 1) (hj2 : bits (wordLE data) 27 1 = 1)
    (h : Thumb.blImm11 S data P = .ok out) (hfit : Spec.Bits.fitsS 23 (S - P - 4)) :
    thumbBlTarget (wordLE out) P = S := by
  obtain ⟨hS, r1, r2, rfl⟩ := blImm11_ok hlen hb hP h
  rw [wordLE_eq] at hj1 hj2
  rw [wordLE_eq, fromLE_toLE _ _ (by unfold blWord; exact writeBits_lt (stored_lt _ _) (by decide))]
  generalize fromLE data = w at *
  unfold thumbBlTarget
  simp only [show (65536 : Nat) = 2 ^ 16 from rfl]
  rw [bits_mod (by decide), bits_mod (by decide), bits_div, bits_div, bits_div]
  unfold blWord
  rw [bits_write_other (stored_lt _ _) (by decide) (by decide), bits_write_same (stored_lt _ _) (by decide)]
  rw [bits_write_other (stored_lt _ _) (by decide) (by decide), bits_write_other (stored_lt _ _) (by decide) (by decide),
    bits_write_other (stored_lt _ _) (by decide) (by decide), hj1]
  rw [bits_write_other (stored_lt _ _) (by decide) (by decide), bits_write_other (stored_lt _ _) (by decide) (by decide),
    bits_write_other (stored_lt _ _) (by decide) (by decide), hj2]
  rw [bits_write_other (stored_lt _ _) (by decide) (by decide), bits_write_other (stored_lt _ _) (by decide) (by decide),
    bits_write_same (stored_lt _ _) (by decide)]
  rw [bits_write_same (stored_lt _ _) (by decide)]
  have hs := stored_cast 1 ((S - (P + 4)) / 2 % 2 ^ 32 / 16777216 % 2)
  have h10 := stored_cast 10 ((S - (P + 4)) / 2 % 2 ^ 32 / 2048 % 1024)
  have h11 := stored_cast 11 ((S - (P + 4)) / 2 % 2 ^ 32 % 2048)
  generalize stored 1 ((S - (P + 4)) / 2 % 2 ^ 32 / 16777216 % 2) = s at *
  generalize stored 10 ((S - (P + 4)) / 2 % 2 ^ 32 / 2048 % 1024) = i10 at *
  generalize stored 11 ((S - (P + 4)) / 2 % 2 ^ 32 % 2048) = i11 at *
  unfold Spec.Bits.fitsS at hfit
  unfold Spec.Bits.wrapS
  norm_num at hs h10 h11 hfit ⊢
  have hs01 : s = 0 ∨ s = 1 := by omega
  rcases hs01 with rfl | rfl
  · simp only [if_neg (show ¬ (1 = 0) from by decide)]
    push_cast
    split <;> omega
  · simp only [if_true]
    push_cast
    split <;> omega

end Proofs.Reloc
