import PpciVerif.Model.Token
import PpciVerif.Spec.Field
import Mathlib.Tactic.Ring
import Mathlib.Tactic.Linarith
/-!
Lemmas about `Model.Token` (slices, `bit_range`, `bit_concat`) used by C10/C11 (and
reusable by C08/C13): exact acceptance region of `__setitem__`, what a write stores,
which bits it leaves alone (frame), and the `bit_concat` round trip.
-/
namespace Proofs.Token
open Model.Token Model.Tables

/-! ### reading a slice -/

theorem getSlice_ok (bv b e : Nat) (h : b < e) : getSlice bv b e = .ok (bv / 2 ^ b % 2 ^ (e - b)) := by
  unfold getSlice
  have h' : ¬ ¬ (e > b) := by omega
  simp only [h', if_false]
  congr 1
  apply Nat.eq_of_testBit_eq
  intro i
  simp only [Nat.one_shiftLeft, Nat.testBit_shiftRight, Nat.testBit_and, Nat.testBit_shiftLeft,
    Nat.testBit_two_pow_sub_one, Nat.testBit_mod_two_pow, Nat.testBit_div_two_pow]
  have : b + i - b = i := by omega
  have h2 : b + i ≥ b := by omega
  simp [this, h2, Nat.add_comm, Bool.and_comm]

theorem testBit_sliceVal (bv b w j : Nat) :
    (bv / 2 ^ b % 2 ^ w).testBit j = (decide (j < w) && bv.testBit (j + b)) := by
  simp [Nat.testBit_mod_two_pow, Nat.testBit_div_two_pow]

theorem sliceVal_lt (bv b w : Nat) : bv / 2 ^ b % 2 ^ w < 2 ^ w := Nat.mod_lt _ (Nat.two_pow_pos w)

/-- a slice read only depends on the bits of the slice -/
theorem sliceVal_congr {x y b w : Nat} (h : ∀ i, b ≤ i → i < b + w → x.testBit i = y.testBit i) :
    x / 2 ^ b % 2 ^ w = y / 2 ^ b % 2 ^ w := by
  apply Nat.eq_of_testBit_eq
  intro j
  rw [testBit_sliceVal, testBit_sliceVal]
  by_cases hj : j < w
  · simp [hj, h (j + b) (by omega) (by omega)]
  · simp [hj]


/-! ### writing a slice -/

/-- the raw bits `__setitem__` stores for an accepted value: `v` if `v ≥ 0`, else `2^w + v` -/
def stored (w : Nat) (v : Int) : Nat := (v % 2 ^ w).toNat

theorem pow_cast (w : Nat) : ((2 ^ w : Nat) : Int) = (2 : Int) ^ w := by
  induction w with
  | zero => rfl
  | succ n ih => rw [Nat.pow_succ, Int.pow_succ, ← ih]; simp

theorem two_pow_pos_int (w : Nat) : (0 : Int) < 2 ^ w := Int.pow_pos (by decide)

theorem stored_lt (w : Nat) (v : Int) : stored w v < 2 ^ w := by
  unfold stored
  have h1 : v % 2 ^ w < 2 ^ w := Int.emod_lt_of_pos _ (two_pow_pos_int w)
  have h0 : 0 ≤ v % 2 ^ w := Int.emod_nonneg _ (Int.ne_of_gt (two_pow_pos_int w))
  have : ((v % 2 ^ w).toNat : Int) < ((2 ^ w : Nat) : Int) := by rw [pow_cast, Int.toNat_of_nonneg h0]; exact h1
  exact Int.ofNat_lt.mp this

theorem stored_cast (w : Nat) (v : Int) : (stored w v : Int) = v % 2 ^ w := by
  unfold stored
  exact Int.toNat_of_nonneg (Int.emod_nonneg _ (Int.ne_of_gt (two_pow_pos_int w)))

/-- the word after an accepted write -/
abbrev written (size bv b w x : Nat) : Nat := writeBits size bv b w x

/-- EXACT acceptance region of `Token.__setitem__`: a `w`-bit slice accepts precisely `[-2^w, 2^w)`,
    and stores `v mod 2^w`. -/
theorem setSlice_accept (size bv b e : Nat) (v : Int) (h : b < e)
    (hlo : -(2 ^ (e - b)) ≤ v) (hhi : v < 2 ^ (e - b)) :
    setSlice size bv b e v = .ok (written size bv b (e - b) (stored (e - b) v)) := by
  unfold setSlice
  have h' : ¬ ¬ (e > b) := by omega
  have hp := pow_cast (e - b)
  have hpos := two_pow_pos_int (e - b)
  simp only [h', if_false, Nat.one_shiftLeft, hp]
  have c1 : ¬ (v ≥ 2 ^ (e - b)) := by omega
  simp only [c1, if_false]
  by_cases hneg : v < 0
  · simp only [hneg, if_true]
    have c2 : ¬ ¬ ((2 : Int) ^ (e - b) + v ≥ 0 ∧ (2 : Int) ^ (e - b) + v < 2 ^ (e - b)) := by omega
    simp only [c2, if_false]
    have : (2 : Int) ^ (e - b) + v = v % 2 ^ (e - b) := by
      have : (v + 2 ^ (e - b)) % 2 ^ (e - b) = v + 2 ^ (e - b) := Int.emod_eq_of_lt (by omega) (by omega)
      rw [Int.add_emod_right] at this
      omega
    simp [written, writeBits, stored, this, Nat.one_shiftLeft]
  · simp only [hneg, if_false]
    have c2 : ¬ ¬ (v ≥ 0 ∧ v < 2 ^ (e - b)) := by omega
    simp only [c2, if_false]
    have : v = v % 2 ^ (e - b) := (Int.emod_eq_of_lt (by omega) hhi).symm
    simp only [written, writeBits, stored, Nat.one_shiftLeft]
    rw [← this]

theorem setSlice_reject_hi (size bv b e : Nat) (v : Int) (h : b < e) (hhi : 2 ^ (e - b) ≤ v) :
    setSlice size bv b e v = .error .ValueError := by
  unfold setSlice
  have h' : ¬ ¬ (e > b) := by omega
  simp only [h', if_false, Nat.one_shiftLeft, pow_cast]
  have c1 : v ≥ 2 ^ (e - b) := hhi
  simp [c1]

theorem setSlice_reject_lo (size bv b e : Nat) (v : Int) (h : b < e) (hlo : v < -(2 ^ (e - b))) :
    setSlice size bv b e v = .error .AssertionError := by
  unfold setSlice
  have h' : ¬ ¬ (e > b) := by omega
  have hpos := two_pow_pos_int (e - b)
  simp only [h', if_false, Nat.one_shiftLeft, pow_cast]
  have c1 : ¬ (v ≥ 2 ^ (e - b)) := by omega
  have hneg : v < 0 := by omega
  simp only [c1, if_false, hneg, if_true]
  have c2 : ¬ ((2 : Int) ^ (e - b) + v ≥ 0 ∧ (2 : Int) ^ (e - b) + v < 2 ^ (e - b)) := by omega
  rw [if_pos (by simpa using c2)]

theorem setSlice_ok_iff (size bv b e : Nat) (v : Int) (h : b < e) :
    (∃ r, setSlice size bv b e v = .ok r) ↔ (-(2 ^ (e - b)) ≤ v ∧ v < 2 ^ (e - b)) := by
  constructor
  · rintro ⟨r, hr⟩
    by_cases h1 : v < -(2 ^ (e - b))
    · rw [setSlice_reject_lo size bv b e v h h1] at hr; cases hr
    · by_cases h2 : 2 ^ (e - b) ≤ v
      · rw [setSlice_reject_hi size bv b e v h h2] at hr; cases hr
      · omega
  · rintro ⟨h1, h2⟩
    exact ⟨_, setSlice_accept size bv b e v h h1 h2⟩

/-- bits of the written word, inside the slice -/
theorem written_testBit_in {size bv b w x i : Nat} (hb : b ≤ i) (hi : i < b + w) (hs : b + w ≤ size) :
    (written size bv b w x).testBit i = x.testBit (i - b) := by
  unfold written writeBits
  simp only [Nat.one_shiftLeft, Nat.testBit_or, Nat.testBit_and, Nat.testBit_xor, Nat.testBit_shiftLeft,
    Nat.testBit_two_pow_sub_one]
  have h1 : i < size := by omega
  have h2 : i - b < w := by omega
  simp [h1, h2, hb]

/-- bits of the written word, outside the slice (stray bits at or above `size` are cleared) -/
theorem written_testBit_out {size bv b w x i : Nat} (hx : x < 2 ^ w) (ho : ¬ (b ≤ i ∧ i < b + w)) :
    (written size bv b w x).testBit i = (bv.testBit i && decide (i < size)) := by
  unfold written writeBits
  simp only [Nat.one_shiftLeft, Nat.testBit_or, Nat.testBit_and, Nat.testBit_xor, Nat.testBit_shiftLeft,
    Nat.testBit_two_pow_sub_one]
  by_cases hb : b ≤ i
  · have h2 : ¬ (i - b < w) := by omega
    have h3 : x.testBit (i - b) = false := by
      apply Nat.testBit_lt_two_pow
      exact Nat.lt_of_lt_of_le hx (Nat.pow_le_pow_right (by decide) (by omega))
    simp [hb, h2, h3]
  · have : ¬ (i ≥ b) := by omega
    simp [this]

/-- reading back the slice just written (within the token) gives the stored bits -/
theorem slice_written_same {size bv b w x : Nat} (hx : x < 2 ^ w) (hs : b + w ≤ size) :
    written size bv b w x / 2 ^ b % 2 ^ w = x := by
  apply Nat.eq_of_testBit_eq
  intro j
  rw [testBit_sliceVal]
  by_cases hj : j < w
  · rw [written_testBit_in (by omega) (by omega) hs]
    simp [hj]
  · have : x.testBit j = false := by
      apply Nat.testBit_lt_two_pow
      exact Nat.lt_of_lt_of_le hx (Nat.pow_le_pow_right (by decide) (by omega))
    simp [hj, this]

theorem written_lt {size bv b w x : Nat} (hx : x < 2 ^ w) (hs : b + w ≤ size) :
    written size bv b w x < 2 ^ size := by
  apply Nat.lt_pow_two_of_testBit
  intro i hi
  by_cases hin : b ≤ i ∧ i < b + w
  · omega
  · rw [written_testBit_out hx hin]
    have : ¬ (i < size) := by omega
    simp [this]


/-! ### frames: which bits a write leaves alone -/

def inPart (p : Nat × Nat) (i : Nat) : Prop := p.1 ≤ i ∧ i < p.2

theorem setSlice_frame {size bv b e : Nat} {v : Int} {r : Nat} (h : b < e)
    (hr : setSlice size bv b e v = .ok r) {i : Nat} (hi : i < size) (ho : ¬ inPart (b, e) i) :
    r.testBit i = bv.testBit i := by
  have hacc := (setSlice_ok_iff size bv b e v h).mp ⟨r, hr⟩
  rw [setSlice_accept size bv b e v h hacc.1 hacc.2] at hr
  cases hr
  rw [written_testBit_out (stored_lt _ _) (by unfold inPart at ho; simp only at ho; omega)]
  simp [hi]

theorem setSlice_lt {size bv b e : Nat} {v : Int} {r : Nat} (h : b < e) (hs : e ≤ size)
    (hr : setSlice size bv b e v = .ok r) : r < 2 ^ size := by
  have hacc := (setSlice_ok_iff size bv b e v h).mp ⟨r, hr⟩
  rw [setSlice_accept size bv b e v h hacc.1 hacc.2] at hr
  cases hr
  exact written_lt (stored_lt _ _) (by omega)

/-- get ∘ set on the same slice: the stored bits are `v mod 2^w` -/
theorem getSlice_setSlice {size bv b e : Nat} {v : Int} {r : Nat} (h : b < e) (hs : e ≤ size)
    (hr : setSlice size bv b e v = .ok r) : getSlice r b e = .ok (stored (e - b) v) := by
  have hacc := (setSlice_ok_iff size bv b e v h).mp ⟨r, hr⟩
  rw [setSlice_accept size bv b e v h hacc.1 hacc.2] at hr
  cases hr
  rw [getSlice_ok _ _ _ h, slice_written_same (stored_lt _ _) (by omega)]

/-! ### `bit_concat` -/

def widthOf (ps : List (Nat × Nat)) : Nat := (ps.map (fun p => p.2 - p.1)).sum

/-- value of the concatenation of the parts' slices, most significant first -/
def concatVal (bv : Nat) : List (Nat × Nat) → Nat
  | [] => 0
  | p :: ps => (bv / 2 ^ p.1 % 2 ^ (p.2 - p.1)) * 2 ^ widthOf ps + concatVal bv ps

theorem widthOf_cons (p : Nat × Nat) (ps : List (Nat × Nat)) : widthOf (p :: ps) = (p.2 - p.1) + widthOf ps := by
  simp [widthOf]

theorem widthOf_append (ps qs : List (Nat × Nat)) : widthOf (ps ++ qs) = widthOf ps + widthOf qs := by
  simp [widthOf]

theorem concatVal_lt (bv : Nat) (ps : List (Nat × Nat)) : concatVal bv ps < 2 ^ widthOf ps := by
  induction ps with
  | nil => simp [concatVal, widthOf]
  | cons p ps ih =>
    rw [concatVal, widthOf_cons, Nat.pow_add]
    have h1 := sliceVal_lt bv p.1 (p.2 - p.1)
    have : (bv / 2 ^ p.1 % 2 ^ (p.2 - p.1) + 1) * 2 ^ widthOf ps ≤ 2 ^ (p.2 - p.1) * 2 ^ widthOf ps :=
      Nat.mul_le_mul_right _ h1
    rw [Nat.add_mul] at this
    omega

theorem getConcat_eq (bv : Nat) (ps : List (Nat × Nat)) (acc : Nat) (hok : ∀ p ∈ ps, p.1 < p.2) :
    getConcat bv ps acc = .ok (acc * 2 ^ widthOf ps + concatVal bv ps) := by
  induction ps generalizing acc with
  | nil => simp [getConcat, widthOf, concatVal]
  | cons p ps ih =>
    obtain ⟨b, e⟩ := p
    have hbe : b < e := hok (b, e) (by simp)
    rw [getConcat, getSlice_ok _ _ _ hbe]
    simp only
    rw [ih _ (fun q hq => hok q (by simp [hq]))]
    congr 1
    rw [Nat.one_shiftLeft, Nat.and_two_pow_sub_one_eq_mod, Nat.mod_mod,
      ← Nat.shiftLeft_add_eq_or_of_lt (sliceVal_lt bv b (e - b)), Nat.shiftLeft_eq, widthOf_cons, concatVal,
      Nat.pow_add]
    ring

theorem concatVal_append (bv : Nat) (ps qs : List (Nat × Nat)) :
    concatVal bv (ps ++ qs) = concatVal bv ps * 2 ^ widthOf qs + concatVal bv qs := by
  induction ps with
  | nil => simp [concatVal]
  | cons p ps ih =>
    simp only [List.cons_append, concatVal, ih, widthOf_append, Nat.pow_add]
    ring

theorem concatVal_congr {x y : Nat} {ps : List (Nat × Nat)}
    (h : ∀ p ∈ ps, ∀ i, inPart p i → x.testBit i = y.testBit i) : concatVal x ps = concatVal y ps := by
  induction ps with
  | nil => rfl
  | cons p ps ih =>
    simp only [concatVal]
    rw [ih (fun q hq => h q (by simp [hq]))]
    congr 2
    by_cases hp : p.1 ≤ p.2
    · apply sliceVal_congr
      intro i h1 h2
      exact h p (by simp) i ⟨h1, by omega⟩
    · have : p.2 - p.1 = 0 := by omega
      simp [this, Nat.mod_one]


theorem emod_mul (x p q : Int) (hp : 0 < p) (hq : 0 < q) : x % (p * q) = x % p + p * (x / p % q) := by
  have h1 := Int.emod_add_mul_ediv x p
  have h2 := Int.emod_add_mul_ediv (x / p) q
  have a0 := Int.emod_nonneg x (Int.ne_of_gt hp)
  have a1 := Int.emod_lt_of_pos x hp
  have b0 := Int.emod_nonneg (x / p) (Int.ne_of_gt hq)
  have b1 := Int.emod_lt_of_pos (x / p) hq
  have hpq : 0 < p * q := Int.mul_pos hp hq
  have key : x / (p * q) = x / p / q ∧ x % (p * q) = x % p + p * (x / p % q) := by
    rw [Int.ediv_emod_unique hpq]
    refine ⟨?_, ?_, ?_⟩
    · calc x % p + p * (x / p % q) + p * q * (x / p / q)
          = x % p + p * (x / p % q + q * (x / p / q)) := by ring
        _ = x := by rw [h2, h1]
    · have := Int.mul_nonneg (Int.le_of_lt hp) b0
      omega
    · have : p * (x / p % q) ≤ p * (q - 1) := Int.mul_le_mul_of_nonneg_left (by omega) (Int.le_of_lt hp)
      have e : p * (q - 1) = p * q - p := by ring
      omega
  exact key.2

/-- parts are non-empty ranges inside the token -/
def PartsIn (size : Nat) (ps : List (Nat × Nat)) : Prop := ∀ p ∈ ps, p.1 < p.2 ∧ p.2 ≤ size

def Disj (p q : Nat × Nat) : Prop := p.2 ≤ q.1 ∨ q.2 ≤ p.1

theorem Disj.symm {p q : Nat × Nat} (h : Disj p q) : Disj q p := Or.symm h

theorem not_inPart_of_disj {p q : Nat × Nat} (h : Disj p q) {i : Nat} (hi : inPart p i) : ¬ inPart q i := by
  unfold inPart at *; unfold Disj at h; omega

/-- The `bit_concat` setter never fails on well-formed parts; it changes only the parts' bits
    and stores exactly `v mod 2^W` (silent truncation of everything above). -/
theorem setConcatRev_spec (size : Nat) (rps : List (Nat × Nat)) (hin : PartsIn size rps)
    (hd : List.Pairwise Disj rps) (bv : Nat) (v : Int) :
    ∃ r, setConcatRev size rps bv v = .ok r
      ∧ (∀ i, i < size → (∀ p ∈ rps, ¬ inPart p i) → r.testBit i = bv.testBit i)
      ∧ ((concatVal r rps.reverse : Nat) : Int) = v % 2 ^ widthOf rps := by
  induction rps generalizing bv v with
  | nil =>
    refine ⟨bv, rfl, fun _ _ _ => rfl, ?_⟩
    simp [concatVal, widthOf]
  | cons p ps ih =>
    obtain ⟨b, e⟩ := p
    have hbe := hin (b, e) (by simp)
    simp only at hbe
    obtain ⟨hd1, hd2⟩ := List.pairwise_cons.mp hd
    have hpos := two_pow_pos_int (e - b)
    have m0 : 0 ≤ v % 2 ^ (e - b) := Int.emod_nonneg _ (Int.ne_of_gt hpos)
    have m1 : v % 2 ^ (e - b) < 2 ^ (e - b) := Int.emod_lt_of_pos _ hpos
    have hset := setSlice_accept size bv b e (v % 2 ^ (e - b)) hbe.1 (by omega) m1
    obtain ⟨r, hr, hframe, hval⟩ := ih (fun q hq => hin q (by simp [hq])) hd2
      (written size bv b (e - b) (stored (e - b) (v % 2 ^ (e - b)))) (v / 2 ^ (e - b))
    refine ⟨r, ?_, ?_, ?_⟩
    · rw [setConcatRev, hset]; exact hr
    · intro i hi ho
      rw [hframe i hi (fun q hq => ho q (by simp [hq]))]
      have hnot : ¬ inPart (b, e) i := ho (b, e) (by simp)
      rw [written_testBit_out (stored_lt _ _) (by unfold inPart at hnot; simp only at hnot; omega)]
      simp [hi]
    · rw [List.reverse_cons, concatVal_append, widthOf_cons]
      simp only [concatVal, widthOf, List.map_nil, List.sum_nil, Nat.pow_zero, Nat.mul_one, Nat.add_zero,
        List.map_cons, List.sum_cons]
      have hslice : r / 2 ^ b % 2 ^ (e - b) = stored (e - b) (v % 2 ^ (e - b)) := by
        rw [← slice_written_same (size := size) (bv := bv) (b := b) (stored_lt (e - b) (v % 2 ^ (e - b))) (by omega)]
        apply sliceVal_congr
        intro i h1 h2
        apply hframe i (by omega)
        intro q hq
        exact not_inPart_of_disj (hd1 q hq) (by unfold inPart; simp only; omega)
      rw [hslice]
      push_cast
      rw [hval, stored_cast, Int.emod_emod_of_dvd _ (Int.dvd_refl _)]
      have e1 : (List.map (fun p : Nat × Nat => p.2 - p.1) ps).sum = widthOf ps := rfl
      rw [e1, Int.pow_add, emod_mul _ _ _ hpos (two_pow_pos_int _)]
      ring

theorem partsDisj_iff (ps : List (Nat × Nat)) : partsDisj ps = true ↔ List.Pairwise Disj ps := by
  induction ps with
  | nil => simp [partsDisj]
  | cons p ps ih =>
    rw [partsDisj, List.pairwise_cons, Bool.and_eq_true, ih, List.all_eq_true]
    simp [partDisj, Disj]

theorem partsIn_of_all {size : Nat} {ps : List (Nat × Nat)} (h : ps.all (partOK size) = true) : PartsIn size ps := by
  intro p hp
  have := List.all_eq_true.mp h p hp
  simpa [partOK] using this


/-! ### declared fields (`bit_range` / `bit_concat` properties) -/

theorem width_eq (f : FieldDesc) : width f = widthOf f.parts := rfl

structure WF (size : Nat) (f : FieldDesc) : Prop where
  parts_in : PartsIn size f.parts
  disj : List.Pairwise Disj f.parts
  shape : f.concat = true ∨ ∃ b e, f.parts = [(b, e)]
  nonempty : f.parts ≠ []

theorem wf_of_wfField {size : Nat} {f : FieldDesc} (h : wfField size f = true) : WF size f := by
  unfold wfField at h
  simp only [Bool.and_eq_true, Bool.or_eq_true, Bool.not_eq_true', beq_iff_eq] at h
  obtain ⟨⟨⟨h1, h2⟩, h3⟩, h4⟩ := h
  refine ⟨partsIn_of_all h1, (partsDisj_iff _).mp h2, ?_, ?_⟩
  · rcases h3 with h3 | h3
    · exact Or.inl h3
    · right
      match hp : f.parts, h3 with
      | [(b, e)], _ => exact ⟨b, e, rfl⟩
  · intro hn; simp [hn] at h4

theorem width_pos {size : Nat} {f : FieldDesc} (h : WF size f) : 1 ≤ width f := by
  rw [width_eq]
  match hp : f.parts, h.nonempty with
  | p :: ps, _ =>
    have := h.parts_in p (by rw [hp]; simp)
    rw [widthOf_cons]; omega

/-- the raw read of a well-formed field is the concatenation of its parts -/
theorem getField_eq {size : Nat} {f : FieldDesc} (h : WF size f) (bv : Nat) :
    getField f bv = .ok (concatVal bv f.parts) := by
  unfold getField
  by_cases hc : f.concat = true
  · rw [if_pos hc, getConcat_eq _ _ _ (fun p hp => (h.parts_in p hp).1)]; simp
  · rw [if_neg hc]
    rcases h.shape with h1 | ⟨b, e, hbe⟩
    · exact absurd h1 hc
    · have := h.parts_in (b, e) (by rw [hbe]; simp)
      rw [hbe]
      simp only
      rw [getSlice_ok _ _ _ this.1]
      simp [concatVal, widthOf]

theorem getField_lt {size : Nat} {f : FieldDesc} (_h : WF size f) (bv : Nat) :
    concatVal bv f.parts < 2 ^ width f := concatVal_lt bv f.parts

theorem getField_congr {size : Nat} {f : FieldDesc} (h : WF size f) {x y : Nat}
    (hxy : ∀ p ∈ f.parts, ∀ i, inPart p i → x.testBit i = y.testBit i) : getField f x = getField f y := by
  rw [getField_eq h, getField_eq h, concatVal_congr hxy]

/-- EXACT acceptance region of a plain `bit_range` field -/
theorem setField_range_ok_iff {size : Nat} {f : FieldDesc} (h : WF size f) (hc : f.concat = false) (bv : Nat) (v : Int) :
    (∃ r, setField size f bv v = .ok r) ↔ (-(2 ^ width f) ≤ v ∧ v < 2 ^ width f) := by
  rcases h.shape with h1 | ⟨b, e, hbe⟩
  · rw [hc] at h1; cases h1
  · have hp := h.parts_in (b, e) (by rw [hbe]; simp)
    unfold setField
    rw [hc, hbe]
    simp only [Bool.false_eq_true, if_false]
    rw [setSlice_ok_iff _ _ _ _ _ hp.1, width_eq, hbe]
    simp [widthOf]

/-- a `bit_concat` field accepts EVERY integer -/
theorem setField_concat_ok {size : Nat} {f : FieldDesc} (h : WF size f) (hc : f.concat = true) (bv : Nat) (v : Int) :
    ∃ r, setField size f bv v = .ok r := by
  unfold setField
  rw [if_pos hc]
  have hin : PartsIn size f.parts.reverse := fun p hp => h.parts_in p (List.mem_reverse.mp hp)
  have hd : List.Pairwise Disj f.parts.reverse := by
    rw [List.pairwise_reverse]
    exact h.disj.imp (fun hab => hab.symm)
  obtain ⟨r, hr, _, _⟩ := setConcatRev_spec size f.parts.reverse hin hd bv v
  exact ⟨r, hr⟩

/-- what an accepted write does: the field then reads `v mod 2^w`, every other bit below `size` is unchanged -/
theorem setField_spec {size : Nat} {f : FieldDesc} (h : WF size f) {bv : Nat} {v : Int} {r : Nat}
    (hr : setField size f bv v = .ok r) :
    getField f r = .ok (stored (width f) v)
    ∧ (∀ i, i < size → (∀ p ∈ f.parts, ¬ inPart p i) → r.testBit i = bv.testBit i) := by
  by_cases hc : f.concat = true
  · have hin : PartsIn size f.parts.reverse := fun p hp => h.parts_in p (List.mem_reverse.mp hp)
    have hd : List.Pairwise Disj f.parts.reverse := by
      rw [List.pairwise_reverse]
      exact h.disj.imp (fun hab => hab.symm)
    obtain ⟨r', hr', hframe, hval⟩ := setConcatRev_spec size f.parts.reverse hin hd bv v
    unfold setField at hr
    rw [if_pos hc, hr'] at hr
    cases hr
    refine ⟨?_, fun i hi ho => hframe i hi (fun p hp => ho p (List.mem_reverse.mp hp))⟩
    rw [getField_eq h]
    congr 1
    rw [List.reverse_reverse] at hval
    have hw : widthOf f.parts.reverse = widthOf f.parts := by simp [widthOf, List.sum_reverse]
    rw [hw] at hval
    have : ((concatVal r f.parts : Nat) : Int) = ((stored (width f) v : Nat) : Int) := by
      rw [stored_cast, width_eq]; exact hval
    exact Int.ofNat_inj.mp this
  · rcases h.shape with h1 | ⟨b, e, hbe⟩
    · exact absurd h1 hc
    · have hp := h.parts_in (b, e) (by rw [hbe]; simp)
      have hr0 := hr
      unfold setField at hr
      rw [if_neg hc, hbe] at hr
      simp only at hr
      refine ⟨?_, ?_⟩
      · rw [getField_eq h, hbe, width_eq, hbe]
        have := getSlice_setSlice hp.1 hp.2 hr
        rw [getSlice_ok _ _ _ hp.1] at this
        simp only [concatVal, widthOf, List.map_nil, List.sum_nil, Nat.pow_zero, Nat.mul_one, Nat.add_zero,
          List.map_cons, List.sum_cons]
        exact this
      · intro i hi ho
        rw [hbe] at ho
        exact setSlice_frame hp.1 hr hi (ho (b, e) (by simp))

/-- a write to field `f` does not disturb a field `g` of the same token whose bits it does not touch -/
theorem getField_setField_other {size : Nat} {f g : FieldDesc} (hf : WF size f) (hg : WF size g)
    (hdisj : ∀ p ∈ f.parts, ∀ q ∈ g.parts, Disj p q)
    {bv : Nat} {v : Int} {r : Nat} (hr : setField size f bv v = .ok r) : getField g r = getField g bv := by
  apply getField_congr hg
  intro q hq i hi
  have hq' := hg.parts_in q hq
  apply (setField_spec hf hr).2 i (by unfold inPart at hi; omega)
  intro p hp
  exact not_inPart_of_disj (hdisj p hp q hq).symm hi

/-! ### declared decode vs. `fits` -/

open Spec.Bits Spec.Field

theorem pow_pred_int {w : Nat} (hw : 1 ≤ w) : (2 : Int) ^ w = 2 * 2 ^ (w - 1) := by
  obtain ⟨k, rfl⟩ : ∃ k, w = k + 1 := ⟨w - 1, by omega⟩
  rw [Int.pow_succ]; simp; ring

/-- reading back `v mod 2^w` under the declaration gives `v` exactly when `v` fits -/
theorem decode_stored_iff (s : Bool) {w : Nat} (hw : 1 ≤ w) (v : Int) :
    decode s w (v % 2 ^ w) = v ↔ fits s w v := by
  have hpos := two_pow_pos_int w
  have m0 : 0 ≤ v % 2 ^ w := Int.emod_nonneg _ (Int.ne_of_gt hpos)
  have m1 : v % 2 ^ w < 2 ^ w := Int.emod_lt_of_pos _ hpos
  cases s with
  | false =>
    simp only [decode, fits, Bool.false_eq_true, if_false, wrapU, fitsU]
    rw [Int.emod_emod_of_dvd _ (Int.dvd_refl _)]
    constructor
    · intro h; omega
    · rintro ⟨h0, h1⟩; exact Int.emod_eq_of_lt h0 h1
  | true =>
    simp only [decode, fits, if_true, wrapS, fitsS]
    rw [Int.emod_emod_of_dvd _ (Int.dvd_refl _)]
    have hP := pow_pred_int hw
    have hPpos := two_pow_pos_int (w - 1)
    constructor
    · intro h
      split at h <;> omega
    · rintro ⟨h0, h1⟩
      by_cases hv : 0 ≤ v
      · have : v % 2 ^ w = v := Int.emod_eq_of_lt hv (by omega)
        rw [this, if_pos h1]
      · have e1 : (v + 2 ^ w) % 2 ^ w = v + 2 ^ w := Int.emod_eq_of_lt (by omega) (by omega)
        rw [Int.add_emod_right] at e1
        rw [e1, if_neg (by omega)]
        omega

end Proofs.Token
