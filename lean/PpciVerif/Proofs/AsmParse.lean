import PpciVerif.Model.AsmParse
/-
The parse enumerator `Model.AsmParse.parseSym` is sound and complete for derivation trees of depth ≤ fuel;
a ranked (recursion-free) grammar bounds the depth of every derivation tree, so there the enumerator with
fuel `rank + 1` returns ALL derivation trees.
-/
namespace Proofs.AsmParse
open Model.AsmSyn Model.AsmParse

theorem mem_indexed {G : List Prod} {i : Nat} {p : Prod} : (i, p) ∈ indexed G ↔ G[i]? = some p := by
  simp only [indexed, List.mem_map]
  constructor
  · rintro ⟨⟨q, j⟩, hm, heq⟩
    simp only [Prod.mk.injEq] at heq
    obtain ⟨rfl, rfl⟩ := heq
    exact List.mem_zipIdx_iff_getElem?.mp hm
  · intro h
    exact ⟨(p, i), List.mem_zipIdx_iff_getElem?.mpr h, rfl⟩

theorem parseSym_t (G : List Prod) (n : Nat) (a : String) (ts : List String) :
    parseSym G n (.t a) ts = (match ts with | [] => [] | b :: r => if a = b then [(.tok a, r)] else []) := by
  cases n <;> rfl

/-! ### completeness -/

mutual
  theorem tree_complete (G : List Prod) :
      ∀ (t : Tree) (s : Sym) (n : Nat) (r : List String), t.ok G s → t.depth ≤ n →
        (t, r) ∈ parseSym G n s (t.yield ++ r)
    | .tok a, s, n, r, h, _ => by
      simp only [Tree.ok] at h
      subst h
      simp [parseSym_t, Tree.yield]
    | .node i k, s, n, r, h, hd => by
      simp only [Tree.ok] at h
      obtain ⟨p, hp, hs, hk⟩ := h
      subst hs
      cases n with
      | zero => simp [Tree.depth] at hd
      | succ m =>
        have hkd : k.depth ≤ m := by simp only [Tree.depth] at hd; omega
        have ih := forest_complete G k p.rhs m r hk hkd
        simp only [parseSym, List.mem_flatMap]
        refine ⟨(i, p), mem_indexed.mpr hp, ?_⟩
        simp only [if_true, List.mem_map, Tree.yield]
        exact ⟨(k, r), ih, rfl⟩
  theorem forest_complete (G : List Prod) :
      ∀ (f : Forest) (ss : List Sym) (n : Nat) (r : List String), f.ok G ss → f.depth ≤ n →
        (f, r) ∈ parseSeq (parseSym G n) ss (f.yield ++ r)
    | .nil, ss, n, r, h, _ => by
      simp only [Forest.ok] at h
      subst h
      simp [parseSeq, Forest.yield]
    | .cons t f, ss, n, r, h, hd => by
      simp only [Forest.ok] at h
      obtain ⟨s, ss', rfl, ht, hf⟩ := h
      simp only [Forest.depth] at hd
      have h1 := tree_complete G t s n (f.yield ++ r) ht (by omega)
      have h2 := forest_complete G f ss' n r hf (by omega)
      simp only [parseSeq, Forest.yield, List.append_assoc, List.mem_flatMap, List.mem_map]
      exact ⟨(t, f.yield ++ r), h1, (f, r), h2, rfl⟩
end

/-! ### soundness -/

theorem parseSeq_sound {ps : Sym → List String → List (Tree × List String)} {G : List Prod} {n : Nat}
    (hps : ∀ s ts t r, (t, r) ∈ ps s ts → t.ok G s ∧ ts = t.yield ++ r ∧ t.depth ≤ n) :
    ∀ ss ts f r, (f, r) ∈ parseSeq ps ss ts → f.ok G ss ∧ ts = f.yield ++ r ∧ f.depth ≤ n := by
  intro ss
  induction ss with
  | nil =>
    intro ts f r h
    simp only [parseSeq, List.mem_singleton, Prod.mk.injEq] at h
    obtain ⟨rfl, rfl⟩ := h
    simp [Forest.ok, Forest.yield, Forest.depth]
  | cons s ss ih =>
    intro ts f r h
    simp only [parseSeq, List.mem_flatMap, List.mem_map] at h
    obtain ⟨⟨t, r1⟩, h1, ⟨f', r2⟩, h2, heq⟩ := h
    simp only [Prod.mk.injEq] at heq
    obtain ⟨rfl, rfl⟩ := heq
    obtain ⟨a1, a2, a3⟩ := hps s ts t r1 h1
    obtain ⟨b1, b2, b3⟩ := ih r1 f' r2 h2
    refine ⟨?_, ?_, ?_⟩
    · simp only [Forest.ok]; exact ⟨s, ss, rfl, a1, b1⟩
    · simp only [Forest.yield, List.append_assoc]; rw [← b2]; exact a2
    · simp only [Forest.depth]; omega

theorem parseSym_sound (G : List Prod) :
    ∀ n s ts t r, (t, r) ∈ parseSym G n s ts → t.ok G s ∧ ts = t.yield ++ r ∧ t.depth ≤ n := by
  intro n
  induction n with
  | zero =>
    intro s ts t r h
    cases s with
    | nt A => simp [parseSym] at h
    | t a =>
      rw [parseSym_t] at h
      cases ts with
      | nil => simp at h
      | cons b r' =>
        by_cases hab : a = b
        · subst hab
          simp only [if_true, List.mem_singleton, Prod.mk.injEq] at h
          obtain ⟨rfl, rfl⟩ := h
          simp [Tree.ok, Tree.yield, Tree.depth]
        · simp [hab] at h
  | succ m ih =>
    intro s ts t r h
    cases s with
    | t a =>
      rw [parseSym_t] at h
      cases ts with
      | nil => simp at h
      | cons b r' =>
        by_cases hab : a = b
        · subst hab
          simp only [if_true, List.mem_singleton, Prod.mk.injEq] at h
          obtain ⟨rfl, rfl⟩ := h
          simp [Tree.ok, Tree.yield, Tree.depth]
        · simp [hab] at h
    | nt A =>
      simp only [parseSym, List.mem_flatMap] at h
      obtain ⟨⟨i, p⟩, hip, hmem⟩ := h
      by_cases hl : p.lhs = A
      · simp only [hl, if_true, List.mem_map] at hmem
        obtain ⟨⟨k, r'⟩, hk, heq⟩ := hmem
        simp only [Prod.mk.injEq] at heq
        obtain ⟨rfl, rfl⟩ := heq
        obtain ⟨c1, c2, c3⟩ := parseSeq_sound (G := G) (n := m) (ih) p.rhs ts k r' hk
        refine ⟨?_, ?_, ?_⟩
        · simp only [Tree.ok]; exact ⟨p, mem_indexed.mp hip, by rw [hl], c1⟩
        · simpa [Tree.yield] using c2
        · simp only [Tree.depth]; omega
      · simp [hl] at hmem

/-! ### exact characterisation of `parses` -/

theorem mem_parses_iff (G : List Prod) (n : Nat) (A : String) (ts : List String) (t : Tree) :
    t ∈ parses G n A ts ↔ (t.ok G (.nt A) ∧ t.yield = ts ∧ t.depth ≤ n) := by
  simp only [parses, List.mem_map, List.mem_filter]
  constructor
  · rintro ⟨⟨t', r⟩, ⟨hm, hr⟩, rfl⟩
    obtain ⟨h1, h2, h3⟩ := parseSym_sound G n _ _ _ _ hm
    have : r = [] := by simpa using hr
    subst this
    exact ⟨h1, by simpa using h2.symm, h3⟩
  · rintro ⟨h1, h2, h3⟩
    refine ⟨(t, []), ⟨?_, by simp⟩, rfl⟩
    have := tree_complete G t (.nt A) n [] h1 h3
    simpa [h2] using this

/-! ### ranked grammars: the depth of every derivation tree is bounded -/

def symRank (ranks : List (String × Nat)) : Sym → Nat
  | .t _ => 0
  | .nt A => rankOf ranks A + 1

mutual
  theorem tree_depth_le (G : List Prod) (ranks : List (String × Nat)) (hr : rankedB G ranks = true) :
      ∀ (t : Tree) (s : Sym), t.ok G s → t.depth ≤ symRank ranks s
    | .tok a, s, h => by simp [Tree.depth]
    | .node i k, s, h => by
      simp only [Tree.ok] at h
      obtain ⟨p, hp, hs, hk⟩ := h
      subst hs
      have hmem : p ∈ G := List.mem_of_getElem? hp
      have hp' : ∀ s' ∈ p.rhs, symRank ranks s' ≤ rankOf ranks p.lhs := by
        intro s' hs'
        simp only [rankedB, List.all_eq_true] at hr
        have := hr p hmem s' hs'
        cases s' with
        | t a => simp [symRank]
        | nt B => simp only [symRank]; simp only [decide_eq_true_eq] at this; omega
      have := forest_depth_le G ranks hr k p.rhs (rankOf ranks p.lhs) hk hp'
      simp only [Tree.depth, symRank]; omega
  theorem forest_depth_le (G : List Prod) (ranks : List (String × Nat)) (hr : rankedB G ranks = true) :
      ∀ (f : Forest) (ss : List Sym) (b : Nat), f.ok G ss → (∀ s ∈ ss, symRank ranks s ≤ b) → f.depth ≤ b
    | .nil, ss, b, h, hb => by simp [Forest.depth]
    | .cons t f, ss, b, h, hb => by
      simp only [Forest.ok] at h
      obtain ⟨s, ss', rfl, ht, hf⟩ := h
      have h1 := tree_depth_le G ranks hr t s ht
      have h2 := forest_depth_le G ranks hr f ss' b hf (fun s' hs' => hb s' (by simp [hs']))
      have h3 := hb s (by simp)
      simp only [Forest.depth]; omega
end

/-- For a ranked grammar the enumerator with fuel `rank A + 1` returns EXACTLY the derivation trees of `A`
    whose yield is the input. -/
theorem parses_complete_of_ranked (G : List Prod) (ranks : List (String × Nat))
    (hr : rankedB G ranks = true) (A : String) (ts : List String) (t : Tree) :
    t ∈ parses G (rankOf ranks A + 1) A ts ↔ (t.ok G (.nt A) ∧ t.yield = ts) := by
  rw [mem_parses_iff]
  constructor
  · rintro ⟨h1, h2, _⟩; exact ⟨h1, h2⟩
  · rintro ⟨h1, h2⟩; exact ⟨h1, h2, tree_depth_le G ranks hr t _ h1⟩

end Proofs.AsmParse
