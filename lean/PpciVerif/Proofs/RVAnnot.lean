import PpciVerif.Proofs.RVStep
/-!
Lifting the annotation check from ONE generic operand tuple to ALL operand tuples.
The register footprint of `meaning c o` and the declared sets are uniform in the register operands:
evaluating them at the marker tuple `genFor c` (markers 1001, 1002, 1003 — no register number) and
substituting the real operands (`inst o`) gives their value at `o`.  Hence `covers row c (genFor c)`
(a closed Boolean, kernel-checked per class on the regenerated table) implies coverage for every `o`.
-/
set_option linter.unusedSimpArgs false
namespace Proofs.RVAnnot
open Spec.RV32 Model.RVEnc Model.RVAnnot

/-- classes that print a source operand which must equal the destination (`c.slli rd, rs, imm` …) -/
def tied : Cls → Bool
  | .CSlli | .CSrli | .CSrai | .CAndi => true
  | _ => false

/-- the guard under which those classes are used: `rs = rd` -/
def guard (c : Cls) (o : Ops) : Prop := tied c = true → o.b = o.a

def genFor (c : Cls) : Ops := if tied c then ⟨1001, 1001, 1003, 0⟩ else ⟨1001, 1002, 1003, 0⟩

def inst (o : Ops) (r : Nat) : Nat :=
  if r = 1001 then o.a else if r = 1002 then o.b else if r = 1003 then o.c else r

theorem reads_uniform (c : Cls) (o : Ops) :
    Instr.reads (meaning c o).instr = (Instr.reads (meaning c (genFor c)).instr).map (inst o) := by
  cases c <;> simp [meaning, Meaning.instr, CInstr.expand, Instr.reads, genFor, tied, inst]

theorem writes_uniform (c : Cls) (o : Ops) :
    Instr.writes (meaning c o).instr = (Instr.writes (meaning c (genFor c)).instr).map (inst o) := by
  cases c <;> simp [meaning, Meaning.instr, CInstr.expand, Instr.writes, genFor, tied, inst]

theorem slot_uniform (c : Cls) (o : Ops) (hg : guard c o) (k : Int) :
    slotVal o k = (slotVal (genFor c) k).map (inst o) := by
  unfold slotVal genFor
  by_cases ht : tied c = true
  · have := hg ht
    simp only [ht, if_true]
    by_cases h0 : k = 0
    · simp [h0, inst]
    · by_cases h1 : k = 1
      · simp [h1, inst, this]
      · by_cases h2 : k = 2 <;> simp [h0, h1, h2, inst]
  · simp only [ht, Bool.false_eq_true, if_false]
    by_cases h0 : k = 0
    · simp [h0, inst]
    · by_cases h1 : k = 1
      · simp [h1, inst]
      · by_cases h2 : k = 2 <;> simp [h0, h1, h2, inst]

theorem declared_uniform (sel : OpRow → Bool) (row : Row) (c : Cls) (o : Ops) (hg : guard c o) :
    declared sel row o = (declared sel row (genFor c)).map (inst o) := by
  unfold declared
  induction row with
  | nil => rfl
  | cons r rest ih =>
    simp only [List.filterMap_cons]
    by_cases hs : (r.2.1 == "r" && sel r) = true
    · simp only [hs, if_true]
      rw [slot_uniform c o hg r.2.2.1]
      cases hv : slotVal (genFor c) r.2.2.1 with
      | none => simpa using ih
      | some v =>
        simp only [Option.map_some, List.map_cons, List.cons.injEq, true_and]
        exact ih
    · simp only [hs, Bool.false_eq_true, if_false]
      exact ih

/-- coverage at the marker tuple is coverage at every operand tuple -/
theorem covers_lift (row : Row) (c : Cls) (o : Ops) (hg : guard c o) (h : covers row c (genFor c) = true) :
    (∀ r ∈ Instr.reads (meaning c o).instr, r = 0 ∨ (implicitSp c = true ∧ r = sp) ∨ r ∈ declReads row o)
    ∧ (∀ r ∈ Instr.writes (meaning c o).instr, r = 0 ∨ r ∈ declWrites row o) := by
  unfold covers at h
  simp only [Bool.and_eq_true, List.all_eq_true, Bool.or_eq_true, beq_iff_eq, List.contains_iff_mem] at h
  obtain ⟨hr, hw⟩ := h
  constructor
  · intro r hrm
    rw [reads_uniform] at hrm
    obtain ⟨g, hgm, rfl⟩ := List.mem_map.mp hrm
    rcases hr g hgm with (h0 | ⟨hs, h2⟩) | hd
    · left; subst h0; simp [inst]
    · right; left; subst h2; exact ⟨hs, by simp [inst, sp]⟩
    · right; right
      unfold declReads at hd ⊢
      rw [declared_uniform _ row c o hg]
      exact List.mem_map.mpr ⟨g, hd, rfl⟩
  · intro r hrm
    rw [writes_uniform] at hrm
    obtain ⟨g, hgm, rfl⟩ := List.mem_map.mp hrm
    rcases hw g hgm with h0 | hd
    · left; subst h0; simp [inst]
    · right
      unfold declWrites at hd ⊢
      rw [declared_uniform _ row c o hg]
      exact List.mem_map.mpr ⟨g, hd, rfl⟩

end Proofs.RVAnnot
