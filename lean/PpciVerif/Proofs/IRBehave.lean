import PpciVerif.Proofs.IRText
/-!
# Proofs.IRBehave — the order of the inputs of a phi is irrelevant to `Spec.IR`

`exec cfg (normPhi m) … = exec cfg m …` for every module whose phis have distinct predecessor blocks:
a lock-step simulation between the executions of `m` and of `normPhi m` (`nState`), the only non-trivial
point being `enterBlock` (`Proofs.IRText.phiValues_normPhi`).
-/
namespace Proofs.IRBehave
open Spec.IR Model.IRFrag Proofs.IRText Proofs.IRBuild

def PhiOk (f : Func) : Prop := ∀ b ∈ f.blocks, ∀ i ∈ b.instrs, nodupB (i.phiIns.map (·.1)) = true

def nFrame (fr : Frame) : Frame := { fr with fn := normPhiFunc fr.fn, rest := fr.rest.map normPhiInstr }
def nState (s : State) : State := { s with top := nFrame s.top, callers := s.callers.map nFrame }
def nStepR : StepR → StepR
  | .next s => .next (nState s)
  | .done o => .done o
def nCtx (ctx : Ctx) : Ctx := { ctx with mod := normPhi ctx.mod }

def nE (r : Except Err StepR) : Except Err StepR :=
  match r with
  | .ok x => .ok (nStepR x)
  | .error e => .error e

/-! ## static context -/

theorem literals_normPhi (m : Module) : (normPhi m).literals = m.literals := by
  have hb : ∀ l : List Instr, (l.map normPhiInstr).filterMap (fun
      | Instr.literal d data => some (d, data)
      | _ => none) = l.filterMap (fun
      | Instr.literal d data => some (d, data)
      | _ => none) := by
    intro l
    induction l with
    | nil => rfl
    | cons i r ih => cases i <;> simp [normPhiInstr, List.filterMap_cons, ih]
  simp only [Module.literals, normPhi, List.flatMap_map]
  congr 1
  funext f
  simp only [normPhiFunc, List.flatMap_map]
  congr 1
  funext b
  simp only [normPhiBlock]
  induction b.instrs with
  | nil => rfl
  | cons i r ih => cases i <;> simp [normPhiInstr, List.filterMap_cons, ih]

theorem codeNames_normPhi (m : Module) : (normPhi m).codeNames = m.codeNames := by
  simp [Module.codeNames, normPhi, normPhiFunc, Function.comp]

theorem mkLayout_normPhi (cfg : Config) (m : Module) : mkLayout cfg (normPhi m) = mkLayout cfg m := by
  simp only [mkLayout, literals_normPhi, codeNames_normPhi]
  rfl

theorem mkCtx_normPhi (cfg : Config) (m : Module) (o : Oracle) : mkCtx cfg (normPhi m) o = nCtx (mkCtx cfg m o) := by
  simp [mkCtx, nCtx, mkLayout_normPhi]

theorem evalOpnd_n (ctx : Ctx) (env : Env) (o : Operand) : evalOpnd (nCtx ctx) env o = evalOpnd ctx env o := by
  cases o <;> rfl

theorem evalOpnds_n (ctx : Ctx) (env : Env) (os : List Operand) : evalOpnds (nCtx ctx) env os = evalOpnds ctx env os := by
  induction os with
  | nil => rfl
  | cons o r ih => simp [evalOpnds, evalOpnd_n, ih]

theorem evalAddr_n (ctx : Ctx) (env : Env) (o : Operand) (w : String) :
    evalAddr (nCtx ctx) env o w = evalAddr ctx env o w := by
  simp [evalAddr, evalOpnd_n]

theorem phiValues_n (ctx : Ctx) (env : Env) (pred : String) (is : List Instr) :
    phiValues (nCtx ctx) env pred is = phiValues ctx env pred is := by
  induction is with
  | nil => rfl
  | cons i r ih => cases i <;> simp [phiValues, evalOpnd_n, ih]

theorem findBlock_n (f : Func) (t : String) : (normPhiFunc f).findBlock t = (f.findBlock t).map normPhiBlock := by
  simp only [Func.findBlock, normPhiFunc]
  induction f.blocks with
  | nil => rfl
  | cons b r ih =>
    simp only [List.map_cons, List.find?_cons]
    have hn : (normPhiBlock b).name = b.name := rfl
    rw [hn]
    by_cases h : b.name = t
    · simp only [h, decide_true, Option.map_some]
    · simp only [h, decide_false]; exact ih

theorem findFunc_n (m : Module) (n : String) : (normPhi m).findFunc n = (m.findFunc n).map normPhiFunc := by
  simp only [Module.findFunc, normPhi]
  induction m.funcs with
  | nil => rfl
  | cons f r ih =>
    simp only [List.map_cons, List.find?_cons]
    have hn : (normPhiFunc f).name = f.name := rfl
    rw [hn]
    by_cases h : f.name = n
    · simp only [h, decide_true, Option.map_some]
    · simp only [h, decide_false]; exact ih

theorem findFunc_mem {m : Module} {n : String} {f : Func} (h : m.findFunc n = some f) : f ∈ m.funcs :=
  List.mem_of_find?_eq_some h

theorem findBlock_mem {f : Func} {t : String} {b : Block} (h : f.findBlock t = some b) : b ∈ f.blocks :=
  List.mem_of_find?_eq_some h

/-! ## the steps -/

theorem enterBlock_n (ctx : Ctx) (fr : Frame) (t : String) (hf : PhiOk fr.fn) :
    enterBlock (nCtx ctx) (nFrame fr) t =
      (match enterBlock ctx fr t with
       | .ok f' => .ok (nFrame f')
       | .error e => .error e) := by
  simp only [enterBlock, nFrame, findBlock_n]
  cases hb : fr.fn.findBlock t with
  | none => rfl
  | some b =>
    have hphi := phiValues_normPhi ctx fr.env fr.cur b.instrs (hf b (findBlock_mem hb))
    simp only [Option.map_some, normPhiBlock, phiValues_n, hphi, bind, Except.bind]
    cases phiValues ctx fr.env fr.cur b.instrs with
    | error e => rfl
    | ok vals => rfl

theorem newFrame_n (cfg : Config) (f : Func) (args : List Val) (sp : Nat) (rt : Option String) :
    newFrame cfg (normPhiFunc f) args sp rt =
      (match newFrame cfg f args sp rt with
       | .ok fr => .ok (nFrame fr)
       | .error e => .error e) := by
  simp only [newFrame, findBlock_n]
  have h1 : (normPhiFunc f).params = f.params := rfl
  have h2 : (normPhiFunc f).entry = f.entry := rfl
  have h3 : (normPhiFunc f).name = f.name := rfl
  rw [h1, h2, h3]
  cases bindParams cfg f.params args <;> cases f.findBlock f.entry <;> rfl

theorem doReturn_n (ctx : Ctx) (s : State) (v : Option Val) :
    doReturn (nCtx ctx) (nState s) v = nE (doReturn ctx s v) := by
  simp only [doReturn, nState]
  cases hc : s.callers with
  | nil =>
    simp only [List.map_nil]
    cases v with
    | none => rfl
    | some x => cases x <;> rfl
  | cons c cs =>
    simp only [List.map_cons, nFrame]
    cases hr : s.top.retTo <;> cases v <;> rfl

/-- `doCall`, first half: which subroutine is called -/
def resolve (ctx : Ctx) (fr : Frame) (callee : Operand) : Except Err String :=
  match callee with
  | .glob g =>
    if (ctx.layout.code.any (fun p => p.1 = g)) then pure g
    else throw (.ub s!"call of non-function global {g}")
  | .loc _ => do
    let a ← evalAddr ctx fr.env callee "call"
    match ctx.layout.codeAt a with
    | some g => pure g
    | none => throw (.ub "indirect call of an address that is not a function")

/-- `doCall`, second half -/
def callK (ctx : Ctx) (s : State) (fr : Frame) (dst : Option (String × Ty)) (args : List Operand)
    (name : String) : Except Err StepR := do
  let vs ← evalOpnds ctx fr.env args
  match ctx.mod.findFunc name with
  | some f =>
    match f.ret, dst with
    | none, some _ => throw (.ub s!"function call of procedure {name}")
    | _, _ =>
      let nf ← newFrame ctx.cfg f vs s.mem.stack.size (dst.map (·.1))
      pure (.next { s with top := nf, callers := fr :: s.callers })
  | none =>
    match ctx.mod.findExtern name with
    | some e =>
      if anyUndef vs then throw (.undefRead s!"argument of external call {name}") else
      match e.kind, dst with
      | .func _ rty, some (d, _) =>
        let r := normVal ctx.cfg rty (ctx.oracle s.trace.length name vs)
        pure (.next { s with top := { fr with env := fr.env.set d r },
                             trace := s.trace ++ [{ name := name, args := vs, result := some r }] })
      | .func _ rty, none =>
        let r := normVal ctx.cfg rty (ctx.oracle s.trace.length name vs)
        pure (.next { s with top := fr, trace := s.trace ++ [{ name := name, args := vs, result := some r }] })
      | .proc _, none =>
        pure (.next { s with top := fr, trace := s.trace ++ [{ name := name, args := vs, result := none }] })
      | .proc _, some _ => throw (.ub s!"function call of external procedure {name}")
      | .var, _ => throw (.ub s!"call of external variable {name}")
    | none => throw (.ub s!"call of unknown function {name}")

theorem doCall_eq (ctx : Ctx) (s : State) (fr : Frame) (dst : Option (String × Ty)) (callee : Operand)
    (args : List Operand) :
    doCall ctx s fr dst callee args = (resolve ctx fr callee >>= callK ctx s fr dst args) := by
  unfold doCall resolve callK
  cases callee with
  | glob g =>
    simp only
    split <;> rfl
  | loc x =>
    simp only [bind, Except.bind]
    cases evalAddr ctx fr.env (Operand.loc x) "call" with
    | error e => rfl
    | ok a =>
      simp only
      cases ctx.layout.codeAt a <;> rfl

theorem resolve_n (ctx : Ctx) (fr : Frame) (callee : Operand) :
    resolve (nCtx ctx) (nFrame fr) callee = resolve ctx fr callee := by
  have hl : (nCtx ctx).layout = ctx.layout := rfl
  have he : (nFrame fr).env = fr.env := rfl
  unfold resolve
  rw [hl, he, evalAddr_n]

theorem callK_n (ctx : Ctx) (s : State) (fr : Frame) (dst : Option (String × Ty)) (args : List Operand)
    (name : String) :
    callK (nCtx ctx) (nState s) (nFrame fr) dst args name = nE (callK ctx s fr dst args name) := by
  have he : (nFrame fr).env = fr.env := rfl
  unfold callK
  simp only [he, evalOpnds_n, bind, Except.bind]
  cases evalOpnds ctx fr.env args with
  | error e => rfl
  | ok vs =>
    simp only
    have hm : (nCtx ctx).mod = normPhi ctx.mod := rfl
    rw [hm, findFunc_n]
    cases hff : ctx.mod.findFunc name with
    | some f =>
      simp only [Option.map_some]
      have hret : (normPhiFunc f).ret = f.ret := rfl
      have hc : (nCtx ctx).cfg = ctx.cfg := rfl
      have hs : (nState s).mem = s.mem := rfl
      rw [hret, hc, hs]
      cases hfr : f.ret <;> cases dst <;> simp only [newFrame_n] <;>
        first
        | rfl
        | (cases newFrame ctx.cfg f vs s.mem.stack.size _ with
           | error e => rfl
           | ok nf => rfl)
    | none =>
      simp only [Option.map_none]
      have hx : (normPhi ctx.mod).findExtern name = ctx.mod.findExtern name := rfl
      rw [hx]
      cases ctx.mod.findExtern name with
      | none => rfl
      | some e =>
        simp only
        by_cases hu : anyUndef vs = true
        · simp only [hu, if_true]; rfl
        · simp only [hu, Bool.false_eq_true, if_false]
          cases e.kind <;> cases dst <;> rfl

theorem doCall_n (ctx : Ctx) (s : State) (fr : Frame) (dst : Option (String × Ty)) (callee : Operand)
    (args : List Operand) :
    doCall (nCtx ctx) (nState s) (nFrame fr) dst callee args = nE (doCall ctx s fr dst callee args) := by
  rw [doCall_eq, doCall_eq, resolve_n]
  simp only [bind, Except.bind]
  cases resolve ctx fr callee with
  | error e => rfl
  | ok name => exact callK_n ctx s fr dst args name

theorem stepE_n (ctx : Ctx) (s : State) (hf : PhiOk s.top.fn) :
    stepE (nCtx ctx) (nState s) = nE (stepE ctx s) := by
  unfold stepE
  have hrest : (nState s).top.rest = s.top.rest.map normPhiInstr := rfl
  rw [hrest]
  cases hr : s.top.rest with
  | nil => rfl
  | cons i rest =>
    simp only [List.map_cons]
    have hfr : ({ (nState s).top with rest := rest.map normPhiInstr } : Frame) = nFrame { s.top with rest := rest } := rfl
    have hcfg : (nCtx ctx).cfg = ctx.cfg := rfl
    have hlay : (nCtx ctx).layout = ctx.layout := rfl
    have hmem : (nState s).mem = s.mem := rfl
    have henv : (nFrame { s.top with rest := rest }).env = s.top.env := rfl
    have henv2 : (nState s).top.env = s.top.env := rfl
    have hfr2 : Frame.mk (nState s).top.fn (nState s).top.cur (rest.map normPhiInstr) s.top.env
        (nState s).top.spSave (nState s).top.retTo = nFrame { s.top with rest := rest } := rfl
    have hfn : PhiOk ({ s.top with rest := rest } : Frame).fn := hf
    cases i with
    | phi d ty ins => rfl
    | jump t =>
      simp only [normPhiInstr, hfr, enterBlock_n ctx _ t hfn, bind, Except.bind]
      cases enterBlock ctx { s.top with rest := rest } t with
      | error e => rfl
      | ok f' => rfl
    | cjump a c b y n =>
      simp only [normPhiInstr, hfr, henv, henv2, hfr2, evalOpnd_n, bind, Except.bind]
      cases evalOpnd ctx s.top.env a with
      | error e => rfl
      | ok x =>
        simp only
        cases evalOpnd ctx s.top.env b with
        | error e => rfl
        | ok yv =>
          simp only
          cases evalCond c x yv with
          | error e => rfl
          | ok t =>
            simp only [hfr2, enterBlock_n ctx _ _ hfn]
            cases enterBlock ctx { s.top with rest := rest } (if t = true then y else n) with
            | error e => rfl
            | ok f' => rfl
    | fcall d ty callee args =>
      simp only [normPhiInstr, hfr]
      exact doCall_n ctx s _ _ callee args
    | pcall callee args =>
      simp only [normPhiInstr, hfr]
      exact doCall_n ctx s _ _ callee args
    | ret v =>
      simp only [normPhiInstr, hfr, henv, henv2, hfr2, evalOpnd_n, bind, Except.bind]
      have : (nState s).top.fn.ret = s.top.fn.ret := rfl
      rw [this]
      cases s.top.fn.ret with
      | none => rfl
      | some t =>
        simp only
        cases evalOpnd ctx s.top.env v with
        | error e => rfl
        | ok x => exact doReturn_n ctx { s with top := { s.top with rest := rest } } (some x)
    | exit =>
      simp only [normPhiInstr, hfr]
      have : (nState s).top.fn.ret = s.top.fn.ret := rfl
      rw [this]
      cases s.top.fn.ret with
      | some t => rfl
      | none => exact doReturn_n ctx { s with top := { s.top with rest := rest } } none
    | const d ty c =>
      simp only [normPhiInstr, hfr, hcfg, bind, Except.bind]
      cases evalConst ctx.cfg ty c <;> rfl
    | undefined d ty => rfl
    | literal d data =>
      simp only [normPhiInstr, hfr, hlay]
      have : (nState s).top.fn.name = s.top.fn.name := rfl
      rw [this]
      cases ctx.layout.lits.find? (fun p => p.1 = (s.top.fn.name, d)) with
      | none => rfl
      | some p => rfl
    | alloc d sz al => rfl
    | addrof d src =>
      simp only [normPhiInstr, hfr, henv, henv2, hfr2, evalOpnd_n, bind, Except.bind]
      cases evalOpnd ctx s.top.env src <;> rfl
    | binop d ty op a b =>
      simp only [normPhiInstr, hfr, henv, henv2, hfr2, hcfg, evalOpnd_n, bind, Except.bind]
      cases evalOpnd ctx s.top.env a with
      | error e => rfl
      | ok x =>
        simp only
        cases evalOpnd ctx s.top.env b with
        | error e => rfl
        | ok y =>
          simp only
          cases evalBinop ctx.cfg ty op x y <;> rfl
    | unop d ty op a =>
      simp only [normPhiInstr, hfr, henv, henv2, hfr2, hcfg, evalOpnd_n, bind, Except.bind]
      cases evalOpnd ctx s.top.env a with
      | error e => rfl
      | ok x =>
        simp only
        cases evalUnop ctx.cfg ty op x <;> rfl
    | cast d ty a =>
      simp only [normPhiInstr, hfr, henv, henv2, hfr2, hcfg, evalOpnd_n, bind, Except.bind]
      cases evalOpnd ctx s.top.env a with
      | error e => rfl
      | ok x =>
        simp only
        cases evalCast ctx.cfg ty x <;> rfl
    | load d ty addr vol =>
      simp only [normPhiInstr, hfr, henv, henv2, hfr2, hcfg, hmem, evalAddr_n, bind, Except.bind]
      cases evalAddr ctx s.top.env addr "load" with
      | error e => rfl
      | ok a =>
        simp only
        cases s.mem.readBytes ctx.cfg a (ty.size ctx.cfg) <;> rfl
    | store ty v addr vol =>
      simp only [normPhiInstr, hfr, henv, henv2, hfr2, hcfg, hmem, evalAddr_n, evalOpnd_n, bind, Except.bind]
      cases evalAddr ctx s.top.env addr "store" with
      | error e => rfl
      | ok a =>
        simp only
        cases evalOpnd ctx s.top.env v with
        | error e => rfl
        | ok x =>
          simp only
          cases encodeVal ctx.cfg ty x with
          | error e => rfl
          | ok bs =>
            simp only
            cases s.mem.writeBytes ctx.cfg a bs <;> rfl
    | copyblob dd ss n =>
      simp only [normPhiInstr, hfr, henv, henv2, hfr2, hcfg, hmem, evalAddr_n, bind, Except.bind]
      cases evalAddr ctx s.top.env dd "memcpy" with
      | error e => rfl
      | ok da =>
        simp only
        cases evalAddr ctx s.top.env ss "memcpy" with
        | error e => rfl
        | ok sa =>
          simp only
          cases copyBytes ctx.cfg s.mem da sa n <;> rfl
    | asm tpl a b c => rfl

/-! ## the functions on the call stack are functions of the module -/

def FramesOk (P : Func → Prop) (s : State) : Prop := P s.top.fn ∧ ∀ c ∈ s.callers, P c.fn

theorem enterBlock_fn {ctx : Ctx} {fr f' : Frame} {t : String} (h : enterBlock ctx fr t = .ok f') : f'.fn = fr.fn := by
  unfold enterBlock at h
  split at h
  · simp at h
  · simp only [bind, Except.bind] at h
    split at h
    · simp at h
    · simp only [pure, Except.pure, Except.ok.injEq] at h; rw [← h]

theorem newFrame_fn {cfg : Config} {f : Func} {args : List Val} {sp : Nat} {rt : Option String} {fr : Frame}
    (h : newFrame cfg f args sp rt = .ok fr) : fr.fn = f := by
  unfold newFrame at h
  split at h <;> simp at h
  rw [← h]

theorem doReturn_ok {ctx : Ctx} {s s' : State} {v : Option Val} {P : Func → Prop}
    (h : doReturn ctx s v = .ok (.next s')) (hs : FramesOk P s) : FramesOk P s' := by
  unfold doReturn at h
  split at h
  · split at h <;> simp at h
  · rename_i c cs hc
    have hc1 : P c.fn := hs.2 c (by rw [hc]; simp)
    have hc2 : ∀ x ∈ cs, P x.fn := fun x hx => hs.2 x (by rw [hc]; simp [hx])
    split at h <;> simp at h
    · rw [← h]; exact ⟨hc1, hc2⟩
    · rw [← h]; exact ⟨hc1, hc2⟩

theorem callK_ok {ctx : Ctx} {s s' : State} {fr : Frame} {dst : Option (String × Ty)} {args : List Operand}
    {name : String} {P : Func → Prop} (hm : ∀ f ∈ ctx.mod.funcs, P f)
    (h : callK ctx s fr dst args name = .ok (.next s')) (hfr : P fr.fn) (hs : ∀ c ∈ s.callers, P c.fn) :
    FramesOk P s' := by
  unfold callK at h
  simp only [bind, Except.bind] at h
  split at h
  · simp at h
  · split at h
    · rename_i f hff
      split at h
      · simp [throw, throwThe, MonadExceptOf.throw] at h
      · split at h
        · simp at h
        · rename_i nf hnf
          simp only [pure, Except.pure, Except.ok.injEq, StepR.next.injEq] at h
          rw [← h]
          refine ⟨?_, ?_⟩
          · show P nf.fn
            rw [newFrame_fn hnf]; exact hm f (findFunc_mem hff)
          · intro c hc
            rcases List.mem_cons.1 hc with rfl | hc'
            · exact hfr
            · exact hs c hc'
    · split at h
      · split at h
        · simp [throw, throwThe, MonadExceptOf.throw] at h
        · split at h <;>
            simp only [pure, Except.pure, Except.ok.injEq, StepR.next.injEq, throw, throwThe,
              MonadExceptOf.throw, reduceCtorEq] at h <;>
            first
            | (rw [← h]; exact ⟨hfr, hs⟩)
            | exact h.elim
      · simp [throw, throwThe, MonadExceptOf.throw] at h

theorem doCall_ok {ctx : Ctx} {s s' : State} {fr : Frame} {dst : Option (String × Ty)} {callee : Operand}
    {args : List Operand} {P : Func → Prop} (hm : ∀ f ∈ ctx.mod.funcs, P f)
    (h : doCall ctx s fr dst callee args = .ok (.next s')) (hfr : P fr.fn) (hs : ∀ c ∈ s.callers, P c.fn) :
    FramesOk P s' := by
  rw [doCall_eq] at h
  simp only [bind, Except.bind] at h
  split at h
  · simp at h
  · exact callK_ok hm h hfr hs

theorem stepE_ok {ctx : Ctx} {s s' : State} {P : Func → Prop} (hm : ∀ f ∈ ctx.mod.funcs, P f)
    (h : stepE ctx s = .ok (.next s')) (hs : FramesOk P s) : FramesOk P s' := by
  unfold stepE at h
  split at h
  · simp at h
  · rename_i i rest hr
    have hkeep : ∀ (e : Env) (m : Mem), FramesOk P { s with mem := m, top := { s.top with rest := rest, env := e } } :=
      fun e m => ⟨hs.1, hs.2⟩
    split at h
    all_goals (simp only [bind, Except.bind, pure, Except.pure] at h)
    all_goals (try (repeat' split at h))
    all_goals (try (simp only [Except.ok.injEq, StepR.next.injEq, reduceCtorEq] at h))
    all_goals first
      | exact h.elim
      | (rw [← h]; exact ⟨hs.1, hs.2⟩)
      | (exact doCall_ok hm h hs.1 hs.2)
      | (exact doReturn_ok h ⟨hs.1, hs.2⟩)
      | (rename_i fr' hfr'
         rw [← h]
         exact ⟨by show P fr'.fn; rw [enterBlock_fn hfr']; exact hs.1, hs.2⟩)
      | skip

/-! ## executions -/

theorem step_n (ctx : Ctx) (s : State) (hf : PhiOk s.top.fn) : step (nCtx ctx) (nState s) = nStepR (step ctx s) := by
  simp only [step, stepE_n ctx s hf]
  cases stepE ctx s <;> rfl

theorem run_n (ctx : Ctx) (hm : ∀ f ∈ ctx.mod.funcs, PhiOk f) :
    ∀ (n : Nat) (s : State), FramesOk PhiOk s → run (nCtx ctx) n (nState s) = run ctx n s := by
  intro n
  induction n with
  | zero => intro s _; rfl
  | succ k ih =>
    intro s hs
    simp only [run, step_n ctx s hs.1]
    cases hq : step ctx s with
    | done o => rfl
    | next s' =>
      simp only [nStepR]
      apply ih
      have : stepE ctx s = .ok (.next s') := by
        simp only [step] at hq
        cases he : stepE ctx s with
        | error e => rw [he] at hq; cases hq
        | ok r => rw [he] at hq; simp at hq; rw [hq]
      exact stepE_ok hm this hs

/-- the re-read module behaves like the module that was written, for every entry point, argument vector,
    oracle of the external calls and step budget -/
theorem exec_normPhi (cfg : Config) (m : Module) (hm : ∀ f ∈ m.funcs, PhiOk f) (oracle : Oracle) (fname : String)
    (args : List Val) (fuel : Nat) :
    exec cfg (normPhi m) oracle fname args fuel = exec cfg m oracle fname args fuel := by
  simp only [exec, mkCtx_normPhi]
  have hinit : initState (nCtx (mkCtx cfg m oracle)) fname args =
      (match initState (mkCtx cfg m oracle) fname args with
       | .ok s => .ok (nState s)
       | .error e => .error e) := by
    simp only [initState]
    have hmod : (nCtx (mkCtx cfg m oracle)).mod = normPhi (mkCtx cfg m oracle).mod := rfl
    rw [hmod, findFunc_n]
    cases (mkCtx cfg m oracle).mod.findFunc fname with
    | none => rfl
    | some f =>
      simp only [Option.map_some, bind, Except.bind]
      have hc : (nCtx (mkCtx cfg m oracle)).cfg = (mkCtx cfg m oracle).cfg := rfl
      rw [hc, newFrame_n]
      cases newFrame (mkCtx cfg m oracle).cfg f args 0 none with
      | error e => rfl
      | ok fr =>
        simp only [pure, Except.pure, nState, List.map_nil]
        have hl : (nCtx (mkCtx cfg m oracle)).layout = (mkCtx cfg m oracle).layout := rfl
        have hg : initGlob (mkCtx cfg m oracle).cfg (normPhi (mkCtx cfg m oracle).mod) (mkCtx cfg m oracle).layout =
            initGlob (mkCtx cfg m oracle).cfg (mkCtx cfg m oracle).mod (mkCtx cfg m oracle).layout := by
          simp only [initGlob, literals_normPhi]
          rfl
        rw [hl, hg]
  rw [hinit]
  cases hs : initState (mkCtx cfg m oracle) fname args with
  | error e => rfl
  | ok s =>
    simp only
    apply run_n (mkCtx cfg m oracle) hm fuel s
    -- the initial frame is a function of the module, the call stack is empty
    simp only [initState] at hs
    cases hff : (mkCtx cfg m oracle).mod.findFunc fname with
    | none => rw [hff] at hs; simp at hs
    | some f =>
      rw [hff] at hs
      simp only [bind, Except.bind] at hs
      cases hnf : newFrame (mkCtx cfg m oracle).cfg f args 0 none with
      | error e => rw [hnf] at hs; simp at hs
      | ok fr =>
        rw [hnf] at hs
        simp only [pure, Except.pure, Except.ok.injEq] at hs
        rw [← hs]
        refine ⟨?_, by intro c hc; simp at hc⟩
        show PhiOk fr.fn
        rw [newFrame_fn hnf]
        exact hm f (findFunc_mem hff)

end Proofs.IRBehave
