import PpciVerif.Model.Regex
/-! C31: `compile` does not return on `a*a*`, for ANY amount of fuel (negation witness of
`Props.C31.compile_total_full`).  Each derivative by `a` wraps the state into one more
`LogicalOr(…, a*)`; the new state is larger than every state seen so far, so the work list never
becomes empty. -/
namespace Proofs.RegexDiverge
open Model.Regex Model

def aStar : Re := .star (symbol 97)
/-- `a*a*` -/
def root : Re := .cat aStar aStar
/-- the `k`-th derivative by `a` -/
def s : Nat → Re
  | 0 => root
  | k + 1 => .or (s k) aStar

def C2 : List SymSet := [[(97, 97)], [(0, 96), (98, 255)]]

def size : Re → Nat
  | .eps => 1
  | .set _ => 1
  | .star e => size e + 1
  | .cat l r => size l + size r + 1
  | .or l r => size l + size r + 1
  | .and l r => size l + size r + 1

theorem classes_aStar : derivativeClasses aStar = C2 := by decide +kernel
theorem prod_C2 : productIntersections C2 C2 = C2 := by decide +kernel

theorem classes_s : ∀ k, derivativeClasses (s k) = C2
  | 0 => by decide +kernel
  | k + 1 => by
    show productIntersections (derivativeClasses (s k)) (derivativeClasses aStar) = C2
    rw [classes_s k, classes_aStar, prod_C2]

theorem d_aStar_a : derivative aStar 97 = aStar := by decide +kernel
theorem d_aStar_0 : derivative aStar 0 = NULL := by decide +kernel
theorem or_null_null : logicalOr NULL NULL = NULL := by decide +kernel

theorem s_succ_ne (k : Nat) : s (k + 1) ≠ aStar ∧ s (k + 1) ≠ NULL ∧ aStar ≠ NULL := by
  refine ⟨?_, ?_, ?_⟩ <;> simp [s, aStar, NULL]

theorem deriv_s_a : ∀ k, derivative (s k) 97 = s (k + 1)
  | 0 => by decide +kernel
  | k + 1 => by
    show logicalOr (derivative (s k) 97) (derivative aStar 97) = _
    rw [deriv_s_a k, d_aStar_a]
    obtain ⟨h1, h2, h3⟩ := s_succ_ne k
    show logicalOr (.or (s k) aStar) aStar = .or (.or (s k) aStar) aStar
    simp only [logicalOr]
    have h1' : Re.or (s k) aStar ≠ aStar := h1
    have h2' : Re.or (s k) aStar ≠ NULL := h2
    simp [h1', h2', h3]

theorem deriv_s_0 : ∀ k, derivative (s k) 0 = NULL
  | 0 => by decide +kernel
  | k + 1 => by
    show logicalOr (derivative (s k) 0) (derivative aStar 0) = _
    rw [deriv_s_0 k, d_aStar_0, or_null_null]

theorem size_s_lt (k : Nat) : size (s k) < size (s (k + 1)) := by simp [s, size]; omega

/-- the work-list state while the chain is being followed -/
structure Div (k : Nat) (st : CState Re) : Prop where
  stack : st.stack = [s k]
  nullIn : NULL ∈ st.states
  small : ∀ x ∈ st.states, size x ≤ size (s k)

theorem div_step (k : Nat) (st : CState Re) (h : Div k st) :
    Div (k + 1) (processState reOps root { st with stack := [] } (s k)) := by
  have hnew : s (k + 1) ∉ st.states := fun hin => by
    have := h.small _ hin
    have := size_s_lt k
    omega
  have hcl : reOps.classes (s k) = C2 := classes_s k
  have h97 : reOps.deriv (s k) 97 = s (k + 1) := deriv_s_a k
  have h0 : reOps.deriv (s k) 0 = NULL := deriv_s_0 k
  have hnull' : NULL ∈ st.states ++ [s (k + 1)] := List.mem_append_left _ h.nullIn
  unfold processState
  simp only [hcl, C2, List.foldl_cons, List.foldl_nil, classStep, h97, h0, hnew, if_false, addState, hnull',
    if_true]
  refine ⟨?_, ?_, ?_⟩
  · simp
  · simp only [List.isEmpty_cons, Bool.false_eq_true, false_and, if_false]
    exact hnull'
  · intro x hx
    simp only [List.isEmpty_cons, Bool.false_eq_true, false_and, if_false, List.mem_append,
      List.mem_singleton] at hx
    rcases hx with hx | rfl
    · have := h.small x hx
      have := size_s_lt k
      omega
    · exact Nat.le_refl _

theorem loop_none : ∀ (fuel k : Nat) (st : CState Re), Div k st → loop reOps root fuel st = none
  | 0, k, st, h => by
    unfold loop
    simp [h.stack]
  | fuel + 1, k, st, h => by
    unfold loop
    simp only [h.stack]
    exact loop_none fuel (k + 1) _ (div_step k st h)

/-- the state after `a*a*` and `NULL` have been expanded -/
def st2 : CState Re :=
  processState reOps root
    { processState reOps root { addState ⟨[], [], []⟩ root with stack := [] } root with stack := [s 1] } NULL

theorem st2_div : Div 1 st2 := by
  refine ⟨by decide +kernel, by decide +kernel, ?_⟩
  have : st2.states = [s 0, s 1, NULL] := by decide +kernel
  rw [this]
  intro x hx
  simp only [List.mem_cons, List.not_mem_nil, or_false] at hx
  rcases hx with rfl | rfl | rfl <;> simp [s, size, NULL, root, aStar, symbol, symbolSet]

theorem first_two_steps (fuel : Nat) :
    loop reOps root (fuel + 2) (addState ⟨[], [], []⟩ root) = loop reOps root fuel st2 := by
  have e1 : (addState (⟨[], [], []⟩ : CState Re) root).stack = [root] := rfl
  have e2 : (processState reOps root { addState ⟨[], [], []⟩ root with stack := [] } root).stack = [NULL, s 1] := by
    decide +kernel
  conv => lhs; unfold loop
  simp only [e1]
  conv => lhs; unfold loop
  simp only [e2]
  rfl

/-- `compile` runs out of fuel on `a*a*` whatever the fuel is -/
theorem compile_diverges (fuel : Nat) : compile fuel root = .error .Fuel := by
  have hl : loop reOps root fuel (addState ⟨[], [], []⟩ root) = none := by
    match fuel with
    | 0 => unfold loop; rfl
    | 1 =>
      have e1 : (addState (⟨[], [], []⟩ : CState Re) root).stack = [root] := rfl
      have e2 : (processState reOps root { addState ⟨[], [], []⟩ root with stack := [] } root).stack = [NULL, s 1] := by
        decide +kernel
      conv => lhs; unfold loop
      simp only [e1]
      conv => lhs; unfold loop
      simp only [e2]
    | fuel + 2 => rw [first_two_steps]; exact loop_none fuel 1 st2 st2_div
  simp only [compile, compileWith, hl]

end Proofs.RegexDiverge
