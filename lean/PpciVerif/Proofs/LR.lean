import PpciVerif.Model.LR
/-!
# Proofs.LR — lemmas for C32

1. derivation trees denote derivations (`TreeOK.derives`);
2. the table validator: stack invariant `StackOK`, `parseLoop_sound`;
3. semantic actions: `parseLoop_fold` (the driver is parametric in the actions);
4. the chart recogniser: `ChartSound`, `Closed`, `chartLoop_spec`;
5. first sets: inductive characterisation, the fixpoint loop, the link to `Steps`.
-/
namespace Proofs.LR
open Spec.CFG Model.LR

/-! ## 1. trees and derivations -/

theorem Derives.append {G : Grammar} {α β u v : List Nat}
    (h1 : Derives G α u) (h2 : Derives G β v) : Derives G (α ++ β) (u ++ v) := by
  induction h1 with
  | nil => simpa using h2
  | term ha _ ih => exact Derives.term ha ih
  | prod hp h1 _ _ ih2 =>
    rw [List.append_assoc]
    exact Derives.prod hp h1 ih2

theorem yieldL_append (a b : List Tree) : yieldL (a ++ b) = yieldL a ++ yieldL b := by
  induction a with
  | nil => simp [yieldL]
  | cons t ts ih => simp [yieldL, ih]

mutual
  theorem TreeOK.derives {G : Grammar} : ∀ {t : Tree} {X : Nat}, TreeOK G t X →
      Derives G [X] (t.yield.map (·.typ))
    | _, _, .leaf t h => by
      simpa [Tree.yield] using Derives.term h Derives.nil
    | _, _, .node i p kids hp hk => by
      have h := ForestOK.derives hk
      have hm : p ∈ G.prods := List.mem_of_getElem? hp
      have := Derives.prod hm h Derives.nil
      simpa [Tree.yield] using this
  theorem ForestOK.derives {G : Grammar} : ∀ {ts : List Tree} {Xs : List Nat}, ForestOK G ts Xs →
      Derives G Xs ((yieldL ts).map (·.typ))
    | _, _, .nil => by simpa [yieldL] using Derives.nil
    | _, _, .cons h1 h2 => by
      have a := TreeOK.derives h1
      have b := ForestOK.derives h2
      have := Derives.append a b
      simpa [yieldL] using this
end

/-! ## 2. the validator -/


theorem lookup2_mem {α : Type} {l : List (Nat × Nat × α)} {s x : Nat} {a : α}
    (h : lookup2 l s x = some a) : (s, x, a) ∈ l := by
  unfold lookup2 at h
  cases hf : l.find? (fun e => e.1 == s && e.2.1 == x) with
  | none => simp [hf] at h
  | some e =>
    simp [hf] at h
    have hp := List.find?_some hf
    have hm := List.mem_of_find?_eq_some hf
    simp at hp
    obtain ⟨e1, e2, e3⟩ := e
    simp at hp h
    obtain ⟨rfl, rfl⟩ := hp
    subst h
    exact hm

def syms {V : Type} (st : List (Frame V)) : List Nat := st.map (·.sym)

/-- every state on the stack knows a true prefix of the symbols below it -/
def StackOK {V : Type} (K : Known) (st : List (Frame V)) : Prop :=
  ∀ i, K.get (topState (st.drop i)) <+: syms (st.drop i)

theorem StackOK.nil {V : Type} {K : Known} (h0 : K.get 0 = []) : StackOK K ([] : List (Frame V)) := by
  intro i; simp [topState, syms, h0]

theorem StackOK.drop {V : Type} {K : Known} {st : List (Frame V)} (h : StackOK K st) (n : Nat) :
    StackOK K (st.drop n) := by
  intro i; rw [List.drop_drop]; exact h _

theorem StackOK.push {V : Type} {K : Known} {st : List (Frame V)} (h : StackOK K st) (f : Frame V)
    (hf : K.get f.state <+: f.sym :: K.get (topState st)) : StackOK K (f :: st) := by
  intro i
  cases i with
  | zero =>
    simp only [List.drop_zero, topState, syms, List.map_cons]
    have h0 := h 0
    simp only [List.drop_zero] at h0
    exact hf.trans ((List.prefix_cons_inj f.sym).mpr h0)
  | succ i => simpa using h i

theorem forest_of_frames {G : Grammar} (l : List (Frame Tree))
    (h : ∀ f ∈ l, TreeOK G f.val f.sym) : ForestOK G (l.map (·.val)) (l.map (·.sym)) := by
  induction l with
  | nil => exact ForestOK.nil
  | cons f l ih =>
    simp only [List.map_cons]
    exact ForestOK.cons (h f (by simp)) (ih (fun g hg => h g (by simp [hg])))

/-- what the reduce check gives: the top `|α|` frames spell `α` -/
theorem reduce_frames {G : Grammar} {K : Known} {st : List (Frame Tree)} {rhs : List Nat}
    (hs : StackOK K st) (hk : rhs.reverse <+: K.get (topState st))
    (ht : ∀ f ∈ st, TreeOK G f.val f.sym) :
    rhs.length ≤ st.length ∧ ForestOK G ((st.take rhs.length).reverse.map (·.val)) rhs := by
  have h0 := hs 0
  simp only [List.drop_zero] at h0
  obtain ⟨r, hr⟩ := hk.trans h0
  have hlen : rhs.length ≤ st.length := by
    have := congrArg List.length hr
    simp [syms] at this; omega
  refine ⟨hlen, ?_⟩
  have htake : (st.take rhs.length).map (·.sym) = rhs.reverse := by
    rw [List.map_take]
    show List.take rhs.length (syms st) = _
    rw [← hr]; simp
  have := forest_of_frames (G := G) (st.take rhs.length).reverse
    (fun f hf => ht f (List.mem_of_mem_take (List.mem_reverse.mp hf)))
  rw [List.map_reverse (f := fun x : Frame Tree => x.sym), htake, List.reverse_reverse] at this
  exact this


/-- the content of `checkWith G T K = true` -/
structure Checked (G : Grammar) (T : Tables) (K : Known) : Prop where
  k0 : K.get 0 = []
  shift : ∀ s a s', (s, a, Action.shift s') ∈ T.action →
    a ≠ eof ∧ G.isTerm a = true ∧ K.get s' <+: a :: K.get s
  reduce : ∀ s a r, (s, a, Action.reduce r) ∈ T.action →
    ∃ p, G.prods[r]? = some p ∧ p.rhs.reverse <+: K.get s
  accept : ∀ s a r, (s, a, Action.accept r) ∈ T.action →
    a = eof ∧ ∃ p, G.prods[r]? = some p ∧ p.lhs = G.start ∧ p.rhs.reverse <+: K.get s
  goto : ∀ s X s', (s, X, s') ∈ T.goto → K.get s' <+: X :: K.get s

theorem checked_of_checkWith {G : Grammar} {T : Tables} {K : Known}
    (h : checkWith G T K = true) : Checked G T K := by
  unfold checkWith at h
  simp only [Bool.and_eq_true, List.all_eq_true, List.isEmpty_iff] at h
  obtain ⟨⟨⟨⟨h0, ha⟩, hg⟩, _⟩, _⟩ := h
  refine ⟨h0, ?_, ?_, ?_, ?_⟩
  · intro s a s' hm
    have := ha _ hm
    simp only [Bool.and_eq_true, bne_iff_ne, ne_eq, List.isPrefixOf_iff_prefix] at this
    exact ⟨this.1.1, this.1.2, this.2⟩
  · intro s a r hm
    have := ha _ hm
    simp only at this
    cases hp : G.prods[r]? with
    | none => simp [hp] at this
    | some p =>
      simp only [hp, List.isPrefixOf_iff_prefix] at this
      exact ⟨p, rfl, this⟩
  · intro s a r hm
    have := ha _ hm
    simp only [Bool.and_eq_true, beq_iff_eq] at this
    cases hp : G.prods[r]? with
    | none => simp [hp] at this
    | some p =>
      simp only [hp, Bool.and_eq_true, beq_iff_eq, List.isPrefixOf_iff_prefix] at this
      exact ⟨this.1, p, rfl, this.2.1, this.2.2⟩
  · intro s X s' hm
    have := hg _ hm
    simpa only [List.isPrefixOf_iff_prefix] using this


theorem yield_after_reduce (st : List (Frame Tree)) (n r : Nat) (X s' : Nat) :
    yieldL ((((⟨X, s', Tree.node r ((st.take n).reverse.map (·.val))⟩ : Frame Tree) :: st.drop n).reverse).map (·.val))
      = yieldL (st.reverse.map (·.val)) := by
  have h1 : st.reverse = (st.drop n).reverse ++ (st.take n).reverse := by
    rw [← List.reverse_append, List.take_append_drop]
  rw [h1]
  simp only [List.reverse_cons, List.map_append, List.map_cons, List.map_nil, yieldL_append, yieldL,
    Tree.yield, List.append_nil]

theorem node_ok {G : Grammar} {K : Known} {st : List (Frame Tree)} {p : Prod} {r : Nat}
    (hp : G.prods[r]? = some p) (hs : StackOK K st) (hk : p.rhs.reverse <+: K.get (topState st))
    (ht : ∀ f ∈ st, TreeOK G f.val f.sym) :
    p.rhs.length ≤ st.length ∧
      TreeOK G (Tree.node r ((st.take p.rhs.length).reverse.map (·.val))) p.lhs := by
  obtain ⟨hl, hf⟩ := reduce_frames hs hk ht
  exact ⟨hl, TreeOK.node r p _ hp hf⟩

theorem parseLoop_sound {G : Grammar} {T : Tables} {K : Known} (hc : Checked G T K) :
    ∀ (fuel : Nat) (st : List (Frame Tree)) (inp : List Tok) (t : Tree),
      parseLoop G T Tree.node Tree.leaf fuel st inp = .ok t →
      StackOK K st → (∀ f ∈ st, TreeOK G f.val f.sym) → (∀ tk ∈ inp, tk.typ ≠ eof) →
      TreeOK G t G.start ∧ t.yield = yieldL (st.reverse.map (·.val)) ++ inp := by
  intro fuel
  induction fuel with
  | zero => intro st inp t h; simp [parseLoop] at h
  | succ fuel ih =>
    intro st inp t h hs ht he
    rw [parseLoop] at h
    split at h
    · simp at h
    · split at h
      · simp at h
      · -- shift
        rename_i s' hl
        have hm := lookup2_mem hl
        obtain ⟨hne, hterm, hpre⟩ := hc.shift _ _ _ hm
        cases inp with
        | nil => simp [lookAhead] at hne
        | cons tk rest =>
          simp only [lookAhead] at hne hterm hpre
          simp only at h
          have := ih _ _ _ h (hs.push ⟨tk.typ, s', Tree.leaf tk⟩ hpre)
            (by
              intro f hf
              simp only [List.mem_cons] at hf
              rcases hf with rfl | hf
              · exact TreeOK.leaf tk hterm
              · exact ht f hf)
            (fun x hx => he x (by simp [hx]))
          refine ⟨this.1, ?_⟩
          rw [this.2]
          simp [yieldL_append, yieldL, Tree.yield]
      · -- reduce
        rename_i r hl
        have hm := lookup2_mem hl
        obtain ⟨p, hp, hk⟩ := hc.reduce _ _ _ hm
        simp only [hp] at h
        obtain ⟨hlen, hnode⟩ := node_ok hp hs hk ht
        simp only [hlen, if_true] at h
        split at h
        · simp at h
        · rename_i s' hg
          have hgm := lookup2_mem hg
          have hpre := hc.goto _ _ _ hgm
          have := ih _ _ _ h ((hs.drop _).push ⟨p.lhs, s', _⟩ hpre)
            (by
              intro f hf
              simp only [List.mem_cons] at hf
              rcases hf with rfl | hf
              · exact hnode
              · exact ht f (List.mem_of_mem_drop hf))
            he
          refine ⟨this.1, ?_⟩
          rw [this.2, yield_after_reduce]
      · -- accept
        rename_i r hl
        have hm := lookup2_mem hl
        obtain ⟨ha, p, hp, hstart, hk⟩ := hc.accept _ _ _ hm
        simp only [hp] at h
        obtain ⟨hlen, hnode⟩ := node_ok hp hs hk ht
        simp only [hlen, if_true] at h
        split at h
        · -- the stack is back at the initial state: accepted
          rename_i hemp
          injection h with h
          subst h
          have hinp : inp = [] := by
            cases inp with
            | nil => rfl
            | cons tk rest =>
              exfalso
              exact he tk (by simp) (by simpa [lookAhead] using ha)
          subst hinp
          refine ⟨hstart ▸ hnode, ?_⟩
          have hd : st.drop p.rhs.length = [] := by simpa using hemp
          have := yield_after_reduce st p.rhs.length r p.lhs 0
          rw [hd] at this
          simp only [List.reverse_cons, List.reverse_nil, List.nil_append, List.map_cons, List.map_nil,
            yieldL, List.append_nil] at this
          simpa using this
        · split at h
          · simp at h
          · rename_i s' hg
            have hgm := lookup2_mem hg
            have hpre := hc.goto _ _ _ hgm
            have := ih _ _ _ h ((hs.drop _).push ⟨p.lhs, s', _⟩ hpre)
              (by
                intro f hf
                simp only [List.mem_cons] at hf
                rcases hf with rfl | hf
                · exact hnode
                · exact ht f (List.mem_of_mem_drop hf))
              he
            refine ⟨this.1, ?_⟩
            rw [this.2, yield_after_reduce]

/-! ## 3. semantic actions -/

def Frame.mapVal {V W : Type} (f : V → W) (fr : Frame V) : Frame W := ⟨fr.sym, fr.state, f fr.val⟩

theorem foldL_eq_map {V : Type} (act : Nat → List V → V) (tokv : Tok → V) (ts : List Tree) :
    foldL act tokv ts = ts.map (Tree.fold act tokv) := by
  induction ts with
  | nil => simp [foldL]
  | cons t ts ih => simp [foldL, ih]

theorem topState_map {V W : Type} (f : V → W) (st : List (Frame V)) :
    topState (st.map (Frame.mapVal f)) = topState st := by
  cases st <;> simp [topState, Frame.mapVal]

theorem isFinal_map {V W : Type} (G : Grammar) (f : V → W) (st : List (Frame V)) :
    isFinal G (st.map (Frame.mapVal f)) = isFinal G st := by
  match st with
  | [] => simp [isFinal]
  | [a] => simp [isFinal, Frame.mapVal]
  | a :: b :: r => simp [isFinal]

theorem parseLoop_fold {V : Type} (G : Grammar) (T : Tables) (act : Nat → List V → V) (tokv : Tok → V) :
    ∀ (fuel : Nat) (st : List (Frame Tree)) (inp : List Tok),
      parseLoop G T act tokv fuel (st.map (Frame.mapVal (Tree.fold act tokv))) inp
        = (parseLoop G T Tree.node Tree.leaf fuel st inp).map (Tree.fold act tokv) := by
  intro fuel
  induction fuel with
  | zero => intro st inp; simp [parseLoop, Except.map]
  | succ fuel ih =>
    intro st inp
    rw [parseLoop, parseLoop]
    simp only [isFinal_map, topState_map]
    split
    · simp [Except.map]
    · split
      · simp [Except.map]
      · rename_i s' _
        cases inp with
        | nil =>
          have := ih (⟨eof, s', Tree.leaf ⟨eof, 0⟩⟩ :: st) []
          simpa [Frame.mapVal, Tree.fold] using this
        | cons tk rest =>
          have := ih (⟨tk.typ, s', Tree.leaf tk⟩ :: st) rest
          simpa [Frame.mapVal, Tree.fold] using this
      · rename_i r _
        cases hp : G.prods[r]? with
        | none => simp [Except.map]
        | some p =>
          simp only [List.length_map]
          split
          · simp only [← List.map_drop, topState_map]
            split
            · simp [Except.map]
            · rename_i s' _
              have := ih (⟨p.lhs, s', Tree.node r ((st.take p.rhs.length).reverse.map (·.val))⟩ :: st.drop p.rhs.length) inp
              rw [← this]
              simp [Frame.mapVal, Tree.fold, foldL_eq_map, List.map_take, Function.comp_def]
          · simp [Except.map]
      · rename_i r _
        cases hp : G.prods[r]? with
        | none => simp [Except.map]
        | some p =>
          simp only [List.length_map]
          split
          · simp only [← List.map_drop, topState_map, List.isEmpty_map]
            split
            · simp [Except.map, Tree.fold, foldL_eq_map, List.map_take, Function.comp_def, Frame.mapVal]
            · split
              · simp [Except.map]
              · rename_i s' _
                have := ih (⟨p.lhs, s', Tree.node r ((st.take p.rhs.length).reverse.map (·.val))⟩ :: st.drop p.rhs.length) inp
                rw [← this]
                simp [Frame.mapVal, Tree.fold, foldL_eq_map, List.map_take, Function.comp_def]
          · simp [Except.map]

/-! ## 4. the chart recogniser -/


theorem Derives.nil_inv {G : Grammar} {u : List Nat} (h : Derives G [] u) : u = [] := by
  cases h; rfl

/-! ## the chart recogniser -/

def slice (w : List Nat) (i j : Nat) : List Nat := (w.drop i).take (j - i)

theorem slice_self (w : List Nat) (i : Nat) : slice w i i = [] := by simp [slice]

theorem slice_append (w : List Nat) {i k j : Nat} (h1 : i ≤ k) (h2 : k ≤ j) :
    slice w i k ++ slice w k j = slice w i j := by
  unfold slice
  have e : j - i = (k - i) + (j - k) := by omega
  rw [e, List.take_add, List.drop_drop]
  have : i + (k - i) = k := by omega
  rw [this]

theorem slice_one (w : List Nat) {i X : Nat} (h : w[i]? = some X) : slice w i (i + 1) = [X] := by
  unfold slice
  have hlt : i < w.length := by
    rcases Nat.lt_or_ge i w.length with h' | h'
    · exact h'
    · simp [List.getElem?_eq_none h'] at h
  have hx : w[i] = X := by
    have := List.getElem?_eq_getElem hlt
    rw [this] at h; exact Option.some.inj h
  rw [List.drop_eq_getElem_cons hlt, hx]
  simp

theorem slice_all (w : List Nat) : slice w 0 w.length = w := by simp [slice]

theorem matchRhs_cons (G : Grammar) (w : List Nat) (chart : List Fact) (X : Nat) (rest : List Nat) (i j : Nat) :
    matchRhs G w chart (X :: rest) i j = true ↔
      ∃ k, i ≤ k ∧ k ≤ j ∧ symAt G w chart X i k = true ∧ matchRhs G w chart rest k j = true := by
  cases rest with
  | nil =>
    simp only [matchRhs, Bool.and_eq_true, decide_eq_true_eq, beq_iff_eq]
    constructor
    · rintro ⟨h1, h2⟩; exact ⟨j, h1, Nat.le_refl _, h2, rfl⟩
    · rintro ⟨k, h1, _, h3, rfl⟩; exact ⟨h1, h3⟩
  | cons Y rest =>
    simp only [matchRhs, List.any_eq_true, List.mem_range, Bool.and_eq_true]
    constructor
    · rintro ⟨d, hd, h1, h2⟩; exact ⟨i + d, by omega, by omega, h1, h2⟩
    · rintro ⟨k, h1, h2, h3, h4⟩
      refine ⟨k - i, by omega, ?_, ?_⟩
      · have : i + (k - i) = k := by omega
        rw [this]; exact h3
      · have : i + (k - i) = k := by omega
        rw [this]; exact h4

def ChartSound (G : Grammar) (w : List Nat) (chart : List Fact) : Prop :=
  ∀ X i j, (X, i, j) ∈ chart → i ≤ j ∧ j ≤ w.length ∧ Derives G [X] (slice w i j)

theorem symAt_sound {G : Grammar} {w : List Nat} {chart : List Fact} (hc : ChartSound G w chart)
    {X i k : Nat} (h : symAt G w chart X i k = true) :
    i ≤ k ∧ k ≤ w.length ∧ Derives G [X] (slice w i k) := by
  unfold symAt at h
  simp only [Bool.or_eq_true, Bool.and_eq_true, beq_iff_eq, List.contains_iff_mem] at h
  rcases h with ⟨⟨ht, rfl⟩, hw⟩ | ⟨_, hm⟩
  · have hlt : i < w.length := by
      rcases Nat.lt_or_ge i w.length with h' | h'
      · exact h'
      · simp [List.getElem?_eq_none h'] at hw
    refine ⟨by omega, by omega, ?_⟩
    rw [slice_one w hw]
    exact Derives.term ht Derives.nil
  · exact hc _ _ _ hm

theorem matchRhs_sound {G : Grammar} {w : List Nat} {chart : List Fact} (hc : ChartSound G w chart) :
    ∀ (α : List Nat) (i j : Nat), matchRhs G w chart α i j = true →
      i ≤ j ∧ Derives G α (slice w i j) := by
  intro α
  induction α with
  | nil =>
    intro i j h
    simp only [matchRhs, beq_iff_eq] at h
    subst h
    exact ⟨Nat.le_refl _, by rw [slice_self]; exact Derives.nil⟩
  | cons X rest ih =>
    intro i j h
    obtain ⟨k, h1, h2, h3, h4⟩ := (matchRhs_cons G w chart X rest i j).mp h
    obtain ⟨_, _, hd⟩ := symAt_sound hc h3
    obtain ⟨_, hr⟩ := ih k j h4
    refine ⟨by omega, ?_⟩
    have := Derives.append hd hr
    rw [slice_append w h1 h2] at this
    exact this

def Closed (G : Grammar) (w : List Nat) (chart : List Fact) : Prop :=
  ∀ p ∈ G.prods, ∀ i j, i ≤ j → j ≤ w.length →
    matchRhs G w chart p.rhs i j = true → (p.lhs, i, j) ∈ chart

theorem matchRhs_complete {G : Grammar} {w : List Nat} {chart : List Fact} (hc : Closed G w chart)
    {α u : List Nat} (hd : Derives G α u) :
    ∀ (pre post : List Nat), w = pre ++ u ++ post →
      matchRhs G w chart α pre.length (pre.length + u.length) = true := by
  induction hd with
  | nil => intro pre post _; simp [matchRhs]
  | @term a Xs w' ha _ ih =>
    intro pre post hw
    rw [matchRhs_cons]
    refine ⟨pre.length + 1, by omega, by simp, ?_, ?_⟩
    · unfold symAt
      have : w[pre.length]? = some a := by subst hw; simp
      simp [ha, this]
    · have := ih (pre ++ [a]) post (by subst hw; simp)
      have e : (pre ++ [a]).length + w'.length = pre.length + (a :: w').length := by
        simp; omega
      rw [e] at this
      simpa using this
  | @prod p Xs u v hp _ _ ih1 ih2 =>
    intro pre post hw
    rw [matchRhs_cons]
    refine ⟨pre.length + u.length, by omega, by simp, ?_, ?_⟩
    · have h1 := ih1 pre (v ++ post) (by subst hw; simp)
      have hm := hc p hp _ _ (by omega) (by subst hw; simp) h1
      unfold symAt
      have hn : G.isNonterm p.lhs = true := by
        unfold Grammar.isNonterm
        simp only [List.any_eq_true, beq_iff_eq]
        exact ⟨p, hp, rfl⟩
      simp [hn, hm]
    · have := ih2 (pre ++ u) post (by subst hw; simp)
      have e : (pre ++ u).length + v.length = pre.length + (u ++ v).length := by
        simp; omega
      rw [e] at this
      simpa using this


theorem mem_spans {n i j : Nat} (h1 : i ≤ j) (h2 : j ≤ n) : (i, j) ∈ spans n := by
  unfold spans
  simp only [List.mem_flatMap, List.mem_range, List.mem_map, Prod.mk.injEq]
  exact ⟨j - i, by omega, i, by omega, rfl, by omega⟩

theorem mem_candidates {G : Grammar} {n : Nat} {p : Prod} {i j : Nat} (hp : p ∈ G.prods)
    (h1 : i ≤ j) (h2 : j ≤ n) : (p, i, j) ∈ candidates G n := by
  unfold candidates
  simp only [List.mem_flatMap, List.mem_map]
  exact ⟨(i, j), mem_spans h1 h2, p, hp, rfl⟩

theorem candidates_ok {G : Grammar} {n : Nat} {c : Prod × Nat × Nat} (h : c ∈ candidates G n) :
    c.1 ∈ G.prods ∧ c.2.2 ≤ n := by
  unfold candidates spans at h
  simp only [List.mem_flatMap, List.mem_range, List.mem_map] at h
  obtain ⟨ij, ⟨d, hd, i, hi, rfl⟩, p, hp, rfl⟩ := h
  exact ⟨hp, by simp; omega⟩

theorem chartPass_sound {G : Grammar} {w : List Nat} :
    ∀ (cs : List (Prod × Nat × Nat)) (chart : List Fact) (ch : Bool),
      (∀ c ∈ cs, c.1 ∈ G.prods ∧ c.2.2 ≤ w.length) → ChartSound G w chart →
      ChartSound G w (chartPass G w cs chart ch).1 := by
  intro cs
  induction cs with
  | nil => intro chart ch _ h; simpa [chartPass] using h
  | cons c cs ih =>
    intro chart ch hcs h
    rw [chartPass]
    split
    · rename_i hcond
      simp only [Bool.and_eq_true] at hcond
      apply ih _ _ (fun c' hc' => hcs c' (by simp [hc']))
      intro X i j hm
      simp only [List.mem_cons, Prod.mk.injEq] at hm
      rcases hm with ⟨rfl, rfl, rfl⟩ | hm
      · obtain ⟨hij, hd⟩ := matchRhs_sound h _ _ _ hcond.2
        have hc := hcs c (by simp)
        refine ⟨hij, hc.2, ?_⟩
        have := Derives.prod hc.1 hd Derives.nil
        simpa using this
      · exact h _ _ _ hm
    · exact ih _ _ (fun c' hc' => hcs c' (by simp [hc'])) h

theorem chartPass_flag (G : Grammar) (w : List Nat) :
    ∀ (cs : List (Prod × Nat × Nat)) (chart : List Fact), (chartPass G w cs chart true).2 = true := by
  intro cs
  induction cs with
  | nil => intro chart; simp [chartPass]
  | cons c cs ih =>
    intro chart
    rw [chartPass]
    split
    · exact ih _
    · exact ih _

theorem chartPass_stable {G : Grammar} {w : List Nat} :
    ∀ (cs : List (Prod × Nat × Nat)) (chart : List Fact),
      (chartPass G w cs chart false).2 = false →
      (chartPass G w cs chart false).1 = chart ∧
      ∀ c ∈ cs, matchRhs G w chart c.1.rhs c.2.1 c.2.2 = true → (c.1.lhs, c.2.1, c.2.2) ∈ chart := by
  intro cs
  induction cs with
  | nil => intro chart _; simp [chartPass]
  | cons c cs ih =>
    intro chart h
    rw [chartPass] at h ⊢
    split at h
    · rw [chartPass_flag] at h; simp at h
    · rename_i hcond
      rw [if_neg hcond]
      obtain ⟨h1, h2⟩ := ih chart h
      refine ⟨h1, ?_⟩
      intro c' hc' hm
      simp only [List.mem_cons] at hc'
      rcases hc' with rfl | hc'
      · simp only [Bool.and_eq_true, Bool.not_eq_true', not_and, Bool.not_eq_true] at hcond
        by_cases hin : chart.contains (c'.1.lhs, c'.2.1, c'.2.2) = true
        · simpa using hin
        · have := hcond (by simpa using hin)
          rw [hm] at this; simp at this
      · exact h2 c' hc' hm

theorem chartLoop_spec {G : Grammar} {w : List Nat} :
    ∀ (fuel : Nat) (chart res : List Fact), ChartSound G w chart →
      chartLoop G w fuel chart = some res → ChartSound G w res ∧ Closed G w res := by
  intro fuel
  induction fuel with
  | zero => intro chart res _ h; simp [chartLoop] at h
  | succ fuel ih =>
    intro chart res hs h
    rw [chartLoop] at h
    have hsound := chartPass_sound (candidates G w.length) chart false
      (fun c hc => candidates_ok hc) hs
    split at h
    · exact ih _ _ hsound h
    · rename_i hflag
      simp only [Bool.not_eq_true] at hflag
      injection h with h
      obtain ⟨h1, h2⟩ := chartPass_stable _ _ hflag
      rw [h1] at h
      subst h
      refine ⟨hs, ?_⟩
      intro p hp i j hij hj hm
      exact h2 (p, i, j) (mem_candidates hp hij hj) hm

/-! ## 5. first sets -/

inductive NullableI (G : Grammar) : Nat → Prop
  | mk {p : Prod} : p ∈ G.prods → (∀ Y, Y ∈ p.rhs → NullableI G Y) → NullableI G p.lhs

inductive FirstI (G : Grammar) : Nat → Nat → Prop
  | term {a : Nat} : G.isTerm a = true → FirstI G a a
  | prod {p : Prod} {pre : List Nat} {Y : Nat} {post : List Nat} {a : Nat} :
      p ∈ G.prods → p.rhs = pre ++ Y :: post → (∀ Z, Z ∈ pre → NullableI G Z) →
      FirstI G Y a → FirstI G p.lhs a

theorem FirstI.isTerm {G : Grammar} {X a : Nat} (h : FirstI G X a) : G.isTerm a = true := by
  induction h with
  | term h => exact h
  | prod _ _ _ _ ih => exact ih

/-! ### list-as-set helpers -/

theorem mem_union {a b : List Nat} {x : Nat} : x ∈ union a b ↔ x ∈ a ∨ x ∈ b := by
  unfold union
  simp only [List.mem_append, List.mem_filter, Bool.not_eq_true', List.contains_eq_mem,
    decide_eq_false_iff_not]
  constructor
  · rintro (h | ⟨h, _⟩)
    · exact Or.inl h
    · exact Or.inr h
  · rintro (h | h)
    · exact Or.inl h
    · by_cases ha : x ∈ a
      · exact Or.inl ha
      · exact Or.inr ⟨h, ha⟩

theorem subset_iff {a b : List Nat} : subset a b = true ↔ ∀ x ∈ a, x ∈ b := by
  unfold subset
  simp [List.all_eq_true]

theorem lookup_upd (tab : FirstTab) (x y : Nat) (v : List Nat) :
    List.lookup y (tab.upd x v) = if y = x then (List.lookup x tab).map (fun _ => v) else List.lookup y tab := by
  unfold FirstTab.upd
  induction tab with
  | nil => simp [List.lookup]
  | cons e tab ih =>
    obtain ⟨k, s⟩ := e
    simp only [List.map_cons]
    by_cases hk : k = x
    · subst hk
      by_cases hy : y = k
      · subst hy; simp [List.lookup]
      · have : (y == k) = false := by simpa using hy
        simp [List.lookup, this, hy] at ih ⊢
        exact ih
    · have hkx : (k == x) = false := by simpa using hk
      simp only [hkx]
      by_cases hy : y = k
      · subst hy
        have : ¬ y = x := hk
        simp [List.lookup, this]
      · have hyk : (y == k) = false := by simpa using hy
        by_cases hyx : y = x
        · subst hyx
          have hxk : (y == k) = false := hyk
          simp [List.lookup, hxk] at ih ⊢
          exact ih
        · simp [List.lookup, hyk, hyx] at ih ⊢
          exact ih

theorem get_upd_ne (tab : FirstTab) {x y : Nat} (v : List Nat) (h : y ≠ x) :
    (tab.upd x v).get y = tab.get y := by
  unfold FirstTab.get
  rw [lookup_upd]; simp [h]

theorem get_upd_self (tab : FirstTab) (x : Nat) (v : List Nat) :
    (tab.upd x v).get x = v ∨ ((tab.upd x v).get x = [] ∧ tab.get x = []) := by
  unfold FirstTab.get
  rw [lookup_upd]
  cases h : List.lookup x tab <;> simp

/-- growing update: the new entry is `old ∪ extra` -/
theorem mem_get_upd_union (tab : FirstTab) (x y : Nat) (extra : List Nat) (a : Nat) :
    a ∈ (tab.upd x (union (tab.get x) extra)).get y → a ∈ tab.get y ∨ (y = x ∧ a ∈ extra) := by
  intro h
  by_cases hy : y = x
  · subst hy
    rcases get_upd_self tab y (union (tab.get y) extra) with h1 | ⟨h1, _⟩
    · rw [h1, mem_union] at h
      rcases h with h | h
      · exact Or.inl h
      · exact Or.inr ⟨rfl, h⟩
    · rw [h1] at h; simp at h
  · rw [get_upd_ne tab _ hy] at h; exact Or.inl h

theorem get_upd_mono (tab : FirstTab) (x y : Nat) (extra : List Nat) (a : Nat)
    (h : a ∈ tab.get y) : a ∈ (tab.upd x (union (tab.get x) extra)).get y := by
  by_cases hy : y = x
  · subst hy
    rcases get_upd_self tab y (union (tab.get y) extra) with h1 | ⟨_, h2⟩
    · rw [h1, mem_union]; exact Or.inl h
    · rw [h2] at h; simp at h
  · rw [get_upd_ne tab _ hy]; exact h


/-! ### soundness of the computed sets -/

def GSym (G : Grammar) (X : Nat) : Prop := G.isTerm X = true ∨ G.isNonterm X = true

/-- every entry of a grammar symbol is justified -/
def TabSound (G : Grammar) (tab : FirstTab) : Prop :=
  ∀ X, GSym G X → ∀ a ∈ tab.get X, (a = eps → NullableI G X) ∧ (a ≠ eps → FirstI G X a)

theorem rhsFirst_sound {G : Grammar} {tab : FirstTab} (hs : TabSound G tab) :
    ∀ (rhs : List Nat), (∀ x ∈ rhs, GSym G x) → ∀ a ∈ rhsFirst tab rhs,
      (a = eps → ∀ Z, Z ∈ rhs → NullableI G Z) ∧
      (a ≠ eps → ∃ pre Y post, rhs = pre ++ Y :: post ∧ (∀ Z, Z ∈ pre → NullableI G Z) ∧ FirstI G Y a) := by
  intro rhs
  induction rhs with
  | nil =>
    intro _ a ha
    simp only [rhsFirst, List.mem_singleton] at ha
    subst ha
    exact ⟨fun _ Z hZ => by simp at hZ, fun h => absurd rfl h⟩
  | cons b rest ih =>
    intro hg a ha
    have hb : GSym G b := hg b (by simp)
    have hrest : ∀ x ∈ rest, GSym G x := fun x hx => hg x (by simp [hx])
    rw [rhsFirst] at ha
    split at ha
    · rename_i heps
      have hnb : NullableI G b := (hs b hb eps (by simpa using heps)).1 rfl
      rw [mem_union] at ha
      rcases ha with ha | ha
      · simp only [List.mem_filter, bne_iff_ne, ne_eq] at ha
        refine ⟨fun h => absurd h ha.2, fun _ => ⟨[], b, rest, rfl, fun Z hZ => by simp at hZ, ?_⟩⟩
        exact (hs b hb a ha.1).2 ha.2
      · obtain ⟨h1, h2⟩ := ih hrest a ha
        refine ⟨fun h Z hZ => ?_, fun h => ?_⟩
        · simp only [List.mem_cons] at hZ
          rcases hZ with rfl | hZ
          · exact hnb
          · exact h1 h Z hZ
        · obtain ⟨pre, Y, post, e, hp, hf⟩ := h2 h
          refine ⟨b :: pre, Y, post, by simp [e], ?_, hf⟩
          intro Z hZ
          simp only [List.mem_cons] at hZ
          rcases hZ with rfl | hZ
          · exact hnb
          · exact hp Z hZ
    · simp only [List.mem_filter, bne_iff_ne, ne_eq] at ha
      refine ⟨fun h => absurd h ha.2, fun _ => ⟨[], b, rest, rfl, fun Z hZ => by simp at hZ, ?_⟩⟩
      exact (hs b hb a ha.1).2 ha.2

theorem isNonterm_of_mem {G : Grammar} {p : Prod} (hp : p ∈ G.prods) : G.isNonterm p.lhs = true := by
  unfold Grammar.isNonterm
  simp only [List.any_eq_true, beq_iff_eq]
  exact ⟨p, hp, rfl⟩

theorem firstPass_sound {G : Grammar} (hwf : ∀ p ∈ G.prods, ∀ x ∈ p.rhs, GSym G x) :
    ∀ (ps : List Prod), (∀ p ∈ ps, p ∈ G.prods) → ∀ (tab : FirstTab) (ch : Bool),
      TabSound G tab → TabSound G (firstPass ps tab ch).1 := by
  intro ps
  induction ps with
  | nil => intro _ tab ch h; simpa [firstPass] using h
  | cons p ps ih =>
    intro hps tab ch h
    have hp : p ∈ G.prods := hps p (by simp)
    have hps' : ∀ q ∈ ps, q ∈ G.prods := fun q hq => hps q (by simp [hq])
    rw [firstPass]
    split
    · exact ih hps' tab ch h
    · apply ih hps'
      intro X hX a ha
      rcases mem_get_upd_union tab p.lhs X _ a ha with hold | ⟨rfl, hnew⟩
      · exact h X hX a hold
      · obtain ⟨h1, h2⟩ := rhsFirst_sound h p.rhs (hwf p hp) a hnew
        refine ⟨fun e => NullableI.mk hp (h1 e), fun e => ?_⟩
        obtain ⟨pre, Y, post, e1, e2, e3⟩ := h2 e
        exact FirstI.prod hp e1 e2 e3

/-! ### completeness of a closed table -/

def TabClosed (G : Grammar) (tab : FirstTab) : Prop :=
  ∀ p ∈ G.prods, ∀ a ∈ rhsFirst tab p.rhs, a ∈ tab.get p.lhs

def TabBase (G : Grammar) (tab : FirstTab) : Prop := ∀ t, G.isTerm t = true → t ∈ tab.get t

theorem eps_mem_rhsFirst {tab : FirstTab} :
    ∀ (rhs : List Nat), (∀ Z ∈ rhs, eps ∈ tab.get Z) → eps ∈ rhsFirst tab rhs := by
  intro rhs
  induction rhs with
  | nil => intro _; simp [rhsFirst]
  | cons b rest ih =>
    intro h
    have hb : eps ∈ tab.get b := h b (by simp)
    rw [rhsFirst]
    simp only [List.contains_eq_mem, hb, decide_true, if_true]
    rw [mem_union]
    exact Or.inr (ih (fun Z hZ => h Z (by simp [hZ])))

theorem mem_rhsFirst_of_split {tab : FirstTab} {a Y : Nat} {post : List Nat} (hne : a ≠ eps)
    (hY : a ∈ tab.get Y) :
    ∀ (pre : List Nat), (∀ Z ∈ pre, eps ∈ tab.get Z) → a ∈ rhsFirst tab (pre ++ Y :: post) := by
  have hfil : a ∈ (tab.get Y).filter (· != eps) := by
    simp only [List.mem_filter, bne_iff_ne, ne_eq]; exact ⟨hY, hne⟩
  intro pre
  induction pre with
  | nil =>
    intro _
    simp only [List.nil_append]
    rw [rhsFirst]
    split
    · rw [mem_union]; exact Or.inl hfil
    · exact hfil
  | cons b pre ih =>
    intro h
    have hb : eps ∈ tab.get b := h b (by simp)
    simp only [List.cons_append]
    rw [rhsFirst]
    simp only [List.contains_eq_mem, hb, decide_true, if_true]
    rw [mem_union]
    exact Or.inr (ih (fun Z hZ => h Z (by simp [hZ])))

theorem nullable_complete {G : Grammar} {tab : FirstTab} (hc : TabClosed G tab) {X : Nat}
    (h : NullableI G X) : eps ∈ tab.get X := by
  induction h with
  | mk hp _ ih => exact hc _ hp eps (eps_mem_rhsFirst _ ih)

theorem first_complete {G : Grammar} {tab : FirstTab} (hc : TabClosed G tab) (hb : TabBase G tab)
    (heps : G.isTerm eps = false) {X a : Nat} (h : FirstI G X a) : a ∈ tab.get X := by
  induction h with
  | term ht => exact hb _ ht
  | @prod p pre Y post a hp e hn hf ih =>
    have hne : a ≠ eps := by
      intro e'; subst e'
      have := hf.isTerm
      rw [heps] at this; cases this
    apply hc p hp a
    rw [e]
    exact mem_rhsFirst_of_split hne ih pre (fun Z hZ => nullable_complete hc (hn Z hZ))


/-! ### the pass and the loop -/

theorem firstPass_flag : ∀ (ps : List Prod) (tab : FirstTab), (firstPass ps tab true).2 = true := by
  intro ps
  induction ps with
  | nil => intro tab; simp [firstPass]
  | cons p ps ih =>
    intro tab
    rw [firstPass]
    split
    · exact ih _
    · exact ih _

theorem firstPass_stable : ∀ (ps : List Prod) (tab : FirstTab),
    (firstPass ps tab false).2 = false →
    (firstPass ps tab false).1 = tab ∧ ∀ p ∈ ps, ∀ a ∈ rhsFirst tab p.rhs, a ∈ tab.get p.lhs := by
  intro ps
  induction ps with
  | nil => intro tab _; simp [firstPass]
  | cons p ps ih =>
    intro tab h
    rw [firstPass] at h ⊢
    split at h
    · rename_i hsub
      rw [if_pos hsub]
      obtain ⟨h1, h2⟩ := ih tab h
      refine ⟨h1, ?_⟩
      intro q hq
      simp only [List.mem_cons] at hq
      rcases hq with rfl | hq
      · exact subset_iff.mp hsub
      · exact h2 q hq
    · rw [firstPass_flag] at h; simp at h

theorem firstPass_mono : ∀ (ps : List Prod) (tab : FirstTab) (ch : Bool) (y a : Nat),
    a ∈ tab.get y → a ∈ (firstPass ps tab ch).1.get y := by
  intro ps
  induction ps with
  | nil => intro tab ch y a h; simpa [firstPass] using h
  | cons p ps ih =>
    intro tab ch y a h
    rw [firstPass]
    split
    · exact ih _ _ _ _ h
    · exact ih _ _ _ _ (get_upd_mono tab p.lhs y _ a h)

theorem firstLoop_spec {G : Grammar} (hwf : ∀ p ∈ G.prods, ∀ x ∈ p.rhs, GSym G x) :
    ∀ (fuel : Nat) (tab res : FirstTab), TabSound G tab → TabBase G tab →
      firstLoop G fuel tab = some res → TabSound G res ∧ TabBase G res ∧ TabClosed G res := by
  intro fuel
  induction fuel with
  | zero => intro tab res _ _ h; simp [firstLoop] at h
  | succ fuel ih =>
    intro tab res hs hb h
    rw [firstLoop] at h
    have hs' := firstPass_sound hwf G.prods (fun p hp => hp) tab false hs
    have hb' : TabBase G (firstPass G.prods tab false).1 :=
      fun t ht => firstPass_mono _ _ _ _ _ (hb t ht)
    split at h
    · exact ih _ _ hs' hb' h
    · rename_i hflag
      simp only [Bool.not_eq_true] at hflag
      injection h with h
      obtain ⟨h1, h2⟩ := firstPass_stable _ _ hflag
      rw [h1] at h
      subst h
      exact ⟨hs, hb, fun p hp => h2 p hp⟩

/-! ### the initial table -/

theorem lookup_map_key (l : List Nat) (f : Nat → List Nat) (x : Nat) :
    List.lookup x (l.map (fun n => (n, f n))) = if x ∈ l then some (f x) else none := by
  induction l with
  | nil => simp
  | cons k l ih =>
    simp only [List.map_cons, List.lookup_cons]
    by_cases h : x = k
    · subst h; simp
    · have : (x == k) = false := by simpa using h
      simp [this, ih, h]

theorem mem_nontermNames {G : Grammar} {x : Nat} : x ∈ nontermNames G ↔ G.isNonterm x = true := by
  unfold nontermNames Grammar.isNonterm
  rw [List.mem_eraseDups]
  simp only [List.mem_map, List.any_eq_true, beq_iff_eq]

theorem initFirst_get (G : Grammar) (x : Nat) :
    (initFirst G).get x =
      if G.isNonterm x = true then [] else if x ∈ G.terms ++ [eof, eps] then [x] else [] := by
  unfold initFirst FirstTab.get
  rw [List.lookup_append, lookup_map_key, lookup_map_key]
  by_cases h : G.isNonterm x = true
  · simp [mem_nontermNames, h]
  · have : ¬ x ∈ nontermNames G := fun hm => h (mem_nontermNames.mp hm)
    simp only [this, if_false, h]
    split <;> simp


structure WF (G : Grammar) : Prop where
  lhs_not_term : ∀ p ∈ G.prods, G.isTerm p.lhs = false
  rhs_sym : ∀ p ∈ G.prods, ∀ x ∈ p.rhs, GSym G x
  eps_not_term : G.isTerm eps = false

theorem wf_of_wf {G : Grammar} (h : G.wf eps = true) : WF G := by
  unfold Grammar.wf at h
  simp only [Bool.and_eq_true, List.all_eq_true, Bool.not_eq_true', bne_iff_ne, ne_eq,
    Bool.or_eq_true] at h
  obtain ⟨h1, h2⟩ := h
  exact ⟨fun p hp => (h1 p hp).1.1, fun p hp x hx => ((h1 p hp).2 x hx).1, h2⟩

theorem initFirst_sound {G : Grammar} (hwf : WF G) : TabSound G (initFirst G) := by
  intro X hX a ha
  rw [initFirst_get] at ha
  split at ha
  · simp at ha
  · rename_i hn
    split at ha
    · simp only [List.mem_singleton] at ha
      subst ha
      rcases hX with ht | hn'
      · have hne : a ≠ eps := by
          intro e; subst e; rw [hwf.eps_not_term] at ht; cases ht
        exact ⟨fun e => absurd e hne, fun _ => FirstI.term ht⟩
      · exact absurd hn' hn
    · simp at ha

theorem initFirst_base {G : Grammar} (hwf : WF G) : TabBase G (initFirst G) := by
  intro t ht
  rw [initFirst_get]
  have hn : ¬ G.isNonterm t = true := by
    intro hn
    unfold Grammar.isNonterm at hn
    simp only [List.any_eq_true, beq_iff_eq] at hn
    obtain ⟨p, hp, rfl⟩ := hn
    rw [hwf.lhs_not_term p hp] at ht; cases ht
  have hm : t ∈ G.terms ++ [eof, eps] := by
    unfold Grammar.isTerm at ht
    simp only [List.contains_eq_mem, decide_eq_true_eq] at ht
    simp [ht]
  simp [hn, hm]

/-- the computed table is exactly the inductively defined FIRST / nullable -/
theorem firstSets_inductive {G : Grammar} (hwf : WF G) {fuel : Nat} {tab : FirstTab}
    (h : firstSets G fuel = some tab) (X : Nat) (hX : GSym G X) :
    (eps ∈ tab.get X ↔ NullableI G X) ∧ ∀ a, a ≠ eps → (a ∈ tab.get X ↔ FirstI G X a) := by
  obtain ⟨hs, hb, hc⟩ := firstLoop_spec hwf.rhs_sym fuel _ _ (initFirst_sound hwf) (initFirst_base hwf) h
  refine ⟨⟨fun he => (hs X hX eps he).1 rfl, nullable_complete hc⟩, fun a hne => ?_⟩
  exact ⟨fun ha => (hs X hX a ha).2 hne, first_complete hc hb hwf.eps_not_term⟩

/-! ### the inductive characterisation is the textbook one (rewriting of sentential forms) -/

theorem Steps.trans {G : Grammar} {α β γ : List Nat} (h1 : Steps G α β) (h2 : Steps G β γ) :
    Steps G α γ := by
  induction h1 with
  | refl => exact h2
  | head hs _ ih => exact Steps.head hs (ih h2)

theorem Step.ctx {G : Grammar} {α β : List Nat} (h : Step G α β) (u v : List Nat) :
    Step G (u ++ α ++ v) (u ++ β ++ v) := by
  cases h with
  | mk u' v' p hp =>
    have := Step.mk (u ++ u') (v' ++ v) p hp
    simpa [List.append_assoc] using this

theorem Steps.ctx {G : Grammar} {α β : List Nat} (h : Steps G α β) (u v : List Nat) :
    Steps G (u ++ α ++ v) (u ++ β ++ v) := by
  induction h with
  | refl => exact Steps.refl _
  | head hs _ ih => exact Steps.head (Step.ctx hs u v) ih

theorem Steps.single {G : Grammar} {p : Prod} (hp : p ∈ G.prods) : Steps G [p.lhs] p.rhs := by
  have := Step.mk [] [] p hp
  simp only [List.nil_append, List.append_nil] at this
  exact Steps.head this (Steps.refl _)

theorem steps_nil_of_all {G : Grammar} :
    ∀ (l : List Nat), (∀ Y, Y ∈ l → Steps G [Y] []) → Steps G l [] := by
  intro l
  induction l with
  | nil => intro _; exact Steps.refl _
  | cons Y l ih =>
    intro h
    have h1 := Steps.ctx (h Y (by simp)) [] l
    simp only [List.nil_append] at h1
    exact Steps.trans h1 (ih (fun Z hZ => h Z (by simp [hZ])))

theorem NullableI.steps {G : Grammar} {X : Nat} (h : NullableI G X) : Steps G [X] [] := by
  induction h with
  | mk hp _ ih => exact Steps.trans (Steps.single hp) (steps_nil_of_all _ ih)

theorem nullable_of_steps {G : Grammar} {α γ : List Nat} (h : Steps G α γ) :
    γ = [] → ∀ Z, Z ∈ α → NullableI G Z := by
  induction h with
  | refl α => intro e Z hZ; subst e; simp at hZ
  | head hs _ ih =>
    intro e Z hZ
    cases hs with
    | mk u v p hp =>
      have ih' := ih e
      simp only [List.mem_append, List.mem_cons] at hZ
      rcases hZ with hZ | rfl | hZ
      · exact ih' Z (by simp [hZ])
      · exact NullableI.mk hp (fun Y hY => ih' Y (by simp [hY]))
      · exact ih' Z (by simp [hZ])

theorem nullable_iff {G : Grammar} (X : Nat) : NullableI G X ↔ NullableSpec G X :=
  ⟨NullableI.steps, fun h => nullable_of_steps h rfl X (by simp)⟩

theorem FirstI.steps {G : Grammar} {X a : Nat} (h : FirstI G X a) : ∃ β, Steps G [X] (a :: β) := by
  induction h with
  | term _ => exact ⟨[], Steps.refl _⟩
  | @prod p pre Y post a hp e hn _ ih =>
    obtain ⟨β, hβ⟩ := ih
    refine ⟨β ++ post, ?_⟩
    have h1 : Steps G [p.lhs] (pre ++ Y :: post) := e ▸ Steps.single hp
    have h2 : Steps G (pre ++ Y :: post) (Y :: post) := by
      have := Steps.ctx (steps_nil_of_all pre (fun Z hZ => (hn Z hZ).steps)) [] (Y :: post)
      simpa using this
    have h3 : Steps G (Y :: post) (a :: β ++ post) := by
      have := Steps.ctx hβ [] post
      simpa using this
    exact Steps.trans h1 (Steps.trans h2 h3)

/-- some symbol of `α`, preceded by nullable symbols only, has `a` in its FIRST -/
def FirstSeq (G : Grammar) (α : List Nat) (a : Nat) : Prop :=
  ∃ pre Y post, α = pre ++ Y :: post ∧ (∀ Z, Z ∈ pre → NullableI G Z) ∧ FirstI G Y a

theorem firstSeq_of_steps {G : Grammar} {α γ : List Nat} (h : Steps G α γ) :
    ∀ a β, γ = a :: β → G.isTerm a = true → FirstSeq G α a := by
  induction h with
  | refl α =>
    intro a β e ht
    subst e
    exact ⟨[], a, β, rfl, fun Z hZ => by simp at hZ, FirstI.term ht⟩
  | head hs _ ih =>
    intro a β e ht
    obtain ⟨pre, Y, post, e1, hn, hf⟩ := ih a β e ht
    cases hs with
    | mk u v p hp =>
      rw [List.append_assoc] at e1
      rcases List.append_eq_append_iff.mp e1 with ⟨a', rfl, e2⟩ | ⟨c', rfl, e2⟩
      · -- pre = u ++ a'
        rcases List.append_eq_append_iff.mp e2 with ⟨b', rfl, rfl⟩ | ⟨c', e3, e4⟩
        · -- a' = rhs ++ b', v = b' ++ Y :: post : the whole rhs is nullable
          refine ⟨u ++ p.lhs :: b', Y, post, by simp, ?_, hf⟩
          intro Z hZ
          simp only [List.mem_append, List.mem_cons] at hZ
          rcases hZ with hZ | rfl | hZ
          · exact hn Z (by simp [hZ])
          · exact NullableI.mk hp (fun W hW => hn W (by simp [hW]))
          · exact hn Z (by simp [hZ])
        · -- rhs = a' ++ c', Y :: post = c' ++ v
          cases c' with
          | nil =>
            simp only [List.nil_append] at e4
            simp only [List.append_nil] at e3
            subst e3
            refine ⟨u ++ [p.lhs], Y, post, by simp [← e4], ?_, hf⟩
            intro Z hZ
            simp only [List.mem_append, List.mem_singleton] at hZ
            rcases hZ with hZ | rfl
            · exact hn Z (by simp [hZ])
            · exact NullableI.mk hp (fun W hW => hn W (by simp [hW]))
          | cons c c'' =>
            simp only [List.cons_append, List.cons.injEq] at e4
            obtain ⟨rfl, rfl⟩ := e4
            refine ⟨u, p.lhs, v, rfl, fun Z hZ => hn Z (by simp [hZ]), ?_⟩
            exact FirstI.prod hp e3 (fun Z hZ => hn Z (by simp [hZ])) hf
      · -- u = pre ++ c'
        cases c' with
        | nil =>
          simp only [List.nil_append] at e2
          simp only [List.append_nil]
          cases hr : p.rhs with
          | nil =>
            rw [hr] at e2
            simp only [List.nil_append] at e2
            refine ⟨pre ++ [p.lhs], Y, post, by simp [← e2], ?_, hf⟩
            intro Z hZ
            simp only [List.mem_append, List.mem_singleton] at hZ
            rcases hZ with hZ | rfl
            · exact hn Z hZ
            · exact NullableI.mk hp (fun W hW => by rw [hr] at hW; simp at hW)
          | cons r rs =>
            rw [hr] at e2
            simp only [List.cons_append, List.cons.injEq] at e2
            obtain ⟨rfl, _⟩ := e2
            refine ⟨pre, p.lhs, v, rfl, hn, ?_⟩
            exact FirstI.prod (pre := []) hp (by rw [hr]; rfl) (fun Z hZ => by simp at hZ) hf
        | cons c c'' =>
          simp only [List.cons_append, List.cons.injEq] at e2
          obtain ⟨rfl, _⟩ := e2
          exact ⟨pre, Y, c'' ++ p.lhs :: v, by simp, hn, hf⟩

theorem first_iff {G : Grammar} (X a : Nat) : FirstI G X a ↔ FirstSpec G X a := by
  constructor
  · intro h; exact ⟨h.isTerm, h.steps⟩
  · rintro ⟨ht, β, hs⟩
    obtain ⟨pre, Y, post, e, _, hf⟩ := firstSeq_of_steps hs a β rfl ht
    cases pre with
    | nil =>
      simp only [List.nil_append, List.cons.injEq] at e
      rw [e.1]; exact hf
    | cons z zs =>
      simp only [List.cons_append, List.cons.injEq] at e
      have := congrArg List.length e.2
      simp at this

/-! ## 6. executable tree check; every derivation has a tree -/

mutual
  theorem treeOk_sound {G : Grammar} : ∀ (t : Tree) (X : Nat), treeOk G t X = true → TreeOK G t X
    | .leaf tk, X, h => by
      simp only [treeOk, Bool.and_eq_true, beq_iff_eq] at h
      obtain ⟨h1, rfl⟩ := h
      exact TreeOK.leaf tk h1
    | .node i kids, X, h => by
      simp only [treeOk] at h
      split at h
      · rename_i p hp
        simp only [Bool.and_eq_true, beq_iff_eq] at h
        obtain ⟨rfl, h2⟩ := h
        exact TreeOK.node i p kids hp (forestOk_sound kids p.rhs h2)
      · cases h
  theorem forestOk_sound {G : Grammar} : ∀ (ts : List Tree) (Xs : List Nat),
      forestOk G ts Xs = true → ForestOK G ts Xs
    | [], [], _ => ForestOK.nil
    | t :: ts, X :: Xs, h => by
      simp only [forestOk, Bool.and_eq_true] at h
      exact ForestOK.cons (treeOk_sound t X h.1) (forestOk_sound ts Xs h.2)
    | [], _ :: _, h => by simp [forestOk] at h
    | _ :: _, [], h => by simp [forestOk] at h
end

mutual
  theorem treeOk_complete {G : Grammar} : ∀ {t : Tree} {X : Nat}, TreeOK G t X → treeOk G t X = true
    | _, _, .leaf tk h => by simp [treeOk, h]
    | _, _, .node i p kids hp hk => by
      simp [treeOk, hp, forestOk_complete hk]
  theorem forestOk_complete {G : Grammar} : ∀ {ts : List Tree} {Xs : List Nat},
      ForestOK G ts Xs → forestOk G ts Xs = true
    | _, _, .nil => by simp [forestOk]
    | _, _, .cons h1 h2 => by simp [forestOk, treeOk_complete h1, forestOk_complete h2]
end

theorem forest_of_derives {G : Grammar} {α u : List Nat} (h : Derives G α u) :
    ∃ ts, ForestOK G ts α ∧ (yieldL ts).map (·.typ) = u := by
  induction h with
  | nil => exact ⟨[], ForestOK.nil, by simp [yieldL]⟩
  | @term a Xs w ha _ ih =>
    obtain ⟨ts, h1, h2⟩ := ih
    exact ⟨Tree.leaf ⟨a, 0⟩ :: ts, ForestOK.cons (TreeOK.leaf ⟨a, 0⟩ ha) h1, by simp [yieldL, Tree.yield, h2]⟩
  | @prod p Xs u v hp _ _ ih1 ih2 =>
    obtain ⟨ks, k1, k2⟩ := ih1
    obtain ⟨ts, h1, h2⟩ := ih2
    obtain ⟨i, hi⟩ := List.mem_iff_getElem?.mp hp
    exact ⟨Tree.node i ks :: ts, ForestOK.cons (TreeOK.node i p ks hi k1) h1,
      by simp [yieldL, Tree.yield, k2, h2]⟩

end Proofs.LR
