import PpciVerif.Spec.IR
/-!
Basic facts about `Spec.IR` used by every simulation proof over the reference semantics
(core Lean only): environments behave like finite maps, `run` composes over steps.
-/
namespace Proofs.IR
open Spec.IR

theorem get_set_eq (e : Env) (x : String) (v : Val) : (e.set x v).get x = some v := by
  induction e with
  | nil => simp [Env.set, Env.get]
  | cons p r ih =>
    obtain ⟨y, w⟩ := p
    by_cases h : x = y
    · simp [Env.set, Env.get, h]
    · simp [Env.set, Env.get, h, ih]

theorem get_set_ne (e : Env) (x y : String) (v : Val) (h : y ≠ x) : (e.set x v).get y = e.get y := by
  induction e with
  | nil => simp [Env.set, Env.get, h]
  | cons p r ih =>
    obtain ⟨z, w⟩ := p
    by_cases hx : x = z
    · subst hx
      simp [Env.set, Env.get, h]
    · by_cases hy : y = z
      · simp [Env.set, Env.get, hx, hy]
      · simp [Env.set, Env.get, hx, hy, ih]

theorem get_set (e : Env) (x y : String) (v : Val) :
    (e.set x v).get y = if y = x then some v else e.get y := by
  by_cases h : y = x
  · subst h; simp [get_set_eq]
  · simp [h, get_set_ne e x y v h]

/-- `run` with `n + k` units of fuel = `n` steps, then `run` with `k` (when the first `n` steps do not finish) -/
def steps (ctx : Ctx) : Nat → State → Option State
  | 0, s => some s
  | n + 1, s =>
    match step ctx s with
    | .next s' => steps ctx n s'
    | .done _ => none

theorem run_add (ctx : Ctx) (n k : Nat) (s s' : State) (h : steps ctx n s = some s') :
    run ctx (n + k) s = run ctx k s' := by
  induction n generalizing s with
  | zero => simp [steps] at h; subst h; simp
  | succ n ih =>
    simp only [steps] at h
    rw [show n + 1 + k = (n + k) + 1 by omega]
    simp only [run]
    cases hs : step ctx s with
    | next s1 => simp only [hs] at h; exact ih s1 h
    | done o => simp [hs] at h

/-- more fuel never changes a finished run -/
theorem run_mono (ctx : Ctx) (n : Nat) (s : State) (o : Outcome) (h : run ctx n s = o)
    (hne : ∀ (_ : o = .outOfFuel), False) (k : Nat) : run ctx (n + k) s = o := by
  induction n generalizing s with
  | zero => simp [run] at h; exact absurd h.symm (fun e => hne e)
  | succ n ih =>
    rw [show n + 1 + k = (n + k) + 1 by omega]
    simp only [run] at h ⊢
    cases hs : step ctx s with
    | next s1 => simp only [hs] at h ⊢; exact ih s1 h
    | done o' => simp only [hs] at h ⊢; exact h

end Proofs.IR
