import PpciVerif.Spec.Bits
import Mathlib.Tactic.Ring
import Mathlib.Tactic.Linarith
/-!
Algebra of `Spec.Bits` (S1): ranges, idempotence and congruence of `wrapU/wrapS`,
`testBit` characterisations, `ofBits`, bit fields, byte (de)composition, and the
bit-index characterisations of `rotl/rotr/reverse/clz/ctz`.
-/
namespace Proofs.Bits
open Spec.Bits

/-! ### powers of two -/

theorem pow_pos (n : Nat) : (0 : Int) < 2 ^ n := Int.pow_pos (by decide)
theorem pow_ne (n : Nat) : (2 : Int) ^ n ≠ 0 := Int.ne_of_gt (pow_pos n)

theorem pow_succ' (n : Nat) : (2 : Int) ^ (n + 1) = 2 * 2 ^ n := by
  rw [Int.pow_succ]; ring

theorem pow_pred (n : Nat) (h : 1 ≤ n) : (2 : Int) ^ n = 2 * 2 ^ (n - 1) := by
  obtain ⟨m, rfl⟩ : ∃ m, n = m + 1 := ⟨n - 1, by omega⟩
  simpa using pow_succ' m

theorem pow_split (i k : Nat) : (2 : Int) ^ (i + k) = 2 ^ i * 2 ^ k := Int.pow_add 2 i k

theorem pow_le_pow {i j : Nat} (h : i ≤ j) : (2 : Int) ^ i ≤ 2 ^ j := by
  obtain ⟨k, rfl⟩ : ∃ k, j = i + k := ⟨j - i, by omega⟩
  rw [pow_split]
  have h1 := pow_pos i
  have h2 : (1 : Int) ≤ 2 ^ k := pow_pos k
  nlinarith

theorem pow_lt_pow {i j : Nat} (h : i < j) : (2 : Int) ^ i < 2 ^ j := by
  have := pow_le_pow (show i + 1 ≤ j from h)
  rw [pow_succ'] at this
  have := pow_pos i
  omega

theorem natCast_pow (n : Nat) : ((2 ^ n : Nat) : Int) = 2 ^ n := by
  simp

/-! ### Euclidean division by a product -/

/-- `x % (p * q) = x % p + p * (x / p % q)` -/
theorem emod_mul (x p q : Int) (hp : 0 < p) (hq : 0 < q) :
    x % (p * q) = x % p + p * (x / p % q) := by
  have hpq : 0 < p * q := Int.mul_pos hp hq
  have h1 := Int.emod_add_mul_ediv x p
  have h2 := Int.emod_add_mul_ediv (x / p) q
  have h3 := Int.emod_nonneg x (Int.ne_of_gt hp)
  have h4 := Int.emod_lt_of_pos x hp
  have h5 := Int.emod_nonneg (x / p) (Int.ne_of_gt hq)
  have h6 := Int.emod_lt_of_pos (x / p) hq
  have key := (Int.ediv_emod_unique (a := x) (b := p * q) (r := x % p + p * (x / p % q))
    (q := x / p / q) hpq).2
  refine (key ⟨?_, ?_, ?_⟩).2
  · have : p * (x / p % q + q * (x / p / q)) = p * (x / p) := congrArg (p * ·) h2
    linarith
  · have := Int.mul_nonneg (Int.le_of_lt hp) h5
    linarith
  · have : p * (x / p % q) ≤ p * (q - 1) := Int.mul_le_mul_of_nonneg_left (by omega) (Int.le_of_lt hp)
    have : p * (q - 1) = p * q - p := by ring
    linarith

theorem ediv_ediv (x p q : Int) (hp : 0 ≤ p) : x / p / q = x / (p * q) := Int.ediv_ediv_of_nonneg hp

/-! ### wrapU -/

theorem wrapU_nonneg (n : Nat) (x : Int) : 0 ≤ wrapU n x := Int.emod_nonneg _ (pow_ne n)
theorem wrapU_lt (n : Nat) (x : Int) : wrapU n x < 2 ^ n := Int.emod_lt_of_pos _ (pow_pos n)
theorem fitsU_wrapU (n : Nat) (x : Int) : fitsU n (wrapU n x) := ⟨wrapU_nonneg n x, wrapU_lt n x⟩

theorem wrapU_of_fitsU {n : Nat} {x : Int} (h : fitsU n x) : wrapU n x = x :=
  Int.emod_eq_of_lt h.1 h.2

theorem wrapU_idem (n : Nat) (x : Int) : wrapU n (wrapU n x) = wrapU n x :=
  wrapU_of_fitsU (fitsU_wrapU n x)

theorem wrapU_add_mul (n : Nat) (x k : Int) : wrapU n (x + k * 2 ^ n) = wrapU n x :=
  Int.add_mul_emod_self_right x k (2 ^ n)

theorem wrapU_eq_iff (n : Nat) (x y : Int) : wrapU n x = wrapU n y ↔ (2 : Int) ^ n ∣ x - y := by
  unfold wrapU
  rw [Int.emod_eq_emod_iff_emod_sub_eq_zero]
  exact ⟨Int.dvd_of_emod_eq_zero, Int.emod_eq_zero_of_dvd⟩

/-- narrowing twice = narrowing once to the smaller width -/
theorem wrapU_wrapU_of_le {m n : Nat} (h : m ≤ n) (x : Int) : wrapU m (wrapU n x) = wrapU m x := by
  unfold wrapU
  obtain ⟨k, rfl⟩ : ∃ k, n = m + k := ⟨n - m, by omega⟩
  exact Int.emod_emod_of_dvd x ⟨2 ^ k, pow_split m k⟩

/-! ### wrapS -/

theorem wrapS_zero (x : Int) : wrapS 0 x = 0 := by
  simp [wrapS, Int.emod_one]

theorem fitsS_wrapS {n : Nat} (hn : 1 ≤ n) (x : Int) : fitsS n (wrapS n x) := by
  have h0 := wrapU_nonneg n x
  have h1 := wrapU_lt n x
  have h2 := pow_pred n hn
  unfold wrapU at h0 h1
  unfold wrapS fitsS
  split <;> constructor <;> omega

theorem wrapS_of_fitsS {n : Nat} (hn : 1 ≤ n) {x : Int} (h : fitsS n x) : wrapS n x = x := by
  have h2 := pow_pred n hn
  have hp := pow_pos (n - 1)
  unfold fitsS at h
  unfold wrapS
  by_cases hx : 0 ≤ x
  · have : x % 2 ^ n = x := Int.emod_eq_of_lt hx (by omega)
    rw [this]; split <;> omega
  · have : x % 2 ^ n = x + 2 ^ n := by
      rw [← Int.add_emod_right x (2 ^ n)]
      exact Int.emod_eq_of_lt (by omega) (by omega)
    rw [this]; split <;> omega

/-- `wrapS n x` differs from `x` by a multiple of `2^n` -/
theorem wrapS_congr (n : Nat) (x : Int) : (2 : Int) ^ n ∣ wrapS n x - x := by
  have h := Int.emod_add_mul_ediv x (2 ^ n)
  unfold wrapS
  split
  · exact ⟨-(x / 2 ^ n), by linarith⟩
  · exact ⟨-(x / 2 ^ n) - 1, by linarith⟩

theorem wrapU_wrapS (n : Nat) (x : Int) : wrapU n (wrapS n x) = wrapU n x :=
  (wrapU_eq_iff n _ _).2 (wrapS_congr n x)

theorem wrapS_eq_of_wrapU_eq {n : Nat} {x y : Int} (h : wrapU n x = wrapU n y) : wrapS n x = wrapS n y := by
  unfold wrapU at h; unfold wrapS; rw [h]

theorem wrapS_wrapU (n : Nat) (x : Int) : wrapS n (wrapU n x) = wrapS n x :=
  wrapS_eq_of_wrapU_eq (wrapU_idem n x)

theorem wrapS_idem {n : Nat} (x : Int) : wrapS n (wrapS n x) = wrapS n x :=
  wrapS_eq_of_wrapU_eq (wrapU_wrapS n x)

theorem wrapS_add_mul (n : Nat) (x k : Int) : wrapS n (x + k * 2 ^ n) = wrapS n x :=
  wrapS_eq_of_wrapU_eq (wrapU_add_mul n x k)

/-- `wrapS n x` is the *only* number in the signed range congruent to `x` -/
theorem wrapS_unique {n : Nat} (hn : 1 ≤ n) {x y : Int} (hy : fitsS n y) (hc : (2 : Int) ^ n ∣ y - x) :
    y = wrapS n x := by
  rw [← wrapS_of_fitsS hn hy]
  exact wrapS_eq_of_wrapU_eq ((wrapU_eq_iff n y x).2 hc)

/-- `wrapU n x` is the only number in the unsigned range congruent to `x` -/
theorem wrapU_unique {n : Nat} {x y : Int} (hy : fitsU n y) (hc : (2 : Int) ^ n ∣ y - x) : y = wrapU n x := by
  rw [← wrapU_of_fitsU hy]
  exact (wrapU_eq_iff n y x).2 hc

/-- the biased form used by many implementations -/
theorem wrapS_eq_bias {n : Nat} (hn : 1 ≤ n) (x : Int) :
    wrapS n x = (x + 2 ^ (n - 1)) % 2 ^ n - 2 ^ (n - 1) := by
  symm
  apply wrapS_unique hn
  · have h0 := Int.emod_nonneg (x + 2 ^ (n - 1)) (pow_ne n)
    have h1 := Int.emod_lt_of_pos (x + 2 ^ (n - 1)) (pow_pos n)
    have h2 := pow_pred n hn
    constructor <;> omega
  · have h := Int.emod_add_mul_ediv (x + 2 ^ (n - 1)) (2 ^ n)
    exact ⟨-((x + 2 ^ (n - 1)) / 2 ^ n), by linarith⟩

/-- a number in the signed range: signed view of its unsigned view is itself -/
theorem wrapS_wrapU_of_fitsS {n : Nat} (hn : 1 ≤ n) {x : Int} (h : fitsS n x) : wrapS n (wrapU n x) = x := by
  rw [wrapS_wrapU, wrapS_of_fitsS hn h]

theorem wrapU_wrapS_of_fitsU {n : Nat} {x : Int} (h : fitsU n x) : wrapU n (wrapS n x) = x := by
  rw [wrapU_wrapS, wrapU_of_fitsU h]

/-! ### testBit -/

theorem testBit_natCast (n i : Nat) : testBit (n : Int) i = n.testBit i := by
  unfold testBit
  rw [Nat.testBit_eq_decide_div_mod_eq]
  have : ((n : Int) / 2 ^ i % 2 = 1) ↔ (n / 2 ^ i % 2 = 1) := by
    rw [← natCast_pow, ← Int.natCast_ediv]
    omega
  simp only [this]

theorem testBit_negSucc (a i : Nat) : testBit (Int.negSucc a) i = !a.testBit i := by
  unfold testBit
  rw [Nat.testBit_eq_decide_div_mod_eq, Int.negSucc_ediv _ (pow_pos i)]
  have : ((a : Int).ediv (2 ^ i)) = ((a / 2 ^ i : Nat) : Int) := by
    rw [Int.natCast_ediv, natCast_pow]; rfl
  rw [this]
  generalize a / 2 ^ i = m
  by_cases h : m % 2 = 1 <;> simp [h] <;> omega

/-- bits below `n` do not see multiples of `2^n` -/
theorem testBit_add_mul_pow (x k : Int) {i n : Nat} (h : i < n) : testBit (x + k * 2 ^ n) i = testBit x i := by
  unfold testBit
  obtain ⟨d, rfl⟩ : ∃ d, n = i + (d + 1) := ⟨n - i - 1, by omega⟩
  have e : x + k * 2 ^ (i + (d + 1)) = x + 2 ^ i * (2 * (k * 2 ^ d)) := by
    rw [pow_split, pow_succ']; ring
  rw [e, Int.add_mul_ediv_left _ _ (pow_ne i)]
  have : (x / 2 ^ i + 2 * (k * 2 ^ d)) % 2 = x / 2 ^ i % 2 := by omega
  rw [this]

theorem testBit_wrapU (n : Nat) (x : Int) (i : Nat) :
    testBit (wrapU n x) i = (decide (i < n) && testBit x i) := by
  by_cases h : i < n
  · have e : wrapU n x = x + (-(x / 2 ^ n)) * 2 ^ n := by
      have := Int.emod_add_mul_ediv x (2 ^ n); unfold wrapU; linarith
    rw [e, testBit_add_mul_pow _ _ h]; simp [h]
  · have hlt : wrapU n x < 2 ^ i := Int.lt_of_lt_of_le (wrapU_lt n x) (pow_le_pow (by omega))
    unfold testBit
    rw [Int.ediv_eq_zero_of_lt (wrapU_nonneg n x) hlt]
    simp [h]

theorem testBit_of_fitsU {n : Nat} {x : Int} (h : fitsU n x) {i : Nat} (hi : n ≤ i) : testBit x i = false := by
  rw [← wrapU_of_fitsU h, testBit_wrapU]; simp; omega

theorem testBit_div_pow (x : Int) (k i : Nat) : testBit (x / 2 ^ k) i = testBit x (i + k) := by
  unfold testBit
  rw [ediv_ediv _ _ _ (Int.le_of_lt (pow_pos k)), ← pow_split, Nat.add_comm]

theorem testBit_mul_pow (x : Int) (k i : Nat) :
    testBit (x * 2 ^ k) i = (decide (k ≤ i) && testBit x (i - k)) := by
  by_cases h : k ≤ i
  · obtain ⟨d, rfl⟩ : ∃ d, i = k + d := ⟨i - k, by omega⟩
    unfold testBit
    have : x * 2 ^ k / 2 ^ (k + d) = x / 2 ^ d := by
      rw [pow_split, Int.mul_comm x, Int.mul_ediv_mul_of_pos _ _ (pow_pos k)]
    rw [this]; simp
  · have := testBit_add_mul_pow 0 x (show i < k by omega)
    simp only [Int.zero_add] at this
    rw [this]; simp [h, testBit]

theorem testBit_zero_eq (x : Int) : testBit x 0 = decide (x % 2 = 1) := by
  simp [testBit]

theorem testBit_two_pow (k i : Nat) : testBit (2 ^ k) i = decide (k = i) := by
  rw [← natCast_pow, testBit_natCast, Nat.testBit_two_pow]

theorem testBit_two_pow_sub_one (k i : Nat) : testBit (2 ^ k - 1) i = decide (i < k) := by
  have : ((2 : Int) ^ k - 1) = ((2 ^ k - 1 : Nat) : Int) := by
    have := Nat.one_le_two_pow (n := k)
    rw [Int.natCast_sub this, natCast_pow]; rfl
  rw [this, testBit_natCast, Nat.testBit_two_pow_sub_one]

/-- integers are determined by their bits (infinite two's complement) -/
theorem eq_of_testBit_eq {x y : Int} (h : ∀ i, testBit x i = testBit y i) : x = y := by
  have big : ∀ a b : Nat, ¬ (∀ i, testBit (a : Int) i = testBit (Int.negSucc b) i) := by
    intro a b hab
    have h1 := hab (max a b)
    rw [testBit_natCast, testBit_negSucc] at h1
    have ha : a < 2 ^ max a b :=
      Nat.lt_of_lt_of_le Nat.lt_two_pow_self (Nat.pow_le_pow_right (by decide) (Nat.le_max_left a b))
    have hb : b < 2 ^ max a b :=
      Nat.lt_of_lt_of_le Nat.lt_two_pow_self (Nat.pow_le_pow_right (by decide) (Nat.le_max_right a b))
    rw [Nat.testBit_lt_two_pow ha, Nat.testBit_lt_two_pow hb] at h1
    simp at h1
  cases x with
  | ofNat a =>
    cases y with
    | ofNat b =>
      congr 1
      apply Nat.eq_of_testBit_eq
      intro i; have := h i
      simpa [testBit_natCast] using this
    | negSucc b => exact absurd h (big a b)
  | negSucc a =>
    cases y with
    | ofNat b => exact absurd (fun i => (h i).symm) (big b a)
    | negSucc b =>
      congr 1
      apply Nat.eq_of_testBit_eq
      intro i; have := h i
      simpa [testBit_negSucc] using this

/-- two numbers with the same low `n` bits have the same unsigned view -/
theorem wrapU_eq_of_testBit_eq {n : Nat} {x y : Int} (h : ∀ i, i < n → testBit x i = testBit y i) :
    wrapU n x = wrapU n y := by
  apply eq_of_testBit_eq
  intro i
  rw [testBit_wrapU, testBit_wrapU]
  by_cases hi : i < n
  · simp [hi, h i hi]
  · simp [hi]

/-! ### ofBits -/

theorem ofBits_lt (n : Nat) (f : Nat → Bool) : ofBits n f < 2 ^ n := by
  induction n with
  | zero => simp [ofBits]
  | succ n ih =>
    simp only [ofBits]
    rw [Nat.pow_succ]
    split <;> omega

theorem testBit_ofBits_nat (n : Nat) (f : Nat → Bool) (i : Nat) :
    (ofBits n f).testBit i = (decide (i < n) && f i) := by
  induction n with
  | zero => simp [ofBits]
  | succ n ih =>
    simp only [ofBits]
    have hlt := ofBits_lt n f
    have e : ofBits n f + (if f n then 2 ^ n else 0) = 2 ^ n * (if f n then 1 else 0) + ofBits n f := by
      split <;> omega
    rw [e, Nat.testBit_two_pow_mul_add _ hlt]
    by_cases hi : i < n
    · simp [hi, ih, show i < n + 1 by omega]
    · by_cases hin : i = n
      · subst hin
        by_cases hf : f i <;> simp [hf]
      · have : 1 ≤ i - n := by omega
        have hz : ∀ b : Nat, b ≤ 1 → b.testBit (i - n) = false := by
          intro b hb
          apply Nat.testBit_lt_two_pow
          exact Nat.lt_of_le_of_lt hb (Nat.one_lt_two_pow (by omega))
        simp only [hi, if_false]
        rw [hz _ (by split <;> omega)]
        simp; omega

theorem testBit_ofBits (n : Nat) (f : Nat → Bool) (i : Nat) :
    testBit (ofBits n f : Int) i = (decide (i < n) && f i) := by
  rw [testBit_natCast, testBit_ofBits_nat]

theorem fitsU_ofBits (n : Nat) (f : Nat → Bool) : fitsU n (ofBits n f : Int) := by
  refine ⟨Int.natCast_nonneg _, ?_⟩
  rw [← natCast_pow]; exact Int.ofNat_lt.2 (ofBits_lt n f)

theorem ofBits_congr {n : Nat} {f g : Nat → Bool} (h : ∀ i, i < n → f i = g i) : ofBits n f = ofBits n g := by
  apply Nat.eq_of_testBit_eq
  intro i
  rw [testBit_ofBits_nat, testBit_ofBits_nat]
  by_cases hi : i < n
  · simp [hi, h i hi]
  · simp [hi]

/-- reassembling the low `n` bits of `x` gives its unsigned view -/
theorem ofBits_testBit (n : Nat) (x : Int) : (ofBits n (testBit x) : Int) = wrapU n x := by
  apply eq_of_testBit_eq
  intro i
  rw [testBit_ofBits, testBit_wrapU]

/-- an in-range number is determined by its low bits -/
theorem eq_ofBits_of_fitsU {n : Nat} {x : Int} (h : fitsU n x) {f : Nat → Bool}
    (hf : ∀ i, i < n → testBit x i = f i) : x = (ofBits n f : Int) := by
  rw [← wrapU_of_fitsU h, ← ofBits_testBit]
  congr 1
  exact ofBits_congr hf

/-! ### rotations and reversal, by bit index -/

theorem idx_lt {n : Nat} (hn : 0 < n) (z : Int) : (z % (n : Int)).toNat < n := by
  have h0 := Int.emod_nonneg z (show (n : Int) ≠ 0 by omega)
  have h1 := Int.emod_lt_of_pos z (show (0 : Int) < n by omega)
  omega

theorem idx_cast {n : Nat} (hn : 0 < n) (z : Int) : ((z % (n : Int)).toNat : Int) = z % (n : Int) :=
  Int.toNat_of_nonneg (Int.emod_nonneg z (show (n : Int) ≠ 0 by omega))

theorem testBit_rotl (n : Nat) (x c : Int) (i : Nat) :
    testBit (rotl n x c : Int) i = (decide (i < n) && testBit x (((i : Int) - c) % (n : Int)).toNat) := by
  unfold rotl; rw [testBit_ofBits]

theorem testBit_rotr (n : Nat) (x c : Int) (i : Nat) :
    testBit (rotr n x c : Int) i = (decide (i < n) && testBit x (((i : Int) + c) % (n : Int)).toNat) := by
  unfold rotr; rw [testBit_ofBits]

theorem testBit_reverse (n : Nat) (x : Int) (i : Nat) :
    testBit (reverse n x : Int) i = (decide (i < n) && testBit x (n - 1 - i)) := by
  unfold reverse; rw [testBit_ofBits]

theorem fitsU_rotl (n : Nat) (x c : Int) : fitsU n (rotl n x c : Int) := fitsU_ofBits _ _
theorem fitsU_rotr (n : Nat) (x c : Int) : fitsU n (rotr n x c : Int) := fitsU_ofBits _ _
theorem fitsU_reverse (n : Nat) (x : Int) : fitsU n (reverse n x : Int) := fitsU_ofBits _ _

/-- only the low `n` bits of the argument matter -/
theorem rotl_wrapU {n : Nat} (hn : 0 < n) (x c : Int) : rotl n (wrapU n x) c = rotl n x c := by
  unfold rotl; apply ofBits_congr; intro i _
  rw [testBit_wrapU]; simp [idx_lt hn]

theorem rotr_wrapU {n : Nat} (hn : 0 < n) (x c : Int) : rotr n (wrapU n x) c = rotr n x c := by
  unfold rotr; apply ofBits_congr; intro i _
  rw [testBit_wrapU]; simp [idx_lt hn]

/-- only the count modulo `n` matters -/
theorem rotl_count_mod (n : Nat) (x c : Int) : rotl n x (c % (n : Int)) = rotl n x c := by
  unfold rotl; apply ofBits_congr; intro i _
  rw [Int.sub_emod_emod]

theorem rotr_count_mod (n : Nat) (x c : Int) : rotr n x (c % (n : Int)) = rotr n x c := by
  unfold rotr; apply ofBits_congr; intro i _
  rw [Int.add_emod_emod]

theorem rotl_eq_rotr_neg (n : Nat) (x c : Int) : rotl n x c = rotr n x (-c) := by
  unfold rotl rotr; apply ofBits_congr; intro i _
  rw [Int.sub_eq_add_neg]

/-- rotating left by `c` is rotating right by `n - c` -/
theorem rotl_eq_rotr_sub (n : Nat) (x c : Int) : rotl n x c = rotr n x ((n : Int) - c) := by
  unfold rotl rotr; apply ofBits_congr; intro i _
  have : (i : Int) + ((n : Int) - c) = (i : Int) - c + (n : Int) := by ring
  rw [this, Int.add_emod_right]

theorem rotr_rotl {n : Nat} (hn : 0 < n) (x c : Int) : (rotr n (rotl n x c) c : Int) = wrapU n x := by
  apply eq_of_testBit_eq; intro i
  rw [testBit_rotr, testBit_wrapU, testBit_rotl]
  by_cases hi : i < n
  · have hj := idx_lt hn ((i : Int) + c)
    simp only [hi, hj, decide_true, Bool.true_and]
    rw [idx_cast hn, Int.emod_sub_emod]
    have : (i : Int) + c - c = i := by ring
    rw [this, Int.emod_eq_of_lt (by omega) (by omega)]; simp
  · simp [hi]

theorem rotl_rotr {n : Nat} (hn : 0 < n) (x c : Int) : (rotl n (rotr n x c) c : Int) = wrapU n x := by
  apply eq_of_testBit_eq; intro i
  rw [testBit_rotl, testBit_wrapU, testBit_rotr]
  by_cases hi : i < n
  · have hj := idx_lt hn ((i : Int) - c)
    simp only [hi, hj, decide_true, Bool.true_and]
    rw [idx_cast hn, Int.emod_add_emod]
    have : (i : Int) - c + c = i := by ring
    rw [this, Int.emod_eq_of_lt (by omega) (by omega)]; simp
  · simp [hi]

theorem rotl_zero (n : Nat) (x : Int) : (rotl n x 0 : Int) = wrapU n x := by
  apply eq_of_testBit_eq; intro i
  rw [testBit_rotl, testBit_wrapU]
  by_cases hi : i < n
  · simp only [hi, decide_true, Bool.true_and, Int.sub_zero]
    rw [Int.emod_eq_of_lt (by omega) (by omega)]; simp
  · simp [hi]

theorem reverse_reverse (n : Nat) (x : Int) : (reverse n (reverse n x) : Int) = wrapU n x := by
  apply eq_of_testBit_eq; intro i
  rw [testBit_reverse, testBit_wrapU, testBit_reverse]
  by_cases hi : i < n
  · have : n - 1 - (n - 1 - i) = i := by omega
    simp [hi, this]; omega
  · simp [hi]

/-! ### leading / trailing zeros -/

theorem clz_isClz (n : Nat) (x : Int) : IsClz n x (clz n x) := by
  induction n with
  | zero => exact ⟨Nat.le_refl 0, fun i _ h => absurd h (Nat.not_lt_zero i), fun h => absurd h (Nat.lt_irrefl 0)⟩
  | succ n ih =>
    unfold clz
    by_cases hb : testBit x n
    · rw [if_pos hb]
      exact ⟨Nat.zero_le _, fun i h1 h2 => by omega, fun _ => by simpa using hb⟩
    · rw [if_neg hb]
      obtain ⟨h1, h2, h3⟩ := ih
      refine ⟨by omega, fun i hi1 hi2 => ?_, fun hk => ?_⟩
      · by_cases hin : i = n
        · subst hin; simpa using hb
        · exact h2 i (by omega) (by omega)
      · have := h3 (by omega)
        have e : n + 1 - 1 - (clz n x + 1) = n - 1 - clz n x := by omega
        rw [e]; exact this

theorem isClz_unique {n : Nat} {x : Int} {k k' : Nat} (h : IsClz n x k) (h' : IsClz n x k') : k = k' := by
  obtain ⟨a1, a2, a3⟩ := h
  obtain ⟨b1, b2, b3⟩ := h'
  rcases Nat.lt_trichotomy k k' with hlt | heq | hgt
  · have t := a3 (by omega)
    have f := b2 (n - 1 - k) (by omega) (by omega)
    rw [t] at f; cases f
  · exact heq
  · have t := b3 (by omega)
    have f := a2 (n - 1 - k') (by omega) (by omega)
    rw [t] at f; cases f

theorem isClz_iff (n : Nat) (x : Int) (k : Nat) : IsClz n x k ↔ k = clz n x :=
  ⟨fun h => isClz_unique h (clz_isClz n x), fun h => h ▸ clz_isClz n x⟩

theorem ctzFrom_spec (x : Int) (r j : Nat) :
    ctzFrom x j r ≤ r ∧ (∀ i, j ≤ i → i < j + ctzFrom x j r → testBit x i = false) ∧
      (ctzFrom x j r < r → testBit x (j + ctzFrom x j r) = true) := by
  induction r generalizing j with
  | zero => exact ⟨Nat.le_refl 0, fun i h1 h2 => by simp [ctzFrom] at h2; omega, fun h => by simp [ctzFrom] at h⟩
  | succ r ih =>
    unfold ctzFrom
    by_cases hb : testBit x j
    · rw [if_pos hb]
      exact ⟨Nat.zero_le _, fun i h1 h2 => by omega, fun _ => by simpa using hb⟩
    · rw [if_neg hb]
      obtain ⟨h1, h2, h3⟩ := ih (j + 1)
      refine ⟨by omega, fun i hi1 hi2 => ?_, fun hk => ?_⟩
      · by_cases hij : i = j
        · subst hij; simpa using hb
        · exact h2 i (by omega) (by omega)
      · have := h3 (by omega)
        have e : j + (ctzFrom x (j + 1) r + 1) = j + 1 + ctzFrom x (j + 1) r := by omega
        rw [e]; exact this

theorem ctz_isCtz (n : Nat) (x : Int) : IsCtz n x (ctz n x) := by
  obtain ⟨h1, h2, h3⟩ := ctzFrom_spec x n 0
  exact ⟨h1, fun i hi => h2 i (Nat.zero_le i) (by simpa [ctz] using hi), fun hk => by simpa [ctz] using h3 hk⟩

theorem isCtz_unique {n : Nat} {x : Int} {k k' : Nat} (h : IsCtz n x k) (h' : IsCtz n x k') : k = k' := by
  obtain ⟨a1, a2, a3⟩ := h
  obtain ⟨b1, b2, b3⟩ := h'
  rcases Nat.lt_trichotomy k k' with hlt | heq | hgt
  · have t := a3 (by omega)
    have f := b2 k hlt
    rw [t] at f; cases f
  · exact heq
  · have t := b3 (by omega)
    have f := a2 k' hgt
    rw [t] at f; cases f

theorem isCtz_iff (n : Nat) (x : Int) (k : Nat) : IsCtz n x k ↔ k = ctz n x :=
  ⟨fun h => isCtz_unique h (ctz_isCtz n x), fun h => h ▸ ctz_isCtz n x⟩

theorem popcount_le (n : Nat) (x : Int) : popcount n x ≤ n := by
  unfold popcount
  exact Nat.le_trans (List.length_filter_le _ _) (by simp)

/-- the counts only look at the low `n` bits -/
theorem popcount_wrapU (n : Nat) (x : Int) : popcount n (wrapU n x) = popcount n x := by
  unfold popcount
  congr 1
  apply List.filter_congr
  intro i hi
  rw [testBit_wrapU]; simp [List.mem_range.1 hi]

/-! ### bit fields -/

theorem getBits_eq_wrapU (x : Int) (lo len : Nat) : getBits x lo len = wrapU len (x / 2 ^ lo) := rfl

theorem fitsU_getBits (x : Int) (lo len : Nat) : fitsU len (getBits x lo len) := fitsU_wrapU _ _

theorem testBit_getBits (x : Int) (lo len i : Nat) :
    testBit (getBits x lo len) i = (decide (i < len) && testBit x (i + lo)) := by
  rw [getBits_eq_wrapU, testBit_wrapU, testBit_div_pow]

/-- the master lemma: inside the field the bits are those of `f`, outside those of `x` -/
theorem testBit_setBits (x : Int) (lo len : Nat) (f : Int) (i : Nat) :
    testBit (setBits x lo len f) i = if lo ≤ i ∧ i < lo + len then testBit f (i - lo) else testBit x i := by
  unfold setBits
  by_cases hlo : i < lo
  · rw [testBit_add_mul_pow _ _ hlo, if_neg (by omega)]
  · obtain ⟨j, rfl⟩ : ∃ j, i = j + lo := ⟨i - lo, by omega⟩
    rw [← testBit_div_pow, Int.add_mul_ediv_right _ _ (pow_ne lo)]
    have hy := Int.emod_add_mul_ediv (x / 2 ^ lo) (2 ^ len)
    have e : x / 2 ^ lo + (f % 2 ^ len - getBits x lo len) = wrapU len f + (x / 2 ^ lo / 2 ^ len) * 2 ^ len := by
      unfold getBits wrapU; linarith
    rw [e]
    by_cases hj : j < len
    · rw [testBit_add_mul_pow _ _ hj, testBit_wrapU, if_pos (by omega)]
      have : j + lo - lo = j := by omega
      simp [hj, this]
    · rw [if_neg (by omega)]
      obtain ⟨d, rfl⟩ : ∃ d, j = d + len := ⟨j - len, by omega⟩
      rw [← testBit_div_pow, Int.add_mul_ediv_right _ _ (pow_ne len),
        Int.ediv_eq_zero_of_lt (wrapU_nonneg len f) (wrapU_lt len f), Int.zero_add,
        testBit_div_pow, testBit_div_pow]

theorem getBits_setBits_same (x : Int) (lo len : Nat) (f : Int) :
    getBits (setBits x lo len f) lo len = wrapU len f := by
  apply eq_of_testBit_eq; intro i
  rw [testBit_getBits, testBit_setBits, testBit_wrapU]
  by_cases hi : i < len
  · have : i + lo - lo = i := by omega
    simp [hi, this]; omega
  · simp [hi]

/-- writing a field does not disturb a disjoint field -/
theorem getBits_setBits_disjoint (x : Int) (lo len : Nat) (f : Int) (lo' len' : Nat)
    (h : lo' + len' ≤ lo ∨ lo + len ≤ lo') :
    getBits (setBits x lo len f) lo' len' = getBits x lo' len' := by
  apply eq_of_testBit_eq; intro i
  rw [testBit_getBits, testBit_getBits, testBit_setBits]
  by_cases hi : i < len'
  · rw [if_neg (by omega)]
  · simp [hi]

theorem setBits_getBits (x : Int) (lo len : Nat) : setBits x lo len (getBits x lo len) = x := by
  apply eq_of_testBit_eq; intro i
  rw [testBit_setBits]
  split
  · rename_i h
    rw [testBit_getBits]
    have : i - lo + lo = i := by omega
    simp [this]; omega
  · rfl

theorem setBits_setBits_same (x : Int) (lo len : Nat) (f g : Int) :
    setBits (setBits x lo len f) lo len g = setBits x lo len g := by
  apply eq_of_testBit_eq; intro i
  rw [testBit_setBits, testBit_setBits, testBit_setBits]
  split <;> rfl

/-- writes to disjoint fields commute -/
theorem setBits_comm (x : Int) (lo len : Nat) (f : Int) (lo' len' : Nat) (g : Int)
    (h : lo' + len' ≤ lo ∨ lo + len ≤ lo') :
    setBits (setBits x lo len f) lo' len' g = setBits (setBits x lo' len' g) lo len f := by
  apply eq_of_testBit_eq; intro i
  rw [testBit_setBits, testBit_setBits, testBit_setBits, testBit_setBits]
  by_cases h1 : lo ≤ i ∧ i < lo + len
  · rw [if_pos h1, if_neg (by omega), if_pos h1]
  · rw [if_neg h1, if_neg h1]

/-- only the low `len` bits of the written value matter -/
theorem setBits_wrapU (x : Int) (lo len : Nat) (f : Int) : setBits x lo len (wrapU len f) = setBits x lo len f := by
  unfold setBits; rw [← wrapU, ← wrapU, wrapU_idem]

/-! ### bytes -/

theorem toBytesLE_length (k : Nat) : ∀ x : Int, (toBytesLE k x).length = k := by
  induction k with
  | zero => intro x; rfl
  | succ k ih => intro x; simp [toBytesLE, ih]

theorem toBytesLE_lt (k : Nat) : ∀ (x : Int) (b : Nat), b ∈ toBytesLE k x → b < 256 := by
  induction k with
  | zero => intro x b h; simp [toBytesLE] at h
  | succ k ih =>
    intro x b h
    simp only [toBytesLE, List.mem_cons] at h
    rcases h with h | h
    · subst h; omega
    · exact ih _ b h

/-- the `k` low bytes denote `x mod 2^(8k)` -/
theorem fromBytesLE_toBytesLE (k : Nat) : ∀ x : Int, fromBytesLE (toBytesLE k x) = wrapU (8 * k) x := by
  induction k with
  | zero => intro x; simp [toBytesLE, fromBytesLE, wrapU, Int.emod_one]
  | succ k ih =>
    intro x
    simp only [toBytesLE, fromBytesLE]
    rw [ih]
    unfold wrapU
    have e : (2 : Int) ^ (8 * (k + 1)) = 256 * 2 ^ (8 * k) := by
      have : 8 * (k + 1) = 8 + 8 * k := by ring
      rw [this, pow_split]; norm_num
    rw [e, emod_mul x 256 (2 ^ (8 * k)) (by decide) (pow_pos _)]
    have : ((x % 256).toNat : Int) = x % 256 := Int.toNat_of_nonneg (Int.emod_nonneg _ (by decide))
    rw [this]

theorem toBytesLE_fromBytesLE : ∀ (bs : List Nat), (∀ b, b ∈ bs → b < 256) →
    toBytesLE bs.length (fromBytesLE bs) = bs := by
  intro bs
  induction bs with
  | nil => intro _; rfl
  | cons b bs ih =>
    intro h
    have hb := h b (List.mem_cons_self ..)
    simp only [List.length_cons, toBytesLE, fromBytesLE]
    have e1 : (((b : Int) + 256 * fromBytesLE bs) % 256).toNat = b := by omega
    have e2 : ((b : Int) + 256 * fromBytesLE bs) / 256 = fromBytesLE bs := by omega
    rw [e1, e2, ih (fun c hc => h c (List.mem_cons_of_mem _ hc))]

theorem toBytesBE_length (k : Nat) (x : Int) : (toBytesBE k x).length = k := by
  simp [toBytesBE, toBytesLE_length]

theorem fromBytesBE_toBytesBE (k : Nat) (x : Int) : fromBytesBE (toBytesBE k x) = wrapU (8 * k) x := by
  simp [fromBytesBE, toBytesBE, fromBytesLE_toBytesLE]

theorem toBytesBE_fromBytesBE (bs : List Nat) (h : ∀ b, b ∈ bs → b < 256) :
    toBytesBE bs.length (fromBytesBE bs) = bs := by
  unfold toBytesBE fromBytesBE
  have := toBytesLE_fromBytesLE bs.reverse (fun b hb => h b (List.mem_reverse.1 hb))
  rw [List.length_reverse] at this
  rw [this, List.reverse_reverse]

/-- two numbers with the same `k` low bytes agree modulo `2^(8k)` -/
theorem toBytesLE_eq_iff (k : Nat) (x y : Int) : toBytesLE k x = toBytesLE k y ↔ wrapU (8 * k) x = wrapU (8 * k) y := by
  constructor
  · intro h; rw [← fromBytesLE_toBytesLE, ← fromBytesLE_toBytesLE, h]
  · intro h
    have hx := toBytesLE_fromBytesLE (toBytesLE k x) (toBytesLE_lt k x)
    have hy := toBytesLE_fromBytesLE (toBytesLE k y) (toBytesLE_lt k y)
    rw [toBytesLE_length, fromBytesLE_toBytesLE] at hx hy
    rw [← hx, ← hy, h]

end Proofs.Bits
