import PpciVerif.Spec.Graph
import PpciVerif.Model.Dom
import PpciVerif.Proofs.Graph
import PpciVerif.Proofs.Dom
/-!
Proofs about the dominator-tree part of `Model.Dom` (core Lean only).

Part 1  forests given by children lists `ch`: the recursive traversal (`sub` = nodes below `v` in
        discovery order, `post` = in finishing order, `numRec` = recursive numbering);
        the worklist loop of `_number_dominator_tree` computes `numRec` (`numLoop_sim`), the worklist loop
        of `bottom_up` yields `post` (`buLoop_sim`); the intervals assigned by `numRec` are laminar:
        nested ⇔ descendant (`numRec_lam`, `lam_tests`).
Part 2  the dominator tree: children lists built from the path-defined idom map form a forest of height
        ≤ n whose subtrees are duplicate-free (`fits_all`, `sub_nodup`); descendant ⇔ dominance
        (`desc_iff_dom`); `numberTree_correct`; Cytron's recurrence (`cytron`); the model of
        `calculate_dominance_frontier` computes exactly `InDF` (`dominanceFrontier_correct`).
-/
namespace Proofs.DomTree
open Model.Dom Spec.Graph Proofs.Graph Proofs.Dom

/-! ### forests given by children lists -/

/-- the nodes below `v` (in the order in which the traversal discovers them), `h` levels of fuel -/
def sub (ch : Adj) : Nat → Nat → List Nat
  | 0, _ => []
  | h + 1, v => v :: (row ch v).reverse.flatMap (sub ch h)

/-- the tree below `v` has height `< h` -/
def Fits (ch : Adj) : Nat → Nat → Prop
  | 0, _ => False
  | h + 1, v => ∀ w ∈ row ch v, Fits ch h w

/-- `b` is a descendant of `a` (or `a` itself) -/
inductive Desc (ch : Adj) : Nat → Nat → Prop
  | refl (v : Nat) : Desc ch v v
  | step {a w b : Nat} : w ∈ row ch a → Desc ch w b → Desc ch a b

theorem Desc.trans {ch : Adj} {a b c : Nat} (h1 : Desc ch a b) (h2 : Desc ch b c) : Desc ch a c := by
  induction h1 with
  | refl _ => exact h2
  | step hw _ ih => exact Desc.step hw (ih h2)

theorem Fits.mono {ch : Adj} : ∀ {h h' : Nat} {v : Nat}, Fits ch h v → h ≤ h' → Fits ch h' v := by
  intro h
  induction h with
  | zero => intro h' v hf; exact absurd hf (by simp [Fits])
  | succ h ih =>
    intro h' v hf hle
    cases h' with
    | zero => omega
    | succ h' =>
      intro w hw
      exact ih (hf w hw) (by omega)

theorem mem_sub_self {ch : Adj} {h v : Nat} (hf : Fits ch h v) : v ∈ sub ch h v := by
  cases h with
  | zero => exact absurd hf (by simp [Fits])
  | succ h => simp [sub]

theorem desc_of_mem_sub {ch : Adj} : ∀ {h v x : Nat}, x ∈ sub ch h v → Desc ch v x := by
  intro h
  induction h with
  | zero => intro v x hx; simp [sub] at hx
  | succ h ih =>
    intro v x hx
    simp only [sub, List.mem_cons, List.mem_flatMap, List.mem_reverse] at hx
    rcases hx with hx | ⟨w, hw, hx⟩
    · subst hx; exact Desc.refl _
    · exact Desc.step hw (ih hx)

theorem mem_sub_of_desc {ch : Adj} {v x : Nat} (hd : Desc ch v x) : ∀ {h : Nat}, Fits ch h v → x ∈ sub ch h v := by
  induction hd with
  | refl v => intro h hf; exact mem_sub_self hf
  | @step a w b hw _ ih =>
    intro h hf
    cases h with
    | zero => exact absurd hf (by simp [Fits])
    | succ h =>
      simp only [sub, List.mem_cons, List.mem_flatMap, List.mem_reverse]
      exact Or.inr ⟨w, hw, ih (hf w hw)⟩

/-- members of a member's subtree are members -/
theorem sub_closed {ch : Adj} {h v x y : Nat} (hf : Fits ch h v) (hx : x ∈ sub ch h v) (hd : Desc ch x y) :
    y ∈ sub ch h v := mem_sub_of_desc ((desc_of_mem_sub hx).trans hd) hf

/-! ### the recursive numbering -/

/-- the numbering state without the work list -/
structure ND where
  t : Nat
  disc : List (Option Nat)
  intv : List (Option (Nat × Nat))

def toSt (d : ND) (work : List Nat) : NumSt := { t := d.t, work := work, disc := d.disc, intv := d.intv }

def numRec (ch : Adj) : Nat → Nat → ND → ND
  | 0, _, d => d
  | h + 1, v, d =>
    let d1 := (row ch v).reverse.foldl (fun d w => numRec ch h w d) { t := d.t + 1, disc := d.disc.set v (some d.t), intv := d.intv }
    { t := d1.t + 1, disc := d1.disc, intv := d1.intv.set v (some (d.t, d1.t)) }

/-- numbering a list of siblings, left to right -/
def numList (ch : Adj) (h : Nat) (ws : List Nat) (d : ND) : ND := ws.foldl (fun d w => numRec ch h w d) d

theorem numRec_succ (ch : Adj) (h v : Nat) (d : ND) :
    numRec ch (h + 1) v d =
      let d1 := numList ch h (row ch v).reverse { t := d.t + 1, disc := d.disc.set v (some d.t), intv := d.intv }
      { t := d1.t + 1, disc := d1.disc, intv := d1.intv.set v (some (d.t, d1.t)) } := rfl

theorem numList_cons (ch : Adj) (h w : Nat) (ws : List Nat) (d : ND) :
    numList ch h (w :: ws) d = numList ch h ws (numRec ch h w d) := rfl

/-- total number of nodes below a list of siblings -/
def subs (ch : Adj) (h : Nat) (ws : List Nat) : List Nat := ws.flatMap (sub ch h)

theorem subs_cons (ch : Adj) (h w : Nat) (ws : List Nat) : subs ch h (w :: ws) = sub ch h w ++ subs ch h ws := by
  simp [subs]

theorem sub_succ (ch : Adj) (h v : Nat) : sub ch (h + 1) v = v :: subs ch h (row ch v).reverse := rfl

/-! #### time, lengths, frames (unconditional) -/

theorem numRec_basic (ch : Adj) : ∀ (h v : Nat) (d : ND),
    (numRec ch h v d).t = d.t + 2 * (sub ch h v).length ∧
    (numRec ch h v d).disc.length = d.disc.length ∧
    (numRec ch h v d).intv.length = d.intv.length ∧
    (∀ x, x ∉ sub ch h v → (numRec ch h v d).disc.getD x none = d.disc.getD x none) ∧
    (∀ x, x ∉ sub ch h v → (numRec ch h v d).intv.getD x none = d.intv.getD x none) := by
  intro h
  induction h with
  | zero => intro v d; simp [numRec, sub]
  | succ h ih =>
    intro v d
    have hl : ∀ (ws : List Nat) (d : ND),
        (numList ch h ws d).t = d.t + 2 * (subs ch h ws).length ∧
        (numList ch h ws d).disc.length = d.disc.length ∧
        (numList ch h ws d).intv.length = d.intv.length ∧
        (∀ x, x ∉ subs ch h ws → (numList ch h ws d).disc.getD x none = d.disc.getD x none) ∧
        (∀ x, x ∉ subs ch h ws → (numList ch h ws d).intv.getD x none = d.intv.getD x none) := by
      intro ws
      induction ws with
      | nil => intro d; simp [numList, subs]
      | cons w ws ihl =>
        intro d
        rw [numList_cons, subs_cons]
        obtain ⟨a1, a2, a3, a4, a5⟩ := ih w d
        obtain ⟨b1, b2, b3, b4, b5⟩ := ihl (numRec ch h w d)
        refine ⟨by rw [b1, a1, List.length_append]; omega, by rw [b2, a2], by rw [b3, a3], ?_, ?_⟩
        · intro x hx
          rw [List.mem_append, not_or] at hx
          rw [b4 x hx.2, a4 x hx.1]
        · intro x hx
          rw [List.mem_append, not_or] at hx
          rw [b5 x hx.2, a5 x hx.1]
    rw [numRec_succ, sub_succ]
    obtain ⟨b1, b2, b3, b4, b5⟩ := hl (row ch v).reverse { t := d.t + 1, disc := d.disc.set v (some d.t), intv := d.intv }
    simp only at b1 b2 b3 b4 b5
    refine ⟨by simp only [b1, List.length_cons]; omega, by simp only [b2, List.length_set], by simp only [List.length_set, b3], ?_, ?_⟩
    · intro x hx
      rw [List.mem_cons, not_or] at hx
      simp only
      rw [b4 x hx.2, List.getD_eq_getElem?_getD, List.getD_eq_getElem?_getD, List.getElem?_set]
      have : ¬ v = x := fun h => hx.1 h.symm
      simp [this]
    · intro x hx
      rw [List.mem_cons, not_or] at hx
      simp only
      rw [List.getD_eq_getElem?_getD, List.getElem?_set]
      have : ¬ v = x := fun h => hx.1 h.symm
      simp only [this, if_false]
      rw [← List.getD_eq_getElem?_getD, b5 x hx.2]

theorem numList_basic (ch : Adj) (h : Nat) : ∀ (ws : List Nat) (d : ND),
    (numList ch h ws d).t = d.t + 2 * (subs ch h ws).length ∧
    (numList ch h ws d).disc.length = d.disc.length ∧
    (numList ch h ws d).intv.length = d.intv.length ∧
    (∀ x, x ∉ subs ch h ws → (numList ch h ws d).disc.getD x none = d.disc.getD x none) ∧
    (∀ x, x ∉ subs ch h ws → (numList ch h ws d).intv.getD x none = d.intv.getD x none) := by
  intro ws
  induction ws with
  | nil => intro d; simp [numList, subs]
  | cons w ws ihl =>
    intro d
    rw [numList_cons, subs_cons]
    obtain ⟨a1, a2, a3, a4, a5⟩ := numRec_basic ch h w d
    obtain ⟨b1, b2, b3, b4, b5⟩ := ihl (numRec ch h w d)
    refine ⟨by rw [b1, a1, List.length_append]; omega, by rw [b2, a2], by rw [b3, a3], ?_, ?_⟩
    · intro x hx
      rw [List.mem_append, not_or] at hx
      rw [b4 x hx.2, a4 x hx.1]
    · intro x hx
      rw [List.mem_append, not_or] at hx
      rw [b5 x hx.2, a5 x hx.1]

/-! #### the worklist loop of `_number_dominator_tree` computes `numRec` -/

theorem getD_set_self {α : Type} (l : List α) (v : Nat) (a dflt : α) (hv : v < l.length) :
    (l.set v a).getD v dflt = a := by
  rw [List.getD_eq_getElem?_getD, List.getElem?_set]; simp [hv]

theorem getD_set_ne {α : Type} (l : List α) (v x : Nat) (a dflt : α) (hne : v ≠ x) :
    (l.set v a).getD x dflt = l.getD x dflt := by
  rw [List.getD_eq_getElem?_getD, List.getD_eq_getElem?_getD, List.getElem?_set]; simp [hne]

theorem numLoop_discover (ch : Adj) (f : Nat) (d : ND) (v : Nat) (rest : List Nat) (hw : d.disc.getD v none = none) :
    numLoop ch (f + 1) (toSt d (v :: rest)) =
      numLoop ch f (toSt { t := d.t + 1, disc := d.disc.set v (some d.t), intv := d.intv } ((row ch v).reverse ++ v :: rest)) := by
  simp only [numLoop, toSt, numStep, hw]

theorem numLoop_finish (ch : Adj) (f : Nat) (d : ND) (v : Nat) (rest : List Nat) (t0 : Nat)
    (hw : d.disc.getD v none = some t0) :
    numLoop ch (f + 1) (toSt d (v :: rest)) =
      numLoop ch f (toSt { t := d.t + 1, disc := d.disc, intv := d.intv.set v (some (t0, d.t)) } rest) := by
  simp only [numLoop, toSt, numStep, hw]

/-- hypotheses under which the traversal of the subtree(s) behaves like a tree traversal -/
structure Ok (ch : Adj) (h : Nat) (nodes : List Nat) (d : ND) : Prop where
  nodup : nodes.Nodup
  white : ∀ x ∈ nodes, d.disc.getD x none = none
  bound : ∀ x ∈ nodes, x < d.disc.length

theorem numLoop_sim (ch : Adj) : ∀ (h v : Nat) (d : ND) (rest : List Nat) (fuel : Nat),
    Fits ch h v → Ok ch h (sub ch h v) d →
    numLoop ch (fuel + 2 * (sub ch h v).length) (toSt d (v :: rest)) = numLoop ch fuel (toSt (numRec ch h v d) rest) := by
  intro h
  induction h with
  | zero => intro v d rest fuel hf; exact absurd hf (by simp [Fits])
  | succ h ih =>
    -- the list version at level h
    have simL : ∀ (ws : List Nat) (d : ND) (rest : List Nat) (fuel : Nat),
        (∀ w ∈ ws, Fits ch h w) → Ok ch h (subs ch h ws) d →
        numLoop ch (fuel + 2 * (subs ch h ws).length) (toSt d (ws ++ rest)) = numLoop ch fuel (toSt (numList ch h ws d) rest) := by
      intro ws
      induction ws with
      | nil => intro d rest fuel _ _; simp [subs, numList]
      | cons w ws ihl =>
        intro d rest fuel hfit hok
        rw [subs_cons] at hok
        have hnd := List.nodup_append.1 hok.nodup
        have e1 : fuel + 2 * (subs ch h (w :: ws)).length = (fuel + 2 * (subs ch h ws).length) + 2 * (sub ch h w).length := by
          rw [subs_cons, List.length_append]; omega
        rw [e1, List.cons_append]
        rw [ih w d (ws ++ rest) _ (hfit w (by simp))
          ⟨hnd.1, fun x hx => hok.white x (List.mem_append_left _ hx), fun x hx => hok.bound x (List.mem_append_left _ hx)⟩]
        rw [numList_cons]
        obtain ⟨_, a2, _, a4, _⟩ := numRec_basic ch h w d
        apply ihl _ _ _ (fun w' hw' => hfit w' (List.mem_cons_of_mem _ hw'))
        refine ⟨hnd.2.1, ?_, ?_⟩
        · intro x hx
          have hxw : x ∉ sub ch h w := fun hc => hnd.2.2 x hc x hx rfl
          rw [a4 x hxw]; exact hok.white x (List.mem_append_right _ hx)
        · intro x hx
          rw [a2]; exact hok.bound x (List.mem_append_right _ hx)
    intro v d rest fuel hf hok
    rw [sub_succ] at hok
    have hnd := List.nodup_cons.1 hok.nodup
    have hvw : d.disc.getD v none = none := hok.white v (by simp)
    have hvb : v < d.disc.length := hok.bound v (by simp)
    have e1 : fuel + 2 * (sub ch (h + 1) v).length = ((fuel + 1) + 2 * (subs ch h (row ch v).reverse).length) + 1 := by
      rw [sub_succ, List.length_cons]; omega
    rw [e1, numLoop_discover ch _ d v rest hvw]
    have hok1 : Ok ch h (subs ch h (row ch v).reverse) { t := d.t + 1, disc := d.disc.set v (some d.t), intv := d.intv } := by
      refine ⟨hnd.2, ?_, ?_⟩
      · intro x hx
        have : v ≠ x := fun hc => hnd.1 (hc ▸ hx)
        simp only
        rw [getD_set_ne _ _ _ _ _ this]
        exact hok.white x (List.mem_cons_of_mem _ hx)
      · intro x hx
        simp only [List.length_set]
        exact hok.bound x (List.mem_cons_of_mem _ hx)
    rw [simL (row ch v).reverse _ (v :: rest) (fuel + 1) (fun w hw => hf w (List.mem_reverse.1 hw)) hok1]
    obtain ⟨_, _, _, b4, _⟩ := numList_basic ch h (row ch v).reverse { t := d.t + 1, disc := d.disc.set v (some d.t), intv := d.intv }
    have hdv : (numList ch h (row ch v).reverse { t := d.t + 1, disc := d.disc.set v (some d.t), intv := d.intv }).disc.getD v none = some d.t := by
      rw [b4 v hnd.1]
      exact getD_set_self _ _ _ _ hvb
    rw [numLoop_finish ch fuel _ v rest d.t hdv, numRec_succ]

/-! #### the intervals assigned by `numRec` are laminar -/

/-- every node of `nodes` has an interval inside `[t0, t1)`; intervals of a node and a proper
    descendant are strictly nested, intervals of unrelated nodes are disjoint -/
structure Lam (ch : Adj) (intv : List (Option (Nat × Nat))) (nodes : List Nat) (t0 t1 : Nat) : Prop where
  range : ∀ x ∈ nodes, ∃ a b, intv.getD x none = some (a, b) ∧ t0 ≤ a ∧ a < b ∧ b < t1
  nest : ∀ x ∈ nodes, ∀ y ∈ nodes, ∀ a b a' b', intv.getD x none = some (a, b) → intv.getD y none = some (a', b') →
    Desc ch x y → x ≠ y → a < a' ∧ b' < b
  disj : ∀ x ∈ nodes, ∀ y ∈ nodes, ∀ a b a' b', intv.getD x none = some (a, b) → intv.getD y none = some (a', b') →
    ¬ Desc ch x y → ¬ Desc ch y x → b < a' ∨ b' < a

theorem mem_subs {ch : Adj} {h : Nat} {ws : List Nat} {x : Nat} : x ∈ subs ch h ws ↔ ∃ w ∈ ws, x ∈ sub ch h w := by
  simp [subs, List.mem_flatMap]

theorem subs_closed {ch : Adj} {h : Nat} {ws : List Nat} {x y : Nat} (hf : ∀ w ∈ ws, Fits ch h w)
    (hx : x ∈ subs ch h ws) (hd : Desc ch x y) : y ∈ subs ch h ws := by
  obtain ⟨w, hw, hxw⟩ := mem_subs.1 hx
  exact mem_subs.2 ⟨w, hw, sub_closed (hf w hw) hxw hd⟩

theorem numRec_lam (ch : Adj) : ∀ (h v : Nat) (d : ND),
    Fits ch h v → (sub ch h v).Nodup → (∀ x ∈ sub ch h v, x < d.intv.length) →
    Lam ch (numRec ch h v d).intv (sub ch h v) d.t (numRec ch h v d).t := by
  intro h
  induction h with
  | zero => intro v d hf; exact absurd hf (by simp [Fits])
  | succ h ih =>
    have lamL : ∀ (ws : List Nat) (d : ND),
        (∀ w ∈ ws, Fits ch h w) → (subs ch h ws).Nodup → (∀ x ∈ subs ch h ws, x < d.intv.length) →
        Lam ch (numList ch h ws d).intv (subs ch h ws) d.t (numList ch h ws d).t := by
      intro ws
      induction ws with
      | nil =>
        intro d _ _ _
        exact ⟨by simp [subs], by simp [subs], by simp [subs]⟩
      | cons w ws ihl =>
        intro d hfit hnd hb
        rw [subs_cons] at hnd hb
        have hnd' := List.nodup_append.1 hnd
        have hdisj : ∀ x, x ∈ sub ch h w → x ∈ subs ch h ws → False := fun x h1 h2 => hnd'.2.2 x h1 x h2 rfl
        obtain ⟨a1, _, a3, _, _⟩ := numRec_basic ch h w d
        obtain ⟨b1, _, _, _, b5⟩ := numList_basic ch h ws (numRec ch h w d)
        have L1 := ih w d (hfit w (by simp)) hnd'.1 (fun x hx => hb x (List.mem_append_left _ hx))
        have L2 := ihl (numRec ch h w d) (fun w' hw' => hfit w' (List.mem_cons_of_mem _ hw')) hnd'.2.1
          (fun x hx => by rw [a3]; exact hb x (List.mem_append_right _ hx))
        have hfw : Fits ch h w := hfit w (by simp)
        have hfws : ∀ w' ∈ ws, Fits ch h w' := fun w' hw' => hfit w' (List.mem_cons_of_mem _ hw')
        -- intervals of the first subtree are not touched afterwards
        have hframe : ∀ x, x ∈ sub ch h w →
            (numList ch h ws (numRec ch h w d)).intv.getD x none = (numRec ch h w d).intv.getD x none :=
          fun x hx => b5 x (fun hc => hdisj x hx hc)
        have ht1 : (numRec ch h w d).t ≤ (numList ch h ws (numRec ch h w d)).t := by rw [b1]; omega
        have ht0 : d.t ≤ (numRec ch h w d).t := by rw [a1]; omega
        rw [numList_cons, subs_cons]
        refine ⟨?_, ?_, ?_⟩
        · intro x hx
          rcases List.mem_append.1 hx with hx | hx
          · obtain ⟨a, b, e, r1, r2, r3⟩ := L1.range x hx
            exact ⟨a, b, by rw [hframe x hx]; exact e, r1, r2, by omega⟩
          · obtain ⟨a, b, e, r1, r2, r3⟩ := L2.range x hx
            exact ⟨a, b, e, by omega, r2, r3⟩
        · intro x hx y hy a b a' b' ex ey hd hne
          rcases List.mem_append.1 hx with hx | hx <;> rcases List.mem_append.1 hy with hy | hy
          · rw [hframe x hx] at ex; rw [hframe y hy] at ey
            exact L1.nest x hx y hy a b a' b' ex ey hd hne
          · exact absurd (sub_closed hfw hx hd) (fun hc => hdisj y hc hy)
          · exact absurd (subs_closed hfws hx hd) (fun hc => hdisj y hy hc)
          · exact L2.nest x hx y hy a b a' b' ex ey hd hne
        · intro x hx y hy a b a' b' ex ey hd1 hd2
          rcases List.mem_append.1 hx with hx | hx <;> rcases List.mem_append.1 hy with hy | hy
          · rw [hframe x hx] at ex; rw [hframe y hy] at ey
            exact L1.disj x hx y hy a b a' b' ex ey hd1 hd2
          · rw [hframe x hx] at ex
            obtain ⟨p, q, e, _, _, r3⟩ := L1.range x hx
            obtain ⟨p', q', e', r1', _, _⟩ := L2.range y hy
            rw [e] at ex; rw [e'] at ey
            simp only [Option.some.injEq, Prod.mk.injEq] at ex ey
            left; omega
          · rw [hframe y hy] at ey
            obtain ⟨p, q, e, _, _, r3⟩ := L1.range y hy
            obtain ⟨p', q', e', r1', _, _⟩ := L2.range x hx
            rw [e] at ey; rw [e'] at ex
            simp only [Option.some.injEq, Prod.mk.injEq] at ex ey
            right; omega
          · exact L2.disj x hx y hy a b a' b' ex ey hd1 hd2
    intro v d hf hnd hb
    rw [sub_succ] at hnd hb
    have hnd' := List.nodup_cons.1 hnd
    have hfws : ∀ w ∈ (row ch v).reverse, Fits ch h w := fun w hw => hf w (List.mem_reverse.1 hw)
    obtain ⟨d1, hd1⟩ : ∃ d1 : ND, d1 = { t := d.t + 1, disc := d.disc.set v (some d.t), intv := d.intv } := ⟨_, rfl⟩
    have hd1t : d1.t = d.t + 1 := by rw [hd1]
    have hd1i : d1.intv = d.intv := by rw [hd1]
    have LL := lamL (row ch v).reverse d1 hfws hnd'.2 (fun x hx => by rw [hd1i]; exact hb x (List.mem_cons_of_mem _ hx))
    obtain ⟨b1, _, b3, _, _⟩ := numList_basic ch h (row ch v).reverse d1
    have hvb : v < (numList ch h (row ch v).reverse d1).intv.length := by rw [b3, hd1i]; exact hb v (by simp)
    have hself : ((numList ch h (row ch v).reverse d1).intv.set v (some (d.t, (numList ch h (row ch v).reverse d1).t))).getD v none
        = some (d.t, (numList ch h (row ch v).reverse d1).t) := getD_set_self _ _ _ _ hvb
    have hother : ∀ x, x ∈ subs ch h (row ch v).reverse →
        ((numList ch h (row ch v).reverse d1).intv.set v (some (d.t, (numList ch h (row ch v).reverse d1).t))).getD x none
        = (numList ch h (row ch v).reverse d1).intv.getD x none := by
      intro x hx
      exact getD_set_ne _ _ _ _ _ (fun hc => hnd'.1 (hc ▸ hx))
    have ht : d.t + 1 ≤ (numList ch h (row ch v).reverse d1).t := by rw [b1]; omega
    have hdesc : ∀ x, x ∈ subs ch h (row ch v).reverse → Desc ch v x := fun x hx =>
      desc_of_mem_sub (h := h + 1) (by rw [sub_succ]; exact List.mem_cons_of_mem _ hx)
    rw [numRec_succ, sub_succ]
    simp only
    rw [← hd1]
    refine ⟨?_, ?_, ?_⟩
    · intro x hx
      rcases List.mem_cons.1 hx with hx | hx
      · subst hx
        exact ⟨d.t, _, hself, Nat.le_refl _, by omega, by omega⟩
      · obtain ⟨a, b, e, r1, r2, r3⟩ := LL.range x hx
        exact ⟨a, b, by rw [hother x hx]; exact e, by omega, r2, by omega⟩
    · intro x hx y hy a b a' b' ex ey hd hne
      rcases List.mem_cons.1 hx with hx | hx <;> rcases List.mem_cons.1 hy with hy | hy
      · exact absurd (hx.trans hy.symm) hne
      · subst hx
        rw [hself] at ex
        rw [hother y hy] at ey
        obtain ⟨p, q, e, r1, _, r3⟩ := LL.range y hy
        rw [e] at ey
        simp only [Option.some.injEq, Prod.mk.injEq] at ex ey
        omega
      · subst hy
        exact absurd (subs_closed hfws hx hd) hnd'.1
      · rw [hother x hx] at ex; rw [hother y hy] at ey
        exact LL.nest x hx y hy a b a' b' ex ey hd hne
    · intro x hx y hy a b a' b' ex ey hnd1 hnd2
      rcases List.mem_cons.1 hx with hx | hx <;> rcases List.mem_cons.1 hy with hy | hy
      · subst hx; subst hy; exact absurd (Desc.refl _) hnd1
      · subst hx; exact absurd (hdesc y hy) hnd1
      · subst hy; exact absurd (hdesc x hx) hnd2
      · rw [hother x hx] at ex; rw [hother y hy] at ey
        exact LL.disj x hx y hy a b a' b' ex ey hnd1 hnd2

/-- consequences for the interval tests of the code -/
theorem lam_tests {ch : Adj} {intv : List (Option (Nat × Nat))} {nodes : List Nat} {t0 t1 : Nat}
    (L : Lam ch intv nodes t0 t1) (hdec : ∀ x y, Desc ch x y ∨ ¬ Desc ch x y) {one other : Nat}
    (h1 : one ∈ nodes) (h2 : other ∈ nodes) :
    ∃ io ia, intv.getD other none = some io ∧ intv.getD one none = some ia ∧
      (belowOrSame io ia = true ↔ Desc ch one other) ∧
      (below io ia = true ↔ (Desc ch one other ∧ one ≠ other)) := by
  obtain ⟨a, b, ea, _, ra, _⟩ := L.range one h1
  obtain ⟨a', b', eo, _, ro, _⟩ := L.range other h2
  refine ⟨(a', b'), (a, b), eo, ea, ?_, ?_⟩
  · unfold belowOrSame
    simp only [Bool.and_eq_true, decide_eq_true_eq]
    constructor
    · rintro ⟨h3, h4⟩
      rcases hdec one other with hd | hd
      · exact hd
      · rcases hdec other one with hd' | hd'
        · by_cases hne : other = one
          · subst hne; exact Desc.refl _
          · have := L.nest other h2 one h1 a' b' a b eo ea hd' hne
            omega
        · have := L.disj one h1 other h2 a b a' b' ea eo hd hd'
          omega
    · intro hd
      by_cases hne : one = other
      · subst hne
        rw [ea] at eo
        simp only [Option.some.injEq, Prod.mk.injEq] at eo
        omega
      · have := L.nest one h1 other h2 a b a' b' ea eo hd hne
        omega
  · unfold below
    simp only [Bool.and_eq_true, decide_eq_true_eq]
    constructor
    · rintro ⟨h3, h4⟩
      have hne : one ≠ other := by
        intro hc; subst hc
        rw [ea] at eo
        simp only [Option.some.injEq, Prod.mk.injEq] at eo
        omega
      refine ⟨?_, hne⟩
      rcases hdec one other with hd | hd
      · exact hd
      · rcases hdec other one with hd' | hd'
        · have := L.nest other h2 one h1 a' b' a b eo ea hd' (fun h => hne h.symm)
          omega
        · have := L.disj one h1 other h2 a b a' b' ea eo hd hd'
          omega
    · rintro ⟨hd, hne⟩
      exact L.nest one h1 other h2 a b a' b' ea eo hd hne

/-! #### `bottom_up` yields the post-order of the recursive traversal -/

/-- nodes below `v` in the order in which the traversal *finishes* them -/
def post (ch : Adj) : Nat → Nat → List Nat
  | 0, _ => []
  | h + 1, v => (row ch v).reverse.flatMap (post ch h) ++ [v]

def posts (ch : Adj) (h : Nat) (ws : List Nat) : List Nat := ws.flatMap (post ch h)

theorem post_succ (ch : Adj) (h v : Nat) : post ch (h + 1) v = posts ch h (row ch v).reverse ++ [v] := rfl

theorem posts_cons (ch : Adj) (h w : Nat) (ws : List Nat) : posts ch h (w :: ws) = post ch h w ++ posts ch h ws := by
  simp [posts]

theorem buLoop_step (ch : Adj) (f v : Nat) (rest : List Nat) (vis : Nat) (out : List Nat) :
    buLoop ch (f + 1) (v :: rest) vis out =
      if vis.testBit v then buLoop ch f rest vis (v :: out)
      else buLoop ch f ((row ch v).reverse ++ v :: rest) (vis ||| Model.Dom.bit v) out := rfl

theorem buLoop_sim (ch : Adj) : ∀ (h v : Nat) (rest : List Nat) (vis : Nat) (out : List Nat) (fuel : Nat),
    Fits ch h v → (sub ch h v).Nodup → (∀ x ∈ sub ch h v, vis.testBit x = false) →
    ∃ vis', buLoop ch (fuel + 2 * (sub ch h v).length) (v :: rest) vis out
              = buLoop ch fuel rest vis' ((post ch h v).reverse ++ out) ∧
            ∀ x, vis'.testBit x = true ↔ (vis.testBit x = true ∨ x ∈ sub ch h v) := by
  intro h
  induction h with
  | zero => intro v rest vis out fuel hf; exact absurd hf (by simp [Fits])
  | succ h ih =>
    have simL : ∀ (ws rest : List Nat) (vis : Nat) (out : List Nat) (fuel : Nat),
        (∀ w ∈ ws, Fits ch h w) → (subs ch h ws).Nodup → (∀ x ∈ subs ch h ws, vis.testBit x = false) →
        ∃ vis', buLoop ch (fuel + 2 * (subs ch h ws).length) (ws ++ rest) vis out
                  = buLoop ch fuel rest vis' ((posts ch h ws).reverse ++ out) ∧
                ∀ x, vis'.testBit x = true ↔ (vis.testBit x = true ∨ x ∈ subs ch h ws) := by
      intro ws
      induction ws with
      | nil => intro rest vis out fuel _ _ _; exact ⟨vis, by simp [subs, posts], by simp [subs]⟩
      | cons w ws ihl =>
        intro rest vis out fuel hfit hnd hwh
        rw [subs_cons] at hnd hwh
        have hnd' := List.nodup_append.1 hnd
        obtain ⟨vis1, e1, c1⟩ := ih w (ws ++ rest) vis out (fuel + 2 * (subs ch h ws).length) (hfit w (by simp)) hnd'.1
          (fun x hx => hwh x (List.mem_append_left _ hx))
        obtain ⟨vis2, e2, c2⟩ := ihl rest vis1 ((post ch h w).reverse ++ out) fuel
          (fun w' hw' => hfit w' (List.mem_cons_of_mem _ hw')) hnd'.2.1
          (fun x hx => by
            have hn : x ∉ sub ch h w := fun hc => hnd'.2.2 x hc x hx rfl
            cases hb : vis1.testBit x with
            | false => rfl
            | true =>
              rcases (c1 x).1 hb with h' | h'
              · rw [hwh x (List.mem_append_right _ hx)] at h'; cases h'
              · exact absurd h' hn)
        refine ⟨vis2, ?_, ?_⟩
        · have e0 : fuel + 2 * (subs ch h (w :: ws)).length = (fuel + 2 * (subs ch h ws).length) + 2 * (sub ch h w).length := by
            rw [subs_cons, List.length_append]; omega
          rw [e0, List.cons_append, e1, e2, posts_cons, List.reverse_append, List.append_assoc]
        · intro x
          rw [c2 x, c1 x, subs_cons, List.mem_append, or_assoc]
    intro v rest vis out fuel hf hnd hwh
    rw [sub_succ] at hnd hwh
    have hnd' := List.nodup_cons.1 hnd
    have hv : vis.testBit v = false := hwh v (by simp)
    obtain ⟨vis2, e2, c2⟩ := simL (row ch v).reverse (v :: rest) (vis ||| Model.Dom.bit v) out (fuel + 1)
      (fun w hw => hf w (List.mem_reverse.1 hw)) hnd'.2
      (fun x hx => by
        have : v ≠ x := fun hc => hnd'.1 (hc ▸ hx)
        rw [Nat.testBit_or, hwh x (List.mem_cons_of_mem _ hx), testBit_mbit]
        simp [this])
    have hv2 : vis2.testBit v = true := by
      apply (c2 v).2; left; rw [Nat.testBit_or, testBit_mbit]; simp
    refine ⟨vis2, ?_, ?_⟩
    · have e0 : fuel + 2 * (sub ch (h + 1) v).length = ((fuel + 1) + 2 * (subs ch h (row ch v).reverse).length) + 1 := by
        rw [sub_succ, List.length_cons]; omega
      rw [e0, buLoop_step, hv]
      simp only [Bool.false_eq_true, if_false]
      rw [e2, buLoop_step, hv2]
      simp only [if_true]
      rw [post_succ, List.reverse_append]
      rfl
    · intro x
      rw [c2 x, Nat.testBit_or, testBit_mbit, sub_succ, List.mem_cons, Bool.or_eq_true, decide_eq_true_eq, or_assoc]
      constructor
      · rintro (h' | h' | h')
        · exact Or.inl h'
        · exact Or.inr (Or.inl h'.symm)
        · exact Or.inr (Or.inr h')
      · rintro (h' | h' | h')
        · exact Or.inl h'
        · exact Or.inr (Or.inl h'.symm)
        · exact Or.inr (Or.inr h')

/-! ### Part 2: the dominator tree (children lists built from the path-defined idom map) -/

theorem nodup_flatMap_of {α β : Type} (f : α → List β) : ∀ (l : List α), l.Nodup → (∀ a ∈ l, (f a).Nodup) →
    (∀ a ∈ l, ∀ b ∈ l, a ≠ b → ∀ x, x ∈ f a → x ∈ f b → False) → (l.flatMap f).Nodup := by
  intro l
  induction l with
  | nil => intro _ _ _; simp
  | cons a as ih =>
    intro nd h1 h2
    have nd' := List.nodup_cons.1 nd
    rw [List.flatMap_cons]
    apply List.nodup_append.2
    refine ⟨h1 a (by simp), ih nd'.2 (fun b hb => h1 b (List.mem_cons_of_mem _ hb))
      (fun b hb c hc => h2 b (List.mem_cons_of_mem _ hb) c (List.mem_cons_of_mem _ hc)), ?_⟩
    intro x hx y hy hxy
    subst hxy
    obtain ⟨b, hb, hxb⟩ := List.mem_flatMap.1 hy
    have : a ≠ b := fun hc => nd'.1 (hc ▸ hb)
    exact h2 a (by simp) b (List.mem_cons_of_mem _ hb) this x hx hxb

section domtree
variable (g : Digraph) (e : Nat) (idomL : List (Option Nat))
variable (hI : ∀ v, v < g.n → idomL.getD v none = idom g e v)

include hI

theorem mem_children (p w : Nat) :
    w ∈ row (childrenOf g.n idomL) p ↔ (p < g.n ∧ w < g.n ∧ idom g e w = some p) := by
  unfold row childrenOf
  by_cases hp : p < g.n
  · rw [List.getD_eq_getElem?_getD, List.getElem?_map, List.getElem?_range hp]
    simp only [Option.map_some, Option.getD_some, List.mem_filter, List.mem_range, beq_iff_eq]
    constructor
    · rintro ⟨hw, h⟩; exact ⟨hp, hw, by rw [← hI w hw]; exact h⟩
    · rintro ⟨_, hw, h⟩; exact ⟨hw, by rw [hI w hw]; exact h⟩
  · rw [List.getD_eq_getElem?_getD, List.getElem?_eq_none (by simp; omega)]
    simp [hp]

theorem children_nodup (p : Nat) : (row (childrenOf g.n idomL) p).Nodup := by
  have _ := hI
  unfold row childrenOf
  by_cases hp : p < g.n
  · rw [List.getD_eq_getElem?_getD, List.getElem?_map, List.getElem?_range hp]
    simp only [Option.map_some, Option.getD_some]
    exact List.Nodup.sublist List.filter_sublist List.nodup_range
  · rw [List.getD_eq_getElem?_getD, List.getElem?_eq_none (by simp; omega)]
    simp

theorem child_facts {p w : Nat} (h : w ∈ row (childrenOf g.n idomL) p) :
    Reach g e w ∧ w ≠ e ∧ IsIdom g e p w :=
  (idom_eq_some_iff g e w p).1 ((mem_children g e idomL hI p w).1 h).2.2

theorem dom_of_desc {a b : Nat} (h : Desc (childrenOf g.n idomL) a b) : Dom g e a b := by
  induction h with
  | refl v => exact dom_refl g e v
  | step hw _ ih => exact dom_trans (child_facts g e idomL hI hw).2.2.1.1 ih

theorem reach_of_desc {a b : Nat} (h : Desc (childrenOf g.n idomL) a b) (ha : Reach g e a) : Reach g e b := by
  induction h with
  | refl v => exact ha
  | step hw _ ih => exact ih (child_facts g e idomL hI hw).1

/-- number of strict dominators -/
def depth (g : Digraph) (e v : Nat) : Nat := ((List.range g.n).filter fun d => sdomB g e d v).length

omit hI in
theorem depth_lt {p b : Nat} (hr : Reach g e b) (h : IsIdom g e p b) : depth g e p < depth g e b := by
  unfold depth
  apply filter_length_lt
  · intro d _ hd
    have hd' := (sdomB_iff g e d p).1 hd
    apply (sdomB_iff g e d b).2
    refine ⟨dom_trans hd'.1 h.1.1, ?_⟩
    intro hdb; subst hdb
    exact hd'.2 (dom_antisymm hd'.1 h.1.1 (dom_reach h.1.1 hr))
  · refine ⟨p, List.mem_range.2 (dom_lt h.1.1 hr), (sdomB_iff g e p b).2 h.1, ?_⟩
    cases hc : sdomB g e p p with
    | false => rfl
    | true => exact absurd rfl ((sdomB_iff g e p p).1 hc).2

theorem desc_of_dom : ∀ (k : Nat) {a b : Nat}, depth g e b ≤ k → Reach g e b → Dom g e a b →
    Desc (childrenOf g.n idomL) a b := by
  intro k
  induction k with
  | zero =>
    intro a b hk hr hd
    by_cases hab : a = b
    · subst hab; exact Desc.refl _
    · by_cases hbe : b = e
      · subst hbe
        obtain ⟨l, p⟩ := hr
        have := hd [] (Path.nil p.lt_left)
        simp at this; exact absurd this hab
      · obtain ⟨p, hp⟩ := isIdom_exists hr hbe
        have := depth_lt g e hr hp
        omega
  | succ k ih =>
    intro a b hk hr hd
    by_cases hab : a = b
    · subst hab; exact Desc.refl _
    · by_cases hbe : b = e
      · subst hbe
        obtain ⟨l, p⟩ := hr
        have := hd [] (Path.nil p.lt_left)
        simp at this; exact absurd this hab
      · obtain ⟨p, hp⟩ := isIdom_exists hr hbe
        have hlt := depth_lt g e hr hp
        have hpr : Reach g e p := dom_reach hp.1.1 hr
        have hap : Dom g e a p := hp.2 a ⟨hd, hab⟩
        have hdesc := ih (by omega) hpr hap
        have hchild : b ∈ row (childrenOf g.n idomL) p :=
          (mem_children g e idomL hI p b).2 ⟨dom_lt hp.1.1 hr, (by obtain ⟨l, q⟩ := hr; exact q.lt_right),
            (idom_eq_some_iff g e b p).2 ⟨hr, hbe, hp⟩⟩
        exact hdesc.trans (Desc.step hchild (Desc.refl _))

/-- descendant in the dominator tree ⇔ dominance (for reachable nodes) -/
theorem desc_iff_dom {a b : Nat} (hr : Reach g e b) : Desc (childrenOf g.n idomL) a b ↔ Dom g e a b :=
  ⟨dom_of_desc g e idomL hI, desc_of_dom g e idomL hI _ (Nat.le_refl _) hr⟩

/-- number of nodes dominated by `v` (bounds the height of the tree below `v`) -/
def sz (g : Digraph) (e v : Nat) : Nat := ((List.range g.n).filter fun x => domB g e v x).length

theorem sz_child {v w : Nat} (h : w ∈ row (childrenOf g.n idomL) v) : sz g e w < sz g e v := by
  obtain ⟨hr, _, hi⟩ := child_facts g e idomL hI h
  unfold sz
  apply filter_length_lt
  · intro x _ hx
    exact (domB_iff g e v x).2 (dom_trans hi.1.1 ((domB_iff g e w x).1 hx))
  · refine ⟨v, List.mem_range.2 ((mem_children g e idomL hI v w).1 h).1, (domB_iff g e v v).2 (dom_refl g e v), ?_⟩
    cases hc : domB g e w v with
    | false => rfl
    | true =>
      exact absurd (dom_antisymm hi.1.1 ((domB_iff g e w v).1 hc) hr) hi.1.2

theorem fits_of_sz : ∀ (k v : Nat), sz g e v ≤ k → Fits (childrenOf g.n idomL) (k + 1) v := by
  intro k
  induction k with
  | zero =>
    intro v hk w hw
    have := sz_child g e idomL hI hw
    omega
  | succ k ih =>
    intro v hk w hw
    have := sz_child g e idomL hI hw
    exact ih w (by omega)

theorem fits_all (v : Nat) : Fits (childrenOf g.n idomL) (g.n + 1) v := by
  apply fits_of_sz g e idomL hI
  unfold sz
  have := List.length_filter_le (fun x => domB g e v x) (List.range g.n)
  simpa using this

theorem sub_lt {h v x : Nat} (hv : v < g.n) (hx : x ∈ sub (childrenOf g.n idomL) h v) : x < g.n := by
  have hd := desc_of_mem_sub hx
  clear hx
  induction hd with
  | refl _ => exact hv
  | step hw _ ih => exact ih ((mem_children g e idomL hI _ _).1 hw).2.1

theorem sub_nodup : ∀ (h v : Nat), (sub (childrenOf g.n idomL) h v).Nodup := by
  intro h
  induction h with
  | zero => intro v; simp [sub]
  | succ h ih =>
    intro v
    rw [sub_succ]
    apply List.nodup_cons.2
    constructor
    · intro hv
      obtain ⟨w, hw, hvw⟩ := mem_subs.1 hv
      have hw' := List.mem_reverse.1 hw
      obtain ⟨hr, _, hi⟩ := child_facts g e idomL hI hw'
      have hwv : Dom g e w v := dom_of_desc g e idomL hI (desc_of_mem_sub hvw)
      exact hi.1.2 (dom_antisymm hi.1.1 hwv hr)
    · unfold subs
      apply nodup_flatMap_of
      · exact (List.reverse_perm _).nodup_iff.2 (children_nodup g e idomL hI v)
      · intro w _; exact ih w
      · intro w1 hw1 w2 hw2 hne x hx1 hx2
        have hc1 := child_facts g e idomL hI (List.mem_reverse.1 hw1)
        have hc2 := child_facts g e idomL hI (List.mem_reverse.1 hw2)
        have hd1 : Dom g e w1 x := dom_of_desc g e idomL hI (desc_of_mem_sub hx1)
        have hd2 : Dom g e w2 x := dom_of_desc g e idomL hI (desc_of_mem_sub hx2)
        have hrx : Reach g e x := reach_of_desc g e idomL hI (desc_of_mem_sub hx1) hc1.1
        rcases dom_chain hd1 hd2 hrx with h12 | h21
        · have : Dom g e w1 v := hc2.2.2.2 w1 ⟨h12, hne⟩
          exact hc1.2.2.1.2 (dom_antisymm hc1.2.2.1.1 this hc1.1)
        · have : Dom g e w2 v := hc1.2.2.2 w2 ⟨h21, fun h => hne h.symm⟩
          exact hc2.2.2.1.2 (dom_antisymm hc2.2.2.1.1 this hc2.1)

/-- the reachable nodes are exactly the nodes of the tree below the entry -/
theorem mem_tree_iff (he : e < g.n) (x : Nat) :
    x ∈ sub (childrenOf g.n idomL) (g.n + 1) e ↔ Reach g e x := by
  constructor
  · intro hx
    exact reach_of_desc g e idomL hI (desc_of_mem_sub hx) ⟨[], Path.nil he⟩
  · intro hr
    exact mem_sub_of_desc ((desc_iff_dom g e idomL hI hr).2 (dom_entry g e x)) (fits_all g e idomL hI e)

/-- **`_number_dominator_tree` + interval tests**: given the path-defined idom map, the numbering loop
    terminates and `dominates` / `strictly_dominates` decide (strict) dominance on reachable nodes -/
theorem numberTree_correct (he : e < g.n) :
    ∃ intv, numberTree g.n (childrenOf g.n idomL) e = some intv ∧
      ∀ one other, Reach g e one → Reach g e other →
        dominates intv one other = some (domB g e one other) ∧
        strictlyDominates intv one other = some (sdomB g e one other) := by
  let ch := childrenOf g.n idomL
  have hfit := fits_all g e idomL hI e
  have hnd := sub_nodup g e idomL hI (g.n + 1) e
  have hbd : ∀ x ∈ sub ch (g.n + 1) e, x < g.n := fun x hx => sub_lt g e idomL hI he hx
  have hlen : (sub ch (g.n + 1) e).length ≤ g.n := nodup_length_le g.n _ hnd hbd
  obtain ⟨d0, hd0⟩ : ∃ d0 : ND, d0 = { t := 0, disc := List.replicate g.n none, intv := List.replicate g.n none } := ⟨_, rfl⟩
  have hok : Ok ch (g.n + 1) (sub ch (g.n + 1) e) d0 := by
    refine ⟨hnd, ?_, ?_⟩
    · intro x _; rw [hd0]; simp only [List.getD_eq_getElem?_getD, List.getElem?_replicate]; split <;> rfl
    · intro x hx; rw [hd0]; simpa using hbd x hx
  obtain ⟨k, hk⟩ : ∃ k, 2 * g.n + 2 = (k + 1) + 2 * (sub ch (g.n + 1) e).length := ⟨2 * g.n + 1 - 2 * (sub ch (g.n + 1) e).length, by omega⟩
  have hrun : numberTree g.n ch e = some (numRec ch (g.n + 1) e d0).intv := by
    unfold numberTree
    have : ({ t := 0, work := [e], disc := List.replicate g.n none, intv := List.replicate g.n none } : NumSt) = toSt d0 [e] := by
      rw [hd0]; rfl
    rw [this, hk, numLoop_sim ch (g.n + 1) e d0 [] (k + 1) hfit hok]
    simp [numLoop, toSt]
  refine ⟨_, hrun, ?_⟩
  intro one other h1 h2
  have L := numRec_lam ch (g.n + 1) e d0 hfit hnd (fun x hx => by rw [hd0]; simpa using hbd x hx)
  have m1 := (mem_tree_iff g e idomL hI he one).2 h1
  have m2 := (mem_tree_iff g e idomL hI he other).2 h2
  obtain ⟨io, ia, eo, ea, t1, t2⟩ := lam_tests L (fun _ _ => Classical.em _) m1 m2
  unfold dominates strictlyDominates
  rw [eo, ea]
  simp only [Option.some.injEq]
  constructor
  · rw [Bool.eq_iff_iff, t1, desc_iff_dom g e idomL hI h2, domB_iff]
  · rw [Bool.eq_iff_iff, t2, desc_iff_dom g e idomL hI h2, sdomB_iff]
    rfl

/-! #### Cytron's recurrence for the dominance frontier -/

omit hI in
theorem desc_inv {ch : Adj} {a b : Nat} (h : Desc ch a b) (hne : a ≠ b) : ∃ w ∈ row ch a, Desc ch w b := by
  cases h with
  | refl _ => exact absurd rfl hne
  | step hw hd => exact ⟨_, hw, hd⟩

/-- `DF(x) = DF_local(x) ∪ ⋃_{z child of x} DF_up(z)` (Cytron et al.), when every node is reachable -/
theorem cytron (hall : ∀ v, v < g.n → Reach g e v) (x y : Nat) :
    InDF g e x y ↔ ((g.Edge x y ∧ idom g e y ≠ some x) ∨
      ∃ z ∈ row (childrenOf g.n idomL) x, InDF g e z y ∧ idom g e y ≠ some x) := by
  constructor
  · rintro ⟨⟨p, hpy, hxp⟩, hns⟩
    have hry : Reach g e y := hall y hpy.2.1
    have hrp : Reach g e p := hall p hpy.1
    have hidom : idom g e y ≠ some x := by
      intro hc
      exact hns ((idom_eq_some_iff g e y x).1 hc).2.2.1
    by_cases hpx : x = p
    · subst hpx
      exact Or.inl ⟨hpy, hidom⟩
    · right
      have hd : Desc (childrenOf g.n idomL) x p := (desc_iff_dom g e idomL hI hrp).2 hxp
      obtain ⟨z, hz, hzp⟩ := desc_inv hd hpx
      refine ⟨z, hz, ⟨⟨p, hpy, dom_of_desc g e idomL hI hzp⟩, ?_⟩, hidom⟩
      intro hzy
      obtain ⟨hrz, _, hiz⟩ := child_facts g e idomL hI hz
      apply hns
      refine ⟨dom_trans hiz.1.1 hzy.1, ?_⟩
      intro hxy; subst hxy
      exact hiz.1.2 (dom_antisymm hiz.1.1 hzy.1 hrz)
  · rintro (⟨hxy, hidom⟩ | ⟨z, hz, ⟨⟨p, hpy, hzp⟩, hnz⟩, hidom⟩)
    · refine ⟨⟨x, hxy, dom_refl g e x⟩, ?_⟩
      intro hs
      apply hidom
      have hry : Reach g e y := hall y hxy.2.1
      have hye : y ≠ e := by
        intro hc; subst hc
        have := hs.1 [] (Path.nil hxy.2.1)
        simp at this; exact hs.2 this
      exact (idom_eq_some_iff g e y x).2 ⟨hry, hye, hs, fun d' hd' => sdom_edge hd' hxy⟩
    · obtain ⟨hrz, _, hiz⟩ := child_facts g e idomL hI hz
      have hry : Reach g e y := hall y hpy.2.1
      have hrp : Reach g e p := hall p hpy.1
      refine ⟨⟨p, hpy, dom_trans hiz.1.1 hzp⟩, ?_⟩
      intro hs
      have hye : y ≠ e := by
        intro hc; subst hc
        have := hs.1 [] (Path.nil hpy.2.1)
        simp at this; exact hs.2 this
      obtain ⟨i, hi⟩ := isIdom_exists hry hye
      have hxi : Dom g e x i := hi.2 x hs
      have hix : i ≠ x := by
        intro hc; subst hc
        exact hidom ((idom_eq_some_iff g e y i).2 ⟨hry, hye, hi⟩)
      have hip : Dom g e i p := sdom_edge hi.1 hpy
      have hri : Reach g e i := dom_reach hi.1.1 hry
      rcases dom_chain hip hzp hrp with hiz' | hzi
      · -- i dominates z
        by_cases hizeq : i = z
        · subst hizeq; exact hnz hi.1
        · have : Dom g e i x := hiz.2 i ⟨hiz', hizeq⟩
          exact hix (dom_antisymm hxi this hri).symm
      · -- z dominates i, hence strictly dominates y
        apply hnz
        refine ⟨dom_trans hzi hi.1.1, ?_⟩
        intro hzy
        rw [hzy] at hzi
        exact hi.1.2 (dom_antisymm hi.1.1 hzi hry)

/-! #### the model of `calculate_dominance_frontier` -/

omit hI in
theorem condFold_testBit (idom : List (Option Nat)) (x : Nat) (l : List Nat) (a0 d : Nat) :
    (l.foldl (dfAdd idom x) a0).testBit d = true ↔
      (a0.testBit d = true ∨ (d ∈ l ∧ (idom.getD d none != some x) = true)) := by
  induction l generalizing a0 with
  | nil => simp
  | cons y ys ih =>
    rw [List.foldl_cons, ih]
    unfold dfAdd
    by_cases hc : (idom.getD y none != some x) = true
    · simp only [hc, if_true, Nat.testBit_or, testBit_mbit, Bool.or_eq_true, decide_eq_true_eq, List.mem_cons]
      constructor
      · rintro ((h | h) | h)
        · exact Or.inl h
        · subst h; exact Or.inr ⟨Or.inl rfl, hc⟩
        · exact Or.inr ⟨Or.inr h.1, h.2⟩
      · rintro (h | ⟨h | h, h'⟩)
        · exact Or.inl (Or.inl h)
        · exact Or.inl (Or.inr h.symm)
        · exact Or.inr ⟨h, h'⟩
    · simp only [hc, List.mem_cons]
      constructor
      · rintro (h | h)
        · exact Or.inl h
        · exact Or.inr ⟨Or.inr h.1, h.2⟩
      · rintro (h | ⟨h | h, h'⟩)
        · exact Or.inl h
        · subst h; exact absurd h' hc
        · exact Or.inr ⟨h, h'⟩

omit hI in
theorem mem_members (n m d : Nat) : d ∈ members n m ↔ (d < n ∧ m.testBit d = true) := by
  unfold members; simp

omit hI in
/-- the upward-rule fold of `cytronNode` -/
theorem upFold (n : Nat) (idom : List (Option Nat)) (x : Nat) (df : List (Option Nat)) : ∀ (zs : List Nat) (a : Nat),
    (∀ z ∈ zs, ∃ dz, df.getD z none = some dz) →
    ∃ m, zs.foldl (upStep n idom df x) (some a) = some m ∧
         ∀ d, m.testBit d = true ↔ (a.testBit d = true ∨
           ∃ z ∈ zs, ∃ dz, df.getD z none = some dz ∧ d < n ∧ dz.testBit d = true ∧ (idom.getD d none != some x) = true) := by
  intro zs
  induction zs with
  | nil => intro a _; exact ⟨a, rfl, by simp⟩
  | cons z zs ih =>
    intro a hdef
    obtain ⟨dz, hdz⟩ := hdef z (by simp)
    rw [List.foldl_cons]
    have hstep : upStep n idom df x (some a) z = some ((members n dz).foldl (dfAdd idom x) a) := by
      unfold upStep; rw [hdz]
    rw [hstep]
    obtain ⟨m, hm, hc⟩ := ih ((members n dz).foldl (dfAdd idom x) a)
      (fun z' hz' => hdef z' (List.mem_cons_of_mem _ hz'))
    refine ⟨m, hm, ?_⟩
    intro d
    rw [hc d, condFold_testBit, mem_members]
    constructor
    · rintro ((h | ⟨⟨h1, h2⟩, h3⟩) | ⟨z', hz', dz', e', r⟩)
      · exact Or.inl h
      · exact Or.inr ⟨z, by simp, dz, hdz, h1, h2, h3⟩
      · exact Or.inr ⟨z', List.mem_cons_of_mem _ hz', dz', e', r⟩
    · rintro (h | ⟨z', hz', dz', e', r1, r2, r3⟩)
      · exact Or.inl (Or.inl h)
      · rcases List.mem_cons.1 hz' with hz' | hz'
        · subst hz'
          rw [hdz] at e'
          have : dz = dz' := by simpa using e'
          subst this
          exact Or.inl (Or.inr ⟨⟨r1, r2⟩, r3⟩)
        · exact Or.inr ⟨z', hz', dz', e', r1, r2, r3⟩

omit hI in
theorem cytronLoop_append (n : Nat) (succ : Adj) (idom : List (Option Nat)) (ch : Adj) :
    ∀ (l1 l2 : List Nat) (df : List (Option Nat)),
      cytronLoop n succ idom ch (l1 ++ l2) df = (cytronLoop n succ idom ch l1 df).bind (cytronLoop n succ idom ch l2) := by
  intro l1
  induction l1 with
  | nil => intro l2 df; rfl
  | cons x xs ih =>
    intro l2 df
    simp only [List.cons_append, cytronLoop]
    cases cytronNode n succ idom ch df x with
    | none => rfl
    | some df' => exact ih l2 df'

/-- entry `x` of the frontier table is the set `DF(x)` -/
def Good (g : Digraph) (e : Nat) (df : List (Option Nat)) (x : Nat) : Prop :=
  ∃ m, df.getD x none = some m ∧ ∀ y, m.testBit y = true ↔ InDF g e x y

theorem cytronLoop_post (hwf : g.WF) (hall : ∀ v, v < g.n → Reach g e v) :
    ∀ (h v : Nat) (df : List (Option Nat)), Fits (childrenOf g.n idomL) h v →
      (sub (childrenOf g.n idomL) h v).Nodup → (∀ x ∈ sub (childrenOf g.n idomL) h v, x < df.length) →
      ∃ df', cytronLoop g.n g.adj idomL (childrenOf g.n idomL) (post (childrenOf g.n idomL) h v) df = some df' ∧
        df'.length = df.length ∧
        (∀ x, x ∉ sub (childrenOf g.n idomL) h v → df'.getD x none = df.getD x none) ∧
        ∀ x ∈ sub (childrenOf g.n idomL) h v, Good g e df' x := by
  intro h
  induction h with
  | zero => intro v df hf; exact absurd hf (by simp [Fits])
  | succ h ih =>
    have loopL : ∀ (ws : List Nat) (df : List (Option Nat)), (∀ w ∈ ws, Fits (childrenOf g.n idomL) h w) →
        (subs (childrenOf g.n idomL) h ws).Nodup → (∀ x ∈ subs (childrenOf g.n idomL) h ws, x < df.length) →
        ∃ df', cytronLoop g.n g.adj idomL (childrenOf g.n idomL) (posts (childrenOf g.n idomL) h ws) df = some df' ∧
          df'.length = df.length ∧
          (∀ x, x ∉ subs (childrenOf g.n idomL) h ws → df'.getD x none = df.getD x none) ∧
          ∀ x ∈ subs (childrenOf g.n idomL) h ws, Good g e df' x := by
      intro ws
      induction ws with
      | nil => intro df _ _ _; exact ⟨df, rfl, rfl, fun _ _ => rfl, by simp [subs]⟩
      | cons w ws ihl =>
        intro df hfit hnd hb
        rw [subs_cons] at hnd hb
        have hnd' := List.nodup_append.1 hnd
        obtain ⟨df1, e1, l1, f1, g1⟩ := ih w df (hfit w (by simp)) hnd'.1 (fun x hx => hb x (List.mem_append_left _ hx))
        obtain ⟨df2, e2, l2, f2, g2⟩ := ihl df1 (fun w' hw' => hfit w' (List.mem_cons_of_mem _ hw')) hnd'.2.1
          (fun x hx => by rw [l1]; exact hb x (List.mem_append_right _ hx))
        refine ⟨df2, ?_, by rw [l2, l1], ?_, ?_⟩
        · rw [posts_cons, cytronLoop_append, e1]; exact e2
        · intro x hx
          rw [subs_cons, List.mem_append, not_or] at hx
          rw [f2 x hx.2, f1 x hx.1]
        · intro x hx
          rw [subs_cons] at hx
          rcases List.mem_append.1 hx with hx | hx
          · obtain ⟨m, em, hm⟩ := g1 x hx
            exact ⟨m, by rw [f2 x (fun hc => hnd'.2.2 x hx x hc rfl)]; exact em, hm⟩
          · exact g2 x hx
    intro v df hf hnd hb
    rw [sub_succ] at hnd hb
    have hnd' := List.nodup_cons.1 hnd
    have hfws : ∀ w ∈ (row (childrenOf g.n idomL) v).reverse, Fits (childrenOf g.n idomL) h w :=
      fun w hw => hf w (List.mem_reverse.1 hw)
    obtain ⟨df1, e1, l1, f1, g1⟩ := loopL (row (childrenOf g.n idomL) v).reverse df hfws hnd'.2
      (fun x hx => hb x (List.mem_cons_of_mem _ hx))
    -- the children's entries are available
    have hchild : ∀ z ∈ row (childrenOf g.n idomL) v, Good g e df1 z := by
      intro z hz
      apply g1 z
      exact mem_subs.2 ⟨z, List.mem_reverse.2 hz, mem_sub_self (hf z hz)⟩
    obtain ⟨m, hm, hcm⟩ := upFold g.n idomL v df1 (row (childrenOf g.n idomL) v)
      ((row g.adj v).foldl (dfAdd idomL v) 0)
      (fun z hz => by obtain ⟨dz, e', _⟩ := hchild z hz; exact ⟨dz, e'⟩)
    have hnode : cytronNode g.n g.adj idomL (childrenOf g.n idomL) df1 v = some (df1.set v (some m)) := by
      unfold cytronNode
      simp only [hm, Option.map_some]
    have hvl : v < df1.length := by rw [l1]; exact hb v (by simp)
    refine ⟨df1.set v (some m), ?_, by simp [l1], ?_, ?_⟩
    · rw [post_succ, cytronLoop_append, e1]
      simp only [Option.bind_some, cytronLoop, hnode]
    · intro x hx
      rw [sub_succ, List.mem_cons, not_or] at hx
      rw [getD_set_ne df1 v x (some m) none (fun hc => hx.1 hc.symm), f1 x hx.2]
    · intro x hx
      rcases List.mem_cons.1 hx with hx | hx
      · subst hx
        refine ⟨m, getD_set_self _ _ _ _ hvl, ?_⟩
        intro y
        rw [hcm y, condFold_testBit, cytron g e idomL hI hall x y]
        simp only [Nat.zero_testBit, Bool.false_eq_true, false_or, bne_iff_ne, ne_eq]
        constructor
        · rintro (⟨hy, hne⟩ | ⟨z, hz, dz, edz, hyn, hbit, hne⟩)
          · have he : g.Edge x y := wf_edge hwf hy
            exact Or.inl ⟨he, by rw [← hI y he.2.1]; exact hne⟩
          · obtain ⟨mz, emz, hmz⟩ := hchild z hz
            rw [edz] at emz
            have : dz = mz := by simpa using emz
            subst this
            exact Or.inr ⟨z, hz, (hmz y).1 hbit, by rw [← hI y hyn]; exact hne⟩
        · rintro (⟨he, hne⟩ | ⟨z, hz, hin, hne⟩)
          · exact Or.inl ⟨he.2.2, by rw [hI y he.2.1]; exact hne⟩
          · obtain ⟨mz, emz, hmz⟩ := hchild z hz
            obtain ⟨p, hpy, _⟩ := hin.1
            exact Or.inr ⟨z, hz, mz, emz, hpy.2.1, (hmz y).2 hin, by rw [hI y hpy.2.1]; exact hne⟩
      · obtain ⟨mx, emx, hmx⟩ := g1 x hx
        exact ⟨mx, by rw [getD_set_ne df1 v x (some m) none (fun hvx => hnd'.1 (hvx ▸ hx))]; exact emx, hmx⟩

/-- **`calculate_dominance_frontier`**: given the path-defined idom map and all nodes reachable, the
    bottom-up computation terminates and entry `x` is exactly the dominance frontier of `x` -/
theorem dominanceFrontier_correct (hwf : g.WF) (he : e < g.n) (hall : ∀ v, v < g.n → Reach g e v) :
    ∃ df, dominanceFrontier g.n g.adj idomL e = some df ∧
      ∀ x, x < g.n → ∃ m, df.getD x none = some m ∧ ∀ y, m.testBit y = true ↔ InDF g e x y := by
  have hfit := fits_all g e idomL hI e
  have hnd := sub_nodup g e idomL hI (g.n + 1) e
  have hbd : ∀ x ∈ sub (childrenOf g.n idomL) (g.n + 1) e, x < g.n := fun x hx => sub_lt g e idomL hI he hx
  have hlen : (sub (childrenOf g.n idomL) (g.n + 1) e).length ≤ g.n := nodup_length_le g.n _ hnd hbd
  obtain ⟨k, hk⟩ : ∃ k, 2 * g.n + 2 = (k + 1) + 2 * (sub (childrenOf g.n idomL) (g.n + 1) e).length :=
    ⟨2 * g.n + 1 - 2 * (sub (childrenOf g.n idomL) (g.n + 1) e).length, by omega⟩
  have horder : bottomUp g.n (childrenOf g.n idomL) e = some (post (childrenOf g.n idomL) (g.n + 1) e) := by
    unfold bottomUp
    obtain ⟨vis', e', _⟩ := buLoop_sim (childrenOf g.n idomL) (g.n + 1) e [] 0 [] (k + 1) hfit hnd (fun x _ => Nat.zero_testBit x)
    rw [hk, e']
    simp [buLoop]
  obtain ⟨df, e1, _, _, g1⟩ := cytronLoop_post g e idomL hI hwf hall (g.n + 1) e (List.replicate g.n none) hfit hnd
    (fun x hx => by simpa using hbd x hx)
  refine ⟨df, ?_, ?_⟩
  · unfold dominanceFrontier
    simp only [horder, e1]
  · intro x hx
    exact g1 x ((mem_tree_iff g e idomL hI he x).2 (hall x hx))

end domtree

end Proofs.DomTree
