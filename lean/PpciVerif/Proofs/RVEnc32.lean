import PpciVerif.Proofs.RVEnc
/-! C08 Thm B, 32-bit classes: for every class and all valid operands the model's bytes decode
(Spec.RV32.decode) to the instruction the class is meant to be. -/
set_option linter.unusedSimpArgs false
set_option linter.unusedVariables false
namespace Proofs.RVEnc
open Spec.RV32 Model.RVEnc

macro "fin32" : tactic => `(tactic| (
  simp only [Int.toNat_natCast, Int.reduceToNat, Bool.false_eq_true, reduceIte]
  rw [decodeAny_base rfl, decode_asmR ⟨by omega, by omega, by omega, by omega, by omega, by omega⟩]
  simp [decodeF, meaning, immIF, immSF, immBF, immJF, sext] <;> omega))

theorem good_Movr (o : Ops) (h : valid .Movr o) : Good .Movr o := by
  simp only [valid, reg, regP, simm, uimm, Nat.reduceSub, Nat.reducePow] at h
  refine ⟨_, pR_ok _ _ _ _ _ _ (by omega) (by omega) (by omega) (by omega) (by omega) (by omega) , ?_⟩
  fin32

theorem good_Nop (o : Ops) (h : valid .Nop o) : Good .Nop o := by
  simp only [valid, reg, regP, simm, uimm, Nat.reduceSub, Nat.reducePow] at h
  refine ⟨_, pR_ok _ _ _ _ _ _ (by omega) (by omega) (by omega) (by omega) (by omega) (by omega) , ?_⟩
  fin32

theorem good_Ebreak (o : Ops) (h : valid .Ebreak o) : Good .Ebreak o := by
  simp only [valid, reg, regP, simm, uimm, Nat.reduceSub, Nat.reducePow] at h
  refine ⟨_, pR_ok _ _ _ _ _ _ (by omega) (by omega) (by omega) (by omega) (by omega) (by omega) , ?_⟩
  fin32

theorem good_Addr (o : Ops) (h : valid .Addr o) : Good .Addr o := by
  simp only [valid, reg, regP, simm, uimm, Nat.reduceSub, Nat.reducePow] at h
  refine ⟨_, pR_ok _ _ _ _ _ _ (by omega) (by omega) (by omega) (by omega) (by omega) (by omega) , ?_⟩
  fin32

theorem good_Subr (o : Ops) (h : valid .Subr o) : Good .Subr o := by
  simp only [valid, reg, regP, simm, uimm, Nat.reduceSub, Nat.reducePow] at h
  refine ⟨_, pR_ok _ _ _ _ _ _ (by omega) (by omega) (by omega) (by omega) (by omega) (by omega) , ?_⟩
  fin32

theorem good_Sll (o : Ops) (h : valid .Sll o) : Good .Sll o := by
  simp only [valid, reg, regP, simm, uimm, Nat.reduceSub, Nat.reducePow] at h
  refine ⟨_, pR_ok _ _ _ _ _ _ (by omega) (by omega) (by omega) (by omega) (by omega) (by omega) , ?_⟩
  fin32

theorem good_Slt (o : Ops) (h : valid .Slt o) : Good .Slt o := by
  simp only [valid, reg, regP, simm, uimm, Nat.reduceSub, Nat.reducePow] at h
  refine ⟨_, pR_ok _ _ _ _ _ _ (by omega) (by omega) (by omega) (by omega) (by omega) (by omega) , ?_⟩
  fin32

theorem good_Sltu (o : Ops) (h : valid .Sltu o) : Good .Sltu o := by
  simp only [valid, reg, regP, simm, uimm, Nat.reduceSub, Nat.reducePow] at h
  refine ⟨_, pR_ok _ _ _ _ _ _ (by omega) (by omega) (by omega) (by omega) (by omega) (by omega) , ?_⟩
  fin32

theorem good_Xorr (o : Ops) (h : valid .Xorr o) : Good .Xorr o := by
  simp only [valid, reg, regP, simm, uimm, Nat.reduceSub, Nat.reducePow] at h
  refine ⟨_, pR_ok _ _ _ _ _ _ (by omega) (by omega) (by omega) (by omega) (by omega) (by omega) , ?_⟩
  fin32

theorem good_Srl (o : Ops) (h : valid .Srl o) : Good .Srl o := by
  simp only [valid, reg, regP, simm, uimm, Nat.reduceSub, Nat.reducePow] at h
  refine ⟨_, pR_ok _ _ _ _ _ _ (by omega) (by omega) (by omega) (by omega) (by omega) (by omega) , ?_⟩
  fin32

theorem good_Sra (o : Ops) (h : valid .Sra o) : Good .Sra o := by
  simp only [valid, reg, regP, simm, uimm, Nat.reduceSub, Nat.reducePow] at h
  refine ⟨_, pR_ok _ _ _ _ _ _ (by omega) (by omega) (by omega) (by omega) (by omega) (by omega) , ?_⟩
  fin32

theorem good_Orr (o : Ops) (h : valid .Orr o) : Good .Orr o := by
  simp only [valid, reg, regP, simm, uimm, Nat.reduceSub, Nat.reducePow] at h
  refine ⟨_, pR_ok _ _ _ _ _ _ (by omega) (by omega) (by omega) (by omega) (by omega) (by omega) , ?_⟩
  fin32

theorem good_Andr (o : Ops) (h : valid .Andr o) : Good .Andr o := by
  simp only [valid, reg, regP, simm, uimm, Nat.reduceSub, Nat.reducePow] at h
  refine ⟨_, pR_ok _ _ _ _ _ _ (by omega) (by omega) (by omega) (by omega) (by omega) (by omega) , ?_⟩
  fin32

theorem good_Mul (o : Ops) (h : valid .Mul o) : Good .Mul o := by
  simp only [valid, reg, regP, simm, uimm, Nat.reduceSub, Nat.reducePow] at h
  refine ⟨_, pR_ok _ _ _ _ _ _ (by omega) (by omega) (by omega) (by omega) (by omega) (by omega) , ?_⟩
  fin32

theorem good_Div (o : Ops) (h : valid .Div o) : Good .Div o := by
  simp only [valid, reg, regP, simm, uimm, Nat.reduceSub, Nat.reducePow] at h
  refine ⟨_, pR_ok _ _ _ _ _ _ (by omega) (by omega) (by omega) (by omega) (by omega) (by omega) , ?_⟩
  fin32

theorem good_Divu (o : Ops) (h : valid .Divu o) : Good .Divu o := by
  simp only [valid, reg, regP, simm, uimm, Nat.reduceSub, Nat.reducePow] at h
  refine ⟨_, pR_ok _ _ _ _ _ _ (by omega) (by omega) (by omega) (by omega) (by omega) (by omega) , ?_⟩
  fin32

theorem good_Rem (o : Ops) (h : valid .Rem o) : Good .Rem o := by
  simp only [valid, reg, regP, simm, uimm, Nat.reduceSub, Nat.reducePow] at h
  refine ⟨_, pR_ok _ _ _ _ _ _ (by omega) (by omega) (by omega) (by omega) (by omega) (by omega) , ?_⟩
  fin32

theorem good_Remu (o : Ops) (h : valid .Remu o) : Good .Remu o := by
  simp only [valid, reg, regP, simm, uimm, Nat.reduceSub, Nat.reducePow] at h
  refine ⟨_, pR_ok _ _ _ _ _ _ (by omega) (by omega) (by omega) (by omega) (by omega) (by omega) , ?_⟩
  fin32

theorem good_Slli (o : Ops) (h : valid .Slli o) : Good .Slli o := by
  simp only [valid, reg, regP, simm, uimm, Nat.reduceSub, Nat.reducePow] at h
  refine ⟨_, pR_ok _ _ _ _ _ _ (by omega) (by omega) (by omega) (by omega) (by omega) (by omega) , ?_⟩
  fin32

theorem good_Srli (o : Ops) (h : valid .Srli o) : Good .Srli o := by
  simp only [valid, reg, regP, simm, uimm, Nat.reduceSub, Nat.reducePow] at h
  refine ⟨_, pR_ok _ _ _ _ _ _ (by omega) (by omega) (by omega) (by omega) (by omega) (by omega) , ?_⟩
  fin32

theorem good_Srai (o : Ops) (h : valid .Srai o) : Good .Srai o := by
  simp only [valid, reg, regP, simm, uimm, Nat.reduceSub, Nat.reducePow] at h
  refine ⟨_, pR_ok _ _ _ _ _ _ (by omega) (by omega) (by omega) (by omega) (by omega) (by omega) , ?_⟩
  fin32

theorem good_Csrs (o : Ops) (h : valid .Csrs o) : Good .Csrs o := by
  simp only [valid, reg, regP, simm, uimm, Nat.reduceSub, Nat.reducePow] at h
  refine ⟨_, pI_ok _ _ _ _ _ (by omega) (by omega) (by omega) (by omega) (by omega) , ?_⟩
  fin32

theorem good_Csrwi (o : Ops) (h : valid .Csrwi o) : Good .Csrwi o := by
  simp only [valid, reg, regP, simm, uimm, Nat.reduceSub, Nat.reducePow] at h
  refine ⟨_, pI_ok _ _ _ _ _ (by omega) (by omega) (by omega) (by omega) (by omega) , ?_⟩
  fin32

theorem good_Csrsi (o : Ops) (h : valid .Csrsi o) : Good .Csrsi o := by
  simp only [valid, reg, regP, simm, uimm, Nat.reduceSub, Nat.reducePow] at h
  refine ⟨_, pI_ok _ _ _ _ _ (by omega) (by omega) (by omega) (by omega) (by omega) , ?_⟩
  fin32

theorem good_Csrci (o : Ops) (h : valid .Csrci o) : Good .Csrci o := by
  simp only [valid, reg, regP, simm, uimm, Nat.reduceSub, Nat.reducePow] at h
  refine ⟨_, pI_ok _ _ _ _ _ (by omega) (by omega) (by omega) (by omega) (by omega) , ?_⟩
  fin32

theorem good_Csrw (o : Ops) (h : valid .Csrw o) : Good .Csrw o := by
  simp only [valid, reg, regP, simm, uimm, Nat.reduceSub, Nat.reducePow] at h
  refine ⟨_, pI_ok _ _ _ _ _ (by omega) (by omega) (by omega) (by omega) (by omega) , ?_⟩
  fin32

theorem good_Csrr (o : Ops) (h : valid .Csrr o) : Good .Csrr o := by
  simp only [valid, reg, regP, simm, uimm, Nat.reduceSub, Nat.reducePow] at h
  refine ⟨_, pI_ok _ _ _ _ _ (by omega) (by omega) (by omega) (by omega) (by omega) , ?_⟩
  fin32

theorem good_Mret (o : Ops) (h : valid .Mret o) : Good .Mret o := by
  simp only [valid, reg, regP, simm, uimm, Nat.reduceSub, Nat.reducePow] at h
  refine ⟨_, pI_ok _ _ _ _ _ (by omega) (by omega) (by omega) (by omega) (by omega) , ?_⟩
  fin32

theorem good_Addi (o : Ops) (h : valid .Addi o) : Good .Addi o := by
  simp only [valid, reg, regP, simm, uimm, Nat.reduceSub, Nat.reducePow] at h
  refine ⟨_, pI_ok _ _ _ _ _ (by omega) (by omega) (by omega) (by omega) (by omega) , ?_⟩
  fin32

theorem good_Slti (o : Ops) (h : valid .Slti o) : Good .Slti o := by
  simp only [valid, reg, regP, simm, uimm, Nat.reduceSub, Nat.reducePow] at h
  refine ⟨_, pI_ok _ _ _ _ _ (by omega) (by omega) (by omega) (by omega) (by omega) , ?_⟩
  fin32

theorem good_Sltiu (o : Ops) (h : valid .Sltiu o) : Good .Sltiu o := by
  simp only [valid, reg, regP, simm, uimm, Nat.reduceSub, Nat.reducePow] at h
  refine ⟨_, pI_ok _ _ _ _ _ (by omega) (by omega) (by omega) (by omega) (by omega) , ?_⟩
  fin32

theorem good_Xori (o : Ops) (h : valid .Xori o) : Good .Xori o := by
  simp only [valid, reg, regP, simm, uimm, Nat.reduceSub, Nat.reducePow] at h
  refine ⟨_, pI_ok _ _ _ _ _ (by omega) (by omega) (by omega) (by omega) (by omega) , ?_⟩
  fin32

theorem good_Ori (o : Ops) (h : valid .Ori o) : Good .Ori o := by
  simp only [valid, reg, regP, simm, uimm, Nat.reduceSub, Nat.reducePow] at h
  refine ⟨_, pI_ok _ _ _ _ _ (by omega) (by omega) (by omega) (by omega) (by omega) , ?_⟩
  fin32

theorem good_Andi (o : Ops) (h : valid .Andi o) : Good .Andi o := by
  simp only [valid, reg, regP, simm, uimm, Nat.reduceSub, Nat.reducePow] at h
  refine ⟨_, pI_ok _ _ _ _ _ (by omega) (by omega) (by omega) (by omega) (by omega) , ?_⟩
  fin32

theorem good_Rdcyclei (o : Ops) (h : valid .Rdcyclei o) : Good .Rdcyclei o := by
  simp only [valid, reg, regP, simm, uimm, Nat.reduceSub, Nat.reducePow] at h
  refine ⟨_, pI_ok _ _ _ _ _ (by omega) (by omega) (by omega) (by omega) (by omega) , ?_⟩
  fin32

theorem good_Rdcyclehi (o : Ops) (h : valid .Rdcyclehi o) : Good .Rdcyclehi o := by
  simp only [valid, reg, regP, simm, uimm, Nat.reduceSub, Nat.reducePow] at h
  refine ⟨_, pI_ok _ _ _ _ _ (by omega) (by omega) (by omega) (by omega) (by omega) , ?_⟩
  fin32

theorem good_Rdtimei (o : Ops) (h : valid .Rdtimei o) : Good .Rdtimei o := by
  simp only [valid, reg, regP, simm, uimm, Nat.reduceSub, Nat.reducePow] at h
  refine ⟨_, pI_ok _ _ _ _ _ (by omega) (by omega) (by omega) (by omega) (by omega) , ?_⟩
  fin32

theorem good_Rdtimehi (o : Ops) (h : valid .Rdtimehi o) : Good .Rdtimehi o := by
  simp only [valid, reg, regP, simm, uimm, Nat.reduceSub, Nat.reducePow] at h
  refine ⟨_, pI_ok _ _ _ _ _ (by omega) (by omega) (by omega) (by omega) (by omega) , ?_⟩
  fin32

theorem good_Rdinstreti (o : Ops) (h : valid .Rdinstreti o) : Good .Rdinstreti o := by
  simp only [valid, reg, regP, simm, uimm, Nat.reduceSub, Nat.reducePow] at h
  refine ⟨_, pI_ok _ _ _ _ _ (by omega) (by omega) (by omega) (by omega) (by omega) , ?_⟩
  fin32

theorem good_Rdinstrethi (o : Ops) (h : valid .Rdinstrethi o) : Good .Rdinstrethi o := by
  simp only [valid, reg, regP, simm, uimm, Nat.reduceSub, Nat.reducePow] at h
  refine ⟨_, pI_ok _ _ _ _ _ (by omega) (by omega) (by omega) (by omega) (by omega) , ?_⟩
  fin32

theorem good_Blr (o : Ops) (h : valid .Blr o) : Good .Blr o := by
  simp only [valid, reg, regP, simm, uimm, Nat.reduceSub, Nat.reducePow] at h
  refine ⟨_, pI_ok _ _ _ _ _ (by omega) (by omega) (by omega) (by omega) (by omega) , ?_⟩
  fin32

theorem good_Adrl (o : Ops) (h : valid .Adrl o) : Good .Adrl o := by
  simp only [valid, reg, regP, simm, uimm, Nat.reduceSub, Nat.reducePow] at h
  refine ⟨_, pI_ok _ _ _ _ _ (by omega) (by omega) (by omega) (by omega) (by omega) , ?_⟩
  fin32

theorem good_Loadlrel (o : Ops) (h : valid .Loadlrel o) : Good .Loadlrel o := by
  simp only [valid, reg, regP, simm, uimm, Nat.reduceSub, Nat.reducePow] at h
  refine ⟨_, pI_ok _ _ _ _ _ (by omega) (by omega) (by omega) (by omega) (by omega) , ?_⟩
  fin32

theorem good_Adrlrel (o : Ops) (h : valid .Adrlrel o) : Good .Adrlrel o := by
  simp only [valid, reg, regP, simm, uimm, Nat.reduceSub, Nat.reducePow] at h
  refine ⟨_, pI_ok _ _ _ _ _ (by omega) (by omega) (by omega) (by omega) (by omega) , ?_⟩
  fin32

theorem good_Lb (o : Ops) (h : valid .Lb o) : Good .Lb o := by
  simp only [valid, reg, regP, simm, uimm, Nat.reduceSub, Nat.reducePow] at h
  refine ⟨_, pI_ok _ _ _ _ _ (by omega) (by omega) (by omega) (by omega) (by omega) , ?_⟩
  fin32

theorem good_Lh (o : Ops) (h : valid .Lh o) : Good .Lh o := by
  simp only [valid, reg, regP, simm, uimm, Nat.reduceSub, Nat.reducePow] at h
  refine ⟨_, pI_ok _ _ _ _ _ (by omega) (by omega) (by omega) (by omega) (by omega) , ?_⟩
  fin32

theorem good_Lw (o : Ops) (h : valid .Lw o) : Good .Lw o := by
  simp only [valid, reg, regP, simm, uimm, Nat.reduceSub, Nat.reducePow] at h
  refine ⟨_, pI_ok _ _ _ _ _ (by omega) (by omega) (by omega) (by omega) (by omega) , ?_⟩
  fin32

theorem good_Lbu (o : Ops) (h : valid .Lbu o) : Good .Lbu o := by
  simp only [valid, reg, regP, simm, uimm, Nat.reduceSub, Nat.reducePow] at h
  refine ⟨_, pI_ok _ _ _ _ _ (by omega) (by omega) (by omega) (by omega) (by omega) , ?_⟩
  fin32

theorem good_Lhu (o : Ops) (h : valid .Lhu o) : Good .Lhu o := by
  simp only [valid, reg, regP, simm, uimm, Nat.reduceSub, Nat.reducePow] at h
  refine ⟨_, pI_ok _ _ _ _ _ (by omega) (by omega) (by omega) (by omega) (by omega) , ?_⟩
  fin32

theorem good_Lui (o : Ops) (h : valid .Lui o) : Good .Lui o := by
  simp only [valid, reg, regP, simm, uimm, Nat.reduceSub, Nat.reducePow] at h
  refine ⟨_, pU_ok _ _ _ (by omega) (by omega) (by omega) , ?_⟩
  fin32

theorem good_Adru (o : Ops) (h : valid .Adru o) : Good .Adru o := by
  simp only [valid, reg, regP, simm, uimm, Nat.reduceSub, Nat.reducePow] at h
  refine ⟨_, pU_ok _ _ _ (by omega) (by omega) (by omega) , ?_⟩
  fin32

theorem good_Adrurel (o : Ops) (h : valid .Adrurel o) : Good .Adrurel o := by
  simp only [valid, reg, regP, simm, uimm, Nat.reduceSub, Nat.reducePow] at h
  refine ⟨_, pU_ok _ _ _ (by omega) (by omega) (by omega) , ?_⟩
  fin32

theorem good_Auipc (o : Ops) (h : valid .Auipc o) : Good .Auipc o := by
  simp only [valid, reg, regP, simm, uimm, Nat.reduceSub, Nat.reducePow] at h
  refine ⟨_, pU_ok _ _ _ (by omega) (by omega) (by omega) , ?_⟩
  fin32

theorem good_Bl (o : Ops) (h : valid .Bl o) : Good .Bl o := by
  simp only [valid, reg, regP, simm, uimm, Nat.reduceSub, Nat.reducePow] at h
  refine ⟨_, pJ_ok _ _ (by omega) (by omega) , ?_⟩
  fin32

theorem good_B (o : Ops) (h : valid .B o) : Good .B o := by
  simp only [valid, reg, regP, simm, uimm, Nat.reduceSub, Nat.reducePow] at h
  refine ⟨_, pJ_ok _ _ (by omega) (by omega) , ?_⟩
  fin32

theorem good_CBl (o : Ops) (h : valid .CBl o) : Good .CBl o := by
  simp only [valid, reg, regP, simm, uimm, Nat.reduceSub, Nat.reducePow] at h
  refine ⟨_, pJ_ok _ _ (by omega) (by omega) , ?_⟩
  fin32

theorem good_CB (o : Ops) (h : valid .CB o) : Good .CB o := by
  simp only [valid, reg, regP, simm, uimm, Nat.reduceSub, Nat.reducePow] at h
  refine ⟨_, pJ_ok _ _ (by omega) (by omega) , ?_⟩
  fin32

theorem good_Beq (o : Ops) (h : valid .Beq o) : Good .Beq o := by
  simp only [valid, reg, regP, simm, uimm, Nat.reduceSub, Nat.reducePow] at h
  refine ⟨_, pB_ok _ _ _ _ (by omega) (by omega) (by omega) , ?_⟩
  fin32

theorem good_Bne (o : Ops) (h : valid .Bne o) : Good .Bne o := by
  simp only [valid, reg, regP, simm, uimm, Nat.reduceSub, Nat.reducePow] at h
  refine ⟨_, pB_ok _ _ _ _ (by omega) (by omega) (by omega) , ?_⟩
  fin32

theorem good_Blt (o : Ops) (h : valid .Blt o) : Good .Blt o := by
  simp only [valid, reg, regP, simm, uimm, Nat.reduceSub, Nat.reducePow] at h
  refine ⟨_, pB_ok _ _ _ _ (by omega) (by omega) (by omega) , ?_⟩
  fin32

theorem good_Bgt (o : Ops) (h : valid .Bgt o) : Good .Bgt o := by
  simp only [valid, reg, regP, simm, uimm, Nat.reduceSub, Nat.reducePow] at h
  refine ⟨_, pB_ok _ _ _ _ (by omega) (by omega) (by omega) , ?_⟩
  fin32

theorem good_Bge (o : Ops) (h : valid .Bge o) : Good .Bge o := by
  simp only [valid, reg, regP, simm, uimm, Nat.reduceSub, Nat.reducePow] at h
  refine ⟨_, pB_ok _ _ _ _ (by omega) (by omega) (by omega) , ?_⟩
  fin32

theorem good_Ble (o : Ops) (h : valid .Ble o) : Good .Ble o := by
  simp only [valid, reg, regP, simm, uimm, Nat.reduceSub, Nat.reducePow] at h
  refine ⟨_, pB_ok _ _ _ _ (by omega) (by omega) (by omega) , ?_⟩
  fin32

theorem good_Bltu (o : Ops) (h : valid .Bltu o) : Good .Bltu o := by
  simp only [valid, reg, regP, simm, uimm, Nat.reduceSub, Nat.reducePow] at h
  refine ⟨_, pB_ok _ _ _ _ (by omega) (by omega) (by omega) , ?_⟩
  fin32

theorem good_Bgtu (o : Ops) (h : valid .Bgtu o) : Good .Bgtu o := by
  simp only [valid, reg, regP, simm, uimm, Nat.reduceSub, Nat.reducePow] at h
  refine ⟨_, pB_ok _ _ _ _ (by omega) (by omega) (by omega) , ?_⟩
  fin32

theorem good_Bgeu (o : Ops) (h : valid .Bgeu o) : Good .Bgeu o := by
  simp only [valid, reg, regP, simm, uimm, Nat.reduceSub, Nat.reducePow] at h
  refine ⟨_, pB_ok _ _ _ _ (by omega) (by omega) (by omega) , ?_⟩
  fin32

theorem good_Bleu (o : Ops) (h : valid .Bleu o) : Good .Bleu o := by
  simp only [valid, reg, regP, simm, uimm, Nat.reduceSub, Nat.reducePow] at h
  refine ⟨_, pB_ok _ _ _ _ (by omega) (by omega) (by omega) , ?_⟩
  fin32

theorem good_Sb (o : Ops) (h : valid .Sb o) : Good .Sb o := by
  simp only [valid, reg, regP, simm, uimm, Nat.reduceSub, Nat.reducePow] at h
  refine ⟨_, pS_ok _ _ _ _ (by omega) (by omega) (by omega) , ?_⟩
  fin32

theorem good_Sh (o : Ops) (h : valid .Sh o) : Good .Sh o := by
  simp only [valid, reg, regP, simm, uimm, Nat.reduceSub, Nat.reducePow] at h
  refine ⟨_, pS_ok _ _ _ _ (by omega) (by omega) (by omega) , ?_⟩
  fin32

theorem good_Sw (o : Ops) (h : valid .Sw o) : Good .Sw o := by
  simp only [valid, reg, regP, simm, uimm, Nat.reduceSub, Nat.reducePow] at h
  refine ⟨_, pS_ok _ _ _ _ (by omega) (by omega) (by omega) , ?_⟩
  fin32

end Proofs.RVEnc
