import PpciVerif.Spec.ObjSer
import PpciVerif.Proofs.ObjSer
import PpciVerif.Proofs.ObjSerDebug
/-! C14: sections, symbols, relocations, images, the whole object, archives. -/
namespace Proofs.ObjSer
open Model.ObjSer Spec.ObjSer

theorem deSection_ser (s : Section) (h : ∀ b ∈ s.data, b < 256) : deSection (serSection s) = .ok s := by
  simp [deSection, serSection, getKey, lookup, asStr, makeNumJ, makeNum_pyHex, asc2bin_bin2asc s.data h]

theorem lookupSec_none (l : List Section) (n : PyStr) (h : n ∉ l.map (·.name)) : lookupSec l n = none := by
  induction l with
  | nil => rfl
  | cons s rest ih =>
    simp only [List.map_cons, List.mem_cons, not_or] at h
    simp [lookupSec, ih h.2, Ne.symm h.1]

/-- with distinct section names, the name of a section of the object finds that section -/
theorem lookupSec_mem (l : List Section) (hnd : (l.map (·.name)).Nodup) (s : Section) (hs : s ∈ l) :
    lookupSec l s.name = some s := by
  induction l with
  | nil => simp at hs
  | cons x rest ih =>
    simp only [List.map_cons, List.nodup_cons] at hnd
    rcases List.mem_cons.mp hs with rfl | hs
    · simp [lookupSec, lookupSec_none rest s.name hnd.1]
    · simp [lookupSec, ih hnd.2 hs]

theorem lookupSec_name (l : List Section) (hnd : (l.map (·.name)).Nodup) (n : PyStr)
    (hn : n ∈ l.map (·.name)) : lookupSec l n ≠ none := by
  obtain ⟨s, hs, rfl⟩ := List.mem_map.mp hn
  simp [lookupSec_mem l hnd s hs]

theorem deReloc_ser (secs : List Section) (hnd : (secs.map (·.name)).Nodup) (r : Reloc)
    (h : r.sect ∈ secs.map (·.name)) : deReloc secs (serReloc r) = .ok r := by
  simp [deReloc, serReloc, getKey, lookup, pyInt, asStr, makeNumJ, makeNum_pyHex, lookupSec_name secs hnd r.sect h]

theorem deSymbol_ser (s : Symbol) (h : s.value = none → s.sect = none) : deSymbol (serSymbol s) = .ok s := by
  obtain ⟨id, name, binding, value, sect, typ, size⟩ := s
  cases value with
  | none =>
    have : sect = none := h rfl
    subst this
    simp [deSymbol, serSymbol, getKey, lookup, Json.get?, pyInt, asStr]
  | some v =>
    cases sect <;>
      simp [deSymbol, serSymbol, getKey, lookup, Json.get?, pyInt, asStr, makeNumJ, makeNum_pyHex, asOptStr, optStrJ]

theorem addSymbols_ser (l acc : List Symbol) (hp : (acc ++ l).Pairwise SymCompat)
    (hu : ∀ s ∈ l, s.value = none → s.sect = none) :
    addSymbols (l.map serSymbol) acc = .ok (acc ++ l) := by
  induction l generalizing acc with
  | nil => simp [addSymbols]
  | cons s rest ih =>
    have hcross : ∀ a ∈ acc, SymCompat a s := by
      intro a ha
      have := (List.pairwise_append.mp hp).2.2 a ha s (by simp)
      exact this
    have h2 : (acc.any fun t => decide (t.id = s.id)) = false := by
      rw [List.any_eq_false]
      intro a ha
      simp only [decide_eq_true_eq]
      exact (hcross a ha).1
    have hp' : ((acc ++ [s]) ++ rest).Pairwise SymCompat := by simpa using hp
    have hrec := ih (acc ++ [s]) hp' (fun x hx => hu x (by simp [hx]))
    simp only [List.map_cons, addSymbols, deSymbol_ser s (hu s (by simp)), bind_ok, h2]
    by_cases hg : s.binding = kGlobal
    · have hno : ∀ x ∈ acc, x.binding = kGlobal → ¬ x.name = s.name :=
        fun x hx hb hn => (hcross x hx).2 ⟨hb, hg, hn⟩
      simp [hrec]
      exact fun _ => hno
    · simp [hg, hrec]

theorem deImage_ser (secs : List Section) (hnd : (secs.map (·.name)).Nodup) (i : Image)
    (h : ∀ s ∈ i.sections, s ∈ secs) : deImage secs (serImage i) = .ok i := by
  have hs : mapE (resolveSection secs) (i.sections.map (fun s => Json.str s.name)) = .ok i.sections := by
    apply mapE_map_id
    intro s hs
    simp [resolveSection, asStr, lookupSec_mem secs hnd s (h s hs)]
  simp only [deImage, serImage, getKey, lookup, String.reduceEq, if_true, if_false, bind_ok, asStr, makeNumJ,
    makeNum_pyHex, asArr, hs, pure_eq_ok]

/-- the lookups `deserialize` performs on a serialised object -/
theorem serialize_keys (o : Obj) :
    getKey (serialize o) "arch" = .ok (.str o.arch) ∧
    (serialize o).get? "entry_symbol_id" = o.entry.map Json.num ∧
    getKey (serialize o) "sections" = .ok (.arr (o.sections.map serSection)) ∧
    getKey (serialize o) "relocations" = .ok (.arr (o.relocations.map serReloc)) ∧
    getKey (serialize o) "symbols" = .ok (.arr (o.symbols.map serSymbol)) ∧
    getKey (serialize o) "images" = .ok (.arr (o.images.map serImage)) ∧
    (serialize o).get? "debug" = o.debug.map serDebug := by
  obtain ⟨arch, entry, sections, symbols, relocations, images, debug⟩ := o
  cases entry <;> cases debug <;> simp [serialize, getKey, lookup, Json.get?]

/-- `deserialize(serialize(o))` rebuilds `o` -/
theorem deserialize_serialize (o : Obj) (wf : WF o)
    (hload : ∀ d, o.debug = some d → loadable d = true) : deserialize (serialize o) = .ok o := by
  obtain ⟨k1, k2, k3, k4, k5, k6, k7⟩ := serialize_keys o
  have hsec : mapE deSection (o.sections.map serSection) = .ok o.sections :=
    mapE_map_id _ _ _ (fun s hs => deSection_ser s (wf.secBytes s hs))
  have hrel : mapE (deReloc o.sections) (o.relocations.map serReloc) = .ok o.relocations :=
    mapE_map_id _ _ _ (fun r hr => deReloc_ser o.sections wf.secNames r (wf.relocSections r hr))
  have hsym : addSymbols (o.symbols.map serSymbol) [] = .ok o.symbols := by
    simpa using addSymbols_ser o.symbols [] (by simpa using wf.symbols) wf.undefNoSection
  have himg : mapE (deImage o.sections) (o.images.map serImage) = .ok o.images :=
    mapE_map_id _ _ _ (fun i hi => deImage_ser o.sections wf.secNames i (wf.imageSections i hi))
  unfold deserialize
  simp only [k1, k2, k3, k4, k5, k6, k7, bind_ok, asStr, asArr, hsec, hrel, hsym, himg]
  obtain ⟨arch, entry, sections, symbols, relocations, images, debug⟩ := o
  cases entry <;> cases debug with
  | none => simp
  | some d =>
    have := deDebug_serDebug d (wf.debugRefs d rfl) (hload d rfl)
    simp [this, Except.map]

/-- `Archive.load(Archive.save(a))` rebuilds every member -/
theorem archiveLoad_save (a : Archive) (h : ∀ o ∈ a.objs, WF o ∧ ∀ d, o.debug = some d → loadable d = true) :
    archiveLoad (archiveSave a) = .ok a := by
  have : mapE deserialize (a.objs.map serialize) = .ok a.objs :=
    mapE_map_id _ _ _ (fun o ho => deserialize_serialize o (h o ho).1 (h o ho).2)
  simp [archiveLoad, archiveSave, getKey, lookup, asArr, this]

end Proofs.ObjSer
