import PpciVerif.Proofs.LinkerIff
/-! Helper lemmas for C12: what a *successful* link implies, for ALL requests (no
well-formedness): the defined global names are distinct, every referenced global is defined
(non-partial link), and every memory has room for what the abstract placement says it needs. -/
namespace Proofs.Linker
open Model.Linker
open Spec.Link (Env envOfPieces placeLayout placeMemory placeInputs placeInput PState MemPlan memDefs placedNames memories
  definedNames referencedNames objDefs objGlobals pieces plans inputSymDef inputPlaced DupGlobal UndefGlobal Overfull)

/-! ### symbols -/

theorem fresh_single_iff (D : List String) (s : Symbol) :
    Fresh D (symDefs [s]) ↔ ¬ (s.isGlobal = true ∧ s.value.isSome = true ∧ s.name ∈ D) := by
  rw [symDefs_single]
  by_cases h : s.isGlobal = true ∧ s.value.isSome = true
  · simp [Fresh, h]
  · simp only [if_neg h, Fresh]
    constructor
    · intro _ hc; exact h ⟨hc.1, hc.2.1⟩
    · intro _; simp

theorem shiftSymbol_shiftable {offs : List (String × Nat)} {s : Symbol} {p : Option Nat × Option String}
    (h : shiftSymbol offs s = .ok p) : Shiftable offs s := by
  unfold shiftSymbol at h
  cases hv : s.value with
  | none => exact Or.inl hv
  | some v =>
    right
    simp only [hv] at h
    cases hn : s.sect with
    | none => simp [hn] at h
    | some n =>
      simp only [hn] at h
      cases ho : dictGet offs n with
      | none => simp [ho] at h
      | some o => exact ⟨n, rfl, by rw [ho]; rfl⟩

theorem injectOneSymbol_tab {offs : List (String × Nat)} {syms syms' : List Symbol} {s : Symbol} {id : Nat}
    {G D : List String} (h : injectOneSymbol offs syms s = .ok (syms', id)) (t : Tab syms G D) :
    Fresh D (symDefs [s]) ∧ Tab syms' (G ++ symGlobals [s]) (D ++ symDefs [s]) := by
  have hsh : Shiftable offs s := by
    unfold injectOneSymbol at h
    cases hs : shiftSymbol offs s with
    | error e => simp [hs] at h
    | ok p => exact shiftSymbol_shiftable hs
  have ⟨r1, r2⟩ := injectOneSymbol_run t hsh
  by_cases hc : s.isGlobal = true ∧ s.value.isSome = true ∧ s.name ∈ D
  · rw [r1 hc] at h; cases h
  · obtain ⟨syms'', id', h', t'⟩ := r2 hc
    rw [h'] at h
    simp only [Except.ok.injEq, Prod.mk.injEq] at h
    rw [← h.1]
    exact ⟨(fresh_single_iff D s).2 hc, t'⟩

theorem injectSymbols_tab : ∀ {inps : List Symbol} {offs : List (String × Nat)} {syms syms' : List Symbol}
    {ids : List Nat} {G D : List String}, injectSymbols offs syms inps = .ok (syms', ids) → Tab syms G D →
    Fresh D (symDefs inps) ∧ Tab syms' (G ++ symGlobals inps) (D ++ symDefs inps)
  | [], offs, syms, syms', ids, G, D, h, t => by
    simp [injectSymbols] at h
    rw [← h.1]
    exact ⟨⟨by simp [symDefs], by simp [symDefs]⟩, t.congr (by simp [symGlobals]) (by simp [symDefs])⟩
  | s :: rest, offs, syms, syms', ids, G, D, h, t => by
    obtain ⟨syms1, id, ids2, h1, h2, _⟩ := injectSymbols_cons_inv h
    have ⟨f1, t1⟩ := injectOneSymbol_tab h1 t
    have ⟨f2, t2⟩ := injectSymbols_tab h2 t1
    rw [symDefs_cons, symGlobals_cons]
    exact ⟨fresh_cons_iff.2 ⟨f1, f2⟩, t2.congr (by simp [List.append_assoc]) (by simp [List.append_assoc])⟩

theorem mergeObjects_tab : ∀ {objs : List Obj} {dst dst' : Obj} {tr : List ObjTrace} {G D : List String},
    mergeObjects dst objs = .ok (dst', tr) → Tab dst.symbols G D →
    Fresh D (objs.flatMap objDefs) ∧ Tab dst'.symbols (G ++ objs.flatMap objGlobals) (D ++ objs.flatMap objDefs)
  | [], dst, dst', tr, G, D, h, t => by
    rw [(mergeObjects_nil_inv h).1]
    exact ⟨⟨by simp, by simp⟩, t.congr (by simp) (by simp)⟩
  | o :: rest, dst, dst', tr, G, D, h, t => by
    obtain ⟨dst1, t1, ts, h1, h2, _⟩ := mergeObjects_cons_inv h
    have ⟨f1, tab1⟩ := injectSymbols_tab (injectObject_inv h1).2.1 t
    have ⟨f2, tab2⟩ := mergeObjects_tab h2 tab1
    simp only [List.flatMap_cons]
    exact ⟨fresh_cons_iff.2 ⟨f1, f2⟩, tab2.congr (by simp [List.append_assoc, objGlobals_eq])
      (by simp [List.append_assoc, objDefs_eq])⟩

theorem addExtras_tab {xs : List (String × Nat)} {d d' : Obj} {G D : List String}
    (h : addExtras d xs = .ok d') (t : Tab d.symbols G D) :
    Fresh G (xs.map (·.1)) ∧ Tab d'.symbols (G ++ xs.map (·.1)) (D ++ xs.map (·.1)) := by
  have ⟨a1, a2⟩ := addExtras_run (xs := xs) t
  by_cases hf : Fresh G (xs.map (·.1))
  · obtain ⟨d'', h', t', _, _⟩ := a2 hf
    rw [h'] at h
    simp only [Except.ok.injEq] at h
    rw [← h]; exact ⟨hf, t'⟩
  · rw [a1 hf] at h; cases h

/-! ### layout: symbols only -/

theorem layoutInput_tab {st st' : LState} {i : MemInput} {G D : List String}
    (h : layoutInput st i = .ok st') (t : Tab st.syms G D) :
    Fresh D (symDefList i) ∧ Tab st'.syms (G ++ symDefList i) (D ++ symDefList i) := by
  have hnil : ∀ {j : MemInput}, inputSymDef j = none → st'.syms = st.syms →
      Fresh D (symDefList j) ∧ Tab st'.syms (G ++ symDefList j) (D ++ symDefList j) := by
    intro j hj e
    rw [e]
    simp only [symDefList, hj, Option.toList_none, List.append_nil]
    exact ⟨⟨by simp, by simp⟩, t⟩
  cases i with
  | sect n =>
    simp only [layoutInput] at h
    split at h
    · cases h
    · simp only [Except.ok.injEq] at h; subst h; exact hnil rfl rfl
  | sectData n =>
    simp only [layoutInput] at h
    split at h
    · cases h
    · split at h
      · cases h
      · simp only [Except.ok.injEq] at h; subst h; exact hnil rfl rfl
  | align a =>
    simp only [layoutInput] at h
    split at h
    · cases h
    · simp only [Except.ok.injEq] at h; subst h; exact hnil rfl rfl
  | symDef sname =>
    simp only [layoutInput] at h
    split at h
    · cases h
    · split at h
      · cases h
      · rename_i syms' gid hmg
        simp only [Except.ok.injEq] at h
        subst h
        have ⟨r1, r2⟩ := mergeGlobal_run t sname (some (dollarName sname)) (some 0) "object" 0
        by_cases hc : (some 0 : Option Nat).isSome = true ∧ sname ∈ D
        · rw [r1 hc] at hmg; cases hmg
        · obtain ⟨syms'', id', h', t'⟩ := r2 hc
          rw [h'] at hmg
          simp only [Except.ok.injEq, Prod.mk.injEq] at hmg
          simp only
          rw [← hmg.1]
          refine ⟨by simp [Fresh, symDefList, inputSymDef]; simpa using hc,
            t'.congr (by simp [symDefList, inputSymDef]) (by simp [symDefList, inputSymDef, addIf])⟩

theorem layoutInputs_tab : ∀ {inputs : List MemInput} {st st' : LState} {G D : List String},
    layoutInputs st inputs = .ok st' → Tab st.syms G D →
    Fresh D (inputs.filterMap inputSymDef) ∧
      Tab st'.syms (G ++ inputs.filterMap inputSymDef) (D ++ inputs.filterMap inputSymDef)
  | [], st, st', G, D, h, t => by
    simp [layoutInputs] at h; subst h
    exact ⟨⟨by simp, by simp⟩, t.congr (by simp) (by simp)⟩
  | i :: rest, st, st', G, D, h, t => by
    obtain ⟨st1, h1, h2⟩ := layoutInputs_cons_inv h
    have ⟨f1, t1⟩ := layoutInput_tab h1 t
    have ⟨f2, t2⟩ := layoutInputs_tab h2 t1
    rw [filterMap_symDef_cons]
    exact ⟨fresh_cons_iff.2 ⟨f1, f2⟩, t2.congr (by simp [List.append_assoc]) (by simp [List.append_assoc])⟩

theorem layoutMemory_tab {dst dst' : Obj} {m : Memory} {G D : List String}
    (h : layoutMemory dst m = .ok dst') (t : Tab dst.symbols G D) :
    Fresh D (memDefs m) ∧ Tab dst'.symbols (G ++ memDefs m) (D ++ memDefs m) := by
  unfold layoutMemory at h
  cases h1 : layoutInputs { secs := dst.sections, syms := dst.symbols, cur := m.location, placed := [] } m.inputs with
  | error e => simp [h1] at h
  | ok st =>
    simp only [h1] at h
    split at h
    · cases h
    · split at h
      · cases h
      · simp only [Except.ok.injEq] at h
        subst h
        exact layoutInputs_tab h1 t

theorem layoutSections_tab : ∀ {mems : List Memory} {dst dst' : Obj} {G D : List String},
    layoutSections dst mems = .ok dst' → Tab dst.symbols G D →
    Fresh D (mems.flatMap memDefs) ∧ Tab dst'.symbols (G ++ mems.flatMap memDefs) (D ++ mems.flatMap memDefs)
  | [], dst, dst', G, D, h, t => by
    simp [layoutSections] at h; subst h
    exact ⟨⟨by simp, by simp⟩, t.congr (by simp) (by simp)⟩
  | m :: rest, dst, dst', G, D, h, t => by
    obtain ⟨dst1, h1, h2⟩ := layoutSections_cons_inv h
    have ⟨f1, t1⟩ := layoutMemory_tab h1 t
    have ⟨f2, t2⟩ := layoutSections_tab h2 t1
    simp only [List.flatMap_cons]
    exact ⟨fresh_cons_iff.2 ⟨f1, f2⟩, t2.congr (by simp [List.append_assoc]) (by simp [List.append_assoc])⟩

/-- A successful link has distinct defined global names and (non-partial) no undefined global. -/
theorem link_ok_symbols {inp : LinkInput} {out : Obj} {tr : List ObjTrace} (h : linkT inp = .ok (out, tr)) :
    ¬ DupGlobal inp ∧ ¬ UndefGlobal inp := by
  obtain ⟨d1, d2, li⟩ := linkT_inv h
  obtain ⟨d0, h0, h1⟩ := li.init
  obtain ⟨d0', h0', tab0, _, _⟩ := initEntry_run (entryName inp)
  rw [h0] at h0'
  simp only [Except.ok.injEq] at h0'
  subst h0'
  have ⟨f1, tab1⟩ := addExtras_tab h1 tab0
  have ⟨f2, tab2⟩ := mergeObjects_tab li.merge tab1
  have ⟨f3, tab3⟩ := layoutSections_tab li.layout tab2
  have hdef : definedNames inp =
      inp.extras.map (·.1) ++ inp.objs.flatMap objDefs ++ (memories inp).flatMap memDefs := rfl
  have href : referencedNames inp = (entryName inp).toList ++ inp.objs.flatMap objGlobals := rfl
  have hnodup : (definedNames inp).Nodup := by
    rw [hdef, ← fresh_nil_iff, List.append_assoc, fresh_cons_iff, fresh_cons_iff, fresh_nil_iff]
    exact ⟨f1.1, by simpa using f2, by simpa using f3⟩
  refine ⟨fun hd => hd hnodup, fun hu => ?_⟩
  obtain ⟨hp, n, hn, hd⟩ := hu
  have hund := li.undef hp
  have : hasUndefined out.symbols = true := by
    rw [hasUndefined_iff tab3.uniq]
    refine ⟨n, (tab3.names n).2 ?_, fun hc => hd ?_⟩
    · rw [href] at hn
      simp only [List.mem_append] at hn ⊢
      rcases hn with hn | hn
      · exact Or.inl (Or.inl (Or.inl hn))
      · exact Or.inl (Or.inr hn)
    · have := (tab3.defs n).1 hc
      rw [hdef]; simpa using this
  rw [hund] at this; cases this

/-! ### layout: a successful model run stays within the abstract plan -/

theorem layoutInput_sim_inv {base : Nat} {st st' : LState} {pst pst' : PState} {i : MemInput} {G D : List String}
    (h : layoutInput st i = .ok st') (hp : placeInput pst i = some pst') (sim : LSim base st pst)
    (tab : Tab st.syms G D) :
    LSim base st' pst' ∧ Tab st'.syms (G ++ symDefList i) (D ++ symDefList i) := by
  have ⟨r1, r2⟩ := layoutInput_sim sim tab hp
  by_cases hf : Fresh D (symDefList i)
  · obtain ⟨st'', h', sim', tab'⟩ := r2 hf
    rw [h'] at h
    simp only [Except.ok.injEq] at h
    rw [← h]; exact ⟨sim', tab'⟩
  · rw [r1 hf] at h; cases h

theorem layoutInputs_sim_inv : ∀ {inputs : List MemInput} {base : Nat} {st st' : LState} {pst pst' : PState}
    {G D : List String}, layoutInputs st inputs = .ok st' → placeInputs pst inputs = some pst' →
    LSim base st pst → Tab st.syms G D → LSim base st' pst'
  | [], base, st, st', pst, pst', G, D, h, hp, sim, _ => by
    simp [layoutInputs] at h; simp [placeInputs] at hp
    rw [← h, ← hp]; exact sim
  | i :: rest, base, st, st', pst, pst', G, D, h, hp, sim, tab => by
    obtain ⟨st1, h1, h2⟩ := layoutInputs_cons_inv h
    obtain ⟨pst1, hp1, hp2⟩ := placeInputs_cons_inv hp
    have ⟨sim1, tab1⟩ := layoutInput_sim_inv h1 hp1 sim tab
    exact layoutInputs_sim_inv h2 hp2 sim1 tab1

theorem layoutMemory_sim_inv {dst dst' : Obj} {m : Memory} {env env' : Env} {plan : MemPlan} {G D : List String}
    (h : layoutMemory dst m = .ok dst') (hp : placeMemory env m = some (env', plan))
    (sim : SimEnv dst.sections env) (tab : Tab dst.symbols G D) :
    plan.need ≤ m.size ∧ SimEnv dst'.sections env' := by
  unfold placeMemory at hp
  cases hpi : placeInputs { env := env, cur := m.location, last := m.location, placed := [] } m.inputs with
  | none => simp [hpi] at hp
  | some pst' =>
    simp only [hpi, Option.some.injEq, Prod.mk.injEq] at hp
    obtain ⟨e1, e2⟩ := hp
    subst e1; subst e2
    unfold layoutMemory at h
    cases h1 : layoutInputs { secs := dst.sections, syms := dst.symbols, cur := m.location, placed := [] } m.inputs with
    | error e => simp [h1] at h
    | ok st =>
      simp only [h1] at h
      have sim0 : LSim m.location { secs := dst.sections, syms := dst.symbols, cur := m.location, placed := [] }
          { env := env, cur := m.location, last := m.location, placed := [] } :=
        ⟨sim, rfl, by simp [resolve, chainEnd]⟩
      have simf := layoutInputs_sim_inv h1 hpi sim0 tab
      cases h2 : imageData st.secs { name := m.name, address := m.location, sections := st.placed } with
      | error e => simp [h2] at h
      | ok d =>
        simp only [h2] at h
        split at h
        · cases h
        · rename_i hsz
          simp only [Except.ok.injEq] at h
          subst h
          have hlen := (imageDataFrom_spec _ _ _ h2).1
          change d.length = chainEnd m.location (resolve st.secs st.placed) - m.location at hlen
          rw [← simf.last] at hlen
          exact ⟨by simp only; omega, simf.env⟩

theorem layoutSections_sim_inv : ∀ {mems : List Memory} {dst dst' : Obj} {env : Env} {ps : List MemPlan}
    {G D : List String}, layoutSections dst mems = .ok dst' → placeLayout env mems = some ps →
    SimEnv dst.sections env → Tab dst.symbols G D → Fits mems ps
  | [], dst, dst', env, ps, G, D, _, hp, _, _ => by
    simp [placeLayout] at hp; subst hp; simp [Fits]
  | m :: rest, dst, dst', env, ps, G, D, h, hp, sim, tab => by
    obtain ⟨dst1, h1, h2⟩ := layoutSections_cons_inv h
    obtain ⟨env1, p, ps', hp1, hp2, e⟩ := placeLayout_cons_inv hp
    subst e
    have ⟨hfit, sim1⟩ := layoutMemory_sim_inv h1 hp1 sim tab
    have ⟨_, tab1⟩ := layoutMemory_tab h1 tab
    have := layoutSections_sim_inv h2 hp2 sim1 tab1
    intro q hq
    simp only [List.zip_cons_cons, List.mem_cons] at hq
    rcases hq with e | hq
    · subst e; exact hfit
    · exact this q hq

/-- A successful link is not overfull. -/
theorem link_ok_fits {inp : LinkInput} {out : Obj} {tr : List ObjTrace} (h : linkT inp = .ok (out, tr)) :
    ¬ Overfull inp := by
  rintro ⟨ps, hps, q, hq, hgt⟩
  obtain ⟨d1, d2, li⟩ := linkT_inv h
  obtain ⟨d0, h0, h1⟩ := li.init
  obtain ⟨d0', h0', tab0, _, _⟩ := initEntry_run (entryName inp)
  rw [h0] at h0'
  simp only [Except.ok.injEq] at h0'
  subst h0'
  have ⟨_, tab1⟩ := addExtras_tab h1 tab0
  have ⟨_, tab2⟩ := mergeObjects_tab li.merge tab1
  have hsim : SimEnv d2.sections (envOfPieces [] (pieces inp)) := by
    have : SimEnv d1.sections [] := by rw [li.d1_secs]; exact SimEnv.nil
    exact SimEnv.mergeObjects this li.merge
  have := layoutSections_sim_inv li.layout hps hsim tab2 q hq
  omega

/-- The unconditional failure direction, for ALL requests. -/
theorem linkT_bad_fails (inp : LinkInput) (hbad : DupGlobal inp ∨ UndefGlobal inp ∨ Overfull inp) :
    ∃ e, linkT inp = .error e := by
  cases hl : linkT inp with
  | error e => exact ⟨e, rfl⟩
  | ok p =>
    obtain ⟨out, tr⟩ := p
    have ⟨a, b⟩ := link_ok_symbols hl
    have c := link_ok_fits hl
    rcases hbad with x | x | x
    · exact absurd x a
    · exact absurd x b
    · exact absurd x c

/-! ### small list facts used for two-stage links -/

theorem Occurs.trans {d' d b : List Nat} {off' off : Nat} (h1 : Occurs d' off' d) (h2 : Occurs d off b) :
    Occurs d' (off' + off) b := by
  obtain ⟨pre', post', e', l'⟩ := h1
  obtain ⟨pre, post, e, l⟩ := h2
  exact ⟨pre' ++ pre, post ++ post', by rw [e', e]; simp, by simp [l', l]⟩

theorem exists_zip_right {α β : Type} : ∀ {as : List α} {bs : List β} {a : α}, a ∈ as → as.length = bs.length →
    ∃ b, (a, b) ∈ as.zip bs
  | [], _, _, h, _ => by simp at h
  | _ :: _, [], _, _, hl => by simp at hl
  | x :: as, y :: bs, a, h, hl => by
    rcases List.mem_cons.1 h with e | h
    · subst e; exact ⟨y, by simp⟩
    · obtain ⟨b, hb⟩ := exists_zip_right h (by simpa using hl)
      exact ⟨b, by simp [hb]⟩

theorem getSec_mem {secs : List Section} {n : String} {s : Section} (h : getSec secs n = some s) : s ∈ secs :=
  List.mem_of_find?_eq_some h

end Proofs.Linker
