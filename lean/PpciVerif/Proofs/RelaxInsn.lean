import PpciVerif.Proofs.RelocRv2
import PpciVerif.Proofs.Relax
import PpciVerif.Spec.RV32
import PpciVerif.Model.RelaxLink
import Mathlib.Tactic.NormNum
/-! Lemmas for C13 on top of the C10/C11 relocation proofs (one module, see `Proofs.Relax`): the instruction that
`do_shrink` + the `bc_imm11` relocation produce, read with the independent decoder `Spec.RV32.decodeC`, the
unrelaxed `jal` read with `Spec.RV32.decode`, and one step of `do_relocations` on a shrunk site. -/
namespace Proofs.Relax

section RelaxInsnPart
open Model.Token Model.Reloc Proofs.Token Proofs.Reloc Spec.RelocSem
open Model.Relax (Shrink patch)

/-! ### the two decoders of the C.J offset agree -/

theorem immCJ_eq (h : Nat) : Spec.RV32.immCJ h = rvcJOffset h := by
  unfold Spec.RV32.immCJ rvcJOffset Spec.RV32.sext Spec.Bits.wrapS Spec.RV32.bits Spec.RelocSem.bits
  have a1 : h / 2 ^ 12 % 2 ^ 1 < 2 := Nat.mod_lt _ (by decide)
  have a2 : h / 2 ^ 11 % 2 ^ 1 < 2 := Nat.mod_lt _ (by decide)
  have a3 : h / 2 ^ 9 % 2 ^ 2 < 4 := Nat.mod_lt _ (by decide)
  have a4 : h / 2 ^ 8 % 2 ^ 1 < 2 := Nat.mod_lt _ (by decide)
  have a5 : h / 2 ^ 7 % 2 ^ 1 < 2 := Nat.mod_lt _ (by decide)
  have a6 : h / 2 ^ 6 % 2 ^ 1 < 2 := Nat.mod_lt _ (by decide)
  have a7 : h / 2 ^ 3 % 2 ^ 3 < 8 := Nat.mod_lt _ (by decide)
  have a8 : h / 2 ^ 2 % 2 ^ 1 < 2 := Nat.mod_lt _ (by decide)
  generalize h / 2 ^ 12 % 2 ^ 1 = x1 at a1 ⊢
  generalize h / 2 ^ 11 % 2 ^ 1 = x2 at a2 ⊢
  generalize h / 2 ^ 9 % 2 ^ 2 = x3 at a3 ⊢
  generalize h / 2 ^ 8 % 2 ^ 1 = x4 at a4 ⊢
  generalize h / 2 ^ 7 % 2 ^ 1 = x5 at a5 ⊢
  generalize h / 2 ^ 6 % 2 ^ 1 = x6 at a6 ⊢
  generalize h / 2 ^ 3 % 2 ^ 3 = x7 at a7 ⊢
  generalize h / 2 ^ 2 % 2 ^ 1 = x8 at a8 ⊢
  norm_num
  split <;> split <;> omega

theorem immJ_eq (w : Nat) : Spec.RV32.immJ w = rvJOffset w := by
  unfold Spec.RV32.immJ rvJOffset Spec.RV32.sext Spec.Bits.wrapS Spec.RV32.bits Spec.RelocSem.bits
  have a1 : w / 2 ^ 31 % 2 ^ 1 < 2 := Nat.mod_lt _ (by decide)
  have a2 : w / 2 ^ 12 % 2 ^ 8 < 256 := Nat.mod_lt _ (by decide)
  have a3 : w / 2 ^ 20 % 2 ^ 1 < 2 := Nat.mod_lt _ (by decide)
  have a4 : w / 2 ^ 21 % 2 ^ 10 < 1024 := Nat.mod_lt _ (by decide)
  generalize w / 2 ^ 31 % 2 ^ 1 = x1 at a1 ⊢
  generalize w / 2 ^ 12 % 2 ^ 8 = x2 at a2 ⊢
  generalize w / 2 ^ 20 % 2 ^ 1 = x3 at a3 ⊢
  generalize w / 2 ^ 21 % 2 ^ 10 = x4 at a4 ⊢
  norm_num
  split <;> split <;> omega

/-! ### what `do_shrink` leaves in the two bytes it keeps -/

theorem patch_eq (k : Shrink) (b0 b1 b2 b3 : Nat) :
    patch k [b0, b1, b2, b3] = [b0 - b0 % 4 + 1, b1 % 32 + 32 * k.funct3] := rfl

theorem funct3_cases (k : Shrink) : k.funct3 = 5 ∨ k.funct3 = 1 := by cases k <;> simp [Shrink.funct3]

theorem patch_facts (k : Shrink) {data : List Nat} (hlen : data.length = 4) (hb : Bytes data) :
    (patch k data).length = 2 ∧ Bytes (patch k data) ∧ fromLE (patch k data) < 2 ^ 16 ∧
    fromLE (patch k data) % 4 = 1 ∧ fromLE (patch k data) / 8192 % 8 = k.funct3 := by
  match data, hlen with
  | [b0, b1, b2, b3], _ =>
    have h0 : b0 < 256 := hb b0 (by simp)
    have h1 : b1 < 256 := hb b1 (by simp)
    rw [patch_eq]
    have hf := funct3_cases k
    refine ⟨rfl, ?_, ?_, ?_, ?_⟩
    · intro b hb'
      simp only [List.mem_cons, List.mem_nil_iff, or_false] at hb'
      rcases hb' with rfl | rfl <;> omega
    · simp only [fromLE]; omega
    · simp only [fromLE]; omega
    · simp only [fromLE]; omega

/-! ### fields of the C.J word that the relocation does not touch -/

theorem cjWord_keeps (w : Nat) (r : Int) :
    bits (cjWord w r) 0 2 = bits w 0 2 ∧ bits (cjWord w r) 13 3 = bits w 13 3 := by
  unfold cjWord
  constructor
  · wb_other; wb_other; wb_other; wb_other; wb_other; wb_other; wb_other; wb_other
  · wb_other; wb_other; wb_other; wb_other; wb_other; wb_other; wb_other; wb_other

theorem cjWord_lt (w : Nat) (r : Int) : cjWord w r < 2 ^ 16 := by
  unfold cjWord; exact writeBits_lt (stored_lt _ _) (by decide)

/-- the compressed instruction a shrink kind stands for -/
def cinstr : Shrink → Int → Spec.RV32.CInstr
  | .cj, off => .j off
  | .cjal, off => .jal off

/-- the register the compressed jump links: `c.j` = `jal x0`, `c.jal` = `jal ra` -/
def linkReg : Shrink → Nat
  | .cj => 0
  | .cjal => 1

theorem cinstr_expand (k : Shrink) (off : Int) : (cinstr k off).expand = .jal (linkReg k) off := by
  cases k <;> rfl

theorem decodeC_of_fields {h : Nat} (k : Shrink) (hlt : h < 2 ^ 16) (hop : h % 4 = 1) (hf3 : h / 8192 % 8 = k.funct3) :
    Spec.RV32.decodeC h = some (cinstr k (Spec.RV32.immCJ h)) := by
  have e1 : Spec.RV32.bits h 0 2 = 1 := by unfold Spec.RV32.bits; simpa using hop
  have e2 : Spec.RV32.bits h 13 3 = k.funct3 := by unfold Spec.RV32.bits; simpa using hf3
  unfold Spec.RV32.decodeC
  cases k with
  | cj => simp [e1, e2, Shrink.funct3, cinstr]; omega
  | cjal => simp [e1, e2, Shrink.funct3, cinstr]; omega

/-- THE SHRUNK INSTRUCTION: after `do_shrink` and the `bc_imm11` relocation the two bytes are, for the
    independent RV32C decoder, `c.j` / `c.jal` with exactly the offset `S - P` -/
theorem shrunk_decodes (k : Shrink) {data out : List Nat} {S P : Int} (hlen : data.length = 4) (hb : Bytes data)
    (h : Rvc.bcImm11 S (patch k data) P = .ok out) (hfit : Spec.Bits.fitsS 12 (S - P)) :
    out.length = 2 ∧ ∃ off, Spec.RV32.decodeC (wordLE out) = some (cinstr k off) ∧ P + off = S := by
  obtain ⟨pl, pb, plt, pop, pf3⟩ := patch_facts k hlen hb
  have ht := bcImm11_target pl pb h hfit
  obtain ⟨_, _, _, _, hout⟩ := bcImm11_ok pl pb h
  have hw : wordLE out = cjWord (fromLE (patch k data)) ((S - P) / 2 % 2 ^ 11) := by
    rw [hout, wordLE_eq, fromLE_toLE _ _ (cjWord_lt _ _)]
  obtain ⟨k1, k2⟩ := cjWord_keeps (fromLE (patch k data)) ((S - P) / 2 % 2 ^ 11)
  refine ⟨by rw [hout, length_toLE], Spec.RV32.immCJ (wordLE out), ?_, by rw [immCJ_eq]; exact ht⟩
  apply decodeC_of_fields k
  · rw [hw]; exact cjWord_lt _ _
  · rw [hw]
    have : bits (cjWord (fromLE (patch k data)) ((S - P) / 2 % 2 ^ 11)) 0 2 = fromLE (patch k data) % 4 := by
      rw [k1]; unfold bits; simp
    unfold bits at this
    simpa using this.trans pop
  · rw [hw]
    have : bits (cjWord (fromLE (patch k data)) ((S - P) / 2 % 2 ^ 11)) 13 3 = fromLE (patch k data) / 8192 % 8 := by
      rw [k2]; rfl
    have e : bits (cjWord (fromLE (patch k data)) ((S - P) / 2 % 2 ^ 11)) 13 3
        = cjWord (fromLE (patch k data)) ((S - P) / 2 % 2 ^ 11) / 8192 % 8 := rfl
    rw [← e, this]; exact pf3

/-! ### the unrelaxed instruction -/

theorem jWord_keeps (w : Nat) (r : Int) :
    bits (jWord w r) 0 7 = bits w 0 7 ∧ bits (jWord w r) 7 5 = bits w 7 5 := by
  unfold jWord
  constructor
  · wb_other; wb_other; wb_other; wb_other
  · wb_other; wb_other; wb_other; wb_other

theorem jWord_lt (w : Nat) (r : Int) : jWord w r < 2 ^ 32 := by
  unfold jWord; exact writeBits_lt (stored_lt _ _) (by decide)

/-- the 32-bit `jal rd` with a `cb_imm11` / `cbl_imm11` relocation applied is, for the independent RV32I
    decoder, `jal rd` with exactly the offset `S - P`; `rd` is the field of the unrelocated word -/
theorem unrelaxed_decodes {data out : List Nat} {S P : Int} (hlen : data.length = 4) (hb : Bytes data)
    (hop : fromLE data % 128 = 0x6f)
    (h : Rvc.cbImm11 S data P = .ok out) (hfit : Spec.Bits.fitsS 21 (S - P)) :
    ∃ off, Spec.RV32.decode (wordLE out) = some (.jal (fromLE data / 128 % 32) off) ∧ P + off = S := by
  have h' : Riscv.bImm20 S data P = .ok out := h
  have ht := bImm20_target hlen hb h' hfit
  obtain ⟨_, _, _, _, hout⟩ := bImm20_ok hlen hb h'
  have hw : wordLE out = jWord (fromLE data) ((S - P) / 2 % 2 ^ 20) := by
    rw [hout, wordLE_eq, fromLE_toLE _ _ (jWord_lt _ _)]
  obtain ⟨k1, k2⟩ := jWord_keeps (fromLE data) ((S - P) / 2 % 2 ^ 20)
  refine ⟨Spec.RV32.immJ (wordLE out), ?_, by rw [immJ_eq]; exact ht⟩
  have hn : ¬ 2 ^ 32 ≤ wordLE out := by rw [hw]; have := jWord_lt (fromLE data) ((S - P) / 2 % 2 ^ 20); omega
  have e1 : Spec.RV32.bits (wordLE out) 0 7 = 0x6f := by
    rw [hw]
    have : bits (jWord (fromLE data) ((S - P) / 2 % 2 ^ 20)) 0 7 = fromLE data % 128 := by
      rw [k1]; unfold bits; simp
    exact this.trans hop
  have e2 : Spec.RV32.bits (wordLE out) 7 5 = fromLE data / 128 % 32 := by
    rw [hw]
    exact k2
  unfold Spec.RV32.decode
  simp [e1, e2]
  omega

end RelaxInsnPart

section RelaxLinkPart
open Model.Linker Proofs.Linker Proofs.Reloc
open Model.Relax hiding Hole
open Model.RelaxLink

theorem splice_site {data new : List Nat} {off : Nat} (h : off + new.length ≤ data.length) :
    ((splice data off new).drop off).take new.length = new := by
  unfold splice
  have hl : (data.take off).length = off := by simp only [List.length_take]; omega
  rw [List.append_assoc, List.drop_append_of_le_length (by omega), List.drop_of_length_le (by omega)]
  simp

/-- `_do_relocation` of a `bc_imm11` entry on a site that holds the two bytes `do_shrink` kept of a `jal`:
    afterwards the site holds, for the independent RV32C decoder, `c.j` / `c.jal` to the symbol's address -/
theorem doRelocation_shrunk_site {o o2 : Obj} {r : Reloc} {sec : Section} {k : Shrink} {data : List Nat} {S : Nat}
    (h : doRelocation o r = .ok o2) (hty : r.typ = "bc_imm11")
    (hsec : getSec o.sections r.sect = some sec)
    (hS : getSymbolIdValue o r.symbolId = .ok S)
    (hlen : data.length = 4) (hb : Bytes data)
    (hsite : (sec.data.drop r.offset).take 2 = patch k data)
    (hfit : Spec.Bits.fitsS 12 ((S : Int) - ((sec.address + r.offset : Nat) : Int))) :
    ∃ sec2 off, getSec o2.sections r.sect = some sec2 ∧ sec2.address = sec.address ∧
      Spec.RV32.decodeC (Spec.RelocSem.wordLE ((sec2.data.drop r.offset).take 2)) = some (cinstr k off) ∧
      ((sec.address + r.offset : Nat) : Int) + off = S := by
  unfold doRelocation at h
  obtain ⟨S', hS', h⟩ := bind_ok h
  have : S' = S := by
    unfold liftL at hS'
    rw [hS] at hS'
    cases hS'; rfl
  subst this
  rw [hsec] at h
  simp only at h
  have hinfo : relocInfo r.typ = some ⟨2, none⟩ := by rw [hty]; decide
  rw [hinfo] at h
  obtain ⟨_, a1, h⟩ := bind_ok h
  rw [hsite] at h
  have happ : Model.Reloc.apply "riscv" r.typ r.addend (S' : Int) (patch k data) ((sec.address + r.offset : Nat) : Int)
      = some (Model.Reloc.Rvc.bcImm11 (S' : Int) (patch k data) ((sec.address + r.offset : Nat) : Int)) := by
    rw [hty]; rfl
  rw [happ] at h
  simp only at h
  cases hout : Model.Reloc.Rvc.bcImm11 (S' : Int) (patch k data) ((sec.address + r.offset : Nat) : Int) with
  | error e => rw [hout] at h; cases h
  | ok out =>
    rw [hout] at h
    simp only at h
    obtain ⟨_, a2, h⟩ := bind_ok h
    cases h
    obtain ⟨l2, off, hdec, htgt⟩ := shrunk_decodes k hlen hb hout hfit
    have hoff : r.offset + 2 ≤ sec.data.length := by
      have := congrArg List.length hsite
      rw [patch_length k data hlen] at this
      simp only [List.length_take, List.length_drop] at this
      omega
    refine ⟨{ sec with data := splice sec.data r.offset out }, off, ?_, rfl, ?_, htgt⟩
    · show getSec (updSec o.sections r.sect _) r.sect = _
      rw [getSec_updSec_same o.sections r.sect (fun s => { s with data := splice s.data r.offset out }) (fun s => rfl), hsec]
      rfl
    · simp only
      have := splice_site (data := sec.data) (new := out) (off := r.offset) (by rw [l2]; exact hoff)
      rw [l2] at this
      rw [this]
      exact hdec

end RelaxLinkPart

end Proofs.Relax
