import PpciVerif.Proofs.RVEncC0
/-! C08 Thm B, compressed classes, stage 2: per class, the model's parcel has the class's `op`/`funct3`
and the field-level decoder returns the instruction the class is meant to be. -/
set_option linter.unusedSimpArgs false
set_option linter.unusedVariables false
namespace Proofs.RVEnc
open Spec.RV32 Model.RVEnc

theorem decodeAny_comp {c : Cls} (hc : c.isC = true) (w : Nat) : decodeAny c.size w = (decodeC w).map .comp := by
  simp [decodeAny, Cls.size, hc]

theorem good_intro {c : Cls} {o : Ops} {w : Int} (he : enc c o = .ok w)
    (hd : ∀ w', w' = w → decodeAny c.size w'.toNat = some (meaning c o)) : Good c o := ⟨w, he, hd w rfl⟩

macro "pco" : tactic => `(tactic| (first | omega | (push_cast <;> omega)))
macro "absf" : tactic => `(tactic| (generalize hx : fld _ _ = x; have hb := fld_spec hx (by decide); push_cast at hb; clear hx))
macro "putc" : tactic => `(tactic| (rw [put_okf]; rotate_left; pco; pco; pco; simp only [bind, Except.bind]; absf))
macro "puts" : tactic => `(tactic| ((repeat putc); rw [put_okf] <;> pco))

theorem good_CSub (o : Ops) (h : valid .CSub o) : Good .CSub o := by
  simp only [valid, reg, regP, simm, uimm, Nat.reduceSub, Nat.reducePow] at h
  refine good_intro (c := .CSub) (o := o) (w := ?w) ?he ?hd
  case he =>
    unfold enc
    try unfold cRegReg
    try unfold cI
    try unfold cLS
    simp only []
    puts
  intro w hw
  push_cast at hw
  have hlt : w.toNat < 65536 := by omega
  have e1 : w.toNat % 4 = 1 := by omega
  have e2 : w.toNat / 8192 = 4 := by omega
  rw [decodeAny_comp rfl, fieldsC w.toNat, decodeC_asmC ⟨by omega, by omega, by omega, by omega, by omega⟩, e1, e2]
  simp [decodeCF, meaning, immCIF, immCJF, immCBF, sext]
  all_goals omega

theorem good_CXor (o : Ops) (h : valid .CXor o) : Good .CXor o := by
  simp only [valid, reg, regP, simm, uimm, Nat.reduceSub, Nat.reducePow] at h
  refine good_intro (c := .CXor) (o := o) (w := ?w) ?he ?hd
  case he =>
    unfold enc
    try unfold cRegReg
    try unfold cI
    try unfold cLS
    simp only []
    puts
  intro w hw
  push_cast at hw
  have hlt : w.toNat < 65536 := by omega
  have e1 : w.toNat % 4 = 1 := by omega
  have e2 : w.toNat / 8192 = 4 := by omega
  rw [decodeAny_comp rfl, fieldsC w.toNat, decodeC_asmC ⟨by omega, by omega, by omega, by omega, by omega⟩, e1, e2]
  simp [decodeCF, meaning, immCIF, immCJF, immCBF, sext]
  all_goals omega

theorem good_COr (o : Ops) (h : valid .COr o) : Good .COr o := by
  simp only [valid, reg, regP, simm, uimm, Nat.reduceSub, Nat.reducePow] at h
  refine good_intro (c := .COr) (o := o) (w := ?w) ?he ?hd
  case he =>
    unfold enc
    try unfold cRegReg
    try unfold cI
    try unfold cLS
    simp only []
    puts
  intro w hw
  push_cast at hw
  have hlt : w.toNat < 65536 := by omega
  have e1 : w.toNat % 4 = 1 := by omega
  have e2 : w.toNat / 8192 = 4 := by omega
  rw [decodeAny_comp rfl, fieldsC w.toNat, decodeC_asmC ⟨by omega, by omega, by omega, by omega, by omega⟩, e1, e2]
  simp [decodeCF, meaning, immCIF, immCJF, immCBF, sext]
  all_goals omega

theorem good_CAnd (o : Ops) (h : valid .CAnd o) : Good .CAnd o := by
  simp only [valid, reg, regP, simm, uimm, Nat.reduceSub, Nat.reducePow] at h
  refine good_intro (c := .CAnd) (o := o) (w := ?w) ?he ?hd
  case he =>
    unfold enc
    try unfold cRegReg
    try unfold cI
    try unfold cLS
    simp only []
    puts
  intro w hw
  push_cast at hw
  have hlt : w.toNat < 65536 := by omega
  have e1 : w.toNat % 4 = 1 := by omega
  have e2 : w.toNat / 8192 = 4 := by omega
  rw [decodeAny_comp rfl, fieldsC w.toNat, decodeC_asmC ⟨by omega, by omega, by omega, by omega, by omega⟩, e1, e2]
  simp [decodeCF, meaning, immCIF, immCJF, immCBF, sext]
  all_goals omega

theorem good_CSlli (o : Ops) (h : valid .CSlli o) : Good .CSlli o := by
  simp only [valid, reg, regP, simm, uimm, Nat.reduceSub, Nat.reducePow] at h
  refine good_intro (c := .CSlli) (o := o) (w := ?w) ?he ?hd
  case he =>
    unfold enc
    try unfold cRegReg
    try unfold cI
    try unfold cLS
    simp only []
    puts
  intro w hw
  push_cast at hw
  have hlt : w.toNat < 65536 := by omega
  have e1 : w.toNat % 4 = 2 := by omega
  have e2 : w.toNat / 8192 = 0 := by omega
  rw [decodeAny_comp rfl, fieldsC w.toNat, decodeC_asmC ⟨by omega, by omega, by omega, by omega, by omega⟩, e1, e2]
  simp [decodeCF, meaning, immCIF, immCJF, immCBF, sext]
  all_goals omega

theorem good_CSrli (o : Ops) (h : valid .CSrli o) : Good .CSrli o := by
  simp only [valid, reg, regP, simm, uimm, Nat.reduceSub, Nat.reducePow] at h
  refine good_intro (c := .CSrli) (o := o) (w := ?w) ?he ?hd
  case he =>
    unfold enc
    try unfold cRegReg
    try unfold cI
    try unfold cLS
    simp only []
    puts
  intro w hw
  push_cast at hw
  have hlt : w.toNat < 65536 := by omega
  have e1 : w.toNat % 4 = 1 := by omega
  have e2 : w.toNat / 8192 = 4 := by omega
  rw [decodeAny_comp rfl, fieldsC w.toNat, decodeC_asmC ⟨by omega, by omega, by omega, by omega, by omega⟩, e1, e2]
  simp [decodeCF, meaning, immCIF, immCJF, immCBF, sext]
  all_goals omega

theorem good_CSrai (o : Ops) (h : valid .CSrai o) : Good .CSrai o := by
  simp only [valid, reg, regP, simm, uimm, Nat.reduceSub, Nat.reducePow] at h
  refine good_intro (c := .CSrai) (o := o) (w := ?w) ?he ?hd
  case he =>
    unfold enc
    try unfold cRegReg
    try unfold cI
    try unfold cLS
    simp only []
    puts
  intro w hw
  push_cast at hw
  have hlt : w.toNat < 65536 := by omega
  have e1 : w.toNat % 4 = 1 := by omega
  have e2 : w.toNat / 8192 = 4 := by omega
  rw [decodeAny_comp rfl, fieldsC w.toNat, decodeC_asmC ⟨by omega, by omega, by omega, by omega, by omega⟩, e1, e2]
  simp [decodeCF, meaning, immCIF, immCJF, immCBF, sext]
  all_goals omega

theorem good_CAndi (o : Ops) (h : valid .CAndi o) : Good .CAndi o := by
  simp only [valid, reg, regP, simm, uimm, Nat.reduceSub, Nat.reducePow] at h
  refine good_intro (c := .CAndi) (o := o) (w := ?w) ?he ?hd
  case he =>
    unfold enc
    try unfold cRegReg
    try unfold cI
    try unfold cLS
    simp only []
    puts
  intro w hw
  push_cast at hw
  have hlt : w.toNat < 65536 := by omega
  have e1 : w.toNat % 4 = 1 := by omega
  have e2 : w.toNat / 8192 = 4 := by omega
  rw [decodeAny_comp rfl, fieldsC w.toNat, decodeC_asmC ⟨by omega, by omega, by omega, by omega, by omega⟩, e1, e2]
  simp [decodeCF, meaning, immCIF, immCJF, immCBF, sext]
  all_goals omega

theorem good_CAddi (o : Ops) (h : valid .CAddi o) : Good .CAddi o := by
  simp only [valid, reg, regP, simm, uimm, Nat.reduceSub, Nat.reducePow] at h
  refine good_intro (c := .CAddi) (o := o) (w := ?w) ?he ?hd
  case he =>
    unfold enc
    try unfold cRegReg
    try unfold cI
    try unfold cLS
    simp only []
    puts
  intro w hw
  push_cast at hw
  have hlt : w.toNat < 65536 := by omega
  have e1 : w.toNat % 4 = 1 := by omega
  have e2 : w.toNat / 8192 = 0 := by omega
  rw [decodeAny_comp rfl, fieldsC w.toNat, decodeC_asmC ⟨by omega, by omega, by omega, by omega, by omega⟩, e1, e2]
  simp [decodeCF, meaning, immCIF, immCJF, immCBF, sext]
  all_goals omega

theorem good_CNop (o : Ops) (h : valid .CNop o) : Good .CNop o := by
  simp only [valid, reg, regP, simm, uimm, Nat.reduceSub, Nat.reducePow] at h
  refine good_intro (c := .CNop) (o := o) (w := ?w) ?he ?hd
  case he =>
    unfold enc
    try unfold cRegReg
    try unfold cI
    try unfold cLS
    simp only []
    puts
  intro w hw
  push_cast at hw
  have hlt : w.toNat < 65536 := by omega
  have e1 : w.toNat % 4 = 1 := by omega
  have e2 : w.toNat / 8192 = 0 := by omega
  rw [decodeAny_comp rfl, fieldsC w.toNat, decodeC_asmC ⟨by omega, by omega, by omega, by omega, by omega⟩, e1, e2]
  simp [decodeCF, meaning, immCIF, immCJF, immCBF, sext]
  all_goals omega

theorem good_CEbreak (o : Ops) (h : valid .CEbreak o) : Good .CEbreak o := by
  simp only [valid, reg, regP, simm, uimm, Nat.reduceSub, Nat.reducePow] at h
  refine good_intro (c := .CEbreak) (o := o) (w := ?w) ?he ?hd
  case he =>
    unfold enc
    try unfold cRegReg
    try unfold cI
    try unfold cLS
    simp only []
    puts
  intro w hw
  push_cast at hw
  have hlt : w.toNat < 65536 := by omega
  have e1 : w.toNat % 4 = 2 := by omega
  have e2 : w.toNat / 8192 = 4 := by omega
  rw [decodeAny_comp rfl, fieldsC w.toNat, decodeC_asmC ⟨by omega, by omega, by omega, by omega, by omega⟩, e1, e2]
  simp [decodeCF, meaning, immCIF, immCJF, immCBF, sext]
  all_goals omega

theorem good_CMovr (o : Ops) (h : valid .CMovr o) : Good .CMovr o := by
  simp only [valid, reg, regP, simm, uimm, Nat.reduceSub, Nat.reducePow] at h
  refine good_intro (c := .CMovr) (o := o) (w := ?w) ?he ?hd
  case he =>
    unfold enc
    try unfold cRegReg
    try unfold cI
    try unfold cLS
    simp only []
    puts
  intro w hw
  push_cast at hw
  have hlt : w.toNat < 65536 := by omega
  have e1 : w.toNat % 4 = 2 := by omega
  have e2 : w.toNat / 8192 = 4 := by omega
  rw [decodeAny_comp rfl, fieldsC w.toNat, decodeC_asmC ⟨by omega, by omega, by omega, by omega, by omega⟩, e1, e2]
  simp [decodeCF, meaning, immCIF, immCJF, immCBF, sext]
  all_goals omega

theorem good_CJal (o : Ops) (h : valid .CJal o) : Good .CJal o := by
  simp only [valid, reg, regP, simm, uimm, Nat.reduceSub, Nat.reducePow] at h
  refine good_intro (c := .CJal) (o := o) (w := ?w) ?he ?hd
  case he =>
    unfold enc
    try unfold cRegReg
    try unfold cI
    try unfold cLS
    simp only []
    puts
  intro w hw
  push_cast at hw
  have hlt : w.toNat < 65536 := by omega
  have e1 : w.toNat % 4 = 1 := by omega
  have e2 : w.toNat / 8192 = 1 := by omega
  rw [decodeAny_comp rfl, fieldsC w.toNat, decodeC_asmC ⟨by omega, by omega, by omega, by omega, by omega⟩, e1, e2]
  simp [decodeCF, meaning, immCIF, immCJF, immCBF, sext]
  all_goals omega

theorem good_CJ (o : Ops) (h : valid .CJ o) : Good .CJ o := by
  simp only [valid, reg, regP, simm, uimm, Nat.reduceSub, Nat.reducePow] at h
  refine good_intro (c := .CJ) (o := o) (w := ?w) ?he ?hd
  case he =>
    unfold enc
    try unfold cRegReg
    try unfold cI
    try unfold cLS
    simp only []
    puts
  intro w hw
  push_cast at hw
  have hlt : w.toNat < 65536 := by omega
  have e1 : w.toNat % 4 = 1 := by omega
  have e2 : w.toNat / 8192 = 5 := by omega
  rw [decodeAny_comp rfl, fieldsC w.toNat, decodeC_asmC ⟨by omega, by omega, by omega, by omega, by omega⟩, e1, e2]
  simp [decodeCF, meaning, immCIF, immCJF, immCBF, sext]
  all_goals omega

theorem good_CJr (o : Ops) (h : valid .CJr o) : Good .CJr o := by
  simp only [valid, reg, regP, simm, uimm, Nat.reduceSub, Nat.reducePow] at h
  refine good_intro (c := .CJr) (o := o) (w := ?w) ?he ?hd
  case he =>
    unfold enc
    try unfold cRegReg
    try unfold cI
    try unfold cLS
    simp only []
    puts
  intro w hw
  push_cast at hw
  have hlt : w.toNat < 65536 := by omega
  have e1 : w.toNat % 4 = 2 := by omega
  have e2 : w.toNat / 8192 = 4 := by omega
  rw [decodeAny_comp rfl, fieldsC w.toNat, decodeC_asmC ⟨by omega, by omega, by omega, by omega, by omega⟩, e1, e2]
  simp [decodeCF, meaning, immCIF, immCJF, immCBF, sext]
  all_goals omega

theorem good_CJalr (o : Ops) (h : valid .CJalr o) : Good .CJalr o := by
  simp only [valid, reg, regP, simm, uimm, Nat.reduceSub, Nat.reducePow] at h
  refine good_intro (c := .CJalr) (o := o) (w := ?w) ?he ?hd
  case he =>
    unfold enc
    try unfold cRegReg
    try unfold cI
    try unfold cLS
    simp only []
    puts
  intro w hw
  push_cast at hw
  have hlt : w.toNat < 65536 := by omega
  have e1 : w.toNat % 4 = 2 := by omega
  have e2 : w.toNat / 8192 = 4 := by omega
  rw [decodeAny_comp rfl, fieldsC w.toNat, decodeC_asmC ⟨by omega, by omega, by omega, by omega, by omega⟩, e1, e2]
  simp [decodeCF, meaning, immCIF, immCJF, immCBF, sext]
  all_goals omega

theorem good_CBeqz (o : Ops) (h : valid .CBeqz o) : Good .CBeqz o := by
  simp only [valid, reg, regP, simm, uimm, Nat.reduceSub, Nat.reducePow] at h
  refine good_intro (c := .CBeqz) (o := o) (w := ?w) ?he ?hd
  case he =>
    unfold enc
    try unfold cRegReg
    try unfold cI
    try unfold cLS
    simp only []
    puts
  intro w hw
  push_cast at hw
  have hlt : w.toNat < 65536 := by omega
  have e1 : w.toNat % 4 = 1 := by omega
  have e2 : w.toNat / 8192 = 6 := by omega
  rw [decodeAny_comp rfl, fieldsC w.toNat, decodeC_asmC ⟨by omega, by omega, by omega, by omega, by omega⟩, e1, e2]
  simp [decodeCF, meaning, immCIF, immCJF, immCBF, sext]
  all_goals omega

theorem good_CBnez (o : Ops) (h : valid .CBnez o) : Good .CBnez o := by
  simp only [valid, reg, regP, simm, uimm, Nat.reduceSub, Nat.reducePow] at h
  refine good_intro (c := .CBnez) (o := o) (w := ?w) ?he ?hd
  case he =>
    unfold enc
    try unfold cRegReg
    try unfold cI
    try unfold cLS
    simp only []
    puts
  intro w hw
  push_cast at hw
  have hlt : w.toNat < 65536 := by omega
  have e1 : w.toNat % 4 = 1 := by omega
  have e2 : w.toNat / 8192 = 7 := by omega
  rw [decodeAny_comp rfl, fieldsC w.toNat, decodeC_asmC ⟨by omega, by omega, by omega, by omega, by omega⟩, e1, e2]
  simp [decodeCF, meaning, immCIF, immCJF, immCBF, sext]
  all_goals omega

theorem good_CLw (o : Ops) (h : valid .CLw o) : Good .CLw o := by
  simp only [valid, reg, regP, simm, uimm, Nat.reduceSub, Nat.reducePow] at h
  refine good_intro (c := .CLw) (o := o) (w := ?w) ?he ?hd
  case he =>
    unfold enc
    try unfold cRegReg
    try unfold cI
    try unfold cLS
    simp only []
    puts
  intro w hw
  push_cast at hw
  have hlt : w.toNat < 65536 := by omega
  have e1 : w.toNat % 4 = 0 := by omega
  have e2 : w.toNat / 8192 = 2 := by omega
  rw [decodeAny_comp rfl, fieldsC w.toNat, decodeC_asmC ⟨by omega, by omega, by omega, by omega, by omega⟩, e1, e2]
  simp [decodeCF, meaning, immCIF, immCJF, immCBF, sext]
  all_goals omega

theorem good_CSw (o : Ops) (h : valid .CSw o) : Good .CSw o := by
  simp only [valid, reg, regP, simm, uimm, Nat.reduceSub, Nat.reducePow] at h
  refine good_intro (c := .CSw) (o := o) (w := ?w) ?he ?hd
  case he =>
    unfold enc
    try unfold cRegReg
    try unfold cI
    try unfold cLS
    simp only []
    puts
  intro w hw
  push_cast at hw
  have hlt : w.toNat < 65536 := by omega
  have e1 : w.toNat % 4 = 0 := by omega
  have e2 : w.toNat / 8192 = 6 := by omega
  rw [decodeAny_comp rfl, fieldsC w.toNat, decodeC_asmC ⟨by omega, by omega, by omega, by omega, by omega⟩, e1, e2]
  simp [decodeCF, meaning, immCIF, immCJF, immCBF, sext]
  all_goals omega

theorem good_CLwsp (o : Ops) (h : valid .CLwsp o) : Good .CLwsp o := by
  simp only [valid, reg, regP, simm, uimm, Nat.reduceSub, Nat.reducePow] at h
  refine good_intro (c := .CLwsp) (o := o) (w := ?w) ?he ?hd
  case he =>
    unfold enc
    try unfold cRegReg
    try unfold cI
    try unfold cLS
    simp only []
    puts
  intro w hw
  push_cast at hw
  have hlt : w.toNat < 65536 := by omega
  have e1 : w.toNat % 4 = 2 := by omega
  have e2 : w.toNat / 8192 = 2 := by omega
  rw [decodeAny_comp rfl, fieldsC w.toNat, decodeC_asmC ⟨by omega, by omega, by omega, by omega, by omega⟩, e1, e2]
  simp [decodeCF, meaning, immCIF, immCJF, immCBF, sext]
  all_goals omega

theorem good_CAddi4spn (o : Ops) (h : valid .CAddi4spn o) : Good .CAddi4spn o := by
  simp only [valid, reg, regP, simm, uimm, Nat.reduceSub, Nat.reducePow] at h
  refine good_intro (c := .CAddi4spn) (o := o) (w := ?w) ?he ?hd
  case he =>
    unfold enc
    try unfold cRegReg
    try unfold cI
    try unfold cLS
    simp only []
    puts
  intro w hw
  push_cast at hw
  have hlt : w.toNat < 65536 := by omega
  have e1 : w.toNat % 4 = 0 := by omega
  have e2 : w.toNat / 8192 = 0 := by omega
  rw [decodeAny_comp rfl, fieldsC w.toNat, decodeC_asmC ⟨by omega, by omega, by omega, by omega, by omega⟩, e1, e2]
  simp [decodeCF, meaning, immCIF, immCJF, immCBF, sext]
  all_goals omega

theorem good_CAddi16sp (o : Ops) (h : valid .CAddi16sp o) : Good .CAddi16sp o := by
  simp only [valid, reg, regP, simm, uimm, Nat.reduceSub, Nat.reducePow] at h
  refine good_intro (c := .CAddi16sp) (o := o) (w := ?w) ?he ?hd
  case he =>
    unfold enc
    try unfold cRegReg
    try unfold cI
    try unfold cLS
    simp only []
    puts
  intro w hw
  push_cast at hw
  have hlt : w.toNat < 65536 := by omega
  have e1 : w.toNat % 4 = 1 := by omega
  have e2 : w.toNat / 8192 = 3 := by omega
  rw [decodeAny_comp rfl, fieldsC w.toNat, decodeC_asmC ⟨by omega, by omega, by omega, by omega, by omega⟩, e1, e2]
  simp [decodeCF, meaning, immCIF, immCJF, immCBF, sext]
  all_goals omega

theorem good_CSwsp (o : Ops) (h : valid .CSwsp o) : Good .CSwsp o := by
  simp only [valid, reg, regP, simm, uimm, Nat.reduceSub, Nat.reducePow] at h
  refine good_intro (c := .CSwsp) (o := o) (w := ?w) ?he ?hd
  case he =>
    unfold enc
    try unfold cRegReg
    try unfold cI
    try unfold cLS
    simp only []
    puts
  intro w hw
  push_cast at hw
  have hlt : w.toNat < 65536 := by omega
  have e1 : w.toNat % 4 = 2 := by omega
  have e2 : w.toNat / 8192 = 6 := by omega
  rw [decodeAny_comp rfl, fieldsC w.toNat, decodeC_asmC ⟨by omega, by omega, by omega, by omega, by omega⟩, e1, e2]
  simp [decodeCF, meaning, immCIF, immCJF, immCBF, sext]
  all_goals omega

theorem good_CLi (o : Ops) (h : valid .CLi o) : Good .CLi o := by
  simp only [valid, reg, regP, simm, uimm, Nat.reduceSub, Nat.reducePow] at h
  refine good_intro (c := .CLi) (o := o) (w := ?w) ?he ?hd
  case he =>
    unfold enc
    try unfold cRegReg
    try unfold cI
    try unfold cLS
    simp only []
    puts
  intro w hw
  push_cast at hw
  have hlt : w.toNat < 65536 := by omega
  have e1 : w.toNat % 4 = 1 := by omega
  have e2 : w.toNat / 8192 = 2 := by omega
  rw [decodeAny_comp rfl, fieldsC w.toNat, decodeC_asmC ⟨by omega, by omega, by omega, by omega, by omega⟩, e1, e2]
  simp [decodeCF, meaning, immCIF, immCJF, immCBF, sext]
  all_goals omega

theorem good_CLui (o : Ops) (h : valid .CLui o) : Good .CLui o := by
  simp only [valid, reg, regP, simm, uimm, Nat.reduceSub, Nat.reducePow] at h
  refine good_intro (c := .CLui) (o := o) (w := ?w) ?he ?hd
  case he =>
    unfold enc
    try unfold cRegReg
    try unfold cI
    try unfold cLS
    simp only []
    puts
  intro w hw
  push_cast at hw
  have hlt : w.toNat < 65536 := by omega
  have e1 : w.toNat % 4 = 1 := by omega
  have e2 : w.toNat / 8192 = 3 := by omega
  rw [decodeAny_comp rfl, fieldsC w.toNat, decodeC_asmC ⟨by omega, by omega, by omega, by omega, by omega⟩, e1, e2]
  simp [decodeCF, meaning, immCIF, immCJF, immCBF, sext]
  all_goals omega

end Proofs.RVEnc
