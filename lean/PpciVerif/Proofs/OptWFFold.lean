import Std.Data.String.ToNat
import PpciVerif.Proofs.OptWFIns
/-!
# Proofs.OptWFFold — the model of `ConstantFolder` keeps well-formedness (C03, P part)

`freshName_not_mem` : `Model.Opt.freshName f base` is not a name of `f`.
`wf_mapInstrs`      : a shape-preserving instruction rewrite keeps `wfFunc` when every rewritten instruction is
                      well typed and its uses are dominated at its position.
`wf_foldInstr`, `wf_constFold` : every successful step of `Model.Opt.constFold` keeps `wfFunc`.
-/
set_option linter.unusedSectionVars false
namespace Proofs.OptWFFold
open Spec.IR Spec.IRWF Proofs.IRGraph Proofs.IRWF Model.Opt Proofs.OptWF Proofs.OptWFDel Proofs.OptWFIns

/-! ## fresh names -/

def cand (base : String) (k : Nat) : String := s!"{base}_{k}"

theorem cand_inj (base : String) {j k : Nat} (h : cand base j = cand base k) : j = k := by
  have e1 : cand base j = base ++ "_" ++ toString j := rfl
  have e2 : cand base k = base ++ "_" ++ toString k := rfl
  rw [e1, e2, String.append_right_inj] at h
  exact Nat.repr_injective h

theorem nodup_cands (base : String) : ∀ n, ((List.range n).map (cand base)).Nodup := by
  intro n
  induction n with
  | zero => simp
  | succ n ih =>
    rw [List.range_succ, List.map_append, List.nodup_append]
    refine ⟨ih, by simp, ?_⟩
    intro a ha b hb e
    obtain ⟨j, hj, e1⟩ := List.mem_map.1 ha
    simp at hb
    subst e1 hb
    have := cand_inj base e
    have := List.mem_range.1 hj
    omega

theorem go_spec (base : String) (used : List String) : ∀ (fuel k : Nat),
    freshName.go base used fuel k ∉ used ∨
      ((∀ j, k ≤ j → j < k + fuel → cand base j ∈ used) ∧ freshName.go base used fuel k = cand base (k + fuel)) := by
  intro fuel
  induction fuel with
  | zero => intro k; right; exact ⟨fun j h1 h2 => by omega, rfl⟩
  | succ fuel ih =>
    intro k
    show (if used.contains (cand base k) then freshName.go base used fuel (k + 1) else cand base k) ∉ used ∨ _
    by_cases hc : used.contains (cand base k) = true
    · rw [if_pos hc]
      rcases ih (k + 1) with h | ⟨h1, h2⟩
      · exact Or.inl h
      · right
        refine ⟨fun j hj1 hj2 => ?_, ?_⟩
        · by_cases e : j = k
          · subst e; simpa using hc
          · exact h1 j (by omega) (by omega)
        · show (if used.contains (cand base k) then freshName.go base used fuel (k + 1) else cand base k) = _
          rw [if_pos hc, h2]; congr 1; omega
    · rw [if_neg hc]
      left; simpa using hc

theorem freshName_not_mem (f : Func) (base : String) : freshName f base ∉ allNames f := by
  unfold freshName
  simp only
  by_cases hb : (!(allNames f).contains base) = true
  · rw [if_pos hb]; simpa using hb
  · rw [if_neg hb]
    rcases go_spec base (allNames f) (allNames f).length 0 with h | ⟨h1, h2⟩
    · exact h
    · rw [h2]
      intro hin
      -- the `length + 1` pairwise different candidates all occur in a list of `length` names
      have hnd := nodup_cands base ((allNames f).length + 1)
      have hsub : ∀ x ∈ (List.range ((allNames f).length + 1)).map (cand base), x ∈ allNames f := by
        intro x hx
        obtain ⟨j, hj, e⟩ := List.mem_map.1 hx
        subst e
        have hj' : j < (allNames f).length + 1 := List.mem_range.1 hj
        by_cases e : j = (allNames f).length
        · subst e; simpa using hin
        · exact h1 j (by omega) (by omega)
      have := nodup_sub_length_le _ _ hnd hsub
      simp at this
      omega

theorem defs_names_eq (f : Func) : f.defs.map (·.name) = allNames f := defs_names f

/-! ## what `eval_const` returns -/

theorem defInstr_mem {f : Func} {x : String} {i : Instr} (h : defInstr f x = some i) :
    ∃ b ∈ f.blocks, i ∈ b.instrs ∧ dstName i = some x := by
  unfold defInstr at h
  obtain ⟨b, hb, hf⟩ := List.exists_of_findSome?_eq_some h
  exact ⟨b, hb, List.mem_of_find?_eq_some hf, by simpa using List.find?_some hf⟩

theorem constOk_of_typed {m : Module} {f : Func} {ds : List Def} {d : String} {t : Ty} {c : ConstVal}
    (h : instrTypesOk m f ds (.const d t c) = true) : constOk t c := by
  unfold instrTypesOk at h
  unfold constOk
  cases t <;> cases c <;> simp_all

theorem cfCast_ok {v : ConstVal} {t : Ty} {c : ConstVal} (h : cfCast v t = .ok c) : constOk t c := by
  unfold cfCast at h
  unfold constOk
  cases t with
  | int it =>
    cases v with
    | int x => simp at h; subst h; trivial
    | fbits b =>
      simp only [bind, Except.bind] at h
      cases hp : pyIntOfFloat b with
      | error e => simp [hp] at h
      | ok z => simp [hp, pure, Except.pure] at h; subst h; trivial
  | ptr =>
    cases v with
    | int x => simp at h; subst h; trivial
    | fbits b =>
      simp only [bind, Except.bind] at h
      cases hp : pyIntOfFloat b with
      | error e => simp [hp] at h
      | ok z => simp [hp, pure, Except.pure] at h; subst h; trivial
  | f32 => trivial
  | f64 => trivial
  | blob s a => simp at h

/-- `eval_const` of a value returns the type of that value and a payload that is a well-typed `Const` -/
theorem evalConst_spec {m : Module} {f : Func} (hw : wfFunc m f = true) {fuel : Nat} {d : String} {t : Ty}
    {c : ConstVal} (h : Model.Opt.evalConst f fuel (.loc d) = .ok (t, c)) :
    ∃ i, defInstr f d = some i ∧ i.dst? = some (d, t) ∧ constOk t c := by
  cases fuel with
  | zero => simp [Model.Opt.evalConst] at h
  | succ fuel =>
    unfold Model.Opt.evalConst at h
    simp only [opndDef] at h
    cases hdi : defInstr f d with
    | none => rw [hdi] at h; simp at h
    | some i =>
      rw [hdi] at h
      obtain ⟨b, hb, hi, hdn⟩ := defInstr_mem hdi
      have hty := typesOk_at hw hb hi
      refine ⟨i, rfl, ?_⟩
      cases i with
      | const d' t' c' =>
        simp only [Except.ok.injEq, Prod.mk.injEq] at h
        obtain ⟨e1, e2⟩ := h
        subst e1 e2
        simp [dstName, Instr.dst?] at hdn
        subst hdn
        exact ⟨rfl, constOk_of_typed hty⟩
      | binop d' t' op a b' =>
        simp [dstName, Instr.dst?] at hdn
        subst hdn
        simp only [bind, Except.bind] at h
        cases hea : Model.Opt.evalConst f fuel a with
        | error e => rw [hea] at h; simp at h
        | ok pa =>
          obtain ⟨ta, va⟩ := pa
          rw [hea] at h
          simp only at h
          cases heb : Model.Opt.evalConst f fuel b' with
          | error e => rw [heb] at h; simp at h
          | ok pb =>
            obtain ⟨tb, vb⟩ := pb
            rw [heb] at h
            simp only at h
            by_cases e1 : ta = tb
            · subst e1
              by_cases e2 : ta = t'
              · subst e2
                simp only [ne_eq, not_true_eq_false, if_false, pure, Except.pure, throw, throwThe,
                  MonadExceptOf.throw] at h
                split at h
                · rename_i g it x y hl
                  split at h
                  · simp only [Except.ok.injEq, Prod.mk.injEq] at h
                    obtain ⟨e3, e4⟩ := h
                    subst e3 e4
                    exact ⟨rfl, trivial⟩
                  · simp at h
                · simp at h
                · simp at h
              · simp [e2, throw, throwThe, MonadExceptOf.throw, pure, Except.pure] at h
            · simp [e1, throw, throwThe, MonadExceptOf.throw, pure, Except.pure] at h
      | cast d' t' a =>
        simp [dstName, Instr.dst?] at hdn
        subst hdn
        simp only [bind, Except.bind] at h
        cases hea : Model.Opt.evalConst f fuel a with
        | error e => rw [hea] at h; simp at h
        | ok pa =>
          obtain ⟨ta, va⟩ := pa
          rw [hea] at h
          simp only at h
          cases hcc : cfCast va t' with
          | error e => rw [hcc] at h; simp at h
          | ok c' =>
            rw [hcc] at h
            simp only [pure, Except.pure, Except.ok.injEq, Prod.mk.injEq] at h
            obtain ⟨e1, e2⟩ := h
            subst e1 e2
            exact ⟨rfl, cfCast_ok hcc⟩
      | _ => simp at h

/-! ## shape-preserving instruction rewrites -/

theorem instrTypesOk_ret {m : Module} {f f' : Func} (hret : f'.ret = f.ret) (ds : List Def) (i : Instr) :
    instrTypesOk m f' ds i = instrTypesOk m f ds i := by
  cases i <;> simp only [instrTypesOk, hret]

/-- A rewrite of instructions that keeps destinations, terminators, targets and phi keys keeps the function
    well-formed when every rewritten instruction is well typed and its operands are dominated at its position. -/
theorem wf_mapInstrs {m : Module} {f : Func} {h : Instr → Instr} (sp : ShapePres h) (hw : wfFunc m f = true)
    (hty : ∀ b ∈ f.blocks, ∀ i ∈ b.instrs, instrTypesOk m f f.defs (h i) = true)
    (huse : ∀ b ∈ f.blocks, ∀ k i, b.instrs[k]? = some i → ∀ o ∈ (h i).uses,
      useDominated f f.defs b.name k o = true)
    (hphi : ∀ b ∈ f.blocks, ∀ i ∈ b.instrs, ∀ q ∈ (h i).phiIns, phiUseDominated f f.defs q.1 q.2 = true) :
    wfFunc m (mapInstrs f h) = true := by
  rw [wfFunc_unfold] at hw ⊢
  obtain ⟨h1, h2, h3, h4, h5, h6, h7, h8, _, _⟩ := hw
  have hbn : (mapInstrs f h).blockNames = f.blockNames := by
    simp [Func.blockNames, mapInstrs, mapBlocks, List.map_map, Function.comp_def]
  rw [defs_mapInstrs sp, hbn, reach_mapInstrs sp]
  refine ⟨by simpa [mapInstrs, mapBlocks] using h1, ?_, h3, h4, ?_, ?_, h7, ?_, ?_, ?_⟩
  · simp only [mapInstrs, mapBlocks, List.head?_map, Option.map_map] at h2 ⊢
    exact h2
  · simp only [mapInstrs, mapBlocks, List.all_map, Function.comp_def, terminatedOk_map sp]
    exact h5
  · simp only [mapInstrs, mapBlocks, List.all_map, Function.comp_def, sp.targets]
    exact h6
  · simp only [mapInstrs, mapBlocks, List.all_map, Function.comp_def]
    refine List.all_eq_true.2 fun b hb => ?_
    have hb8 := List.all_eq_true.1 h8 b hb
    have hp := preds_mapInstrs sp f b.name
    simp only [mapInstrs, mapBlocks] at hp
    simp only [Block.phis, List.filter_map, List.all_map, Function.comp_def, sp.phiKeys, hp] at hb8 ⊢
    refine List.all_eq_true.2 fun i hi => ?_
    have : i ∈ List.filter Instr.isPhi b.instrs := by
      obtain ⟨hi1, hi2⟩ := List.mem_filter.1 hi
      simp only [sp.isPhi] at hi2
      exact List.mem_filter.2 ⟨hi1, hi2⟩
    exact List.all_eq_true.1 hb8 i this
  · simp only [mapInstrs, mapBlocks, List.all_map, Function.comp_def]
    refine List.all_eq_true.2 fun b hb => List.all_eq_true.2 fun i hi => ?_
    have e := instrTypesOk_ret (m := m) (f := f) (f' := mapInstrs f h) rfl f.defs (h i)
    simp only [mapInstrs, mapBlocks] at e
    rw [e]; exact hty b hb i hi
  · simp only [mapInstrs, mapBlocks, List.all_map, Function.comp_def]
    refine List.all_eq_true.2 fun b hb => ?_
    refine (instrsDominated_iff _ f.defs b.name _ 0).2 ?_
    intro j i' hj
    rw [List.getElem?_map] at hj
    cases hi : b.instrs[j]? with
    | none => rw [hi] at hj; cases hj
    | some i =>
      rw [hi] at hj
      simp only [Option.map_some, Option.some.injEq] at hj
      subst hj
      refine ⟨?_, ?_⟩
      · intro o ho
        have := huse b hb j i hi o ho
        have e2 := useDominated_mapInstrs sp f f.defs b.name (0 + j) o
        simp only [mapInstrs, mapBlocks] at e2
        rw [e2]; simpa using this
      · intro q hq
        have := hphi b hb i (List.mem_of_getElem? hi) q hq
        have e2 := phiUseDominated_mapInstrs sp f f.defs q.1 q.2
        simp only [mapInstrs, mapBlocks] at e2
        rw [e2]; exact this

/-- dominance of uses composes: if `y` is available where `a` is defined and `a` is available at `(bn, k)`,
    then `y` is available at `(bn, k)` -/
theorem useDominated_trans {m : Module} {f : Func} (hw : wfFunc m f = true) {a : String} {ta : Ty} {ab : String}
    {ai : Nat} {y : Operand} {b : Block} {k : Nat} (hb : b ∈ f.blocks)
    (hd : findDef f.defs a = some ⟨a, ta, some ab, ai⟩)
    (hdom : useDominated f f.defs ab ai y = true)
    (hu : useDominated f f.defs b.name k (.loc a) = true) : useDominated f f.defs b.name k y = true := by
  have hreach : (f.reach none).contains b.name = true := by
    have h7 := ((wfFunc_unfold m f).1 hw).2.2.2.2.2.2.1
    exact List.all_eq_true.1 h7 b.name (List.mem_map.2 ⟨b, hb, rfl⟩)
  simp only [useDominated, hd] at hu
  cases y with
  | glob g => rfl
  | loc x =>
    simp only [useDominated] at hdom ⊢
    cases hx : findDef f.defs x with
    | none => rw [hx] at hdom; cases hdom
    | some dx =>
      rw [hx] at hdom
      simp only at hdom ⊢
      cases hxb : dx.block with
      | none => rfl
      | some xb =>
        rw [hxb] at hdom
        simp only at hdom ⊢
        by_cases e1 : ab = b.name
        · rw [if_pos e1] at hu
          by_cases e2 : xb = ab
          · rw [if_pos e2] at hdom
            rw [if_pos (e2.trans e1)]
            simp only [decide_eq_true_eq] at hu hdom ⊢
            omega
          · rw [if_neg e2] at hdom
            rw [if_neg (by rw [← e1]; exact e2), ← e1]
            exact hdom
        · rw [if_neg e1] at hu
          by_cases e2 : xb = ab
          · rw [if_neg (by rw [e2]; exact e1), e2]
            exact hu
          · rw [if_neg e2] at hdom
            by_cases e3 : xb = b.name
            · exfalso
              rw [e3] at hdom
              exact e1 (dominates_antisymm hu hdom hreach)
            · rw [if_neg e3]
              exact dominates_trans hdom hu

/-! ## the two rewrites of `on_block` -/

section Rewrites
variable {m : Module} {f : Func} {bd : Block} {p : Nat} {i0 : Instr} {d : String} {ty : Ty}
  {n : String} {c : ConstVal}

/-- facts about the function after the insertion of `const n ty c` before the definition of `d` -/
theorem insert_facts (hw : wfFunc m f = true) (hb : bd ∈ f.blocks) (hi : bd.instrs[p]? = some i0)
    (hd : i0.dst? = some (d, ty)) (hn : n ∉ allNames f) (hc : constOk ty c) :
    let f1 := insertBefore f d (.const n ty c)
    wfFunc m f1 = true ∧
    ∃ b1 ∈ f1.blocks, b1.name = bd.name ∧ b1.instrs[p]? = some (.const n ty c) ∧ b1.instrs[p + 1]? = some i0 ∧
      f1 = insertAt f bd.name p (.const n ty c) := by
  have hW := (wfFunc_iff m f).1 hw
  have heq := insertBefore_eq hW hb hi hd (.const n ty c)
  have hW1 := WF_insertAt (n := n) (t := ty) (c := c) hW hb hi hd (by rw [defs_names_eq]; exact hn) hc
  have hplt := p_lt hW hb hi hd
  simp only
  rw [heq]
  refine ⟨(wfFunc_iff m _).2 hW1, _, mem_mapBlocks.2 ⟨bd, hb, rfl⟩, ?_, ?_, ?_, rfl⟩
  · rw [if_pos rfl]
  · rw [if_pos rfl]; exact getElem?_insAt_self bd.instrs p _ (Nat.le_of_lt hplt)
  · rw [if_pos rfl]
    have := getElem?_insAt_sh bd.instrs p (.const n ty c) p i0 (Nat.le_of_lt hplt) hi
    unfold sh at this
    rw [if_neg (Nat.lt_irrefl p)] at this
    exact this

/-- `value.replace_by(Const(..))` with the fresh constant inserted before the value -/
theorem wf_fold_const (hw : wfFunc m f = true) (hb : bd ∈ f.blocks) (hi : bd.instrs[p]? = some i0)
    (hd : i0.dst? = some (d, ty)) (hn : n ∉ allNames f) (hc : constOk ty c) :
    wfFunc m (subst (insertBefore f d (.const n ty c)) d (.loc n)) = true := by
  obtain ⟨hw1, b1, hb1, hname, hp0, hp1, _⟩ := insert_facts hw hb hi hd hn hc
  have fd := findDef_at hw1 hb1 hp1 hd
  have fn := findDef_at hw1 hb1 hp0 (d := n) (ty := ty) rfl
  refine wf_subst hw1 fd ?_ ?_ (Or.inl ⟨n, rfl⟩)
  · simp [opndTy, fn]
  · simp [useDominated, fn]

theorem mapInstrs_congr (f : Func) (g h : Instr → Instr) (e : ∀ b ∈ f.blocks, ∀ i ∈ b.instrs, g i = h i) :
    mapInstrs f g = mapInstrs f h := by
  unfold mapInstrs mapBlocks
  congr 1
  apply List.map_congr_left
  intro b hb
  congr 1
  exact List.map_congr_left (e b hb)

theorem phisDom_at (hw : wfFunc m f = true) {b : Block} {i : Instr} (hb : b ∈ f.blocks) (hi : i ∈ b.instrs) :
    ∀ q ∈ i.phiIns, phiUseDominated f f.defs q.1 q.2 = true := by
  obtain ⟨k, hk⟩ := List.getElem?_of_mem hi
  exact ((instrsDominated_iff f f.defs b.name b.instrs 0).1
    (List.all_eq_true.1 ((wfFunc_unfold m f).1 hw).2.2.2.2.2.2.2.2.2 b hb) k i hk).2

/-- the chain rewrite `(y op1 c1) op c2  →  y op c3` with the fresh constant `c3` inserted before it -/
theorem wf_fold_chain {t : Ty} {op op1 : BinOp} {a c2 y c1 : Operand} {x : String} {tx : Ty}
    (hw : wfFunc m f = true) (hb : bd ∈ f.blocks) (hi : bd.instrs[p]? = some (.binop d t op a c2))
    (ha : opndDef f a = some (.binop x tx op1 y c1)) (hn : n ∉ allNames f) (hc : constOk t c) :
    wfFunc m (replaceInstr (insertBefore f d (.const n t c)) d (.binop d t op y (.loc n))) = true := by
  have hd : (Instr.binop d t op a c2).dst? = some (d, t) := rfl
  obtain ⟨hw1, b1, hb1, hname, hp0, hp1, heq⟩ := insert_facts hw hb hi hd hn hc
  have hW := (wfFunc_iff m f).1 hw
  have nd := names_nodup hw
  have nd1 := names_nodup hw1
  -- facts about `a` and `y` in `f`
  have hty0 := typesOk_at hw hb (List.mem_of_getElem? hi)
  simp only [instrTypesOk, Bool.and_eq_true, decide_eq_true_eq, Bool.not_eq_true'] at hty0
  obtain ⟨⟨hblob, htya⟩, _⟩ := hty0
  cases a with
  | glob g => simp [opndDef] at ha
  | loc a' =>
    simp only [opndDef] at ha
    obtain ⟨ba, hba, hia, hdn⟩ := defInstr_mem ha
    have hx : x = a' := by simpa [dstName, Instr.dst?] using hdn
    subst hx
    obtain ⟨ka, hka⟩ := List.getElem?_of_mem hia
    have fda := findDef_at hw hba hka (d := x) (ty := tx) rfl
    have htx : tx = t := by simpa [opndTy, fda] using htya
    subst htx
    have htyA := typesOk_at hw hba hia
    simp only [instrTypesOk, Bool.and_eq_true, decide_eq_true_eq] at htyA
    have htyy : opndTy m f.defs y = some tx := htyA.1.2
    have hdomy : useDominated f f.defs bd.name p y = true :=
      useDominated_trans hw hb fda (usesDom_at hw hba hka y (by simp [Instr.uses]))
        (usesDom_at hw hb hi (.loc x) (by simp [Instr.uses]))
    -- the same facts in the function after the insertion
    have htyy1 : opndTy m (insertBefore f d (.const n tx c)).defs y = some tx := by
      rw [heq]
      exact (opndTy_iff (by rw [← heq]; exact nd1) y tx).2
        (hasTy_insert hW hb hi hd y tx ((opndTy_iff nd y tx).1 htyy))
    have hdomy1 : useDominated (insertBefore f d (.const n tx c)) (insertBefore f d (.const n tx c)).defs
        bd.name (p + 1) y = true := by
      rw [heq]
      have := useDominated_insert (n := n) (t := tx) (c := c) hW hb hi hd bd.name p y
        ((useDominated_iff nd bd.name p y).1 hdomy)
      have e : shB bd p bd.name p = p + 1 := by
        unfold shB sh; rw [if_pos rfl, if_neg (Nat.lt_irrefl p)]
      rw [e] at this
      exact (useDominated_iff (by rw [← heq]; exact nd1) bd.name (p + 1) y).2 this
    have fd1 := findDef_at hw1 hb1 hp1 hd
    have fn1 := findDef_at hw1 hb1 hp0 (d := n) (ty := tx) rfl
    -- the rewrite as a shape-preserving map
    let i0 : Instr := .binop d tx op (.loc x) c2
    let new : Instr := .binop d tx op y (.loc n)
    let h' : Instr → Instr := fun i => if i = i0 then new else i
    have sp : ShapePres h' := by
      refine ⟨?_, ?_, ?_, ?_, ?_⟩ <;> intro i <;> by_cases e : i = i0 <;> simp only [h', e, if_true, if_false] <;> rfl
    have huniq : ∀ b ∈ (insertBefore f d (.const n tx c)).blocks, ∀ k i, b.instrs[k]? = some i →
        dstName i = some d → i = i0 ∧ b.name = bd.name ∧ k = p + 1 := by
      intro b hbm k i hk hdn'
      cases hdi : i.dst? with
      | none => simp [dstName, hdi] at hdn'
      | some pr =>
        obtain ⟨d', ty'⟩ := pr
        have : d' = d := by simpa [dstName, hdi] using hdn'
        subst this
        have f2 := findDef_at hw1 hbm hk hdi
        rw [fd1] at f2
        simp only [Option.some.injEq, Def.mk.injEq] at f2
        obtain ⟨_, _, e3, e4⟩ := f2
        have d1 := defInstr_at hw1 hbm hk hdi
        have d2 := defInstr_at hw1 hb1 hp1 hd
        rw [d1] at d2
        exact ⟨Option.some.inj d2, by rw [← e3]; exact hname.symm ▸ rfl, e4.symm⟩
    have hrep : replaceInstr (insertBefore f d (.const n tx c)) d new =
        mapInstrs (insertBefore f d (.const n tx c)) h' := by
      unfold replaceInstr
      apply mapInstrs_congr
      intro b hbm i him
      obtain ⟨k, hk⟩ := List.getElem?_of_mem him
      by_cases e : dstName i = some d
      · rw [if_pos e]
        have := (huniq b hbm k i hk e).1
        simp only [h', this, if_true]
      · rw [if_neg e]
        have : i ≠ i0 := by
          intro e'; apply e; rw [e']; rfl
        simp only [h', this, if_false]
    show wfFunc m (replaceInstr (insertBefore f d (.const n tx c)) d new) = true
    rw [hrep]
    apply wf_mapInstrs sp hw1
    · intro b hbm i him
      by_cases e : i = i0
      · simp only [h', e, if_true, new, instrTypesOk, Bool.and_eq_true, decide_eq_true_eq, Bool.not_eq_true']
        exact ⟨⟨hblob, htyy1⟩, by simp [opndTy, fn1]⟩
      · simp only [h', e, if_false]; exact typesOk_at hw1 hbm him
    · intro b hbm k i hk o ho
      by_cases e : i = i0
      · simp only [h', e, if_true, new, Instr.uses, List.mem_cons, List.not_mem_nil, or_false] at ho
        obtain ⟨_, e2, e3⟩ := huniq b hbm k i hk (by rw [e]; rfl)
        rw [e2, e3]
        rcases ho with ho | ho
        · rw [ho]; exact hdomy1
        · rw [ho]; simp [useDominated, fn1, hname]
      · simp only [h', e, if_false] at ho
        exact usesDom_at hw1 hbm hk o ho
    · intro b hbm i him q hq
      by_cases e : i = i0
      · simp only [h', e, if_true, new, Instr.phiIns, List.not_mem_nil] at hq
      · simp only [h', e, if_false] at hq
        exact phisDom_at hw1 hbm him q hq

end Rewrites

/-! ## `on_block` -/

theorem tryEvalConst_some {f : Func} {fuel : Nat} {o : Operand} {r : Ty × ConstVal}
    (h : tryEvalConst f fuel o = .ok (some r)) : Model.Opt.evalConst f fuel o = .ok r := by
  unfold tryEvalConst at h
  cases he : Model.Opt.evalConst f fuel o with
  | ok r' => rw [he] at h; simp at h; rw [h]
  | error e => rw [he] at h; simp only at h; split at h <;> simp at h

theorem chainValue_ok {t : Ty} {va vb c : ConstVal} (h : chainValue t va vb = .ok c) : constOk t c := by
  unfold chainValue at h
  split at h
  · exact cfCast_ok h
  · simp at h

/-- the constant-folding branch of the loop body -/
theorem wf_fold_branch {m : Module} {f f' : Func} {d base : String} {fuel : Nat} (hw : wfFunc m f = true)
    (h : (do
      match ← tryEvalConst f fuel (.loc d) with
      | none => pure f
      | some (t, c) =>
        pure (subst (insertBefore f d (.const (freshName f base) t c)) d (.loc (freshName f base))) : R Func) = .ok f') :
    wfFunc m f' = true ∧ SameSig f' f := by
  simp only [bind, Except.bind] at h
  cases hte : tryEvalConst f fuel (.loc d) with
  | error e => rw [hte] at h; simp at h
  | ok r =>
    rw [hte] at h
    cases r with
    | none => simp [pure, Except.pure] at h; subst h; exact ⟨hw, sameSig_refl _⟩
    | some tc =>
      obtain ⟨t, c⟩ := tc
      simp only [pure, Except.pure, Except.ok.injEq] at h
      subst h
      obtain ⟨i, hdi, hdst, hc⟩ := evalConst_spec hw (tryEvalConst_some hte)
      obtain ⟨b, hb, hi, _⟩ := defInstr_mem hdi
      obtain ⟨p, hp⟩ := List.getElem?_of_mem hi
      exact ⟨wf_fold_const hw hb hp hdst (freshName_not_mem f base) hc, ⟨rfl, rfl, rfl⟩⟩

/-- the chain branch of the loop body -/
theorem wf_chain_branch {m : Module} {f f' : Func} {d : String} {fuel : Nat} {bd : Block} {p : Nat}
    {t : Ty} {op op1 : BinOp} {a c2 y c1 : Operand} {x : String} {tx : Ty}
    (hw : wfFunc m f = true) (hb : bd ∈ f.blocks) (hi : bd.instrs[p]? = some (.binop d t op a c2))
    (ha : opndDef f a = some (.binop x tx op1 y c1))
    (h : (do
      match ← tryEvalConst f fuel c1, ← tryEvalConst f fuel c2 with
      | some (ta, va), some (tb, vb) =>
        if ta ≠ tb then throw "AssertionError"
        let v ← chainValue ta va vb
        let n := freshName f "new_fold"
        if t ≠ ta then throw "AssertionError"
        pure (replaceInstr (insertBefore f d (.const n ta v)) d (.binop d t op y (.loc n)))
      | _, _ => pure f : R Func) = .ok f') :
    wfFunc m f' = true ∧ SameSig f' f := by
  simp only [bind, Except.bind] at h
  cases h1 : tryEvalConst f fuel c1 with
  | error e => rw [h1] at h; simp at h
  | ok r1 =>
    rw [h1] at h
    simp only at h
    cases h2 : tryEvalConst f fuel c2 with
    | error e => rw [h2] at h; simp at h
    | ok r2 =>
      rw [h2] at h
      simp only at h
      cases r1 with
      | none => simp [pure, Except.pure] at h; subst h; exact ⟨hw, sameSig_refl _⟩
      | some p1 =>
        cases r2 with
        | none => simp [pure, Except.pure] at h; subst h; exact ⟨hw, sameSig_refl _⟩
        | some p2 =>
          obtain ⟨ta, va⟩ := p1
          obtain ⟨tb, vb⟩ := p2
          simp only at h
          by_cases e1 : ta = tb
          · subst e1
            simp only [ne_eq, not_true_eq_false, if_false] at h
            cases hcv : chainValue ta va vb with
            | error e => simp [hcv, pure, Except.pure] at h
            | ok v =>
              simp only [hcv, pure, Except.pure] at h
              by_cases e2 : t = ta
              · subst e2
                simp only [ne_eq, not_true_eq_false, if_false, Except.ok.injEq] at h
                subst h
                exact ⟨wf_fold_chain hw hb hi ha (freshName_not_mem f "new_fold") (chainValue_ok hcv), ⟨rfl, rfl, rfl⟩⟩
              · simp [e2, throw, throwThe, MonadExceptOf.throw] at h
          · simp [e1, throw, throwThe, MonadExceptOf.throw, pure, Except.pure] at h

/-- one step of the loop of `ConstantFolder.on_block` keeps the function well-formed (when it does not raise) -/
theorem wf_foldInstr {m : Module} {f f' : Func} {d : String} (hw : wfFunc m f = true)
    (h : foldInstr f d = .ok f') : wfFunc m f' = true ∧ SameSig f' f := by
  unfold foldInstr at h
  cases hdi : defInstr f d with
  | none => rw [hdi] at h; simp at h; subst h; exact ⟨hw, sameSig_refl _⟩
  | some ins =>
    rw [hdi] at h
    obtain ⟨b, hb, hi, hdn⟩ := defInstr_mem hdi
    obtain ⟨p, hp⟩ := List.getElem?_of_mem hi
    cases ins with
    | const d' t c => simp at h; subst h; exact ⟨hw, sameSig_refl _⟩
    | binop d' t op a c2 =>
      have hdd : d' = d := by simpa [dstName, Instr.dst?] using hdn
      subst hdd
      simp only at h
      split at h
      · exact wf_fold_branch hw h
      · split at h
        · rename_i x tx op1 y c1 ha
          split at h
          · exact wf_chain_branch hw hb hp ha h
          · simp [pure, Except.pure] at h; subst h; exact ⟨hw, sameSig_refl _⟩
        · simp [pure, Except.pure] at h; subst h; exact ⟨hw, sameSig_refl _⟩
    | _ =>
      simp only at h
      split at h
      · exact wf_fold_branch hw h
      · simp [pure, Except.pure] at h; subst h; exact ⟨hw, sameSig_refl _⟩

theorem foldlM_inv {α : Type} (step : Func → α → R Func) (P : Func → Prop)
    (hstep : ∀ s a s', step s a = .ok s' → P s → P s') : ∀ (l : List α) (s s' : Func),
    l.foldlM step s = .ok s' → P s → P s' := by
  intro l
  induction l with
  | nil => intro s s' h hp; simp [List.foldlM, pure, Except.pure] at h; subst h; exact hp
  | cons a l ih =>
    intro s s' h hp
    simp only [List.foldlM_cons, bind, Except.bind] at h
    cases hs : step s a with
    | error e => rw [hs] at h; simp at h
    | ok s1 => rw [hs] at h; exact ih s1 s' h (hstep s a s1 hs hp)

theorem wf_foldBlock {m : Module} {f f' : Func} {bi : Nat} (hw : wfFunc m f = true)
    (h : foldBlock f bi = .ok f') : wfFunc m f' = true ∧ SameSig f' f := by
  unfold foldBlock at h
  cases hb : f.blocks[bi]? with
  | none => rw [hb] at h; simp at h; subst h; exact ⟨hw, sameSig_refl _⟩
  | some b =>
    rw [hb] at h
    exact foldlM_inv foldInstr (fun s => wfFunc m s = true ∧ SameSig s f)
      (fun s a s' hs hp => ⟨(wf_foldInstr hp.1 hs).1, sameSig_trans (wf_foldInstr hp.1 hs).2 hp.2⟩) _ f f' h
      ⟨hw, sameSig_refl f⟩

/-- the model of `ConstantFolder` keeps every well-formed function well-formed whenever it returns -/
theorem wf_constFold {m : Module} {f f' : Func} (hw : wfFunc m f = true) (h : constFold f = .ok f') :
    wfFunc m f' = true ∧ SameSig f' f := by
  unfold constFold at h
  exact foldlM_inv foldBlock (fun s => wfFunc m s = true ∧ SameSig s f)
    (fun s a s' hs hp => ⟨(wf_foldBlock hp.1 hs).1, sameSig_trans (wf_foldBlock hp.1 hs).2 hp.2⟩) _ f f' h
    ⟨hw, sameSig_refl f⟩

/-- a successful `mapM` is a `map` -/
theorem mapM_eq_map (p : Func → R Func) : ∀ (l l' : List Func), l.mapM p = .ok l' →
    l' = l.map (fun f => match p f with | .ok f' => f' | .error _ => f) := by
  intro l
  induction l with
  | nil => intro l' h; simp [List.mapM_nil, pure, Except.pure] at h; subst h; rfl
  | cons a l ih =>
    intro l' h
    simp only [List.mapM_cons, bind, Except.bind] at h
    cases ha : p a with
    | error e => rw [ha] at h; simp at h
    | ok a' =>
      rw [ha] at h
      simp only at h
      cases hl : l.mapM p with
      | error e => rw [hl] at h; simp at h
      | ok l1 =>
        rw [hl] at h
        simp only [pure, Except.pure, Except.ok.injEq] at h
        subst h
        simp only [List.map_cons, ha, ih l1 hl]

/-- module level: a partial function-wise pass whose successful results keep signatures and well-formedness -/
theorem wfModule_runPass {m m' : Module} (p : Func → R Func)
    (hp : ∀ f f', wfFunc m f = true → p f = .ok f' → wfFunc m f' = true ∧ SameSig f' f)
    (h : wfModule m = true) (hr : runPass p m = .ok m') : wfModule m' = true := by
  unfold runPass at hr
  simp only [bind, Except.bind] at hr
  cases hm : m.funcs.mapM p with
  | error e => rw [hm] at hr; simp at hr
  | ok fs =>
    rw [hm] at hr
    simp only [pure, Except.pure, Except.ok.injEq] at hr
    subst hr
    rw [mapM_eq_map p _ _ hm]
    have hall : ∀ f ∈ m.funcs, wfFunc m f = true := by
      unfold wfModule at h
      simp only [Bool.and_eq_true, List.all_eq_true] at h
      exact h.2
    let q : Func → Func := fun f =>
      if wfFunc m f = true then (match p f with | .ok f' => f' | .error _ => f) else f
    have hq : m.funcs.map (fun f => match p f with | .ok f' => f' | .error _ => f) = m.funcs.map q := by
      apply List.map_congr_left
      intro f hf
      simp only [q, hall f hf, if_true]
    rw [hq]
    apply wfModule_mapFuncs q _ _ h
    · intro f
      by_cases hwf : wfFunc m f = true
      · simp only [q, hwf, if_true]
        cases hf : p f with
        | ok f' => exact (hp f f' hwf hf).2
        | error e => exact sameSig_refl f
      · simp only [q, hwf]; exact sameSig_refl f
    · intro f _ hwf
      simp only [q, hwf, if_true]
      cases hf : p f with
      | ok f' => exact (hp f f' hwf hf).1
      | error e => exact hwf

end Proofs.OptWFFold
