import PpciVerif.Model.CSwitch
import Mathlib.Tactic.Ring
/-! `Model.CSwitch.gen` registers for every switch exactly the labels that lexically belong to it. -/
namespace Proofs.CSwitch
open Model.CSwitch

mutual
  theorem gen_eq : ∀ (s : St) (o : Opts), gen s o = (o ++ own s, recs s)
    | .case v, o => by simp [gen, own, recs]
    | .default, o => by simp [gen, own, recs]
    | .other, o => by simp [gen, own, recs]
    | .block b, o => by simp only [gen, own, recs, genL_eq b o]
    | .ifs t e, o => by
      simp only [gen, own, recs, genL_eq t o, genL_eq e (o ++ ownL t), List.append_assoc]
    | .loop b, o => by simp only [gen, own, recs, genL_eq b o]
    | .switch b, o => by
      simp only [gen, own, recs, genL_eq b [], List.nil_append, List.append_nil]
  theorem genL_eq : ∀ (l : Sts) (o : Opts), genL l o = (o ++ ownL l, recsL l)
    | .nil, o => by simp [genL, ownL, recsL]
    | .cons s r, o => by
      simp only [genL, ownL, recsL, gen_eq s o, genL_eq r (o ++ own s), List.append_assoc]
end

end Proofs.CSwitch
