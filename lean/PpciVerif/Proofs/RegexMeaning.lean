import PpciVerif.Proofs.Regex
import PpciVerif.Model.RegexParse
/-! Helper lemmas for C31, part 6: the `Regex` object built for a syntax tree denotes the standard
language of the tree (alternation = union, juxtaposition = concatenation, `* + ?`). -/
namespace Proofs.Regex
open Spec.Lang Spec.RegexLang Model.Regex Model.RegexParse Model Spec.IntSet

theorem matches_star_congr {σ} {r r' : Rx σ} (h : ∀ s, Matches r s ↔ Matches r' s) :
    ∀ s, Matches (.star r) s → Matches (.star r') s := by
  intro s hm
  generalize hq : Rx.star r = q at hm
  induction hm with
  | eps => cases hq
  | cls _ => cases hq
  | starNil => exact .starNil
  | starCons h1 _ _ ih2 => cases hq; exact .starCons ((h _).1 h1) (ih2 rfl)
  | cat _ _ => cases hq
  | altL _ => cases hq
  | altR _ => cases hq
  | inter _ _ => cases hq

theorem WF_meaning : ∀ t : Syn, WF (meaning t)
  | .chr c => WF_symbol c
  | .dot => WF_SIGMA
  | .cls items => WF_symbolSet items
  | .star e => WF_meaning e
  | .plus e => WF_concatenate (WF_meaning e) (WF_meaning e)
  | .opt e => WF_logicalOr (WF_meaning e) trivial
  | .cat l r => WF_concatenate (WF_meaning l) (WF_meaning r)
  | .alt l r => WF_logicalOr (WF_meaning l) (WF_meaning r)

/-- the object the parser builds for a tree denotes the standard language of the tree -/
theorem L_meaning : ∀ (t : Syn) (s : List Int), L (meaning t) s ↔ Matches t.rx s
  | .chr c, s => by
    simp only [meaning, symbol, symbolSet, L_set, (Proofs.IntSet.mk_spec _).2, Syn.rx, matches_cls,
      Proofs.IntSet.mem_singleton, InR, decide_eq_true_eq]
    constructor
    · rintro ⟨x, rfl, h1, h2⟩; exact ⟨x, rfl, by omega⟩
    · rintro ⟨x, rfl, rfl⟩; exact ⟨x, rfl, Int.le_refl _, Int.le_refl _⟩
  | .dot, s => by
    simp only [meaning, SIGMA, L_set, mem_sigma, Syn.rx, matches_cls, inSigma, Bool.and_eq_true, decide_eq_true_eq]
  | .cls items, s => by
    simp only [meaning, symbolSet, L_set, (Proofs.IntSet.mk_spec _).2, Syn.rx, matches_cls]
    constructor
    · rintro ⟨x, rfl, h⟩; exact ⟨x, rfl, (Proofs.IntSet.memB_iff items x).2 h⟩
    · rintro ⟨x, rfl, h⟩; exact ⟨x, rfl, (Proofs.IntSet.memB_iff items x).1 h⟩
  | .star e, s => by
    simp only [meaning, Syn.rx]
    exact ⟨matches_star_congr (L_meaning e) s, matches_star_congr (fun s => (L_meaning e s).symm) s⟩
  | .plus e, s => by
    simp only [meaning, Syn.rx, L_concatenate, matches_cat]
    constructor
    · rintro ⟨u, v, rfl, h1, h2⟩
      exact ⟨u, v, rfl, (L_meaning e u).1 h1, matches_star_congr (L_meaning e) v h2⟩
    · rintro ⟨u, v, rfl, h1, h2⟩
      exact ⟨u, v, rfl, (L_meaning e u).2 h1, matches_star_congr (fun s => (L_meaning e s).symm) v h2⟩
  | .opt e, s => by
    simp only [meaning, Syn.rx, L_logicalOr, matches_alt, L_meaning e s, L_eps, matches_eps]
  | .cat l r, s => by
    simp only [meaning, Syn.rx, L_concatenate, matches_cat]
    constructor
    · rintro ⟨u, v, rfl, h1, h2⟩; exact ⟨u, v, rfl, (L_meaning l u).1 h1, (L_meaning r v).1 h2⟩
    · rintro ⟨u, v, rfl, h1, h2⟩; exact ⟨u, v, rfl, (L_meaning l u).2 h1, (L_meaning r v).2 h2⟩
  | .alt l r, s => by
    simp only [meaning, Syn.rx, L_logicalOr, matches_alt, L_meaning l s, L_meaning r s]

end Proofs.Regex
