import PpciVerif.Model.IRFrag
/-!
# Proofs.IRLex — maximal munch, token class by token class

What is proved here, for ALL values: the tokenizer `Model.IRText.lexFuel` reads the printed form of
* white space (nothing), * an identifier (`lex_id`), * a natural number (`lex_nat`), * an integer of either
sign (`lex_int`), * a quoted string (`lex_str`), * every operator / punctuation symbol (`lex_single`, `lex_minus`,
`lex_eq`, `lex_lt`, `lex_gt`, `lex_two`), * a float literal that passes the guard `floatLexOk` (`lex_float`: the
guard looks at the text followed by `;` only; `lexNumber_app` shows that nothing after that `;` matters)
back as exactly that token, whatever text follows, provided the next character cannot continue the token.

`Lx B cs ts` is the compositional form: `cs` is ASCII and lexes to `ts` in at most `cs.length` steps, whatever
text with property `B` follows; `Lx.append` composes two such facts, `Lx.tokenize` turns a fact about a whole
text into `tokenize cs = ok (ts ++ [eof])`.  The composition over the whole printer is `Proofs.IRLexP`.
-/
namespace Proofs.IRLex
open Model.IRBuild Model.IRText Model.IRFrag

/-- `cs` is read as the tokens `ts` in `k` steps, whatever text `rest` with property `B` follows -/
def Lx (B : List Char → Prop) (cs : List Char) (ts : List Tok) : Prop :=
  (∀ c ∈ cs, c.toNat < 128) ∧
  ∃ k, k ≤ cs.length ∧ ∀ rest, B rest → ∀ n, lexFuel (n + k) (cs ++ rest) = ts ++ lexFuel n rest

theorem Lx.append {B1 B2 : List Char → Prop} {c1 c2 : List Char} {t1 t2 : List Tok}
    (h1 : Lx B1 c1 t1) (h2 : Lx B2 c2 t2) (hb : ∀ rest, B2 rest → B1 (c2 ++ rest)) :
    Lx B2 (c1 ++ c2) (t1 ++ t2) := by
  obtain ⟨a1, k1, l1, e1⟩ := h1
  obtain ⟨a2, k2, l2, e2⟩ := h2
  refine ⟨?_, k2 + k1, by simp only [List.length_append]; omega, ?_⟩
  · intro c hc
    rcases List.mem_append.mp hc with h | h
    · exact a1 c h
    · exact a2 c h
  intro rest hr n
  rw [List.append_assoc, ← Nat.add_assoc, e1 (c2 ++ rest) (hb rest hr) (n + k2), e2 rest hr n, List.append_assoc]

theorem Lx.nil (B : List Char → Prop) : Lx B [] [] :=
  ⟨fun _ h => absurd h (by simp), 0, Nat.le_refl _, fun _ _ _ => rfl⟩

theorem Lx.mono {B B' : List Char → Prop} {cs : List Char} {ts : List Tok} (h : Lx B cs ts)
    (hb : ∀ r, B' r → B r) : Lx B' cs ts := by
  obtain ⟨a, k, l, e⟩ := h
  exact ⟨a, k, l, fun rest hr n => e rest (hb rest hr) n⟩

/-- the whole text: `tokenize` gives the tokens and the end marker -/
theorem Lx.tokenize {B : List Char → Prop} {cs : List Char} {ts : List Tok} (h : Lx B cs ts) (hb : B []) :
    tokenize cs = .ok (ts ++ [.eof]) := by
  obtain ⟨a, k, l, e⟩ := h
  have hany : cs.any (fun c => decide (c.toNat ≥ 128)) = false := by
    rw [List.any_eq_false]
    intro c hc
    have := a c hc
    simp only [ge_iff_le, decide_eq_true_eq]; omega
  have e1 := e [] hb (cs.length - k + 1)
  rw [List.append_nil] at e1
  have hf : cs.length - k + 1 + k = cs.length + 1 := by omega
  rw [hf] at e1
  unfold Model.IRText.tokenize lexAll
  rw [hany, e1]
  rfl

/-- at the end of the text a positive amount of fuel gives `eof` -/
theorem lexFuel_nil (n : Nat) : lexFuel (n + 1) [] = [.eof] := rfl

/-! ## takeWhile / dropWhile over a token followed by a stopping character -/

/-- the text that follows starts with a character that stops the scan `p` (or is empty) -/
def Stops (p : Char → Bool) (rest : List Char) : Prop :=
  match rest with
  | [] => True
  | c :: _ => p c = false

theorem takeWhile_append_stops (p : Char → Bool) (a rest : List Char) (ha : ∀ c ∈ a, p c = true)
    (hr : Stops p rest) : (a ++ rest).takeWhile p = a := by
  induction a with
  | nil =>
    cases rest with
    | nil => rfl
    | cons c r =>
      have hc : p c = false := hr
      simp only [List.nil_append, List.takeWhile, hc]
  | cons x xs ih =>
    simp [List.takeWhile, ha x (by simp), ih (fun c hc => ha c (by simp [hc]))]

theorem dropWhile_append_stops (p : Char → Bool) (a rest : List Char) (ha : ∀ c ∈ a, p c = true)
    (hr : Stops p rest) : (a ++ rest).dropWhile p = rest := by
  induction a with
  | nil =>
    cases rest with
    | nil => rfl
    | cons c r =>
      have hc : p c = false := hr
      simp only [List.nil_append, List.dropWhile, hc]
  | cons x xs ih =>
    simp [List.dropWhile, ha x (by simp), ih (fun c hc => ha c (by simp [hc]))]

/-! ## white space -/

theorem lex_ws (c : Char) (hc : isWs c = true) (B : List Char → Prop) : Lx B [c] [] := by
  refine ⟨?_, 1, by simp, ?_⟩
  · intro x hx
    have hx' : x = c := by simpa using hx
    subst hx'
    simp only [isWs, Bool.or_eq_true, beq_iff_eq] at hc
    rcases hc with ((((h | h) | h) | h) | h) | h <;> subst h <;> decide
  intro rest _ n
  have h1 : isDigit c = false := by
    simp only [isWs, Bool.or_eq_true, beq_iff_eq] at hc
    rcases hc with ((((h | h) | h) | h) | h) | h <;> subst h <;> decide
  have h2 : isIdStart c = false := by
    simp only [isWs, Bool.or_eq_true, beq_iff_eq] at hc
    rcases hc with ((((h | h) | h) | h) | h) | h <;> subst h <;> decide
  have h3 : (c == '-') = false := by
    simp only [isWs, Bool.or_eq_true, beq_iff_eq] at hc
    rcases hc with ((((h | h) | h) | h) | h) | h <;> subst h <;> decide
  have h4 : (c == '\'') = false := by
    simp only [isWs, Bool.or_eq_true, beq_iff_eq] at hc
    rcases hc with ((((h | h) | h) | h) | h) | h <;> subst h <;> decide
  simp [lexFuel, lexOne, h1, h2, h3, h4, hc]

/-! ## identifiers -/

theorem identOk_chars {s : String} (h : identOk s = true) :
    ∃ c r, s.toList = c :: r ∧ isIdStart c = true ∧ ∀ x ∈ r, isIdChar x = true := by
  unfold identOk at h
  cases hs : s.toList with
  | nil => rw [hs] at h; simp at h
  | cons c r =>
    rw [hs] at h
    simp only [Bool.and_eq_true, List.all_eq_true] at h
    exact ⟨c, r, rfl, h.1, h.2⟩

theorem idStart_not_digit (c : Char) (h : isIdStart c = true) : isDigit c = false := by
  simp only [isIdStart, Bool.or_eq_true, beq_iff_eq] at h
  rcases h with h | h
  · simp only [Char.isAlpha, Char.isUpper, Char.isLower, Bool.or_eq_true, Bool.and_eq_true, decide_eq_true_eq] at h
    simp only [isDigit, Char.isDigit, Bool.and_eq_false_iff, decide_eq_false_iff_not]
    have h48 : ('0' : Char).val = 48 := rfl
    have h57 : ('9' : Char).val = 57 := rfl
    have h65 : ('A' : Char).val = 65 := rfl
    have h90 : ('Z' : Char).val = 90 := rfl
    have h97 : ('a' : Char).val = 97 := rfl
    have h122 : ('z' : Char).val = 122 := rfl
    rcases h with ⟨h1, h2⟩ | ⟨h1, h2⟩
    · right; intro hle
      have a1 : (65 : UInt32) ≤ c.val := by simpa [h65] using h1
      have a2 : c.val ≤ (57 : UInt32) := by simpa [h57] using hle
      exact absurd (UInt32.le_trans a1 a2) (by decide)
    · right; intro hle
      have a1 : (97 : UInt32) ≤ c.val := by simpa [h97] using h1
      have a2 : c.val ≤ (57 : UInt32) := by simpa [h57] using hle
      exact absurd (UInt32.le_trans a1 a2) (by decide)
  · subst h; decide

theorem idStart_not_minus (c : Char) (h : isIdStart c = true) : (c == '-') = false := by
  cases hq : (c == '-') with
  | false => rfl
  | true =>
    have : c = '-' := by simpa using hq
    subst this
    exact absurd h (by decide)

theorem idStart_not_quote (c : Char) (h : isIdStart c = true) : (c == '\'') = false := by
  cases hq : (c == '\'') with
  | false => rfl
  | true =>
    have : c = '\'' := by simpa using hq
    subst this
    exact absurd h (by decide)

theorem digit_ascii (c : Char) (h : isDigit c = true) : c.toNat < 128 := by
  simp only [isDigit, Char.isDigit, Bool.and_eq_true, decide_eq_true_eq] at h
  have h2 := UInt32.le_iff_toNat_le.mp h.2
  have : c.toNat = c.val.toNat := rfl
  have h57 : ('9' : Char).val.toNat = 57 := rfl
  omega

theorem idChar_ascii (c : Char) (h : isIdChar c = true) : c.toNat < 128 := by
  have e : c.toNat = c.val.toNat := rfl
  have h57 : ('9' : Char).val.toNat = 57 := rfl
  have h90 : ('Z' : Char).val.toNat = 90 := rfl
  have h122 : ('z' : Char).val.toNat = 122 := rfl
  simp only [isIdChar, Char.isAlphanum, Char.isAlpha, Char.isUpper, Char.isLower, Char.isDigit, Bool.or_eq_true,
    Bool.and_eq_true, decide_eq_true_eq, beq_iff_eq] at h
  rcases h with ((⟨_, h2⟩ | ⟨_, h2⟩) | ⟨_, h2⟩) | h
  · have := UInt32.le_iff_toNat_le.mp h2; omega
  · have := UInt32.le_iff_toNat_le.mp h2; omega
  · have := UInt32.le_iff_toNat_le.mp h2; omega
  · subst h; decide

theorem idStart_idChar (c : Char) (h : isIdStart c = true) : isIdChar c = true := by
  simp only [isIdStart, Bool.or_eq_true, beq_iff_eq] at h
  simp only [isIdChar, Char.isAlphanum, Bool.or_eq_true, beq_iff_eq]
  rcases h with h | h
  · exact Or.inl (Or.inl h)
  · exact Or.inr h

/-- an identifier is read back as one ID token, whatever follows that is not an identifier character -/
theorem lex_id (s : String) (h : identOk s = true) : Lx (Stops isIdChar) s.toList [.id s] := by
  obtain ⟨c, r, hs, hc, hr⟩ := identOk_chars h
  refine ⟨?_, 1, by rw [hs]; simp, ?_⟩
  · intro x hx
    rw [hs] at hx
    rcases List.mem_cons.mp hx with e | e
    · subst e; exact idChar_ascii x (idStart_idChar x hc)
    · exact idChar_ascii x (hr x e)
  intro rest hrest n
  rw [hs]
  have htw := takeWhile_append_stops isIdChar r rest hr hrest
  have hdw := dropWhile_append_stops isIdChar r rest hr hrest
  have hname : String.ofList (c :: r) = s := by rw [← hs]; exact String.ofList_toList
  simp [lexFuel, lexOne, idStart_not_digit c hc, idStart_not_minus c hc, idStart_not_quote c hc, hc, htw, hdw, hname]

/-! ## numbers -/

/-- characters that could continue a number: a digit, `.`, `e` -/
def numCont (c : Char) : Bool := isDigit c || c == '.' || c == 'e'

theorem natChars_digits (n : Nat) : ∀ c ∈ natChars n, isDigit c = true := by
  intro c hc
  exact Nat.isDigit_of_mem_toDigits (by decide) (by decide) hc

theorem natChars_cons (n : Nat) : ∃ c r, natChars n = c :: r := by
  cases h : natChars n with
  | nil => exact absurd h Nat.toDigits_ne_nil
  | cons c r => exact ⟨c, r, rfl⟩

theorem natVal_natChars (n : Nat) : natVal (natChars n) = n := Nat.ofDigitChars_ten_toDigits

theorem lexExp_none_of_stops (rest : List Char) (h : Stops numCont rest) : lexExp rest = none := by
  cases rest with
  | nil => rfl
  | cons c r =>
    have hc : numCont c = false := h
    have hne : ¬ c = 'e' := by
      intro e; subst e; exact absurd hc (by decide)
    unfold lexExp
    split
    · rename_i heq; exact absurd (by simpa using heq : c = 'e' ∧ _).1 hne
    · rfl

theorem lexNumber_nat (neg : Bool) (n : Nat) (rest : List Char) (h : Stops numCont rest) :
    lexNumber neg (natChars n ++ rest) =
      .tok (.int (if neg then - (Int.ofNat n) else Int.ofNat n)) rest := by
  have hst : Stops isDigit rest := by
    cases rest with
    | nil => trivial
    | cons c r =>
      have hc : numCont c = false := h
      show isDigit c = false
      simp only [numCont, Bool.or_eq_false_iff] at hc
      exact hc.1.1
  have htw := takeWhile_append_stops isDigit (natChars n) rest (natChars_digits n) hst
  have hdw := dropWhile_append_stops isDigit (natChars n) rest (natChars_digits n) hst
  have hexp := lexExp_none_of_stops rest h
  unfold lexNumber
  simp only [htw, hdw, natVal_natChars]
  cases rest with
  | nil => simp [hexp]
  | cons c r =>
    have hc : numCont c = false := h
    have hne : ¬ c = '.' := by
      intro e; subst e; exact absurd hc (by decide)
    split
    · rename_i heq; exact absurd (by simpa using heq : c = '.' ∧ _).1 hne
    · simp [hexp]

/-- a natural number is read back as one INT token -/
theorem lex_nat (n : Nat) : Lx (Stops numCont) (natChars n) [.int (Int.ofNat n)] := by
  obtain ⟨c, r, hcr⟩ := natChars_cons n
  refine ⟨fun x hx => digit_ascii x (natChars_digits n x hx), 1, by rw [hcr]; simp, ?_⟩
  intro rest hrest m
  have hd : isDigit c = true := natChars_digits n c (by rw [hcr]; simp)
  have := lexNumber_nat false n rest hrest
  rw [hcr] at this ⊢
  simp only [List.cons_append] at this ⊢
  simp [lexFuel, lexOne, hd, this]

/-- an integer of either sign is read back as one INT token (negative constants keep their sign) -/
theorem lex_int (v : Int) : Lx (Stops numCont) (intChars v) [.int v] := by
  cases v with
  | ofNat n => exact lex_nat n
  | negSucc n =>
    obtain ⟨c, r, hcr⟩ := natChars_cons (n + 1)
    refine ⟨?_, 1, by simp [intChars], ?_⟩
    · intro x hx
      rcases List.mem_cons.mp hx with e | e
      · subst e; decide
      · exact digit_ascii x (natChars_digits (n + 1) x e)
    intro rest hrest m
    have hd : isDigit c = true := natChars_digits (n + 1) c (by rw [hcr]; simp)
    have := lexNumber_nat true (n + 1) rest hrest
    simp only [intChars, List.cons_append]
    rw [hcr] at this ⊢
    simp only [List.cons_append] at this ⊢
    have hd' : c.isDigit = true := hd
    simp [lexFuel, lexOne, isDigit, hd', this, Int.negSucc_eq, show ('-' : Char).isDigit = false from by decide]

/-! ## quoted strings -/

theorem lex_str (cs : List Char) (h : ∀ c ∈ cs, isStrChar c = true) (ha : ∀ c ∈ cs, c.toNat < 128)
    (B : List Char → Prop) : Lx B ('\'' :: cs ++ ['\'']) [.str (String.ofList cs)] := by
  refine ⟨?_, 1, by simp, ?_⟩
  · intro x hx
    simp only [List.cons_append, List.mem_cons, List.mem_append, List.not_mem_nil, or_false] at hx
    rcases hx with e | e | e
    · subst e; decide
    · exact ha x e
    · subst e; decide
  intro rest _ n
  have hst : Stops isStrChar ('\'' :: rest) := by show isStrChar '\'' = false; decide
  have htw := takeWhile_append_stops isStrChar cs ('\'' :: rest) h hst
  have hdw := dropWhile_append_stops isStrChar cs ('\'' :: rest) h hst
  have e : '\'' :: cs ++ ['\''] ++ rest = '\'' :: (cs ++ '\'' :: rest) := by simp
  rw [e]
  simp [lexFuel, lexOne, isDigit, isIdStart, htw, hdw, show ('\'' : Char).isDigit = false from by decide,
    show ('\'' : Char).isAlpha = false from by decide]

/-! ## punctuation and operators -/

/-- the one-character symbols that need no look-ahead -/
theorem lex_single (c : Char) (hc : c ∈ [',', ':', ';', '?', '+', '*', '%', '[', ']', '/', '(', ')', '~', '{', '}', '&', '^', '|'])
    (B : List Char → Prop) : Lx B [c] [.sym (String.singleton c)] := by
  simp only [List.mem_cons, List.not_mem_nil, or_false] at hc
  refine ⟨?_, 1, by simp, ?_⟩
  · intro x hx
    have hx' : x = c := by simpa using hx
    subst hx'
    rcases hc with h | h | h | h | h | h | h | h | h | h | h | h | h | h | h | h | h | h <;> subst h <;> decide
  intro rest _ n
  rcases hc with h | h | h | h | h | h | h | h | h | h | h | h | h | h | h | h | h | h <;> subst h <;>
    (cases rest <;> simp [lexFuel, lexOne, lexSym, singles, isDigit, isIdStart, isWs, Char.isDigit, Char.isAlpha,
      Char.isUpper, Char.isLower] <;> rfl)

/-- `-` as an operator: what follows is not a digit -/
theorem lex_minus : Lx (Stops isDigit) ['-'] [.sym "-"] := by
  refine ⟨by decide, 1, by simp, ?_⟩
  intro rest hr n
  cases rest with
  | nil => simp [lexFuel, lexOne, lexSym, singles, isDigit, isIdStart, isWs, Char.isDigit, Char.isAlpha, Char.isUpper, Char.isLower]
  | cons d r =>
    have hd : isDigit d = false := hr
    have h1 : isDigit '-' = false := by decide
    have h2 : isIdStart '-' = false := by decide
    have h3 : isWs '-' = false := by decide
    have h4 : lexSym '-' (d :: r) = some ("-", d :: r) := by simp [lexSym, singles]
    simp [lexFuel, lexOne, h1, h2, h3, hd, h4]

/-- `=`, `<`, `>` as symbols of their own: the next character does not extend them -/
theorem lex_eq : Lx (Stops (fun c => c == '=')) ['='] [.sym "="] := by
  refine ⟨by decide, 1, by simp, ?_⟩
  intro rest hr n
  cases rest with
  | nil => simp [lexFuel, lexOne, lexSym, singles, isDigit, isIdStart, isWs, Char.isDigit, Char.isAlpha, Char.isUpper, Char.isLower]
  | cons d r =>
    have hd : ¬ d = '=' := by simpa [Stops] using hr
    simp only [lexFuel, lexOne, lexSym]
    simp [singles, isDigit, isIdStart, isWs, Char.isDigit, Char.isAlpha, Char.isUpper, Char.isLower]
    split <;> simp_all

theorem lex_lt : Lx (Stops (fun c => c == '<' || c == '=')) ['<'] [.sym "<"] := by
  refine ⟨by decide, 1, by simp, ?_⟩
  intro rest hr n
  cases rest with
  | nil => simp [lexFuel, lexOne, lexSym, singles, isDigit, isIdStart, isWs, Char.isDigit, Char.isAlpha, Char.isUpper, Char.isLower]
  | cons d r =>
    have hd : ¬ d = '<' ∧ ¬ d = '=' := by simpa [Stops] using hr
    simp only [lexFuel, lexOne, lexSym]
    simp [singles, isDigit, isIdStart, isWs, Char.isDigit, Char.isAlpha, Char.isUpper, Char.isLower]
    split <;> simp_all

theorem lex_gt : Lx (Stops (fun c => c == '>' || c == '=')) ['>'] [.sym ">"] := by
  refine ⟨by decide, 1, by simp, ?_⟩
  intro rest hr n
  cases rest with
  | nil => simp [lexFuel, lexOne, lexSym, singles, isDigit, isIdStart, isWs, Char.isDigit, Char.isAlpha, Char.isUpper, Char.isLower]
  | cons d r =>
    have hd : ¬ d = '>' ∧ ¬ d = '=' := by simpa [Stops] using hr
    simp only [lexFuel, lexOne, lexSym]
    simp [singles, isDigit, isIdStart, isWs, Char.isDigit, Char.isAlpha, Char.isUpper, Char.isLower]
    split <;> simp_all

/-- the two-character operators -/
theorem lex_two (a b : Char) (s : String)
    (h : (a, b, s) ∈ [('<', '<', "<<"), ('>', '>', ">>"), ('!', '=', "!="), ('=', '=', "=="), ('<', '=', "<="), ('>', '=', ">=")])
    (B : List Char → Prop) : Lx B [a, b] [.sym s] := by
  simp only [List.mem_cons, List.not_mem_nil, or_false, Prod.mk.injEq] at h
  refine ⟨?_, 1, by simp, ?_⟩
  · rcases h with ⟨rfl, rfl, rfl⟩ | ⟨rfl, rfl, rfl⟩ | ⟨rfl, rfl, rfl⟩ | ⟨rfl, rfl, rfl⟩ | ⟨rfl, rfl, rfl⟩ | ⟨rfl, rfl, rfl⟩ <;> decide
  intro rest _ n
  rcases h with ⟨rfl, rfl, rfl⟩ | ⟨rfl, rfl, rfl⟩ | ⟨rfl, rfl, rfl⟩ | ⟨rfl, rfl, rfl⟩ | ⟨rfl, rfl, rfl⟩ | ⟨rfl, rfl, rfl⟩ <;>
    simp [lexFuel, lexOne, lexSym, singles, isDigit, isIdStart, isWs, Char.isDigit, Char.isAlpha, Char.isUpper,
      Char.isLower]

/-! ## float literals: the guard `floatLexOk` looks at the text followed by `;` only — whatever comes after
    that `;` does not matter -/

theorem takeWhile_app (p : Char → Bool) (x tail : List Char) (h : Stops p tail) :
    (x ++ tail).takeWhile p = x.takeWhile p := by
  induction x with
  | nil =>
    cases tail with
    | nil => rfl
    | cons c r => have hc : p c = false := h; simp [List.takeWhile, hc]
  | cons a x ih => by_cases ha : p a = true <;> simp [List.takeWhile, ha, ih]

theorem dropWhile_app (p : Char → Bool) (x tail : List Char) (h : Stops p tail) :
    (x ++ tail).dropWhile p = x.dropWhile p ++ tail := by
  induction x with
  | nil =>
    cases tail with
    | nil => rfl
    | cons c r => have hc : p c = false := h; simp [List.dropWhile, hc]
  | cons a x ih => by_cases ha : p a = true <;> simp [List.dropWhile, ha, ih]

def stepApp : LexStep → List Char → LexStep
  | .tok t r, x => .tok t (r ++ x)
  | .skip r, x => .skip (r ++ x)
  | .fault, _ => .fault
  | .done, _ => .done

theorem stops_semi (rest : List Char) : Stops isDigit (';' :: rest) := by show isDigit ';' = false; decide

theorem lexExp_e_other (d : Char) (t : List Char) (hm : ¬ d = '-') (hp : ¬ d = '+') :
    lexExp ('e' :: d :: t) =
      if ((d :: t).takeWhile isDigit).isEmpty then none
      else some ('e' :: (d :: t).takeWhile isDigit, (d :: t).dropWhile isDigit) := by
  have gen : ∀ l : List Char, l = d :: t →
      lexExp ('e' :: l) =
        if (l.takeWhile isDigit).isEmpty then none
        else some ('e' :: l.takeWhile isDigit, l.dropWhile isDigit) := by
    intro l hl
    simp only [lexExp]
    split
    · exact absurd (by simpa using hl.symm : d = '-' ∧ _).1 hm
    · exact absurd (by simpa using hl.symm : d = '+' ∧ _).1 hp
    · simp
  exact gen _ rfl

theorem lexExp_app (x rest : List Char) :
    lexExp (x ++ ';' :: rest) = (lexExp (x ++ [';'])).map (fun p => (p.1, p.2 ++ rest)) := by
  have key : ∀ t : List Char, ∀ pre : List Char,
      (if ((t ++ ';' :: rest).takeWhile isDigit).isEmpty then none
        else some ('e' :: pre ++ (t ++ ';' :: rest).takeWhile isDigit, (t ++ ';' :: rest).dropWhile isDigit)) =
      (if ((t ++ [';']).takeWhile isDigit).isEmpty then none
        else some ('e' :: pre ++ (t ++ [';']).takeWhile isDigit, (t ++ [';']).dropWhile isDigit)).map
          (fun p => (p.1, p.2 ++ rest)) := by
    intro t pre
    rw [takeWhile_app _ _ _ (stops_semi rest), dropWhile_app _ _ _ (stops_semi rest),
      takeWhile_app _ _ _ (stops_semi []), dropWhile_app _ _ _ (stops_semi [])]
    by_cases he : (t.takeWhile isDigit).isEmpty = true <;> simp [he]
  cases x with
  | nil => simp [lexExp]
  | cons c r =>
    by_cases hc : c = 'e'
    · subst hc
      cases r with
      | nil => simp [lexExp, List.takeWhile, show isDigit ';' = false from by decide]
      | cons d t =>
        by_cases hm : d = '-'
        · subst hm; simpa [lexExp] using key t ['-']
        · by_cases hp : d = '+'
          · subst hp; simpa [lexExp] using key t ['+']
          · have := key (d :: t) []
            simp only [List.cons_append, List.append_nil, List.nil_append] at this
            rw [List.cons_append, List.cons_append, List.cons_append, List.cons_append,
              lexExp_e_other _ _ hm hp, lexExp_e_other _ _ hm hp]
            simpa using this
    · simp only [List.cons_append]
      unfold lexExp
      split
      · rename_i heq; exact absurd (by simpa using heq : c = 'e' ∧ _).1 hc
      · split
        · rename_i heq; exact absurd (by simpa using heq : c = 'e' ∧ _).1 hc
        · rfl

theorem lexExp_semi (rest : List Char) : lexExp (';' :: rest) = none := by
  have gen : ∀ l : List Char, l = ';' :: rest → lexExp l = none := by
    intro l hl
    unfold lexExp
    split
    · simp at hl
    · rfl
  exact gen _ rfl

/-- the two branches of `lexNumber`, named -/
def numDot (neg : Bool) (d1 r1 r2 : List Char) : LexStep :=
  let sign : List Char := if neg then ['-'] else []
  let d2 := r2.takeWhile isDigit
  let r3 := r2.dropWhile isDigit
  if d2.isEmpty then .tok (.int (if neg then - (Int.ofNat (natVal d1)) else Int.ofNat (natVal d1))) r1
  else match lexExp r3 with
    | some (e, r4) => .tok (.flt (String.ofList (sign ++ d1 ++ '.' :: d2 ++ e))) r4
    | none => .tok (.flt (String.ofList (sign ++ d1 ++ '.' :: d2))) r3

def numNoDot (neg : Bool) (d1 r1 : List Char) : LexStep :=
  let sign : List Char := if neg then ['-'] else []
  match lexExp r1 with
  | some (e, r2) => .tok (.flt (String.ofList (sign ++ d1 ++ e))) r2
  | none => .tok (.int (if neg then - (Int.ofNat (natVal d1)) else Int.ofNat (natVal d1))) r1

theorem lexNumber_dot (neg : Bool) (cs r2 : List Char) (h : cs.dropWhile isDigit = '.' :: r2) :
    lexNumber neg cs = numDot neg (cs.takeWhile isDigit) ('.' :: r2) r2 := by
  unfold lexNumber
  rw [h]
  rfl

theorem lexNumber_nodot (neg : Bool) (cs : List Char) (h : ∀ r2, ¬ cs.dropWhile isDigit = '.' :: r2) :
    lexNumber neg cs = numNoDot neg (cs.takeWhile isDigit) (cs.dropWhile isDigit) := by
  unfold lexNumber
  generalize cs.dropWhile isDigit = r1 at h
  simp only []
  split
  all_goals first | exact absurd rfl (h _) | (unfold numNoDot; simp_all)

theorem numNoDot_app (neg : Bool) (d1 y rest : List Char) :
    numNoDot neg d1 (y ++ ';' :: rest) = stepApp (numNoDot neg d1 (y ++ [';'])) rest := by
  unfold numNoDot
  rw [lexExp_app]
  cases lexExp (y ++ [';']) with
  | none => simp [stepApp]
  | some p => simp [stepApp]

theorem numDot_app (neg : Bool) (d1 r2 rest : List Char) :
    numDot neg d1 ('.' :: r2 ++ ';' :: rest) (r2 ++ ';' :: rest) =
      stepApp (numDot neg d1 ('.' :: r2 ++ [';']) (r2 ++ [';'])) rest := by
  unfold numDot
  rw [takeWhile_app _ _ _ (stops_semi rest), dropWhile_app _ _ _ (stops_semi rest),
    takeWhile_app _ _ _ (stops_semi []), dropWhile_app _ _ _ (stops_semi [])]
  by_cases he : (r2.takeWhile isDigit).isEmpty = true
  · simp [he, stepApp]
  · simp only [he, Bool.false_eq_true, if_false]
    rw [lexExp_app]
    cases lexExp (r2.dropWhile isDigit ++ [';']) with
    | none => simp [stepApp]
    | some p => simp [stepApp]

theorem lexNumber_app (neg : Bool) (x rest : List Char) :
    lexNumber neg (x ++ ';' :: rest) = stepApp (lexNumber neg (x ++ [';'])) rest := by
  have hA := dropWhile_app isDigit x (';' :: rest) (stops_semi rest)
  have hB := dropWhile_app isDigit x [';'] (stops_semi [])
  have tA := takeWhile_app isDigit x (';' :: rest) (stops_semi rest)
  have tB := takeWhile_app isDigit x [';'] (stops_semi [])
  cases hx : x.dropWhile isDigit with
  | nil =>
    rw [hx] at hA hB
    rw [lexNumber_nodot neg _ (by intro r2; rw [hA]; simp), lexNumber_nodot neg _ (by intro r2; rw [hB]; simp),
      hA, hB, tA, tB]
    exact numNoDot_app neg _ [] rest
  | cons c r =>
    rw [hx] at hA hB
    by_cases hc : c = '.'
    · subst hc
      rw [lexNumber_dot neg _ (r ++ ';' :: rest) (by rw [hA]; rfl), lexNumber_dot neg _ (r ++ [';']) (by rw [hB]; rfl),
        tA, tB]
      exact numDot_app neg _ r rest
    · rw [lexNumber_nodot neg _ (by intro r2; rw [hA]; simp [hc]), lexNumber_nodot neg _ (by intro r2; rw [hB]; simp [hc]),
        hA, hB, tA, tB]
      exact numNoDot_app neg _ (c :: r) rest

/-- the branches of `lexOne` that do not start a number never give a FLOAT token -/
theorem lexOne_other_not_flt (c : Char) (r : List Char) (s : String) (rem : List Char)
    (h : (if c == '\'' then
            match r.dropWhile isStrChar with
            | '\'' :: r' => LexStep.tok (.str (String.ofList (r.takeWhile isStrChar))) r'
            | _ => .fault
          else if isIdStart c then .tok (.id (String.ofList (c :: r.takeWhile isIdChar))) (r.dropWhile isIdChar)
          else if isWs c then .skip r
          else match lexSym c r with
            | some (s, r') => .tok (.sym s) r'
            | none => .fault) = .tok (.flt s) rem) : False := by
  split at h
  · split at h <;> simp at h
  · split at h
    · simp at h
    · split at h
      · simp at h
      · split at h <;> simp at h

theorem lexOne_float_app (cs : List Char) (s : String) (rest : List Char)
    (h : lexOne (cs ++ [';']) = .tok (.flt s) [';']) :
    lexOne (cs ++ ';' :: rest) = .tok (.flt s) (';' :: rest) := by
  cases cs with
  | nil => exact absurd h (by simp [lexOne, lexSym, singles, isDigit, isIdStart, isWs, Char.isDigit, Char.isAlpha, Char.isUpper, Char.isLower])
  | cons c r =>
    simp only [List.cons_append] at h ⊢
    unfold lexOne at h ⊢
    by_cases hd : isDigit c = true
    · simp only [hd, if_true] at h ⊢
      have := lexNumber_app false (c :: r) rest
      simp only [List.cons_append] at this
      rw [this, h]; rfl
    · simp only [hd, Bool.false_eq_true, if_false] at h ⊢
      cases r with
      | nil =>
        simp only [List.nil_append, show isDigit ';' = false from by decide, Bool.and_false, Bool.false_eq_true,
          if_false] at h
        exact (lexOne_other_not_flt c _ s _ h).elim
      | cons d r' =>
        simp only [List.cons_append] at h ⊢
        by_cases hm : (c == '-' && isDigit d) = true
        · simp only [hm, if_true] at h ⊢
          have := lexNumber_app true (d :: r') rest
          simp only [List.cons_append] at this
          rw [this, h]; rfl
        · simp only [hm, Bool.false_eq_true, if_false] at h
          exact (lexOne_other_not_flt c _ s _ h).elim

theorem lex_float (cs : List Char) (h : floatLexOk cs = true) (ha : ∀ c ∈ cs, c.toNat < 128) :
    Lx (fun r => ∃ r', r = ';' :: r') cs [.flt (String.ofList cs)] := by
  unfold floatLexOk at h
  split at h
  · rename_i s heq
    have hs : s = String.ofList cs := by simpa using h
    subst hs
    refine ⟨ha, 1, ?_, ?_⟩
    · cases cs with
      | nil => exact absurd heq (by simp [lexOne, lexSym, singles, isDigit, isIdStart, isWs, Char.isDigit, Char.isAlpha, Char.isUpper, Char.isLower])
      | cons c r => simp
    · intro rest ⟨r', hr'⟩ n
      subst hr'
      simp [lexFuel, lexOne_float_app cs _ r' heq]
  · exact absurd h (by simp)

end Proofs.IRLex
