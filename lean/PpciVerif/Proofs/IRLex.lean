import PpciVerif.Model.IRFrag
/-!
# Proofs.IRLex — maximal munch, token class by token class

What is proved here, for ALL values: the tokenizer `Model.IRText.lexFuel` reads the printed form of
* white space (nothing), * an identifier (`lex_id`), * a natural number (`lex_nat`), * an integer of either
sign (`lex_int`) — back as exactly that token, whatever text follows, provided the next character cannot
continue the token.  `Lx` is the compositional form ("`cs` lexes to `ts` in `k` steps, whatever follows"),
`Lx.append` composes two such facts.

NOT proved: the composition over the whole printer (`tokenize (printModule fmt m) = toksModule fmt m` for every
module of the fragment); that statement is evaluated per module by the driver (op `toks`).
-/
namespace Proofs.IRLex
open Model.IRBuild Model.IRText Model.IRFrag

/-- `cs` is read as the tokens `ts` in `k` steps, whatever text `rest` with property `B` follows -/
def Lx (B : List Char → Prop) (cs : List Char) (ts : List Tok) : Prop :=
  ∃ k, ∀ rest, B rest → ∀ n, lexFuel (n + k) (cs ++ rest) = ts ++ lexFuel n rest

theorem Lx.append {B1 B2 : List Char → Prop} {c1 c2 : List Char} {t1 t2 : List Tok}
    (h1 : Lx B1 c1 t1) (h2 : Lx B2 c2 t2) (hb : ∀ rest, B2 rest → B1 (c2 ++ rest)) :
    Lx B2 (c1 ++ c2) (t1 ++ t2) := by
  obtain ⟨k1, e1⟩ := h1
  obtain ⟨k2, e2⟩ := h2
  refine ⟨k2 + k1, ?_⟩
  intro rest hr n
  rw [List.append_assoc, ← Nat.add_assoc, e1 (c2 ++ rest) (hb rest hr) (n + k2), e2 rest hr n, List.append_assoc]

theorem Lx.nil (B : List Char → Prop) : Lx B [] [] := ⟨0, fun _ _ _ => rfl⟩

/-- at the end of the text a positive amount of fuel gives `eof` -/
theorem lexFuel_nil (n : Nat) : lexFuel (n + 1) [] = [.eof] := rfl

/-! ## takeWhile / dropWhile over a token followed by a stopping character -/

/-- the text that follows starts with a character that stops the scan `p` (or is empty) -/
def Stops (p : Char → Bool) (rest : List Char) : Prop :=
  match rest with
  | [] => True
  | c :: _ => p c = false

theorem takeWhile_append_stops (p : Char → Bool) (a rest : List Char) (ha : ∀ c ∈ a, p c = true)
    (hr : Stops p rest) : (a ++ rest).takeWhile p = a := by
  induction a with
  | nil =>
    cases rest with
    | nil => rfl
    | cons c r =>
      have hc : p c = false := hr
      simp only [List.nil_append, List.takeWhile, hc]
  | cons x xs ih =>
    simp [List.takeWhile, ha x (by simp), ih (fun c hc => ha c (by simp [hc]))]

theorem dropWhile_append_stops (p : Char → Bool) (a rest : List Char) (ha : ∀ c ∈ a, p c = true)
    (hr : Stops p rest) : (a ++ rest).dropWhile p = rest := by
  induction a with
  | nil =>
    cases rest with
    | nil => rfl
    | cons c r =>
      have hc : p c = false := hr
      simp only [List.nil_append, List.dropWhile, hc]
  | cons x xs ih =>
    simp [List.dropWhile, ha x (by simp), ih (fun c hc => ha c (by simp [hc]))]

/-! ## white space -/

theorem lex_ws (c : Char) (hc : isWs c = true) (B : List Char → Prop) : Lx B [c] [] := by
  refine ⟨1, ?_⟩
  intro rest _ n
  have h1 : isDigit c = false := by
    simp only [isWs, Bool.or_eq_true, beq_iff_eq] at hc
    rcases hc with ((((h | h) | h) | h) | h) | h <;> subst h <;> decide
  have h2 : isIdStart c = false := by
    simp only [isWs, Bool.or_eq_true, beq_iff_eq] at hc
    rcases hc with ((((h | h) | h) | h) | h) | h <;> subst h <;> decide
  have h3 : (c == '-') = false := by
    simp only [isWs, Bool.or_eq_true, beq_iff_eq] at hc
    rcases hc with ((((h | h) | h) | h) | h) | h <;> subst h <;> decide
  have h4 : (c == '\'') = false := by
    simp only [isWs, Bool.or_eq_true, beq_iff_eq] at hc
    rcases hc with ((((h | h) | h) | h) | h) | h <;> subst h <;> decide
  simp [lexFuel, lexOne, h1, h2, h3, h4, hc]

/-! ## identifiers -/

theorem identOk_chars {s : String} (h : identOk s = true) :
    ∃ c r, s.toList = c :: r ∧ isIdStart c = true ∧ ∀ x ∈ r, isIdChar x = true := by
  unfold identOk at h
  cases hs : s.toList with
  | nil => rw [hs] at h; simp at h
  | cons c r =>
    rw [hs] at h
    simp only [Bool.and_eq_true, List.all_eq_true] at h
    exact ⟨c, r, rfl, h.1, h.2⟩

theorem idStart_not_digit (c : Char) (h : isIdStart c = true) : isDigit c = false := by
  simp only [isIdStart, Bool.or_eq_true, beq_iff_eq] at h
  rcases h with h | h
  · simp only [Char.isAlpha, Char.isUpper, Char.isLower, Bool.or_eq_true, Bool.and_eq_true, decide_eq_true_eq] at h
    simp only [isDigit, Char.isDigit, Bool.and_eq_false_iff, decide_eq_false_iff_not]
    have h48 : ('0' : Char).val = 48 := rfl
    have h57 : ('9' : Char).val = 57 := rfl
    have h65 : ('A' : Char).val = 65 := rfl
    have h90 : ('Z' : Char).val = 90 := rfl
    have h97 : ('a' : Char).val = 97 := rfl
    have h122 : ('z' : Char).val = 122 := rfl
    rcases h with ⟨h1, h2⟩ | ⟨h1, h2⟩
    · right; intro hle
      have a1 : (65 : UInt32) ≤ c.val := by simpa [h65] using h1
      have a2 : c.val ≤ (57 : UInt32) := by simpa [h57] using hle
      exact absurd (UInt32.le_trans a1 a2) (by decide)
    · right; intro hle
      have a1 : (97 : UInt32) ≤ c.val := by simpa [h97] using h1
      have a2 : c.val ≤ (57 : UInt32) := by simpa [h57] using hle
      exact absurd (UInt32.le_trans a1 a2) (by decide)
  · subst h; decide

theorem idStart_not_minus (c : Char) (h : isIdStart c = true) : (c == '-') = false := by
  cases hq : (c == '-') with
  | false => rfl
  | true =>
    have : c = '-' := by simpa using hq
    subst this
    exact absurd h (by decide)

theorem idStart_not_quote (c : Char) (h : isIdStart c = true) : (c == '\'') = false := by
  cases hq : (c == '\'') with
  | false => rfl
  | true =>
    have : c = '\'' := by simpa using hq
    subst this
    exact absurd h (by decide)

/-- an identifier is read back as one ID token, whatever follows that is not an identifier character -/
theorem lex_id (s : String) (h : identOk s = true) : Lx (Stops isIdChar) s.toList [.id s] := by
  obtain ⟨c, r, hs, hc, hr⟩ := identOk_chars h
  refine ⟨1, ?_⟩
  intro rest hrest n
  rw [hs]
  have htw := takeWhile_append_stops isIdChar r rest hr hrest
  have hdw := dropWhile_append_stops isIdChar r rest hr hrest
  have hname : String.ofList (c :: r) = s := by rw [← hs]; exact String.ofList_toList
  simp [lexFuel, lexOne, idStart_not_digit c hc, idStart_not_minus c hc, idStart_not_quote c hc, hc, htw, hdw, hname]

/-! ## numbers -/

/-- characters that could continue a number: a digit, `.`, `e` -/
def numCont (c : Char) : Bool := isDigit c || c == '.' || c == 'e'

theorem natChars_digits (n : Nat) : ∀ c ∈ natChars n, isDigit c = true := by
  intro c hc
  exact Nat.isDigit_of_mem_toDigits (by decide) (by decide) hc

theorem natChars_cons (n : Nat) : ∃ c r, natChars n = c :: r := by
  cases h : natChars n with
  | nil => exact absurd h Nat.toDigits_ne_nil
  | cons c r => exact ⟨c, r, rfl⟩

theorem natVal_natChars (n : Nat) : natVal (natChars n) = n := Nat.ofDigitChars_ten_toDigits

theorem lexExp_none_of_stops (rest : List Char) (h : Stops numCont rest) : lexExp rest = none := by
  cases rest with
  | nil => rfl
  | cons c r =>
    have hc : numCont c = false := h
    have hne : ¬ c = 'e' := by
      intro e; subst e; exact absurd hc (by decide)
    unfold lexExp
    split
    · rename_i heq; exact absurd (by simpa using heq : c = 'e' ∧ _).1 hne
    · rfl

theorem lexNumber_nat (neg : Bool) (n : Nat) (rest : List Char) (h : Stops numCont rest) :
    lexNumber neg (natChars n ++ rest) =
      .tok (.int (if neg then - (Int.ofNat n) else Int.ofNat n)) rest := by
  have hst : Stops isDigit rest := by
    cases rest with
    | nil => trivial
    | cons c r =>
      have hc : numCont c = false := h
      show isDigit c = false
      simp only [numCont, Bool.or_eq_false_iff] at hc
      exact hc.1.1
  have htw := takeWhile_append_stops isDigit (natChars n) rest (natChars_digits n) hst
  have hdw := dropWhile_append_stops isDigit (natChars n) rest (natChars_digits n) hst
  have hexp := lexExp_none_of_stops rest h
  unfold lexNumber
  simp only [htw, hdw, natVal_natChars]
  cases rest with
  | nil => simp [hexp]
  | cons c r =>
    have hc : numCont c = false := h
    have hne : ¬ c = '.' := by
      intro e; subst e; exact absurd hc (by decide)
    split
    · rename_i heq; exact absurd (by simpa using heq : c = '.' ∧ _).1 hne
    · simp [hexp]

/-- a natural number is read back as one INT token -/
theorem lex_nat (n : Nat) : Lx (Stops numCont) (natChars n) [.int (Int.ofNat n)] := by
  refine ⟨1, ?_⟩
  intro rest hrest m
  obtain ⟨c, r, hcr⟩ := natChars_cons n
  have hd : isDigit c = true := natChars_digits n c (by rw [hcr]; simp)
  have := lexNumber_nat false n rest hrest
  rw [hcr] at this ⊢
  simp only [List.cons_append] at this ⊢
  simp [lexFuel, lexOne, hd, this]

/-- an integer of either sign is read back as one INT token (negative constants keep their sign) -/
theorem lex_int (v : Int) : Lx (Stops numCont) (intChars v) [.int v] := by
  cases v with
  | ofNat n => exact lex_nat n
  | negSucc n =>
    refine ⟨1, ?_⟩
    intro rest hrest m
    obtain ⟨c, r, hcr⟩ := natChars_cons (n + 1)
    have hd : isDigit c = true := natChars_digits (n + 1) c (by rw [hcr]; simp)
    have := lexNumber_nat true (n + 1) rest hrest
    simp only [intChars, List.cons_append]
    rw [hcr] at this ⊢
    simp only [List.cons_append] at this ⊢
    have hd' : c.isDigit = true := hd
    simp [lexFuel, lexOne, isDigit, hd', this, Int.negSucc_eq, show ('-' : Char).isDigit = false from by decide]

/-! ## quoted strings -/

theorem lex_str (cs : List Char) (h : ∀ c ∈ cs, isStrChar c = true) :
    Lx (fun _ => True) ('\'' :: cs ++ ['\'']) [.str (String.ofList cs)] := by
  refine ⟨1, ?_⟩
  intro rest _ n
  have hst : Stops isStrChar ('\'' :: rest) := by show isStrChar '\'' = false; decide
  have htw := takeWhile_append_stops isStrChar cs ('\'' :: rest) h hst
  have hdw := dropWhile_append_stops isStrChar cs ('\'' :: rest) h hst
  have e : '\'' :: cs ++ ['\''] ++ rest = '\'' :: (cs ++ '\'' :: rest) := by simp
  rw [e]
  simp [lexFuel, lexOne, isDigit, isIdStart, htw, hdw, show ('\'' : Char).isDigit = false from by decide,
    show ('\'' : Char).isAlpha = false from by decide]

/-! ## punctuation and operators -/

/-- the one-character symbols that need no look-ahead -/
theorem lex_single (c : Char) (hc : c ∈ [',', ':', ';', '?', '+', '*', '%', '[', ']', '/', '(', ')', '~', '{', '}', '&', '^', '|'])
    (B : List Char → Prop) : Lx B [c] [.sym (String.singleton c)] := by
  refine ⟨1, ?_⟩
  intro rest _ n
  simp only [List.mem_cons, List.not_mem_nil, or_false] at hc
  rcases hc with h | h | h | h | h | h | h | h | h | h | h | h | h | h | h | h | h | h <;> subst h <;>
    (cases rest <;> simp [lexFuel, lexOne, lexSym, singles, isDigit, isIdStart, isWs, Char.isDigit, Char.isAlpha,
      Char.isUpper, Char.isLower] <;> rfl)

/-- `-` as an operator: what follows is not a digit -/
theorem lex_minus : Lx (Stops isDigit) ['-'] [.sym "-"] := by
  refine ⟨1, ?_⟩
  intro rest hr n
  cases rest with
  | nil => simp [lexFuel, lexOne, lexSym, singles, isDigit, isIdStart, isWs, Char.isDigit, Char.isAlpha, Char.isUpper, Char.isLower]
  | cons d r =>
    have hd : isDigit d = false := hr
    have h1 : isDigit '-' = false := by decide
    have h2 : isIdStart '-' = false := by decide
    have h3 : isWs '-' = false := by decide
    have h4 : lexSym '-' (d :: r) = some ("-", d :: r) := by simp [lexSym, singles]
    simp [lexFuel, lexOne, h1, h2, h3, hd, h4]

/-- `=`, `<`, `>` as symbols of their own: the next character does not extend them -/
theorem lex_eq : Lx (Stops (fun c => c == '=')) ['='] [.sym "="] := by
  refine ⟨1, ?_⟩
  intro rest hr n
  cases rest with
  | nil => simp [lexFuel, lexOne, lexSym, singles, isDigit, isIdStart, isWs, Char.isDigit, Char.isAlpha, Char.isUpper, Char.isLower]
  | cons d r =>
    have hd : ¬ d = '=' := by simpa [Stops] using hr
    simp only [lexFuel, lexOne, lexSym]
    simp [singles, isDigit, isIdStart, isWs, Char.isDigit, Char.isAlpha, Char.isUpper, Char.isLower]
    split <;> simp_all

theorem lex_lt : Lx (Stops (fun c => c == '<' || c == '=')) ['<'] [.sym "<"] := by
  refine ⟨1, ?_⟩
  intro rest hr n
  cases rest with
  | nil => simp [lexFuel, lexOne, lexSym, singles, isDigit, isIdStart, isWs, Char.isDigit, Char.isAlpha, Char.isUpper, Char.isLower]
  | cons d r =>
    have hd : ¬ d = '<' ∧ ¬ d = '=' := by simpa [Stops] using hr
    simp only [lexFuel, lexOne, lexSym]
    simp [singles, isDigit, isIdStart, isWs, Char.isDigit, Char.isAlpha, Char.isUpper, Char.isLower]
    split <;> simp_all

theorem lex_gt : Lx (Stops (fun c => c == '>' || c == '=')) ['>'] [.sym ">"] := by
  refine ⟨1, ?_⟩
  intro rest hr n
  cases rest with
  | nil => simp [lexFuel, lexOne, lexSym, singles, isDigit, isIdStart, isWs, Char.isDigit, Char.isAlpha, Char.isUpper, Char.isLower]
  | cons d r =>
    have hd : ¬ d = '>' ∧ ¬ d = '=' := by simpa [Stops] using hr
    simp only [lexFuel, lexOne, lexSym]
    simp [singles, isDigit, isIdStart, isWs, Char.isDigit, Char.isAlpha, Char.isUpper, Char.isLower]
    split <;> simp_all

/-- the two-character operators -/
theorem lex_two (a b : Char) (s : String)
    (h : (a, b, s) ∈ [('<', '<', "<<"), ('>', '>', ">>"), ('!', '=', "!="), ('=', '=', "=="), ('<', '=', "<="), ('>', '=', ">=")])
    (B : List Char → Prop) : Lx B [a, b] [.sym s] := by
  refine ⟨1, ?_⟩
  intro rest _ n
  simp only [List.mem_cons, List.not_mem_nil, or_false, Prod.mk.injEq] at h
  rcases h with ⟨rfl, rfl, rfl⟩ | ⟨rfl, rfl, rfl⟩ | ⟨rfl, rfl, rfl⟩ | ⟨rfl, rfl, rfl⟩ | ⟨rfl, rfl, rfl⟩ | ⟨rfl, rfl, rfl⟩ <;>
    simp [lexFuel, lexOne, lexSym, singles, isDigit, isIdStart, isWs, Char.isDigit, Char.isAlpha, Char.isUpper,
      Char.isLower]

end Proofs.IRLex
