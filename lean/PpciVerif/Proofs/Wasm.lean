import PpciVerif.Spec.Wasm
/-!
# Proofs.Wasm — meta-properties of the reference interpreter `Spec.Wasm` and laws of its operators

* `run` is monotone in the fuel: a terminated outcome (values / trap / stuck) is never changed by more fuel;
  hence two runs with different fuel that both terminate agree (the outcome is a function of the program alone).
* laws of the integer comparison operators that a translator may use to fold `i32.eqz` into the comparison, and
  the NaN behaviour of the float comparisons that forbids the same folding for floats.
* trapping rules of the division operators, count masking of shifts.

Core Lean only (no Mathlib).
-/
namespace Proofs.Wasm
open Spec.Wasm Spec.WasmInt

/-! ## fuel -/

theorem run_mono (m : Module) : ∀ (n k : Nat) (c : Config) (r : Outcome),
    run m n c = r → r ≠ .outOfFuel → run m (n + k) c = r := by
  intro n
  induction n with
  | zero => intro k c r h hr; simp [run] at h; exact absurd h.symm hr
  | succ n ih =>
    intro k c r h hr
    rw [Nat.succ_add]
    simp only [run] at h ⊢
    cases hs : step m c with
    | next c' => rw [hs] at h; simp only at h ⊢; exact ih k c' r h hr
    | done vs s => rw [hs] at h; simpa using h
    | trap w s => rw [hs] at h; simpa using h
    | stuck w => rw [hs] at h; simpa using h

theorem run_le (m : Module) {n k : Nat} (hnk : n ≤ k) (c : Config) (r : Outcome)
    (h : run m n c = r) (hr : r ≠ .outOfFuel) : run m k c = r := by
  obtain ⟨d, rfl⟩ := Nat.exists_eq_add_of_le hnk
  exact run_mono m n d c r h hr

/-- the outcome of a terminating execution does not depend on the fuel -/
theorem run_fuel_irrelevant (m : Module) (n k : Nat) (c : Config) (r₁ r₂ : Outcome)
    (h₁ : run m n c = r₁) (h₂ : run m k c = r₂) (hr₁ : r₁ ≠ .outOfFuel) (hr₂ : r₂ ≠ .outOfFuel) : r₁ = r₂ := by
  rcases Nat.le_total n k with hnk | hkn
  · rw [← h₂, run_le m hnk c r₁ h₁ hr₁]
  · rw [← h₁, run_le m hkn c r₂ h₂ hr₂]

theorem invoke_mono (m : Module) (s : Store) (fi : Nat) (args : List Value) (n k : Nat) (r : Outcome)
    (h : invoke m s fi args n = r) (hr : r ≠ .outOfFuel) : invoke m s fi args (n + k) = r := by
  unfold invoke at h ⊢
  cases hf : m.funcs[fi]? with
  | none => rw [hf] at h; simpa using h
  | some f =>
    rw [hf] at h; simp only at h ⊢
    cases ht : m.types[f.type]? with
    | none => rw [ht] at h; simpa using h
    | some ft =>
      rw [ht] at h; simp only at h ⊢
      by_cases hne : List.map Value.type args = ft.params
      · simp only [hne, ne_eq, not_true_eq_false, if_false] at h ⊢
        exact run_mono m n k _ r h hr
      · simpa [hne] using h

/-! ## integer comparisons: `eqz` of a comparison is the opposite comparison -/

theorem ieqz_b2i (x : Bool) : ieqz (b2i x) = b2i (!x) := by
  cases x <;> decide

theorem bnot_lt_int (x y : Int) : (!decide (x < y)) = decide (y ≤ x) := by
  by_cases h : x < y <;> simp [h] <;> omega
theorem bnot_le_int (x y : Int) : (!decide (x ≤ y)) = decide (y < x) := by
  by_cases h : x ≤ y <;> simp [h] <;> omega
theorem bnot_lt_nat (x y : Nat) : (!decide (x < y)) = decide (y ≤ x) := by
  by_cases h : x < y <;> simp [h] <;> omega
theorem bnot_le_nat (x y : Nat) : (!decide (x ≤ y)) = decide (y < x) := by
  by_cases h : x ≤ y <;> simp [h] <;> omega

theorem ieqz_ilt_s {n} (a b : BitVec n) : ieqz (ilt_s a b) = ige_s a b := by
  unfold ilt_s ige_s; rw [ieqz_b2i]; congr 1
  simp only [BitVec.slt, BitVec.sle]; exact bnot_lt_int _ _

theorem ieqz_ilt_u {n} (a b : BitVec n) : ieqz (ilt_u a b) = ige_u a b := by
  unfold ilt_u ige_u; rw [ieqz_b2i]; congr 1
  simp only [BitVec.ult, BitVec.ule]; exact bnot_lt_nat _ _

theorem ieqz_igt_s {n} (a b : BitVec n) : ieqz (igt_s a b) = ile_s a b := by
  unfold igt_s ile_s; rw [ieqz_b2i]; congr 1
  simp only [BitVec.slt, BitVec.sle]; exact bnot_lt_int _ _

theorem ieqz_igt_u {n} (a b : BitVec n) : ieqz (igt_u a b) = ile_u a b := by
  unfold igt_u ile_u; rw [ieqz_b2i]; congr 1
  simp only [BitVec.ult, BitVec.ule]; exact bnot_lt_nat _ _

theorem ieqz_ile_s {n} (a b : BitVec n) : ieqz (ile_s a b) = igt_s a b := by
  unfold igt_s ile_s; rw [ieqz_b2i]; congr 1
  simp only [BitVec.slt, BitVec.sle]; exact bnot_le_int _ _

theorem ieqz_ile_u {n} (a b : BitVec n) : ieqz (ile_u a b) = igt_u a b := by
  unfold igt_u ile_u; rw [ieqz_b2i]; congr 1
  simp only [BitVec.ult, BitVec.ule]; exact bnot_le_nat _ _

theorem ieqz_ige_s {n} (a b : BitVec n) : ieqz (ige_s a b) = ilt_s a b := by
  unfold ilt_s ige_s; rw [ieqz_b2i]; congr 1
  simp only [BitVec.slt, BitVec.sle]; exact bnot_le_int _ _

theorem ieqz_ige_u {n} (a b : BitVec n) : ieqz (ige_u a b) = ilt_u a b := by
  unfold ilt_u ige_u; rw [ieqz_b2i]; congr 1
  simp only [BitVec.ult, BitVec.ule]; exact bnot_le_nat _ _

theorem ieqz_ieq {n} (a b : BitVec n) : ieqz (ieq a b) = ine a b := by
  unfold ieq ine; rw [ieqz_b2i]; congr 1

theorem ieqz_ine {n} (a b : BitVec n) : ieqz (ine a b) = ieq a b := by
  unfold ieq ine; rw [ieqz_b2i]; congr 1
  simp [bne]

/-! ## float comparisons with a NaN operand -/

theorem fcmp_nan_left {n} (mb : Nat) (a b : BitVec n) (h : fIsNaN mb a = true) :
    feq mb a b = 0 ∧ fne mb a b = 1 ∧ flt mb a b = 0 ∧ fgt mb a b = 0 ∧ fle mb a b = 0 ∧ fge mb a b = 0 := by
  simp [feq, fne, flt, fgt, fle, fge, h, b2i]

theorem fcmp_nan_right {n} (mb : Nat) (a b : BitVec n) (h : fIsNaN mb b = true) :
    feq mb a b = 0 ∧ fne mb a b = 1 ∧ flt mb a b = 0 ∧ fgt mb a b = 0 ∧ fle mb a b = 0 ∧ fge mb a b = 0 := by
  simp [feq, fne, flt, fgt, fle, fge, h, b2i]

/-- for floats `eqz (a < b)` is NOT `a >= b`: with a NaN operand the first is 1, the second 0
    (likewise for the three other ordered comparisons) -/
theorem feqz_ordered_ne_negated {n} (mb : Nat) (a b : BitVec n) (h : fIsNaN mb a = true ∨ fIsNaN mb b = true) :
    ieqz (flt mb a b) ≠ fge mb a b ∧ ieqz (fgt mb a b) ≠ fle mb a b ∧
    ieqz (fle mb a b) ≠ fgt mb a b ∧ ieqz (fge mb a b) ≠ flt mb a b := by
  rcases h with h | h
  · obtain ⟨_, _, h1, h2, h3, h4⟩ := fcmp_nan_left mb a b h
    rw [h1, h2, h3, h4]; decide
  · obtain ⟨_, _, h1, h2, h3, h4⟩ := fcmp_nan_right mb a b h
    rw [h1, h2, h3, h4]; decide

/-- `eq`/`ne` may be folded even for floats -/
theorem ieqz_feq {n} (mb : Nat) (a b : BitVec n) : ieqz (feq mb a b) = fne mb a b := by
  unfold feq fne; rw [ieqz_b2i]; congr 1
  cases fIsNaN mb a <;> cases fIsNaN mb b <;> simp

/-! ## traps of the division operators, shift counts -/

theorem idiv_u_zero {n} (a : BitVec n) : idiv_u a 0 = none := by simp [idiv_u]
theorem idiv_s_zero {n} (a : BitVec n) : idiv_s a 0 = none := by simp [idiv_s]
theorem irem_u_zero {n} (a : BitVec n) : irem_u a 0 = none := by simp [irem_u]
theorem irem_s_zero {n} (a : BitVec n) : irem_s a 0 = none := by simp [irem_s]

theorem idiv_u_defined {n} (a b : BitVec n) (h : b ≠ 0) : idiv_u a b = some (a / b) := by
  unfold idiv_u; rw [if_neg h]
theorem irem_u_defined {n} (a b : BitVec n) (h : b ≠ 0) : irem_u a b = some (a % b) := by
  unfold irem_u; rw [if_neg h]
theorem irem_s_defined {n} (a b : BitVec n) (h : b ≠ 0) : irem_s a b = some (a.srem b) := by
  unfold irem_s; rw [if_neg h]

/-- only the count modulo the width matters -/
theorem ishl_count {n} (a b c : BitVec n) (h : b.toNat % n = c.toNat % n) : ishl a b = ishl a c := by
  unfold ishl; rw [h]
theorem ishr_u_count {n} (a b c : BitVec n) (h : b.toNat % n = c.toNat % n) : ishr_u a b = ishr_u a c := by
  unfold ishr_u; rw [h]
theorem ishr_s_count {n} (a b c : BitVec n) (h : b.toNat % n = c.toNat % n) : ishr_s a b = ishr_s a c := by
  unfold ishr_s; rw [h]

end Proofs.Wasm
