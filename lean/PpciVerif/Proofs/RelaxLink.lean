import PpciVerif.Proofs.RelaxInsn
import PpciVerif.Proofs.RelaxScan
import PpciVerif.Model.RelaxLink
/-! Lemmas for C13, part 6: one step of `do_relocations` on a shrunk site. -/
namespace Proofs.Relax
open Model.Linker Proofs.Linker Proofs.Reloc
open Model.Relax hiding Hole
open Model.RelaxLink

theorem splice_site {data new : List Nat} {off : Nat} (h : off + new.length ≤ data.length) :
    ((splice data off new).drop off).take new.length = new := by
  unfold splice
  have hl : (data.take off).length = off := by simp only [List.length_take]; omega
  rw [List.append_assoc, List.drop_append_of_le_length (by omega), List.drop_of_length_le (by omega)]
  simp

/-- `_do_relocation` of a `bc_imm11` entry on a site that holds the two bytes `do_shrink` kept of a `jal`:
    afterwards the site holds, for the independent RV32C decoder, `c.j` / `c.jal` to the symbol's address -/
theorem doRelocation_shrunk_site {o o2 : Obj} {r : Reloc} {sec : Section} {k : Shrink} {data : List Nat} {S : Nat}
    (h : doRelocation o r = .ok o2) (hty : r.typ = "bc_imm11")
    (hsec : getSec o.sections r.sect = some sec)
    (hS : getSymbolIdValue o r.symbolId = .ok S)
    (hlen : data.length = 4) (hb : Bytes data)
    (hsite : (sec.data.drop r.offset).take 2 = patch k data)
    (hfit : Spec.Bits.fitsS 12 ((S : Int) - ((sec.address + r.offset : Nat) : Int))) :
    ∃ sec2 off, getSec o2.sections r.sect = some sec2 ∧ sec2.address = sec.address ∧
      Spec.RV32.decodeC (Spec.RelocSem.wordLE ((sec2.data.drop r.offset).take 2)) = some (cinstr k off) ∧
      ((sec.address + r.offset : Nat) : Int) + off = S := by
  unfold doRelocation at h
  obtain ⟨S', hS', h⟩ := bind_ok h
  have : S' = S := by
    unfold liftL at hS'
    rw [hS] at hS'
    cases hS'; rfl
  subst this
  rw [hsec] at h
  simp only at h
  have hinfo : relocInfo r.typ = some ⟨2, none⟩ := by rw [hty]; decide
  rw [hinfo] at h
  obtain ⟨_, a1, h⟩ := bind_ok h
  rw [hsite] at h
  have happ : Model.Reloc.apply "riscv" r.typ r.addend (S' : Int) (patch k data) ((sec.address + r.offset : Nat) : Int)
      = some (Model.Reloc.Rvc.bcImm11 (S' : Int) (patch k data) ((sec.address + r.offset : Nat) : Int)) := by
    rw [hty]; rfl
  rw [happ] at h
  simp only at h
  cases hout : Model.Reloc.Rvc.bcImm11 (S' : Int) (patch k data) ((sec.address + r.offset : Nat) : Int) with
  | error e => rw [hout] at h; cases h
  | ok out =>
    rw [hout] at h
    simp only at h
    obtain ⟨_, a2, h⟩ := bind_ok h
    cases h
    obtain ⟨l2, off, hdec, htgt⟩ := shrunk_decodes k hlen hb hout hfit
    have hoff : r.offset + 2 ≤ sec.data.length := by
      have := congrArg List.length hsite
      rw [patch_length k data hlen] at this
      simp only [List.length_take, List.length_drop] at this
      omega
    refine ⟨{ sec with data := splice sec.data r.offset out }, off, ?_, rfl, ?_, htgt⟩
    · show getSec (updSec o.sections r.sect _) r.sect = _
      rw [getSec_updSec_same o.sections r.sect (fun s => { s with data := splice s.data r.offset out }) (fun s => rfl), hsec]
      rfl
    · simp only
      have := splice_site (data := sec.data) (new := out) (off := r.offset) (by rw [l2]; exact hoff)
      rw [l2] at this
      rw [this]
      exact hdec

end Proofs.Relax
