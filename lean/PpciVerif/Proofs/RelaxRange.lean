import PpciVerif.Proofs.RelaxObj
/-! Lemmas for C13, part 5: two sections of one image — the address map is monotone and never increases a
distance, so a reference that was in reach of C.J stays in reach. -/
namespace Proofs.Relax
open Spec.Relax Model.Linker Proofs.Linker
open Model.Relax hiding Hole

/-- bytes removed in front of the `i`-th section of an image (`delta` when the loop reaches it) -/
def deltaAt (m : HoleMap) : Nat → List Section → Nat → Nat
  | d, [], _ => d
  | d, _ :: _, 0 => d
  | d, s :: r, i + 1 => deltaAt m (d + change m s.name) r i

theorem shiftRes_get (m : HoleMap) : ∀ (news : List Section) (d i : Nat) (s : Section), news[i]? = some s →
    (shiftRes m d news)[i]? = some (setAddress (s.address - deltaAt m d news i) s)
  | [], _, _, _, h => by cases h
  | a :: r, d, 0, s, h => by
    simp only [List.getElem?_cons_zero, Option.some.injEq] at h
    subst h
    simp [shiftRes, deltaAt]
  | a :: r, d, i + 1, s, h => by
    simp only [List.getElem?_cons_succ] at h
    simp only [shiftRes, List.getElem?_cons_succ, deltaAt]
    exact shiftRes_get m r _ i s h

theorem deltaAt_ge (m : HoleMap) : ∀ (news : List Section) (d i : Nat), d ≤ deltaAt m d news i
  | [], _, _ => by simp [deltaAt]
  | _ :: _, _, 0 => by simp [deltaAt]
  | a :: r, d, i + 1 => by
    simp only [deltaAt]
    have := deltaAt_ge m r (d + change m a.name) i
    omega

/-- a later section has lost at least the holes of every earlier one -/
theorem deltaAt_mono (m : HoleMap) : ∀ (news : List Section) (d i j : Nat) (s : Section), i < j → news[i]? = some s →
    deltaAt m d news i + change m s.name ≤ deltaAt m d news j
  | [], _, _, _, _, _, h => by cases h
  | a :: r, d, 0, j + 1, s, _, h => by
    simp only [List.getElem?_cons_zero, Option.some.injEq] at h
    subst h
    simp only [deltaAt]
    exact deltaAt_ge m r _ j
  | a :: r, d, i + 1, j + 1, s, hij, h => by
    simp only [List.getElem?_cons_succ] at h
    simp only [deltaAt]
    exact deltaAt_mono m r _ i j s (by omega) h

theorem shiftFits_get (m : HoleMap) : ∀ (news : List Section) (d i : Nat) (s : Section), ShiftFits m d news →
    news[i]? = some s → deltaAt m d news i ≤ s.address
  | [], _, _, _, _, h => by cases h
  | a :: r, d, 0, s, hf, h => by
    simp only [List.getElem?_cons_zero, Option.some.injEq] at h
    subst h
    exact hf.1
  | a :: r, d, i + 1, s, hf, h => by
    simp only [List.getElem?_cons_succ] at h
    simp only [deltaAt]
    exact shiftFits_get m r _ i s hf.2 h

theorem all2_get {α : Type} {R : α → α → Prop} : ∀ {l l' : List α}, All2 R l l' → ∀ (i : Nat) (a : α),
    l[i]? = some a → ∃ b, l'[i]? = some b ∧ R a b
  | _, _, .nil, _, _, h => by cases h
  | _, _, .cons (a := x) (b := y) hxy t, 0, a, h => by
    simp only [List.getElem?_cons_zero, Option.some.injEq] at h
    subst h
    exact ⟨y, by simp, hxy⟩
  | _, _, .cons (a := x) (b := y) hxy t, i + 1, a, h => by
    simp only [List.getElem?_cons_succ] at h ⊢
    exact all2_get t i a h

theorem pairwise_get {α : Type} {R : α → α → Prop} : ∀ {l : List α}, l.Pairwise R → ∀ (i j : Nat) (a b : α),
    i < j → l[i]? = some a → l[j]? = some b → R a b
  | [], _, _, _, _, _, _, h, _ => by cases h
  | x :: r, hp, 0, j + 1, a, b, _, ha, hb => by
    simp only [List.getElem?_cons_zero, Option.some.injEq] at ha
    simp only [List.getElem?_cons_succ] at hb
    subst ha
    exact (List.pairwise_cons.1 hp).1 b (List.mem_of_getElem? hb)
  | x :: r, hp, i + 1, j + 1, a, b, hij, ha, hb => by
    simp only [List.getElem?_cons_succ] at ha hb
    exact pairwise_get (List.pairwise_cons.1 hp).2 i j a b (by omega) ha hb

theorem removedBefore_le_total (hs : List Hole) (o : Nat) : removedBefore hs o ≤ totalSize hs := by
  induction hs with
  | nil => exact Nat.le_refl _
  | cons h rest ih =>
    simp only [removedBefore, totalSize]
    split <;> omega

/-- `φ` of an offset inside the section is inside the shrunk section -/
theorem phi_le_newlen {hs : List Hole} {len p : Nat} (hf : HolesFrom 0 hs) (hw : holesWithin hs len) (hp : p ≤ len) :
    phi hs p + totalSize hs ≤ len := by
  have hin : strictlyInside hs len = false := by
    unfold strictlyInside
    rw [List.any_eq_false]
    intro h hh
    have := hw h hh
    simp only [decide_eq_true_eq]
    omega
  have m1 := phi_mono hf hin hp
  have hall : removedBefore hs len = totalSize hs := by
    clear m1 hin hp hf
    induction hs with
    | nil => rfl
    | cons g rest ih =>
      have hg := hw g (by simp)
      simp only [removedBefore, totalSize]
      rw [ih (fun x hx => hw x (by simp [hx]))]
      split <;> omega
  have := removedBefore_le_self hf hin
  unfold phi at m1 ⊢
  omega

/-- TWO SECTIONS OF ONE IMAGE.  `olds` are the sections of an image before relaxation (an ascending
    non-overlapping chain), `news` the same sections after hole punching; `sn₁`, `sn₂` are sections `i < j`
    of the image after the address shift.  For an offset `p` in the earlier and `t` in the later section
    (neither strictly inside a hole) the address map keeps the order and never increases the distance. -/
theorem two_sections_distance (m : HoleMap) (hok : HolesOK m) {olds news : List Section} {cur : Nat}
    (hrel : All2 (Shorter m) olds news) (hc : Chain cur olds)
    {i j : Nat} (hij : i < j) {so₁ so₂ sn₁ sn₂ : Section}
    (ho₁ : olds[i]? = some so₁) (ho₂ : olds[j]? = some so₂)
    (hn₁ : (shiftRes m 0 news)[i]? = some sn₁) (hn₂ : (shiftRes m 0 news)[j]? = some sn₂)
    (hw₁ : holesWithin (holesOf m so₁.name) so₁.data.length)
    {p t : Nat} (hp : p ≤ so₁.data.length)
    (hsp : strictlyInside (holesOf m so₁.name) p = false) (hst : strictlyInside (holesOf m so₂.name) t = false) :
    so₁.address + p ≤ so₂.address + t ∧
    sn₁.address + phi (holesOf m so₁.name) p ≤ sn₂.address + phi (holesOf m so₂.name) t ∧
    (sn₂.address + phi (holesOf m so₂.name) t) - (sn₁.address + phi (holesOf m so₁.name) p)
      ≤ (so₂.address + t) - (so₁.address + p) := by
  obtain ⟨q₁, hq₁, r₁⟩ := all2_get hrel i so₁ ho₁
  obtain ⟨q₂, hq₂, r₂⟩ := all2_get hrel j so₂ ho₂
  have e₁ := shiftRes_get m news 0 i q₁ hq₁
  have e₂ := shiftRes_get m news 0 j q₂ hq₂
  rw [hn₁] at e₁; rw [hn₂] at e₂
  simp only [Option.some.injEq] at e₁ e₂
  obtain ⟨cs, fits⟩ := chain_shiftRes m hrel cur 0 hc (Nat.zero_le _)
  have f₁ := shiftFits_get m news 0 i q₁ fits hq₁
  have f₂ := shiftFits_get m news 0 j q₂ fits hq₂
  have dm := deltaAt_mono m news 0 i j q₁ hij hq₁
  have oldpw := pairwise_get (chain_pairwise olds cur hc) i j so₁ so₂ hij ho₁ ho₂
  have newpw := pairwise_get (chain_pairwise _ _ cs) i j sn₁ sn₂ hij hn₁ hn₂
  obtain ⟨n₁, a₁, l₁⟩ := r₁
  obtain ⟨n₂, a₂, l₂⟩ := r₂
  have hc₁ : change m so₁.name = totalSize (holesOf m so₁.name) := change_eq_totalSize m so₁.name
  have hphi := phi_le_newlen (hok so₁.name) hw₁ hp
  have hrb₁ := removedBefore_le_total (holesOf m so₁.name) p
  have hrbp := removedBefore_le_self (hok so₁.name) hsp
  have hrbt := removedBefore_le_self (hok so₂.name) hst
  subst e₁ e₂
  simp only [setAddress] at newpw ⊢
  rw [n₁] at dm
  unfold phi at hphi ⊢
  refine ⟨by omega, by omega, by omega⟩

end Proofs.Relax
