import PpciVerif.Proofs.WasmBinCanon
/-! C21 helper lemmas, converse direction, definitions. -/
namespace Proofs.WasmBin
open Model.WasmBin
open Model.Leb128 (uencLoop sencLoop unsignedDecode signedDecode signedEncode)

/-! ### locals -/

theorem groupLocals_replicate (t : Nat) (L : List Nat) (g : List (Nat × Nat)) (hg : groupLocals L = g)
    (hhead : ∀ c t', g.head? = some (c, t') → t' ≠ t) : ∀ c, groupLocals (List.replicate (c + 1) t ++ L) = (c + 1, t) :: g
  | 0 => by
    show groupLocals (t :: L) = (0 + 1, t) :: g
    cases g with
    | nil => simp [groupLocals, hg]
    | cons p g' =>
      obtain ⟨c', t'⟩ := p
      have := hhead c' t' rfl
      simp [groupLocals, hg, this]
  | c + 1 => by
    have ih := groupLocals_replicate t L g hg hhead c
    rw [List.replicate_succ, List.cons_append]
    simp only [groupLocals, ih]
    simp

theorem group_expand : ∀ (g : List (Nat × Nat)), groupsCanon g = true → groupLocals (expandLocals g) = g
  | [], _ => by simp [expandLocals, groupLocals]
  | (c, t) :: r, h => by
    simp only [groupsCanon, Bool.and_eq_true, decide_eq_true_eq] at h
    obtain ⟨⟨hc, hn⟩, hr⟩ := h
    have ih := group_expand r hr
    obtain ⟨c', rfl⟩ : ∃ c', c = c' + 1 := ⟨c - 1, by omega⟩
    simp only [expandLocals]
    refine groupLocals_replicate t _ r ih ?_ c'
    intro c2 t2 hh
    cases r with
    | nil => simp at hh
    | cons p r' =>
      obtain ⟨c3, t3⟩ := p
      simp only [List.head?_cons, Option.some.injEq, Prod.mk.injEq] at hh
      obtain ⟨rfl, rfl⟩ := hh
      simpa using hn

theorem expandLocals_mem : ∀ (g : List (Nat × Nat)) (t : Nat), t ∈ expandLocals g → ∃ p ∈ g, p.2 = t
  | [], t, h => by simp [expandLocals] at h
  | (c, t') :: r, t, h => by
    simp only [expandLocals, List.mem_append, List.mem_replicate] at h
    rcases h with ⟨_, rfl⟩ | h
    · exact ⟨(c, t), by simp, rfl⟩
    · obtain ⟨p, hp, hpt⟩ := expandLocals_mem r t h
      exact ⟨p, by simp [hp], hpt⟩

section Sane
variable {T : Tables} (hT : T.Sane = true)
include hT

theorem rFuncType_ok {bs rest : Bytes} {t : FuncType} (h : rFuncType T true bs = .ok (t, rest)) :
    bs = encFuncType T t ++ rest ∧ (t.params.all (typeOk T) && t.results.all (typeOk T)) = true := by
  obtain ⟨form, r, h1, h2⟩ := bind_ok h
  obtain ⟨u, r2, h3, h4⟩ := bind_ok h2
  obtain ⟨hv, rfl⟩ := guardP_ok h3
  obtain ⟨ps, r3, h5, h6⟩ := bind_ok h4
  obtain ⟨rs, r4, h7, h8⟩ := bind_ok h6
  obtain ⟨rfl, rfl⟩ := pure_ok h8
  have e1 := rByte_ok h1
  have hf : form = 0x60 := by simpa using hv
  obtain ⟨e2, q2⟩ := rVec_ok (rType T) (encType T) (fun t => typeOk T t = true) (fun bs x r h => rType_ok hT h) h5
  obtain ⟨e3, q3⟩ := rVec_ok (rType T) (encType T) (fun t => typeOk T t = true) (fun bs x r h => rType_ok hT h) h7
  refine ⟨by rw [e1, e2, e3, hf]; simp [encFuncType], ?_⟩
  simp only [Bool.and_eq_true, List.all_eq_true]
  exact ⟨q2, q3⟩

theorem rImport_ok {bs rest : Bytes} {i : Import} (h : rImport T true bs = .ok (i, rest)) :
    bs = encImport T i ++ rest ∧ importOk T i = true := by
  obtain ⟨mn, r, h1, h2⟩ := bind_ok h
  obtain ⟨nm, r2, h3, h4⟩ := bind_ok h2
  obtain ⟨k, r3, h5, h6⟩ := bind_ok h4
  obtain ⟨e1, v1⟩ := rName_ok h1
  obtain ⟨e2, v2⟩ := rName_ok h3
  have e3 := rByte_ok h5
  by_cases k0 : k = 0
  · simp only [k0, if_true] at h6
    obtain ⟨ti, r4, h7, h8⟩ := bind_ok h6
    obtain ⟨rfl, rfl⟩ := pure_ok h8
    have e4 := rU_ok h7
    exact ⟨by rw [e1, e2, e3, e4, k0]; simp [encImport, encImportDesc], by simp [importOk, v1, v2]⟩
  · simp only [k0, if_false] at h6
    by_cases k1 : k = 1
    · simp only [k1, if_true] at h6
      obtain ⟨tk, r4, h7, h8⟩ := bind_ok h6
      obtain ⟨l, r5, h9, h10⟩ := bind_ok h8
      obtain ⟨rfl, rfl⟩ := pure_ok h10
      obtain ⟨e4, o4⟩ := rType_ok hT h7
      have e5 := rLimits_ok h9
      exact ⟨by rw [e1, e2, e3, e4, e5, k1]; simp [encImport, encImportDesc], by simp [importOk, v1, v2, o4]⟩
    · simp only [k1, if_false] at h6
      by_cases k2 : k = 2
      · simp only [k2, if_true] at h6
        obtain ⟨l, r5, h9, h10⟩ := bind_ok h6
        obtain ⟨rfl, rfl⟩ := pure_ok h10
        have e5 := rLimits_ok h9
        exact ⟨by rw [e1, e2, e3, e5, k2]; simp [encImport, encImportDesc], by simp [importOk, v1, v2]⟩
      · simp only [k2, if_false] at h6
        by_cases k3 : k = 3
        · simp only [k3, if_true] at h6
          obtain ⟨t, r4, h7, h8⟩ := bind_ok h6
          obtain ⟨m, r5, h9, h10⟩ := bind_ok h8
          obtain ⟨rfl, rfl⟩ := pure_ok h10
          obtain ⟨e4, o4⟩ := rType_ok hT h7
          have e5 := rBool_ok h9
          exact ⟨by rw [e1, e2, e3, e4, e5, k3]; simp [encImport, encImportDesc], by simp [importOk, v1, v2, o4]⟩
        · simp [k3] at h6

theorem rTable_ok {bs rest : Bytes} {t : Table} (h : rTable T true bs = .ok (t, rest)) :
    bs = encTable T t ++ rest ∧ (t.kind == T.funcref || t.kind == T.externref) = true := by
  obtain ⟨k, r, h1, h2⟩ := bind_ok h
  obtain ⟨u, r2, h3, h4⟩ := bind_ok h2
  obtain ⟨hv, rfl⟩ := guardP_ok h3
  obtain ⟨l, r3, h5, h6⟩ := bind_ok h4
  obtain ⟨rfl, rfl⟩ := pure_ok h6
  obtain ⟨e1, _⟩ := rType_ok hT h1
  have e2 := rLimits_ok h5
  exact ⟨by rw [e1, e2]; simp [encTable], hv⟩

theorem rGlobal_ok {bs rest : Bytes} {g : Global} (h : rGlobal T true bs = .ok (g, rest)) :
    bs = encGlobal T g ++ rest ∧ (typeOk T g.ty && exprOk T g.init) = true := by
  obtain ⟨t, r, h1, h2⟩ := bind_ok h
  obtain ⟨m, r2, h3, h4⟩ := bind_ok h2
  obtain ⟨init, r3, h5, h6⟩ := bind_ok h4
  obtain ⟨rfl, rfl⟩ := pure_ok h6
  obtain ⟨e1, o1⟩ := rType_ok hT h1
  have e2 := rBool_ok h3
  obtain ⟨e3, o3⟩ := rExpr_ok hT h5
  exact ⟨by rw [e1, e2, e3]; simp [encGlobal], by simp [o1, o3]⟩

omit hT in
theorem rExport_ok {bs rest : Bytes} {e : Export} (h : rExport true bs = .ok (e, rest)) :
    bs = encExport e ++ rest ∧ (utf8Valid e.name && decide (e.kind < 4)) = true := by
  obtain ⟨nm, r, h1, h2⟩ := bind_ok h
  obtain ⟨k, r2, h3, h4⟩ := bind_ok h2
  obtain ⟨u, r3, h5, h6⟩ := bind_ok h4
  obtain ⟨hv, rfl⟩ := guardP_ok h5
  obtain ⟨idx, r4, h7, h8⟩ := bind_ok h6
  obtain ⟨rfl, rfl⟩ := pure_ok h8
  obtain ⟨e1, v1⟩ := rName_ok h1
  have e2 := rByte_ok h3
  have e3 := rU_ok h7
  exact ⟨by rw [e1, e2, e3]; simp [encExport], by simp [v1, hv]⟩

theorem rElem_ok {bs rest : Bytes} {e : Elem} (h : rElem T true bs = .ok (e, rest)) :
    bs = encElem T e ++ rest ∧ elemOk T e = true := by
  obtain ⟨x, r, h1, h2⟩ := bind_ok h
  have e1 := rU_ok h1
  by_cases hx : x = 0
  · simp only [hx, if_true] at h2
    obtain ⟨off, r2, h3, h4⟩ := bind_ok h2
    obtain ⟨refs, r3, h5, h6⟩ := bind_ok h4
    obtain ⟨rfl, rfl⟩ := pure_ok h6
    obtain ⟨e2, o2⟩ := rExpr_ok hT h3
    obtain ⟨e3, _⟩ := rVec_ok (rU true) encU (fun _ => True) (fun bs x r h => ⟨rU_ok h, trivial⟩) h5
    exact ⟨by rw [e1, e2, e3, hx]; simp [encElem], by simp [elemOk, o2]⟩
  · simp [hx] at h2

theorem rFunc_ok {bs rest : Bytes} {ls : List Nat} {body : List Instr} (ti : Nat)
    (h : rFunc T true bs = .ok ((ls, body), rest)) :
    bs = encFunc T ⟨ti, ls, body⟩ ++ rest ∧ (ls.all (typeOk T) && exprOk T body) = true := by
  obtain ⟨n, r, h1, h2⟩ := bind_ok h
  have e1 := rU_ok h1
  obtain ⟨payload, e2, l2, h3⟩ := rSub_ok h2
  simp only [rFuncBody] at h3
  obtain ⟨groups, r2, h4, h5⟩ := bind_ok h3
  obtain ⟨u, r3, h6, h7⟩ := bind_ok h5
  obtain ⟨hv, rfl⟩ := guardP_ok h6
  obtain ⟨b, r4, h8, h9⟩ := bind_ok h7
  obtain ⟨hp, hr⟩ := pure_ok h9
  simp only [Prod.mk.injEq] at hp
  obtain ⟨rfl, rfl⟩ := hp
  subst hr
  have hgc : groupsCanon groups = true := by simpa using hv
  obtain ⟨e3, q3⟩ := rVec_ok (do let c ← rU true; let t ← rType T; pure (c, t))
    (fun (p : Nat × Nat) => encU p.1 ++ encType T p.2) (fun p => typeOk T p.2 = true)
    (fun bs x r h => by
      obtain ⟨c, r1, g1, g2⟩ := bind_ok h
      obtain ⟨t, r2, g3, g4⟩ := bind_ok g2
      obtain ⟨rfl, rfl⟩ := pure_ok g4
      have f1 := rU_ok g1
      obtain ⟨f2, f3⟩ := rType_ok hT g3
      exact ⟨by rw [f1, f2]; simp, f3⟩) h4
  obtain ⟨e4, o4⟩ := rExpr_body_ok hT h8
  refine ⟨?_, ?_⟩
  · rw [e1, e2, ← l2, e3, e4]
    simp [encFunc, encSized, encFuncBody, group_expand groups hgc]
  · simp only [Bool.and_eq_true, List.all_eq_true]
    refine ⟨?_, o4⟩
    intro t ht
    obtain ⟨p, hp, rfl⟩ := expandLocals_mem groups t ht
    exact q3 p hp

theorem rData_ok {bs rest : Bytes} {d : Data} (h : rData T true bs = .ok (d, rest)) :
    bs = encData T d ++ rest ∧ dataOk T d = true := by
  obtain ⟨x, r, h1, h2⟩ := bind_ok h
  have e1 := rU_ok h1
  by_cases hx1 : x = 1
  · simp only [hx1, if_true] at h2
    obtain ⟨b, r2, h3, h4⟩ := bind_ok h2
    obtain ⟨rfl, rfl⟩ := pure_ok h4
    have e2 := rSizedBytes_ok h3
    exact ⟨by rw [e1, e2, hx1]; simp [encData], by simp [dataOk]⟩
  · simp only [hx1, if_false] at h2
    obtain ⟨mem, r2, h3, h4⟩ := bind_ok h2
    obtain ⟨off, r3, h5, h6⟩ := bind_ok h4
    obtain ⟨b, r4, h7, h8⟩ := bind_ok h6
    obtain ⟨rfl, rfl⟩ := pure_ok h8
    obtain ⟨e3, o3⟩ := rExpr_ok hT h5
    have e4 := rSizedBytes_ok h7
    by_cases hx0 : x = 0
    · simp only [hx0, if_true] at h3
      obtain ⟨rfl, rfl⟩ := pure_ok h3
      exact ⟨by rw [e1, e3, e4, hx0]; simp [encData], by simp [dataOk, o3]⟩
    · simp only [hx0, if_false] at h3
      obtain ⟨m, r5, g1, g2⟩ := bind_ok h3
      obtain ⟨u, r6, g3, g4⟩ := bind_ok g2
      obtain ⟨hv, rfl⟩ := guardP_ok g3
      obtain ⟨rfl, rfl⟩ := pure_ok g4
      have e5 := rU_ok g1
      simp only [Bool.not_true, Bool.false_or, Bool.and_eq_true, decide_eq_true_eq] at hv
      obtain ⟨hx2, hm⟩ := hv
      exact ⟨by rw [e1, e5, e3, e4, hx2]; simp [encData, hm], by simp [dataOk, o3]⟩

omit hT in
theorem rCustom_ok {bs rest : Bytes} {c : Custom} (h : rCustom true bs = .ok (c, rest)) :
    bs = encCustom c ∧ rest = [] ∧ utf8Valid c.name = true := by
  simp only [rCustom] at h
  split at h
  · simp at h
  · rename_i name r hn
    simp only [Except.ok.injEq, Prod.mk.injEq] at h
    obtain ⟨rfl, rfl⟩ := h
    obtain ⟨e1, v1⟩ := rName_ok hn
    exact ⟨by rw [e1]; simp [encCustom], rfl, v1⟩

end Sane

end Proofs.WasmBin
