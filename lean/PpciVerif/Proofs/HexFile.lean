import PpciVerif.Proofs.Hex
/-! C18, second part: the records `save` emits as a pure function (`fileRecs`), `save = ok (text of fileRecs)`,
the specification reader on them, and `load` on them. -/
namespace Proofs.Hex
open Spec.IHex
open Model.Hex (HexLine HexFile toLine fromLine lineBytes hexlify linesOf saveChunks saveRegion saveRegions saveRecords save
  pack16 pack32 chunksF chunks30 extOf insertRegion sortRegions coalesceFrom coalesce check addRegion build
  LoadState loadRec loadRecs loadLines load)

/-! ### the emitted records as a pure function -/

def extRec (ext : Nat) : HexLine := ⟨0, 4, [ext / 65536 / 256, ext / 65536 % 256]⟩

def chunkRecs (ext address : Nat) : List (List Nat) → List HexLine
  | [] => []
  | c :: rest =>
    if address ≥ 65536 then
      extRec (ext + 65536) :: ⟨address - 65536, 0, c⟩ :: chunkRecs (ext + 65536) (address - 65536 + c.length) rest
    else ⟨address, 0, c⟩ :: chunkRecs ext (address + c.length) rest

def regionRecs (r : Region) : List HexLine :=
  extRec (extOf r.1) :: chunkRecs (extOf r.1) (r.1 - extOf r.1) (chunks30 r.2)

def regionsRecs : List Region → List HexLine
  | [] => []
  | r :: rs => regionRecs r ++ regionsRecs rs

def eofRec : HexLine := ⟨0, 1, []⟩

def tailRecs (start : Nat) : List HexLine :=
  if start = 0 then [eofRec]
  else [⟨0, 5, [start / 16777216, start / 65536 % 256, start / 256 % 256, start % 256]⟩, eofRec]

def fileRecs (h : HexFile) : List HexLine := regionsRecs h.regions ++ tailRecs h.start

def lineText (hl : HexLine) : List Char := ':' :: hexlify (lineBytes hl)

/-- the files the theorems are about: regions in normal form, bytes, below 4 GiB, 32-bit start address -/
def WF (h : HexFile) : Prop := NF h.regions ∧ (∀ r ∈ h.regions, RegionOK r) ∧ h.start < 4294967296

theorem extRec_wf (ext : Nat) (h : ext < 4294967296) : WfLine (extRec ext) := by
  refine ⟨by simp [extRec], by simp [extRec], by simp [extRec], ?_⟩
  intro b hb
  simp only [extRec, List.mem_cons, List.not_mem_nil, or_false] at hb
  rcases hb with rfl | rfl <;> omega

theorem chunkRecs_spec (cs : List (List Nat)) : ∀ (ext address : Nat), ChunksOK cs →
    ext % 65536 = 0 → address < 65536 + 30 → ext + address + cs.flatten.length ≤ 4294967296 →
    saveChunks ext address cs = .ok (chunkRecs ext address cs) ∧ (∀ hl ∈ chunkRecs ext address cs, WfLine hl) := by
  induction cs with
  | nil => intro ext address _ _ _ _; exact ⟨rfl, by simp [chunkRecs]⟩
  | cons c rest ih =>
    intro ext address hok hext haddr hend
    obtain ⟨hc0, hc30, hcb⟩ := hok c (by simp)
    have hok' : ChunksOK rest := fun x hx => hok x (by simp [hx])
    have hclen : 0 < c.length := List.length_pos_iff.mpr hc0
    simp only [List.flatten_cons, List.length_append] at hend
    by_cases hge : address ≥ 65536
    · obtain ⟨h1, h2⟩ := ih (ext + 65536) (address - 65536 + c.length) hok' (by omega) (by omega) (by omega)
      have hp := pack16_ok ((ext + 65536) / 65536) (by omega)
      refine ⟨?_, ?_⟩
      · simp only [saveChunks, chunkRecs, if_pos hge, hp, h1]; rfl
      · intro hl hhl
        simp only [chunkRecs, if_pos hge, List.mem_cons] at hhl
        rcases hhl with rfl | rfl | hhl
        · exact extRec_wf _ (by omega)
        · exact ⟨by show address - 65536 < 65536; omega, by simp, by show c.length ≤ 255; omega, hcb⟩
        · exact h2 hl hhl
    · obtain ⟨h1, h2⟩ := ih ext (address + c.length) hok' hext (by omega) (by omega)
      refine ⟨?_, ?_⟩
      · simp only [saveChunks, chunkRecs, if_neg hge, h1]; rfl
      · intro hl hhl
        simp only [chunkRecs, if_neg hge, List.mem_cons] at hhl
        rcases hhl with rfl | hhl
        · exact ⟨by show address < 65536; omega, by simp, by show c.length ≤ 255; omega, hcb⟩
        · exact h2 hl hhl

theorem chunksOK_of_region {r : Region} (h : RegionOK r) : ChunksOK (chunks30 r.2) := by
  intro c hc
  obtain ⟨h1, h2, h3⟩ := (chunks30_spec r.2).2 c hc
  exact ⟨h1, h2, fun b hb => h.2.2 b (h3 b hb)⟩

theorem extOf_facts (a : Nat) (h : a < 4294967296) :
    extOf a % 65536 = 0 ∧ extOf a ≤ a ∧ a - extOf a < 65536 ∧ extOf a / 65536 < 65536 ∧ extOf a + (a - extOf a) = a := by
  unfold extOf; omega

theorem region_lt {r : Region} (h : RegionOK r) : r.1 < 4294967296 := by
  have := List.length_pos_iff.mpr h.1
  have := h.2.1
  omega

theorem regionRecs_spec {r : Region} (h : RegionOK r) :
    saveRegion r = .ok (regionRecs r) ∧ ∀ hl ∈ regionRecs r, WfLine hl := by
  obtain ⟨e1, e2, e3, e4, e5⟩ := extOf_facts r.1 (region_lt h)
  obtain ⟨h1, h2⟩ := chunkRecs_spec (chunks30 r.2) (extOf r.1) (r.1 - extOf r.1) (chunksOK_of_region h) e1
    (by omega) (by rw [e5, (chunks30_spec r.2).1]; exact h.2.1)
  refine ⟨?_, ?_⟩
  · simp only [saveRegion, pack16_ok _ e4, h1]; rfl
  · intro hl hhl
    simp only [regionRecs, List.mem_cons] at hhl
    rcases hhl with rfl | hhl
    · exact extRec_wf _ (by have := region_lt h; omega)
    · exact h2 hl hhl

theorem regionsRecs_spec (rs : List Region) (h : ∀ r ∈ rs, RegionOK r) :
    saveRegions rs = .ok (regionsRecs rs) ∧ ∀ hl ∈ regionsRecs rs, WfLine hl := by
  induction rs with
  | nil => exact ⟨rfl, by simp [regionsRecs]⟩
  | cons r rs ih =>
    obtain ⟨h1, h2⟩ := regionRecs_spec (h r (by simp))
    obtain ⟨h3, h4⟩ := ih (fun x hx => h x (by simp [hx]))
    refine ⟨?_, ?_⟩
    · simp only [saveRegions, h1, h3]; rfl
    · intro hl hhl
      simp only [regionsRecs, List.mem_append] at hhl
      rcases hhl with hhl | hhl
      · exact h2 hl hhl
      · exact h4 hl hhl

theorem tailRecs_wf (start : Nat) (h : start < 4294967296) : ∀ hl ∈ tailRecs start, WfLine hl := by
  intro hl hhl
  unfold tailRecs at hhl
  split at hhl
  · simp only [List.mem_singleton] at hhl; subst hhl
    exact ⟨by simp [eofRec], by simp [eofRec], by simp [eofRec], by simp [eofRec]⟩
  · simp only [List.mem_cons, List.not_mem_nil, or_false] at hhl
    rcases hhl with rfl | rfl
    · refine ⟨by simp, by simp, by simp, ?_⟩
      intro b hb
      simp only [List.mem_cons, List.not_mem_nil, or_false] at hb
      rcases hb with rfl | rfl | rfl | rfl <;> omega
    · exact ⟨by simp [eofRec], by simp [eofRec], by simp [eofRec], by simp [eofRec]⟩

theorem fileRecs_spec {h : HexFile} (hw : WF h) :
    saveRecords h = .ok (fileRecs h) ∧ ∀ hl ∈ fileRecs h, WfLine hl := by
  obtain ⟨_, h2, h3⟩ := hw
  obtain ⟨r1, r2⟩ := regionsRecs_spec h.regions h2
  refine ⟨?_, ?_⟩
  · unfold saveRecords fileRecs tailRecs
    by_cases hs : h.start = 0
    · simp only [r1, hs, if_pos]; rfl
    · have hp : pack32 h.start = .ok [h.start / 16777216, h.start / 65536 % 256, h.start / 256 % 256, h.start % 256] := by
        unfold pack32; rw [if_pos h3]
      simp only [r1, if_neg hs, hp]; rfl
  · intro hl hhl
    simp only [fileRecs, List.mem_append] at hhl
    rcases hhl with hhl | hhl
    · exact r2 hl hhl
    · exact tailRecs_wf _ h3 hl hhl

theorem linesOf_spec (recs : List HexLine) (h : ∀ hl ∈ recs, WfLine hl) :
    linesOf recs = .ok (recs.map lineText) ∧ parseAll (recs.map lineText) = some (recs.map toSpec) := by
  induction recs with
  | nil => exact ⟨rfl, rfl⟩
  | cons hl rest ih =>
    obtain ⟨h1, h2⟩ := ih (fun x hx => h x (by simp [hx]))
    have hw := h hl (by simp)
    refine ⟨?_, ?_⟩
    · simp only [linesOf, toLine_ok hw, h1]; rfl
    · simp only [List.map_cons, parseAll, lineText, parseRecord_toLine hw]
      rw [h2]

/-- `save` succeeds and prints exactly the text of `fileRecs` -/
theorem save_eq {h : HexFile} (hw : WF h) : save h = .ok ((fileRecs h).map lineText) := by
  obtain ⟨h1, h2⟩ := fileRecs_spec hw
  simp only [save, h1]
  exact (linesOf_spec _ h2).1

/-! ### the specification reader on the emitted records -/

theorem run_extRec (base : Nat) (seg : Bool) (ext : Nat) (h : ext % 65536 = 0) (rest : List Record) :
    run base seg (toSpec (extRec ext) :: rest) = run ext false rest := by
  have := run_ext base seg (ext / 65536) rest
  rw [show ext / 65536 * 65536 = ext by omega] at this
  exact this

theorem chunkRecs_run (cs : List (List Nat)) : ∀ (ext address : Nat), ChunksOK cs →
    ext % 65536 = 0 → ext + address + cs.flatten.length ≤ 4294967296 →
    ∀ tail, run ext false ((chunkRecs ext address cs).map toSpec ++ tail) =
      prepend (cellsOf (ext + address) cs.flatten) (run (finalExt ext address cs) false tail) := by
  induction cs with
  | nil =>
    intro ext address _ _ _ tail
    simp [chunkRecs, finalExt, cellsOf, prepend_nil]
  | cons c rest ih =>
    intro ext address hok hext hend tail
    have hok' : ChunksOK rest := fun x hx => hok x (by simp [hx])
    simp only [List.flatten_cons, List.length_append] at hend
    by_cases hge : address ≥ 65536
    · have h3 := ih (ext + 65536) (address - 65536 + c.length) hok' (by omega) (by omega) tail
      simp only [chunkRecs, finalExt, if_pos hge, List.map_cons, List.cons_append]
      rw [run_extRec _ _ _ (by omega)]
      show run (ext + 65536) false (⟨address - 65536, 0, c⟩ :: _) = _
      rw [run_data, h3, prepend_prepend, linCells_eq _ _ (by omega), List.flatten_cons, cellsOf_append,
        show ext + 65536 + (address - 65536) = ext + address by omega,
        show ext + 65536 + (address - 65536 + c.length) = ext + address + c.length by omega]
    · have h3 := ih ext (address + c.length) hok' hext (by omega) tail
      simp only [chunkRecs, finalExt, if_neg hge, List.map_cons, List.cons_append]
      show run ext false (⟨address, 0, c⟩ :: _) = _
      rw [run_data, h3, prepend_prepend, linCells_eq _ _ (by omega), List.flatten_cons, cellsOf_append,
        show ext + (address + c.length) = ext + address + c.length by omega]

theorem regionRecs_run {r : Region} (h : RegionOK r) : ∃ b', ∀ tail b s,
    run b s ((regionRecs r).map toSpec ++ tail) = prepend (cellsOf r.1 r.2) (run b' false tail) := by
  obtain ⟨e1, e2, e3, e4, e5⟩ := extOf_facts r.1 (region_lt h)
  refine ⟨finalExt (extOf r.1) (r.1 - extOf r.1) (chunks30 r.2), fun tail b s => ?_⟩
  simp only [regionRecs, List.map_cons, List.cons_append]
  rw [run_extRec _ _ _ e1, chunkRecs_run _ _ _ (chunksOK_of_region h) e1
    (by rw [e5, (chunks30_spec r.2).1]; exact h.2.1), e5, (chunks30_spec r.2).1]

/-- a record list whose reading does not depend on the base address it is entered with -/
def BaseFree (tail : List Record) : Prop := ∀ b s b' s', run b s tail = run b' s' tail

theorem regionsRecs_run (rs : List Region) (h : ∀ r ∈ rs, RegionOK r) :
    ∀ tail, BaseFree tail → ∀ b s,
      run b s ((regionsRecs rs).map toSpec ++ tail) = prepend (cells rs) (run 0 false tail) := by
  induction rs with
  | nil =>
    intro tail ht b s
    simp only [regionsRecs, List.map_nil, List.nil_append, cells, prepend_nil]
    exact ht _ _ _ _
  | cons r rs ih =>
    intro tail ht b s
    obtain ⟨b', hb'⟩ := regionRecs_run (h r (by simp))
    have ih' := ih (fun x hx => h x (by simp [hx])) tail ht
    simp only [regionsRecs, List.map_append, List.append_assoc, cells]
    rw [hb', ih', prepend_prepend]

theorem beVal4 (a b c d : Nat) : beVal [a, b, c, d] = a * 16777216 + b * 65536 + c * 256 + d := by
  simp [beVal]; omega

theorem tailRecs_run (start : Nat) (_hs : start < 4294967296) (b : Nat) (s : Bool) :
    run b s ((tailRecs start).map toSpec) = some ⟨[], if start = 0 then none else some start⟩ := by
  unfold tailRecs
  by_cases h0 : start = 0
  · simp [h0, eofRec, toSpec, run]
  · simp only [if_neg h0, List.map_cons, List.map_nil, toSpec, eofRec]
    simp only [run, List.length_cons, List.length_nil, beVal4]
    simp
    omega

/-- (c) the independent reader decodes the saved text to exactly the regions' cells and the start address -/
theorem read_save {h : HexFile} (hw : WF h) :
    read ((fileRecs h).map lineText) = some ⟨cells h.regions, if h.start = 0 then none else some h.start⟩ := by
  obtain ⟨_, h2⟩ := fileRecs_spec hw
  have hp := (linesOf_spec _ h2).2
  simp only [Spec.IHex.read, hp]
  simp only [fileRecs, List.map_append]
  have ht : BaseFree ((tailRecs h.start).map toSpec) := fun b s b' s' => by
    rw [tailRecs_run _ hw.2.2, tailRecs_run _ hw.2.2]
  rw [regionsRecs_run _ hw.2.1 _ ht, tailRecs_run _ hw.2.2]
  simp [prepend]

/-! ### `load` on the emitted records -/

theorem loadLines_text (recs : List HexLine) (h : ∀ hl ∈ recs, WfLine hl) :
    ∀ st, loadLines st (recs.map lineText) = loadRecs st recs := by
  induction recs with
  | nil => intro st; rfl
  | cons hl rest ih =>
    intro st
    have hw := h hl (by simp)
    have ih' := ih (fun x hx => h x (by simp [hx]))
    simp only [List.map_cons, lineText, loadLines, loadRecs, fromLine_toLine hw]
    cases loadRec st hl with
    | error e => rfl
    | ok st' => exact ih' st'

theorem nf_append_singleton (done : List Region) (r : Region) :
    NF (done ++ [r]) ↔ NF done ∧ (∀ x ∈ done, Gap x r) ∧ r.2 ≠ [] := by
  simp only [nf_iff, List.pairwise_append, List.mem_append, List.mem_singleton, List.pairwise_cons,
    List.Pairwise.nil, List.not_mem_nil]
  constructor
  · rintro ⟨⟨h1, _, h3⟩, h4⟩
    exact ⟨⟨h1, fun x hx => h4 x (Or.inl hx)⟩, fun x hx => h3 x hx r rfl, h4 r (Or.inr rfl)⟩
  · rintro ⟨⟨h1, h2⟩, h3, h4⟩
    refine ⟨⟨h1, ⟨by simp, trivial⟩, fun x hx b hb => hb ▸ h3 x hx⟩, ?_⟩
    rintro x (hx | rfl)
    · exact h2 x hx
    · exact h4

/-- `add_region` computed through the normal form: any normal form with the right image is the result -/
theorem addRegion_of_nf (regs : List Region) (x : Region) (R : List Region)
    (hregs : ∀ r ∈ regs, r.2 ≠ []) (hx : x.2 ≠ []) (hR : NF R) (hc : cells R = cells (regs ++ [x])) :
    addRegion regs x = .ok R := by
  have hnd : (addrs (regs ++ [x])).Nodup := by
    have hs := cells_sorted R (nf_before hR)
    rw [hc] at hs
    have : ((cells (regs ++ [x])).map Prod.fst).Pairwise (· < ·) := by
      rw [List.pairwise_map]; exact hs
    exact this.imp (fun h => Nat.ne_of_lt h)
  have hne : ∀ r ∈ regs ++ [x], r.2 ≠ [] := by
    intro r hr
    simp only [List.mem_append, List.mem_singleton] at hr
    rcases hr with hr | rfl
    · exact hregs r hr
    · exact hx
  obtain ⟨G, h1, h2, h3⟩ := check_spec (regs ++ [x]) hne hnd
  have : G = R := nf_unique G R h2 hR (hc ▸ h3)
  rw [addRegion, h1, this]

theorem addRegion_far (regs : List Region) (x : Region) (h : NF (regs ++ [x])) :
    addRegion regs x = .ok (regs ++ [x]) :=
  addRegion_of_nf regs x _ (nf_nonempty ((nf_append_singleton regs x).mp h).1)
    ((nf_append_singleton regs x).mp h).2.2 h rfl

theorem addRegion_adj (done : List Region) (a0 : Nat) (pre c : List Nat) (h : NF (done ++ [(a0, pre)])) (hc : c ≠ []) :
    addRegion (done ++ [(a0, pre)]) (a0 + pre.length, c) = .ok (done ++ [(a0, pre ++ c)]) := by
  obtain ⟨h1, h2, h3⟩ := (nf_append_singleton done (a0, pre)).mp h
  apply addRegion_of_nf _ _ _ (nf_nonempty h) hc
  · rw [nf_append_singleton]
    exact ⟨h1, fun x hx => h2 x hx, by simp [h3]⟩
  · simp only [cells_append, cells, cellsOf_append, List.append_nil, List.append_assoc]

theorem be2 (a b : Nat) : Model.Hex.be [a, b] = a * 256 + b := by simp [Model.Hex.be]
theorem be4 (a b c d : Nat) : Model.Hex.be [a, b, c, d] = ((a * 256 + b) * 256 + c) * 256 + d := by
  simp [Model.Hex.be]

theorem loadRec_ext (regs : List Region) (s e ext : Nat) (h : ext % 65536 = 0) :
    loadRec ⟨regs, s, false, e⟩ (extRec ext) = .ok ⟨regs, s, false, ext⟩ := by
  simp only [loadRec, extRec, List.length_cons, List.length_nil, List.take, be2]
  simp
  omega

theorem loadRec_data (regs : List Region) (s e a : Nat) (d : List Nat) :
    loadRec ⟨regs, s, false, e⟩ ⟨a, 0, d⟩ =
      match addRegion regs (a + e, d) with
      | .ok regs' => .ok ⟨regs', s, false, e⟩
      | .error err => .error err := by
  simp only [loadRec]
  rfl

theorem chunkRecs_load (cs : List (List Nat)) : ∀ (ext address : Nat) (done : List Region) (a0 : Nat) (pre : List Nat)
    (s : Nat) (tail : List HexLine), ChunksOK cs → ext % 65536 = 0 → a0 + pre.length = ext + address →
    NF (done ++ [(a0, pre)]) →
    loadRecs ⟨done ++ [(a0, pre)], s, false, ext⟩ (chunkRecs ext address cs ++ tail) =
      loadRecs ⟨done ++ [(a0, pre ++ cs.flatten)], s, false, finalExt ext address cs⟩ tail := by
  induction cs with
  | nil => intro ext address done a0 pre s tail _ _ _ _; simp [chunkRecs, finalExt]
  | cons c rest ih =>
    intro ext address done a0 pre s tail hok hext hpos hnf
    obtain ⟨hc0, _, _⟩ := hok c (by simp)
    have hok' : ChunksOK rest := fun x hx => hok x (by simp [hx])
    obtain ⟨n1, n2, n3⟩ := (nf_append_singleton done (a0, pre)).mp hnf
    have hnf' : NF (done ++ [(a0, pre ++ c)]) := by
      rw [nf_append_singleton]; exact ⟨n1, fun x hx => n2 x hx, by simp [n3]⟩
    by_cases hge : address ≥ 65536
    · simp only [chunkRecs, finalExt, if_pos hge, List.cons_append, loadRecs]
      rw [loadRec_ext _ _ _ _ (by omega)]
      simp only [loadRec_data]
      rw [show address - 65536 + (ext + 65536) = a0 + pre.length by omega, addRegion_adj done a0 pre c hnf hc0]
      simp only []
      rw [ih (ext + 65536) (address - 65536 + c.length) done a0 (pre ++ c) s tail hok' (by omega)
        (by simp only [List.length_append]; omega) hnf']
      simp
    · simp only [chunkRecs, finalExt, if_neg hge, List.cons_append, loadRecs, loadRec_data]
      rw [show address + ext = a0 + pre.length by omega, addRegion_adj done a0 pre c hnf hc0]
      simp only []
      rw [ih ext (address + c.length) done a0 (pre ++ c) s tail hok' hext
        (by simp only [List.length_append]; omega) hnf']
      simp

theorem regionRecs_load (done : List Region) (r : Region) (s e : Nat) (tail : List HexLine)
    (h : RegionOK r) (hnf : NF (done ++ [r])) :
    ∃ e', loadRecs ⟨done, s, false, e⟩ (regionRecs r ++ tail) = loadRecs ⟨done ++ [r], s, false, e'⟩ tail := by
  obtain ⟨e1, e2, e3, e4, e5⟩ := extOf_facts r.1 (region_lt h)
  obtain ⟨hflat, hch⟩ := chunks30_spec r.2
  have hok := chunksOK_of_region h
  obtain ⟨n1, n2, n3⟩ := (nf_append_singleton done r).mp hnf
  cases hcs : chunks30 r.2 with
  | nil => rw [hcs] at hflat; exact absurd hflat.symm (by simpa using h.1)
  | cons c rest =>
    rw [hcs] at hflat hok
    obtain ⟨hc0, _, _⟩ := hok c (by simp)
    have hok' : ChunksOK rest := fun x hx => hok x (by simp [hx])
    have hnf1 : NF (done ++ [(r.1, c)]) := by
      rw [nf_append_singleton]; exact ⟨n1, fun x hx => n2 x hx, hc0⟩
    refine ⟨finalExt (extOf r.1) (r.1 - extOf r.1 + c.length) rest, ?_⟩
    simp only [regionRecs, hcs, chunkRecs, if_neg (show ¬ r.1 - extOf r.1 ≥ 65536 by omega), List.cons_append, loadRecs]
    rw [loadRec_ext _ _ _ _ e1]
    simp only [loadRec_data]
    rw [show r.1 - extOf r.1 + extOf r.1 = r.1 by omega, addRegion_far done (r.1, c) hnf1]
    simp only []
    rw [chunkRecs_load rest (extOf r.1) (r.1 - extOf r.1 + c.length) done r.1 c s tail hok' e1 (by omega) hnf1]
    simp only [List.flatten_cons] at hflat
    rw [hflat]

theorem regionsRecs_load (rs : List Region) : ∀ (done : List Region) (s e : Nat) (tail : List HexLine),
    (∀ r ∈ rs, RegionOK r) → NF (done ++ rs) →
    ∃ e', loadRecs ⟨done, s, false, e⟩ (regionsRecs rs ++ tail) = loadRecs ⟨done ++ rs, s, false, e'⟩ tail := by
  induction rs with
  | nil => intro done s e tail _ _; exact ⟨e, by simp [regionsRecs]⟩
  | cons r rs ih =>
    intro done s e tail hok hnf
    have hsplit : done ++ r :: rs = (done ++ [r]) ++ rs := by simp
    have hnf1 : NF (done ++ [r]) := by
      rw [hsplit, nf_iff, List.pairwise_append] at hnf
      rw [nf_iff]
      exact ⟨hnf.1.1, fun x hx => hnf.2 x (List.mem_append_left _ hx)⟩
    obtain ⟨e1, h1⟩ := regionRecs_load done r s e (regionsRecs rs ++ tail) (hok r (by simp)) hnf1
    obtain ⟨e2, h2⟩ := ih (done ++ [r]) s e1 tail (fun x hx => hok x (by simp [hx])) (hsplit ▸ hnf)
    refine ⟨e2, ?_⟩
    simp only [regionsRecs, List.append_assoc]
    rw [h1, h2, hsplit]

theorem tailRecs_load (regs : List Region) (start e : Nat) (hs : start < 4294967296) :
    loadRecs ⟨regs, 0, false, e⟩ (tailRecs start) = .ok ⟨regs, start⟩ := by
  unfold tailRecs
  by_cases h0 : start = 0
  · simp [h0, eofRec, loadRecs, loadRec]
  · simp only [if_neg h0, loadRecs, loadRec, eofRec, List.length_cons, List.length_nil, List.take, be4]
    simp
    omega

/-- (d) `load (save h) = h`, start address included -/
theorem load_save {h : HexFile} (hw : WF h) : load ((fileRecs h).map lineText) = .ok h := by
  obtain ⟨_, h2⟩ := fileRecs_spec hw
  rw [load, loadLines_text _ h2]
  obtain ⟨e', he⟩ := regionsRecs_load h.regions [] 0 0 (tailRecs h.start) hw.2.1 (by simpa using hw.1)
  simp only [fileRecs]
  rw [he, List.nil_append, tailRecs_load _ _ _ hw.2.2]

/-! ### shape of the emitted records (for (b)) -/

/-- record types and lengths `save` uses -/
def Shape (r : Record) : Prop :=
  r.data.length ≤ 30 ∧
  (r.typ = 0 ∨ (r.offset = 0 ∧ ((r.typ = 1 ∧ r.data.length = 0) ∨ (r.typ = 4 ∧ r.data.length = 2)
    ∨ (r.typ = 5 ∧ r.data.length = 4))))

theorem extRec_shape (ext : Nat) : Shape (toSpec (extRec ext)) := by
  simp [Shape, toSpec, extRec]

theorem chunkRecs_shape (cs : List (List Nat)) : ∀ (ext address : Nat), ChunksOK cs →
    ∀ hl ∈ chunkRecs ext address cs, Shape (toSpec hl) := by
  induction cs with
  | nil => intro ext address _ hl hhl; simp [chunkRecs] at hhl
  | cons c rest ih =>
    intro ext address hok hl hhl
    obtain ⟨_, hc30, _⟩ := hok c (by simp)
    have hok' : ChunksOK rest := fun x hx => hok x (by simp [hx])
    by_cases hge : address ≥ 65536
    · simp only [chunkRecs, if_pos hge, List.mem_cons] at hhl
      rcases hhl with rfl | rfl | hhl
      · exact extRec_shape _
      · exact ⟨hc30, Or.inl rfl⟩
      · exact ih _ _ hok' hl hhl
    · simp only [chunkRecs, if_neg hge, List.mem_cons] at hhl
      rcases hhl with rfl | hhl
      · exact ⟨hc30, Or.inl rfl⟩
      · exact ih _ _ hok' hl hhl

theorem fileRecs_shape {h : HexFile} (hw : WF h) : ∀ hl ∈ fileRecs h, Shape (toSpec hl) := by
  intro hl hhl
  simp only [fileRecs, List.mem_append] at hhl
  rcases hhl with hhl | hhl
  · have : ∀ rs : List Region, (∀ r ∈ rs, RegionOK r) → ∀ hl ∈ regionsRecs rs, Shape (toSpec hl) := by
      intro rs
      induction rs with
      | nil => intro _ hl hhl; simp [regionsRecs] at hhl
      | cons r rs ih =>
        intro hok hl hhl
        simp only [regionsRecs, List.mem_append, regionRecs, List.mem_cons] at hhl
        rcases hhl with (rfl | hhl) | hhl
        · exact extRec_shape _
        · exact chunkRecs_shape _ _ _ (chunksOK_of_region (hok r (by simp))) hl hhl
        · exact ih (fun x hx => hok x (by simp [hx])) hl hhl
    exact this _ hw.2.1 hl hhl
  · unfold tailRecs at hhl
    split at hhl
    · simp only [List.mem_singleton] at hhl; subst hhl
      simp [Shape, toSpec, eofRec]
    · simp only [List.mem_cons, List.not_mem_nil, or_false] at hhl
      rcases hhl with rfl | rfl
      · simp [Shape, toSpec]
      · simp [Shape, toSpec, eofRec]

end Proofs.Hex
