import PpciVerif.Model.MCode
import PpciVerif.Model.RA
/-!
Helper lemmas for C06: reflection of the Boolean checker into declarative
per-instruction conditions, the one-step simulation lemma, its lifting to runs.
Core Lean only.
-/
namespace Proofs.RA
open Model.MCode Model.RA

/-! ### small facts -/

theorem ov_symm (al : PReg → PReg → Bool) (p q : PReg) : ov al p q = ov al q p := by
  simp only [ov]
  by_cases h : p = q
  · subst h; rfl
  · have h1 : (p == q) = false := by simpa using h
    have h2 : (q == p) = false := by simpa using fun e : q = p => h e.symm
    rw [h1, h2]
    cases al p q <;> cases al q p <;> rfl

theorem ov_refl (al : PReg → PReg → Bool) (p : PReg) : ov al p p = true := by simp [ov]

theorem pairwiseB_sound {α : Type} (f : α → α → Bool) :
    ∀ l : List α, pairwiseB f l = true → l.Pairwise (fun a b => f a b = true)
  | [], _ => List.Pairwise.nil
  | x :: xs, h => by
    simp only [pairwiseB, Bool.and_eq_true, List.all_eq_true] at h
    exact List.Pairwise.cons h.1 (pairwiseB_sound f xs h.2)

theorem pick_mem (l : List Nat) (k d : Nat) (h : l ≠ []) : pick l k d ∈ l := by
  unfold pick
  cases hk : l[k]? with
  | some x => exact List.mem_of_getElem? hk
  | none =>
    cases l with
    | nil => exact absurd rfl h
    | cons a t => simp

theorem succsL_ne_nil (labels : List (Option Nat)) (i : Nat) (js : List Nat) : succsL labels i js ≠ [] := by
  unfold succsL
  split
  · simp
  · rename_i h
    cases js with
    | nil => simp at h
    | cons a t => simp

theorem nextPc_mem {Val σ : Type} (S : Sem Val σ) (p : Program) (i : Nat) (ins : Instr) (args : List Val) (s : σ) :
    nextPc S p i ins args s ∈ succs p i ins :=
  pick_mem _ _ _ (succsL_ne_nil _ _ _)

theorem succs_nojump (p : Program) (i : Nat) (ins : Instr) (h : ins.jumps.isEmpty = true) :
    succs p i ins = [i + 1] := by
  simp [succs, succsL, h]

theorem nextPc_nojump {Val σ : Type} (S : Sem Val σ) (p : Program) (i : Nat) (ins : Instr) (args : List Val) (s : σ)
    (h : ins.jumps.isEmpty = true) : nextPc S p i ins args s = i + 1 := by
  have := nextPc_mem S p i ins args s
  rw [succs_nojump p i ins h] at this
  simpa using this

/-! ### register-file writes -/

theorem writeV_other {Val : Type} (vals : Nat → Val) :
    ∀ (ds : List VReg) (k : Nat) (R : VReg → Val) (r : VReg), r ∉ ds → writeV vals ds k R r = R r
  | [], _, _, _, _ => rfl
  | d :: ds, k, R, r, h => by
    simp only [List.mem_cons, not_or] at h
    rw [writeV, writeV_other vals ds (k + 1) _ r h.2]
    simp [h.1]

theorem foldl_havoc_other {Val : Type} (al : PReg → PReg → Bool) (J : PReg → Val) :
    ∀ (cl : List PReg) (P : PReg → Val) (x : PReg), (∀ q ∈ cl, ov al q x = false) →
      (cl.foldl (havoc al J) P) x = P x
  | [], _, _, _ => rfl
  | q :: cl, P, x, h => by
    rw [List.foldl_cons, foldl_havoc_other al J cl _ x (fun q' hq' => h q' (List.mem_cons_of_mem _ hq'))]
    simp [havoc, h q (List.mem_cons_self ..)]

/-- Sequential writes keep the relation `P (c v) = R v` on every value that is either
    `Good` already (and whose register no later def overlaps) or written here, provided the
    defs' registers are pairwise non-overlapping. -/
theorem write_rel {Val : Type} (al : PReg → PReg → Bool) (J : PReg → Val) (c : VReg → PReg) (vals : Nat → Val) :
    ∀ (ds : List VReg) (k : Nat) (R : VReg → Val) (P : PReg → Val) (G : VReg → Prop),
      (∀ v, G v → P (c v) = R v) →
      (∀ v, G v → ∀ d ∈ ds, ov al (c d) (c v) = false) →
      ds.Pairwise (fun a b => ov al (c a) (c b) = false) →
      ∀ v, (G v ∨ v ∈ ds) → writeP al J c vals ds k P (c v) = writeV vals ds k R v
  | [], _, R, P, G, hG, _, _, v, hv => by
    rcases hv with hv | hv
    · simpa [writeP, writeV] using hG v hv
    · cases hv
  | d :: ds, k, R, P, G, hG, hD, hP, v, hv => by
    rw [writeP, writeV]
    have hP' := List.pairwise_cons.mp hP
    apply write_rel al J c vals ds (k + 1) _ _ (fun w => G w ∨ w = d)
    · intro w hw
      rcases hw with hw | hw
      · have hne := hD w hw d (List.mem_cons_self ..)
        have hwd : w ≠ d := by
          intro e; subst e; rw [ov_refl] at hne; cases hne
        have hcne : c w ≠ c d := by
          intro e; rw [e, ov_refl] at hne; cases hne
        simp [writeReg, hcne, hne, hwd, hG w hw]
      · subst hw; simp [writeReg]
    · intro w hw d' hd'
      rcases hw with hw | hw
      · exact hD w hw d' (List.mem_cons_of_mem _ hd')
      · subst hw
        rw [ov_symm]; exact hP'.1 d' hd'
    · exact hP'.2
    · rcases hv with hv | hv
      · exact Or.inl (Or.inl hv)
      · rcases List.mem_cons.mp hv with e | hm
        · exact Or.inl (Or.inr e)
        · exact Or.inr hm

/-! ### declarative per-instruction conditions and reflection -/

/-- the conditions `instrOkB` decides, as propositions -/
structure InstrOk (p : Program) (A : Alloc) (i : Nat) (ins : Instr) : Prop where
  uses_live : ∀ u ∈ ins.uses, u ∈ A.live i
  out_live : ∀ j ∈ succs p i ins, ∀ v ∈ A.live j, v ∈ ins.defs ∨ v ∈ A.live i
  move_wf : ins.isMove = true → ∃ s d, ins.uses = [s] ∧ ins.defs = [d] ∧ ins.jumps.isEmpty = true
  removed_ok : A.removed i = true →
    ∃ s d, ins.isMove = true ∧ ins.uses = [s] ∧ ins.defs = [d] ∧ ins.jumps.isEmpty = true ∧ A.colour d = A.colour s
  defs_ok : A.removed i = false → ∀ j ∈ succs p i ins, ∀ v ∈ A.live j, v ∉ ins.defs → ∀ d ∈ ins.defs,
    ov A.alias (A.colour d) (A.colour v) = false ∨
      (ins.isMove = true ∧ ins.uses = [v] ∧ A.colour d = A.colour v)
  clob_ok : A.removed i = false → ∀ j ∈ succs p i ins, ∀ v ∈ A.live j, v ∉ ins.defs → ∀ q ∈ ins.clobbers,
    ov A.alias q (A.colour v) = false
  defs_pw : A.removed i = false →
    ins.defs.Pairwise (fun a b => ov A.alias (A.colour a) (A.colour b) = false)

theorem len_one {α : Type} (l : List α) (h : l.length = 1) : ∃ x, l = [x] := by
  match l, h with
  | [x], _ => exact ⟨x, rfl⟩

theorem instrOkB_sound (p : Program) (A : Alloc) (i : Nat) (ins : Instr) (h : instrOkB p A i ins = true) :
    InstrOk p A i ins := by
  simp only [instrOkB, liveOkB, moveWfB, Bool.and_eq_true, List.all_eq_true, Bool.or_eq_true,
    List.contains_eq_mem, decide_eq_true_eq, liveOut, List.mem_flatMap, forall_exists_index, and_imp,
    Bool.not_eq_true', beq_iff_eq] at h
  obtain ⟨⟨⟨hu, ho⟩, hm⟩, hrest⟩ := h
  have hmove : ins.isMove = true → ∃ s d, ins.uses = [s] ∧ ins.defs = [d] ∧ ins.jumps.isEmpty = true := by
    intro hmv
    rcases hm with hm | hm
    · rw [hmv] at hm; cases hm
    · obtain ⟨s, hs⟩ := len_one _ hm.1.1
      obtain ⟨d, hd⟩ := len_one _ hm.1.2
      exact ⟨s, d, hs, hd, hm.2⟩
  refine ⟨hu, fun j hj v hv => ho v j hj hv, hmove, ?_, ?_, ?_, ?_⟩
  · intro hr
    rw [if_pos hr] at hrest
    simp only [removedOkB, Bool.and_eq_true] at hrest
    obtain ⟨⟨hmv, hj⟩, hc⟩ := hrest
    obtain ⟨s, d, hs, hd, _⟩ := hmove hmv
    rw [hs, hd] at hc
    exact ⟨s, d, hmv, hs, hd, hj, by simpa using hc⟩
  · intro hr j hj v hv hvd d hd
    rw [hr] at hrest
    simp only [Bool.false_eq_true, if_false, Bool.and_eq_true] at hrest
    have := hrest.1.1
    simp only [defsOkB, List.all_eq_true, Bool.or_eq_true, List.contains_eq_mem, decide_eq_true_eq,
      List.mem_flatMap, forall_exists_index, and_imp, Bool.not_eq_true', exemptB,
      Bool.and_eq_true, beq_iff_eq] at this
    rcases this v j hj hv with h1 | h1
    · exact absurd h1 hvd
    · rcases h1 d hd with h2 | h2
      · exact Or.inl h2
      · exact Or.inr ⟨h2.1.1, h2.1.2, h2.2⟩
  · intro hr j hj v hv hvd q hq
    rw [hr] at hrest
    simp only [Bool.false_eq_true, if_false, Bool.and_eq_true] at hrest
    have := hrest.1.2
    simp only [clobOkB, List.all_eq_true, Bool.or_eq_true, List.contains_eq_mem, decide_eq_true_eq,
      List.mem_flatMap, forall_exists_index, and_imp, Bool.not_eq_true'] at this
    rcases this v j hj hv with h1 | h1
    · exact absurd h1 hvd
    · exact h1 q hq
  · intro hr
    rw [hr] at hrest
    simp only [Bool.false_eq_true, if_false, Bool.and_eq_true] at hrest
    have := pairwiseB_sound _ _ hrest.2
    exact this.imp (by intro a b hab; simpa using hab)

theorem checkFrom_sound (p : Program) (A : Alloc) :
    ∀ (l : List Instr) (i : Nat), checkFrom p A i l = true →
      ∀ k ins, l[k]? = some ins → InstrOk p A (i + k) ins
  | [], _, _, k, ins, hk => by simp at hk
  | x :: rest, i, h, k, ins, hk => by
    simp only [checkFrom, Bool.and_eq_true] at h
    cases k with
    | zero =>
      simp at hk; subst hk
      exact instrOkB_sound p A i x h.1
    | succ k =>
      have := checkFrom_sound p A rest (i + 1) h.2 k ins (by simpa using hk)
      have e : i + 1 + k = i + (k + 1) := by omega
      rw [e] at this; exact this

/-- what `check` establishes -/
structure Checked (p : Program) (A : Alloc) : Prop where
  instr : ∀ i ins, p[i]? = some ins → InstrOk p A i ins
  entry : (A.live 0).Pairwise (fun a b => a = b ∨ ov A.alias (A.colour a) (A.colour b) = false)

theorem check_sound (p : Program) (A : Alloc) (h : check p A = true) : Checked p A := by
  simp only [check, Bool.and_eq_true] at h
  refine ⟨fun i ins hi => ?_, ?_⟩
  · have := checkFrom_sound p A p 0 h.2 i ins hi
    simpa using this
  · have := pairwiseB_sound _ _ h.1
    exact this.imp (by
      intro a b hab
      simp only [Bool.or_eq_true, beq_iff_eq, Bool.not_eq_true'] at hab
      exact hab)

/-! ### the simulation relation and the one-step lemma -/

/-- same control point, same memory, and every live value sits in its register -/
def Rel {Val σ : Type} (A : Alloc) (s : VState Val σ) (t : PState Val σ) : Prop :=
  s.pc = t.pc ∧ s.st = t.st ∧ ∀ v ∈ A.live s.pc, t.regs (A.colour v) = s.regs v

theorem args_agree {Val σ : Type} (A : Alloc) (p : Program) (s : VState Val σ) (t : PState Val σ)
    (ins : Instr) (hok : InstrOk p A s.pc ins) (hr : Rel A s t) :
    ins.uses.map (fun v => t.regs (A.colour v)) = ins.uses.map s.regs := by
  apply List.map_congr_left
  intro u hu
  exact hr.2.2 u (hok.uses_live u hu)

theorem step_rel {Val σ : Type} (S : Sem Val σ) (A : Alloc) (J : PReg → Val) (p : Program)
    (hc : Checked p A) (s : VState Val σ) (t : PState Val σ) (hr : Rel A s t) :
    Rel A (vstep S p s) (pstep S A.alias A.colour A.removed J p t) := by
  obtain ⟨hpc, hst, hregs⟩ := hr
  unfold vstep pstep
  rw [← hpc]
  cases hi : p[s.pc]? with
  | none => exact ⟨hpc, hst, hregs⟩
  | some ins =>
    have hok := hc.instr s.pc ins hi
    have hargs := args_agree A p s t ins hok ⟨hpc, hst, hregs⟩
    simp only []
    cases hrm : A.removed s.pc with
    | true =>
      obtain ⟨sv, d, hmv, hu, hd, hj, hcol⟩ := hok.removed_ok hrm
      have hnext : nextPc S p s.pc ins (ins.uses.map s.regs) s.st = s.pc + 1 := nextPc_nojump _ _ _ _ _ _ hj
      simp only [if_true]
      refine ⟨hnext, ?_, ?_⟩
      · simp [newSt, hmv, hst]
      · intro v hv
        simp only [hnext] at hv
        simp only [hd, hu, writeV, defVal, hmv, if_true, List.map_cons, List.map_nil]
        have hsv : sv ∈ A.live s.pc := hok.uses_live sv (by simp [hu])
        by_cases hvd : v = d
        · subst hvd
          simp [hcol, hregs sv hsv]
        · have hvin : v ∈ A.live s.pc := by
            have := hok.out_live (s.pc + 1) (by rw [succs_nojump p s.pc ins hj]; simp) v hv
            rcases this with h | h
            · rw [hd] at h; simp at h; exact absurd h hvd
            · exact h
          simp [hvd, hregs v hvin]
    | false =>
      simp only [Bool.false_eq_true, if_false]
      rw [hargs, ← hst]
      refine ⟨rfl, rfl, ?_⟩
      intro v hv
      generalize hnp : nextPc S p s.pc ins (ins.uses.map s.regs) s.st = j at hv
      have hj : j ∈ succs p s.pc ins := by rw [← hnp]; exact nextPc_mem ..
      cases hmv : ins.isMove with
      | true =>
        obtain ⟨sv, d, hu, hd, _⟩ := hok.move_wf hmv
        have hsv : sv ∈ A.live s.pc := hok.uses_live sv (by simp [hu])
        have hclsv := fun (x : VReg) (hx : x ∈ A.live j) (hxd : x ∉ ins.defs) =>
          foldl_havoc_other A.alias J ins.clobbers t.regs (A.colour x) (hok.clob_ok hrm j hj x hx hxd)
        simp only [hd, hu, writeV, writeP, defVal, hmv, if_true, List.map_cons, List.map_nil]
        by_cases hvd : v = d
        · subst hvd; simp [writeReg]
        · have hvnd : v ∉ ins.defs := by rw [hd]; simpa using hvd
          have hvin : v ∈ A.live s.pc := by
            rcases hok.out_live j hj v hv with h | h
            · exact absurd h hvnd
            · exact h
          rcases hok.defs_ok hrm j hj v hv hvnd d (by simp [hd]) with h | h
          · have hcne : A.colour v ≠ A.colour d := by
              intro e; rw [e, ov_refl] at h; cases h
            simp [writeReg, hcne, h, hvd, hclsv v hv hvnd, hregs v hvin]
          · obtain ⟨_, huv, hcol⟩ := h
            have : sv = v := by rw [hu] at huv; simpa using huv
            subst this
            simp [writeReg, hcol, hvd]
      | false =>
        have key := write_rel A.alias J A.colour (defVal S ins (ins.uses.map s.regs) s.st) ins.defs 0 s.regs
          (ins.clobbers.foldl (havoc A.alias J) t.regs) (fun x => x ∈ A.live j ∧ x ∉ ins.defs)
          (by
            intro x hx
            rw [foldl_havoc_other A.alias J ins.clobbers t.regs (A.colour x) (hok.clob_ok hrm j hj x hx.1 hx.2)]
            rcases hok.out_live j hj x hx.1 with h | h
            · exact absurd h hx.2
            · exact hregs x h)
          (by
            intro x hx d hd
            rcases hok.defs_ok hrm j hj x hx.1 hx.2 d hd with h | h
            · exact h
            · rw [hmv] at h; cases h.1)
          (hok.defs_pw hrm)
        apply key
        by_cases hvd : v ∈ ins.defs
        · exact Or.inr hvd
        · exact Or.inl ⟨hv, hvd⟩

theorem run_rel {Val σ : Type} (S : Sem Val σ) (A : Alloc) (Js : Nat → PReg → Val) (p : Program)
    (hc : Checked p A) :
    ∀ (n : Nat) (s : VState Val σ) (t : PState Val σ), Rel A s t →
      Rel A (vrun S p n s) (prun S A.alias A.colour A.removed Js p n t)
  | 0, _, _, h => h
  | n + 1, s, t, h => by
    simp only [vrun, prun]
    exact run_rel S A Js p hc n _ _ (step_rel S A (Js n) p hc s t h)

/-! ### entry: a related physical state exists for every virtual state -/

theorem find_some_mem {α : Type} (f : α → Bool) : ∀ (l : List α) (x : α), l.find? f = some x → x ∈ l ∧ f x = true
  | [], _, h => by simp at h
  | a :: l, x, h => by
    simp only [List.find?] at h
    cases ha : f a with
    | true => rw [ha] at h; simp at h; subst h; exact ⟨List.mem_cons_self .., ha⟩
    | false =>
      rw [ha] at h
      have := find_some_mem f l x h
      exact ⟨List.mem_cons_of_mem _ this.1, this.2⟩

/-- the register file that holds every entry-live value in its register -/
def entryRegs {Val : Type} (A : Alloc) (R : VReg → Val) : PReg → Val :=
  fun q => match (A.live 0).find? (fun v => A.colour v == q) with
    | some v => R v
    | none => R 0

theorem pairwise_mem {α : Type} (r : α → α → Prop) (hs : ∀ a b, r a b → r b a) :
    ∀ (l : List α), l.Pairwise r → ∀ a ∈ l, ∀ b ∈ l, a = b ∨ r a b
  | [], _, a, ha, _, _ => by cases ha
  | x :: l, h, a, ha, b, hb => by
    have h' := List.pairwise_cons.mp h
    rcases List.mem_cons.mp ha with ea | ha'
    · rcases List.mem_cons.mp hb with eb | hb'
      · exact Or.inl (ea.trans eb.symm)
      · subst ea; exact Or.inr (h'.1 b hb')
    · rcases List.mem_cons.mp hb with eb | hb'
      · subst eb; exact Or.inr (hs _ _ (h'.1 a ha'))
      · exact pairwise_mem r hs l h'.2 a ha' b hb'

theorem entry_rel {Val σ : Type} (A : Alloc) (p : Program) (hc : Checked p A) (R : VReg → Val) (st : σ) :
    Rel A (⟨0, R, st⟩ : VState Val σ) ⟨0, entryRegs A R, st⟩ := by
  refine ⟨rfl, rfl, ?_⟩
  intro v hv
  simp only [entryRegs]
  cases hf : (A.live 0).find? (fun w => A.colour w == A.colour v) with
  | none =>
    have := List.find?_eq_none.mp hf v hv
    simp at this
  | some w =>
    obtain ⟨hw, hcw⟩ := find_some_mem _ _ _ hf
    have hcw' : A.colour w = A.colour v := by simpa using hcw
    have := pairwise_mem _ (by
      intro a b hab
      rcases hab with e | e
      · exact Or.inl e.symm
      · right; rw [ov_symm]; exact e) _ hc.entry w hw v hv
    rcases this with e | e | e
    · rw [e]
    · rw [e]
    · rw [hcw', ov_refl] at e; cases e

/-! ### static consequence: overlapping registers of live values are identical registers -/

/-- `i` is reachable from the entry through control-flow edges -/
inductive Reach (p : Program) : Nat → Prop
  | entry : Reach p 0
  | step (i j : Nat) (ins : Instr) : Reach p i → p[i]? = some ins → j ∈ succs p i ins → Reach p j

theorem live_share_static (p : Program) (A : Alloc) (hc : Checked p A) :
    ∀ i, Reach p i → ∀ v ∈ A.live i, ∀ w ∈ A.live i,
      ov A.alias (A.colour v) (A.colour w) = true → A.colour v = A.colour w := by
  intro i hi
  induction hi with
  | entry =>
    intro v hv w hw ho
    have := pairwise_mem _ (by
      intro a b hab
      rcases hab with e | e
      · exact Or.inl e.symm
      · right; rw [ov_symm]; exact e) _ hc.entry v hv w hw
    rcases this with e | e | e
    · rw [e]
    · rw [e]
    · rw [e] at ho; cases ho
  | step i j ins _ hi hj ih =>
    intro v hv w hw ho
    have hok := hc.instr i ins hi
    cases hrm : A.removed i with
    | true =>
      obtain ⟨sv, d, _, hu, hd, _, hcol⟩ := hok.removed_ok hrm
      have hsv : sv ∈ A.live i := hok.uses_live sv (by simp [hu])
      -- every live-out value has a live-in representative with the same colour
      have rep : ∀ x ∈ A.live j, ∃ y ∈ A.live i, A.colour y = A.colour x := by
        intro x hx
        rcases hok.out_live j hj x hx with h | h
        · rw [hd] at h; simp at h; subst h; exact ⟨sv, hsv, hcol.symm⟩
        · exact ⟨x, h, rfl⟩
      obtain ⟨v', hv', ev⟩ := rep v hv
      obtain ⟨w', hw', ew⟩ := rep w hw
      rw [← ev, ← ew] at ho ⊢
      exact ih v' hv' w' hw' ho
    | false =>
      by_cases hvd : v ∈ ins.defs
      · by_cases hwd : w ∈ ins.defs
        · rcases pairwise_mem _ (by intro a b hab; rw [ov_symm]; exact hab) _ (hok.defs_pw hrm) v hvd w hwd with e | e
          · rw [e]
          · rw [e] at ho; cases ho
        · rcases hok.defs_ok hrm j hj w hw hwd v hvd with e | e
          · rw [e] at ho; cases ho
          · exact e.2.2
      · by_cases hwd : w ∈ ins.defs
        · rcases hok.defs_ok hrm j hj v hv hvd w hwd with e | e
          · rw [ov_symm, e] at ho; cases ho
          · exact e.2.2.symm
        · have hv' : v ∈ A.live i := by
            rcases hok.out_live j hj v hv with h | h
            · exact absurd h hvd
            · exact h
          have hw' : w ∈ A.live i := by
            rcases hok.out_live j hj w hw with h | h
            · exact absurd h hwd
            · exact h
          exact ih v hv' w hw' ho

theorem vrun_succ {Val σ : Type} (S : Sem Val σ) (p : Program) :
    ∀ (n : Nat) (s : VState Val σ), vrun S p (n + 1) s = vstep S p (vrun S p n s)
  | 0, _ => rfl
  | n + 1, s => by
    rw [vrun, vrun_succ S p n (vstep S p s)]
    rfl

theorem vrun_reach {Val σ : Type} (S : Sem Val σ) (p : Program) (R : VReg → Val) (st : σ) :
    ∀ n, Reach p (vrun S p n (⟨0, R, st⟩ : VState Val σ)).pc
  | 0 => Reach.entry
  | n + 1 => by
    rw [vrun_succ]
    have ih := vrun_reach S p R st n
    generalize vrun S p n (⟨0, R, st⟩ : VState Val σ) = s at ih ⊢
    unfold vstep
    cases hi : p[s.pc]? with
    | none => exact ih
    | some ins => exact Reach.step s.pc _ ins ih hi (nextPc_mem ..)

end Proofs.RA
