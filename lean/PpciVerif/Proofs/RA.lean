import PpciVerif.Model.MCode
import PpciVerif.Model.RA
/-!
Helper lemmas for C06: reflection of the Boolean checker into declarative
per-instruction conditions, the one-step simulation lemma, its lifting to runs.
Core Lean only.
-/
namespace Proofs.RA
open Model.MCode Model.RA

/-! ### small facts -/

theorem ov_symm (al : PReg → PReg → Bool) (p q : PReg) : ov al p q = ov al q p := by
  simp only [ov]
  by_cases h : p = q
  · subst h; rfl
  · have h1 : (p == q) = false := by simpa using h
    have h2 : (q == p) = false := by simpa using fun e : q = p => h e.symm
    rw [h1, h2]
    cases al p q <;> cases al q p <;> rfl

theorem ov_refl (al : PReg → PReg → Bool) (p : PReg) : ov al p p = true := by simp [ov]

theorem pairwiseB_sound {α : Type} (f : α → α → Bool) :
    ∀ l : List α, pairwiseB f l = true → l.Pairwise (fun a b => f a b = true)
  | [], _ => List.Pairwise.nil
  | x :: xs, h => by
    simp only [pairwiseB, Bool.and_eq_true, List.all_eq_true] at h
    exact List.Pairwise.cons h.1 (pairwiseB_sound f xs h.2)

theorem pick_mem (l : List Nat) (k d : Nat) (h : l ≠ []) : pick l k d ∈ l := by
  unfold pick
  cases hk : l[k]? with
  | some x => exact List.mem_of_getElem? hk
  | none =>
    cases l with
    | nil => exact absurd rfl h
    | cons a t => simp

theorem succsL_ne_nil (labels : List (Option Nat)) (i : Nat) (js : List Nat) : succsL labels i js ≠ [] := by
  unfold succsL
  split
  · simp
  · rename_i h
    cases js with
    | nil => simp at h
    | cons a t => simp

theorem nextPc_mem {Val σ : Type} (S : Sem Val σ) (p : Program) (i : Nat) (ins : Instr) (args : List Val) (s : σ) :
    nextPc S p i ins args s ∈ succs p i ins :=
  pick_mem _ _ _ (succsL_ne_nil _ _ _)

theorem succs_nojump (p : Program) (i : Nat) (ins : Instr) (h : ins.jumps.isEmpty = true) :
    succs p i ins = [i + 1] := by
  simp [succs, succsL, h]

theorem nextPc_nojump {Val σ : Type} (S : Sem Val σ) (p : Program) (i : Nat) (ins : Instr) (args : List Val) (s : σ)
    (h : ins.jumps.isEmpty = true) : nextPc S p i ins args s = i + 1 := by
  have := nextPc_mem S p i ins args s
  rw [succs_nojump p i ins h] at this
  simpa using this

/-! ### register-file writes -/

theorem foldl_havoc_rel {Val : Type} (M : RegModel) (J : PReg → Val) (v : VReg) :
    ∀ (cl : List PReg) (P : PReg → Val) (R : VReg → Val),
      (M.fixed v = true ∨ ∀ q ∈ cl, ov M.alias q (M.colour v) = false) →
      P (M.colour v) = R v →
      (cl.foldl (havoc M.alias J) P) (M.colour v) = (cl.foldl (havocV M J) R) v
  | [], _, _, _, h => h
  | q :: cl, P, R, hc, h => by
    rw [List.foldl_cons, List.foldl_cons]
    apply foldl_havoc_rel M J v cl
    · rcases hc with hc | hc
      · exact Or.inl hc
      · exact Or.inr (fun q' hq' => hc q' (List.mem_cons_of_mem _ hq'))
    · cases ho : ov M.alias q (M.colour v) with
      | false => simp [havoc, havocV, ho, h]
      | true =>
        rcases hc with hc | hc
        · simp [havoc, havocV, ho, hc]
        · rw [hc q (List.mem_cons_self ..)] at ho; cases ho

/-- Sequential writes keep the relation `P (c v) = R v` on every value that is either
    `G`ood already (not written here, and whose register no later def overlaps unless both
    are fixed) or written here, provided the defs' registers are pairwise non-overlapping
    and distinct fixed names are distinct registers. -/
theorem write_rel {Val : Type} (M : RegModel) (J : PReg → Val) (vals : Nat → Val)
    (hinj : ∀ v w, M.fixed v = true → M.fixed w = true → M.colour v = M.colour w → v = w) :
    ∀ (ds : List VReg) (k : Nat) (R : VReg → Val) (P : PReg → Val) (G : VReg → Prop),
      (∀ v, G v → P (M.colour v) = R v) →
      (∀ v, G v → v ∉ ds) →
      (∀ v, G v → ∀ d ∈ ds, ov M.alias (M.colour d) (M.colour v) = false ∨ (M.fixed d = true ∧ M.fixed v = true)) →
      ds.Pairwise (fun a b => ov M.alias (M.colour a) (M.colour b) = false) →
      ∀ v, (G v ∨ v ∈ ds) → writeP M J vals ds k P (M.colour v) = writeV M J vals ds k R v
  | [], _, R, P, G, hG, _, _, _, v, hv => by
    rcases hv with hv | hv
    · simpa [writeP, writeV] using hG v hv
    · cases hv
  | d :: ds, k, R, P, G, hG, hN, hD, hP, v, hv => by
    rw [writeP, writeV]
    have hP' := List.pairwise_cons.mp hP
    have hdnot : d ∉ ds := by
      intro hd
      have := hP'.1 d hd
      rw [ov_refl] at this; cases this
    apply write_rel M J vals hinj ds (k + 1) _ _ (fun w => G w ∨ w = d)
    · intro w hw
      rcases hw with hw | hw
      · have hwd : w ≠ d := fun e => hN w hw (e ▸ List.mem_cons_self ..)
        rcases hD w hw d (List.mem_cons_self ..) with hne | ⟨hfd, hfw⟩
        · have hcne : M.colour w ≠ M.colour d := by
            intro e; rw [e, ov_refl] at hne; cases hne
          simp [writeReg, writeRegV, hcne, hne, hwd, hG w hw]
        · have hcne : M.colour w ≠ M.colour d := fun e => hwd (hinj w d hfw hfd e)
          cases ho : ov M.alias (M.colour d) (M.colour w) with
          | false => simp [writeReg, writeRegV, hcne, ho, hwd, hG w hw]
          | true => simp [writeReg, writeRegV, hcne, ho, hwd, hfd, hfw]
      · subst hw; simp [writeReg, writeRegV]
    · intro w hw
      rcases hw with hw | hw
      · exact fun h => hN w hw (List.mem_cons_of_mem _ h)
      · subst hw; exact hdnot
    · intro w hw d' hd'
      rcases hw with hw | hw
      · exact hD w hw d' (List.mem_cons_of_mem _ hd')
      · subst hw
        left; rw [ov_symm]; exact hP'.1 d' hd'
    · exact hP'.2
    · rcases hv with hv | hv
      · exact Or.inl (Or.inl hv)
      · rcases List.mem_cons.mp hv with e | hm
        · exact Or.inl (Or.inr e)
        · exact Or.inr hm

/-! ### declarative per-instruction conditions and reflection -/

/-- the conditions `instrOkB` decides, as propositions -/
structure InstrOk (p : Program) (A : Alloc) (i : Nat) (ins : Instr) : Prop where
  uses_live : ∀ u ∈ ins.uses, u ∈ A.live i
  out_live : ∀ j ∈ succs p i ins, ∀ v ∈ A.live j, v ∈ ins.defs ∨ v ∈ A.live i
  move_wf : ins.isMove = true →
    ∃ s d, ins.uses = [s] ∧ ins.defs = [d] ∧ ins.jumps.isEmpty = true ∧ ins.clobbers = []
  removed_ok : A.removed i = true →
    ∃ s d, ins.isMove = true ∧ ins.uses = [s] ∧ ins.defs = [d] ∧ A.colour d = A.colour s
  defs_ok : ∀ j ∈ succs p i ins, ∀ v ∈ A.live j, v ∉ ins.defs → ∀ d ∈ ins.defs,
    ov A.alias (A.colour d) (A.colour v) = false ∨
      (ins.isMove = true ∧ ins.uses = [v] ∧ A.colour d = A.colour v) ∨
      (A.removed i = false ∧ A.isFixed d = true ∧ A.isFixed v = true)
  clob_ok : A.removed i = false → ∀ j ∈ succs p i ins, ∀ v ∈ A.live j, v ∉ ins.defs →
    A.isFixed v = true ∨ ∀ q ∈ ins.clobbers, ov A.alias q (A.colour v) = false
  defs_pw : A.removed i = false →
    ins.defs.Pairwise (fun a b => ov A.alias (A.colour a) (A.colour b) = false)

theorem len_one {α : Type} (l : List α) (h : l.length = 1) : ∃ x, l = [x] := by
  match l, h with
  | [x], _ => exact ⟨x, rfl⟩

theorem instrOkB_sound (p : Program) (A : Alloc) (i : Nat) (ins : Instr) (h : instrOkB p A i ins = true) :
    InstrOk p A i ins := by
  simp only [instrOkB, liveOkB, moveWfB, Bool.and_eq_true, List.all_eq_true, Bool.or_eq_true,
    List.contains_eq_mem, decide_eq_true_eq, liveOut, List.mem_flatMap, forall_exists_index, and_imp,
    Bool.not_eq_true', beq_iff_eq] at h
  obtain ⟨⟨⟨⟨hu, ho⟩, hm⟩, hdefs⟩, hrest⟩ := h
  have hmove : ins.isMove = true →
      ∃ s d, ins.uses = [s] ∧ ins.defs = [d] ∧ ins.jumps.isEmpty = true ∧ ins.clobbers = [] := by
    intro hmv
    rcases hm with hm | hm
    · rw [hmv] at hm; cases hm
    · obtain ⟨s, hs⟩ := len_one _ hm.1.1.1
      obtain ⟨d, hd⟩ := len_one _ hm.1.1.2
      exact ⟨s, d, hs, hd, hm.1.2, by simpa using hm.2⟩
  refine ⟨hu, fun j hj v hv => ho v j hj hv, hmove, ?_, ?_, ?_, ?_⟩
  · intro hr
    rw [if_pos hr] at hrest
    simp only [removedOkB, Bool.and_eq_true] at hrest
    obtain ⟨hmv, hc⟩ := hrest
    obtain ⟨s, d, hs, hd, _⟩ := hmove hmv
    rw [hs, hd] at hc
    exact ⟨s, d, hmv, hs, hd, by simpa using hc⟩
  · intro j hj v hv hvd d hd
    simp only [defsOkB, List.all_eq_true, Bool.or_eq_true, List.contains_eq_mem, decide_eq_true_eq,
      List.mem_flatMap, forall_exists_index, and_imp, Bool.not_eq_true', exemptB,
      Bool.and_eq_true, beq_iff_eq] at hdefs
    rcases hdefs v j hj hv with h1 | h1
    · exact absurd h1 hvd
    · rcases h1 d hd with (h2 | h2) | h2
      · exact Or.inl h2
      · exact Or.inr (Or.inl ⟨h2.1.1, h2.1.2, h2.2⟩)
      · exact Or.inr (Or.inr ⟨h2.1.1, h2.1.2, h2.2⟩)
  · intro hr j hj v hv hvd
    rw [hr] at hrest
    simp only [Bool.false_eq_true, if_false, Bool.and_eq_true] at hrest
    have := hrest.1
    simp only [clobOkB, List.all_eq_true, Bool.or_eq_true, List.contains_eq_mem, decide_eq_true_eq,
      List.mem_flatMap, forall_exists_index, and_imp, Bool.not_eq_true'] at this
    rcases this v j hj hv with (h1 | h1) | h1
    · exact absurd h1 hvd
    · exact Or.inl h1
    · exact Or.inr h1
  · intro hr
    rw [hr] at hrest
    simp only [Bool.false_eq_true, if_false, Bool.and_eq_true] at hrest
    have := pairwiseB_sound _ _ hrest.2
    exact this.imp (by intro a b hab; simpa using hab)

theorem checkFrom_sound (p : Program) (A : Alloc) :
    ∀ (l : List Instr) (i : Nat), checkFrom p A i l = true →
      ∀ k ins, l[k]? = some ins → InstrOk p A (i + k) ins
  | [], _, _, k, ins, hk => by simp at hk
  | x :: rest, i, h, k, ins, hk => by
    simp only [checkFrom, Bool.and_eq_true] at h
    cases k with
    | zero =>
      simp at hk; subst hk
      exact instrOkB_sound p A i x h.1
    | succ k =>
      have := checkFrom_sound p A rest (i + 1) h.2 k ins (by simpa using hk)
      have e : i + 1 + k = i + (k + 1) := by omega
      rw [e] at this; exact this

theorem pairwise_mem {α : Type} (r : α → α → Prop) (hs : ∀ a b, r a b → r b a) :
    ∀ (l : List α), l.Pairwise r → ∀ a ∈ l, ∀ b ∈ l, a = b ∨ r a b
  | [], _, a, ha, _, _ => by cases ha
  | x :: l, h, a, ha, b, hb => by
    have h' := List.pairwise_cons.mp h
    rcases List.mem_cons.mp ha with ea | ha'
    · rcases List.mem_cons.mp hb with eb | hb'
      · exact Or.inl (ea.trans eb.symm)
      · subst ea; exact Or.inr (h'.1 b hb')
    · rcases List.mem_cons.mp hb with eb | hb'
      · subst eb; exact Or.inr (hs _ _ (h'.1 a ha'))
      · exact pairwise_mem r hs l h'.2 a ha' b hb'

/-- what `check` establishes -/
structure Checked (p : Program) (A : Alloc) : Prop where
  instr : ∀ i ins, p[i]? = some ins → InstrOk p A i ins
  inj : ∀ v w, A.isFixed v = true → A.isFixed w = true → A.colour v = A.colour w → v = w

/-- what `entryOkB` establishes -/
def EntryOk (A : Alloc) : Prop :=
  (A.live 0).Pairwise (fun a b => a = b ∨ ov A.alias (A.colour a) (A.colour b) = false ∨
    (A.isFixed a = true ∧ A.isFixed b = true))

theorem entryOkB_sound (A : Alloc) (h : entryOkB A = true) : EntryOk A := by
  have := pairwiseB_sound _ _ h
  exact this.imp (by
    intro a b hab
    simp only [Bool.or_eq_true, beq_iff_eq, Bool.not_eq_true', Bool.and_eq_true] at hab
    rcases hab with (h1 | h1) | h1
    · exact Or.inl h1
    · exact Or.inr (Or.inl h1)
    · exact Or.inr (Or.inr h1))

theorem check_sound (p : Program) (A : Alloc) (h : check p A = true) : Checked p A := by
  simp only [check, Bool.and_eq_true] at h
  refine ⟨fun i ins hi => ?_, ?_⟩
  · have := checkFrom_sound p A p 0 h.2 i ins hi
    simpa using this
  · intro v w hv hw hc
    have hp := pairwiseB_sound _ _ h.1
    simp only [Alloc.isFixed, List.contains_eq_mem, decide_eq_true_eq] at hv hw
    rcases pairwise_mem (fun a b => (A.colour a != A.colour b) = true)
      (by intro a b hab; simp only [bne_iff_ne, ne_eq] at hab ⊢; exact fun e => hab e.symm) _ hp v hv w hw with e | e
    · exact e
    · simp only [bne_iff_ne, ne_eq] at e; exact absurd hc e

/-! ### the simulation relation and the one-step lemma -/

/-- same control point, same memory, and every live value sits in its register -/
def Rel {Val σ : Type} (A : Alloc) (s : VState Val σ) (t : PState Val σ) : Prop :=
  s.pc = t.pc ∧ s.st = t.st ∧ ∀ v ∈ A.live s.pc, t.regs (A.colour v) = s.regs v

theorem args_agree {Val σ : Type} (A : Alloc) (p : Program) (s : VState Val σ) (t : PState Val σ)
    (ins : Instr) (hok : InstrOk p A s.pc ins) (hr : Rel A s t) :
    ins.uses.map (fun v => t.regs (A.colour v)) = ins.uses.map s.regs := by
  apply List.map_congr_left
  intro u hu
  exact hr.2.2 u (hok.uses_live u hu)

theorem step_rel {Val σ : Type} (S : Sem Val σ) (A : Alloc) (J : PReg → Val) (p : Program)
    (hc : Checked p A) (s : VState Val σ) (t : PState Val σ) (hr : Rel A s t) :
    Rel A (vstep S A.model J p s) (pstep S A.model A.removed J p t) := by
  obtain ⟨hpc, hst, hregs⟩ := hr
  unfold vstep pstep
  rw [← hpc]
  cases hi : p[s.pc]? with
  | none => exact ⟨hpc, hst, hregs⟩
  | some ins =>
    have hok := hc.instr s.pc ins hi
    have hargs : ins.uses.map (fun v => t.regs (A.model.colour v)) = ins.uses.map s.regs :=
      args_agree A p s t ins hok ⟨hpc, hst, hregs⟩
    simp only []
    cases hrm : A.removed s.pc with
    | true =>
      obtain ⟨sv, d, hmv, hu, hd, hcol⟩ := hok.removed_ok hrm
      obtain ⟨_, _, hu', hd', hj, hcl⟩ := hok.move_wf hmv
      have hnext : nextPc S p s.pc ins (ins.uses.map s.regs) s.st = s.pc + 1 := nextPc_nojump _ _ _ _ _ _ hj
      simp only [if_true]
      refine ⟨hnext, ?_, ?_⟩
      · simp [newSt, hmv, hst]
      · intro v hv
        simp only [hnext] at hv
        simp only [hd, hu, hcl, List.foldl_nil, writeV, defVal, hmv, if_true, List.map_cons, List.map_nil]
        have hsv : sv ∈ A.live s.pc := hok.uses_live sv (by simp [hu])
        have hsucc : s.pc + 1 ∈ succs p s.pc ins := by rw [succs_nojump p s.pc ins hj]; simp
        by_cases hvd : v = d
        · subst hvd
          simp [writeRegV, hcol, hregs sv hsv]
        · have hvnd : v ∉ ins.defs := by rw [hd]; simpa using hvd
          have hvin : v ∈ A.live s.pc := by
            rcases hok.out_live (s.pc + 1) hsucc v hv with h | h
            · exact absurd h hvnd
            · exact h
          rcases hok.defs_ok (s.pc + 1) hsucc v hv hvnd d (by simp [hd]) with h | h | h
          · simp [writeRegV, Alloc.model, hvd, h, hregs v hvin]
          · -- v is the source of the move
            have hvs : sv = v := by have := h.2.1; rw [hu] at this; simpa using this
            subst hvs
            have hnf : ¬ (A.isFixed d = true ∧ A.isFixed sv = true) := by
              intro hf; exact hvd (hc.inj sv d hf.2 hf.1 hcol.symm)
            have : (A.isFixed d && A.isFixed sv) = false := by
              cases h1 : A.isFixed d <;> cases h2 : A.isFixed sv <;> simp_all
            simp [writeRegV, Alloc.model, hvd, this, hregs sv hvin]
          · rw [hrm] at h; cases h.1
    | false =>
      simp only [Bool.false_eq_true, if_false]
      rw [hargs, ← hst]
      refine ⟨rfl, rfl, ?_⟩
      intro v hv
      generalize hnp : nextPc S p s.pc ins (ins.uses.map s.regs) s.st = j at hv
      have hj : j ∈ succs p s.pc ins := by rw [← hnp]; exact nextPc_mem ..
      -- state after the clobbers
      have hclob : ∀ x ∈ A.live j, x ∉ ins.defs →
          (ins.clobbers.foldl (havoc A.model.alias J) t.regs) (A.model.colour x)
            = (ins.clobbers.foldl (havocV A.model J) s.regs) x := by
        intro x hx hxd
        apply foldl_havoc_rel A.model J x
        · exact hok.clob_ok hrm j hj x hx hxd
        · rcases hok.out_live j hj x hx with h | h
          · exact absurd h hxd
          · exact hregs x h
      cases hmv : ins.isMove with
      | true =>
        obtain ⟨sv, d, hu, hd, _, hcl⟩ := hok.move_wf hmv
        have hsv : sv ∈ A.live s.pc := hok.uses_live sv (by simp [hu])
        simp only [hd, hu, hcl, List.foldl_nil, writeV, writeP, defVal, hmv, if_true, List.map_cons, List.map_nil]
        by_cases hvd : v = d
        · subst hvd; simp [writeReg, writeRegV, Alloc.model]
        · have hvnd : v ∉ ins.defs := by rw [hd]; simpa using hvd
          have hvin : v ∈ A.live s.pc := by
            rcases hok.out_live j hj v hv with h | h
            · exact absurd h hvnd
            · exact h
          rcases hok.defs_ok j hj v hv hvnd d (by simp [hd]) with h | h | h
          · have hcne : A.colour v ≠ A.colour d := by
              intro e; rw [e, ov_refl] at h; cases h
            simp [writeReg, writeRegV, Alloc.model, hcne, h, hvd, hregs v hvin]
          · obtain ⟨_, huv, hcol⟩ := h
            have hvs : sv = v := by rw [hu] at huv; simpa using huv
            subst hvs
            have : (A.isFixed d && A.isFixed sv) = false := by
              cases h1 : A.isFixed d <;> cases h2 : A.isFixed sv <;> simp_all
              exact hvd (hc.inj sv d h2 h1 hcol.symm)
            simp [writeReg, writeRegV, Alloc.model, hcol, hvd, this]
          · obtain ⟨_, hfd, hfv⟩ := h
            have hcne : A.colour v ≠ A.colour d := fun e => hvd (hc.inj v d hfv hfd e)
            cases ho : ov A.alias (A.colour d) (A.colour v) with
            | false => simp [writeReg, writeRegV, Alloc.model, hcne, ho, hvd, hregs v hvin]
            | true => simp [writeReg, writeRegV, Alloc.model, hcne, ho, hvd, hfd, hfv]
      | false =>
        have key := write_rel A.model J (defVal S ins (ins.uses.map s.regs) s.st) hc.inj ins.defs 0
          (ins.clobbers.foldl (havocV A.model J) s.regs)
          (ins.clobbers.foldl (havoc A.model.alias J) t.regs) (fun x => x ∈ A.live j ∧ x ∉ ins.defs)
          (fun x hx => hclob x hx.1 hx.2)
          (fun x hx => hx.2)
          (by
            intro x hx d hd
            rcases hok.defs_ok j hj x hx.1 hx.2 d hd with h | h | h
            · exact Or.inl h
            · rw [hmv] at h; cases h.1
            · exact Or.inr ⟨h.2.1, h.2.2⟩)
          (hok.defs_pw hrm)
        apply key
        by_cases hvd : v ∈ ins.defs
        · exact Or.inr hvd
        · exact Or.inl ⟨hv, hvd⟩

theorem run_rel {Val σ : Type} (S : Sem Val σ) (A : Alloc) (Js : Nat → PReg → Val) (p : Program)
    (hc : Checked p A) :
    ∀ (n : Nat) (s : VState Val σ) (t : PState Val σ), Rel A s t →
      Rel A (vrun S A.model Js p n s) (prun S A.model A.removed Js p n t)
  | 0, _, _, h => h
  | n + 1, s, t, h => by
    simp only [vrun, prun]
    exact run_rel S A Js p hc n _ _ (step_rel S A (Js n) p hc s t h)

/-! ### entry: a related physical state exists for every virtual state -/

theorem find_some_mem {α : Type} (f : α → Bool) : ∀ (l : List α) (x : α), l.find? f = some x → x ∈ l ∧ f x = true
  | [], _, h => by simp at h
  | a :: l, x, h => by
    simp only [List.find?] at h
    cases ha : f a with
    | true => rw [ha] at h; simp at h; subst h; exact ⟨List.mem_cons_self .., ha⟩
    | false =>
      rw [ha] at h
      have := find_some_mem f l x h
      exact ⟨List.mem_cons_of_mem _ this.1, this.2⟩

/-- the register file that holds every entry-live value in its register -/
def entryRegs {Val : Type} (A : Alloc) (R : VReg → Val) : PReg → Val :=
  fun q => match (A.live 0).find? (fun v => A.colour v == q) with
    | some v => R v
    | none => R 0

theorem entry_rel {Val σ : Type} (A : Alloc) (p : Program) (hc : Checked p A) (he : EntryOk A) (R : VReg → Val) (st : σ) :
    Rel A (⟨0, R, st⟩ : VState Val σ) ⟨0, entryRegs A R, st⟩ := by
  refine ⟨rfl, rfl, ?_⟩
  intro v hv
  simp only [entryRegs]
  cases hf : (A.live 0).find? (fun w => A.colour w == A.colour v) with
  | none =>
    have := List.find?_eq_none.mp hf v hv
    simp at this
  | some w =>
    obtain ⟨hw, hcw⟩ := find_some_mem _ _ _ hf
    have hcw' : A.colour w = A.colour v := by simpa using hcw
    have := pairwise_mem _ (by
      intro a b hab
      rcases hab with e | e | e
      · exact Or.inl e.symm
      · right; left; rw [ov_symm]; exact e
      · right; right; exact ⟨e.2, e.1⟩) _ he w hw v hv
    rcases this with e | e | e | e
    · rw [e]
    · rw [e]
    · rw [hcw', ov_refl] at e; cases e
    · rw [hc.inj w v e.1 e.2 hcw']

/-! ### static consequence: overlapping registers of live values are identical registers -/

/-- `i` is reachable from the entry through control-flow edges -/
inductive Reach (p : Program) : Nat → Prop
  | entry : Reach p 0
  | step (i j : Nat) (ins : Instr) : Reach p i → p[i]? = some ins → j ∈ succs p i ins → Reach p j

/-- two live values, not both fixed registers, whose registers overlap are in the identical register -/
theorem live_share_static (p : Program) (A : Alloc) (hc : Checked p A) (he : EntryOk A) :
    ∀ i, Reach p i → ∀ v ∈ A.live i, ∀ w ∈ A.live i, ¬ (A.isFixed v = true ∧ A.isFixed w = true) →
      ov A.alias (A.colour v) (A.colour w) = true → A.colour v = A.colour w := by
  intro i hi
  induction hi with
  | entry =>
    intro v hv w hw hnf ho
    have := pairwise_mem _ (by
      intro a b hab
      rcases hab with e | e | e
      · exact Or.inl e.symm
      · right; left; rw [ov_symm]; exact e
      · right; right; exact ⟨e.2, e.1⟩) _ he v hv w hw
    rcases this with e | e | e | e
    · rw [e]
    · rw [e]
    · rw [e] at ho; cases ho
    · exact absurd e hnf
  | step i j ins _ hi hj ih =>
    intro v hv w hw hnf ho
    have hok := hc.instr i ins hi
    by_cases hvd : v ∈ ins.defs
    · by_cases hwd : w ∈ ins.defs
      · cases hrm : A.removed i with
        | true =>
          obtain ⟨_, d, _, _, hd, _⟩ := hok.removed_ok hrm
          rw [hd] at hvd hwd
          simp at hvd hwd
          rw [hvd, hwd]
        | false =>
          rcases pairwise_mem _ (by intro a b hab; rw [ov_symm]; exact hab) _ (hok.defs_pw hrm) v hvd w hwd with e | e
          · rw [e]
          · rw [e] at ho; cases ho
      · rcases hok.defs_ok j hj w hw hwd v hvd with e | e | e
        · rw [e] at ho; cases ho
        · exact e.2.2
        · exact absurd ⟨e.2.1, e.2.2⟩ hnf
    · by_cases hwd : w ∈ ins.defs
      · rcases hok.defs_ok j hj v hv hvd w hwd with e | e | e
        · rw [ov_symm, e] at ho; cases ho
        · exact e.2.2.symm
        · exact absurd ⟨e.2.2, e.2.1⟩ hnf
      · have hv' : v ∈ A.live i := by
          rcases hok.out_live j hj v hv with h | h
          · exact absurd h hvd
          · exact h
        have hw' : w ∈ A.live i := by
          rcases hok.out_live j hj w hw with h | h
          · exact absurd h hwd
          · exact h
        exact ih v hv' w hw' hnf ho

theorem vrun_succ {Val σ : Type} (S : Sem Val σ) (M : RegModel) (p : Program) :
    ∀ (n : Nat) (Js : Nat → PReg → Val) (s : VState Val σ),
      vrun S M Js p (n + 1) s = vstep S M (Js 0) p (vrun S M (fun k => Js (k + 1)) p n s)
  | 0, _, _ => rfl
  | n + 1, Js, s => by
    rw [vrun, vrun_succ S M p n Js (vstep S M (Js (n + 1)) p s)]
    rfl

theorem vrun_reach {Val σ : Type} (S : Sem Val σ) (M : RegModel) (p : Program) (R : VReg → Val) (st : σ) :
    ∀ n (Js : Nat → PReg → Val), Reach p (vrun S M Js p n (⟨0, R, st⟩ : VState Val σ)).pc
  | 0, _ => Reach.entry
  | n + 1, Js => by
    rw [vrun_succ]
    have ih := vrun_reach S M p R st n (fun k => Js (k + 1))
    generalize vrun S M (fun k => Js (k + 1)) p n (⟨0, R, st⟩ : VState Val σ) = s at ih ⊢
    unfold vstep
    cases hi : p[s.pc]? with
    | none => exact ih
    | some ins => exact Reach.step s.pc _ ins ih hi (nextPc_mem ..)

end Proofs.RA
