import PpciVerif.Model.IRJson
import PpciVerif.Proofs.IRBuild
/-!
# Proofs.IRJson — `DictReader ∘ DictWriter` on the fragment `fragCore`

1. syntax: the reader recovers from the JSON tree of an instruction / type / initial value exactly the raw
   form the writer started from (`readInstrRaw_writeInstr`, `getType_writeType`, `asc2bin_bin2asc`);
2. hence the reader's loops are the builder programs of `Proofs.IRBuild` (`readFunc_eq`);
3. `Proofs.IRBuild.funcsWith_spec` then gives the module back.
-/
namespace Proofs.IRJson
open Spec.IR Model.IRBuild Model.IRJson Model.IRFrag Proofs.IRBuild

/-! ## hex and `bin2asc` -/

theorem hexVal_hexDigit (n : Nat) (h : n < 16) : hexVal (hexDigit n) = some n := by
  have key : ∀ k : Fin 16, hexVal (hexDigit k.val) = some k.val := by decide
  exact key ⟨n, h⟩

def IsBytes (bs : List Nat) : Prop := ∀ b ∈ bs, b < 256

theorem isBytes_of_all {bs : List Nat} (h : bs.all isByte = true) : IsBytes bs := by
  intro b hb
  have := List.all_eq_true.1 h b hb
  simpa [isByte] using this

theorem unhexlify_hexlify (bs : List Nat) (h : IsBytes bs) : unhexlify (hexlify bs) = .ok bs := by
  induction bs with
  | nil => rfl
  | cons b r ih =>
    have hb : b < 256 := h b (by simp)
    have hr : IsBytes r := fun x hx => h x (by simp [hx])
    have h1 : hexVal (hexDigit (b / 16 % 16)) = some (b / 16 % 16) := hexVal_hexDigit _ (by omega)
    have h2 : hexVal (hexDigit (b % 16)) = some (b % 16) := hexVal_hexDigit _ (by omega)
    have h3 : b / 16 % 16 * 16 + b % 16 = b := by omega
    simp [hexlify, unhexlify, h1, h2, ih hr, h3]

theorem asc2binParts_chunks : ∀ (fuel : Nat) (bs : List Nat), bs.length ≤ fuel → IsBytes bs →
    asc2binParts ((chunks fuel bs).map (fun p => J.str (String.ofList (hexlify p)))) = .ok bs := by
  intro fuel
  induction fuel with
  | zero =>
    intro bs hl _
    have : bs = [] := List.length_eq_zero_iff.1 (by omega)
    subst this; rfl
  | succ n ih =>
    intro bs hl hb
    cases bs with
    | nil => rfl
    | cons x r =>
      have htake : IsBytes ((x :: r).take 30) := fun y hy => hb y (List.mem_of_mem_take hy)
      have hdrop : IsBytes ((x :: r).drop 30) := fun y hy => hb y (List.mem_of_mem_drop hy)
      have hlen : ((x :: r).drop 30).length ≤ n := by
        simp only [List.length_drop, List.length_cons] at hl ⊢; omega
      simp only [chunks, List.isEmpty_cons, Bool.false_eq_true, if_false, List.map_cons, asc2binParts,
        String.toList_ofList, unhexlify_hexlify _ htake, ih _ hlen hdrop]
      rw [List.take_append_drop]

theorem asc2bin_bin2asc (bs : List Nat) (h : IsBytes bs) : asc2bin (bin2asc bs) = .ok bs := by
  unfold bin2asc
  by_cases hl : bs.length > 30
  · simp only [hl, if_true, asc2bin]
    exact asc2binParts_chunks bs.length bs (Nat.le_refl _) h
  · simp only [hl, if_false, asc2bin, String.toList_ofList]
    exact unhexlify_hexlify bs h

/-! ## types, operators -/

theorem basicTy_int (t : Spec.IRArith.Ty) : basicTy t.name = some (.int t) := by
  cases t <;> decide

theorem asNat_int (n : Nat) : asNat (J.int (n : Int)) = .ok n := by
  have : ¬ ((n : Int) < 0) := by omega
  simp [asNat, this]

theorem getType_writeType (t : Ty) : getType (writeType t) = .ok t := by
  cases t with
  | int it =>
    simp [getType, writeType, getStr, Model.IRJson.get, lookupKey, asStr, bind, Except.bind, basicTy_int, pure, Except.pure]
  | f32 => simp [getType, writeType, getStr, Model.IRJson.get, lookupKey, asStr, bind, Except.bind, basicTy, pure, Except.pure]
  | f64 => simp [getType, writeType, getStr, Model.IRJson.get, lookupKey, asStr, bind, Except.bind, basicTy, pure, Except.pure]
  | ptr => simp [getType, writeType, getStr, Model.IRJson.get, lookupKey, asStr, bind, Except.bind, basicTy, pure, Except.pure]
  | blob s a =>
    simp [getType, writeType, getStr, getNat, Model.IRJson.get, lookupKey, asStr, asNat_int, bind, Except.bind, pure, Except.pure]

theorem strBinop_symbol (op : BinOp) : strBinop op.symbol = some op := by cases op <;> decide
theorem strCond_symbol (c : Cond) : strCond c.symbol = some c := by cases c <;> decide

theorem mapE_asStr_ref (args : List Operand) : mapE asStr (args.map ref) = .ok (args.map opName) := by
  induction args with
  | nil => rfl
  | cons a r ih => simp [mapE, ref, asStr, ih]

theorem map_glob_opName (args : List Operand) : (args.map opName).map Operand.glob = args.map eraseOpnd := by
  induction args with
  | nil => rfl
  | cons a r ih => simp [eraseOpnd, ih]

theorem mapE_readPhiIn (ins : List (String × Operand)) :
    mapE readPhiIn (ins.map (fun p => J.obj [("block", .str p.1), ("value", ref p.2)])) =
      .ok (ins.map (fun p => (p.1, eraseOpnd p.2))) := by
  induction ins with
  | nil => rfl
  | cons a r ih =>
    simp only [List.map_cons, mapE]
    rw [ih]
    simp [readPhiIn, getStr, Model.IRJson.get, lookupKey, asStr, ref, bind, Except.bind, pure, Except.pure, eraseOpnd]

theorem mapE_getType (ts : List Ty) : mapE getType (ts.map writeType) = .ok ts := by
  induction ts with
  | nil => rfl
  | cons a r ih => simp [mapE, getType_writeType, ih]

/-! ## instructions -/

theorem readInstrRaw_writeInstr (i : Instr) (j : J) (hw : writeInstr i = some j)
    (hbytes : ∀ d data, i = .literal d data → IsBytes data) :
    readInstrRaw j = .ok (eraseInstr i) := by
  cases i with
  | asm tpl ins outs cl => simp [writeInstr] at hw
  | literal d data =>
    simp only [writeInstr, Option.some.injEq] at hw; subst hw
    have := asc2bin_bin2asc data (hbytes d data rfl)
    simp [readInstrRaw, getStr, Model.IRJson.get, lookupKey, asStr, bind, Except.bind, pure, Except.pure, this, eraseInstr]
  | const d ty c =>
    simp only [writeInstr, Option.some.injEq] at hw; subst hw
    cases c <;>
      simp [readInstrRaw, getStr, getTypeAt, Model.IRJson.get, lookupKey, asStr, bind, Except.bind, pure, Except.pure,
        getType_writeType, writeConst, eraseInstr]
  | undefined d ty =>
    simp only [writeInstr, Option.some.injEq] at hw; subst hw
    simp [readInstrRaw, getStr, getTypeAt, Model.IRJson.get, lookupKey, asStr, bind, Except.bind, pure, Except.pure,
      getType_writeType, eraseInstr]
  | alloc d s a =>
    simp only [writeInstr, Option.some.injEq] at hw; subst hw
    simp [readInstrRaw, getStr, getNat, Model.IRJson.get, lookupKey, asStr, asNat_int, bind, Except.bind, pure, Except.pure, eraseInstr]
  | addrof d s =>
    simp only [writeInstr, Option.some.injEq] at hw; subst hw
    simp [readInstrRaw, getStr, getTypeAt, Model.IRJson.get, lookupKey, asStr, bind, Except.bind, pure, Except.pure,
      getType_writeType, ref, eraseInstr, eraseOpnd]
  | binop d ty op a b =>
    simp only [writeInstr, Option.some.injEq] at hw; subst hw
    simp [readInstrRaw, getStr, getTypeAt, Model.IRJson.get, lookupKey, asStr, bind, Except.bind, pure, Except.pure,
      getType_writeType, ref, eraseInstr, eraseOpnd, strBinop_symbol]
  | unop d ty op a =>
    simp only [writeInstr, Option.some.injEq] at hw; subst hw
    cases op <;>
      simp [readInstrRaw, getStr, getTypeAt, Model.IRJson.get, lookupKey, asStr, bind, Except.bind, pure, Except.pure,
        getType_writeType, ref, eraseInstr, eraseOpnd, strUnop]
  | cast d ty a =>
    simp only [writeInstr, Option.some.injEq] at hw; subst hw
    simp [readInstrRaw, getStr, getTypeAt, Model.IRJson.get, lookupKey, asStr, bind, Except.bind, pure, Except.pure,
      getType_writeType, ref, eraseInstr, eraseOpnd]
  | load d ty a vol =>
    simp only [writeInstr, Option.some.injEq] at hw; subst hw
    simp [readInstrRaw, getStr, getTypeAt, Model.IRJson.get, lookupKey, asStr, asBool, bind, Except.bind, pure, Except.pure,
      getType_writeType, ref, eraseInstr, eraseOpnd]
  | store ty v a vol =>
    simp only [writeInstr, Option.some.injEq] at hw; subst hw
    simp [readInstrRaw, getStr, Model.IRJson.get, lookupKey, asStr, asBool, bind, Except.bind, pure, Except.pure,
      ref, eraseInstr, eraseOpnd]
  | copyblob dd ss n =>
    simp only [writeInstr, Option.some.injEq] at hw; subst hw
    simp [readInstrRaw, getStr, getNat, Model.IRJson.get, lookupKey, asStr, asNat_int, bind, Except.bind, pure, Except.pure,
      ref, eraseInstr, eraseOpnd]
  | phi d ty ins =>
    simp only [writeInstr, Option.some.injEq] at hw; subst hw
    simp [readInstrRaw, getStr, getTypeAt, getArr, Model.IRJson.get, lookupKey, asStr, asArr, bind, Except.bind, pure, Except.pure,
      getType_writeType, mapE_readPhiIn, eraseInstr]
  | fcall d ty c args =>
    simp only [writeInstr, Option.some.injEq] at hw; subst hw
    simp [readInstrRaw, getStr, getTypeAt, getArr, Model.IRJson.get, lookupKey, asStr, asArr, bind, Except.bind, pure, Except.pure,
      getType_writeType, mapE_asStr_ref, map_glob_opName, ref, eraseInstr, eraseOpnd]
  | pcall c args =>
    simp only [writeInstr, Option.some.injEq] at hw; subst hw
    simp [readInstrRaw, getStr, getArr, Model.IRJson.get, lookupKey, asStr, asArr, bind, Except.bind, pure, Except.pure,
      mapE_asStr_ref, map_glob_opName, ref, eraseInstr, eraseOpnd]
  | jump t =>
    simp only [writeInstr, Option.some.injEq] at hw; subst hw
    simp [readInstrRaw, getStr, Model.IRJson.get, lookupKey, asStr, bind, Except.bind, pure, Except.pure, eraseInstr]
  | cjump a c b y n =>
    simp only [writeInstr, Option.some.injEq] at hw; subst hw
    simp [readInstrRaw, getStr, Model.IRJson.get, lookupKey, asStr, bind, Except.bind, pure, Except.pure, ref, eraseInstr,
      eraseOpnd, strCond_symbol]
  | ret v =>
    simp only [writeInstr, Option.some.injEq] at hw; subst hw
    simp [readInstrRaw, getStr, Model.IRJson.get, lookupKey, asStr, bind, Except.bind, pure, Except.pure, ref, eraseInstr, eraseOpnd]
  | exit =>
    simp only [writeInstr, Option.some.injEq] at hw; subst hw
    simp [readInstrRaw, getStr, Model.IRJson.get, lookupKey, asStr, bind, Except.bind, pure, Except.pure, eraseInstr]

/-! ## the reader's loops are the builder programs -/

theorem mapOpt_cons {α β : Type} (f : α → Option β) (a : α) (r : List α) (l : List β)
    (h : mapOpt f (a :: r) = some l) : ∃ b bs, f a = some b ∧ mapOpt f r = some bs ∧ l = b :: bs := by
  simp only [mapOpt] at h
  cases hfa : f a with
  | none => simp [hfa] at h
  | some b =>
    cases hr : mapOpt f r with
    | none => simp [hfa, hr] at h
    | some bs =>
      simp [hfa, hr] at h
      exact ⟨b, bs, rfl, rfl, h.symm⟩

/-- literal data of the instructions are byte strings -/
def BytesOk (is : List Instr) : Prop := ∀ i ∈ is, ∀ d data, i = .literal d data → IsBytes data

theorem readInstr_eq (st : BState) (i : Instr) (j : J) (hw : writeInstr i = some j)
    (hb : ∀ d data, i = .literal d data → IsBytes data) : readInstr st j = feedApp st i := by
  simp only [readInstr, readInstrRaw_writeInstr i j hw hb, feedApp, bind, Except.bind]
  cases feed st (eraseInstr i) with
  | error e => rfl
  | ok p => rfl

theorem readInstrs_eq : ∀ (is : List Instr) (js : List J) (st : BState),
    mapOpt writeInstr is = some js → BytesOk is → readInstrs st js = feedAll st is := by
  intro is
  induction is with
  | nil =>
    intro js st h _
    simp [mapOpt] at h; subst h; rfl
  | cons i r ih =>
    intro js st h hb
    obtain ⟨j, js', h1, h2, rfl⟩ := mapOpt_cons _ _ _ _ h
    simp only [readInstrs, feedAll, readInstr_eq st i j h1 (hb i (by simp))]
    cases feedApp st i with
    | error e => rfl
    | ok s => exact ih js' s h2 (fun x hx => hb x (by simp [hx]))

theorem readBlock_eq (st : BState) (b : Block) (jb : J) (hw : writeBlock b = some jb)
    (hb : BytesOk b.instrs) : readBlock st jb = blockJson st b := by
  simp only [writeBlock] at hw
  cases hm : mapOpt writeInstr b.instrs with
  | none => simp [hm] at hw
  | some js =>
    simp [hm] at hw; subst hw
    simp only [readBlock, getStr, getArr, Model.IRJson.get, lookupKey, asStr, asArr, bind, Except.bind,
      blockJson]
    simp only [String.reduceEq, if_false, if_true]
    cases beginBlockJson st b.name with
    | error e => rfl
    | ok s =>
      simp only [readInstrs_eq b.instrs js s hm hb]
      cases feedAll s b.instrs with
      | error e => rfl
      | ok s' => rfl

theorem readBlocks_eq : ∀ (bs : List Block) (jbs : List J) (st : BState),
    mapOpt writeBlock bs = some jbs → (∀ b ∈ bs, BytesOk b.instrs) →
    readBlocks st jbs = blocksWith blockJson st bs := by
  intro bs
  induction bs with
  | nil =>
    intro jbs st h _
    simp [mapOpt] at h; subst h; rfl
  | cons b r ih =>
    intro jbs st h hb
    obtain ⟨j, js', h1, h2, rfl⟩ := mapOpt_cons _ _ _ _ h
    simp only [readBlocks, blocksWith, readBlock_eq st b j h1 (hb b (by simp))]
    cases blockJson st b with
    | error e => rfl
    | ok s => exact ih js' s h2 (fun x hx => hb x (by simp [hx]))

theorem readParams_eq : ∀ (ps : List (String × Ty)) (st : BState),
    readParams st (ps.map (fun p => J.obj [("name", .str p.1), ("type", writeType p.2)])) =
      (match paramsAll st ps with
       | .ok s => .ok (s, ps)
       | .error e => .error e) := by
  intro ps
  induction ps with
  | nil => intro st; rfl
  | cons p r ih =>
    intro st
    simp only [List.map_cons, readParams, getStr, getTypeAt, Model.IRJson.get, lookupKey, asStr, bind, Except.bind,
      getType_writeType, paramsAll, String.reduceEq, if_false, if_true]
    cases defineLocal st p.1 p.2 with
    | error e => rfl
    | ok s =>
      simp only [ih s]
      cases paramsAll s r with
      | error e => rfl
      | ok s' => rfl

theorem readFunc_eq (st : BState) (f : Func) (jf : J) (hw : writeFunc f = some jf)
    (hb : ∀ b ∈ f.blocks, BytesOk b.instrs) : readFunc st jf = funcWith blockJson st f := by
  simp only [writeFunc] at hw
  cases hm : mapOpt writeBlock f.blocks with
  | none => simp [hm] at hw
  | some jbs =>
    simp [hm] at hw; subst hw
    cases hr : f.ret with
    | none =>
      simp only [readFunc, getStr, getArr, getTypeAt, Model.IRJson.get, lookupKey, asStr, asArr, bind,
        Except.bind, readBinding, writeBinding, funcWith, List.cons_append, List.nil_append, List.append_nil,
        pure, Except.pure]
      simp only [String.reduceEq, if_false, if_true]
      have hbind : (if (if f.isGlobal = true then "global" else "local") = "local" then (Except.ok false : Except RErr Bool)
          else if (if f.isGlobal = true then "global" else "local") = "global" then Except.ok true
          else Except.error RErr.KeyError) = Except.ok f.isGlobal := by
        cases f.isGlobal <;> simp
      simp only [hbind]
      cases defineGlobal st f.name with
      | error e => rfl
      | ok s0 =>
        simp only [readParams_eq f.params (beginFunc s0)]
        cases paramsAll (beginFunc s0) f.params with
        | error e => rfl
        | ok s1 =>
          simp only [readBlocks_eq f.blocks jbs s1 hm hb]
          cases blocksWith blockJson s1 f.blocks with
          | error e => rfl
          | ok s2 => simp [hr]
    | some t =>
      simp only [readFunc, getStr, getArr, getTypeAt, Model.IRJson.get, lookupKey, asStr, asArr, bind,
        Except.bind, readBinding, writeBinding, funcWith, List.cons_append, List.nil_append, List.append_nil,
        pure, Except.pure, getType_writeType, String.reduceEq, if_false, if_true]
      have hbind : (if (if f.isGlobal = true then "global" else "local") = "local" then (Except.ok false : Except RErr Bool)
          else if (if f.isGlobal = true then "global" else "local") = "global" then Except.ok true
          else Except.error RErr.KeyError) = Except.ok f.isGlobal := by
        cases f.isGlobal <;> simp
      simp only [hbind]
      cases defineGlobal st f.name with
      | error e => rfl
      | ok s0 =>
        simp only [readParams_eq f.params (beginFunc s0)]
        cases paramsAll (beginFunc s0) f.params with
        | error e => rfl
        | ok s1 =>
          simp only [readBlocks_eq f.blocks jbs s1 hm hb]
          cases blocksWith blockJson s1 f.blocks with
          | error e => rfl
          | ok s2 => simp [hr]

theorem readFuncs_eq : ∀ (fs : List Func) (jfs : List J) (st : BState),
    mapOpt writeFunc fs = some jfs → (∀ f ∈ fs, ∀ b ∈ f.blocks, BytesOk b.instrs) →
    readFuncs st jfs = funcsWith blockJson st fs := by
  intro fs
  induction fs with
  | nil =>
    intro jfs st h _
    simp [mapOpt] at h; subst h; rfl
  | cons f r ih =>
    intro jfs st h hb
    obtain ⟨j, js', h1, h2, rfl⟩ := mapOpt_cons _ _ _ _ h
    simp only [readFuncs, funcsWith, readFunc_eq st f j h1 (hb f (by simp))]
    cases funcWith blockJson st f with
    | error e => rfl
    | ok s => exact ih js' s h2 (fun x hx => hb x (by simp [hx]))

/-! ## externals and variables -/

theorem get_head (k : String) (v : J) (r : List (String × J)) :
    Model.IRJson.get (.obj ((k, v) :: r)) k = .ok v := by
  simp [Model.IRJson.get, lookupKey]

theorem get_tail (key k : String) (v : J) (r : List (String × J)) (h : key ≠ k) :
    Model.IRJson.get (.obj ((k, v) :: r)) key = Model.IRJson.get (.obj r) key := by
  simp [Model.IRJson.get, lookupKey, h]

theorem readExtern_writeExtern {gdone : List String} {st : BState} (h : PreInv gdone st) (e : Extern)
    (hx : e.name ∉ gdone) :
    ∃ st', readExtern st (writeExtern e) = .ok (st', e) ∧ PreInv (e.name :: gdone) st' := by
  obtain ⟨st', e1, h1⟩ := defineGlobal_fresh h e.name hx
  refine ⟨st', ?_, h1⟩
  cases e with
  | mk name kind =>
    have g2 : ∀ (k : J) (r : List (String × J)),
        Model.IRJson.get (.obj (("kind", k) :: ("name", .str name) :: r)) "name" = .ok (.str name) := by
      intro k r
      rw [get_tail "name" "kind" _ _ (by decide), get_head]
    have e1' : defineGlobal st name = .ok st' := e1
    cases kind with
    | var =>
      simp only [writeExtern, readExtern, getStr, get_head, g2, asStr, bind, Except.bind, pure, Except.pure,
        String.reduceEq, if_false, if_true, e1']
    | proc ts =>
      have g3 : Model.IRJson.get (.obj [("kind", J.str "procedure"), ("name", .str name),
          ("parameter_types", .arr (ts.map writeType))]) "parameter_types" = .ok (.arr (ts.map writeType)) := by
        rw [get_tail _ _ _ _ (by decide), get_tail _ _ _ _ (by decide), get_head]
      simp only [writeExtern, readExtern, getStr, getArr, get_head, g2, g3, asStr, asArr, bind, Except.bind, pure,
        Except.pure, String.reduceEq, if_false, if_true, mapE_getType, e1']
    | func ts r =>
      have g3 : Model.IRJson.get (.obj [("kind", J.str "function"), ("name", .str name),
          ("parameter_types", .arr (ts.map writeType)), ("return_type", writeType r)]) "parameter_types" =
          .ok (.arr (ts.map writeType)) := by
        rw [get_tail _ _ _ _ (by decide), get_tail _ _ _ _ (by decide), get_head]
      have g4 : Model.IRJson.get (.obj [("kind", J.str "function"), ("name", .str name),
          ("parameter_types", .arr (ts.map writeType)), ("return_type", writeType r)]) "return_type" =
          .ok (writeType r) := by
        rw [get_tail _ _ _ _ (by decide), get_tail _ _ _ _ (by decide), get_tail _ _ _ _ (by decide), get_head]
      simp only [writeExtern, readExtern, getStr, getArr, getTypeAt, get_head, g2, g3, g4, asStr, asArr, bind,
        Except.bind, pure, Except.pure, String.reduceEq, if_false, if_true, mapE_getType, getType_writeType, e1']

theorem readExterns_spec : ∀ (es : List Extern) (gdone : List String) (st : BState),
    PreInv gdone st → (gdone ++ es.map (·.name)).Nodup →
    ∃ st', readExterns st (es.map writeExtern) = .ok (st', es) ∧
      PreInv ((es.map (·.name)).reverse ++ gdone) st' := by
  intro es
  induction es with
  | nil => intro gdone st h _; exact ⟨st, rfl, by simpa using h⟩
  | cons e r ih =>
    intro gdone st h hnd
    have hfresh : e.name ∉ gdone := by
      have := (List.nodup_append.1 hnd).2.2
      intro hm; exact this e.name hm e.name (by simp) rfl
    obtain ⟨s1, e1, h1⟩ := readExtern_writeExtern h e hfresh
    have hnd1 : ((e.name :: gdone) ++ r.map (·.name)).Nodup := by
      have h1 := hnd
      simp only [List.map_cons] at h1
      have : (gdone ++ e.name :: r.map (·.name)).Perm ((e.name :: gdone) ++ r.map (·.name)) := by
        simpa using List.perm_middle
      exact this.nodup_iff.1 h1
    obtain ⟨s2, e2, h2⟩ := ih (e.name :: gdone) s1 h1 hnd1
    refine ⟨s2, ?_, by simpa using h2⟩
    simp [readExterns, e1, e2, bind, Except.bind, pure, Except.pure]

def partOk : InitPart → Prop
  | .bytes bs => IsBytes bs
  | .ref _ => True

theorem partOk_of_initOk (ps : List InitPart) (h : initOk (some ps) = true) : ∀ p ∈ ps, partOk p := by
  intro p hp
  have := List.all_eq_true.1 (by simpa [initOk] using h) p hp
  cases p with
  | ref n => trivial
  | bytes bs => exact isBytes_of_all (by simpa using this)

theorem readInitPart_writeInitPart (p : InitPart) (h : partOk p) : readInitPart (writeInitPart p) = .ok p := by
  cases p with
  | ref n =>
    simp [readInitPart, writeInitPart, getStr, Model.IRJson.get, lookupKey, asStr, bind, Except.bind,
      pure, Except.pure]
  | bytes bs =>
    have := asc2bin_bin2asc bs h
    simp [readInitPart, writeInitPart, getStr, Model.IRJson.get, lookupKey, asStr, bind, Except.bind,
      pure, Except.pure, this]

theorem mapE_readInitPart (ps : List InitPart) (h : ∀ p ∈ ps, partOk p) :
    mapE readInitPart (ps.map writeInitPart) = .ok ps := by
  induction ps with
  | nil => rfl
  | cons p r ih =>
    simp [mapE, readInitPart_writeInitPart p (h p (by simp)), ih (fun x hx => h x (by simp [hx]))]

theorem readVar_writeVar {gdone : List String} {st : BState} (h : PreInv gdone st) (v : GVar)
    (hx : v.name ∉ gdone) (hi : initOk v.init = true) :
    ∃ st', readVar st (writeVar v) = .ok (st', v) ∧ PreInv (v.name :: gdone) st' := by
  obtain ⟨st', e1, h1⟩ := defineGlobal_fresh h v.name hx
  refine ⟨st', ?_, h1⟩
  cases v with
  | mk name isGlobal size align init =>
    have hbind : (if (if isGlobal = true then "global" else "local") = "local" then (Except.ok false : Except RErr Bool)
        else if (if isGlobal = true then "global" else "local") = "global" then Except.ok true
        else Except.error RErr.KeyError) = Except.ok isGlobal := by
      cases isGlobal <;> simp
    cases init with
    | none =>
      simp only [writeVar, readVar, getStr, getNat, Model.IRJson.get, lookupKey, asStr, asNat_int, readBinding,
        writeBinding, bind, Except.bind, pure, Except.pure, String.reduceEq, if_false, if_true, hbind]
      simp only [show defineGlobal st name = .ok st' from e1]
    | some ps =>
      simp only [writeVar, readVar, getStr, getNat, Model.IRJson.get, lookupKey, asStr, asNat_int, asArr, readBinding,
        writeBinding, bind, Except.bind, pure, Except.pure, String.reduceEq, if_false, if_true, hbind,
        mapE_readInitPart ps (partOk_of_initOk ps hi)]
      simp only [show defineGlobal st name = .ok st' from e1]

theorem readVars_spec : ∀ (vs : List GVar) (gdone : List String) (st : BState),
    PreInv gdone st → (gdone ++ vs.map (·.name)).Nodup → (∀ v ∈ vs, initOk v.init = true) →
    ∃ st', readVars st (vs.map writeVar) = .ok (st', vs) ∧
      PreInv ((vs.map (·.name)).reverse ++ gdone) st' := by
  intro vs
  induction vs with
  | nil => intro gdone st h _ _; exact ⟨st, rfl, by simpa using h⟩
  | cons v r ih =>
    intro gdone st h hnd hi
    have hfresh : v.name ∉ gdone := by
      have := (List.nodup_append.1 hnd).2.2
      intro hm; exact this v.name hm v.name (by simp) rfl
    obtain ⟨s1, e1, h1⟩ := readVar_writeVar h v hfresh (hi v (by simp))
    have hnd1 : ((v.name :: gdone) ++ r.map (·.name)).Nodup := by
      have h1 := hnd
      simp only [List.map_cons] at h1
      have : (gdone ++ v.name :: r.map (·.name)).Perm ((v.name :: gdone) ++ r.map (·.name)) := by
        simpa using List.perm_middle
      exact this.nodup_iff.1 h1
    obtain ⟨s2, e2, h2⟩ := ih (v.name :: gdone) s1 h1 hnd1 (fun x hx => hi x (by simp [hx]))
    refine ⟨s2, ?_, by simpa using h2⟩
    simp [readVars, e1, e2, bind, Except.bind, pure, Except.pure]

/-! ## the writer is defined on the fragment -/

theorem writeInstr_isSome (i : Instr) (h : ∀ tpl a b c, i ≠ .asm tpl a b c) : ∃ j, writeInstr i = some j := by
  cases i with
  | asm tpl a b c => exact (h tpl a b c rfl).elim
  | _ => exact ⟨_, rfl⟩

theorem mapOpt_isSome {α β : Type} (f : α → Option β) (l : List α) (h : ∀ a ∈ l, ∃ b, f a = some b) :
    ∃ bs, mapOpt f l = some bs := by
  induction l with
  | nil => exact ⟨[], rfl⟩
  | cons a r ih =>
    obtain ⟨b, hb⟩ := h a (by simp)
    obtain ⟨bs, hbs⟩ := ih (fun x hx => h x (by simp [hx]))
    exact ⟨b :: bs, by simp [mapOpt, hb, hbs]⟩

theorem writeFunc_isSome {G : List String} (f : Func) (h : funcCore G f = true) : ∃ j, writeFunc f = some j := by
  have F := funcFacts_of_core h
  have hb : ∃ bs, mapOpt writeBlock f.blocks = some bs := by
    apply mapOpt_isSome
    intro b hbm
    have : ∃ is, mapOpt writeInstr b.instrs = some is := by
      apply mapOpt_isSome
      intro i hi
      apply writeInstr_isSome
      intro tpl a b' c hc
      have hmem : i ∈ instrsOf f.blocks := by
        simp only [instrsOf, List.mem_flatMap]; exact ⟨b, hbm, hi⟩
      have := F.typed i hmem
      rw [hc] at this
      simp [typedOk] at this
    obtain ⟨is, his⟩ := this
    exact ⟨_, by rw [writeBlock, his]⟩
  obtain ⟨bs, hbs⟩ := hb
  exact ⟨_, by rw [writeFunc, hbs]⟩

theorem bytesOk_of_core {G : List String} (f : Func) (h : funcCore G f = true) :
    ∀ b ∈ f.blocks, BytesOk b.instrs := by
  have F := funcFacts_of_core h
  intro b hb i hi d data hid
  have hmem : i ∈ instrsOf f.blocks := by
    simp only [instrsOf, List.mem_flatMap]; exact ⟨b, hb, hi⟩
  have := F.typed i hmem
  rw [hid] at this
  exact isBytes_of_all (by simpa [typedOk] using this)

/-! ## the theorem -/

theorem readModule_writeModule (m : Module) (h : fragCore m = true) :
    ∃ j, writeModule m = some j ∧ readModule j = .ok m := by
  unfold fragCore at h
  simp only [Bool.and_eq_true, List.all_eq_true] at h
  obtain ⟨⟨hG, hvars⟩, hfuncs⟩ := h
  have hGnd : m.globalNames.Nodup := (nodupB_iff _).1 hG
  obtain ⟨jfs, hjfs⟩ : ∃ jfs, mapOpt writeFunc m.funcs = some jfs :=
    mapOpt_isSome _ _ (fun f hf => writeFunc_isSome f (hfuncs f hf))
  refine ⟨_, by rw [writeModule, hjfs], ?_⟩
  -- externals, variables
  have hnames : m.globalNames = m.externs.map (fun e : Extern => e.name) ++ m.vars.map (fun v : GVar => v.name) ++ m.funcs.map (fun f : Func => f.name) := rfl
  have h0 : PreInv [] ({ json := true } : BState) := ⟨by simp, rfl, rfl, rfl, rfl⟩
  have hnd_e : (([] : List String) ++ m.externs.map (fun e : Extern => e.name)).Nodup := by
    rw [hnames, List.append_assoc] at hGnd
    simpa using (List.nodup_append.1 hGnd).1
  obtain ⟨s1, e1, h1⟩ := readExterns_spec m.externs [] _ h0 hnd_e
  have hnd_v : (((m.externs.map (fun e : Extern => e.name)).reverse ++ []) ++ m.vars.map (fun v : GVar => v.name)).Nodup := by
    rw [hnames] at hGnd
    have := (List.nodup_append.1 hGnd).1
    have hp : ((m.externs.map (fun e : Extern => e.name)).reverse ++ [] ++ m.vars.map (fun v : GVar => v.name)).Perm
        (m.externs.map (fun e : Extern => e.name) ++ m.vars.map (fun v : GVar => v.name)) := by
      simpa using (List.reverse_perm _).append_right _
    exact hp.nodup_iff.2 this
  obtain ⟨s2, e2, h2⟩ := readVars_spec m.vars _ s1 h1 hnd_v hvars
  -- subroutines
  let gdone := (m.vars.map (fun v : GVar => v.name)).reverse ++ ((m.externs.map (fun e : Extern => e.name)).reverse ++ [])
  have hgd : ∀ x, x ∈ gdone ↔ (x ∈ m.externs.map (fun e : Extern => e.name) ∨ x ∈ m.vars.map (fun v : GVar => v.name)) := by
    intro x; simp [gdone, or_comm]
  have hM : MInv m.globalNames gdone [] s2 :=
    ⟨h2.globals, by intro x t hx; rw [h2.pending] at hx; simp [lookupTy] at hx, h2.funcs, h2.cur, h2.blocks⟩
  have hnd_f : (gdone ++ m.funcs.map (fun f : Func => f.name)).Nodup := by
    have hp : (gdone ++ m.funcs.map (fun f : Func => f.name)).Perm m.globalNames := by
      rw [hnames]
      apply List.Perm.append_right
      simp only [gdone, List.append_nil]
      exact ((List.reverse_perm _).append (List.reverse_perm _)).trans List.perm_append_comm
    exact hp.nodup_iff.2 hGnd
  obtain ⟨s3, e3, hM3, hj3⟩ := funcsWith_spec blockJson_spec hGnd m.funcs gdone [] s2 hM
    (by intro x hx; rw [hnames]; rcases (hgd x).1 hx with h' | h' <;> simp [h'])
    (by intro f hf; rw [hnames]; simp only [List.mem_append, List.mem_map]; exact Or.inr ⟨f, hf, rfl⟩)
    hnd_f (by intro g hg; simp at hg) (fun f hf => funcFacts_of_core (hfuncs f hf))
  have hpend : s3.pending = [] := by
    apply pending_nil_of_no_entry
    intro x t hx
    obtain ⟨hxG, hxn, _⟩ := hM3.pend x t hx
    apply hxn
    rw [hM3.globals x]
    rw [hnames] at hxG
    simp only [List.mem_append, List.mem_reverse] at hxG ⊢
    rcases hxG with (h' | h') | h'
    · exact Or.inr ((hgd x).2 (Or.inl h'))
    · exact Or.inr ((hgd x).2 (Or.inr h'))
    · exact Or.inl h'
  have hfin : finishFuncs s3 = .ok m.funcs := by
    simp [finishFuncs, hpend, danglePending, hM3.funcs]
  have e3' : readFuncs s2 jfs = .ok s3 := by
    rw [readFuncs_eq m.funcs jfs s2 hjfs (fun f hf => bytesOk_of_core f (hfuncs f hf))]; exact e3
  simp only [readModule, getStr, getArr, Model.IRJson.get, lookupKey, asStr, asArr, bind, Except.bind,
    pure, Except.pure, String.reduceEq, if_false, if_true, e1, e2, e3', hfin]

end Proofs.IRJson
