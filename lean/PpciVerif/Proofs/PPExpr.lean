import PpciVerif.Spec.PPInt
import PpciVerif.Model.PPExpr
import PpciVerif.Proofs.PyInt
/-!
C26, evaluation: on trees without unsigned constants the model of `_eval_tree` computes the
value `Spec.PPInt` prescribes (whenever it prescribes one).
-/
set_option linter.unusedSimpArgs false
namespace Proofs.PPExpr
open Model.PPExpr
open Spec.PPInt (Tree UnOp BinOp Val Sym evalNum evalUn evalBin arith ofBits bits signedOk intMax intMin two64 isUnsigned)
open Spec.Bits (wrapU testBit)

@[simp] theorem bind_ok {α β} (a : α) (f : α → Except Err β) : (Except.ok a >>= f) = f a := rfl
@[simp] theorem bind_error {α β} (e : Err) (f : α → Except Err β) : (Except.error e >>= f) = Except.error e := rfl
@[simp] theorem pure_eq_ok {α} (a : α) : (pure a : Except Err α) = Except.ok a := rfl

/-- no constant of the tree is unsigned: no `u` suffix and the value fits `intmax_t` -/
def SignedOnly : Tree → Prop
  | .num v s _ => s = false ∧ (v : Int) ≤ intMax
  | .un _ a => SignedOnly a
  | .bin _ a b => SignedOnly a ∧ SignedOnly b
  | .cond c a b => SignedOnly c ∧ SignedOnly a ∧ SignedOnly b

instance : (t : Tree) → Decidable (SignedOnly t)
  | .num _ _ _ => by unfold SignedOnly; exact inferInstance
  | .un _ a => by unfold SignedOnly; exact instDecidableSignedOnly a
  | .bin _ a b => by
      unfold SignedOnly
      exact @instDecidableAnd _ _ (instDecidableSignedOnly a) (instDecidableSignedOnly b)
  | .cond c a b => by
      unfold SignedOnly
      exact @instDecidableAnd _ _ (instDecidableSignedOnly c)
        (@instDecidableAnd _ _ (instDecidableSignedOnly a) (instDecidableSignedOnly b))

theorem signedOk_iff (x : Int) : signedOk x = true ↔ -9223372036854775808 ≤ x ∧ x ≤ 9223372036854775807 := by
  unfold signedOk
  rw [Bool.and_eq_true, decide_eq_true_iff, decide_eq_true_iff]
  have h1 : intMin = -9223372036854775808 := by decide
  have h2 : intMax = 9223372036854775807 := by decide
  rw [h1, h2]

/-! ### division -/

theorem intDiv_eq_tdiv (x y : Int) : intDiv x y = Int.tdiv x y := by
  unfold intDiv
  rcases Int.eq_nat_or_neg x with ⟨a, rfl | rfl⟩ <;> rcases Int.eq_nat_or_neg y with ⟨b, rfl | rfl⟩
  · have h1 : ¬ ((a : Int) < 0) := by omega
    have h2 : ¬ ((b : Int) < 0) := by omega
    simp only [Int.natAbs_natCast, h1, h2, decide_false, if_true, Int.ofNat_tdiv]
  · rcases Nat.eq_zero_or_pos b with rfl | hb
    · simp
    · have h1 : ¬ ((a : Int) < 0) := by omega
      have h2 : (-(b : Int) < 0) := by omega
      simp only [Int.natAbs_natCast, Int.natAbs_neg, h1, h2, decide_false, decide_true, Int.tdiv_neg, Int.ofNat_tdiv]
      simp
  · rcases Nat.eq_zero_or_pos a with rfl | ha
    · simp
    · have h1 : (-(a : Int) < 0) := by omega
      have h2 : ¬ ((b : Int) < 0) := by omega
      simp only [Int.natAbs_natCast, Int.natAbs_neg, h1, h2, decide_false, decide_true, Int.neg_tdiv, Int.ofNat_tdiv]
      simp
  · rcases Nat.eq_zero_or_pos a with rfl | ha
    · simp
    · rcases Nat.eq_zero_or_pos b with rfl | hb
      · simp
      · have h1 : (-(a : Int) < 0) := by omega
        have h2 : (-(b : Int) < 0) := by omega
        simp only [Int.natAbs_natCast, Int.natAbs_neg, h1, h2, decide_true, Int.neg_tdiv, Int.tdiv_neg, Int.ofNat_tdiv]
        simp

theorem intRem_eq_tmod (x y : Int) : intRem x y = Int.tmod x y := by
  unfold intRem; rw [intDiv_eq_tdiv, Int.tmod_def]

/-! ### bitwise operators on `intmax_t` values -/

theorem PyAnd_eq (x y : Int) : PyAnd x y = Model.PyInt.and x y := by cases x <;> cases y <;> rfl
theorem PyOr_eq (x y : Int) : PyOr x y = Model.PyInt.or x y := by cases x <;> cases y <;> rfl
theorem PyXor_eq (x y : Int) : PyXor x y = Model.PyInt.xor x y := by cases x <;> cases y <;> rfl

/-- the signed reading of a 64-bit pattern that is congruent to an in-range `z` is `z` -/
theorem ofBits_signed_of_congr {n : Nat} {z : Int} (hz : signedOk z = true) (h : (n : Int) % two64 = z % two64) :
    ofBits false n = ⟨z, false⟩ := by
  rw [signedOk_iff] at hz
  have h' : (n : Int) % 18446744073709551616 = z % 18446744073709551616 := h
  unfold ofBits
  simp only [Bool.false_eq_true, if_false]
  rw [show two64 = (18446744073709551616 : Int) from rfl, h']
  congr 1
  split <;> omega

theorem testBit_bits (x : Int) {i : Nat} (hi : i < 64) : (bits x).testBit i = testBit x i := by
  have h0 : 0 ≤ x % 2 ^ 64 := Int.emod_nonneg _ (by decide)
  rw [← Proofs.Bits.testBit_natCast, bits, two64, Int.toNat_of_nonneg h0]
  have := Proofs.Bits.testBit_wrapU 64 x i
  unfold wrapU at this
  rw [this]; simp [hi]

theorem natAbs_lt_of_signedOk_nonneg {a : Nat} (h : signedOk (Int.ofNat a) = true) : a < 2 ^ 63 := by
  rw [signedOk_iff] at h; have := h.2; simp at this; omega

theorem negSucc_lt_of_signedOk {a : Nat} (h : signedOk (Int.negSucc a) = true) : a < 2 ^ 63 := by
  rw [signedOk_iff] at h; have := h.1; omega

theorem signedOk_ofNat {n : Nat} (h : n < 2 ^ 63) : signedOk (Int.ofNat n) = true := by
  rw [signedOk_iff]; constructor <;> (simp; try omega)

theorem signedOk_negSucc {n : Nat} (h : n < 2 ^ 63) : signedOk (Int.negSucc n) = true := by
  rw [signedOk_iff]; constructor <;> omega

theorem andNot_lt {a b : Nat} (ha : a < 2 ^ 63) : andNot a b < 2 ^ 63 := by
  unfold andNot
  exact Nat.xor_lt_two_pow ha (Nat.lt_of_le_of_lt Nat.and_le_left ha)

theorem signedOk_PyAnd {x y : Int} (hx : signedOk x = true) (hy : signedOk y = true) : signedOk (PyAnd x y) = true := by
  cases x with
  | ofNat a =>
    have ha := natAbs_lt_of_signedOk_nonneg hx
    cases y with
    | ofNat b => exact signedOk_ofNat (Nat.lt_of_le_of_lt Nat.and_le_left ha)
    | negSucc b => exact signedOk_ofNat (andNot_lt ha)
  | negSucc a =>
    have ha := negSucc_lt_of_signedOk hx
    cases y with
    | ofNat b => exact signedOk_ofNat (andNot_lt (natAbs_lt_of_signedOk_nonneg hy))
    | negSucc b => exact signedOk_negSucc (Nat.or_lt_two_pow ha (negSucc_lt_of_signedOk hy))

theorem signedOk_PyOr {x y : Int} (hx : signedOk x = true) (hy : signedOk y = true) : signedOk (PyOr x y) = true := by
  cases x with
  | ofNat a =>
    have ha := natAbs_lt_of_signedOk_nonneg hx
    cases y with
    | ofNat b => exact signedOk_ofNat (Nat.or_lt_two_pow ha (natAbs_lt_of_signedOk_nonneg hy))
    | negSucc b => exact signedOk_negSucc (andNot_lt (negSucc_lt_of_signedOk hy))
  | negSucc a =>
    have ha := negSucc_lt_of_signedOk hx
    cases y with
    | ofNat b => exact signedOk_negSucc (andNot_lt ha)
    | negSucc b => exact signedOk_negSucc (Nat.lt_of_le_of_lt Nat.and_le_left ha)

theorem signedOk_PyXor {x y : Int} (hx : signedOk x = true) (hy : signedOk y = true) : signedOk (PyXor x y) = true := by
  cases x with
  | ofNat a =>
    have ha := natAbs_lt_of_signedOk_nonneg hx
    cases y with
    | ofNat b => exact signedOk_ofNat (Nat.xor_lt_two_pow ha (natAbs_lt_of_signedOk_nonneg hy))
    | negSucc b => exact signedOk_negSucc (Nat.xor_lt_two_pow ha (negSucc_lt_of_signedOk hy))
  | negSucc a =>
    have ha := negSucc_lt_of_signedOk hx
    cases y with
    | ofNat b => exact signedOk_negSucc (Nat.xor_lt_two_pow ha (natAbs_lt_of_signedOk_nonneg hy))
    | negSucc b => exact signedOk_ofNat (Nat.xor_lt_two_pow ha (negSucc_lt_of_signedOk hy))

theorem band_signed {x y : Int} (hx : signedOk x = true) (hy : signedOk y = true) :
    ofBits false (bits x &&& bits y) = ⟨PyAnd x y, false⟩ := by
  apply ofBits_signed_of_congr (signedOk_PyAnd hx hy)
  symm
  change wrapU 64 _ = wrapU 64 _
  apply Proofs.Bits.wrapU_eq_of_testBit_eq; intro i hi
  rw [PyAnd_eq, Proofs.PyInt.testBit_and, Proofs.Bits.testBit_natCast, Nat.testBit_and, testBit_bits _ hi, testBit_bits _ hi]

theorem bor_signed {x y : Int} (hx : signedOk x = true) (hy : signedOk y = true) :
    ofBits false (bits x ||| bits y) = ⟨PyOr x y, false⟩ := by
  apply ofBits_signed_of_congr (signedOk_PyOr hx hy)
  symm
  change wrapU 64 _ = wrapU 64 _
  apply Proofs.Bits.wrapU_eq_of_testBit_eq; intro i hi
  rw [PyOr_eq, Proofs.PyInt.testBit_or, Proofs.Bits.testBit_natCast, Nat.testBit_or, testBit_bits _ hi, testBit_bits _ hi]

theorem bxor_signed {x y : Int} (hx : signedOk x = true) (hy : signedOk y = true) :
    ofBits false (bits x ^^^ bits y) = ⟨PyXor x y, false⟩ := by
  apply ofBits_signed_of_congr (signedOk_PyXor hx hy)
  symm
  change wrapU 64 _ = wrapU 64 _
  apply Proofs.Bits.wrapU_eq_of_testBit_eq; intro i hi
  rw [PyXor_eq, Proofs.PyInt.testBit_xor, Proofs.Bits.testBit_natCast, Nat.testBit_xor, testBit_bits _ hi, testBit_bits _ hi]

theorem bnot_signed {x : Int} (hx : signedOk x = true) : ofBits false (2 ^ 64 - 1 - bits x) = ⟨-x - 1, false⟩ := by
  have hx' := (signedOk_iff x).mp hx
  apply ofBits_signed_of_congr
  · rw [signedOk_iff]; omega
  · simp only [bits, two64]
    have h0 : 0 ≤ x % 18446744073709551616 := Int.emod_nonneg _ (by decide)
    have h1 : x % 18446744073709551616 < 18446744073709551616 := Int.emod_lt_of_pos _ (by decide)
    omega

/-! ### the evaluator on signed-only trees -/

theorem lookup_bin (op : BinOp) :
    ∃ p r f, opMap.lookup (binSym op) = some (p, r, some f) ∧
      f = (match op with
        | .mul => OpFn.mul | .div => .intDiv | .mod => .intRem | .add => .add | .sub => .sub | .shl => .lshift
        | .shr => .rshift | .lt => .lt | .gt => .gt | .le => .le | .ge => .ge | .eq => .eq | .ne => .ne
        | .band => .and_ | .bxor => .xor | .bor => .or_ | .land => .land | .lor => .lor) := by
  cases op <;> exact ⟨_, _, _, rfl, rfl⟩

theorem isUnsigned_signedOnly : ∀ (t : Tree), SignedOnly t → ∀ u, isUnsigned t = some u → u = false := by
  intro t
  induction t with
  | num v s d =>
    intro h u hu
    obtain ⟨hs, hv⟩ := h
    subst hs
    simp only [isUnsigned, evalNum, Bool.false_eq_true, if_false, hv, if_true, Option.map_some,
      Option.some.injEq] at hu
    exact hu.symm
  | un op a ih =>
    intro h u hu
    cases op <;> simp only [isUnsigned, Option.map_eq_some_iff] at hu
    · exact ih h u hu
    · exact ih h u hu
    · obtain ⟨_, _, rfl⟩ := hu; rfl
    · exact ih h u hu
  | bin op a b iha ihb =>
    intro h u hu
    simp only [isUnsigned] at hu
    cases ha : isUnsigned a with
    | none => simp [ha] at hu
    | some ua =>
      cases hb : isUnsigned b with
      | none => simp [ha, hb] at hu
      | some ub =>
        have ea := iha h.1 ua ha
        have eb := ihb h.2 ub hb
        subst ea eb
        cases op <;> simp [ha, hb] at hu <;> exact hu
  | cond c a b _ iha ihb =>
    intro h u hu
    simp only [isUnsigned] at hu
    cases hc : isUnsigned c with
    | none => simp [hc] at hu
    | some uc =>
      cases ha : isUnsigned a with
      | none => simp [hc, ha] at hu
      | some ua =>
        cases hb : isUnsigned b with
        | none => simp [hc, ha, hb] at hu
        | some ub =>
          have ea := iha h.2.1 ua ha
          have eb := ihb h.2.2 ub hb
          subst ea eb
          simp [hc, ha, hb] at hu; exact hu

theorem lookup_opMap (s : Sym) : opMap.lookup s =
    match s with
    | .star => some (11, false, some .mul) | .slash => some (11, false, some .intDiv)
    | .percent => some (11, false, some .intRem) | .plus => some (10, false, some .add)
    | .minus => some (10, false, some .sub) | .shl => some (9, false, some .lshift)
    | .shr => some (9, false, some .rshift) | .lt => some (8, false, some .lt) | .gt => some (8, false, some .gt)
    | .le => some (8, false, some .le) | .ge => some (8, false, some .ge) | .eqeq => some (7, false, some .eq)
    | .ne => some (7, false, some .ne) | .amp => some (6, false, some .and_) | .caret => some (5, false, some .xor)
    | .bar => some (4, false, some .or_) | .andand => some (3, false, some .land)
    | .oror => some (2, false, some .lor) | .quest => some (1, true, none)
    | _ => none := by
  cases s <;> rfl

def fnOf : BinOp → OpFn
  | .mul => .mul | .div => .intDiv | .mod => .intRem | .add => .add | .sub => .sub | .shl => .lshift
  | .shr => .rshift | .lt => .lt | .gt => .gt | .le => .le | .ge => .ge | .eq => .eq | .ne => .ne
  | .band => .and_ | .bxor => .xor | .bor => .or_ | .land => .land | .lor => .lor

theorem evalTree_bin {op : BinOp} (hl : op ≠ .land) (hr : op ≠ .lor) {a b : MTree} {x y : Int}
    (ha : evalTree a = .ok x) (hb : evalTree b = .ok y) :
    evalTree (.bin (binSym op) a b) =
      if (op = .div ∨ op = .mod) ∧ y = 0 then .error .CompilerError
      else if (op = .shl ∨ op = .shr) ∧ y < 0 then .error .CompilerError
      else .ok ((fnOf op).apply x y) := by
  cases op <;>
    first
    | exact absurd rfl hl
    | exact absurd rfl hr
    | (simp only [evalTree, binSym, Spec.PPInt.BinOp.sym, reduceCtorEq, if_false, ha, hb, lookup_opMap]
       simp [fnOf])

theorem ofBool_v (b : Bool) : (Spec.PPInt.ofBool b).v = Model.PPExpr.ofBool b := rfl

theorem signedOk_ofBool (b : Bool) : signedOk (Spec.PPInt.ofBool b).v = true := by
  cases b <;> decide

theorem arith_signed {r : Int} {v : Val} (h : arith false r = some v) : v = ⟨r, false⟩ ∧ signedOk r = true := by
  simp only [arith, Bool.false_eq_true, if_false] at h
  split at h
  · rename_i hr; injection h with h; exact ⟨h.symm, hr⟩
  · cases h

/-- a binary operator other than `&&`/`||` applied to two `intmax_t` values -/
theorem evalBin_signed {op : BinOp} (hl : op ≠ .land) (hr : op ≠ .lor) {x y : Int} {r : Val}
    (hx : signedOk x = true) (hy : signedOk y = true) (h : evalBin op ⟨x, false⟩ ⟨y, false⟩ = some r)
    {a b : MTree} (ha : evalTree a = .ok x) (hb : evalTree b = .ok y) :
    r.u = false ∧ signedOk r.v = true ∧ evalTree (.bin (binSym op) a b) = .ok r.v := by
  rw [evalTree_bin hl hr ha hb]
  cases op <;>
    simp only [evalBin, Bool.or_self, Bool.false_eq_true, if_false, reduceCtorEq, false_or, or_false, false_and,
      if_false, true_or, or_true, true_and, fnOf, OpFn.apply] at h ⊢
  · obtain ⟨rfl, hr'⟩ := arith_signed h; exact ⟨rfl, hr', rfl⟩
  · split at h
    · cases h
    · rename_i hy0
      obtain ⟨rfl, hr'⟩ := arith_signed h
      rw [if_neg hy0, intDiv_eq_tdiv]; exact ⟨rfl, hr', rfl⟩
  · split at h
    · cases h
    · rename_i hy0
      split at h
      · obtain ⟨rfl, hr'⟩ := arith_signed h
        rw [if_neg hy0, intRem_eq_tmod]; exact ⟨rfl, hr', rfl⟩
      · cases h
  · obtain ⟨rfl, hr'⟩ := arith_signed h; exact ⟨rfl, hr', rfl⟩
  · obtain ⟨rfl, hr'⟩ := arith_signed h; exact ⟨rfl, hr', rfl⟩
  · -- shl
    split at h
    · cases h
    · rename_i hc
      have hc0 : ¬ y < 0 := by omega
      simp only [hc0, if_false]
      split at h
      · cases h
      · split at h
        · rename_i hr'; injection h with h; subst h; exact ⟨rfl, hr', rfl⟩
        · cases h
  · -- shr
    split at h
    · cases h
    · rename_i hc
      have hc0 : ¬ y < 0 := by omega
      simp only [hc0, if_false]
      injection h with h; subst h
      refine ⟨rfl, ?_, rfl⟩
      have hx' := (signedOk_iff x).mp hx
      show signedOk (x / 2 ^ y.toNat) = true
      rw [signedOk_iff]
      have hp : (0 : Int) < 2 ^ y.toNat := Int.pow_pos (by decide)
      by_cases h0 : 0 ≤ x
      · have h1 : 0 ≤ x / 2 ^ y.toNat := Int.ediv_nonneg h0 (Int.le_of_lt hp)
        have h2 : x / 2 ^ y.toNat ≤ x := Int.ediv_le_self _ h0
        omega
      · have h1 : x / 2 ^ y.toNat < 0 := Int.ediv_neg_of_neg_of_pos (by omega) hp
        have h2 : x ≤ x / 2 ^ y.toNat := by
          rw [Int.le_ediv_iff_mul_le hp]
          have : x * 2 ^ y.toNat ≤ x * 1 := Int.mul_le_mul_of_nonpos_left (by omega) (by omega)
          omega
        omega
  · injection h with h; subst h; exact ⟨rfl, signedOk_ofBool _, by rw [ofBool_v]⟩
  · injection h with h; subst h; exact ⟨rfl, signedOk_ofBool _, by rw [ofBool_v]⟩
  · injection h with h; subst h; exact ⟨rfl, signedOk_ofBool _, by rw [ofBool_v]⟩
  · injection h with h; subst h; exact ⟨rfl, signedOk_ofBool _, by rw [ofBool_v]⟩
  · injection h with h; subst h; exact ⟨rfl, signedOk_ofBool _, by rw [ofBool_v]⟩
  · injection h with h; subst h; exact ⟨rfl, signedOk_ofBool _, by rw [ofBool_v]⟩
  · rw [band_signed hx hy] at h; injection h with h; subst h; exact ⟨rfl, signedOk_PyAnd hx hy, rfl⟩
  · rw [bxor_signed hx hy] at h; injection h with h; subst h; exact ⟨rfl, signedOk_PyXor hx hy, rfl⟩
  · rw [bor_signed hx hy] at h; injection h with h; subst h; exact ⟨rfl, signedOk_PyOr hx hy, rfl⟩

/-- main evaluation lemma: on a tree without unsigned constants, a value prescribed by C is an `intmax_t`
    value and the model of `_eval_tree` returns it -/
theorem eval_signed : ∀ (t : Tree), SignedOnly t → ∀ r : Val, Spec.PPInt.eval t = some r →
    r.u = false ∧ signedOk r.v = true ∧ evalTree (ofTree t) = .ok r.v := by
  intro t
  induction t with
  | num v s d =>
    intro h r hr
    obtain ⟨hs, hv⟩ := h
    subst hs
    simp only [Spec.PPInt.eval, evalNum, Bool.false_eq_true, if_false, hv, if_true, Option.some.injEq] at hr
    subst hr
    refine ⟨rfl, ?_, rfl⟩
    show signedOk (v : Int) = true
    rw [signedOk_iff]
    have : intMax = 9223372036854775807 := by decide
    rw [this] at hv
    constructor <;> omega
  | un op a ih =>
    intro h r hr
    simp only [Spec.PPInt.eval] at hr
    cases ha : Spec.PPInt.eval a with
    | none => simp [ha] at hr
    | some x =>
      simp only [ha] at hr
      obtain ⟨hu, hok, hev⟩ := ih h x ha
      obtain ⟨xv, xu⟩ := x
      simp only at hu hok hev
      subst hu
      cases op
      · -- neg
        simp only [evalUn] at hr
        obtain ⟨rfl, hr'⟩ := arith_signed hr
        exact ⟨rfl, hr', by simp [ofTree, evalTree, unSym, Spec.PPInt.UnOp.sym, hev]⟩
      · -- bnot
        simp only [evalUn, bnot_signed hok, Option.some.injEq] at hr
        subst hr
        refine ⟨rfl, ?_, by simp [ofTree, evalTree, unSym, Spec.PPInt.UnOp.sym, hev]⟩
        have := (signedOk_iff xv).mp hok
        show signedOk (-xv - 1) = true
        rw [signedOk_iff]; constructor <;> omega
      · -- lnot
        simp only [evalUn, Option.some.injEq] at hr
        subst hr
        exact ⟨rfl, signedOk_ofBool _, by simp [ofTree, evalTree, unSym, Spec.PPInt.UnOp.sym, hev, ofBool_v]⟩
      · -- plus
        simp only [evalUn, Option.some.injEq] at hr
        subst hr
        exact ⟨rfl, hok, by simpa [ofTree] using hev⟩
  | bin op a b iha ihb =>
    intro h r hr
    by_cases hl : op = .land
    · subst hl
      simp only [Spec.PPInt.eval] at hr
      cases hub : isUnsigned b with
      | none => simp [hub] at hr
      | some ub =>
        cases ha : Spec.PPInt.eval a with
        | none => simp [hub, ha] at hr
        | some x =>
          simp only [hub, ha] at hr
          obtain ⟨_, _, hev⟩ := iha h.1 x ha
          split at hr
          · rename_i h0
            injection hr with hr; subst hr
            exact ⟨rfl, signedOk_ofBool _, by simp [ofTree, evalTree, binSym, Spec.PPInt.BinOp.sym, hev, h0]; rfl⟩
          · rename_i h0
            cases hb : Spec.PPInt.eval b with
            | none => simp [hb] at hr
            | some y =>
              simp only [hb, Option.map_some, Option.some.injEq] at hr
              subst hr
              obtain ⟨_, _, hevb⟩ := ihb h.2 y hb
              exact ⟨rfl, signedOk_ofBool _,
                by simp [ofTree, evalTree, binSym, Spec.PPInt.BinOp.sym, hev, hevb, h0, ofBool_v]⟩
    · by_cases hr' : op = .lor
      · subst hr'
        simp only [Spec.PPInt.eval] at hr
        cases hub : isUnsigned b with
        | none => simp [hub] at hr
        | some ub =>
          cases ha : Spec.PPInt.eval a with
          | none => simp [hub, ha] at hr
          | some x =>
            simp only [hub, ha] at hr
            obtain ⟨_, _, hev⟩ := iha h.1 x ha
            split at hr
            · rename_i h0
              injection hr with hr; subst hr
              exact ⟨rfl, signedOk_ofBool _, by simp [ofTree, evalTree, binSym, Spec.PPInt.BinOp.sym, hev, h0]; rfl⟩
            · rename_i h0
              cases hb : Spec.PPInt.eval b with
              | none => simp [hb] at hr
              | some y =>
                simp only [hb, Option.map_some, Option.some.injEq] at hr
                subst hr
                obtain ⟨_, _, hevb⟩ := ihb h.2 y hb
                have h0' : x.v = 0 := by simpa using h0
                exact ⟨rfl, signedOk_ofBool _,
                  by simp [ofTree, evalTree, binSym, Spec.PPInt.BinOp.sym, hev, hevb, h0', ofBool_v]⟩
      · have hev : Spec.PPInt.eval (.bin op a b) =
            match Spec.PPInt.eval a, Spec.PPInt.eval b with
            | some x, some y => evalBin op x y
            | _, _ => none := by
          cases op <;> first | exact absurd rfl hl | exact absurd rfl hr' | rfl
        rw [hev] at hr
        cases ha : Spec.PPInt.eval a with
        | none => simp [ha] at hr
        | some x =>
          cases hb : Spec.PPInt.eval b with
          | none => simp [ha, hb] at hr
          | some y =>
            simp only [ha, hb] at hr
            obtain ⟨hxu, hxok, hxev⟩ := iha h.1 x ha
            obtain ⟨hyu, hyok, hyev⟩ := ihb h.2 y hb
            obtain ⟨xv, xu⟩ := x
            obtain ⟨yv, yu⟩ := y
            simp only at hxu hyu hxok hyok hxev hyev
            subst hxu hyu
            have := evalBin_signed hl hr' hxok hyok hr hxev hyev
            simpa [ofTree] using this
  | cond c a b ihc iha ihb =>
    intro h r hr
    simp only [Spec.PPInt.eval] at hr
    cases hua : isUnsigned a with
    | none => simp [hua] at hr
    | some ua =>
      cases hub : isUnsigned b with
      | none => simp [hua, hub] at hr
      | some ub =>
        cases hc : Spec.PPInt.eval c with
        | none => simp [hua, hub, hc] at hr
        | some x =>
          have ea := isUnsigned_signedOnly a h.2.1 ua hua
          have eb := isUnsigned_signedOnly b h.2.2 ub hub
          subst ea eb
          simp only [hua, hub, hc, Bool.or_self, Bool.false_eq_true, if_false] at hr
          obtain ⟨_, _, hevc⟩ := ihc h.1 x hc
          split at hr
          · rename_i h0
            cases ha : Spec.PPInt.eval a with
            | none => simp [ha] at hr
            | some y =>
              simp only [ha, Option.map_some, Option.some.injEq] at hr
              subst hr
              obtain ⟨h1, h2, h3⟩ := iha h.2.1 y ha
              exact ⟨h1, h2, by simp [ofTree, evalTree, hevc, h0, h3]⟩
          · rename_i h0
            cases hb : Spec.PPInt.eval b with
            | none => simp [hb] at hr
            | some y =>
              simp only [hb, Option.map_some, Option.some.injEq] at hr
              subst hr
              obtain ⟨h1, h2, h3⟩ := ihb h.2.2 y hb
              have h0' : x.v = 0 := by simpa using h0
              exact ⟨h1, h2, by simp [ofTree, evalTree, hevc, h0', h3]⟩

end Proofs.PPExpr
