import PpciVerif.Proofs.IRWF
import PpciVerif.Model.Opt
/-!
# Proofs.OptWF — pass models preserve well-formedness (C03, P part)

* `wf_mapOps`   : rewriting operands by `g` keeps `wfFunc` when `g` keeps operand types and dominance of uses
* `wf_subst`    : `Value.replace_by` (`Model.Opt.subst f d y`) keeps `wfFunc` when `y` has the type of `d`
                  and the definition of `y` dominates the definition of `d`
* `wf_removeAddZero`, `wf_cse` : the models of `RemoveAddZeroPass` and
                  `CommonSubexpressionEliminationPass` keep `wfFunc`
* `wfModule_mapFuncs` : lifting to modules (`Model.Opt.runPass`)

Core Lean only.
-/
namespace Proofs.OptWF
open Spec.IR Spec.IRWF Proofs.IRGraph Proofs.IRWF Model.Opt

/-! ## instruction rewrites that keep the shape of the function -/

/-- an instruction rewrite that keeps everything except operands -/
structure ShapePres (h : Instr → Instr) : Prop where
  dst : ∀ i, (h i).dst? = i.dst?
  term : ∀ i, (h i).isTerminator = i.isTerminator
  targets : ∀ i, (h i).targets = i.targets
  isPhi : ∀ i, (h i).isPhi = i.isPhi
  phiKeys : ∀ i, (h i).phiIns.map (·.1) = i.phiIns.map (·.1)

theorem mapOps_dst (g : Operand → Operand) (i : Instr) : (mapOps g i).dst? = i.dst? := by
  cases i <;> rfl

theorem mapOps_uses (g : Operand → Operand) (i : Instr) : (mapOps g i).uses = i.uses.map g := by
  cases i <;> simp [mapOps, Instr.uses]

theorem mapOps_phiIns (g : Operand → Operand) (i : Instr) :
    (mapOps g i).phiIns = i.phiIns.map (fun p => (p.1, g p.2)) := by
  cases i <;> simp [mapOps, Instr.phiIns]

theorem shapePres_mapOps (g : Operand → Operand) : ShapePres (mapOps g) where
  dst := mapOps_dst g
  term := by intro i; cases i <;> rfl
  targets := by intro i; cases i <;> rfl
  isPhi := by intro i; cases i <;> rfl
  phiKeys := by intro i; rw [mapOps_phiIns]; simp [List.map_map, Function.comp_def]

section Shape
variable {h : Instr → Instr} (sp : ShapePres h)
include sp

theorem blockDefs_map (bn : String) (instrs : List Instr) : ∀ k,
    blockDefs bn k (instrs.map h) = blockDefs bn k instrs := by
  induction instrs with
  | nil => intro k; rfl
  | cons i r ih => intro k; simp only [List.map_cons, blockDefs, sp.dst, ih]

theorem defs_mapInstrs (f : Func) : (mapInstrs f h).defs = f.defs := by
  unfold Func.defs mapInstrs mapBlocks
  simp only [List.flatMap_map, blockDefs_map sp]

theorem succs_map (b : Block) : Block.succs { b with instrs := b.instrs.map h } = b.succs := by
  unfold Block.succs
  simp only [List.getLast?_map]
  cases b.instrs.getLast? with
  | none => rfl
  | some i => simp [sp.targets]

omit sp in
theorem findBlock_mapInstrs (f : Func) (n : String) :
    (mapInstrs f h).findBlock n = (f.findBlock n).map (fun b => { b with instrs := b.instrs.map h }) := by
  unfold Func.findBlock mapInstrs mapBlocks
  simp only [List.find?_map]
  rfl

theorem succOf_mapInstrs (f : Func) : (mapInstrs f h).succOf = f.succOf := by
  funext n
  unfold Func.succOf
  rw [findBlock_mapInstrs]
  cases f.findBlock n with
  | none => rfl
  | some b => simp [succs_map sp]

theorem reach_mapInstrs (f : Func) (a : Option String) : (mapInstrs f h).reach a = f.reach a := by
  unfold Func.reach
  rw [succOf_mapInstrs sp]
  simp [mapInstrs, mapBlocks]

theorem dominates_mapInstrs (f : Func) (d v : String) : (mapInstrs f h).dominates d v = f.dominates d v := by
  unfold Func.dominates
  rw [reach_mapInstrs sp]

theorem preds_mapInstrs (f : Func) (n : String) : (mapInstrs f h).preds n = f.preds n := by
  unfold Func.preds mapInstrs mapBlocks
  simp only [List.filter_map, List.map_map]
  congr 1
  · apply List.filter_congr
    intro b _
    simp [succs_map sp]

theorem terminatedOk_map (b : Block) :
    Block.terminatedOk { b with instrs := b.instrs.map h } = b.terminatedOk := by
  unfold Block.terminatedOk
  simp only [← List.map_reverse]
  cases b.instrs.reverse with
  | nil => rfl
  | cons l init => simp [sp.term, List.all_map, Function.comp_def]

theorem useDominated_mapInstrs (f : Func) (ds : List Def) (bn : String) (k : Nat) (o : Operand) :
    useDominated (mapInstrs f h) ds bn k o = useDominated f ds bn k o := by
  cases o with
  | glob g => rfl
  | loc x => simp only [useDominated, dominates_mapInstrs sp]

theorem phiUseDominated_mapInstrs (f : Func) (ds : List Def) (pred : String) (o : Operand) :
    phiUseDominated (mapInstrs f h) ds pred o = phiUseDominated f ds pred o := by
  cases o with
  | glob g => rfl
  | loc x => simp only [phiUseDominated, dominates_mapInstrs sp]

end Shape

/-! ## operand rewrites -/

/-- the callee operand of a call instruction -/
def calleeOf : Instr → Option Operand
  | .fcall _ _ c _ | .pcall c _ => some c
  | _ => none

/-- `g` never turns a local callee into a global one (a direct call is checked against the callee's
    signature, an indirect call is not) and leaves global callees alone -/
def CalleeOk (g : Operand → Operand) (c : Operand) : Prop :=
  match c with
  | .glob n => g (.glob n) = .glob n
  | .loc x => ∃ z, g (.loc x) = .loc z

theorem callTypesOk_map {m : Module} {ds : List Def} {g : Operand → Operand}
    (hty : ∀ o, opndTy m ds (g o) = opndTy m ds o)
    (callee : Operand) (hcal : CalleeOk g callee) (args : List Operand)
    (res : Option Ty) (hc : callTypesOk m ds callee args res = true) :
    callTypesOk m ds (g callee) (args.map g) res = true := by
  unfold callTypesOk at hc ⊢
  simp only [Bool.and_eq_true, decide_eq_true_eq, List.all_eq_true] at hc ⊢
  obtain ⟨⟨h1, h2⟩, h3⟩ := hc
  refine ⟨⟨by rw [hty]; exact h1, ?_⟩, ?_⟩
  · intro a ha
    obtain ⟨a', ha', e⟩ := List.mem_map.1 ha
    subst e; rw [hty]; exact h2 a' ha'
  · cases callee with
    | glob n =>
      have e : g (.glob n) = .glob n := hcal
      rw [e]
      simp only at h3 ⊢
      cases hs : m.sigOf n with
      | none => rw [hs] at h3; cases h3
      | some pr =>
        rw [hs] at h3
        simp only [Bool.and_eq_true, decide_eq_true_eq] at h3 ⊢
        refine ⟨h3.1, ?_⟩
        rw [← h3.2, List.map_map]
        apply List.map_congr_left
        intro a _; exact hty a
    | loc x =>
      obtain ⟨z, hz⟩ : ∃ z, g (.loc x) = .loc z := hcal
      rw [hz]

theorem instrTypesOk_map {m : Module} {f f' : Func} {ds : List Def} {g : Operand → Operand}
    (hret : f'.ret = f.ret) (hty : ∀ o, opndTy m ds (g o) = opndTy m ds o) (i : Instr)
    (hcal : ∀ c, calleeOf i = some c → CalleeOk g c)
    (h : instrTypesOk m f ds i = true) : instrTypesOk m f' ds (mapOps g i) = true := by
  cases i with
  | fcall d ty c as => exact callTypesOk_map hty c (hcal c rfl) as _ h
  | pcall c as => exact callTypesOk_map hty c (hcal c rfl) as _ h
  | asm t ins outs cl =>
    simp only [instrTypesOk, mapOps, List.all_eq_true, ← List.map_append] at h ⊢
    intro a ha
    obtain ⟨a', ha', e⟩ := List.mem_map.1 ha
    subst e; rw [hty]; exact h a' ha'
  | phi d ty ins =>
    simp only [instrTypesOk, mapOps, Bool.and_eq_true, List.all_eq_true] at h ⊢
    refine ⟨h.1, ?_⟩
    intro p hp
    obtain ⟨p', hp', e⟩ := List.mem_map.1 hp
    subst e; simp only [hty]; exact h.2 p' hp'
  | ret v => simpa only [instrTypesOk, mapOps, hty, hret] using h
  | exit => simpa only [instrTypesOk, mapOps, hret] using h
  | _ => simp only [instrTypesOk, mapOps, hty] at h ⊢ <;> exact h

/-- Rewriting every operand by `g` keeps the function well-formed when `g` keeps the static type of
    every operand, keeps callees of the same kind, and maps a dominated use to a dominated use. -/
theorem wf_mapOps {m : Module} {f : Func} {g : Operand → Operand} (h : wfFunc m f = true)
    (hty : ∀ o, opndTy m f.defs (g o) = opndTy m f.defs o)
    (hcal : ∀ b ∈ f.blocks, ∀ i ∈ b.instrs, ∀ c, calleeOf i = some c → CalleeOk g c)
    (huse : ∀ b ∈ f.blocks, ∀ k i, b.instrs[k]? = some i → ∀ o ∈ i.uses,
      useDominated f f.defs b.name k o = true → useDominated f f.defs b.name k (g o) = true)
    (hphi : ∀ b ∈ f.blocks, ∀ i ∈ b.instrs, ∀ p ∈ i.phiIns,
      phiUseDominated f f.defs p.1 p.2 = true → phiUseDominated f f.defs p.1 (g p.2) = true) :
    wfFunc m (mapInstrs f (mapOps g)) = true := by
  have sp := shapePres_mapOps g
  rw [wfFunc_unfold] at h ⊢
  obtain ⟨h1, h2, h3, h4, h5, h6, h7, h8, h9, h10⟩ := h
  have hbn : (mapInstrs f (mapOps g)).blockNames = f.blockNames := by
    simp [Func.blockNames, mapInstrs, mapBlocks, List.map_map, Function.comp_def]
  rw [defs_mapInstrs sp, hbn, reach_mapInstrs sp]
  refine ⟨by simpa [mapInstrs, mapBlocks] using h1, ?_, h3, h4, ?_, ?_, h7, ?_, ?_, ?_⟩
  · simp only [mapInstrs, mapBlocks, List.head?_map, Option.map_map] at h2 ⊢
    exact h2
  · simp only [mapInstrs, mapBlocks, List.all_map, Function.comp_def, terminatedOk_map sp]
    exact h5
  · simp only [mapInstrs, mapBlocks, List.all_map, Function.comp_def, sp.targets]
    exact h6
  · simp only [mapInstrs, mapBlocks, List.all_map, Function.comp_def]
    refine List.all_eq_true.2 fun b hb => ?_
    have hb8 := List.all_eq_true.1 h8 b hb
    have hp := preds_mapInstrs sp f b.name
    simp only [mapInstrs, mapBlocks] at hp
    simp only [Block.phis, List.filter_map, List.all_map, Function.comp_def, sp.phiKeys, hp] at hb8 ⊢
    refine List.all_eq_true.2 fun i hi => ?_
    have : i ∈ List.filter Instr.isPhi b.instrs := by
      obtain ⟨hi1, hi2⟩ := List.mem_filter.1 hi
      simp only [sp.isPhi] at hi2
      exact List.mem_filter.2 ⟨hi1, hi2⟩
    exact List.all_eq_true.1 hb8 i this
  · simp only [mapInstrs, mapBlocks, List.all_map, Function.comp_def]
    refine List.all_eq_true.2 fun b hb => List.all_eq_true.2 fun i hi => ?_
    exact instrTypesOk_map (f := f) rfl hty i (hcal b hb i hi)
      (List.all_eq_true.1 (List.all_eq_true.1 h9 b hb) i hi)
  · simp only [mapInstrs, mapBlocks, List.all_map, Function.comp_def]
    refine List.all_eq_true.2 fun b hb => ?_
    have hd := (instrsDominated_iff f f.defs b.name b.instrs 0).1 (List.all_eq_true.1 h10 b hb)
    refine (instrsDominated_iff _ f.defs b.name _ 0).2 ?_
    intro j i' hj
    rw [List.getElem?_map] at hj
    cases hi : b.instrs[j]? with
    | none => rw [hi] at hj; cases hj
    | some i =>
      rw [hi] at hj
      simp only [Option.map_some, Option.some.injEq] at hj
      subst hj
      obtain ⟨d1, d2⟩ := hd j i hi
      have sp' := sp
      refine ⟨?_, ?_⟩
      · intro o ho
        rw [mapOps_uses] at ho
        obtain ⟨o', ho', e⟩ := List.mem_map.1 ho
        subst e
        have := huse b hb j i hi o' ho' (by simpa using d1 o' ho')
        have e2 := useDominated_mapInstrs sp f f.defs b.name (0 + j) (g o')
        simp only [mapInstrs, mapBlocks] at e2
        rw [e2]; simpa using this
      · intro p hp
        rw [mapOps_phiIns] at hp
        obtain ⟨p', hp', e⟩ := List.mem_map.1 hp
        subst e
        have := hphi b hb i (List.mem_of_getElem? hi) p' hp' (d2 p' hp')
        have e2 := phiUseDominated_mapInstrs sp f f.defs p'.1 (g p'.2)
        simp only [mapInstrs, mapBlocks] at e2
        rw [e2]; exact this

/-! ## `Value.replace_by` -/

theorem dominates_trans {f : Func} {a b c : String} (h1 : f.dominates a b = true) (h2 : f.dominates b c = true) :
    f.dominates a c = true :=
  (dominates_iff f a c).2 (dom_trans ((dominates_iff f a b).1 h1) ((dominates_iff f b c).1 h2))

theorem dominates_antisymm {f : Func} {a b : String} (h1 : f.dominates a b = true) (h2 : f.dominates b a = true)
    (r : (f.reach none).contains b = true) : a = b :=
  dom_antisymm ((dominates_iff f a b).1 h1) ((dominates_iff f b a).1 h2) ((reachable_iff f b).1 r)

theorem subst_eq (f : Func) (d : String) (y : Operand) : subst f d y = mapInstrs f (mapOps (substOpnd d y)) := rfl

/-- `d.replace_by(y)` keeps the function well-formed when `y` has the type of `d`, the definition of
    `y` dominates the definition of `d`, and no indirect call through `d` becomes a direct call. -/
theorem wf_subst {m : Module} {f : Func} {d : String} {ty : Ty} {db : String} {di : Nat} {y : Operand}
    (h : wfFunc m f = true)
    (hd : findDef f.defs d = some ⟨d, ty, some db, di⟩)
    (hy : opndTy m f.defs y = some ty)
    (hdom : useDominated f f.defs db di y = true)
    (hcal : (∃ x, y = .loc x) ∨ ∀ b ∈ f.blocks, ∀ i ∈ b.instrs, calleeOf i ≠ some (.loc d)) :
    wfFunc m (subst f d y) = true := by
  rw [subst_eq]
  have hreach : ∀ b ∈ f.blocks, (f.reach none).contains b.name = true := by
    intro b hb
    have h7 := ((wfFunc_unfold m f).1 h).2.2.2.2.2.2.1
    exact List.all_eq_true.1 h7 b.name (List.mem_map.2 ⟨b, hb, rfl⟩)
  apply wf_mapOps h
  · intro o
    cases o with
    | glob n => rfl
    | loc z =>
      simp only [substOpnd]
      by_cases e : z = d
      · rw [if_pos e, e, hy]; simp [opndTy, hd]
      · rw [if_neg e]
  · intro b hb i hi c hc
    cases c with
    | glob n => rfl
    | loc x =>
      show ∃ z, substOpnd d y (.loc x) = .loc z
      simp only [substOpnd]
      by_cases e : x = d
      · rw [if_pos e]
        rcases hcal with ⟨x', hx'⟩ | hno
        · exact ⟨x', hx'⟩
        · exact absurd (e ▸ hc) (hno b hb i hi)
      · rw [if_neg e]; exact ⟨x, rfl⟩
  · intro b hb k i hi o ho hu
    cases o with
    | glob n => exact hu
    | loc z =>
      simp only [substOpnd]
      by_cases e : z = d
      · rw [if_pos e]
        subst e
        simp only [useDominated, hd] at hu
        cases y with
        | glob n => rfl
        | loc x =>
          simp only [useDominated] at hdom ⊢
          cases hx : findDef f.defs x with
          | none => rw [hx] at hdom; cases hdom
          | some dx =>
            rw [hx] at hdom
            simp only at hdom ⊢
            cases hxb : dx.block with
            | none => rfl
            | some xb =>
              rw [hxb] at hdom
              simp only at hdom ⊢
              by_cases e1 : db = b.name
              · rw [if_pos e1] at hu
                by_cases e2 : xb = db
                · rw [if_pos e2] at hdom
                  rw [if_pos (e2.trans e1)]
                  simp only [decide_eq_true_eq] at hu hdom ⊢
                  omega
                · rw [if_neg e2] at hdom
                  rw [if_neg (by rw [← e1]; exact e2), ← e1]
                  exact hdom
              · rw [if_neg e1] at hu
                by_cases e2 : xb = db
                · rw [if_neg (by rw [e2]; exact e1), e2]
                  exact hu
                · rw [if_neg e2] at hdom
                  by_cases e3 : xb = b.name
                  · exfalso
                    rw [e3] at hdom
                    exact e1 (dominates_antisymm hu hdom (hreach b hb))
                  · rw [if_neg e3]
                    exact dominates_trans hdom hu
      · rw [if_neg e]; exact hu
  · intro b hb i hi p hp hu
    cases ho : p.2 with
    | glob n => rw [ho] at hu; exact hu
    | loc z =>
      rw [ho] at hu
      simp only [substOpnd]
      by_cases e : z = d
      · rw [if_pos e]
        subst e
        simp only [phiUseDominated, hd] at hu
        cases y with
        | glob n => rfl
        | loc x =>
          simp only [useDominated] at hdom
          simp only [phiUseDominated]
          cases hx : findDef f.defs x with
          | none => rw [hx] at hdom; cases hdom
          | some dx =>
            rw [hx] at hdom
            simp only at hdom ⊢
            cases hxb : dx.block with
            | none => rfl
            | some xb =>
              rw [hxb] at hdom
              simp only at hdom ⊢
              by_cases e2 : xb = db
              · rw [e2]; exact hu
              · rw [if_neg e2] at hdom
                exact dominates_trans hdom hu
      · rw [if_neg e]; exact hu

/-! ## facts at a position of a well-formed function -/

theorem instrAt_iff (f : Func) (bi k : Nat) (i : Instr) :
    instrAt f bi k = some i ↔ ∃ b, f.blocks[bi]? = some b ∧ b.instrs[k]? = some i := by
  unfold instrAt
  cases f.blocks[bi]? with
  | none => simp
  | some b => simp

theorem instrAt_mapInstrs (f : Func) (h : Instr → Instr) (bi k : Nat) :
    instrAt (mapInstrs f h) bi k = (instrAt f bi k).map h := by
  unfold instrAt mapInstrs mapBlocks
  simp only [List.getElem?_map]
  cases f.blocks[bi]? with
  | none => rfl
  | some b => simp [List.getElem?_map]

theorem names_nodup {m : Module} {f : Func} (h : wfFunc m f = true) : (f.defs.map (·.name)).Nodup :=
  (allDistinct_iff _).1 ((wfFunc_unfold m f).1 h).2.2.2.1

theorem findDef_at {m : Module} {f : Func} (h : wfFunc m f = true) {b : Block} {k : Nat} {i : Instr}
    {d : String} {ty : Ty} (hb : b ∈ f.blocks) (hi : b.instrs[k]? = some i) (hdst : i.dst? = some (d, ty)) :
    findDef f.defs d = some ⟨d, ty, some b.name, k⟩ :=
  (findDef_iff (names_nodup h) d _).2 ⟨(mem_defs f _).2 (Or.inr ⟨b, hb, k, i, hi, hdst, rfl, rfl⟩), rfl⟩

theorem typesOk_at {m : Module} {f : Func} (h : wfFunc m f = true) {b : Block} {i : Instr}
    (hb : b ∈ f.blocks) (hi : i ∈ b.instrs) : instrTypesOk m f f.defs i = true :=
  List.all_eq_true.1 (List.all_eq_true.1 ((wfFunc_unfold m f).1 h).2.2.2.2.2.2.2.2.1 b hb) i hi

theorem usesDom_at {m : Module} {f : Func} (h : wfFunc m f = true) {b : Block} {k : Nat} {i : Instr}
    (hb : b ∈ f.blocks) (hi : b.instrs[k]? = some i) :
    ∀ o ∈ i.uses, useDominated f f.defs b.name k o = true := by
  have := (instrsDominated_iff f f.defs b.name b.instrs 0).1
    (List.all_eq_true.1 ((wfFunc_unfold m f).1 h).2.2.2.2.2.2.2.2.2 b hb) k i hi
  simpa using this.1

/-- generic invariant rule for `foldl` over `List.range n` with an index-dependent invariant -/
theorem foldl_range_inv {σ : Type} (step : σ → Nat → σ) (Inv : Nat → σ → Prop)
    (hstep : ∀ n s, Inv n s → Inv (n + 1) (step s n)) : ∀ (n : Nat) (s : σ), Inv 0 s →
    Inv n ((List.range n).foldl step s) := by
  intro n
  induction n with
  | zero => intro s h; simpa using h
  | succ n ih =>
    intro s h
    rw [List.range_succ, List.foldl_append]
    exact hstep n _ (ih s h)

theorem foldl_inv {σ α : Type} (step : σ → α → σ) (P : σ → Prop) (hstep : ∀ s a, P s → P (step s a)) :
    ∀ (l : List α) (s : σ), P s → P (l.foldl step s) := by
  intro l
  induction l with
  | nil => intro s h; exact h
  | cons a l ih => intro s h; exact ih _ (hstep s a h)

/-! ## CommonSubexpressionEliminationPass -/

/-- the loop body of `Model.Opt.cseBlock` -/
def cseStep (bi : Nat) (st : Func × List Instr) (k : Nat) : Func × List Instr :=
  let (f, seen) := st
  match instrAt f bi k with
  | some i =>
    if cseKeyed i then
      match seen.find? (cseSame i), dstName i with
      | some j, some d => (match dstName j with
          | some dj => (subst f d (.loc dj), seen)
          | none => (f, seen))
      | _, _ => (f, seen ++ [i])
    else (f, seen)
  | none => (f, seen)

theorem cseBlock_eq (f : Func) (bi : Nat) : cseBlock f bi =
    match f.blocks[bi]? with
    | none => f
    | some b0 => ((List.range b0.instrs.length).foldl (cseStep bi) (f, [])).1 := rfl

/-- two instructions with the same CSE key define values of the same type -/
theorem cseSame_dst {i j : Instr} (h : cseSame i j = true) :
    ∃ d dj t, i.dst? = some (d, t) ∧ j.dst? = some (dj, t) := by
  cases i <;> cases j <;> simp [cseSame] at h
  · rename_i d t c dj t' c'
    exact ⟨d, dj, t, rfl, by rw [h.1]; rfl⟩
  · rename_i d t op a b dj t' op' a' b'
    exact ⟨d, dj, t, rfl, by rw [h.1.1.1]; rfl⟩

def CseInv (m : Module) (bi : Nat) (n : Nat) (st : Func × List Instr) : Prop :=
  wfFunc m st.1 = true ∧
  ∀ j ∈ st.2, ∃ k', k' < n ∧ ∃ j', instrAt st.1 bi k' = some j' ∧ j'.dst? = j.dst?

theorem cseInv_mono {m : Module} {bi n : Nat} {st : Func × List Instr} (h : CseInv m bi n st) :
    CseInv m bi (n + 1) st :=
  ⟨h.1, fun j hj => by obtain ⟨k', hk, r⟩ := h.2 j hj; exact ⟨k', by omega, r⟩⟩

theorem cseStep_inv (m : Module) (bi : Nat) (n : Nat) (st : Func × List Instr) (h : CseInv m bi n st) :
    CseInv m bi (n + 1) (cseStep bi st n) := by
  obtain ⟨f, seen⟩ := st
  unfold cseStep
  simp only
  cases hi : instrAt f bi n with
  | none => exact cseInv_mono h
  | some i =>
    simp only
    by_cases hk : cseKeyed i = true
    · rw [if_pos hk]
      have happend : CseInv m bi (n + 1) (f, seen ++ [i]) := by
        refine ⟨h.1, fun j hj => ?_⟩
        rcases List.mem_append.1 hj with hj | hj
        · obtain ⟨k', hk', r⟩ := h.2 j hj; exact ⟨k', by omega, r⟩
        · simp at hj; subst hj; exact ⟨n, by omega, j, hi, rfl⟩
      cases hf : seen.find? (cseSame i) with
      | none => exact happend
      | some j =>
        cases hd : dstName i with
        | none => exact happend
        | some d =>
          simp only
          cases hdj : dstName j with
          | none => exact cseInv_mono h
          | some dj =>
            simp only
            have hjm : j ∈ seen := List.mem_of_find?_eq_some hf
            have hsame : cseSame i j = true := by simpa using List.find?_some hf
            obtain ⟨d0, dj0, t, hid, hjd⟩ := cseSame_dst hsame
            have e1 : d0 = d := by simp [dstName, hid] at hd; exact hd
            have e2 : dj0 = dj := by simp [dstName, hjd] at hdj; exact hdj
            subst e1 e2
            obtain ⟨k', hk', j', hj', hjd'⟩ := h.2 j hjm
            obtain ⟨b, hb, hbi⟩ := (instrAt_iff f bi n i).1 hi
            obtain ⟨b', hb', hbj⟩ := (instrAt_iff f bi k' j').1 hj'
            rw [hb] at hb'; cases hb'
            have hbm : b ∈ f.blocks := List.mem_of_getElem? hb
            have fd := findDef_at h.1 hbm hbi hid
            have fdj := findDef_at h.1 hbm hbj (hjd'.trans hjd)
            have hwf : wfFunc m (subst f d0 (.loc dj0)) = true := by
              refine wf_subst h.1 fd ?_ ?_ (Or.inl ⟨dj0, rfl⟩)
              · simp [opndTy, fdj]
              · simp [useDominated, fdj, hk']
            refine ⟨hwf, fun j2 hj2 => ?_⟩
            obtain ⟨k2, hk2, j2', hj2', hd2⟩ := h.2 j2 hj2
            refine ⟨k2, by omega, mapOps (substOpnd d0 (.loc dj0)) j2', ?_, ?_⟩
            · show instrAt (subst f d0 (.loc dj0)) bi k2 = _
              rw [subst_eq, instrAt_mapInstrs, hj2']; rfl
            · rw [mapOps_dst]; exact hd2
    · rw [if_neg hk]; exact cseInv_mono h

theorem wf_cseBlock {m : Module} (f : Func) (bi : Nat) (h : wfFunc m f = true) : wfFunc m (cseBlock f bi) = true := by
  rw [cseBlock_eq]
  cases hb : f.blocks[bi]? with
  | none => exact h
  | some b0 =>
    simp only
    exact (foldl_range_inv (cseStep bi) (CseInv m bi) (cseStep_inv m bi) b0.instrs.length (f, [])
      ⟨h, by simp⟩).1

/-- the model of `CommonSubexpressionEliminationPass` keeps every well-formed function well-formed -/
theorem wf_cse {m : Module} (f : Func) (h : wfFunc m f = true) : wfFunc m (cse f) = true := by
  unfold cse
  exact foldl_inv cseBlock (fun f => wfFunc m f = true) (fun s a hs => wf_cseBlock s a hs) _ f h

/-! ## RemoveAddZeroPass -/

/-- the guard of `wf_removeAddZero`: no call goes through a local value that is the result of a `binop`.
    (`(@f + 0)(args)` is an unchecked indirect call; after `x + 0 → x` it is the direct call `@f(args)`,
    which must match the signature of `f` — see the open finding `addzero:operand-types:call-signature`.) -/
def calleeNotBinop (f : Func) (i : Instr) : Bool :=
  match calleeOf i with
  | some (.loc c) => (match defInstr f c with | some (.binop ..) => false | _ => true)
  | _ => true

def noBinopCallee (f : Func) : Bool := f.blocks.all fun b => b.instrs.all (calleeNotBinop f)

theorem eq_of_name_eq : ∀ (l : List Block), (l.map (·.name)).Nodup → ∀ b ∈ l, ∀ b' ∈ l, b.name = b'.name → b = b' := by
  intro l
  induction l with
  | nil => intro _ b hb; simp at hb
  | cons a l ih =>
    intro nd b hb b' hb' e
    simp only [List.map_cons, List.nodup_cons] at nd
    rcases List.mem_cons.1 hb with h1 | h1 <;> rcases List.mem_cons.1 hb' with h2 | h2
    · rw [h1, h2]
    · subst h1; exact absurd (List.mem_map.2 ⟨b', h2, e.symm⟩) nd.1
    · subst h2; exact absurd (List.mem_map.2 ⟨b, h1, e⟩) nd.1
    · exact ih nd.2 b h1 b' h2 e

theorem defInstr_at {m : Module} {f : Func} (h : wfFunc m f = true) {b : Block} {k : Nat} {i : Instr}
    {d : String} {ty : Ty} (hb : b ∈ f.blocks) (hi : b.instrs[k]? = some i) (hdst : i.dst? = some (d, ty)) :
    defInstr f d = some i := by
  have hbn : f.blockNames.Nodup := (allDistinct_iff _).1 ((wfFunc_unfold m f).1 h).2.2.1
  unfold defInstr
  cases hr : f.blocks.findSome? (fun b => b.instrs.find? fun i => dstName i = some d) with
  | none =>
    rw [List.findSome?_eq_none_iff] at hr
    have := hr b hb
    rw [List.find?_eq_none] at this
    have hm : i ∈ b.instrs := List.mem_of_getElem? hi
    exact absurd (by simp [dstName, hdst]) (this i hm)
  | some i' =>
    obtain ⟨b', hb', hf⟩ := List.exists_of_findSome?_eq_some hr
    have hm' : i' ∈ b'.instrs := List.mem_of_find?_eq_some hf
    have hp' : dstName i' = some d := by simpa using List.find?_some hf
    obtain ⟨k', hk'⟩ := List.getElem?_of_mem hm'
    cases hd' : i'.dst? with
    | none => simp [dstName, hd'] at hp'
    | some pr =>
      obtain ⟨d', ty'⟩ := pr
      have : d' = d := by simp [dstName, hd'] at hp'; exact hp'
      subst this
      have f1 := findDef_at h hb hi hdst
      have f2 := findDef_at h hb' hk' hd'
      rw [f1] at f2
      simp only [Option.some.injEq, Def.mk.injEq] at f2
      obtain ⟨_, _, e3, e4⟩ := f2
      have : b = b' := eq_of_name_eq f.blocks hbn b hb b' hb' e3
      subst this; subst e4
      rw [hi] at hk'
      exact congrArg some (Option.some.inj hk').symm

theorem findSome?_map_opt {α β γ : Type} (g : α → Option β) (h : β → γ) : ∀ l : List α,
    l.findSome? (fun a => (g a).map h) = (l.findSome? g).map h := by
  intro l
  induction l with
  | nil => rfl
  | cons a l ih =>
    simp only [List.findSome?_cons]
    cases g a with
    | none => simpa using ih
    | some b => rfl

theorem defInstr_mapInstrs {h : Instr → Instr} (sp : ShapePres h) (f : Func) (x : String) :
    defInstr (mapInstrs f h) x = (defInstr f x).map h := by
  unfold defInstr mapInstrs mapBlocks
  simp only [List.findSome?_map, Function.comp_def, List.find?_map]
  have : (fun i => decide (dstName (h i) = some x)) = (fun i => decide (dstName i = some x)) := by
    funext i; unfold dstName; rw [sp.dst]
  simp only [this]
  exact findSome?_map_opt _ h _

theorem calleeOf_mapOps (g : Operand → Operand) (i : Instr) : calleeOf (mapOps g i) = (calleeOf i).map g := by
  cases i <;> rfl

theorem noBinopCallee_subst {f : Func} {d : String} {y : Operand} (hg : noBinopCallee f = true)
    (hno : ∀ b ∈ f.blocks, ∀ i ∈ b.instrs, calleeOf i ≠ some (.loc d)) : noBinopCallee (subst f d y) = true := by
  unfold noBinopCallee at hg ⊢
  rw [subst_eq]
  simp only [mapInstrs, mapBlocks, List.all_map, Function.comp_def]
  refine List.all_eq_true.2 fun b hb => List.all_eq_true.2 fun i hi => ?_
  have h0 := List.all_eq_true.1 (List.all_eq_true.1 hg b hb) i hi
  have hne := hno b hb i hi
  unfold calleeNotBinop at h0 ⊢
  rw [calleeOf_mapOps]
  cases hc : calleeOf i with
  | none => rfl
  | some c =>
    rw [hc] at h0 hne
    cases c with
    | glob n => rfl
    | loc c =>
      have hcd : c ≠ d := fun e => hne (by rw [e])
      simp only [Option.map_some, substOpnd, if_neg hcd]
      have := defInstr_mapInstrs (shapePres_mapOps (substOpnd d y)) f c
      simp only [mapInstrs, mapBlocks] at this
      rw [this]
      simp only at h0
      cases hdi : defInstr f c with
      | none => rfl
      | some j =>
        rw [hdi] at h0
        cases j <;> simp [mapOps] at h0 ⊢

/-- replacing the result of a `binop` at a position of `f` by one of its operands -/
theorem wf_subst_binop {m : Module} {f : Func} (h : wfFunc m f = true) (hg : noBinopCallee f = true)
    {bi k : Nat} {d : String} {t : Ty} {op : BinOp} {a b y : Operand}
    (hpos : instrAt f bi k = some (.binop d t op a b)) (hy : y = a ∨ y = b) :
    wfFunc m (subst f d y) = true ∧ noBinopCallee (subst f d y) = true := by
  obtain ⟨blk, hb, hi⟩ := (instrAt_iff f bi k _).1 hpos
  have hbm : blk ∈ f.blocks := List.mem_of_getElem? hb
  have fd := findDef_at h hbm hi (d := d) (ty := t) rfl
  have hdi := defInstr_at h hbm hi (d := d) (ty := t) rfl
  have hno : ∀ b' ∈ f.blocks, ∀ i' ∈ b'.instrs, calleeOf i' ≠ some (.loc d) := by
    intro b' hb' i' hi' hc
    have := List.all_eq_true.1 (List.all_eq_true.1 hg b' hb') i' hi'
    simp [calleeNotBinop, hc, hdi] at this
  have hty := typesOk_at h hbm (List.mem_of_getElem? hi)
  simp only [instrTypesOk, Bool.and_eq_true, decide_eq_true_eq] at hty
  have hdom := usesDom_at h hbm hi
  refine ⟨wf_subst h fd ?_ ?_ (Or.inr hno), noBinopCallee_subst hg hno⟩
  · rcases hy with e | e <;> subst e
    · exact hty.1.2
    · exact hty.2
  · rcases hy with e | e <;> subst e
    · exact hdom _ (by simp [Instr.uses])
    · exact hdom _ (by simp [Instr.uses])

/-- `addZeroInstr` does nothing, or replaces the result of a `binop` by one of its two operands
    (whatever the conditions are under which it does so) -/
theorem addZeroInstr_cases (f : Func) (i : Instr) :
    addZeroInstr f i = f ∨ ∃ d t op a b, i = .binop d t op a b ∧
      (addZeroInstr f i = subst f d a ∨ addZeroInstr f i = subst f d b) := by
  unfold addZeroInstr
  repeat' split
  all_goals first
    | exact Or.inl rfl
    | exact Or.inr ⟨_, _, _, _, _, rfl, Or.inl rfl⟩
    | exact Or.inr ⟨_, _, _, _, _, rfl, Or.inr rfl⟩

theorem wf_addZeroInstr {m : Module} {f : Func} (h : wfFunc m f = true) (hg : noBinopCallee f = true)
    {bi k : Nat} {i : Instr} (hpos : instrAt f bi k = some i) :
    wfFunc m (addZeroInstr f i) = true ∧ noBinopCallee (addZeroInstr f i) = true := by
  rcases addZeroInstr_cases f i with e | ⟨d, t, op, a, b, hi, e | e⟩
  · rw [e]; exact ⟨h, hg⟩
  · rw [e]; subst hi; exact wf_subst_binop h hg hpos (Or.inl rfl)
  · rw [e]; subst hi; exact wf_subst_binop h hg hpos (Or.inr rfl)

/-- the model of `RemoveAddZeroPass` keeps a well-formed function well-formed, provided no call goes
    through the result of a `binop` (guard `noBinopCallee`, see the open finding) -/
theorem wf_removeAddZero {m : Module} (f : Func) (h : wfFunc m f = true) (hg : noBinopCallee f = true) :
    wfFunc m (removeAddZero f) = true ∧ noBinopCallee (removeAddZero f) = true := by
  unfold removeAddZero
  refine foldl_inv _ (fun f => wfFunc m f = true ∧ noBinopCallee f = true) ?_ _ f ⟨h, hg⟩
  intro s p hs
  cases hi : instrAt s p.1 p.2 with
  | none => simpa [hi] using hs
  | some i => simpa [hi] using wf_addZeroInstr hs.1 hs.2 hi

/-! ## lifting to modules -/

/-- name, parameters and result type of a function: what other functions' calls are checked against -/
def SameSig (f' f : Func) : Prop := f'.name = f.name ∧ f'.params = f.params ∧ f'.ret = f.ret

theorem sameSig_refl (f : Func) : SameSig f f := ⟨rfl, rfl, rfl⟩

theorem sameSig_trans {a b c : Func} (h1 : SameSig a b) (h2 : SameSig b c) : SameSig a c :=
  ⟨h1.1.trans h2.1, h1.2.1.trans h2.2.1, h1.2.2.trans h2.2.2⟩

theorem sameSig_subst (f : Func) (d : String) (y : Operand) : SameSig (subst f d y) f := ⟨rfl, rfl, rfl⟩

theorem sameSig_removeAddZero (f : Func) : SameSig (removeAddZero f) f := by
  unfold removeAddZero
  refine foldl_inv _ (fun s => SameSig s f) ?_ _ f (sameSig_refl f)
  intro s p hs
  cases hi : instrAt s p.1 p.2 with
  | none => simpa [hi] using hs
  | some i =>
    simp only
    rcases addZeroInstr_cases s i with e | ⟨d, t, op, a, b, _, e | e⟩ <;> rw [e]
    · exact hs
    · exact sameSig_trans (sameSig_subst s d a) hs
    · exact sameSig_trans (sameSig_subst s d b) hs

theorem sameSig_cseStep (bi : Nat) (st : Func × List Instr) (k : Nat) : SameSig (cseStep bi st k).1 st.1 := by
  obtain ⟨f, seen⟩ := st
  unfold cseStep
  simp only
  repeat' split
  all_goals first
    | exact sameSig_refl _
    | exact sameSig_subst _ _ _

theorem sameSig_cseBlock (f : Func) (bi : Nat) : SameSig (cseBlock f bi) f := by
  rw [cseBlock_eq]
  cases f.blocks[bi]? with
  | none => exact sameSig_refl f
  | some b0 =>
    simp only
    exact foldl_inv (cseStep bi) (fun st => SameSig st.1 f)
      (fun s a hs => sameSig_trans (sameSig_cseStep bi s a) hs) _ (f, []) (sameSig_refl f)

theorem sameSig_cse (f : Func) : SameSig (cse f) f := by
  unfold cse
  exact foldl_inv cseBlock (fun s => SameSig s f)
    (fun s a hs => sameSig_trans (sameSig_cseBlock s a) hs) _ f (sameSig_refl f)

theorem find?_map_name (p : Func → Func) (hn : ∀ f, (p f).name = f.name) (l : List Func) (g : String) :
    (l.map p).find? (·.name = g) = (l.find? (·.name = g)).map p := by
  rw [List.find?_map]
  have : ((fun x : Func => decide (x.name = g)) ∘ p) = (fun x => decide (x.name = g)) := by
    funext f; simp [hn]
  rw [this]

/-- `wfFunc` looks at the module only through the declared names and the signatures -/
theorem wfFunc_mapFuncs (m : Module) (p : Func → Func) (hp : ∀ f, SameSig (p f) f) (f : Func) :
    wfFunc { m with funcs := m.funcs.map p } f = wfFunc m f := by
  have hff : ∀ g, Module.findFunc { m with funcs := m.funcs.map p } g = (m.findFunc g).map p := by
    intro g; unfold Module.findFunc; exact find?_map_name p (fun f => (hp f).1) m.funcs g
  have hty : ∀ ds o, opndTy { m with funcs := m.funcs.map p } ds o = opndTy m ds o := by
    intro ds o
    cases o with
    | loc x => rfl
    | glob g =>
      simp only [opndTy, hff, Option.isSome_map]
      rfl
  have hsig : ∀ g, Module.sigOf { m with funcs := m.funcs.map p } g = m.sigOf g := by
    intro g
    unfold Module.sigOf
    rw [hff]
    cases m.findFunc g with
    | none => rfl
    | some f0 => simp [(hp f0).2.1, (hp f0).2.2]
  have hcall : ∀ ds c as r, callTypesOk { m with funcs := m.funcs.map p } ds c as r = callTypesOk m ds c as r := by
    intro ds c as r
    have hty' : opndTy { m with funcs := m.funcs.map p } ds = opndTy m ds := funext (hty ds)
    unfold callTypesOk
    simp only [hty', hsig]
  have hins : ∀ ds i, instrTypesOk { m with funcs := m.funcs.map p } f ds i = instrTypesOk m f ds i := by
    intro ds i
    cases i <;> simp only [instrTypesOk, hty, hcall]
  have hins' : ∀ ds, instrTypesOk { m with funcs := m.funcs.map p } f ds = instrTypesOk m f ds :=
    fun ds => funext (hins ds)
  unfold wfFunc wfChecks
  simp only [hins']

theorem globalNames_mapFuncs (m : Module) (p : Func → Func) (hp : ∀ f, SameSig (p f) f) :
    Module.globalNames { m with funcs := m.funcs.map p } = m.globalNames := by
  unfold Module.globalNames
  simp only [List.map_map]
  congr 1
  apply List.map_congr_left
  intro f _; exact (hp f).1

/-- a function-wise transformation that keeps signatures and keeps every well-formed function of `m`
    well-formed keeps the module well-formed -/
theorem wfModule_mapFuncs {m : Module} (p : Func → Func) (hsig : ∀ f, SameSig (p f) f)
    (hp : ∀ f ∈ m.funcs, wfFunc m f = true → wfFunc m (p f) = true)
    (h : wfModule m = true) : wfModule { m with funcs := m.funcs.map p } = true := by
  unfold wfModule at h ⊢
  simp only [Bool.and_eq_true, List.all_eq_true] at h ⊢
  refine ⟨by rw [globalNames_mapFuncs m p hsig]; exact h.1, ?_⟩
  intro f' hf'
  obtain ⟨f, hf, e⟩ := List.mem_map.1 hf'
  subst e
  rw [wfFunc_mapFuncs m p hsig]
  exact hp f hf (h.2 f hf)

theorem mapM_ok (p : Func → Func) : ∀ l : List Func,
    (l.mapM (fun f => (Except.ok (p f) : R Func))) = Except.ok (l.map p) := by
  intro l
  induction l with
  | nil => rfl
  | cons a l ih => simp [List.mapM_cons, ih, bind, Except.bind, pure, Except.pure]

theorem runPass_ok (p : Func → Func) (m : Module) :
    runPass (fun f => .ok (p f)) m = .ok { m with funcs := m.funcs.map p } := by
  unfold runPass
  rw [mapM_ok]
  rfl

end Proofs.OptWF
