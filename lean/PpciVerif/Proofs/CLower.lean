import PpciVerif.Proofs.CLowerArith
/-!
The main induction of C01: for every expression the specification types, the model of
ppci's front-end (`Model.CType.elaborate` then `Model.CLower.lower`) produces a typed tree
of the specified type whose emitted IR code evaluates — by the instruction semantics of
`Spec.IR` — to the value C prescribes, for every environment in which C prescribes one.
-/
set_option linter.unusedSimpArgs false
set_option linter.unusedVariables false
namespace Proofs.CLower
open Model.CType (TExpr coerce promoteTy commonType arithOperands onBinop onUnop onTernop elaborate onNumber onChar
  onSizeof limitMax candidateTypes pickType toIntegerType wrapInteger)
open Model.CLower Model.CBridge Spec.IRExpr
open Spec.CInt (Base Suffix UnOp BinOp inRange convert promote uac arith ofBool evalArith evalShift evalCmp evalUn
  litType ofU toU)
open Spec.CExpr (Expr typeOf eval)
open Proofs.CEval (convert_inRange convert_of_inRange inRange_promote)
open Proofs.CExpr (eval_inRange)

/-! ### lowering equations -/

theorem lower_var (τ : MTy) (i : Nat) : lower (.var τ i) = .load (irTy τ) i := rfl
theorem lower_num (τ : MTy) (v : Int) : lower (.num τ v) = .const (irTy τ) v := rfl
theorem lower_chr (τ : MTy) (v : Int) : lower (.chr τ v) = .const (irTy τ) v := rfl
theorem lower_szof (τ : MTy) (n : Nat) : lower (.szof τ n) = .const (irTy τ) n := rfl
theorem lower_cast (i : Bool) (τ : MTy) (a : TExpr) : lower (.cast i τ a) = .cast (irTy τ) (lower a) := rfl
theorem lower_neg (τ : MTy) (a : TExpr) : lower (.un .minus τ a) = .unop (irTy τ) .neg (lower a) := rfl
theorem lower_bnot (τ : MTy) (a : TExpr) : lower (.un .tilde τ a) = .unop (irTy τ) .not (lower a) := rfl
theorem lower_bang (τ : MTy) (a : TExpr) : lower (.un .bang τ a) = .toInt (.cnot (lowerCond a)) (irTy τ) := rfl
theorem lowerCond_bang (τ : MTy) (a : TExpr) : lowerCond (.un .bang τ a) = .cnot (lowerCond a) := rfl
theorem lower_oror (τ : MTy) (a b : TExpr) :
    lower (.bin .oror τ a b) = .toInt (.cor (lowerCond a) (lowerCond b)) (irTy τ) := rfl
theorem lowerCond_oror (τ : MTy) (a b : TExpr) : lowerCond (.bin .oror τ a b) = .cor (lowerCond a) (lowerCond b) := rfl
theorem lower_andand (τ : MTy) (a b : TExpr) :
    lower (.bin .andand τ a b) = .toInt (.cand (lowerCond a) (lowerCond b)) (irTy τ) := rfl
theorem lowerCond_andand (τ : MTy) (a b : TExpr) : lowerCond (.bin .andand τ a b) = .cand (lowerCond a) (lowerCond b) := rfl
theorem lower_tern (τ : MTy) (c a b : TExpr) :
    lower (.tern τ c a b) = .select (lowerCond c) (irTy τ) (lower a) (lower b) := rfl

theorem lower_cmp {op : Model.CType.BinSym} {cnd : Spec.IR.Cond} (h : irCond op = some cnd) (τ : MTy) (a b : TExpr) :
    lower (.bin op τ a b) = .toInt (.cjump (lower a) cnd (lower b)) (irTy τ) ∧
    lowerCond (.bin op τ a b) = .cjump (lower a) cnd (lower b) := by
  cases op <;> simp only [irCond, Option.some.injEq, reduceCtorEq] at h <;> subst h <;> exact ⟨rfl, rfl⟩

theorem lower_arith {op : Model.CType.BinSym} {o : Spec.IR.BinOp} (h : irOp op = some o) (τ : MTy) (a b : TExpr) :
    lower (.bin op τ a b) = .binop (irTy τ) o (lower a) (lower b) ∧
    lowerCond (.bin op τ a b) = nonZero (lower (.bin op τ a b)) τ := by
  cases op <;> simp only [irOp, Option.some.injEq, reduceCtorEq] at h <;> subst h <;> exact ⟨rfl, rfl⟩

/-! ### evaluation of the emitted code -/

theorem wrap_zero (t : ITy) : Spec.IRArith.wrap t 0 = 0 := by cases t <;> rfl
theorem wrap_one (t : ITy) : Spec.IRArith.wrap t 1 = 1 := by cases t <;> rfl

theorem ieval_toInt {ρ : Env} {c : ICond} {b : Bool} (t : ITy) (h : ceval ρ c = some b) :
    ieval ρ (.toInt c t) = some (ofBool b) := by
  simp only [ieval, h, evalConst_int]
  cases b <;> simp [wrap_zero, wrap_one, ofBool]

/-- `check_non_zero` -/
theorem ceval_nonZero {ρ : Env} {iv : IExpr} {v : Int} (τ : MTy) (h : ieval ρ iv = some v) :
    ceval ρ (nonZero iv τ) = some (decide (v ≠ 0)) := by
  simp only [nonZero, ceval, ieval, h, evalConst_int, evalCond_int, wrap_zero, Option.map_some]
  by_cases hv : v = 0 <;> simp [hv]

theorem ofBool_ne_zero (b : Bool) : decide (ofBool b ≠ 0) = b := by cases b <;> rfl

/-! ### coercions -/

theorem coerce_ty (t : TExpr) (τ : MTy) : (coerce t τ).ty = τ := by
  unfold coerce; split
  · assumption
  · rfl

theorem lower_coerce_value {ρ : Env} {t : TExpr} {σ : STy} (σ' : STy) {x : Int} (ht : t.ty = M σ)
    (hv : ieval ρ (lower t) = some x) (hr : inRange σ x = true) :
    ieval ρ (lower (coerce t (M σ'))) = some (convert σ' x) := by
  unfold coerce; split
  · rename_i h
    have : inRange σ' x = true := by rw [← inRange_of_M_eq (ht.symm.trans h) x]; exact hr
    rw [convert_of_inRange this]; exact hv
  · rw [lower_cast]; simp only [ieval, hv, evalCast_int]
    exact congrArg some (wrap_eq_convert σ' x)

theorem lowerCond_coerce {ρ : Env} {t : TExpr} {σ : STy} (σ' : STy) {x : Int} (ht : t.ty = M σ)
    (hv : ieval ρ (lower t) = some x) (hc : ceval ρ (lowerCond t) = some (decide (x ≠ 0))) (hr : inRange σ x = true) :
    ceval ρ (lowerCond (coerce t (M σ'))) = some (decide (convert σ' x ≠ 0)) := by
  have hval := lower_coerce_value σ' ht hv hr
  unfold coerce at hval ⊢; split
  · rename_i h
    have : inRange σ' x = true := by rw [← inRange_of_M_eq (ht.symm.trans h) x]; exact hr
    rw [convert_of_inRange this]; exact hc
  · rename_i h
    simp only [h, if_false] at hval
    exact ceval_nonZero (M σ') hval

theorem promote_ty {t : TExpr} {σ : STy} (ht : t.ty = M σ) : (Model.CType.promote t).ty = M (promote σ) := by
  unfold Model.CType.promote; rw [coerce_ty, ht, promoteTy_M]

theorem lower_promote_value {ρ : Env} {t : TExpr} {σ : STy} {x : Int} (ht : t.ty = M σ)
    (hv : ieval ρ (lower t) = some x) (hr : inRange σ x = true) :
    ieval ρ (lower (Model.CType.promote t)) = some x := by
  unfold Model.CType.promote; rw [ht, promoteTy_M]
  have := lower_coerce_value (promote σ) ht hv hr
  rw [convert_of_inRange (inRange_promote hr)] at this; exact this

theorem lowerCond_promote {ρ : Env} {t : TExpr} {σ : STy} {x : Int} (ht : t.ty = M σ)
    (hv : ieval ρ (lower t) = some x) (hc : ceval ρ (lowerCond t) = some (decide (x ≠ 0))) (hr : inRange σ x = true) :
    ceval ρ (lowerCond (Model.CType.promote t)) = some (decide (x ≠ 0)) := by
  unfold Model.CType.promote; rw [ht, promoteTy_M]
  have := lowerCond_coerce (promote σ) ht hv hc hr
  rw [convert_of_inRange (inRange_promote hr)] at this; exact this

/-- both operands of an arithmetic / comparison / `?:` node: promoted, then converted to the common type -/
theorem arithOperands_ty {a b : TExpr} {sa sb : STy} (ha : a.ty = M sa) (hb : b.ty = M sb) :
    (arithOperands a b).1 = M (uac sa sb) := by
  simp only [arithOperands, promote_ty ha, promote_ty hb, commonType_M]

theorem arithOperands_evalL {ρ : Env} {a b : TExpr} {sa sb : STy} {x : Int} (ha : a.ty = M sa) (hb : b.ty = M sb)
    (hv : ieval ρ (lower a) = some x) (hr : inRange sa x = true) :
    ieval ρ (lower (arithOperands a b).2.1) = some (convert (uac sa sb) x) := by
  simp only [arithOperands, promote_ty ha, promote_ty hb, commonType_M]
  exact lower_coerce_value (uac sa sb) (promote_ty ha) (lower_promote_value ha hv hr) (inRange_promote hr)

theorem arithOperands_evalR {ρ : Env} {a b : TExpr} {sa sb : STy} {y : Int} (ha : a.ty = M sa) (hb : b.ty = M sb)
    (hv : ieval ρ (lower b) = some y) (hr : inRange sb y = true) :
    ieval ρ (lower (arithOperands a b).2.2) = some (convert (uac sa sb) y) := by
  simp only [arithOperands, promote_ty ha, promote_ty hb, commonType_M]
  exact lower_coerce_value (uac sa sb) (promote_ty hb) (lower_promote_value hb hv hr) (inRange_promote hr)

/-! ### integer constants (`on_number`) -/

def fitsM (v : Int) (τ : MTy) : Bool := decide (v ≤ limitMax τ)

theorem pickType_of_find {v : Int} {l : List MTy} {τ : MTy} (h : l.find? (fitsM v) = some τ) : pickType v l = some τ := by
  induction l with
  | nil => simp at h
  | cons a l ih =>
    cases l with
    | nil =>
      simp only [List.find?] at h
      split at h
      · injection h with h; subst h; rfl
      · cases h
    | cons b l =>
      rw [List.find?_cons] at h
      unfold pickType
      split at h
      · rename_i hf; injection h with h; subst h
        have : v ≤ limitMax a := by simpa [fitsM] using hf
        simp [this]
      · rename_i hf
        have : ¬ v ≤ limitMax a := by simpa [fitsM] using hf
        simp only [this, if_false]
        exact ih h

theorem onNumber_of_find {d u : Bool} {l : Nat} {v : Nat} {τ : MTy}
    (h : (candidateTypes d u l).find? (fitsM v) = some τ) : onNumber d u l v = some (.num τ v) := by
  have hfit : fitsM v τ = true := List.find?_some h
  have h1 : (v : Int) ≤ limitMax τ := by simpa [fitsM] using hfit
  have h2 : ¬ ((v : Int) > limitMax τ) := by omega
  simp only [onNumber, pickType_of_find h, h2, if_false]

theorem inRange_nat (σ : STy) (v : Nat) : inRange σ (v : Int) = fitsM v (M σ) := by
  have hv : (0 : Int) ≤ (v : Int) := Int.natCast_nonneg v
  rw [Bool.eq_iff_iff]
  cases σ <;> simp [inRange, fitsM, limitMax, M, Model.CType.Ty.isSigned, Model.CType.Ty.size, Spec.CInt.Ty.minV,
    Spec.CInt.Ty.maxV, Spec.CInt.Ty.signed, Spec.CInt.Ty.bits]

theorem fits_mono (v : Int) : (fitsM v .int = true → fitsM v .uint = true) ∧ (fitsM v .uint = true → fitsM v .long = true) ∧
    (fitsM v .long = true → fitsM v .ulong = true) ∧ fitsM v .llong = fitsM v .long ∧ fitsM v .ullong = fitsM v .ulong := by
  simp [fitsM, limitMax, Model.CType.Ty.isSigned, Model.CType.Ty.size]; omega

theorem find_candidates (b : Base) (s : Suffix) (v : Nat) (σ : STy) (h : litType b s v = some σ) :
    (candidateTypes (decide (b = .dec)) (sufUnsigned s) (sufLongs s)).find? (fitsM v) = some (M σ) := by
  unfold litType at h
  simp only [inRange_nat] at h
  obtain ⟨h1, h2, h3, h4, h5⟩ := fits_mono v
  cases b <;> cases s <;>
    simp only [Spec.CInt.litCandidates, List.find?, M, h4, h5] at h <;>
    simp only [candidateTypes, sufUnsigned, sufLongs, List.drop, List.flatMap, List.map, List.flatten,
      decide_true, decide_false, Bool.not_true, Bool.not_false, Bool.or_true,
      Bool.or_false, Bool.true_or, Bool.false_or, if_true, if_false, List.append, List.nil_append, List.cons_append,
      reduceCtorEq, bne_iff_ne, ne_eq, not_true, not_false_eq_true, List.find?, h4, h5, Bool.false_eq_true] <;>
    generalize fitsM (↑v) Model.CType.Ty.int = p1 at * <;> generalize fitsM (↑v) Model.CType.Ty.uint = p2 at * <;>
    generalize fitsM (↑v) Model.CType.Ty.long = p3 at * <;> generalize fitsM (↑v) Model.CType.Ty.ulong = p4 at * <;>
    cases p1 <;> cases p2 <;> cases p3 <;> cases p4 <;> simp_all [M] <;> (subst_vars; rfl)

theorem onNumber_spec (b : Base) (s : Suffix) (v : Nat) (σ : STy) (h : litType b s v = some σ) :
    onNumber (decide (b = .dec) && decide (v ≠ 0)) (sufUnsigned s) (sufLongs s) v = some (.num (M σ) v) := by
  apply onNumber_of_find
  by_cases hv : v = 0
  · subst hv
    cases b <;> cases s <;>
      simp [litType, Spec.CInt.litCandidates, inRange, Spec.CInt.Ty.minV, Spec.CInt.Ty.maxV, Spec.CInt.Ty.signed,
        Spec.CInt.Ty.bits] at h <;> subst h <;> decide
  · simp only [hv, ne_eq, not_false_eq_true, decide_true, Bool.and_true]
    exact find_candidates b s v σ h

/-- `CContext.to_integer_type` is C's conversion -/
theorem toIntegerType_eq_convert (σ : STy) (v : Int) : toIntegerType (M σ) v = convert σ v := by
  cases σ <;>
    simp only [toIntegerType, wrapInteger, M, Model.CType.Ty.isSigned, Model.CType.Ty.size, convert, inRange,
      Spec.CInt.Ty.minV, Spec.CInt.Ty.maxV, Spec.CInt.Ty.signed, Spec.CInt.Ty.bits, Bool.and_eq_true,
      decide_eq_true_eq, ne_eq, if_true, if_false, Bool.false_eq_true, Nat.reduceMul, Nat.reduceSub, Int.reducePow,
      Int.reduceNeg, Int.reduceSub, true_and, false_and] <;>
    (repeat' split) <;> omega

/-! ### the invariant of the induction -/

/-- what the induction establishes for a subtree `e` of type `σ` elaborated to `t` -/
structure Sound (e : Expr) (σ : STy) (t : TExpr) : Prop where
  elab_ok : elaborate (toSrc e) = some t
  ty : t.ty = M σ
  value : ∀ (ρ : Env) (v : Int), eval ρ e = some v → ieval ρ (lower t) = some v
  cond : ∀ (ρ : Env) (v : Int), eval ρ e = some v → ceval ρ (lowerCond t) = some (decide (v ≠ 0))

/-- nodes whose condition code is `check_non_zero` of their value code -/
theorem Sound.ofPlain {e : Expr} {σ : STy} {t : TExpr} (h1 : elaborate (toSrc e) = some t) (h2 : t.ty = M σ)
    (h3 : ∀ (ρ : Env) (v : Int), eval ρ e = some v → ieval ρ (lower t) = some v)
    (h4 : lowerCond t = nonZero (lower t) t.ty) : Sound e σ t :=
  ⟨h1, h2, h3, fun ρ v hv => by rw [h4]; exact ceval_nonZero _ (h3 ρ v hv)⟩

theorem Sound.inRange {e σ t} (h : Sound e σ t) (hty : typeOf e = some σ) {ρ : Env} {v : Int} (hv : eval ρ e = some v) :
    inRange σ v = true := eval_inRange ρ e σ v hty hv

/-! ### leaves -/

theorem sound_var (τ : STy) (i : Nat) : Sound (.var τ i) τ (.var (M τ) i) := by
  refine Sound.ofPlain rfl rfl ?_ rfl
  intro ρ v hv
  simp only [eval] at hv
  split at hv
  · rename_i hr; injection hv with hv; subst hv
    rw [lower_var]; simp only [ieval]
    have : Spec.IRArith.InRange (I τ) (ρ i) := (inRange_iff τ _).mpr hr
    simp only [I] at this
    simp [this]
  · cases hv

theorem sound_lit (b : Base) (s : Suffix) (n : Nat) (σ : STy) (h : typeOf (.lit b s n) = some σ) :
    Sound (.lit b s n) σ (.num (M σ) n) := by
  simp only [typeOf] at h
  refine Sound.ofPlain ?_ rfl ?_ rfl
  · simp only [toSrc, elaborate]; exact onNumber_spec b s n σ h
  · intro ρ v hv
    simp only [eval, h, Option.map_some, Option.some.injEq] at hv; subst hv
    rw [lower_num]; simp only [ieval, evalConst_int]
    exact congrArg some (wrap_of_inRange (Proofs.CExpr.litType_inRange h))

theorem sound_chr (n : Nat) (σ : STy) (h : typeOf (.chr n) = some σ) :
    Sound (.chr n) σ (onChar n) := by
  simp only [typeOf] at h
  split at h
  · rename_i hn
    injection h with h; subst h
    refine Sound.ofPlain rfl rfl ?_ rfl
    intro ρ v hv
    simp only [eval, hn, if_true, Option.some.injEq] at hv; subst hv
    show ieval ρ (lower (.chr .int (toIntegerType .char n))) = _
    rw [lower_chr]; simp only [ieval, evalConst_int]
    have h1 : toIntegerType .char (n : Int) = convert .char n := toIntegerType_eq_convert .char n
    rw [h1]
    exact congrArg some (wrap_of_inRange (σ := .int) (Proofs.CExpr.char_sub_int (convert_inRange _ _)))
  · cases h

/-! ### casts and unary operators -/

theorem sound_cast (τ : STy) (a : Expr) (sa : STy) (ta : TExpr) (hta : typeOf a = some sa) (ha : Sound a sa ta) :
    Sound (.cast τ a) τ (.cast false (M τ) ta) := by
  refine Sound.ofPlain ?_ rfl ?_ rfl
  · simp only [toSrc, elaborate, ha.elab_ok, Option.map_some]
  · intro ρ v hv
    cases hea : eval ρ a with
    | none => simp [eval, hea] at hv
    | some x =>
      simp only [eval, hea, Option.map_some, Option.some.injEq] at hv; subst hv
      rw [lower_cast]; simp only [ieval, ha.value ρ x hea, evalCast_int]
      exact congrArg some (wrap_eq_convert τ x)

theorem sound_un (op : UnOp) (a : Expr) (sa : STy) (ta : TExpr) (hta : typeOf a = some sa) (ha : Sound a sa ta)
    (σ : STy) (h : typeOf (.un op a) = some σ) : ∃ t, Sound (.un op a) σ t := by
  have helab : elaborate (toSrc (.un op a)) = some (onUnop (unSym op) ta) := by
    simp only [toSrc, elaborate, ha.elab_ok, Option.map_some]
  cases op
  case lnot =>
    simp only [typeOf, hta, Option.map_some, Option.some.injEq] at h; subst h
    have hval : ∀ (ρ : Env) (v : Int), eval ρ (.un .lnot a) = some v →
        ceval ρ (.cnot (lowerCond ta)) = some (decide (v ≠ 0)) ∧ v = ofBool (decide (v ≠ 0)) := by
      intro ρ v hv
      cases hea : eval ρ a with
      | none => simp [eval, hta, hea] at hv
      | some x =>
        simp only [eval, hta, hea, if_true, evalUn, Option.some.injEq] at hv; subst hv
        simp only [ceval, ha.cond ρ x hea, Option.map_some]
        by_cases hx : x = 0 <;> simp [hx, ofBool]
    refine ⟨.un .bang .int ta, helab, rfl, ?_, ?_⟩
    · intro ρ v hv
      obtain ⟨h1, h2⟩ := hval ρ v hv
      rw [lower_bang, ieval_toInt _ h1, ← h2]
    · intro ρ v hv
      rw [lowerCond_bang]; exact (hval ρ v hv).1
  case plus =>
    simp only [typeOf, hta, Option.map_some, Option.some.injEq] at h; subst h
    refine ⟨Model.CType.promote ta, helab, promote_ty ha.ty, ?_, ?_⟩
    · intro ρ v hv
      cases hea : eval ρ a with
      | none => simp [eval, hta, hea] at hv
      | some x =>
        have hr := ha.inRange hta hea
        simp only [eval, hta, hea, reduceCtorEq, if_false, evalUn, Option.some.injEq] at hv; subst hv
        rw [convert_of_inRange (inRange_promote hr)]
        exact lower_promote_value ha.ty (ha.value ρ x hea) hr
    · intro ρ v hv
      cases hea : eval ρ a with
      | none => simp [eval, hta, hea] at hv
      | some x =>
        have hr := ha.inRange hta hea
        simp only [eval, hta, hea, reduceCtorEq, if_false, evalUn, Option.some.injEq] at hv; subst hv
        rw [convert_of_inRange (inRange_promote hr)]
        exact lowerCond_promote ha.ty (ha.value ρ x hea) (ha.cond ρ x hea) hr
  case neg =>
    simp only [typeOf, hta, Option.map_some, Option.some.injEq] at h; subst h
    have hty := promote_ty ha.ty
    have helab' : elaborate (toSrc (.un .neg a)) =
        some (.un .minus (Model.CType.promote ta).ty (Model.CType.promote ta)) := helab
    refine ⟨_, Sound.ofPlain helab' hty ?_ rfl⟩
    intro ρ v hv
    cases hea : eval ρ a with
    | none => simp [eval, hta, hea] at hv
    | some x =>
      have hr := ha.inRange hta hea
      simp only [eval, hta, hea, reduceCtorEq, if_false, evalUn] at hv
      rw [convert_of_inRange (inRange_promote hr)] at hv
      rw [lower_neg, hty]; simp only [ieval, lower_promote_value ha.ty (ha.value ρ x hea) hr, evalUnop_neg]
      exact congrArg some (arith_wrap hv)
  case bnot =>
    simp only [typeOf, hta, Option.map_some, Option.some.injEq] at h; subst h
    have hty := promote_ty ha.ty
    have helab' : elaborate (toSrc (.un .bnot a)) =
        some (.un .tilde (Model.CType.promote ta).ty (Model.CType.promote ta)) := helab
    refine ⟨_, Sound.ofPlain helab' hty ?_ rfl⟩
    intro ρ v hv
    cases hea : eval ρ a with
    | none => simp [eval, hta, hea] at hv
    | some x =>
      have hr := ha.inRange hta hea
      simp only [eval, hta, hea, reduceCtorEq, if_false, evalUn, Option.some.injEq] at hv
      rw [convert_of_inRange (inRange_promote hr)] at hv; subst hv
      rw [lower_bnot, hty]; simp only [ieval, lower_promote_value ha.ty (ha.value ρ x hea) hr, evalUnop_not]
      exact congrArg some (bnot_wrap (promote sa) x)

/-! ### binary operators -/

def BinOp.isCmp : BinOp → Bool
  | .lt | .gt | .le | .ge | .eq | .ne => true
  | _ => false

/-- operator tables of the two sides agree -/
theorem arith_ops {op : BinOp} (hop : op.isArith = true) :
    ∃ o o', irOp (binSym op) = some o ∧ o.arith? = some o' ∧ arithOp op = some o' := by
  cases op <;> cases hop <;> exact ⟨_, _, rfl, rfl, rfl⟩

theorem onBinop_arith {op : BinOp} (hop : op.isArith = true) (a b : TExpr) :
    onBinop (binSym op) a b = .bin (binSym op) (arithOperands a b).1 (arithOperands a b).2.1 (arithOperands a b).2.2 := by
  cases op <;> cases hop <;> rfl

theorem onBinop_cmp {op : BinOp} (hop : BinOp.isCmp op = true) (a b : TExpr) :
    onBinop (binSym op) a b = .bin (binSym op) .int (arithOperands a b).2.1 (arithOperands a b).2.2 := by
  cases op <;> cases hop <;> rfl

theorem onBinop_shift {op : BinOp} (hop : op.isShift = true) (a b : TExpr) :
    onBinop (binSym op) a b = .bin (binSym op) (commonType (Model.CType.promote a).ty (Model.CType.promote a).ty)
      (coerce (Model.CType.promote a) (commonType (Model.CType.promote a).ty (Model.CType.promote a).ty))
      (coerce (Model.CType.promote b) (commonType (Model.CType.promote a).ty (Model.CType.promote a).ty)) := by
  cases op <;> cases hop <;> rfl

theorem spec_eval_bin {op : BinOp} (hl : op ≠ .land) (ho : op ≠ .lor) {ρ : Env} {a b : Expr} {sa sb : STy}
    (hta : typeOf a = some sa) (htb : typeOf b = some sb) {v : Int} (hv : eval ρ (.bin op a b) = some v) :
    ∃ x y, eval ρ a = some x ∧ eval ρ b = some y ∧
      (if op.isArith then evalArith op (uac sa sb) (convert (uac sa sb) x) (convert (uac sa sb) y)
       else if op.isShift then evalShift op (promote sa) (convert (promote sa) x) y
       else evalCmp op (convert (uac sa sb) x) (convert (uac sa sb) y)) = some v := by
  cases hea : eval ρ a with
  | none => cases op <;> simp [eval, hta, htb, hea] at hv hl ho
  | some x =>
    cases heb : eval ρ b with
    | none => cases op <;> simp [eval, hta, htb, hea, heb] at hv hl ho
    | some y =>
      refine ⟨x, y, rfl, rfl, ?_⟩
      cases op <;> simp only [eval, hta, htb, hea, heb] at hv <;> first | exact hv | exact absurd rfl hl | exact absurd rfl ho

theorem sound_bin_arith {op : BinOp} (hop : op.isArith = true) (a b : Expr) (sa sb : STy) (ta tb : TExpr)
    (hta : typeOf a = some sa) (htb : typeOf b = some sb) (ha : Sound a sa ta) (hb : Sound b sb tb) :
    ∃ t, Sound (.bin op a b) (uac sa sb) t := by
  obtain ⟨o, o', ho1, ho2, ho3⟩ := arith_ops hop
  have helab : elaborate (toSrc (.bin op a b)) = some (onBinop (binSym op) ta tb) := by
    simp only [toSrc, elaborate, ha.elab_ok, hb.elab_ok]
  rw [onBinop_arith hop] at helab
  have hty := arithOperands_ty (a := ta) (b := tb) ha.ty hb.ty
  have hl : op ≠ .land := by rintro rfl; cases hop
  have hor : op ≠ .lor := by rintro rfl; cases hop
  refine ⟨_, Sound.ofPlain helab hty ?_ (lower_arith ho1 _ _ _).2⟩
  intro ρ v hv
  obtain ⟨x, y, hea, heb, hv⟩ := spec_eval_bin hl hor hta htb hv
  simp only [hop, if_true] at hv
  rw [(lower_arith ho1 _ _ _).1, hty]
  simp only [ieval, arithOperands_evalL ha.ty hb.ty (ha.value ρ x hea) (ha.inRange hta hea),
    arithOperands_evalR ha.ty hb.ty (hb.value ρ y heb) (hb.inRange htb heb), evalBinop_int _ _ _ ho2]
  exact arith_binop ho3 (convert_inRange _ _) (convert_inRange _ _) hv

theorem cmp_ops {op : BinOp} (hop : BinOp.isCmp op = true) (x y : Int) :
    ∃ cnd, irCond (binSym op) = some cnd ∧
      ∃ b : Bool, boolOf (Spec.IR.evalCond cnd (.int x) (.int y)) = some b ∧ evalCmp op x y = some (ofBool b) := by
  have hbeq : ∀ a b : Int, (a == b) = decide (a = b) := fun a b => by rw [Bool.eq_iff_iff]; simp
  cases op <;> cases hop <;> exact ⟨_, rfl, _, rfl, by simp [evalCmp, hbeq, bne]⟩

theorem sound_bin_cmp {op : BinOp} (hop : BinOp.isCmp op = true) (a b : Expr) (sa sb : STy) (ta tb : TExpr)
    (hta : typeOf a = some sa) (htb : typeOf b = some sb) (ha : Sound a sa ta) (hb : Sound b sb tb) :
    ∃ t, Sound (.bin op a b) .int t := by
  have helab : elaborate (toSrc (.bin op a b)) = some (onBinop (binSym op) ta tb) := by
    simp only [toSrc, elaborate, ha.elab_ok, hb.elab_ok]
  rw [onBinop_cmp hop] at helab
  have hl : op ≠ .land := by rintro rfl; cases hop
  have hor : op ≠ .lor := by rintro rfl; cases hop
  have hna : op.isArith = false := by cases op <;> cases hop <;> rfl
  have hns : op.isShift = false := by cases op <;> cases hop <;> rfl
  have key : ∀ (ρ : Env) (v : Int), eval ρ (.bin op a b) = some v →
      ∃ cnd bb, irCond (binSym op) = some cnd ∧
        ceval ρ (.cjump (lower (arithOperands ta tb).2.1) cnd (lower (arithOperands ta tb).2.2)) = some bb ∧ v = ofBool bb := by
    intro ρ v hv
    obtain ⟨x, y, hea, heb, hv⟩ := spec_eval_bin hl hor hta htb hv
    simp only [hna, hns, Bool.false_eq_true, if_false] at hv
    obtain ⟨cnd, hc, bb, h1, h2⟩ := cmp_ops hop (convert (uac sa sb) x) (convert (uac sa sb) y)
    refine ⟨cnd, bb, hc, ?_, ?_⟩
    · simp only [ceval, arithOperands_evalL ha.ty hb.ty (ha.value ρ x hea) (ha.inRange hta hea),
        arithOperands_evalR ha.ty hb.ty (hb.value ρ y heb) (hb.inRange htb heb)]
      exact h1
    · rw [h2] at hv; injection hv with hv; exact hv.symm
  refine ⟨_, helab, rfl, ?_, ?_⟩
  · intro ρ v hv
    obtain ⟨cnd, bb, hc, h1, h2⟩ := key ρ v hv
    rw [(lower_cmp hc _ _ _).1, ieval_toInt _ h1, h2]
  · intro ρ v hv
    obtain ⟨cnd, bb, hc, h1, h2⟩ := key ρ v hv
    rw [(lower_cmp hc _ _ _).2, h1, h2, ofBool_ne_zero]

theorem evalShift_count {op : BinOp} {σ : STy} {x c v : Int} (h : evalShift op σ x c = some v) :
    0 ≤ c ∧ c < σ.bits := by
  unfold evalShift at h
  split at h
  · cases h
  · omega

theorem shift_ops {op : BinOp} (hop : op.isShift = true) :
    ∃ o o', irOp (binSym op) = some o ∧ o.arith? = some o' ∧ ((op = .shl ∧ o' = .shl) ∨ (op = .shr ∧ o' = .shr)) := by
  cases op <;> cases hop <;> exact ⟨_, _, rfl, rfl, by simp⟩

theorem sound_bin_shift {op : BinOp} (hop : op.isShift = true) (a b : Expr) (sa sb : STy) (ta tb : TExpr)
    (hta : typeOf a = some sa) (htb : typeOf b = some sb) (ha : Sound a sa ta) (hb : Sound b sb tb) :
    ∃ t, Sound (.bin op a b) (promote sa) t := by
  obtain ⟨o, o', ho1, ho2, ho3⟩ := shift_ops hop
  have helab : elaborate (toSrc (.bin op a b)) = some (onBinop (binSym op) ta tb) := by
    simp only [toSrc, elaborate, ha.elab_ok, hb.elab_ok]
  rw [onBinop_shift hop, promote_ty ha.ty, commonType_self] at helab
  have hl : op ≠ .land := by rintro rfl; cases hop
  have hor : op ≠ .lor := by rintro rfl; cases hop
  have hna : op.isArith = false := by cases op <;> cases hop <;> rfl
  refine ⟨_, Sound.ofPlain helab rfl ?_ (lower_arith ho1 _ _ _).2⟩
  intro ρ v hv
  obtain ⟨x, y, hea, heb, hv⟩ := spec_eval_bin hl hor hta htb hv
  simp only [hna, hop, Bool.false_eq_true, if_false, if_true] at hv
  have hrx := ha.inRange hta hea
  have hry := hb.inRange htb heb
  obtain ⟨hc0, hc1⟩ := evalShift_count hv
  rw [convert_of_inRange (inRange_promote hrx)] at hv
  have hL : ieval ρ (lower (coerce (Model.CType.promote ta) (M (promote sa)))) = some x := by
    have := lower_coerce_value (promote sa) (promote_ty ha.ty) (lower_promote_value ha.ty (ha.value ρ x hea) hrx)
      (inRange_promote hrx)
    rw [convert_of_inRange (inRange_promote hrx)] at this; exact this
  have hR : ieval ρ (lower (coerce (Model.CType.promote tb) (M (promote sa)))) = some y := by
    have := lower_coerce_value (promote sa) (promote_ty hb.ty) (lower_promote_value hb.ty (hb.value ρ y heb) hry)
      (inRange_promote hry)
    rw [count_convert (promote sa) (promote sa) hc0 hc1] at this; exact this
  rw [(lower_arith ho1 _ _ _).1]
  simp only [ieval, hL, hR, evalBinop_int _ _ _ ho2]
  exact shift_binop ho3 (inRange_promote hrx) hv

theorem sound_land (a b : Expr) (sa sb : STy) (ta tb : TExpr)
    (hta : typeOf a = some sa) (htb : typeOf b = some sb) (ha : Sound a sa ta) (hb : Sound b sb tb) :
    Sound (.bin .land a b) .int (.bin .andand .int ta tb) := by
  have helab : elaborate (toSrc (.bin .land a b)) = some (.bin .andand .int ta tb) := by
    simp only [toSrc, elaborate, ha.elab_ok, hb.elab_ok]; rfl
  have key : ∀ (ρ : Env) (v : Int), eval ρ (.bin .land a b) = some v →
      ∃ bb, ceval ρ (.cand (lowerCond ta) (lowerCond tb)) = some bb ∧ v = ofBool bb := by
    intro ρ v hv
    cases hea : eval ρ a with
    | none => simp [eval, hta, htb, hea] at hv
    | some x =>
      simp only [eval, hta, htb, hea] at hv
      by_cases hx : x = 0
      · simp only [hx, if_true, Option.some.injEq] at hv; subst hv
        exact ⟨false, by simp [ceval, ha.cond ρ x hea, hx], rfl⟩
      · simp only [hx, if_false] at hv
        cases heb : eval ρ b with
        | none => simp [heb] at hv
        | some y =>
          simp only [heb, Option.map_some, Option.some.injEq] at hv; subst hv
          exact ⟨decide (y ≠ 0), by simp [ceval, ha.cond ρ x hea, hx, hb.cond ρ y heb], rfl⟩
  refine ⟨helab, rfl, ?_, ?_⟩
  · intro ρ v hv
    obtain ⟨bb, h1, h2⟩ := key ρ v hv
    rw [lower_andand, ieval_toInt _ h1, h2]
  · intro ρ v hv
    obtain ⟨bb, h1, h2⟩ := key ρ v hv
    rw [lowerCond_andand, h1, h2, ofBool_ne_zero]

theorem sound_lor (a b : Expr) (sa sb : STy) (ta tb : TExpr)
    (hta : typeOf a = some sa) (htb : typeOf b = some sb) (ha : Sound a sa ta) (hb : Sound b sb tb) :
    Sound (.bin .lor a b) .int (.bin .oror .int ta tb) := by
  have helab : elaborate (toSrc (.bin .lor a b)) = some (.bin .oror .int ta tb) := by
    simp only [toSrc, elaborate, ha.elab_ok, hb.elab_ok]; rfl
  have key : ∀ (ρ : Env) (v : Int), eval ρ (.bin .lor a b) = some v →
      ∃ bb, ceval ρ (.cor (lowerCond ta) (lowerCond tb)) = some bb ∧ v = ofBool bb := by
    intro ρ v hv
    cases hea : eval ρ a with
    | none => simp [eval, hta, htb, hea] at hv
    | some x =>
      simp only [eval, hta, htb, hea] at hv
      by_cases hx : x = 0
      · simp only [hx, ne_eq, not_true, if_false] at hv
        cases heb : eval ρ b with
        | none => simp [heb] at hv
        | some y =>
          simp only [heb, Option.map_some, Option.some.injEq] at hv; subst hv
          exact ⟨decide (y ≠ 0), by simp [ceval, ha.cond ρ x hea, hx, hb.cond ρ y heb], rfl⟩
      · simp only [hx, ne_eq, not_false_eq_true, if_true, Option.some.injEq] at hv; subst hv
        exact ⟨true, by simp [ceval, ha.cond ρ x hea, hx], rfl⟩
  refine ⟨helab, rfl, ?_, ?_⟩
  · intro ρ v hv
    obtain ⟨bb, h1, h2⟩ := key ρ v hv
    rw [lower_oror, ieval_toInt _ h1, h2]
  · intro ρ v hv
    obtain ⟨bb, h1, h2⟩ := key ρ v hv
    rw [lowerCond_oror, h1, h2, ofBool_ne_zero]

/-! ### `?:` -/

theorem onTernop_eq (c a b : TExpr) :
    onTernop c a b = .tern (arithOperands a b).1 c (arithOperands a b).2.1 (arithOperands a b).2.2 := rfl

theorem sound_cond (c a b : Expr) (sc sa sb : STy) (tc ta tb : TExpr)
    (htc : typeOf c = some sc) (hta : typeOf a = some sa) (htb : typeOf b = some sb)
    (hc : Sound c sc tc) (ha : Sound a sa ta) (hb : Sound b sb tb) :
    ∃ t, Sound (.cond c a b) (uac sa sb) t := by
  have helab : elaborate (toSrc (.cond c a b)) = some (onTernop tc ta tb) := by
    simp only [toSrc, elaborate, hc.elab_ok, ha.elab_ok, hb.elab_ok]
  rw [onTernop_eq] at helab
  have hty := arithOperands_ty (a := ta) (b := tb) ha.ty hb.ty
  refine ⟨_, Sound.ofPlain helab hty ?_ rfl⟩
  intro ρ v hv
  cases hec : eval ρ c with
  | none => simp [eval, htc, hta, htb, hec] at hv
  | some x =>
    simp only [eval, htc, hta, htb, hec] at hv
    rw [lower_tern]
    simp only [ieval, hc.cond ρ x hec]
    by_cases hx : x = 0
    · simp only [hx, ne_eq, not_true, if_false, decide_false, Bool.false_eq_true] at hv ⊢
      cases heb : eval ρ b with
      | none => simp [heb] at hv
      | some y =>
        simp only [heb, Option.map_some, Option.some.injEq] at hv; subst hv
        exact arithOperands_evalR ha.ty hb.ty (hb.value ρ y heb) (hb.inRange htb heb)
    · simp only [hx, ne_eq, not_false_eq_true, if_true, decide_true] at hv ⊢
      cases hea : eval ρ a with
      | none => simp [hea] at hv
      | some y =>
        simp only [hea, Option.map_some, Option.some.injEq] at hv; subst hv
        exact arithOperands_evalL ha.ty hb.ty (ha.value ρ y hea) (ha.inRange hta hea)

/-! ### the induction -/

/-- the expression contains no `sizeof` -/
def NoSizeof : Expr → Prop
  | .var _ _ | .lit _ _ _ | .chr _ => True
  | .szof _ => False
  | .un _ a => NoSizeof a
  | .bin _ a b => NoSizeof a ∧ NoSizeof b
  | .cond c a b => NoSizeof c ∧ NoSizeof a ∧ NoSizeof b
  | .cast _ a => NoSizeof a

theorem binop_cases (op : BinOp) :
    op.isArith = true ∨ op.isShift = true ∨ BinOp.isCmp op = true ∨ op = .land ∨ op = .lor := by
  cases op <;> simp [BinOp.isArith, BinOp.isShift, BinOp.isCmp]

theorem sound_partial : ∀ (e : Expr) (σ : STy), NoSizeof e → typeOf e = some σ → ∃ t, Sound e σ t := by
  intro e
  induction e with
  | var τ i =>
    intro σ _ h
    simp only [typeOf, Option.some.injEq] at h; subst h
    exact ⟨_, sound_var τ i⟩
  | lit b s n => intro σ _ h; exact ⟨_, sound_lit b s n σ h⟩
  | chr n => intro σ _ h; exact ⟨_, sound_chr n σ h⟩
  | szof n => intro σ hn _; exact absurd hn (by simp [NoSizeof])
  | un op a ih =>
    intro σ hn h
    cases hta : typeOf a with
    | none => cases op <;> simp [typeOf, hta] at h
    | some sa =>
      obtain ⟨ta, ha⟩ := ih sa hn hta
      exact sound_un op a sa ta hta ha σ h
  | bin op a b iha ihb =>
    intro σ hn h
    cases hta : typeOf a with
    | none => simp [typeOf, hta] at h
    | some sa =>
      cases htb : typeOf b with
      | none => simp [typeOf, hta, htb] at h
      | some sb =>
        obtain ⟨ta, ha⟩ := iha sa hn.1 hta
        obtain ⟨tb, hb⟩ := ihb sb hn.2 htb
        simp only [typeOf, hta, htb] at h
        rcases binop_cases op with hop | hop | hop | hop | hop
        · simp only [hop, if_true, Option.some.injEq] at h; subst h
          exact sound_bin_arith hop a b sa sb ta tb hta htb ha hb
        · have hna : op.isArith = false := by cases op <;> cases hop <;> rfl
          simp only [hna, hop, Bool.false_eq_true, if_false, if_true, Option.some.injEq] at h; subst h
          exact sound_bin_shift hop a b sa sb ta tb hta htb ha hb
        · have hna : op.isArith = false := by cases op <;> cases hop <;> rfl
          have hns : op.isShift = false := by cases op <;> cases hop <;> rfl
          simp only [hna, hns, Bool.false_eq_true, if_false, Option.some.injEq] at h; subst h
          exact sound_bin_cmp hop a b sa sb ta tb hta htb ha hb
        · subst hop
          simp only [BinOp.isArith, BinOp.isShift, Bool.false_eq_true, if_false, Option.some.injEq] at h; subst h
          exact ⟨_, sound_land a b sa sb ta tb hta htb ha hb⟩
        · subst hop
          simp only [BinOp.isArith, BinOp.isShift, Bool.false_eq_true, if_false, Option.some.injEq] at h; subst h
          exact ⟨_, sound_lor a b sa sb ta tb hta htb ha hb⟩
  | cond c a b ihc iha ihb =>
    intro σ hn h
    cases htc : typeOf c with
    | none => simp [typeOf, htc] at h
    | some sc =>
      cases hta : typeOf a with
      | none => simp [typeOf, htc, hta] at h
      | some sa =>
        cases htb : typeOf b with
        | none => simp [typeOf, htc, hta, htb] at h
        | some sb =>
          obtain ⟨tc, hc⟩ := ihc sc hn.1 htc
          obtain ⟨ta, ha⟩ := iha sa hn.2.1 hta
          obtain ⟨tb, hb⟩ := ihb sb hn.2.2 htb
          simp only [typeOf, htc, hta, htb, Option.some.injEq] at h; subst h
          exact sound_cond c a b sc sa sb tc ta tb htc hta htb hc ha hb
  | cast τ a ih =>
    intro σ hn h
    cases hta : typeOf a with
    | none => simp [typeOf, hta] at h
    | some sa =>
      obtain ⟨ta, ha⟩ := ih sa hn hta
      simp only [typeOf, hta, Option.map_some, Option.some.injEq] at h; subst h
      exact ⟨_, sound_cast τ a sa ta hta ha⟩

end Proofs.CLower
