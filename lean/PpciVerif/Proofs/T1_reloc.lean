import PpciVerif.Model.Reloc
import PpciVerif.Proofs.T1_bitfun
/-!
T1 translation tie for relocation bodies (`calc` / `apply`): shared lemmas.

* `Gen.Py_bitfun.wrap_negative` (translated from bitfun.py) = `Model.Reloc.wrapNegative` for `bits ≥ 1`;
* the primitive `PyRt.bvSet` (`BitView(data, 0, L)[a:b] = v`) = `Model.Reloc.bvSet` on byte lists;
* lifting of `Except Model.Token.Err (List Nat)` results into the translated world.
`Model.Token.Err.KeyError` is the hand model's stand-in for Python's `IndexError` on a short buffer.
-/
set_option linter.unusedSimpArgs false
namespace Proofs.T1.Reloc
open Model Model.PyRt Model.Reloc Proofs.T1

def errOf : Model.Token.Err → PyErr
  | .ValueError => .ValueError | .AssertionError => .AssertionError | .TypeError => .TypeError
  | .KeyError => .IndexError | .AttributeError => .AttributeError

def ints (l : List Nat) : List Int := l.map Int.ofNat
@[simp] theorem ints_nil : ints [] = [] := rfl
@[simp] theorem ints_cons (a : Nat) (l : List Nat) : ints (a :: l) = (a : Int) :: ints l := rfl
@[simp] theorem ints_length (l : List Nat) : (ints l).length = l.length := by simp [ints]

def liftI : Except Model.Token.Err Int → Except PyErr Int
  | .ok v => .ok v
  | .error e => .error (errOf e)

def liftL : Except Model.Token.Err (List Nat) → Except PyErr (List Int)
  | .ok l => .ok (ints l)
  | .error e => .error (errOf e)

/-- sequencing commutes with the lifting -/
theorem liftL_bind (x : Except Model.Token.Err (List Nat)) (g : List Nat → Except Model.Token.Err (List Nat))
    (f : List Int → Except PyErr (List Int)) (h : ∀ d, f (ints d) = liftL (g d)) :
    PyRt.bind (liftL x) f = liftL (x >>= g) := by
  cases x with
  | error e => rfl
  | ok d => exact h d

theorem liftI_bind (x : Except Model.Token.Err Int) (g : Int → Except Model.Token.Err (List Nat))
    (f : Int → Except PyErr (List Int)) (h : ∀ v, f v = liftL (g v)) :
    PyRt.bind (liftI x) f = liftL (x >>= g) := by
  cases x with
  | error e => rfl
  | ok d => exact h d

theorem assert_bind {α : Type} (c : Bool) (g : Unit → Except Model.Token.Err α) :
    (Model.Reloc.assert c >>= g) = if c then g () else .error .AssertionError := by
  cases c <;> rfl

/-! ### wrap_negative -/

theorem gen_wrap_negative (fuel : Nat) (v : Int) (bits : Nat) (hb : 1 ≤ bits) :
    Gen.Py_bitfun.wrap_negative fuel v (bits : Int) = liftI (Model.Reloc.wrapNegative v bits) := by
  rw [Proofs.T1.Bitfun.gen_wrap_negative_eq_model]
  unfold Model.Bitfun.wrapNegative Model.Reloc.wrapNegative
  have hb' : bits ≠ 0 := by omega
  have h0 : 0 ≤ v % 2 ^ bits := Int.emod_nonneg _ (Proofs.Bits.pow_ne bits)
  simp only [hb', if_false, Proofs.PyInt.and_mask]
  split
  · rfl
  · simp [h0, Proofs.T1.Bitfun.liftI, liftI]

/-! ### BitView slice assignment -/

theorem fromLE_ints (d : List Nat) : PyRt.fromLE (ints d) = Model.Reloc.fromLE d := by
  induction d with
  | nil => rfl
  | cons b bs ih => simp [PyRt.fromLE, Model.Reloc.fromLE, ih]

theorem toLE_ints (k x : Nat) : PyRt.toLE k x = ints (Model.Reloc.toLE k x) := by
  induction k generalizing x with
  | zero => rfl
  | succ k ih => simp [PyRt.toLE, Model.Reloc.toLE, ih]

theorem bvSet_ints (d : List Nat) (L a b : Nat) (v : Int) :
    PyRt.bvSet (ints d) L a b v = liftL (Model.Reloc.bvSet d L a b v) := by
  unfold PyRt.bvSet Model.Reloc.bvSet
  simp only [ints_length, fromLE_ints, toLE_ints]
  split
  · rfl
  · split
    · rfl
    · split
      · rfl
      · split
        · rfl
        · rfl

end Proofs.T1.Reloc
