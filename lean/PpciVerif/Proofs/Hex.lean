import PpciVerif.Model.Hex
import PpciVerif.Spec.IHex
/-! Helper lemmas for C18 (Intel HEX): hex text, record round trip, the chunk loop of
`save` against the specification reader and against `load`, order-independence of
`add_region` through cell-level invariants, uniqueness of the normal form. -/
namespace Proofs.Hex
open Spec.IHex
open Model.Hex (HexLine HexFile toLine fromLine lineBytes hexlify linesOf saveChunks saveRegion saveRegions saveRecords save
  pack16 pack32 chunksF chunks30 extOf insertRegion sortRegions coalesceFrom coalesce check addRegion build
  LoadState loadRec loadRecs loadLines load)

/-! ### hex text -/

theorem spec_hexVal_hexDigit : ∀ n, n < 16 → Spec.IHex.hexVal (Model.Hex.hexDigit n) = some n := by decide
theorem model_hexVal_hexDigit : ∀ n, n < 16 → Model.Hex.hexVal (Model.Hex.hexDigit n) = some n := by decide

theorem hexBytes_hexlify : ∀ bs : List Nat, (∀ b ∈ bs, b < 256) → hexBytes (Model.Hex.hexlify bs) = some bs
  | [], _ => by simp [Model.Hex.hexlify, hexBytes]
  | b :: bs, h => by
    have hb : b < 256 := h b (by simp)
    have ih := hexBytes_hexlify bs (fun x hx => h x (by simp [hx]))
    simp only [Model.Hex.hexlify, hexBytes, ih]
    rw [spec_hexVal_hexDigit (b / 16) (by omega), spec_hexVal_hexDigit (b % 16) (by omega)]
    simp; omega

theorem unhex_hexlify : ∀ bs : List Nat, (∀ b ∈ bs, b < 256) → Model.Hex.unhex (Model.Hex.hexlify bs) = some bs
  | [], _ => by simp [Model.Hex.hexlify, Model.Hex.unhex]
  | b :: bs, h => by
    have hb : b < 256 := h b (by simp)
    have ih := unhex_hexlify bs (fun x hx => h x (by simp [hx]))
    simp only [Model.Hex.hexlify, Model.Hex.unhex, ih]
    rw [model_hexVal_hexDigit (b / 16) (by omega), model_hexVal_hexDigit (b % 16) (by omega)]
    simp; omega

/-! ### one record -/

/-- a record `to_line` can print -/
def WfLine (hl : HexLine) : Prop :=
  hl.address < 65536 ∧ hl.typ < 256 ∧ hl.data.length ≤ 255 ∧ ∀ b ∈ hl.data, b < 256

def toSpec (hl : HexLine) : Record := ⟨hl.address, hl.typ, hl.data⟩

theorem toLine_ok {hl : HexLine} (h : WfLine hl) : toLine hl = .ok (':' :: hexlify (lineBytes hl)) := by
  obtain ⟨h1, h2, h3, _⟩ := h
  unfold toLine
  rw [if_neg (by omega), if_neg (by omega), if_neg (by omega)]

theorem lineBytes_bytes {hl : HexLine} (h : WfLine hl) : ∀ b ∈ lineBytes hl, b < 256 := by
  obtain ⟨h1, h2, h3, h4⟩ := h
  intro b hb
  simp only [lineBytes, List.mem_append, List.mem_cons, List.cons_append, List.nil_append, List.not_mem_nil, or_false] at hb
  rcases hb with hb | hb | hb | hb | hb | hb
  · omega
  · omega
  · omega
  · omega
  · exact h4 b hb
  · omega

theorem parseRecord_toLine {hl : HexLine} (h : WfLine hl) :
    parseRecord (':' :: hexlify (lineBytes hl)) = some (toSpec hl) := by
  have hb := lineBytes_bytes h
  simp only [parseRecord, hexBytes_hexlify _ hb]
  simp only [lineBytes, List.cons_append, List.nil_append, List.sum_cons, List.sum_append, List.sum_nil,
    List.length_append, List.length_cons, List.length_nil, List.dropLast_concat, toSpec]
  obtain ⟨h1, h2, h3, h4⟩ := h
  rw [if_pos]
  · congr 1; congr 1; omega
  · refine ⟨trivial, ?_⟩
    omega

theorem fromLine_toLine {hl : HexLine} (h : WfLine hl) :
    fromLine (':' :: hexlify (lineBytes hl)) = .ok hl := by
  have hb := lineBytes_bytes h
  simp only [fromLine, unhex_hexlify _ hb]
  simp only [lineBytes, List.cons_append, List.nil_append, List.sum_cons, List.sum_append, List.sum_nil,
    List.length_append, List.length_cons, List.length_nil, List.dropLast_concat]
  obtain ⟨h1, h2, h3, h4⟩ := h
  rw [if_neg (by omega), if_neg (by omega)]
  congr 1
  cases hl; simp at *; omega


/-! ### cells -/
theorem cellsOf_append (a : Nat) (d1 d2 : List Nat) :
    cellsOf a (d1 ++ d2) = cellsOf a d1 ++ cellsOf (a + d1.length) d2 := by
  induction d1 generalizing a with
  | nil => simp [cellsOf]
  | cons b bs ih => simp [cellsOf, ih, Nat.add_assoc, Nat.add_comm 1]

theorem linCells_eq (a : Nat) (d : List Nat) (h : a + d.length ≤ 4294967296) : linCells a d = cellsOf a d := by
  induction d generalizing a with
  | nil => simp [linCells, cellsOf]
  | cons b bs ih =>
    simp only [List.length_cons] at h
    simp only [linCells, cellsOf]
    rw [ih (a + 1) (by omega), Nat.mod_eq_of_lt (by omega)]

theorem cells_append (a b : List Region) : cells (a ++ b) = cells a ++ cells b := by
  induction a with
  | nil => simp [cells]
  | cons r rs ih => simp [cells, ih]

/-! ### chunks -/
theorem chunksF_spec : ∀ (fuel : Nat) (d : List Nat), d.length ≤ fuel →
    (chunksF fuel d).flatten = d ∧ ∀ c ∈ chunksF fuel d, c ≠ [] ∧ c.length ≤ 30 ∧ ∀ b ∈ c, b ∈ d
  | 0, d, h => by
    have : d = [] := List.eq_nil_of_length_eq_zero (by omega)
    subst this; simp [chunksF]
  | fuel + 1, d, h => by
    unfold chunksF
    split
    · next hd => subst hd; simp
    · next hd =>
      have hl : (d.drop 30).length ≤ fuel := by
        have : d.length ≠ 0 := fun h0 => hd (List.eq_nil_of_length_eq_zero h0)
        simp only [List.length_drop]; omega
      obtain ⟨ih1, ih2⟩ := chunksF_spec fuel (d.drop 30) hl
      refine ⟨by simp [ih1], ?_⟩
      intro c hc
      simp only [List.mem_cons] at hc
      rcases hc with rfl | hc
      · refine ⟨?_, by simp [List.length_take]; omega, fun b hb => List.mem_of_mem_take hb⟩
        intro h0
        have := congrArg List.length h0
        simp [List.length_take] at this
        cases d with
        | nil => exact hd rfl
        | cons x xs => simp at this
      · obtain ⟨h1, h2, h3⟩ := ih2 c hc
        exact ⟨h1, h2, fun b hb => List.mem_of_mem_drop (h3 b hb)⟩

theorem chunks30_spec (d : List Nat) :
    (chunks30 d).flatten = d ∧ ∀ c ∈ chunks30 d, c ≠ [] ∧ c.length ≤ 30 ∧ ∀ b ∈ c, b ∈ d :=
  chunksF_spec d.length d (Nat.le_refl _)

/-- value of `ext` when the chunk loop ends -/
def finalExt (ext address : Nat) : List (List Nat) → Nat
  | [] => ext
  | c :: rest =>
    if address ≥ 65536 then finalExt (ext + 65536) (address - 65536 + c.length) rest
    else finalExt ext (address + c.length) rest

def prepend (cs : List (Nat × Nat)) : Option Image → Option Image
  | some img => some { img with mem := cs ++ img.mem }
  | none => none

theorem prepend_prepend (a b : List (Nat × Nat)) (o : Option Image) : prepend a (prepend b o) = prepend (a ++ b) o := by
  cases o <;> simp [prepend]

theorem prepend_nil (o : Option Image) : prepend [] o = o := by
  cases o <;> simp [prepend]

theorem beVal_pack16 (v : Nat) : beVal [v / 256, v % 256] = v := by
  simp [beVal]; omega

theorem run_data (base off : Nat) (d : List Nat) (rest : List Record) :
    run base false (⟨off, 0, d⟩ :: rest) = prepend (linCells (base + off) d) (run base false rest) := by
  simp only [run]
  cases run base false rest <;> simp [prepend]

theorem run_ext (base : Nat) (seg : Bool) (v : Nat) (rest : List Record) :
    run base seg (⟨0, 4, [v / 256, v % 256]⟩ :: rest) = run (v * 65536) false rest := by
  simp only [run]
  have := beVal_pack16 v
  simp [this]

def ChunksOK (cs : List (List Nat)) : Prop := ∀ c ∈ cs, c ≠ [] ∧ c.length ≤ 30 ∧ ∀ b ∈ c, b < 256


theorem pack16_ok (v : Nat) (h : v < 65536) : pack16 v = .ok [v / 256, v % 256] := by
  unfold pack16; rw [if_pos h]

/-! ### normal forms as Pairwise -/

/-- strictly separated -/
def Gap (a b : Region) : Prop := a.1 + a.2.length < b.1
/-- not overlapping, ascending -/
def Before (a b : Region) : Prop := a.1 + a.2.length ≤ b.1

theorem nf_iff (l : List Region) : NF l ↔ l.Pairwise Gap ∧ ∀ r ∈ l, r.2 ≠ [] := by
  induction l with
  | nil => simp [NF]
  | cons a t ih =>
    cases t with
    | nil => simp [NF]
    | cons b t' =>
      simp only [NF, ih]
      constructor
      · rintro ⟨ha, hab, hp, hne⟩
        refine ⟨?_, ?_⟩
        · rw [List.pairwise_cons]
          refine ⟨?_, hp⟩
          intro x hx
          simp only [List.mem_cons] at hx
          rcases hx with rfl | hx
          · exact hab
          · have := (List.pairwise_cons.mp hp).1 x hx
            simp only [Gap] at *; omega
        · intro r hr
          simp only [List.mem_cons] at hr
          rcases hr with rfl | hr
          · exact ha
          · exact hne r (by simp only [List.mem_cons]; exact hr)
      · rintro ⟨hp, hne⟩
        rw [List.pairwise_cons] at hp
        exact ⟨hne a (by simp), hp.1 b (by simp), hp.2, fun r hr => hne r (by simp [hr])⟩

/-! ### the stable sort -/

theorem insertRegion_perm (r : Region) (l : List Region) : (insertRegion r l).Perm (r :: l) := by
  induction l with
  | nil => simp [insertRegion]
  | cons x xs ih =>
    simp only [insertRegion]
    split
    · exact List.Perm.refl _
    · exact (List.Perm.cons x ih).trans (List.Perm.swap r x xs)

theorem sortRegions_perm (l : List Region) : (sortRegions l).Perm l := by
  induction l with
  | nil => simp [sortRegions]
  | cons r rs ih => exact (insertRegion_perm r _).trans (List.Perm.cons r ih)

def AddrLe (a b : Region) : Prop := a.1 ≤ b.1

theorem insertRegion_sorted (r : Region) (l : List Region) (h : l.Pairwise AddrLe) :
    (insertRegion r l).Pairwise AddrLe := by
  induction l with
  | nil => simp [insertRegion]
  | cons x xs ih =>
    simp only [insertRegion]
    rw [List.pairwise_cons] at h
    split
    · next hle =>
      rw [List.pairwise_cons]
      refine ⟨?_, List.pairwise_cons.mpr h⟩
      intro y hy
      simp only [List.mem_cons] at hy
      rcases hy with rfl | hy
      · exact hle
      · have := h.1 y hy; simp only [AddrLe] at *; omega
    · next hgt =>
      rw [List.pairwise_cons]
      refine ⟨?_, ih h.2⟩
      intro y hy
      have := (insertRegion_perm r xs).mem_iff.mp hy
      simp only [List.mem_cons] at this
      rcases this with rfl | hy'
      · simp only [AddrLe]; omega
      · exact h.1 y hy'

theorem sortRegions_sorted (l : List Region) : (sortRegions l).Pairwise AddrLe := by
  induction l with
  | nil => simp [sortRegions]
  | cons r rs ih => exact insertRegion_sorted r _ ih

theorem insertRegion_of_le (r : Region) (l : List Region) (h : ∀ x ∈ l, r.1 ≤ x.1) : insertRegion r l = r :: l := by
  cases l with
  | nil => rfl
  | cons x xs => simp [insertRegion, h x (by simp)]

theorem sortRegions_of_sorted (l : List Region) (h : l.Pairwise AddrLe) : sortRegions l = l := by
  induction l with
  | nil => rfl
  | cons r rs ih =>
    rw [List.pairwise_cons] at h
    simp only [sortRegions, ih h.2]
    exact insertRegion_of_le r rs h.1

/-! ### the merge pass -/

theorem coalesceFrom_spec (rest : List Region) : ∀ cur : Region,
    (cur :: rest).Pairwise Before → (∀ r ∈ cur :: rest, r.2 ≠ []) →
    ∃ d G, coalesceFrom cur rest = .ok ((cur.1, d) :: G) ∧ NF ((cur.1, d) :: G) ∧
      cells ((cur.1, d) :: G) = cells (cur :: rest) := by
  induction rest with
  | nil =>
    intro cur _ hne
    exact ⟨cur.2, [], rfl, by simpa [NF] using hne cur (by simp), rfl⟩
  | cons r rest ih =>
    intro cur hp hne
    rw [List.pairwise_cons] at hp
    have hcr : Before cur r := hp.1 r (by simp)
    have hp2 := hp.2
    rw [List.pairwise_cons] at hp2
    simp only [Before] at hcr
    by_cases heq : cur.1 + cur.2.length = r.1
    · -- merge r into cur
      have hp' : ((cur.1, cur.2 ++ r.2) :: rest).Pairwise Before := by
        rw [List.pairwise_cons]
        refine ⟨?_, hp2.2⟩
        intro x hx
        have := hp2.1 x hx
        simp only [Before, List.length_append] at *; omega
      have hne' : ∀ x ∈ (cur.1, cur.2 ++ r.2) :: rest, x.2 ≠ [] := by
        intro x hx
        simp only [List.mem_cons] at hx
        rcases hx with rfl | hx
        · have := hne cur (by simp)
          simp [this]
        · exact hne x (by simp [hx])
      obtain ⟨d, G, h1, h2, h3⟩ := ih (cur.1, cur.2 ++ r.2) hp' hne'
      refine ⟨d, G, ?_, h2, ?_⟩
      · simp only [coalesceFrom, if_pos heq]; exact h1
      · rw [h3]; simp only [cells, cellsOf_append, heq, List.append_assoc]
    · have hlt : cur.1 + cur.2.length < r.1 := by omega
      obtain ⟨d, G, h1, h2, h3⟩ := ih r hp.2 (fun x hx => hne x (by simp [hx]))
      refine ⟨cur.2, (r.1, d) :: G, ?_, ?_, ?_⟩
      · simp only [coalesceFrom, if_neg heq, if_neg (show ¬ cur.1 + cur.2.length > r.1 by omega), h1]
      · exact ⟨hne cur (by simp), hlt, h2⟩
      · show cellsOf cur.1 cur.2 ++ cells ((r.1, d) :: G) = cellsOf cur.1 cur.2 ++ cells (r :: rest)
        rw [h3]

theorem coalesce_spec (l : List Region) (hp : l.Pairwise Before) (hne : ∀ r ∈ l, r.2 ≠ []) :
    ∃ G, coalesce l = .ok G ∧ NF G ∧ cells G = cells l := by
  cases l with
  | nil => exact ⟨[], rfl, trivial, rfl⟩
  | cons r rest =>
    obtain ⟨d, G, h1, h2, h3⟩ := coalesceFrom_spec rest r hp hne
    exact ⟨_, h1, h2, h3⟩

/-! ### addresses of cells -/

def addrs (l : List Region) : List Nat := (cells l).map Prod.fst

theorem mem_addrs_cellsOf (a : Nat) (d : List Nat) (x : Nat) :
    x ∈ (cellsOf a d).map Prod.fst ↔ a ≤ x ∧ x < a + d.length := by
  induction d generalizing a with
  | nil => simp [cellsOf]
  | cons b bs ih =>
    simp only [cellsOf, List.map_cons, List.mem_cons, ih, List.length_cons]
    omega

theorem cellsOf_addrs_nodup (a : Nat) (d : List Nat) : ((cellsOf a d).map Prod.fst).Nodup := by
  induction d generalizing a with
  | nil => simp [cellsOf]
  | cons b bs ih =>
    simp only [cellsOf, List.map_cons, List.nodup_cons]
    refine ⟨?_, ih (a + 1)⟩
    rw [mem_addrs_cellsOf]; omega

theorem addrs_cons (r : Region) (l : List Region) : addrs (r :: l) = (cellsOf r.1 r.2).map Prod.fst ++ addrs l := by
  simp [addrs, cells]

theorem mem_addrs (l : List Region) (x : Nat) :
    x ∈ addrs l ↔ ∃ r ∈ l, r.1 ≤ x ∧ x < r.1 + r.2.length := by
  induction l with
  | nil => simp [addrs, cells]
  | cons r rs ih =>
    rw [addrs_cons, List.mem_append, mem_addrs_cellsOf, ih]
    simp

theorem cells_eq_flatMap (l : List Region) : cells l = l.flatMap (fun r => cellsOf r.1 r.2) := by
  induction l with
  | nil => rfl
  | cons r rs ih => simp [cells, ih]

theorem cells_perm {l1 l2 : List Region} (h : l1.Perm l2) : (cells l1).Perm (cells l2) := by
  rw [cells_eq_flatMap, cells_eq_flatMap]; exact h.flatMap_right _

theorem addrs_perm {l1 l2 : List Region} (h : l1.Perm l2) : (addrs l1).Perm (addrs l2) :=
  (cells_perm h).map _

/-- sorted by address + no shared address + non-empty ⇒ ascending and non-overlapping -/
theorem before_of_sorted (l : List Region) (hs : l.Pairwise AddrLe) (hne : ∀ r ∈ l, r.2 ≠ [])
    (hnd : (addrs l).Nodup) : l.Pairwise Before := by
  induction l with
  | nil => simp
  | cons a t ih =>
    rw [List.pairwise_cons] at hs
    rw [addrs_cons, List.nodup_append] at hnd
    rw [List.pairwise_cons]
    refine ⟨?_, ih hs.2 (fun r hr => hne r (by simp [hr])) hnd.2.1⟩
    intro b hb
    have hab := hs.1 b hb
    simp only [AddrLe, Before] at *
    by_cases hlt : a.1 + a.2.length ≤ b.1
    · exact hlt
    · exfalso
      have h1 : b.1 ∈ (cellsOf a.1 a.2).map Prod.fst := by rw [mem_addrs_cellsOf]; omega
      have hbl : 0 < b.2.length := List.length_pos_iff.mpr (hne b (by simp [hb]))
      have h2 : b.1 ∈ addrs t := by rw [mem_addrs]; exact ⟨b, hb, by omega, by omega⟩
      exact hnd.2.2 _ h1 _ h2 rfl

/-- `check` on any list of non-empty regions that share no address -/
theorem check_spec (l : List Region) (hne : ∀ r ∈ l, r.2 ≠ []) (hnd : (addrs l).Nodup) :
    ∃ G, check l = .ok G ∧ NF G ∧ (cells G).Perm (cells l) := by
  have hp := sortRegions_perm l
  have hne' : ∀ r ∈ sortRegions l, r.2 ≠ [] := fun r hr => hne r (hp.mem_iff.mp hr)
  have hnd' : (addrs (sortRegions l)).Nodup := (addrs_perm hp).nodup_iff.mpr hnd
  obtain ⟨G, h1, h2, h3⟩ := coalesce_spec _ (before_of_sorted _ (sortRegions_sorted l) hne' hnd') hne'
  exact ⟨G, h1, h2, h3 ▸ cells_perm hp⟩

theorem nf_nonempty {l : List Region} (h : NF l) : ∀ r ∈ l, r.2 ≠ [] := ((nf_iff l).mp h).2

/-- a sequence of `add_region` calls -/
theorem build_spec (xs : List Region) : ∀ regs : List Region, NF regs → (∀ r ∈ xs, r.2 ≠ []) →
    (addrs (regs ++ xs)).Nodup →
    ∃ G, build regs xs = .ok G ∧ NF G ∧ (cells G).Perm (cells (regs ++ xs)) := by
  induction xs with
  | nil => intro regs h _ _; exact ⟨regs, rfl, h, by simp⟩
  | cons r xs ih =>
    intro regs hnf hne hnd
    have hsplit : regs ++ r :: xs = (regs ++ [r]) ++ xs := by simp
    have hnd1 : (addrs (regs ++ [r])).Nodup := by
      rw [hsplit] at hnd
      simp only [addrs, cells_append, List.map_append] at hnd ⊢
      exact (List.nodup_append.mp hnd).1
    have hne1 : ∀ x ∈ regs ++ [r], x.2 ≠ [] := by
      intro x hx
      simp only [List.mem_append, List.mem_singleton] at hx
      rcases hx with hx | rfl
      · exact nf_nonempty hnf x hx
      · exact hne _ (by simp)
    obtain ⟨G1, h1, h2, h3⟩ := check_spec (regs ++ [r]) hne1 hnd1
    have hc : (cells (G1 ++ xs)).Perm (cells (regs ++ r :: xs)) := by
      rw [hsplit, cells_append, cells_append]
      exact h3.append_right _
    obtain ⟨G, h4, h5, h6⟩ := ih G1 h2 (fun x hx => hne x (by simp [hx]))
      ((hc.map Prod.fst).nodup_iff.mpr hnd)
    refine ⟨G, ?_, h5, h6.trans hc⟩
    simp only [build, addRegion, h1]; exact h4

/-! ### uniqueness of the normal form -/

/-- two strictly ascending lists (by key) that are permutations of each other are equal -/
theorem sorted_perm_eq {α : Type} (key : α → Nat) : ∀ (l1 l2 : List α),
    l1.Pairwise (fun a b => key a < key b) → l2.Pairwise (fun a b => key a < key b) → l1.Perm l2 → l1 = l2
  | [], l2, _, _, hp => by simpa using hp.symm.eq_nil
  | a :: t1, [], _, _, hp => by simpa using hp.eq_nil
  | a :: t1, b :: t2, h1, h2, hp => by
    rw [List.pairwise_cons] at h1 h2
    have hab : a = b := by
      have ha : a ∈ b :: t2 := hp.mem_iff.mp (by simp)
      have hb : b ∈ a :: t1 := hp.mem_iff.mpr (by simp)
      simp only [List.mem_cons] at ha hb
      rcases ha with ha | ha
      · exact ha
      · rcases hb with hb | hb
        · exact hb.symm
        · have := h1.1 b hb; have := h2.1 a ha; omega
    subst hab
    rw [sorted_perm_eq key t1 t2 h1.2 h2.2 hp.cons_inv]

theorem cellsOf_sorted (a : Nat) (d : List Nat) : (cellsOf a d).Pairwise (fun x y => x.1 < y.1) := by
  induction d generalizing a with
  | nil => simp [cellsOf]
  | cons b bs ih =>
    simp only [cellsOf, List.pairwise_cons]
    refine ⟨?_, ih (a + 1)⟩
    intro c hc
    have : c.1 ∈ (cellsOf (a + 1) bs).map Prod.fst := List.mem_map_of_mem hc
    rw [mem_addrs_cellsOf] at this; omega

theorem cells_sorted (l : List Region) (h : l.Pairwise Before) : (cells l).Pairwise (fun x y => x.1 < y.1) := by
  induction l with
  | nil => simp [cells]
  | cons r t ih =>
    rw [List.pairwise_cons] at h
    simp only [cells, List.pairwise_append]
    refine ⟨cellsOf_sorted _ _, ih h.2, ?_⟩
    intro x hx y hy
    have hx' : x.1 ∈ (cellsOf r.1 r.2).map Prod.fst := List.mem_map_of_mem hx
    have hy' : y.1 ∈ addrs t := List.mem_map_of_mem hy
    rw [mem_addrs_cellsOf] at hx'
    rw [mem_addrs] at hy'
    obtain ⟨q, hq, hq1, hq2⟩ := hy'
    have := h.1 q hq
    simp only [Before] at this; omega

theorem gap_before {a b : Region} (h : Gap a b) : Before a b := by simp only [Gap, Before] at *; omega

theorem nf_before {l : List Region} (h : NF l) : l.Pairwise Before :=
  ((nf_iff l).mp h).1.imp gap_before

/-- `cellsOf a d1 ++ X = cellsOf a d2 ++ Y` where X, Y start beyond a gap ⇒ equal pieces -/
theorem cellsOf_cut (d1 : List Nat) : ∀ (a : Nat) (d2 : List Nat) (X Y : List (Nat × Nat)),
    cellsOf a d1 ++ X = cellsOf a d2 ++ Y →
    (∀ c ∈ X.head?, a + d1.length < c.1) → (∀ c ∈ Y.head?, a + d2.length < c.1) → d1 = d2 ∧ X = Y := by
  induction d1 with
  | nil =>
    intro a d2 X Y h hX hY
    cases d2 with
    | nil => simpa [cellsOf] using h
    | cons y ys =>
      exfalso
      simp only [cellsOf, List.nil_append, List.cons_append] at h
      subst h
      have := hX (a, y) (by simp)
      simp at this
  | cons x xs ih =>
    intro a d2 X Y h hX hY
    cases d2 with
    | nil =>
      exfalso
      simp only [cellsOf, List.nil_append, List.cons_append] at h
      subst h
      have := hY (a, x) (by simp)
      simp at this
    | cons y ys =>
      simp only [cellsOf, List.cons_append, List.cons.injEq, Prod.mk.injEq, true_and] at h
      obtain ⟨hxy, ht⟩ := h
      subst hxy
      have := ih (a + 1) ys X Y ht
        (fun c hc => by have := hX c hc; simp only [List.length_cons] at this; omega)
        (fun c hc => by have := hY c hc; simp only [List.length_cons] at this; omega)
      exact ⟨by rw [this.1], this.2⟩

theorem cells_head (r : Region) (t : List Region) (hr : r.2 ≠ []) :
    ∃ b, (cells (r :: t)).head? = some (r.1, b) := by
  obtain ⟨a, d⟩ := r
  cases d with
  | nil => exact absurd rfl hr
  | cons b bs => exact ⟨b, by simp [cells, cellsOf]⟩

theorem nf_tail_head {r : Region} {t : List Region} (h : NF (r :: t)) :
    ∀ c ∈ (cells t).head?, r.1 + r.2.length < c.1 := by
  cases t with
  | nil => simp [cells]
  | cons q t' =>
    obtain ⟨_, hg, hq⟩ := h
    obtain ⟨b, hb⟩ := cells_head q t' (nf_nonempty hq q (by simp))
    intro c hc
    rw [hb] at hc
    simp only [Option.mem_def, Option.some.injEq] at hc
    subst hc; exact hg

theorem nf_tail {r : Region} {t : List Region} (h : NF (r :: t)) : NF t := by
  cases t with
  | nil => trivial
  | cons q t' => exact h.2.2

theorem nf_cells_inj : ∀ (l1 l2 : List Region), NF l1 → NF l2 → cells l1 = cells l2 → l1 = l2
  | [], [], _, _, _ => rfl
  | [], r :: t, _, h2, hc => by
    exfalso
    obtain ⟨b, hb⟩ := cells_head r t (nf_nonempty h2 r (by simp))
    rw [← hc] at hb; simp [cells] at hb
  | r :: t, [], h1, _, hc => by
    exfalso
    obtain ⟨b, hb⟩ := cells_head r t (nf_nonempty h1 r (by simp))
    rw [hc] at hb; simp [cells] at hb
  | r1 :: t1, r2 :: t2, h1, h2, hc => by
    obtain ⟨b1, hb1⟩ := cells_head r1 t1 (nf_nonempty h1 r1 (by simp))
    obtain ⟨b2, hb2⟩ := cells_head r2 t2 (nf_nonempty h2 r2 (by simp))
    have ha : r1.1 = r2.1 := by
      rw [hc, hb2] at hb1
      simp only [Option.some.injEq, Prod.mk.injEq] at hb1
      exact hb1.1.symm
    simp only [cells] at hc
    rw [ha] at hc
    have := cellsOf_cut r1.2 r2.1 r2.2 (cells t1) (cells t2) hc
      (by rw [← ha]; exact nf_tail_head h1) (nf_tail_head h2)
    have ht := nf_cells_inj t1 t2 (nf_tail h1) (nf_tail h2) this.2
    rw [ht, Prod.ext ha this.1]

/-- THE normal form: two normal forms with the same memory image are equal -/
theorem nf_unique (l1 l2 : List Region) (h1 : NF l1) (h2 : NF l2) (hc : (cells l1).Perm (cells l2)) : l1 = l2 :=
  nf_cells_inj l1 l2 h1 h2
    (sorted_perm_eq Prod.fst _ _ (cells_sorted l1 (nf_before h1)) (cells_sorted l2 (nf_before h2)) hc)

/-! ### the specification merge -/

theorem insertByAddr_perm (r : Region) (l : List Region) : (insertByAddr r l).Perm (r :: l) := by
  induction l with
  | nil => simp [insertByAddr]
  | cons x xs ih =>
    simp only [insertByAddr]
    split
    · exact (List.Perm.cons x ih).trans (List.Perm.swap r x xs)
    · exact List.Perm.refl _

theorem insertByAddr_sorted (r : Region) (l : List Region) (h : l.Pairwise AddrLe) :
    (insertByAddr r l).Pairwise AddrLe := by
  induction l with
  | nil => simp [insertByAddr]
  | cons x xs ih =>
    simp only [insertByAddr]
    rw [List.pairwise_cons] at h
    split
    · next hlt =>
      rw [List.pairwise_cons]
      refine ⟨?_, ih h.2⟩
      intro y hy
      have := (insertByAddr_perm r xs).mem_iff.mp hy
      simp only [List.mem_cons] at this
      rcases this with rfl | hy'
      · simp only [AddrLe]; omega
      · exact h.1 y hy'
    · next hge =>
      rw [List.pairwise_cons]
      refine ⟨?_, List.pairwise_cons.mpr h⟩
      intro y hy
      simp only [List.mem_cons] at hy
      rcases hy with rfl | hy
      · simp only [AddrLe]; omega
      · have := h.1 y hy; simp only [AddrLe] at *; omega

theorem foldl_insert_spec (rs : List Region) : ∀ acc : List Region, acc.Pairwise AddrLe →
    (rs.foldl (fun acc r => insertByAddr r acc) acc).Perm (acc ++ rs) ∧
    (rs.foldl (fun acc r => insertByAddr r acc) acc).Pairwise AddrLe := by
  induction rs with
  | nil => intro acc h; simpa using h
  | cons r rs ih =>
    intro acc h
    obtain ⟨h1, h2⟩ := ih (insertByAddr r acc) (insertByAddr_sorted r acc h)
    refine ⟨?_, h2⟩
    simp only [List.foldl_cons]
    refine h1.trans ?_
    have : (insertByAddr r acc ++ rs).Perm ((r :: acc) ++ rs) := (insertByAddr_perm r acc).append_right rs
    exact this.trans (by simpa using List.perm_middle.symm)

theorem sortByAddr_perm (rs : List Region) : (sortByAddr rs).Perm rs := by
  simpa [sortByAddr] using (foldl_insert_spec rs [] (by simp)).1

theorem sortByAddr_sorted (rs : List Region) : (sortByAddr rs).Pairwise AddrLe :=
  (foldl_insert_spec rs [] (by simp)).2

theorem glue_spec (l : List Region) (hp : l.Pairwise Before) (hne : ∀ r ∈ l, r.2 ≠ []) :
    NF (glue l) ∧ cells (glue l) = cells l ∧
      (∀ r t, l = r :: t → ∃ d G, glue l = (r.1, d) :: G) := by
  induction l with
  | nil => simp [glue, NF]
  | cons r t ih =>
    rw [List.pairwise_cons] at hp
    obtain ⟨ih1, ih2, ih3⟩ := ih hp.2 (fun x hx => hne x (by simp [hx]))
    have hr := hne r (by simp)
    cases t with
    | nil =>
      refine ⟨by simp [glue, NF, hr], by simp [glue], fun r' t h => ?_⟩
      simp only [List.cons.injEq] at h; obtain ⟨h, _⟩ := h; subst h
      exact ⟨r.2, [], by simp [glue]⟩
    | cons q t' =>
      obtain ⟨d, G, hg⟩ := ih3 q t' rfl
      have hrq : r.1 + r.2.length ≤ q.1 := hp.1 q (by simp)
      have hgl : glue (r :: q :: t') =
          if r.1 + r.2.length = q.1 then (r.1, r.2 ++ d) :: G else r :: (q.1, d) :: G := by
        rw [glue, hg]
      rw [hgl]
      rw [hg] at ih1 ih2
      by_cases heq : r.1 + r.2.length = q.1
      · simp only [if_pos heq]
        refine ⟨?_, ?_, fun r' t'' h => ?_⟩
        · cases G with
          | nil => simp [NF, hr]
          | cons g G' =>
            obtain ⟨_, hgap, hnf⟩ := ih1
            refine ⟨by simp [hr], ?_, hnf⟩
            simp only [List.length_append] at hgap ⊢; omega
        · show cells ((r.1, r.2 ++ d) :: G) = cellsOf r.1 r.2 ++ cells (q :: t')
          rw [← ih2]; simp only [cells, cellsOf_append, heq, List.append_assoc]
        · simp only [List.cons.injEq] at h; obtain ⟨h, _⟩ := h; subst h; exact ⟨_, _, rfl⟩
      · simp only [if_neg heq]
        refine ⟨⟨hr, by omega, ih1⟩, ?_, fun r' t'' h => ?_⟩
        · show cellsOf r.1 r.2 ++ cells ((q.1, d) :: G) = cellsOf r.1 r.2 ++ cells (q :: t')
          rw [ih2]
        · simp only [List.cons.injEq] at h; obtain ⟨h, _⟩ := h; subst h; exact ⟨r.2, _, rfl⟩

/-! ### the region sets of the property -/

theorem validSet_nonempty {rs : List Region} (h : ValidSet rs) : ∀ r ∈ rs, r.2 ≠ [] := fun r hr => (h.1 r hr).1

theorem validSet_nodup {rs : List Region} (h : ValidSet rs) : (addrs rs).Nodup := by
  obtain ⟨h1, h2⟩ := h
  induction rs with
  | nil => simp [addrs, cells]
  | cons r t ih =>
    rw [List.pairwise_cons] at h2
    rw [addrs_cons, List.nodup_append]
    refine ⟨cellsOf_addrs_nodup _ _, ih (fun x hx => h1 x (by simp [hx])) h2.2, ?_⟩
    intro x hx y hy hxy
    subst hxy
    rw [mem_addrs_cellsOf] at hx
    rw [mem_addrs] at hy
    obtain ⟨q, hq, hq1, hq2⟩ := hy
    have := h2.1 q hq
    simp only [Disjoint] at this; omega

/-- every cell is a byte below 4 GiB -/
def CellsOK (l : List Region) : Prop := ∀ c ∈ cells l, c.1 < 4294967296 ∧ c.2 < 256

theorem mem_cellsOf_snd (a : Nat) (d : List Nat) (c : Nat × Nat) (h : c ∈ cellsOf a d) : c.2 ∈ d := by
  induction d generalizing a with
  | nil => simp [cellsOf] at h
  | cons b bs ih =>
    simp only [cellsOf, List.mem_cons] at h
    rcases h with rfl | h
    · simp
    · exact List.mem_cons_of_mem _ (ih _ h)

theorem mem_cellsOf_of_mem (a : Nat) (d : List Nat) (b : Nat) (h : b ∈ d) : ∃ x, (x, b) ∈ cellsOf a d := by
  induction d generalizing a with
  | nil => simp at h
  | cons y ys ih =>
    simp only [List.mem_cons] at h
    rcases h with rfl | h
    · exact ⟨a, by simp [cellsOf]⟩
    · obtain ⟨x, hx⟩ := ih (a + 1) h
      exact ⟨x, by simp [cellsOf, hx]⟩

theorem mem_cells (l : List Region) (c : Nat × Nat) : c ∈ cells l ↔ ∃ r ∈ l, c ∈ cellsOf r.1 r.2 := by
  rw [cells_eq_flatMap, List.mem_flatMap]

theorem validSet_cellsOK {rs : List Region} (h : ValidSet rs) : CellsOK rs := by
  intro c hc
  rw [mem_cells] at hc
  obtain ⟨r, hr, hcr⟩ := hc
  obtain ⟨_, h2, h3⟩ := h.1 r hr
  have h4 : c.1 ∈ (cellsOf r.1 r.2).map Prod.fst := List.mem_map_of_mem hcr
  rw [mem_addrs_cellsOf] at h4
  exact ⟨by omega, h3 _ (mem_cellsOf_snd _ _ _ hcr)⟩

theorem cellsOK_perm {l1 l2 : List Region} (h : (cells l1).Perm (cells l2)) (hok : CellsOK l2) : CellsOK l1 :=
  fun c hc => hok c (h.mem_iff.mp hc)

/-- what `save` needs to know about one region -/
def RegionOK (r : Region) : Prop := r.2 ≠ [] ∧ r.1 + r.2.length ≤ 4294967296 ∧ ∀ b ∈ r.2, b < 256

theorem regionOK_of_cellsOK {l : List Region} (hok : CellsOK l) (hne : ∀ r ∈ l, r.2 ≠ []) :
    ∀ r ∈ l, RegionOK r := by
  intro r hr
  refine ⟨hne r hr, ?_, ?_⟩
  · have hl : 0 < r.2.length := List.length_pos_iff.mpr (hne r hr)
    have : r.1 + r.2.length - 1 ∈ addrs l := by rw [mem_addrs]; exact ⟨r, hr, by omega, by omega⟩
    simp only [addrs, List.mem_map] at this
    obtain ⟨c, hc, hc1⟩ := this
    have := (hok c hc).1
    omega
  · intro b hb
    obtain ⟨x, hx⟩ := mem_cellsOf_of_mem r.1 r.2 b hb
    exact (hok (x, b) ((mem_cells l _).mpr ⟨r, hr, hx⟩)).2

theorem mergeSpec_spec {rs : List Region} (h : ValidSet rs) :
    NF (mergeSpec rs) ∧ (cells (mergeSpec rs)).Perm (cells rs) := by
  have hp := sortByAddr_perm rs
  have hne' : ∀ r ∈ sortByAddr rs, r.2 ≠ [] := fun r hr => validSet_nonempty h r (hp.mem_iff.mp hr)
  have hnd' : (addrs (sortByAddr rs)).Nodup := (addrs_perm hp).nodup_iff.mpr (validSet_nodup h)
  obtain ⟨h1, h2, _⟩ := glue_spec _ (before_of_sorted _ (sortByAddr_sorted rs) hne' hnd') hne'
  exact ⟨h1, by rw [mergeSpec, h2]; exact cells_perm hp⟩

/-- (a) any insertion order of a valid set ends in the specification merge -/
theorem build_eq_mergeSpec {rs p : List Region} (h : ValidSet rs) (hp : p.Perm rs) :
    build [] p = .ok (mergeSpec rs) := by
  have hne : ∀ r ∈ p, r.2 ≠ [] := fun r hr => validSet_nonempty h r (hp.mem_iff.mp hr)
  have hnd : (addrs ([] ++ p)).Nodup := by simpa using (addrs_perm hp).nodup_iff.mpr (validSet_nodup h)
  obtain ⟨G, h1, h2, h3⟩ := build_spec p [] trivial hne hnd
  obtain ⟨m1, m2⟩ := mergeSpec_spec h
  have : G = mergeSpec rs := nf_unique G _ h2 m1 ((by simpa using h3 : (cells G).Perm (cells p)).trans ((cells_perm hp).trans m2.symm))
  rw [h1, this]


end Proofs.Hex
