import PpciVerif.Model.IRText
import PpciVerif.Proofs.IRBuild
/-!
# Proofs.IRText — the recursive-descent reader on the token sequence of a printed module

1. syntax: from the tokens the writer emits for a type / operand list / instruction / … the reader's
   parsing functions recover the raw form (`parseStatementCore_instrToks`, …);
2. hence the reader's loops are the builder programs of `Proofs.IRBuild` (`parseFunction_eq`);
3. `Proofs.IRBuild.funcsWith_spec` then gives the module back, with every phi's inputs in the order of
   the text (sorted by block name, value name).
-/
namespace Proofs.IRText
open Spec.IR Model.IRBuild Model.IRText Model.IRFrag Proofs.IRBuild

/-! ## tokens -/

/-- the look-ahead after the tokens under consideration is not the tokenizer's fault sentinel -/
def NF (r : Toks) : Prop := r.head? ≠ some .fault

@[simp] theorem NF_cons (t : Tok) (r : Toks) : NF (t :: r) ↔ t ≠ .fault := by
  simp [NF]

theorem next_ok (t : Tok) (r : Toks) (h1 : t ≠ .eof) (h2 : NF r) : next (t :: r) = .ok (t, r) := by
  cases r with
  | nil => cases t <;> simp_all [next]
  | cons x r' =>
    have hx : x ≠ .fault := by simpa using h2
    cases t <;> cases x <;> simp_all [next]

theorem consume_ok (typ : String) (t : Tok) (r : Toks) (ht : t.typ = typ) (h1 : t ≠ .eof) (h2 : NF r) :
    consume typ (t :: r) = .ok (t, r) := by
  simp [consume, peek, ht, next_ok t r h1 h2]

theorem parseId_ok (s : String) (r : Toks) (h : NF r) : parseId (.id s :: r) = .ok (s, r) := by
  simp [parseId, consume_ok "ID" (.id s) r rfl (by simp) h, bind, Except.bind, pure, Except.pure]

theorem expectSym_ok (s : String) (r : Toks) (h : NF r) : expectSym s (.sym s :: r) = .ok r := by
  simp [expectSym, consume_ok s (.sym s) r rfl (by simp) h, bind, Except.bind, pure, Except.pure]

theorem consumeKeyword_ok (k : String) (r : Toks) (h : NF r) : consumeKeyword k (.id k :: r) = .ok r := by
  simp [consumeKeyword, parseId_ok k r h, bind, Except.bind, pure, Except.pure]

theorem parseNat_ok (n : Nat) (r : Toks) (h : NF r) : parseNat (.int (n : Int) :: r) = .ok (n, r) := by
  have hn : ¬ ((n : Int) < 0) := by omega
  simp [parseNat, parseInteger, consume_ok "INT" (.int n) r rfl (by simp) h, bind, Except.bind, pure, Except.pure, hn]

@[simp] theorem atKeyword_id (k s : String) (r : Toks) : atKeyword k (.id s :: r) = decide (s = k) := rfl
@[simp] theorem atKeyword_sym (k s : String) (r : Toks) : atKeyword k (.sym s :: r) = false := rfl
@[simp] theorem atKeyword_int (k : String) (v : Int) (r : Toks) : atKeyword k (.int v :: r) = false := rfl
@[simp] theorem atKeyword_flt (k s : String) (r : Toks) : atKeyword k (.flt s :: r) = false := rfl
@[simp] theorem atKeyword_str (k s : String) (r : Toks) : atKeyword k (.str s :: r) = false := rfl
@[simp] theorem atKeyword_eof (k : String) (r : Toks) : atKeyword k (.eof :: r) = false := rfl
@[simp] theorem wordAhead_sym (s : String) (r : Toks) : wordAhead (.sym s :: r) = .no := rfl
@[simp] theorem wordAhead_int (v : Int) (r : Toks) : wordAhead (.int v :: r) = .no := rfl
@[simp] theorem wordAhead_str (s : String) (r : Toks) : wordAhead (.str s :: r) = .no := rfl
@[simp] theorem wordAhead_id_sym (s x : String) (r : Toks) : wordAhead (.id s :: .sym x :: r) = .no := by
  simp only [wordAhead]; split <;> rfl
@[simp] theorem wordAhead_load (x : String) (r : Toks) : wordAhead (.id "load" :: .id x :: r) = .no := by
  simp [wordAhead]
@[simp] theorem wordAhead_rol (x : String) (r : Toks) : wordAhead (.id "rol" :: .id x :: r) = .yes := by
  simp [wordAhead]
@[simp] theorem wordAhead_ror (x : String) (r : Toks) : wordAhead (.id "ror" :: .id x :: r) = .yes := by
  simp [wordAhead]
@[simp] theorem peek_cons (t : Tok) (r : Toks) : peek (t :: r) = t := rfl
@[simp] theorem typ_id (s : String) : (Tok.id s).typ = "ID" := rfl
@[simp] theorem typ_sym (s : String) : (Tok.sym s).typ = s := rfl
@[simp] theorem typ_int (v : Int) : (Tok.int v).typ = "INT" := rfl
@[simp] theorem typ_flt (s : String) : (Tok.flt s).typ = "FLOAT" := rfl
@[simp] theorem typ_str (s : String) : (Tok.str s).typ = "STRING" := rfl
@[simp] theorem typ_eof : Tok.eof.typ = "eof" := rfl

/-! ## types -/

theorem basicTy_int (t : Spec.IRArith.Ty) : Model.IRText.basicTy t.name = some (.int t) := by
  cases t <;> decide

theorem ityName_ne_blob (t : Spec.IRArith.Ty) : t.name ≠ "blob" := by cases t <;> decide

theorem tyToks_ne_nil (t : Ty) : ∃ x l, tyToks t = .id x :: l := by
  cases t <;> exact ⟨_, _, rfl⟩

theorem parseType_ok (t : Ty) (r : Toks) (h : NF r) : parseType (tyToks t ++ r) = .ok (t, r) := by
  cases t with
  | int it =>
    simp [parseType, tyToks, ityName_ne_blob it, parseId_ok _ r h, basicTy_int, bind, Except.bind, pure, Except.pure]
  | f32 => simp [parseType, tyToks, parseId_ok _ r h, Model.IRText.basicTy, bind, Except.bind, pure, Except.pure]
  | f64 => simp [parseType, tyToks, parseId_ok _ r h, Model.IRText.basicTy, bind, Except.bind, pure, Except.pure]
  | ptr => simp [parseType, tyToks, parseId_ok _ r h, Model.IRText.basicTy, bind, Except.bind, pure, Except.pure]
  | blob s a =>
    simp [parseType, tyToks, consumeKeyword_ok, expectSym_ok, parseNat_ok, h, bind, Except.bind, pure, Except.pure]

/-- the statement keywords of the reader; no type is spelled like one -/
def stmtKeywords : List String := ["jmp", "cjmp", "return", "store", "volatile", "memcpy", "exit", "call"]

theorem tyToks_head (t : Ty) : ∃ x l, tyToks t = .id x :: l ∧ x ∉ stmtKeywords ∧ x ≠ "external" := by
  cases t with
  | int it => exact ⟨it.name, [], rfl, by cases it <;> decide, by cases it <;> decide⟩
  | f32 => exact ⟨"f32", [], rfl, by decide, by decide⟩
  | f64 => exact ⟨"f64", [], rfl, by decide, by decide⟩
  | ptr => exact ⟨"ptr", [], rfl, by decide, by decide⟩
  | blob s a => exact ⟨"blob", _, rfl, by decide, by decide⟩

/-! ## comma separated lists -/

theorem parseTypesTail_ok : ∀ (ts : List Ty) (n : Nat) (r : Toks), ts.length < n → NF r →
    (peek r).typ ≠ "," →
    parseTypesTail n ((ts.map (fun t => .sym "," :: tyToks t)).flatten ++ r) = .ok (ts, r) := by
  intro ts
  induction ts with
  | nil =>
    intro n r hn _ hp
    cases n with
    | zero => omega
    | succ k => simp [parseTypesTail, hp, pure, Except.pure]
  | cons t ts ih =>
    intro n r hn hr hp
    cases n with
    | zero => omega
    | succ k =>
      have hk : ts.length < k := by simp at hn; omega
      obtain ⟨x, l, hx⟩ := tyToks_ne_nil t
      have hnf : NF (tyToks t ++ ((ts.map (fun t => Tok.sym "," :: tyToks t)).flatten ++ r)) := by
        rw [hx]; simp
      have hnf2 : NF ((ts.map (fun t => Tok.sym "," :: tyToks t)).flatten ++ r) := by
        cases ts with
        | nil => simpa using hr
        | cons a b => simp
      simp only [List.map_cons, List.flatten_cons, List.cons_append, List.append_assoc, parseTypesTail, peek_cons,
        Tok.typ, if_true, expectSym_ok _ _ hnf, parseType_ok t _ hnf2, ih k r hk hr hp, bind, Except.bind,
        pure, Except.pure]

theorem commaSepT_eq {α : Type} (f : α → List Tok) (x : α) (xs : List α) :
    commaSepT ((x :: xs).map f) = f x ++ (xs.map (fun y => Tok.sym "," :: f y)).flatten := by
  induction xs generalizing x with
  | nil => simp [commaSepT]
  | cons y ys ih =>
    simp only [List.map_cons, commaSepT, List.flatten_cons]
    rw [← List.map_cons, ih y]
    simp

theorem parseBracedTypes_ok (ts : List Ty) (fuel : Nat) (r : Toks) (hf : ts.length < fuel) (hr : NF r) :
    parseBracedTypes fuel (.sym "(" :: commaSepT (ts.map tyToks) ++ .sym ")" :: r) = .ok (ts, r) := by
  cases ts with
  | nil =>
    simp [parseBracedTypes, commaSepT, expectSym_ok, hr, bind, Except.bind, pure, Except.pure, Tok.typ]
  | cons t ts =>
    obtain ⟨x, l, hx⟩ := tyToks_ne_nil t
    have hlen : ts.length < fuel := by simp at hf; omega
    have h1 : NF (commaSepT ((t :: ts).map tyToks) ++ Tok.sym ")" :: r) := by
      rw [commaSepT_eq, hx]; simp
    have h2 : NF ((ts.map (fun y => Tok.sym "," :: tyToks y)).flatten ++ Tok.sym ")" :: r) := by
      cases ts <;> simp
    have hpk : (peek (commaSepT ((t :: ts).map tyToks) ++ Tok.sym ")" :: r)).typ ≠ ")" := by
      rw [commaSepT_eq, hx]; simp [Tok.typ]
    simp only [parseBracedTypes, List.cons_append, expectSym_ok _ _ h1, bind, Except.bind, hpk, ne_eq,
      not_false_eq_true, if_true]
    rw [commaSepT_eq, List.append_assoc, parseType_ok t _ h2]
    simp only [parseTypesTail_ok ts fuel (Tok.sym ")" :: r) hlen (by simp) (by simp [Tok.typ]),
      expectSym_ok _ _ hr, pure, Except.pure]

theorem parseArgsTail_ok : ∀ (args : List Operand) (n : Nat) (r : Toks), args.length < n → NF r →
    (peek r).typ ≠ "," →
    parseArgsTail n ((args.map (fun a => [Tok.sym ",", Tok.id (opName a)])).flatten ++ r) =
      .ok (args.map eraseOpnd, r) := by
  intro args
  induction args with
  | nil =>
    intro n r hn _ hp
    cases n with
    | zero => omega
    | succ k => simp [parseArgsTail, hp, pure, Except.pure]
  | cons a as ih =>
    intro n r hn hr hp
    cases n with
    | zero => omega
    | succ k =>
      have hk : as.length < k := by simp at hn; omega
      have hnf2 : NF ((as.map (fun a => [Tok.sym ",", Tok.id (opName a)])).flatten ++ r) := by
        cases as with
        | nil => simpa using hr
        | cons a b => simp
      simp only [List.map_cons, List.flatten_cons, List.cons_append, List.nil_append, parseArgsTail, peek_cons,
        Tok.typ, if_true, expectSym_ok _ _ (show NF (Tok.id (opName a) :: _) by simp), parseId_ok _ _ hnf2,
        ih k r hk hr hp, bind, Except.bind, pure, Except.pure, eraseOpnd]

theorem parseArgs_ok (args : List Operand) (fuel : Nat) (r : Toks) (hf : args.length < fuel) (hr : NF r) :
    parseArgs fuel (.sym "(" :: commaSepT (args.map (fun a => [Tok.id (opName a)])) ++ .sym ")" :: r) =
      .ok (args.map eraseOpnd, r) := by
  cases args with
  | nil =>
    simp [parseArgs, commaSepT, expectSym_ok, hr, bind, Except.bind, pure, Except.pure, Tok.typ]
  | cons a as =>
    have hlen : as.length < fuel := by simp at hf; omega
    have h2 : NF ((as.map (fun y => [Tok.sym ",", Tok.id (opName y)])).flatten ++ Tok.sym ")" :: r) := by
      cases as <;> simp
    rw [commaSepT_eq]
    have hflat : (as.map (fun y => Tok.sym "," :: [Tok.id (opName y)])) =
        as.map (fun a => [Tok.sym ",", Tok.id (opName a)]) := rfl
    rw [hflat]
    simp only [parseArgs, List.cons_append, List.nil_append,
      expectSym_ok _ _ (show NF (Tok.id (opName a) :: _) by simp), bind, Except.bind, peek_cons, Tok.typ]
    simp only [ne_eq, String.reduceEq, not_false_eq_true, if_true]
    rw [parseId_ok _ _ h2]
    simp only [parseArgsTail_ok as fuel (Tok.sym ")" :: r) hlen (by simp) (by simp [Tok.typ]),
      expectSym_ok _ _ hr, pure, Except.pure, List.map_cons, eraseOpnd]

/-! ## phi inputs -/

def tok3 (p : String × String) : List Tok := [.id p.1, .sym ":", .id p.2]

theorem parsePhiIns_ok : ∀ (ps : List (String × String)) (n : Nat) (r : Toks), ps.length < n → NF r →
    (peek r).typ ≠ "," → (peek r).typ ≠ "ID" →
    parsePhiIns n (commaSepT (ps.map tok3) ++ r) = .ok (ps.map (fun p => (p.1, Operand.glob p.2)), r) := by
  intro ps
  induction ps with
  | nil =>
    intro n r hn _ _ hid
    cases n with
    | zero => omega
    | succ k => simp [parsePhiIns, commaSepT, hid, pure, Except.pure]
  | cons p ps ih =>
    intro n r hn hr hc hid
    cases n with
    | zero => omega
    | succ k =>
      have hk : ps.length < k := by simp at hn; omega
      cases ps with
      | nil =>
        simp only [List.map_cons, List.map_nil, commaSepT, tok3, List.cons_append, List.nil_append, parsePhiIns,
          peek_cons, typ_id, typ_sym, if_true, parseId_ok _ _ (show NF (Tok.sym ":" :: _) by simp),
          expectSym_ok _ _ (show NF (Tok.id p.2 :: r) by simp), parseId_ok _ _ hr, bind, Except.bind, hc, ne_eq,
          not_false_eq_true, pure, Except.pure]
      | cons q qs =>
        have hih := ih k r hk hr hc hid
        have hcs : commaSepT ((p :: q :: qs).map tok3) = tok3 p ++ Tok.sym "," :: commaSepT ((q :: qs).map tok3) := rfl
        have hnf : NF (commaSepT ((q :: qs).map tok3) ++ r) := by
          rw [commaSepT_eq]; simp [tok3]
        rw [hcs]
        simp only [tok3, List.cons_append, List.nil_append, parsePhiIns, peek_cons, typ_id, typ_sym, if_true,
          parseId_ok _ _ (show NF (Tok.sym ":" :: _) by simp),
          expectSym_ok _ _ (show NF (Tok.id p.2 :: _) by simp),
          parseId_ok _ _ (show NF (Tok.sym "," :: _) by simp), bind, Except.bind, ne_eq, not_true_eq_false,
          if_false, expectSym_ok _ _ hnf]
        rw [hih]
        simp [pure, Except.pure]

theorem insertPair_map (q : String × Operand) (l : List (String × Operand)) :
    insertPair (keyOf q) (l.map keyOf) = (insertIn q l).map keyOf := by
  induction l with
  | nil => rfl
  | cons p r ih =>
    simp only [List.map_cons, insertPair, insertIn]
    by_cases h : pairLe (keyOf q) (keyOf p) = true
    · simp [h]
    · simp [h, ih]

theorem sortPairs_map (ins : List (String × Operand)) :
    sortPairs (ins.map keyOf) = (sortIns ins).map keyOf := by
  induction ins with
  | nil => rfl
  | cons q r ih => simp only [List.map_cons, sortPairs, sortIns, ih, insertPair_map]

theorem phiPairs_eq (ins : List (String × Operand)) : phiPairs ins = (sortIns ins).map keyOf := by
  unfold phiPairs
  exact sortPairs_map ins

/-! ## statements -/

theorem symBinop_symbol (op : BinOp) (h1 : op ≠ .rol) (h2 : op ≠ .ror) : symBinop op.symbol = some op := by
  cases op <;> first | decide | exact absurd rfl h1 | exact absurd rfl h2

theorem symCond_symbol (c : Cond) : symCond c.symbol = some c := by cases c <;> decide

/-- what the text format needs of one instruction -/
structure PrintOk (fmt : Nat → List Char) (fparse : String → Option Nat) (i : Instr) : Prop where
  noAsm : ∀ tpl a b c, i ≠ .asm tpl a b c
  flt : ∀ d ty b, i = .const d ty (.fbits b) → fparse (String.ofList (fmt b)) = some b
  bytes : ∀ d data, i = .literal d data → ∀ x ∈ data, x < 256

theorem unhexlify_hexlify' (bs : List Nat) (h : ∀ x ∈ bs, x < 256) : unhexlify (hexlify bs) = .ok bs := by
  have key : ∀ k : Fin 16, hexVal (hexDigit k.val) = some k.val := by decide
  induction bs with
  | nil => rfl
  | cons b r ih =>
    have hb : b < 256 := h b (by simp)
    have hr : ∀ x ∈ r, x < 256 := fun x hx => h x (by simp [hx])
    have h1 : hexVal (hexDigit (b / 16 % 16)) = some (b / 16 % 16) := key ⟨_, by omega⟩
    have h2 : hexVal (hexDigit (b % 16)) = some (b % 16) := key ⟨_, by omega⟩
    have h3 : b / 16 % 16 * 16 + b % 16 = b := by omega
    simp [hexlify, unhexlify, h1, h2, ih hr, h3]

theorem keyOf_glob (l : List (String × Operand)) :
    (l.map keyOf).map (fun p => (p.1, Operand.glob p.2)) = l.map (fun q => (q.1, eraseOpnd q.2)) := by
  induction l with
  | nil => rfl
  | cons q r ih => simp [keyOf, eraseOpnd, ih]

theorem symBinop_semi : symBinop ";" = none := by decide

theorem insertIn_length (q : String × Operand) (l : List (String × Operand)) :
    (insertIn q l).length = l.length + 1 := by
  induction l with
  | nil => rfl
  | cons p r ih =>
    simp only [insertIn]
    split <;> simp [ih]

theorem sortIns_length (ins : List (String × Operand)) : (sortIns ins).length = ins.length := by
  induction ins with
  | nil => rfl
  | cons q r ih => simp [sortIns, insertIn_length, ih]

section
attribute [local simp] parseId_ok expectSym_ok consumeKeyword_ok parseNat_ok parseType_ok

/-- the statement keywords are tested on the first token of an assignment, which is a type name -/
theorem parseStatementCore_assign (fparse : String → Option Nat) (fuel : Nat) (ty : Ty) (body : Toks) :
    parseStatementCore fparse fuel (tyToks ty ++ body) = parseAssignment fparse fuel (tyToks ty ++ body) := by
  obtain ⟨x, l, hx, hk, _⟩ := tyToks_head ty
  have h : ∀ k ∈ stmtKeywords, ¬ x = k := fun k hk' e => hk (e ▸ hk')
  rw [hx]
  simp [parseStatementCore, h "jmp" (by decide), h "cjmp" (by decide), h "return" (by decide),
    h "store" (by decide), h "volatile" (by decide), h "memcpy" (by decide), h "exit" (by decide),
    h "call" (by decide)]

theorem parseStatementCore_ok (fmt : Nat → List Char) (fparse : String → Option Nat) (fuel : Nat) (i : Instr)
    (rest : Toks) (hp : PrintOk fmt fparse i) (hf : (operands i).length < fuel) :
    parseStatementCore fparse fuel (instrToks fmt i ++ .sym ";" :: rest) =
      .ok (eraseInstr (normPhiInstr i), .sym ";" :: rest) := by
  cases i with
  | asm tpl a b c => exact (hp.noAsm tpl a b c rfl).elim
  | jump t =>
    simp [instrToks, parseStatementCore, bind, Except.bind, pure, Except.pure, eraseInstr, normPhiInstr]
  | exit =>
    simp [instrToks, parseStatementCore, bind, Except.bind, pure, Except.pure, eraseInstr, normPhiInstr]
  | ret v =>
    simp [instrToks, opTok, parseStatementCore, bind, Except.bind, pure, Except.pure, eraseInstr, normPhiInstr,
      eraseOpnd]
  | store ty v a vol =>
    cases vol <;>
      simp [instrToks, opTok, parseStatementCore, bind, Except.bind, pure, Except.pure, eraseInstr, normPhiInstr,
        eraseOpnd]
  | copyblob dd ss n =>
    simp [instrToks, opTok, parseStatementCore, bind, Except.bind, pure, Except.pure, eraseInstr, normPhiInstr,
      eraseOpnd]
  | cjump a c b y n =>
    have hn : next (Tok.sym c.symbol :: Tok.id (opName b) :: Tok.sym "?" :: Tok.id y :: Tok.sym ":" :: Tok.id n ::
        Tok.sym ";" :: rest) = .ok (Tok.sym c.symbol, Tok.id (opName b) :: Tok.sym "?" :: Tok.id y :: Tok.sym ":" ::
        Tok.id n :: Tok.sym ";" :: rest) := next_ok _ _ (by simp) (by simp)
    simp [instrToks, opTok, parseStatementCore, bind, Except.bind, pure, Except.pure, eraseInstr, normPhiInstr,
      eraseOpnd, hn, symCond_symbol]
  | pcall c args =>
    have hlen : args.length < fuel := by
      simp [operands, Instr.uses] at hf; omega
    have := parseArgs_ok args fuel (Tok.sym ";" :: rest) hlen (by simp)
    simp only [List.cons_append] at this
    simp [instrToks, opTok, parseStatementCore, bind, Except.bind, pure, Except.pure, eraseInstr, normPhiInstr,
      eraseOpnd, this]
  | const d ty c =>
    rw [show instrToks fmt (.const d ty c) = tyToks ty ++ ([.id d, .sym "="] ++ constToks fmt c) from by
      simp [instrToks], List.append_assoc, parseStatementCore_assign]
    cases c with
    | int v =>
      have hn : next (Tok.int v :: Tok.sym ";" :: rest) = .ok (Tok.int v, Tok.sym ";" :: rest) :=
        next_ok _ _ (by simp) (by simp)
      simp [parseAssignment, constToks, bind, Except.bind, pure, Except.pure, eraseInstr, normPhiInstr, hn]
    | fbits b =>
      by_cases hnf : nonFinite b = true
      · have hc : consume "STRING" (Tok.str (String.ofList (fmt b)) :: Tok.sym ";" :: rest) =
            .ok (Tok.str (String.ofList (fmt b)), Tok.sym ";" :: rest) :=
          consume_ok _ _ _ rfl (by simp) (by simp)
        simp [parseAssignment, constToks, hnf, symBinop, bind, Except.bind, pure, Except.pure, eraseInstr,
          normPhiInstr, hc, hp.flt d ty b rfl]
      · have hn : next (Tok.flt (String.ofList (fmt b)) :: Tok.sym ";" :: rest) =
            .ok (Tok.flt (String.ofList (fmt b)), Tok.sym ";" :: rest) := next_ok _ _ (by simp) (by simp)
        simp [parseAssignment, constToks, hnf, bind, Except.bind, pure, Except.pure, eraseInstr, normPhiInstr, hn,
          hp.flt d ty b rfl]
  | undefined d ty =>
    rw [show instrToks fmt (.undefined d ty) = tyToks ty ++ [.id d, .sym "=", .id "undefined"] from rfl,
      List.append_assoc, parseStatementCore_assign]
    simp [parseAssignment, symBinop_semi, bind, Except.bind, pure, Except.pure, eraseInstr, normPhiInstr]
  | literal d data =>
    rw [show instrToks fmt (.literal d data) = tyToks (.blob data.length 1) ++
        [.id d, .sym "=", .id "literal", .str (String.ofList (hexlify data))] from rfl,
      List.append_assoc, parseStatementCore_assign]
    have hc : consume "STRING" (Tok.str (String.ofList (hexlify data)) :: Tok.sym ";" :: rest) =
        .ok (Tok.str (String.ofList (hexlify data)), Tok.sym ";" :: rest) :=
      consume_ok _ _ _ rfl (by simp) (by simp)
    simp [parseAssignment, bind, Except.bind, pure, Except.pure, eraseInstr, normPhiInstr, hc,
      unhexlify_hexlify' data (hp.bytes d data rfl)]
  | alloc d sz al =>
    rw [show instrToks fmt (.alloc d sz al) = tyToks (.blob sz al) ++
        [.id d, .sym "=", .id "alloc", .int sz, .id "bytes", .id "aligned", .id "at", .int al] from rfl,
      List.append_assoc, parseStatementCore_assign]
    simp [parseAssignment, bind, Except.bind, pure, Except.pure, eraseInstr, normPhiInstr]
  | addrof d src =>
    rw [show instrToks fmt (.addrof d src) = tyToks .ptr ++ [.id d, .sym "=", .sym "&", opTok src] from rfl,
      List.append_assoc, parseStatementCore_assign]
    simp [parseAssignment, opTok, bind, Except.bind, pure, Except.pure, eraseInstr, normPhiInstr, eraseOpnd]
  | cast d ty a =>
    rw [show instrToks fmt (.cast d ty a) = tyToks ty ++ [.id d, .sym "=", .id "cast", opTok a] from rfl,
      List.append_assoc, parseStatementCore_assign]
    simp [parseAssignment, opTok, bind, Except.bind, pure, Except.pure, eraseInstr, normPhiInstr, eraseOpnd]
  | load d ty a vol =>
    cases vol with
    | false =>
      rw [show instrToks fmt (.load d ty a false) = tyToks ty ++ [.id d, .sym "=", .id "load", opTok a] from by
          simp [instrToks], List.append_assoc, parseStatementCore_assign]
      simp [parseAssignment, opTok, bind, Except.bind, pure, Except.pure, eraseInstr, normPhiInstr, eraseOpnd]
    | true =>
      rw [show instrToks fmt (.load d ty a true) = tyToks ty ++ [.id d, .sym "=", .id "volatile", .id "load", opTok a]
        from by simp [instrToks], List.append_assoc, parseStatementCore_assign]
      simp [parseAssignment, opTok, bind, Except.bind, pure, Except.pure, eraseInstr, normPhiInstr, eraseOpnd]
  | unop d ty op a =>
    rw [show instrToks fmt (.unop d ty op a) = tyToks ty ++ [.id d, .sym "=", unopTok op, opTok a] from rfl,
      List.append_assoc, parseStatementCore_assign]
    cases op with
    | neg =>
      have hn : next (Tok.sym "-" :: Tok.id (opName a) :: Tok.sym ";" :: rest) =
          .ok (Tok.sym "-", Tok.id (opName a) :: Tok.sym ";" :: rest) := next_ok _ _ (by simp) (by simp)
      simp [parseAssignment, unopTok, opTok, bind, Except.bind, pure, Except.pure, eraseInstr, normPhiInstr,
        eraseOpnd, hn]
    | not =>
      have hn : next (Tok.sym "~" :: Tok.id (opName a) :: Tok.sym ";" :: rest) =
          .ok (Tok.sym "~", Tok.id (opName a) :: Tok.sym ";" :: rest) := next_ok _ _ (by simp) (by simp)
      simp [parseAssignment, unopTok, opTok, bind, Except.bind, pure, Except.pure, eraseInstr, normPhiInstr,
        eraseOpnd, hn]
  | fcall d ty c args =>
    have hlen : args.length < fuel := by
      simp [operands, Instr.uses] at hf; omega
    have := parseArgs_ok args fuel (Tok.sym ";" :: rest) hlen (by simp)
    simp only [List.cons_append] at this
    rw [show instrToks fmt (.fcall d ty c args) = tyToks ty ++ ([.id d, .sym "=", .id "call", opTok c, .sym "("] ++
        commaSepT (args.map (fun a => [opTok a])) ++ [.sym ")"]) from by simp [instrToks],
      List.append_assoc, parseStatementCore_assign]
    simp [parseAssignment, opTok, bind, Except.bind, pure, Except.pure, eraseInstr, normPhiInstr, eraseOpnd,
      this, symBinop]
  | phi d ty ins =>
    have hlen : ((sortIns ins).map keyOf).length < fuel := by
      simp [operands] at hf
      simp [sortIns_length]; omega
    have hphi := parsePhiIns_ok ((sortIns ins).map keyOf) fuel (Tok.sym ";" :: rest) hlen (by simp)
      (by simp) (by simp)
    rw [show instrToks fmt (.phi d ty ins) = tyToks ty ++ ([.id d, .sym "=", .id "phi"] ++
        commaSepT ((phiPairs ins).map (fun p => [.id p.1, .sym ":", .id p.2]))) from by simp [instrToks],
      List.append_assoc, parseStatementCore_assign, phiPairs_eq]
    have htok : (fun p : String × String => [Tok.id p.1, Tok.sym ":", Tok.id p.2]) = tok3 := rfl
    rw [htok]
    cases hq : (sortIns ins).map keyOf with
    | nil =>
      rw [hq] at hphi
      simp only [List.map_nil, commaSepT, List.nil_append] at hphi
      simp [parseAssignment, commaSepT, symBinop_semi, hphi, bind, Except.bind, pure, Except.pure, eraseInstr,
        normPhiInstr, ← keyOf_glob, hq]
    | cons x xs =>
      rw [hq] at hphi
      have hphi' := hphi
      rw [commaSepT_eq] at hphi'
      simp only [tok3, List.cons_append, List.nil_append] at hphi'
      rw [commaSepT_eq]
      simp [parseAssignment, tok3, hphi', bind, Except.bind, pure, Except.pure, eraseInstr, normPhiInstr,
        ← keyOf_glob, hq]
  | binop d ty op a b =>
    rw [show instrToks fmt (.binop d ty op a b) = tyToks ty ++ [.id d, .sym "=", opTok a, binopTok op, opTok b]
      from rfl, List.append_assoc, parseStatementCore_assign]
    by_cases hrol : op = .rol
    · subst hrol
      simp [parseAssignment, opTok, binopTok, bind, Except.bind, pure, Except.pure, eraseInstr, normPhiInstr,
        eraseOpnd]
    · by_cases hror : op = .ror
      · subst hror
        simp [parseAssignment, opTok, binopTok, bind, Except.bind, pure, Except.pure, eraseInstr, normPhiInstr,
          eraseOpnd]
      · have hbt : binopTok op = .sym op.symbol := by cases op <;> first | rfl | exact absurd rfl hrol | exact absurd rfl hror
        have hn : next (Tok.sym op.symbol :: Tok.id (opName b) :: Tok.sym ";" :: rest) =
            .ok (Tok.sym op.symbol, Tok.id (opName b) :: Tok.sym ";" :: rest) := next_ok _ _ (by simp) (by simp)
        simp [parseAssignment, opTok, hbt, bind, Except.bind, pure, Except.pure, eraseInstr, normPhiInstr,
          eraseOpnd, symBinop_symbol op hrol hror, hn]
end

/-! ## the reader's loops are the builder programs -/

theorem commaSepT_length_ge {α : Type} (f : α → List Tok) (hf : ∀ a, 1 ≤ (f a).length) (l : List α) :
    l.length ≤ (commaSepT (l.map f)).length := by
  cases l with
  | nil => simp [commaSepT]
  | cons x xs =>
    rw [commaSepT_eq]
    have h1 := hf x
    have h2 : xs.length ≤ ((xs.map (fun y => Tok.sym "," :: f y)).flatten).length := by
      induction xs with
      | nil => simp
      | cons y ys ih => simp only [List.map_cons, List.flatten_cons, List.length_append, List.length_cons]; omega
    simp only [List.length_append, List.length_cons]; omega

theorem operands_le_toks (fmt : Nat → List Char) (i : Instr) (h : ∀ tpl a b c, i ≠ .asm tpl a b c) :
    (operands i).length ≤ (instrToks fmt i).length := by
  cases i with
  | asm tpl a b c => exact (h tpl a b c rfl).elim
  | fcall d ty c args =>
    have := commaSepT_length_ge (fun a : Operand => [opTok a]) (fun _ => by simp) args
    simp [operands, Instr.uses, instrToks]; omega
  | pcall c args =>
    have := commaSepT_length_ge (fun a : Operand => [opTok a]) (fun _ => by simp) args
    simp [operands, Instr.uses, instrToks]; omega
  | phi d ty ins =>
    have := commaSepT_length_ge (fun p : String × String => [Tok.id p.1, Tok.sym ":", Tok.id p.2])
      (fun _ => by simp) (phiPairs ins)
    have hl : (phiPairs ins).length = ins.length := by rw [phiPairs_eq]; simp [sortIns_length]
    simp [operands, instrToks]; omega
  | store ty v a vol => cases vol <;> simp [operands, Instr.uses, instrToks]
  | load d ty a vol => cases vol <;> simp [operands, Instr.uses, instrToks]
  | _ => simp [operands, Instr.uses, instrToks]

theorem head_append (ty : Ty) (R : List Tok) : ∃ x l, tyToks ty ++ R = .id x :: l := by
  obtain ⟨x, l, hx⟩ := tyToks_ne_nil ty
  exact ⟨x, l ++ R, by rw [hx]; rfl⟩

theorem instrToks_head (fmt : Nat → List Char) (i : Instr) (h : ∀ tpl a b c, i ≠ .asm tpl a b c) :
    ∃ x l, instrToks fmt i = .id x :: l := by
  cases i with
  | asm tpl a b c => exact (h tpl a b c rfl).elim
  | store ty v a vol => cases vol <;> exact ⟨_, _, rfl⟩
  | const d ty c =>
    have := head_append ty ([Tok.id d, Tok.sym "="] ++ constToks fmt c)
    simpa [instrToks, List.append_assoc] using this
  | undefined d ty => exact head_append ty _
  | literal d data => exact ⟨_, _, rfl⟩
  | alloc d s a => exact ⟨_, _, rfl⟩
  | addrof d s => exact ⟨_, _, rfl⟩
  | binop d ty op a b => exact head_append ty _
  | unop d ty op a => exact head_append ty _
  | cast d ty a => exact head_append ty _
  | load d ty a vol =>
    have := head_append ty ([.id d, .sym "="] ++ (if vol then [.id "volatile"] else []) ++ [.id "load", opTok a])
    simpa [instrToks, List.append_assoc] using this
  | phi d ty ins =>
    have := head_append ty ([.id d, .sym "=", .id "phi"] ++
      commaSepT ((phiPairs ins).map (fun p => [.id p.1, .sym ":", .id p.2])))
    simpa [instrToks, List.append_assoc] using this
  | fcall d ty c args =>
    have := head_append ty ([.id d, .sym "=", .id "call", opTok c, .sym "("] ++
      commaSepT (args.map (fun a => [opTok a])) ++ [.sym ")"])
    simpa [instrToks, List.append_assoc] using this
  | _ => exact ⟨_, _, rfl⟩

def stmtsToks (fmt : Nat → List Char) (is : List Instr) : List Tok :=
  (is.map (fun i => instrToks fmt i ++ [.sym ";"])).flatten

theorem parseStatement_eq (fmt : Nat → List Char) (fparse : String → Option Nat) (fuel : Nat) (st : BState)
    (i : Instr) (rest : Toks) (hp : PrintOk fmt fparse i) (hf : (instrToks fmt i).length < fuel) (hr : NF rest) :
    parseStatement fparse fuel st (instrToks fmt i ++ .sym ";" :: rest) =
      (match feedApp st (normPhiInstr i) with
       | .ok s => .ok (s, rest)
       | .error e => .error e) := by
  have hops : (operands i).length < fuel := Nat.lt_of_le_of_lt (operands_le_toks fmt i hp.noAsm) hf
  simp only [parseStatement, parseStatementCore_ok fmt fparse fuel i rest hp hops, bind, Except.bind, feedApp]
  cases feed st (eraseInstr (normPhiInstr i)) with
  | error e => rfl
  | ok p =>
    simp only [expectSym_ok _ _ hr]
    cases append p.1 p.2 with
    | error e => rfl
    | ok s => rfl

theorem parseStmts_eq (fmt : Nat → List Char) (fparse : String → Option Nat) (fuel : Nat) :
    ∀ (is : List Instr) (n : Nat) (st : BState) (rest : Toks),
      (∀ i ∈ is, PrintOk fmt fparse i) →
      (stmtsToks fmt is ++ .sym "}" :: rest).length < n →
      (stmtsToks fmt is ++ .sym "}" :: rest).length < fuel →
      parseStmts fparse fuel n st (stmtsToks fmt is ++ .sym "}" :: rest) =
        (match feedAll st (is.map normPhiInstr) with
         | .ok s => .ok (s, .sym "}" :: rest)
         | .error e => .error e) := by
  intro is
  induction is with
  | nil =>
    intro n st rest _ hn _
    cases n with
    | zero => simp at hn
    | succ k => simp [stmtsToks, parseStmts, feedAll, pure, Except.pure]
  | cons i is ih =>
    intro n st rest hp hn hfuel
    cases n with
    | zero => simp at hn
    | succ k =>
      have hi := hp i (by simp)
      obtain ⟨x, l, hx⟩ := instrToks_head fmt i hi.noAsm
      have hsplit : stmtsToks fmt (i :: is) ++ Tok.sym "}" :: rest =
          instrToks fmt i ++ Tok.sym ";" :: (stmtsToks fmt is ++ Tok.sym "}" :: rest) := by
        simp [stmtsToks]
      have hnfR : NF (stmtsToks fmt is ++ Tok.sym "}" :: rest) := by
        cases is with
        | nil => simp [stmtsToks]
        | cons j js =>
          obtain ⟨y, l', hy⟩ := instrToks_head fmt j (hp j (by simp)).noAsm
          simp [stmtsToks, hy]
      have hlen : (instrToks fmt i).length < fuel := by
        rw [hsplit] at hfuel; simp only [List.length_append] at hfuel; omega
      have hpk : (peek (stmtsToks fmt (i :: is) ++ Tok.sym "}" :: rest)).typ ≠ "}" := by
        rw [hsplit, hx]; simp
      rw [parseStmts]
      simp only [hpk, if_false, bind, Except.bind]
      rw [hsplit, parseStatement_eq fmt fparse fuel st i _ hi hlen hnfR]
      simp only [List.map_cons, feedAll]
      cases feedApp st (normPhiInstr i) with
      | error e => rfl
      | ok s =>
        have hn' : (stmtsToks fmt is ++ Tok.sym "}" :: rest).length < k := by
          rw [hsplit] at hn; simp only [List.length_append, List.length_cons] at hn ⊢; omega
        have hf' : (stmtsToks fmt is ++ Tok.sym "}" :: rest).length < fuel := by
          rw [hsplit] at hfuel; simp only [List.length_append, List.length_cons] at hfuel ⊢; omega
        exact ih k s rest (fun j hj => hp j (by simp [hj])) hn' hf'

theorem blockToks_eq (fmt : Nat → List Char) (b : Block) :
    blockToks fmt b = .id b.name :: .sym ":" :: .sym "{" :: (stmtsToks fmt b.instrs ++ [.sym "}"]) := by
  simp [blockToks, stmtsToks]

theorem parseBlock_eq (fmt : Nat → List Char) (fparse : String → Option Nat) (fuel : Nat) (st : BState)
    (b : Block) (rest : Toks) (hp : ∀ i ∈ b.instrs, PrintOk fmt fparse i)
    (hfuel : (blockToks fmt b ++ rest).length < fuel) (hr : NF rest) :
    parseBlock fparse fuel st (blockToks fmt b ++ rest) =
      (match blockText st (normPhiBlock b) with
       | .ok s => .ok (s, rest)
       | .error e => .error e) := by
  rw [blockToks_eq]
  have hlen : (stmtsToks fmt b.instrs ++ Tok.sym "}" :: rest).length < fuel := by
    rw [blockToks_eq] at hfuel
    simp only [List.length_append, List.length_cons, List.cons_append, List.append_assoc] at hfuel ⊢
    omega
  have hnfS : NF (stmtsToks fmt b.instrs ++ Tok.sym "}" :: rest) := by
    cases hb : b.instrs with
    | nil => simp [stmtsToks]
    | cons j js =>
      obtain ⟨y, l', hy⟩ := instrToks_head fmt j (hp j (by simp [hb])).noAsm
      simp [stmtsToks, hy]
  simp only [parseBlock, List.cons_append, List.append_assoc, List.nil_append,
    parseId_ok _ _ (show NF (Tok.sym ":" :: _) by simp), bind, Except.bind, blockText, normPhiBlock]
  cases beginBlockText st b.name with
  | error e => rfl
  | ok s1 =>
    simp only [expectSym_ok _ _ (show NF (Tok.sym "{" :: _) by simp), expectSym_ok _ _ hnfS,
      parseStmts_eq fmt fparse fuel b.instrs fuel s1 rest hp hlen hlen]
    cases feedAll s1 (b.instrs.map normPhiInstr) with
    | error e => rfl
    | ok s2 => simp only [expectSym_ok _ _ hr]; rfl

def blocksToks (fmt : Nat → List Char) (bs : List Block) : List Tok := (bs.map (blockToks fmt)).flatten

theorem parseBlocks_eq (fmt : Nat → List Char) (fparse : String → Option Nat) (fuel : Nat) :
    ∀ (bs : List Block) (n : Nat) (st : BState) (rest : Toks),
      (∀ b ∈ bs, ∀ i ∈ b.instrs, PrintOk fmt fparse i) →
      (blocksToks fmt bs ++ .sym "}" :: rest).length < n →
      (blocksToks fmt bs ++ .sym "}" :: rest).length < fuel →
      parseBlocks fparse fuel n st (blocksToks fmt bs ++ .sym "}" :: rest) =
        (match blocksWith blockText st (bs.map normPhiBlock) with
         | .ok s => .ok (s, .sym "}" :: rest)
         | .error e => .error e) := by
  intro bs
  induction bs with
  | nil =>
    intro n st rest _ hn _
    cases n with
    | zero => simp at hn
    | succ k => simp [blocksToks, parseBlocks, blocksWith, pure, Except.pure]
  | cons b bs ih =>
    intro n st rest hp hn hfuel
    cases n with
    | zero => simp at hn
    | succ k =>
      have hsplit : blocksToks fmt (b :: bs) ++ Tok.sym "}" :: rest =
          blockToks fmt b ++ (blocksToks fmt bs ++ Tok.sym "}" :: rest) := by
        simp [blocksToks]
      have hnfR : NF (blocksToks fmt bs ++ Tok.sym "}" :: rest) := by
        cases bs with
        | nil => simp [blocksToks]
        | cons c cs => simp [blocksToks, blockToks_eq]
      have hpk : (peek (blocksToks fmt (b :: bs) ++ Tok.sym "}" :: rest)).typ ≠ "}" := by
        rw [hsplit, blockToks_eq]; simp
      have hb1 : (blockToks fmt b).length ≥ 1 := by rw [blockToks_eq]; simp
      rw [parseBlocks]
      simp only [hpk, if_false, bind, Except.bind]
      rw [hsplit, parseBlock_eq fmt fparse fuel st b _ (hp b (by simp)) (by rw [← hsplit]; exact hfuel) hnfR]
      simp only [List.map_cons, blocksWith]
      cases blockText st (normPhiBlock b) with
      | error e => rfl
      | ok s =>
        have hn' : (blocksToks fmt bs ++ Tok.sym "}" :: rest).length < k := by
          rw [hsplit] at hn; simp only [List.length_append] at hn ⊢; omega
        have hf' : (blocksToks fmt bs ++ Tok.sym "}" :: rest).length < fuel := by
          rw [hsplit] at hfuel; simp only [List.length_append] at hfuel ⊢; omega
        exact ih k s rest (fun c hc => hp c (by simp [hc])) hn' hf'

/-! ## parameters, subroutines -/

def paramToks (p : String × Ty) : List Tok := tyToks p.2 ++ [.id p.1]

theorem parseParams_eq : ∀ (ps : List (String × Ty)) (n : Nat) (st : BState) (rest : Toks),
    ps.length < n → NF rest →
    parseParams n st (commaSepT (ps.map paramToks) ++ .sym ")" :: rest) =
      (match paramsAll st ps with
       | .ok s => .ok (s, ps, .sym ")" :: rest)
       | .error e => .error e) := by
  intro ps
  induction ps with
  | nil =>
    intro n st rest hn _
    cases n with
    | zero => omega
    | succ k => simp [parseParams, commaSepT, paramsAll, pure, Except.pure]
  | cons p ps ih =>
    intro n st rest hn hr
    cases n with
    | zero => omega
    | succ k =>
      have hk : ps.length < k := by simp at hn; omega
      obtain ⟨x, l, hx⟩ := tyToks_ne_nil p.2
      cases ps with
      | nil =>
        have hpk : (peek (commaSepT ([p].map paramToks) ++ Tok.sym ")" :: rest)).typ ≠ ")" := by
          simp [commaSepT, paramToks, hx]
        rw [parseParams]
        simp only [hpk, if_false]
        simp only [List.map_cons, List.map_nil, commaSepT, paramToks, List.append_assoc, List.cons_append,
          List.nil_append, parseType_ok p.2 _ (show NF (Tok.id p.1 :: _) by simp),
          parseId_ok _ _ (show NF (Tok.sym ")" :: rest) by simp), bind, Except.bind, paramsAll]
        cases defineLocal st p.1 p.2 with
        | error e => rfl
        | ok s => simp [pure, Except.pure]
      | cons q qs =>
        have hcs : commaSepT ((p :: q :: qs).map paramToks) =
            paramToks p ++ Tok.sym "," :: commaSepT ((q :: qs).map paramToks) := rfl
        have hpk : (peek (commaSepT ((p :: q :: qs).map paramToks) ++ Tok.sym ")" :: rest)).typ ≠ ")" := by
          rw [hcs]; simp [paramToks, hx]
        obtain ⟨y, l', hy⟩ := tyToks_ne_nil q.2
        have hnf : NF (commaSepT ((q :: qs).map paramToks) ++ Tok.sym ")" :: rest) := by
          rw [commaSepT_eq]; simp [paramToks, hy]
        rw [parseParams]
        simp only [hpk, if_false]
        rw [hcs, show paramsAll st (p :: q :: qs) = (match defineLocal st p.1 p.2 with
            | .error e => .error e
            | .ok s => paramsAll s (q :: qs)) from rfl]
        simp only [paramToks, List.append_assoc, List.cons_append, List.nil_append,
          parseType_ok p.2 _ (show NF (Tok.id p.1 :: _) by simp),
          parseId_ok _ _ (show NF (Tok.sym "," :: _) by simp), bind, Except.bind]
        cases defineLocal st p.1 p.2 with
        | error e => rfl
        | ok s =>
          have hih := ih k s rest hk hr
          simp only [peek_cons, typ_sym, ne_eq, not_true_eq_false, if_false, expectSym_ok _ _ hnf, hih]
          cases paramsAll s (q :: qs) with
          | error e => rfl
          | ok s' => simp [pure, Except.pure]

def retToks : Option Ty → List Tok
  | some t => .id "function" :: tyToks t
  | none => [.id "procedure"]

theorem funcToks_eq (fmt : Nat → List Char) (f : Func) :
    funcToks fmt f = bindingTok f.isGlobal :: (retToks f.ret ++ .id f.name :: .sym "(" ::
      (commaSepT (f.params.map paramToks) ++ .sym ")" :: .sym "{" :: (blocksToks fmt f.blocks ++ [.sym "}"]))) := by
  have hpt : (fun p : String × Ty => tyToks p.2 ++ [Tok.id p.1]) = paramToks := rfl
  cases hr : f.ret <;> simp [funcToks, retToks, hr, blocksToks, hpt]

theorem parseFunction_eq (fmt : Nat → List Char) (fparse : String → Option Nat) (fuel : Nat) (st : BState)
    (f : Func) (rest : Toks) (hp : ∀ b ∈ f.blocks, ∀ i ∈ b.instrs, PrintOk fmt fparse i)
    (hfuel : (funcToks fmt f ++ rest).length < fuel) (hr : NF rest) :
    parseFunction fparse fuel f.isGlobal st ((funcToks fmt f ++ rest).tail) =
      (match funcWith blockText st (normPhiFunc f) with
       | .ok s => .ok (s, rest)
       | .error e => .error e) := by
  rw [funcToks_eq] at hfuel ⊢
  simp only [List.cons_append, List.tail_cons, List.append_assoc, List.nil_append]
  have hlenP : f.params.length < fuel := by
    have := commaSepT_length_ge paramToks (fun p => by simp [paramToks]) f.params
    simp only [List.cons_append, List.length_cons, List.length_append, List.append_assoc] at hfuel
    omega
  have hlenB : (blocksToks fmt f.blocks ++ Tok.sym "}" :: rest).length < fuel := by
    simp only [List.cons_append, List.length_cons, List.length_append, List.append_assoc, List.nil_append] at hfuel ⊢
    omega
  have hnfB : NF (blocksToks fmt f.blocks ++ Tok.sym "}" :: rest) := by
    cases hb : f.blocks with
    | nil => simp [blocksToks]
    | cons c cs => simp [blocksToks, blockToks_eq]
  have hnfP : NF (commaSepT (f.params.map paramToks) ++ Tok.sym ")" :: Tok.sym "{" ::
      (blocksToks fmt f.blocks ++ Tok.sym "}" :: rest)) := by
    cases hps : f.params with
    | nil => simp [commaSepT]
    | cons q qs =>
      obtain ⟨y, l', hy⟩ := tyToks_ne_nil q.2
      rw [commaSepT_eq]; simp [paramToks, hy]
  cases hret : f.ret with
  | none =>
    simp only [parseFunction, retToks, List.cons_append, List.nil_append, atKeyword_id, String.reduceEq,
      decide_false, Bool.false_eq_true, if_false, consumeKeyword_ok _ _ (show NF (Tok.id f.name :: _) by simp),
      parseId_ok _ _ (show NF (Tok.sym "(" :: _) by simp), bind, Except.bind, pure, Except.pure, funcWith,
      normPhiFunc, hret]
    cases defineGlobal st f.name with
    | error e => rfl
    | ok s0 =>
      simp only [expectSym_ok _ _ hnfP, parseParams_eq f.params fuel (beginFunc s0) _ hlenP
        (show NF (Tok.sym "{" :: _) by simp)]
      cases paramsAll (beginFunc s0) f.params with
      | error e => rfl
      | ok s1 =>
        simp only [expectSym_ok _ _ (show NF (Tok.sym "{" :: _) by simp), expectSym_ok _ _ hnfB,
          parseBlocks_eq fmt fparse fuel f.blocks fuel s1 rest hp hlenB hlenB]
        cases blocksWith blockText s1 (f.blocks.map normPhiBlock) with
        | error e => rfl
        | ok s2 =>
          simp only [expectSym_ok _ _ hr]
          cases endFunc s2 f.name f.isGlobal none f.params with
          | error e => rfl
          | ok s3 => rfl
  | some t =>
    obtain ⟨y, l', hy⟩ := tyToks_ne_nil t
    have h1 : NF (tyToks t ++ Tok.id f.name :: Tok.sym "(" :: (commaSepT (f.params.map paramToks) ++ Tok.sym ")" ::
        Tok.sym "{" :: (blocksToks fmt f.blocks ++ Tok.sym "}" :: rest))) := by rw [hy]; simp
    simp only [parseFunction, retToks, List.cons_append, List.nil_append, atKeyword_id, decide_true, if_true,
      consumeKeyword_ok _ _ h1, parseType_ok t _ (show NF (Tok.id f.name :: _) by simp),
      parseId_ok _ _ (show NF (Tok.sym "(" :: _) by simp), bind, Except.bind, pure, Except.pure, funcWith,
      normPhiFunc, hret]
    cases defineGlobal st f.name with
    | error e => rfl
    | ok s0 =>
      simp only [expectSym_ok _ _ hnfP, parseParams_eq f.params fuel (beginFunc s0) _ hlenP
        (show NF (Tok.sym "{" :: _) by simp)]
      cases paramsAll (beginFunc s0) f.params with
      | error e => rfl
      | ok s1 =>
        simp only [expectSym_ok _ _ (show NF (Tok.sym "{" :: _) by simp), expectSym_ok _ _ hnfB,
          parseBlocks_eq fmt fparse fuel f.blocks fuel s1 rest hp hlenB hlenB]
        cases blocksWith blockText s1 (f.blocks.map normPhiBlock) with
        | error e => rfl
        | ok s2 =>
          simp only [expectSym_ok _ _ hr]
          cases endFunc s2 f.name f.isGlobal (some t) f.params with
          | error e => rfl
          | ok s3 => rfl

/-! ## module level -/

/-- what follows a declaration: the next declaration (it starts with an identifier) or the end -/
def DeclStart (T : Toks) : Prop := (∃ x r, T = .id x :: r) ∨ T = [.eof]

theorem DeclStart.nf {T : Toks} (h : DeclStart T) : NF T := by
  rcases h with ⟨x, r, rfl⟩ | rfl <;> simp

theorem DeclStart.peek_typ {T : Toks} (h : DeclStart T) :
    (peek T).typ = "ID" ∨ (peek T).typ = "eof" := by
  rcases h with ⟨x, r, rfl⟩ | rfl <;> simp

def partBytesOk : InitPart → Prop
  | .bytes bs => ∀ x ∈ bs, x < 256
  | .ref _ => True

theorem parseInitParts_ok : ∀ (ps : List InitPart) (n : Nat) (T : Toks), ps.length < n → DeclStart T →
    (∀ p ∈ ps, partBytesOk p) →
    parseInitParts n (commaSepT (ps.map initPartToks) ++ T) = .ok (ps, T) := by
  intro ps
  induction ps with
  | nil =>
    intro n T hn hT _
    cases n with
    | zero => omega
    | succ k =>
      rcases hT with ⟨x, r, rfl⟩ | rfl <;> simp [parseInitParts, commaSepT, pure, Except.pure]
  | cons p ps ih =>
    intro n T hn hT hb
    cases n with
    | zero => omega
    | succ k =>
      have hk : ps.length < k := by simp at hn; omega
      have hTc : (peek T).typ ≠ "," := by rcases hT.peek_typ with h | h <;> simp [h]
      cases ps with
      | nil =>
        cases p with
        | ref nm =>
          simp [parseInitParts, commaSepT, initPartToks, expectSym_ok, parseId_ok _ _ hT.nf, hTc, bind, Except.bind,
            pure, Except.pure]
        | bytes bs =>
          have hn1 : next (Tok.str (String.ofList (hexlify bs)) :: T) = .ok (Tok.str (String.ofList (hexlify bs)), T) :=
            next_ok _ _ (by simp) hT.nf
          have := unhexlify_hexlify' bs (hb (.bytes bs) (by simp))
          simp [parseInitParts, commaSepT, initPartToks, hn1, this, hTc, bind, Except.bind, pure, Except.pure]
      | cons q qs =>
        have hcs : commaSepT ((p :: q :: qs).map initPartToks) =
            initPartToks p ++ Tok.sym "," :: commaSepT ((q :: qs).map initPartToks) := rfl
        have hih := ih k T hk hT (fun x hx => hb x (by simp [hx]))
        have hnf : NF (commaSepT ((q :: qs).map initPartToks) ++ T) := by
          rw [commaSepT_eq]; cases q <;> simp [initPartToks]
        rw [hcs]
        cases p with
        | ref nm =>
          simp only [initPartToks, List.cons_append, List.nil_append, parseInitParts, peek_cons,
            expectSym_ok _ _ (show NF (Tok.id nm :: _) by simp),
            parseId_ok _ _ (show NF (Tok.sym "," :: _) by simp), bind, Except.bind, typ_sym, ne_eq,
            not_true_eq_false, if_false, expectSym_ok _ _ hnf, hih, pure, Except.pure]
        | bytes bs =>
          have hn1 : next (Tok.str (String.ofList (hexlify bs)) :: Tok.sym "," ::
              (commaSepT ((q :: qs).map initPartToks) ++ T)) =
              .ok (Tok.str (String.ofList (hexlify bs)), Tok.sym "," :: (commaSepT ((q :: qs).map initPartToks) ++ T)) :=
            next_ok _ _ (by simp) (by simp)
          have := unhexlify_hexlify' bs (hb (.bytes bs) (by simp))
          simp only [initPartToks, List.cons_append, List.nil_append, parseInitParts, peek_cons, hn1,
            String.toList_ofList, this, bind, Except.bind, typ_sym, ne_eq, not_true_eq_false, if_false,
            expectSym_ok _ _ hnf, hih, pure, Except.pure]

theorem varToks_eq (v : GVar) :
    varToks v = bindingTok v.isGlobal :: .id "variable" :: .id v.name :: .sym "(" :: .int v.size :: .id "bytes" ::
      .id "aligned" :: .id "at" :: .int v.align :: .sym ")" ::
      (match v.init with
       | none => []
       | some ps => .sym "=" :: commaSepT (ps.map initPartToks)) := by
  cases v with
  | mk name isGlobal size align init => cases init <;> rfl

theorem parseVariable_ok {gdone : List String} {st : BState} (h : PreInv gdone st) (fuel : Nat) (v : GVar)
    (T : Toks) (hx : v.name ∉ gdone) (hT : DeclStart T) (hfuel : (varToks v ++ T).length < fuel)
    (hb : ∀ ps, v.init = some ps → ∀ p ∈ ps, partBytesOk p) :
    ∃ st', parseVariable fuel v.isGlobal st ((varToks v ++ T).tail) = .ok (st', v, T) ∧
      PreInv (v.name :: gdone) st' := by
  obtain ⟨st', e1, h1⟩ := defineGlobal_fresh h v.name hx
  refine ⟨st', ?_, h1⟩
  rw [varToks_eq] at hfuel ⊢
  cases v with
  | mk name isGlobal size align init =>
    have e1' : defineGlobal st name = .ok st' := e1
    cases init with
    | none =>
      have hTeq : (peek T).typ ≠ "=" := by rcases hT.peek_typ with h' | h' <;> simp [h']
      simp only [List.cons_append, List.tail_cons, List.nil_append, parseVariable,
        consumeKeyword_ok _ _ (show NF (Tok.id name :: _) by simp),
        parseId_ok _ _ (show NF (Tok.sym "(" :: _) by simp),
        expectSym_ok _ _ (show NF (Tok.int (size : Int) :: _) by simp),
        parseNat_ok _ _ (show NF (Tok.id "bytes" :: _) by simp),
        consumeKeyword_ok _ _ (show NF (Tok.id "aligned" :: _) by simp),
        consumeKeyword_ok _ _ (show NF (Tok.id "at" :: _) by simp),
        consumeKeyword_ok _ _ (show NF (Tok.int (align : Int) :: _) by simp),
        parseNat_ok _ _ (show NF (Tok.sym ")" :: _) by simp), expectSym_ok _ _ hT.nf,
        bind, Except.bind, hTeq, if_false, pure, Except.pure, e1']
    | some ps =>
      have hlen : ps.length < fuel := by
        have := commaSepT_length_ge initPartToks (fun p => by cases p <;> simp [initPartToks]) ps
        simp only [List.cons_append, List.length_cons, List.length_append] at hfuel
        omega
      have hnfI : NF (commaSepT (ps.map initPartToks) ++ T) := by
        cases ps with
        | nil => simpa [commaSepT] using hT.nf
        | cons q qs => rw [commaSepT_eq]; cases q <;> simp [initPartToks]
      simp only [List.cons_append, List.tail_cons, parseVariable,
        consumeKeyword_ok _ _ (show NF (Tok.id name :: _) by simp),
        parseId_ok _ _ (show NF (Tok.sym "(" :: _) by simp),
        expectSym_ok _ _ (show NF (Tok.int (size : Int) :: _) by simp),
        parseNat_ok _ _ (show NF (Tok.id "bytes" :: _) by simp),
        consumeKeyword_ok _ _ (show NF (Tok.id "aligned" :: _) by simp),
        consumeKeyword_ok _ _ (show NF (Tok.id "at" :: _) by simp),
        consumeKeyword_ok _ _ (show NF (Tok.int (align : Int) :: _) by simp),
        parseNat_ok _ _ (show NF (Tok.sym ")" :: _) by simp),
        expectSym_ok _ _ (show NF (Tok.sym "=" :: _) by simp), peek_cons, typ_sym, if_true,
        expectSym_ok _ _ hnfI, parseInitParts_ok ps fuel T hlen hT (hb ps rfl),
        bind, Except.bind, pure, Except.pure, e1']

theorem externToks_eq (e : Extern) :
    externToks e = .id "external" ::
      ((match e.kind with
        | .var => [.id "variable", .id e.name]
        | .proc ts => .id "procedure" :: .id e.name :: .sym "(" :: (commaSepT (ts.map tyToks) ++ [.sym ")"])
        | .func ts r => .id "function" :: (tyToks r ++ .id e.name :: .sym "(" :: (commaSepT (ts.map tyToks) ++ [.sym ")"])))
       ++ [.sym ";"]) := by
  cases e with
  | mk name kind => cases kind <;> simp [externToks]

theorem parseExternal_ok {gdone : List String} {st : BState} (h : PreInv gdone st) (fuel : Nat) (e : Extern)
    (T : Toks) (hx : e.name ∉ gdone) (hT : NF T) (hfuel : (externToks e ++ T).length < fuel) :
    ∃ st', parseExternal fuel st (externToks e ++ T) = .ok (st', e, T) ∧ PreInv (e.name :: gdone) st' := by
  obtain ⟨st', e1, h1⟩ := defineGlobal_fresh h e.name hx
  refine ⟨st', ?_, h1⟩
  rw [externToks_eq] at hfuel ⊢
  cases e with
  | mk name kind =>
    have e1' : defineGlobal st name = .ok st' := e1
    cases kind with
    | var =>
      simp only [List.cons_append, List.nil_append, parseExternal,
        consumeKeyword_ok _ _ (show NF (Tok.id "variable" :: _) by simp), atKeyword_id, String.reduceEq,
        decide_false, decide_true, Bool.false_eq_true, if_false, if_true,
        consumeKeyword_ok _ _ (show NF (Tok.id name :: _) by simp),
        parseId_ok _ _ (show NF (Tok.sym ";" :: _) by simp), expectSym_ok _ _ hT,
        bind, Except.bind, pure, Except.pure, e1']
    | proc ts =>
      have hlen : ts.length < fuel := by
        have := commaSepT_length_ge tyToks (fun t => by obtain ⟨x, l, hx⟩ := tyToks_ne_nil t; simp [hx]) ts
        simp only [List.cons_append, List.length_cons, List.length_append] at hfuel
        omega
      have hbt := parseBracedTypes_ok ts fuel (Tok.sym ";" :: T) hlen (by simp)
      simp only [List.cons_append] at hbt
      simp only [List.cons_append, List.nil_append, List.append_assoc, parseExternal,
        consumeKeyword_ok _ _ (show NF (Tok.id "procedure" :: _) by simp), atKeyword_id, String.reduceEq,
        decide_false, decide_true, Bool.false_eq_true, if_false, if_true,
        consumeKeyword_ok _ _ (show NF (Tok.id name :: _) by simp),
        parseId_ok _ _ (show NF (Tok.sym "(" :: _) by simp), hbt, expectSym_ok _ _ hT,
        bind, Except.bind, pure, Except.pure, e1']
    | func ts r =>
      have hlen : ts.length < fuel := by
        have := commaSepT_length_ge tyToks (fun t => by obtain ⟨x, l, hx⟩ := tyToks_ne_nil t; simp [hx]) ts
        simp only [List.cons_append, List.length_cons, List.length_append] at hfuel
        omega
      have hbt := parseBracedTypes_ok ts fuel (Tok.sym ";" :: T) hlen (by simp)
      simp only [List.cons_append] at hbt
      obtain ⟨y, l', hy⟩ := tyToks_ne_nil r
      have h1' : NF (tyToks r ++ Tok.id name :: Tok.sym "(" :: (commaSepT (ts.map tyToks) ++ Tok.sym ")" ::
          Tok.sym ";" :: T)) := by rw [hy]; simp
      simp only [List.cons_append, List.nil_append, List.append_assoc, parseExternal,
        consumeKeyword_ok _ _ (show NF (Tok.id "function" :: _) by simp), atKeyword_id, decide_true, if_true,
        consumeKeyword_ok _ _ h1', parseType_ok r _ (show NF (Tok.id name :: _) by simp),
        parseId_ok _ _ (show NF (Tok.sym "(" :: _) by simp), hbt, expectSym_ok _ _ hT,
        bind, Except.bind, pure, Except.pure, e1']

def externsToks (es : List Extern) : List Tok := (es.map externToks).flatten
def varsToks (vs : List GVar) : List Tok := (vs.map varToks).flatten
def funcsToks (fmt : Nat → List Char) (fs : List Func) : List Tok := (fs.map (funcToks fmt)).flatten

theorem declStart_externs (es : List Extern) (T : Toks) (hT : DeclStart T) : DeclStart (externsToks es ++ T) := by
  cases es with
  | nil => simpa [externsToks] using hT
  | cons e r =>
    exact Or.inl ⟨"external", _, by
      rw [show externsToks (e :: r) = externToks e ++ externsToks r from by simp [externsToks], externToks_eq]; rfl⟩

theorem declStart_vars (vs : List GVar) (T : Toks) (hT : DeclStart T) : DeclStart (varsToks vs ++ T) := by
  cases vs with
  | nil => simpa [varsToks] using hT
  | cons v r =>
    have hs : varsToks (v :: r) = varToks v ++ varsToks r := by simp [varsToks]
    cases hg : v.isGlobal
    · exact Or.inl ⟨"local", _, by rw [hs, varToks_eq, hg]; rfl⟩
    · exact Or.inl ⟨"global", _, by rw [hs, varToks_eq, hg]; rfl⟩

theorem declStart_funcs (fmt : Nat → List Char) (fs : List Func) : DeclStart (funcsToks fmt fs ++ [.eof]) := by
  cases fs with
  | nil => exact Or.inr (by simp [funcsToks])
  | cons f r =>
    have hs : funcsToks fmt (f :: r) = funcToks fmt f ++ funcsToks fmt r := by simp [funcsToks]
    cases hg : f.isGlobal
    · exact Or.inl ⟨"local", _, by rw [hs, funcToks_eq, hg]; rfl⟩
    · exact Or.inl ⟨"global", _, by rw [hs, funcToks_eq, hg]; rfl⟩

theorem parseDecls_externs (fparse : String → Option Nat) (fuel : Nat) :
    ∀ (es : List Extern) (n : Nat) (acc : MAcc) (gdone : List String) (T : Toks),
      PreInv gdone acc.st → (gdone ++ es.map (·.name)).Nodup → DeclStart T →
      (externsToks es ++ T).length < n → (externsToks es ++ T).length < fuel →
      ∃ st' n', T.length < n' ∧
        parseDecls fparse fuel n acc (externsToks es ++ T) =
          parseDecls fparse fuel n' { acc with st := st', externs := acc.externs ++ es } T ∧
        PreInv ((es.map (·.name)).reverse ++ gdone) st' := by
  intro es
  induction es with
  | nil =>
    intro n acc gdone T h _ _ hn _
    exact ⟨acc.st, n, by simpa [externsToks] using hn, by simp [externsToks], by simpa using h⟩
  | cons e es ih =>
    intro n acc gdone T h hnd hT hn hfuel
    cases n with
    | zero => simp at hn
    | succ k =>
      have hfresh : e.name ∉ gdone := by
        have := (List.nodup_append.1 hnd).2.2
        intro hm; exact this e.name hm e.name (by simp) rfl
      have hsplit : externsToks (e :: es) ++ T = externToks e ++ (externsToks es ++ T) := by simp [externsToks]
      have hR := declStart_externs es T hT
      obtain ⟨s1, e1, h1⟩ := parseExternal_ok h fuel e (externsToks es ++ T) hfresh hR.nf (by rw [← hsplit]; exact hfuel)
      have hnd1 : ((e.name :: gdone) ++ es.map (·.name)).Nodup := by
        have h1 := hnd
        simp only [List.map_cons] at h1
        have : (gdone ++ e.name :: es.map (·.name)).Perm ((e.name :: gdone) ++ es.map (·.name)) := by
          simpa using List.perm_middle
        exact this.nodup_iff.1 h1
      have hlen1 : (externToks e).length ≥ 1 := by rw [externToks_eq]; simp
      have hk : (externsToks es ++ T).length < k := by
        rw [hsplit] at hn; simp only [List.length_append] at hn ⊢; omega
      have hf' : (externsToks es ++ T).length < fuel := by
        rw [hsplit] at hfuel; simp only [List.length_append] at hfuel ⊢; omega
      obtain ⟨st', n', hn', e2, h2⟩ := ih k { acc with st := s1, externs := acc.externs ++ [e] }
        (e.name :: gdone) T h1 hnd1 hT hk hf'
      refine ⟨st', n', hn', ?_, by simpa using h2⟩
      rw [parseDecls]
      have hpk : (peek (externsToks (e :: es) ++ T)).typ ≠ "eof" := by rw [hsplit, externToks_eq]; simp
      have hkw : atKeyword "external" (externsToks (e :: es) ++ T) = true := by rw [hsplit, externToks_eq]; simp
      simp only [hpk, if_false, hkw, if_true, bind, Except.bind]
      rw [hsplit, e1]
      simp only [e2, List.append_assoc, List.cons_append, List.nil_append]

theorem parseDecls_vars (fparse : String → Option Nat) (fuel : Nat) :
    ∀ (vs : List GVar) (n : Nat) (acc : MAcc) (gdone : List String) (T : Toks),
      PreInv gdone acc.st → (gdone ++ vs.map (·.name)).Nodup → DeclStart T →
      (∀ v ∈ vs, ∀ ps, v.init = some ps → ∀ p ∈ ps, partBytesOk p) →
      (varsToks vs ++ T).length < n → (varsToks vs ++ T).length < fuel →
      ∃ st' n', T.length < n' ∧
        parseDecls fparse fuel n acc (varsToks vs ++ T) =
          parseDecls fparse fuel n' { acc with st := st', vars := acc.vars ++ vs } T ∧
        PreInv ((vs.map (·.name)).reverse ++ gdone) st' := by
  intro vs
  induction vs with
  | nil =>
    intro n acc gdone T h _ _ _ hn _
    exact ⟨acc.st, n, by simpa [varsToks] using hn, by simp [varsToks], by simpa using h⟩
  | cons v vs ih =>
    intro n acc gdone T h hnd hT hb hn hfuel
    cases n with
    | zero => simp at hn
    | succ k =>
      have hfresh : v.name ∉ gdone := by
        have := (List.nodup_append.1 hnd).2.2
        intro hm; exact this v.name hm v.name (by simp) rfl
      have hsplit : varsToks (v :: vs) ++ T = varToks v ++ (varsToks vs ++ T) := by simp [varsToks]
      have hR := declStart_vars vs T hT
      obtain ⟨s1, e1, h1⟩ := parseVariable_ok h fuel v (varsToks vs ++ T) hfresh hR (by rw [← hsplit]; exact hfuel)
        (hb v (by simp))
      have hnd1 : ((v.name :: gdone) ++ vs.map (·.name)).Nodup := by
        have h1 := hnd
        simp only [List.map_cons] at h1
        have : (gdone ++ v.name :: vs.map (·.name)).Perm ((v.name :: gdone) ++ vs.map (·.name)) := by
          simpa using List.perm_middle
        exact this.nodup_iff.1 h1
      have hlen1 : (varToks v).length ≥ 1 := by rw [varToks_eq]; simp
      have hk : (varsToks vs ++ T).length < k := by
        rw [hsplit] at hn; simp only [List.length_append] at hn ⊢; omega
      have hf' : (varsToks vs ++ T).length < fuel := by
        rw [hsplit] at hfuel; simp only [List.length_append] at hfuel ⊢; omega
      obtain ⟨st', n', hn', e2, h2⟩ := ih k { acc with st := s1, vars := acc.vars ++ [v] }
        (v.name :: gdone) T h1 hnd1 hT (fun x hx => hb x (by simp [hx])) hk hf'
      refine ⟨st', n', hn', ?_, by simpa using h2⟩
      rw [parseDecls, hsplit]
      have hvt : varToks v ++ (varsToks vs ++ T) =
          bindingTok v.isGlobal :: Tok.id "variable" :: ((varToks v ++ (varsToks vs ++ T)).tail.tail) := by
        rw [varToks_eq]; rfl
      have htl : (varToks v ++ (varsToks vs ++ T)).tail = Tok.id "variable" :: (varToks v ++ (varsToks vs ++ T)).tail.tail := by
        rw [varToks_eq]; rfl
      rw [htl] at e1
      rw [hvt]
      cases hg : v.isGlobal
      · rw [hg] at e1
        simp only [bindingTok, Bool.false_eq_true, if_false, peek_cons, typ_id, String.reduceEq, atKeyword_id,
          decide_false, decide_true, if_true, consumeKeyword_ok _ _ (show NF (Tok.id "variable" :: _) by simp),
          bind, Except.bind, pure, Except.pure, e1, e2, List.append_assoc, List.cons_append, List.nil_append]
      · rw [hg] at e1
        simp only [bindingTok, if_true, peek_cons, typ_id, String.reduceEq, atKeyword_id,
          decide_false, decide_true, Bool.false_eq_true, if_false,
          consumeKeyword_ok _ _ (show NF (Tok.id "variable" :: _) by simp),
          bind, Except.bind, pure, Except.pure, e1, e2, List.append_assoc, List.cons_append, List.nil_append]

theorem parseDecls_funcs (fmt : Nat → List Char) (fparse : String → Option Nat) (fuel : Nat) :
    ∀ (fs : List Func) (n : Nat) (acc : MAcc),
      (∀ f ∈ fs, ∀ b ∈ f.blocks, ∀ i ∈ b.instrs, PrintOk fmt fparse i) →
      (funcsToks fmt fs ++ [Tok.eof]).length < n → (funcsToks fmt fs ++ [Tok.eof]).length < fuel →
      parseDecls fparse fuel n acc (funcsToks fmt fs ++ [.eof]) =
        (match funcsWith blockText acc.st (fs.map normPhiFunc) with
         | .ok s => .ok ({ acc with st := s }, [.eof])
         | .error e => .error e) := by
  intro fs
  induction fs with
  | nil =>
    intro n acc _ hn _
    cases n with
    | zero => simp at hn
    | succ k => simp [funcsToks, parseDecls, funcsWith, pure, Except.pure]
  | cons f fs ih =>
    intro n acc hp hn hfuel
    cases n with
    | zero => simp at hn
    | succ k =>
      have hsplit : funcsToks fmt (f :: fs) ++ [Tok.eof] = funcToks fmt f ++ (funcsToks fmt fs ++ [Tok.eof]) := by
        simp [funcsToks]
      have hR := declStart_funcs fmt fs
      have e1 := parseFunction_eq fmt fparse fuel acc.st f (funcsToks fmt fs ++ [Tok.eof]) (hp f (by simp))
        (by rw [← hsplit]; exact hfuel) hR.nf
      have hlen1 : (funcToks fmt f).length ≥ 1 := by rw [funcToks_eq]; simp
      have hk : (funcsToks fmt fs ++ [Tok.eof]).length < k := by
        rw [hsplit] at hn; simp only [List.length_append] at hn ⊢; omega
      have hf' : (funcsToks fmt fs ++ [Tok.eof]).length < fuel := by
        rw [hsplit] at hfuel; simp only [List.length_append] at hfuel ⊢; omega
      rw [parseDecls, hsplit]
      have hft : funcToks fmt f ++ (funcsToks fmt fs ++ [Tok.eof]) =
          bindingTok f.isGlobal :: (funcToks fmt f ++ (funcsToks fmt fs ++ [Tok.eof])).tail := by
        rw [funcToks_eq]; rfl
      have hkw : ∃ x r, (funcToks fmt f ++ (funcsToks fmt fs ++ [Tok.eof])).tail = Tok.id x :: r ∧
          (x = "function" ∨ x = "procedure") := by
        rw [funcToks_eq]
        cases hr : f.ret with
        | none => exact ⟨"procedure", _, rfl, Or.inr rfl⟩
        | some t => exact ⟨"function", _, rfl, Or.inl rfl⟩
      obtain ⟨x, r, hxr, hx⟩ := hkw
      rw [hft]
      simp only [List.map_cons, funcsWith]
      have hvar : ¬ x = "variable" := by rcases hx with rfl | rfl <;> decide
      have hfp : (decide (x = "function") || decide (x = "procedure")) = true := by
        rcases hx with rfl | rfl <;> decide
      rw [hxr] at e1 ⊢
      cases hg : f.isGlobal
      · rw [hg] at e1
        simp only [bindingTok, Bool.false_eq_true, if_false, peek_cons, typ_id, String.reduceEq, atKeyword_id,
          decide_false, decide_true, if_true, consumeKeyword_ok _ _ (show NF (Tok.id x :: r) by simp),
          bind, Except.bind, pure, Except.pure, hvar, hfp, e1]
        cases funcWith blockText acc.st (normPhiFunc f) with
        | error e => rfl
        | ok s => exact ih k { acc with st := s } (fun g hg' => hp g (by simp [hg'])) hk hf'
      · rw [hg] at e1
        simp only [bindingTok, if_true, peek_cons, typ_id, String.reduceEq, atKeyword_id,
          decide_false, decide_true, Bool.false_eq_true, if_false,
          consumeKeyword_ok _ _ (show NF (Tok.id x :: r) by simp),
          bind, Except.bind, pure, Except.pure, hvar, hfp, e1]
        cases funcWith blockText acc.st (normPhiFunc f) with
        | error e => rfl
        | ok s => exact ih k { acc with st := s } (fun g hg' => hp g (by simp [hg'])) hk hf'

/-! ## sorting the inputs of a phi keeps a function inside the fragment -/

theorem insertIn_perm (q : String × Operand) (l : List (String × Operand)) : (insertIn q l).Perm (q :: l) := by
  induction l with
  | nil => exact List.Perm.refl _
  | cons p r ih =>
    simp only [insertIn]
    split
    · exact List.Perm.refl _
    · exact (List.Perm.cons p ih).trans (List.Perm.swap q p r)

theorem sortIns_perm (l : List (String × Operand)) : (sortIns l).Perm l := by
  induction l with
  | nil => exact List.Perm.refl _
  | cons q r ih => exact (insertIn_perm q (sortIns r)).trans (List.Perm.cons q ih)

theorem all_of_mem_iff {α : Type} (p : α → Bool) (l1 l2 : List α) (h : ∀ x, x ∈ l1 ↔ x ∈ l2) :
    l1.all p = l2.all p := by
  rw [Bool.eq_iff_iff, List.all_eq_true, List.all_eq_true]
  exact ⟨fun h1 x hx => h1 x ((h x).2 hx), fun h1 x hx => h1 x ((h x).1 hx)⟩

theorem dst_normPhiInstr (i : Instr) : (normPhiInstr i).dst? = i.dst? := by cases i <;> rfl
theorem isTerminator_normPhiInstr (i : Instr) : (normPhiInstr i).isTerminator = i.isTerminator := by cases i <;> rfl

theorem operands_normPhi_mem (i : Instr) (o : Operand) : o ∈ operands (normPhiInstr i) ↔ o ∈ operands i := by
  cases i with
  | phi d ty ins =>
    simp only [normPhiInstr, operands]
    exact ((sortIns_perm ins).map (·.2)).mem_iff
  | _ => rfl

theorem blockRefs_normPhi_mem (i : Instr) (b : String) : b ∈ blockRefsOf (normPhiInstr i) ↔ b ∈ blockRefsOf i := by
  cases i with
  | phi d ty ins =>
    simp only [normPhiInstr, blockRefsOf]
    exact ((sortIns_perm ins).map (·.1)).mem_iff
  | _ => rfl

theorem typedOk_normPhi (G : List String) (env : TyEnv) (i : Instr) :
    typedOk G env (normPhiInstr i) = typedOk G env i := by
  cases i with
  | phi d ty ins =>
    simp only [normPhiInstr, typedOk]
    exact all_of_mem_iff _ _ _ (fun x => (sortIns_perm ins).mem_iff)
  | _ => rfl

theorem phiKeys_normPhi (i : Instr) :
    nodupB ((normPhiInstr i).phiIns.map (·.1)) = nodupB (i.phiIns.map (·.1)) := by
  cases i with
  | phi d ty ins =>
    simp only [normPhiInstr, Instr.phiIns]
    rw [Bool.eq_iff_iff, nodupB_iff, nodupB_iff]
    exact ((sortIns_perm ins).map (·.1)).nodup_iff
  | _ => rfl

theorem instrDsts_map_normPhi (l : List Instr) : instrDsts (l.map normPhiInstr) = instrDsts l := by
  induction l with
  | nil => rfl
  | cons i r ih =>
    simp only [List.map_cons, instrDsts, List.filterMap_cons, dst_normPhiInstr]
    simp only [instrDsts] at ih
    rw [ih]

theorem instrsOf_normPhi (bs : List Block) :
    instrsOf (bs.map normPhiBlock) = (instrsOf bs).map normPhiInstr := by
  induction bs with
  | nil => rfl
  | cons b r ih =>
    simp only [List.map_cons, instrsOf, List.flatMap_cons, normPhiBlock, List.map_append]
    simp only [instrsOf] at ih
    rw [ih]

theorem noEarlyTerminator_map_normPhi (l : List Instr) :
    noEarlyTerminator (l.map normPhiInstr) = noEarlyTerminator l := by
  induction l with
  | nil => rfl
  | cons i r ih =>
    cases r with
    | nil => rfl
    | cons j r' =>
      simp only [List.map_cons, noEarlyTerminator_cons2, isTerminator_normPhiInstr]
      simp only [List.map_cons] at ih
      rw [ih]

theorem funcFacts_normPhi {G : List String} {f : Func} (F : FuncFacts G f) : FuncFacts G (normPhiFunc f) := by
  have hbn : bnamesOf (normPhiFunc f).blocks = bnamesOf f.blocks := by
    simp [normPhiFunc, bnamesOf, normPhiBlock, Function.comp]
  have hinstrs : instrsOf (normPhiFunc f).blocks = (instrsOf f.blocks).map normPhiInstr := instrsOf_normPhi f.blocks
  have hdsts : instrDsts (instrsOf (normPhiFunc f).blocks) = instrDsts (instrsOf f.blocks) := by
    rw [hinstrs, instrDsts_map_normPhi]
  have henv : Func.env (normPhiFunc f) = Func.env f := by
    show f.params ++ instrDsts (instrsOf (normPhiFunc f).blocks) = f.params ++ instrDsts (instrsOf f.blocks)
    rw [hdsts]
  have hmem : ∀ i', i' ∈ instrsOf (normPhiFunc f).blocks → ∃ i, i ∈ instrsOf f.blocks ∧ i' = normPhiInstr i := by
    intro i' hi'
    rw [hinstrs] at hi'
    obtain ⟨i, hi, rfl⟩ := List.mem_map.1 hi'
    exact ⟨i, hi, rfl⟩
  refine ⟨by rw [henv]; exact F.ndEnv, by rw [hbn, hdsts]; exact F.ndNames, by rw [henv]; exact F.disj,
    ?_, ?_, ?_, ?_, ?_, ?_⟩
  · intro i' hi' o ho
    obtain ⟨i, hi, rfl⟩ := hmem i' hi'
    rw [henv]
    exact F.ops i hi o ((operands_normPhi_mem i o).1 ho)
  · intro i' hi' b hb
    obtain ⟨i, hi, rfl⟩ := hmem i' hi'
    rw [hbn]
    exact F.refs i hi b ((blockRefs_normPhi_mem i b).1 hb)
  · intro i' hi'
    obtain ⟨i, hi, rfl⟩ := hmem i' hi'
    rw [henv, typedOk_normPhi]
    exact F.typed i hi
  · intro b' hb'
    obtain ⟨b, hb, rfl⟩ := List.mem_map.1 (show b' ∈ f.blocks.map normPhiBlock from hb')
    show noEarlyTerminator (b.instrs.map normPhiInstr) = true
    rw [noEarlyTerminator_map_normPhi]
    exact F.term b hb
  · show (f.blocks.map normPhiBlock).head?.map (·.name) = some f.entry
    rw [← F.entry]
    cases f.blocks <;> rfl
  · intro i' hi'
    obtain ⟨i, hi, rfl⟩ := hmem i' hi'
    rw [phiKeys_normPhi]
    exact F.phi i hi

/-! ## the theorem at the level of tokens -/

theorem toksModule_eq (fmt : Nat → List Char) (m : Module) :
    toksModule fmt m = .id "module" :: .id m.name :: .sym ";" ::
      (externsToks m.externs ++ (varsToks m.vars ++ (funcsToks fmt m.funcs ++ [.eof]))) := by
  simp [toksModule, externsToks, varsToks, funcsToks]

theorem parseToks_toksModule (fmt : Nat → List Char) (fparse : String → Option Nat) (m : Module)
    (hcore : fragCore m = true)
    (hp : ∀ f ∈ m.funcs, ∀ b ∈ f.blocks, ∀ i ∈ b.instrs, PrintOk fmt fparse i) :
    parseToks fparse (toksModule fmt m) = .ok (normPhi m) := by
  unfold fragCore at hcore
  simp only [Bool.and_eq_true, List.all_eq_true] at hcore
  obtain ⟨⟨hG, hvars⟩, hfuncs⟩ := hcore
  have hGnd : m.globalNames.Nodup := (nodupB_iff _).1 hG
  have hnames : m.globalNames = m.externs.map (fun e : Extern => e.name) ++ m.vars.map (fun v : GVar => v.name) ++
      m.funcs.map (fun f : Func => f.name) := rfl
  -- the token sequence and the fuel
  let T3 : Toks := funcsToks fmt m.funcs ++ [Tok.eof]
  let T2 : Toks := varsToks m.vars ++ T3
  let T1 : Toks := externsToks m.externs ++ T2
  have hD3 : DeclStart T3 := declStart_funcs fmt m.funcs
  have hD2 : DeclStart T2 := declStart_vars m.vars T3 hD3
  have hD1 : DeclStart T1 := declStart_externs m.externs T2 hD2
  -- unfold the reader up to the declaration loop; the fuel is the number of tokens + 1
  rw [toksModule_eq]
  simp only [parseToks, bind, Except.bind]
  have hstart : start (Tok.id "module" :: Tok.id m.name :: Tok.sym ";" :: T1) =
      .ok (Tok.id "module" :: Tok.id m.name :: Tok.sym ";" :: T1) := rfl
  show (match start (Tok.id "module" :: Tok.id m.name :: Tok.sym ";" :: T1) with
    | Except.error err => Except.error err
    | Except.ok ts => _) = _
  rw [hstart]
  have hexp : expectSym ";" (Tok.sym ";" :: (externsToks m.externs ++ (varsToks m.vars ++
      (funcsToks fmt m.funcs ++ [Tok.eof])))) = .ok T1 := expectSym_ok _ _ hD1.nf
  simp only [consumeKeyword_ok _ _ (show NF (Tok.id m.name :: _) by simp),
    parseId_ok _ _ (show NF (Tok.sym ";" :: _) by simp), hexp]
  generalize hFu : (Tok.id "module" :: Tok.id m.name :: Tok.sym ";" :: T1).length + 1 = fuel
  have hfuel : T1.length < fuel := by rw [← hFu]; simp; omega
  -- externals
  have h0 : PreInv [] ({} : MAcc).st := ⟨by simp, rfl, rfl, rfl, rfl⟩
  have hnd_e : (([] : List String) ++ m.externs.map (fun e : Extern => e.name)).Nodup := by
    rw [hnames, List.append_assoc] at hGnd
    simpa using (List.nodup_append.1 hGnd).1
  obtain ⟨s1, n1, hn1, e1, h1⟩ := parseDecls_externs fparse fuel m.externs fuel {} [] T2 h0 hnd_e hD2 hfuel hfuel
  -- variables
  have hnd_v : (((m.externs.map (fun e : Extern => e.name)).reverse ++ []) ++ m.vars.map (fun v : GVar => v.name)).Nodup := by
    rw [hnames] at hGnd
    have := (List.nodup_append.1 hGnd).1
    have hpm : ((m.externs.map (fun e : Extern => e.name)).reverse ++ [] ++ m.vars.map (fun v : GVar => v.name)).Perm
        (m.externs.map (fun e : Extern => e.name) ++ m.vars.map (fun v : GVar => v.name)) := by
      simpa using (List.reverse_perm _).append_right _
    exact hpm.nodup_iff.2 this
  have hbytes : ∀ v ∈ m.vars, ∀ ps, v.init = some ps → ∀ p ∈ ps, partBytesOk p := by
    intro v hv ps hps p hpp
    have := hvars v hv
    rw [hps] at this
    have := List.all_eq_true.1 (by simpa [initOk] using this) p hpp
    cases p with
    | ref n => trivial
    | bytes bs =>
      intro x hx
      have := List.all_eq_true.1 (by simpa using this) x hx
      simpa [isByte] using this
  have hfuel2 : T2.length < fuel := by
    have : T2.length ≤ T1.length := by simp [T1]
    omega
  obtain ⟨s2, n2, hn2, e2, h2⟩ := parseDecls_vars fparse fuel m.vars n1
    { ({} : MAcc) with st := s1, externs := ({} : MAcc).externs ++ m.externs } _ T3 h1 hnd_v hD3 hbytes hn1 hfuel2
  -- subroutines
  have hfuel3 : T3.length < fuel := by
    have : T3.length ≤ T2.length := by simp [T2]
    omega
  have e3 := parseDecls_funcs fmt fparse fuel m.funcs n2
    { ({} : MAcc) with st := s2, externs := ({} : MAcc).externs ++ m.externs, vars := ({} : MAcc).vars ++ m.vars }
    hp hn2 hfuel3
  let gdone := (m.vars.map (fun v : GVar => v.name)).reverse ++ ((m.externs.map (fun e : Extern => e.name)).reverse ++ [])
  have hgd : ∀ x, x ∈ gdone ↔ (x ∈ m.externs.map (fun e : Extern => e.name) ∨ x ∈ m.vars.map (fun v : GVar => v.name)) := by
    intro x; simp [gdone, or_comm]
  have hM : MInv m.globalNames gdone [] s2 :=
    ⟨h2.globals, by intro x t hx; rw [h2.pending] at hx; simp [lookupTy] at hx, h2.funcs, h2.cur, h2.blocks⟩
  have hnmap : (m.funcs.map normPhiFunc).map (fun f : Func => f.name) = m.funcs.map (fun f : Func => f.name) := by
    simp [normPhiFunc, Function.comp]
  have hnd_f : (gdone ++ (m.funcs.map normPhiFunc).map (fun f : Func => f.name)).Nodup := by
    rw [hnmap]
    have hpm : (gdone ++ m.funcs.map (fun f : Func => f.name)).Perm m.globalNames := by
      rw [hnames]
      apply List.Perm.append_right
      simp only [gdone, List.append_nil]
      exact ((List.reverse_perm _).append (List.reverse_perm _)).trans List.perm_append_comm
    exact hpm.nodup_iff.2 hGnd
  obtain ⟨s3, e4, hM3, _⟩ := funcsWith_spec blockText_spec hGnd (m.funcs.map normPhiFunc) gdone [] s2 hM
    (by intro x hx; rw [hnames]; rcases (hgd x).1 hx with h' | h' <;> simp [h'])
    (by
      intro f hf
      obtain ⟨g, hg, rfl⟩ := List.mem_map.1 hf
      rw [hnames]; simp only [List.mem_append, List.mem_map]; exact Or.inr ⟨g, hg, rfl⟩)
    hnd_f (by intro g hg; simp at hg)
    (by
      intro f hf
      obtain ⟨g, hg, rfl⟩ := List.mem_map.1 hf
      exact funcFacts_normPhi (funcFacts_of_core (hfuncs g hg)))
  have hpend : s3.pending = [] := by
    apply pending_nil_of_no_entry
    intro x t hx
    obtain ⟨hxG, hxn, _⟩ := hM3.pend x t hx
    apply hxn
    rw [hM3.globals x, hnmap]
    rw [hnames] at hxG
    simp only [List.mem_append, List.mem_reverse] at hxG ⊢
    rcases hxG with (h' | h') | h'
    · exact Or.inr ((hgd x).2 (Or.inl h'))
    · exact Or.inr ((hgd x).2 (Or.inr h'))
    · exact Or.inl h'
  have hfin : finishFuncs s3 = .ok (m.funcs.map normPhiFunc) := by
    simp [finishFuncs, hpend, danglePending, hM3.funcs]
  have eall := e1.trans (e2.trans e3)
  have eall' : parseDecls fparse fuel fuel {} T1 = _ := eall
  rw [eall', e4]
  simp [hfin, pure, Except.pure, normPhi]

/-! ## printing the re-read module gives the same text (sorting is idempotent) -/

theorem pairLe_total (p q : String × String) (h : pairLe p q = false) : pairLe q p = true := by
  obtain ⟨p1, p2⟩ := p
  obtain ⟨q1, q2⟩ := q
  simp only [pairLe, Bool.or_eq_false_iff, Bool.and_eq_false_iff, decide_eq_false_iff_not, beq_eq_false_iff_ne,
    ne_eq] at h
  obtain ⟨h1, h2⟩ := h
  simp only [pairLe, Bool.or_eq_true, Bool.and_eq_true, decide_eq_true_eq, beq_iff_eq]
  by_cases he : p1 = q1
  · subst he
    rcases h2 with h2 | ⟨h2, h3⟩
    · exact absurd rfl h2
    · right
      refine ⟨rfl, ?_⟩
      by_cases hlt : q2 < p2
      · exact Or.inl hlt
      · exact Or.inr (String.le_antisymm (String.not_lt.1 h2) (String.not_lt.1 hlt))
  · left
    by_cases hlt : q1 < p1
    · exact hlt
    · exact absurd (String.le_antisymm (String.not_lt.1 hlt) (String.not_lt.1 h1)) he

def sortedP : List (String × String) → Prop
  | [] => True
  | [_] => True
  | p :: q :: r => pairLe p q = true ∧ sortedP (q :: r)

theorem sortedP_tail {p : String × String} {l : List (String × String)} (h : sortedP (p :: l)) : sortedP l := by
  cases l with
  | nil => trivial
  | cons q r => exact h.2

theorem insertPair_sorted (p : String × String) (l : List (String × String)) (h : sortedP l) :
    sortedP (insertPair p l) := by
  induction l with
  | nil => trivial
  | cons q r ih =>
    simp only [insertPair]
    by_cases hpq : pairLe p q = true
    · simp only [hpq, if_true]; exact ⟨hpq, h⟩
    · simp only [hpq, Bool.false_eq_true, if_false]
      have hqp : pairLe q p = true := pairLe_total p q (by simpa using hpq)
      have ih' := ih (sortedP_tail h)
      cases r with
      | nil => exact ⟨hqp, trivial⟩
      | cons x xs =>
        simp only [insertPair] at ih' ⊢
        by_cases hpx : pairLe p x = true
        · simp only [hpx, if_true] at ih' ⊢
          exact ⟨hqp, ih'⟩
        · simp only [hpx, Bool.false_eq_true, if_false] at ih' ⊢
          exact ⟨h.1, ih'⟩

theorem sortPairs_sorted (l : List (String × String)) : sortedP (sortPairs l) := by
  induction l with
  | nil => trivial
  | cons p r ih => exact insertPair_sorted p _ ih

theorem sortPairs_of_sorted (l : List (String × String)) (h : sortedP l) : sortPairs l = l := by
  induction l with
  | nil => rfl
  | cons p r ih =>
    simp only [sortPairs, ih (sortedP_tail h)]
    cases r with
    | nil => rfl
    | cons q r' => simp [insertPair, h.1]

theorem sortPairs_idem (l : List (String × String)) : sortPairs (sortPairs l) = sortPairs l :=
  sortPairs_of_sorted _ (sortPairs_sorted l)

theorem phiPairs_sortIns (ins : List (String × Operand)) : phiPairs (sortIns ins) = phiPairs ins := by
  show sortPairs ((sortIns ins).map keyOf) = sortPairs (ins.map keyOf)
  rw [← sortPairs_map ins]
  exact sortPairs_idem _

theorem instrToks_normPhi (fmt : Nat → List Char) (i : Instr) : instrToks fmt (normPhiInstr i) = instrToks fmt i := by
  cases i with
  | phi d ty ins =>
    show tyToks ty ++ [Tok.id d, Tok.sym "=", Tok.id "phi"] ++
        commaSepT ((phiPairs (sortIns ins)).map (fun p => [Tok.id p.1, Tok.sym ":", Tok.id p.2])) =
      tyToks ty ++ [Tok.id d, Tok.sym "=", Tok.id "phi"] ++
        commaSepT ((phiPairs ins).map (fun p => [Tok.id p.1, Tok.sym ":", Tok.id p.2]))
    rw [phiPairs_sortIns]
  | _ => rfl

theorem instrChars_normPhi (fmt : Nat → List Char) (i : Instr) : instrChars fmt (normPhiInstr i) = instrChars fmt i := by
  cases i with
  | phi d ty ins =>
    show tyChars ty ++ ' ' :: d.toList ++ " = phi ".toList ++
        commaSep ((phiPairs (sortIns ins)).map (fun p => p.1.toList ++ ':' :: ' ' :: p.2.toList)) =
      tyChars ty ++ ' ' :: d.toList ++ " = phi ".toList ++
        commaSep ((phiPairs ins).map (fun p => p.1.toList ++ ':' :: ' ' :: p.2.toList))
    rw [phiPairs_sortIns]
  | _ => rfl

theorem map_comp_congr {α β : Type} (f : α → β) (g : α → α) (l : List α) (h : ∀ a, f (g a) = f a) :
    (l.map g).map f = l.map f := by
  rw [List.map_map]
  exact List.map_congr_left (fun a _ => h a)

theorem toksModule_normPhi (fmt : Nat → List Char) (m : Module) : toksModule fmt (normPhi m) = toksModule fmt m := by
  have hb : ∀ b : Block, blockToks fmt (normPhiBlock b) = blockToks fmt b := by
    intro b
    show [Tok.id b.name, Tok.sym ":", Tok.sym "{"] ++
        ((b.instrs.map normPhiInstr).map (fun i => instrToks fmt i ++ [Tok.sym ";"])).flatten ++ [Tok.sym "}"] = _
    rw [map_comp_congr _ _ _ (fun i => by rw [instrToks_normPhi])]
    rfl
  have hf : ∀ f : Func, funcToks fmt (normPhiFunc f) = funcToks fmt f := by
    intro f
    show [bindingTok f.isGlobal] ++ _ ++ [Tok.id f.name, Tok.sym "("] ++ _ ++ [Tok.sym ")", Tok.sym "{"] ++
        ((f.blocks.map normPhiBlock).map (blockToks fmt)).flatten ++ [Tok.sym "}"] = _
    rw [map_comp_congr _ _ _ hb]
    rfl
  show [Tok.id "module", Tok.id m.name, Tok.sym ";"] ++ _ ++ _ ++
      ((m.funcs.map normPhiFunc).map (funcToks fmt)).flatten ++ [Tok.eof] = _
  rw [map_comp_congr _ _ _ hf]
  rfl

theorem printModule_normPhi (fmt : Nat → List Char) (m : Module) : printModule fmt (normPhi m) = printModule fmt m := by
  have hb : ∀ b : Block, blockChars fmt (normPhiBlock b) = blockChars fmt b := by
    intro b
    show "  ".toList ++ b.name.toList ++ ": {\n".toList ++
        ((b.instrs.map normPhiInstr).map (fun i => "    ".toList ++ instrChars fmt i ++ ";\n".toList)).flatten ++
        "  }\n\n".toList = _
    rw [map_comp_congr _ _ _ (fun i => by rw [instrChars_normPhi])]
    rfl
  have hf : ∀ f : Func, funcChars fmt (normPhiFunc f) = funcChars fmt f := by
    intro f
    show '\n' :: funcHeadChars f ++ " {\n".toList ++ ((f.blocks.map normPhiBlock).map (blockChars fmt)).flatten ++
        "}\n".toList = _
    rw [map_comp_congr _ _ _ hb]
    rfl
  show "module ".toList ++ m.name.toList ++ ";\n".toList ++ _ ++ _ ++
      ((m.funcs.map normPhiFunc).map (funcChars fmt)).flatten = _
  rw [map_comp_congr _ _ _ hf]
  rfl

/-! ## the order of the inputs of a phi does not matter to `Spec.IR` -/

theorem lookupStr_perm {β : Type} {l1 l2 : List (String × β)} (hp : l1.Perm l2) (hnd : (l1.map (·.1)).Nodup)
    (k : String) : lookupStr l1 k = lookupStr l2 k := by
  induction hp with
  | nil => rfl
  | cons x _ ih =>
    obtain ⟨a, v⟩ := x
    simp only [List.map_cons, List.nodup_cons] at hnd
    simp only [lookupStr, ih hnd.2]
  | swap x y l =>
    obtain ⟨a, v⟩ := x
    obtain ⟨b, w⟩ := y
    simp only [List.map_cons, List.nodup_cons, List.mem_cons, not_or] at hnd
    have hab : ¬ b = a := hnd.1.1
    simp only [lookupStr]
    by_cases hka : k = a
    · subst hka
      have : ¬ k = b := fun e => hab e.symm
      simp [this]
    · simp [hka]
  | trans h1 _ ih1 ih2 =>
    rw [ih1 hnd, ih2 ((h1.map (·.1)).nodup_iff.1 hnd)]

/-- the values the phis of a block take on an edge are the same for the module as written and as read back -/
theorem phiValues_normPhi (ctx : Ctx) (env : Env) (pred : String) (is : List Instr)
    (h : ∀ i ∈ is, nodupB (i.phiIns.map (·.1)) = true) :
    phiValues ctx env pred (is.map normPhiInstr) = phiValues ctx env pred is := by
  induction is with
  | nil => rfl
  | cons i r ih =>
    have hr := ih (fun j hj => h j (by simp [hj]))
    cases i with
    | phi d ty ins =>
      have hnd : ((sortIns ins).map (·.1)).Nodup := by
        have h0 : (ins.map (·.1)).Nodup := (nodupB_iff _).1 (by simpa [Instr.phiIns] using h (.phi d ty ins) (by simp))
        exact ((sortIns_perm ins).map (·.1)).nodup_iff.2 h0
      simp only [List.map_cons, normPhiInstr, phiValues, lookupStr_perm (sortIns_perm ins) hnd pred, hr]
    | _ => simpa [normPhiInstr, phiValues] using hr

end Proofs.IRText
