import PpciVerif.Model.RVEnc
/-!
Helper lemmas for C08 (riscv): the `put` chains of `Model.RVEnc` compute explicit sums, and
`Spec.RV32.decode` of a word assembled from its six R-format fields is the field-level decoder
`decodeF` (every 32-bit word is such an assembly).  Only `omega`/`simp`; no Mathlib.
-/
set_option linter.unusedSimpArgs false
namespace Proofs.RVEnc
open Spec.RV32 Model.RVEnc

theorem put_ok (lo w : Nat) (v tok : Int) (h0 : -((2 ^ w : Nat) : Int) ≤ v) (h1 : v < ((2 ^ w : Nat) : Int))
    (hz : tok / ((2 ^ lo : Nat) : Int) % ((2 ^ w : Nat) : Int) = 0) :
    put lo w v tok = .ok (tok + (v % ((2 ^ w : Nat) : Int)) * ((2 ^ lo : Nat) : Int)) := by
  unfold put
  simp only []
  rw [if_neg (by omega), if_neg (by omega), hz]
  simp

/-- marker for the stored field value, so that a proof can abstract it -/
def fld (v M : Int) : Int := v % M

theorem put_okf (lo w : Nat) (v tok : Int) (h0 : -((2 ^ w : Nat) : Int) ≤ v) (h1 : v < ((2 ^ w : Nat) : Int))
    (hz : tok / ((2 ^ lo : Nat) : Int) % ((2 ^ w : Nat) : Int) = 0) :
    put lo w v tok = .ok (tok + fld v ((2 ^ w : Nat) : Int) * ((2 ^ lo : Nat) : Int)) := put_ok lo w v tok h0 h1 hz

/-- the defining equation of an abstracted field, hidden from `omega` until `Def` is unfolded -/
def Def (x v : Int) : Prop := x = v

theorem fld_spec {v M x : Int} (h : fld v M = x) (hM : 0 < M) : (0 ≤ x ∧ x < M) ∧ Def x (v % M) := by
  subst h
  exact ⟨⟨Int.emod_nonneg _ (by omega), Int.emod_lt_of_pos _ hM⟩, rfl⟩

/-- fields written in increasing bit order: everything so far lies below `lo` -/
theorem hz_of_lt (lo w : Nat) (tok : Int) (h0 : 0 ≤ tok) (h1 : tok < ((2 ^ lo : Nat) : Int)) :
    tok / ((2 ^ lo : Nat) : Int) % ((2 ^ w : Nat) : Int) = 0 := by
  rw [Int.ediv_eq_zero_of_lt h0 h1]; simp

/-- the 32-bit word with the six R-format fields -/
def asmR (opc rd f3 rs1 rs2 f7 : Nat) : Nat :=
  opc + rd * 128 + f3 * 4096 + rs1 * 32768 + rs2 * 1048576 + f7 * 33554432

structure Bnd (opc rd f3 rs1 rs2 f7 : Nat) : Prop where
  opc : opc < 128
  rd : rd < 32
  f3 : f3 < 8
  rs1 : rs1 < 32
  rs2 : rs2 < 32
  f7 : f7 < 128

/-! immediates in terms of the fields -/
def immIF (rs2 f7 : Nat) : Int := sext 12 (rs2 + f7 * 32)
def immSF (rd f7 : Nat) : Int := sext 12 (f7 * 32 + rd)
def immBF (rd f7 : Nat) : Int := sext 13 (f7 / 64 * 4096 + rd % 2 * 2048 + f7 % 64 * 32 + rd / 2 * 2)
def immJF (f3 rs1 rs2 f7 : Nat) : Int :=
  sext 21 (f7 / 64 * 1048576 + (f3 + rs1 * 8) * 4096 + rs2 % 2 * 2048 + (rs2 / 2 + f7 % 64 * 16) * 2)

/-- `Spec.RV32.decode` on the fields -/
def decodeF (opcode rd f3 rs1 rs2 f7 : Nat) : Option Instr :=
  if opcode = 0x37 then some (.lui rd ((f3 + rs1 * 8 + rs2 * 256 + f7 * 8192)))
  else if opcode = 0x17 then some (.auipc rd ((f3 + rs1 * 8 + rs2 * 256 + f7 * 8192)))
  else if opcode = 0x6f then some (.jal rd (immJF f3 rs1 rs2 f7))
  else if opcode = 0x67 then (if f3 = 0 then some (.jalr rd rs1 (immIF rs2 f7)) else none)
  else if opcode = 0x63 then
    (if f3 = 0 then some (.branch .beq rs1 rs2 (immBF rd f7))
     else if f3 = 1 then some (.branch .bne rs1 rs2 (immBF rd f7))
     else if f3 = 4 then some (.branch .blt rs1 rs2 (immBF rd f7))
     else if f3 = 5 then some (.branch .bge rs1 rs2 (immBF rd f7))
     else if f3 = 6 then some (.branch .bltu rs1 rs2 (immBF rd f7))
     else if f3 = 7 then some (.branch .bgeu rs1 rs2 (immBF rd f7))
     else none)
  else if opcode = 0x03 then
    (if f3 = 0 then some (.load .lb rd rs1 (immIF rs2 f7))
     else if f3 = 1 then some (.load .lh rd rs1 (immIF rs2 f7))
     else if f3 = 2 then some (.load .lw rd rs1 (immIF rs2 f7))
     else if f3 = 4 then some (.load .lbu rd rs1 (immIF rs2 f7))
     else if f3 = 5 then some (.load .lhu rd rs1 (immIF rs2 f7))
     else none)
  else if opcode = 0x23 then
    (if f3 = 0 then some (.store .sb rs2 rs1 (immSF rd f7))
     else if f3 = 1 then some (.store .sh rs2 rs1 (immSF rd f7))
     else if f3 = 2 then some (.store .sw rs2 rs1 (immSF rd f7))
     else none)
  else if opcode = 0x13 then
    (if f3 = 0 then some (.alui .addi rd rs1 (immIF rs2 f7))
     else if f3 = 2 then some (.alui .slti rd rs1 (immIF rs2 f7))
     else if f3 = 3 then some (.alui .sltiu rd rs1 (immIF rs2 f7))
     else if f3 = 4 then some (.alui .xori rd rs1 (immIF rs2 f7))
     else if f3 = 6 then some (.alui .ori rd rs1 (immIF rs2 f7))
     else if f3 = 7 then some (.alui .andi rd rs1 (immIF rs2 f7))
     else if f3 = 1 then (if f7 = 0 then some (.shift .slli rd rs1 rs2) else none)
     else (if f7 = 0 then some (.shift .srli rd rs1 rs2)
           else if f7 = 0x20 then some (.shift .srai rd rs1 rs2) else none))
  else if opcode = 0x33 then
    (if f7 = 0 then
       (if f3 = 0 then some (.alu .add rd rs1 rs2)
        else if f3 = 1 then some (.alu .sll rd rs1 rs2)
        else if f3 = 2 then some (.alu .slt rd rs1 rs2)
        else if f3 = 3 then some (.alu .sltu rd rs1 rs2)
        else if f3 = 4 then some (.alu .xor rd rs1 rs2)
        else if f3 = 5 then some (.alu .srl rd rs1 rs2)
        else if f3 = 6 then some (.alu .or rd rs1 rs2)
        else some (.alu .and rd rs1 rs2))
     else if f7 = 0x20 then
       (if f3 = 0 then some (.alu .sub rd rs1 rs2)
        else if f3 = 5 then some (.alu .sra rd rs1 rs2)
        else none)
     else if f7 = 1 then
       (if f3 = 0 then some (.mul .mul rd rs1 rs2)
        else if f3 = 1 then some (.mul .mulh rd rs1 rs2)
        else if f3 = 2 then some (.mul .mulhsu rd rs1 rs2)
        else if f3 = 3 then some (.mul .mulhu rd rs1 rs2)
        else if f3 = 4 then some (.mul .div rd rs1 rs2)
        else if f3 = 5 then some (.mul .divu rd rs1 rs2)
        else if f3 = 6 then some (.mul .rem rd rs1 rs2)
        else some (.mul .remu rd rs1 rs2))
     else none)
  else if opcode = 0x0f then
    -- FENCE with fm = 0, rd = rs1 = 0 (the only form RV32I defines; others are reserved)
    (if f3 = 0 ∧ rd = 0 ∧ rs1 = 0 ∧ (f7 / 8) = 0 then some (.fence ((rs2 / 16 + f7 % 8 * 2)) ((rs2 % 16))) else none)
  else if opcode = 0x73 then
    (if f3 = 0 then
       -- SYSTEM, funct3 = 0: rd = rs1 = 0 and funct12 selects ECALL / EBREAK / MRET
       (if rd = 0 ∧ rs1 = 0 then
          (if (rs2 + f7 * 32) = 0 then some .ecall
           else if (rs2 + f7 * 32) = 1 then some .ebreak
           else if (rs2 + f7 * 32) = 0x302 then some .mret
           else none)
        else none)
     else if f3 = 1 then some (.csr .rw rd rs1 ((rs2 + f7 * 32)))
     else if f3 = 2 then some (.csr .rs rd rs1 ((rs2 + f7 * 32)))
     else if f3 = 3 then some (.csr .rc rd rs1 ((rs2 + f7 * 32)))
     else if f3 = 5 then some (.csri .rw rd rs1 ((rs2 + f7 * 32)))
     else if f3 = 6 then some (.csri .rs rd rs1 ((rs2 + f7 * 32)))
     else if f3 = 7 then some (.csri .rc rd rs1 ((rs2 + f7 * 32)))
     else none)
  else none

theorem decode_asmR {opc rd f3 rs1 rs2 f7 : Nat} (hb : Bnd opc rd f3 rs1 rs2 f7) :
    decode (asmR opc rd f3 rs1 rs2 f7) = decodeF opc rd f3 rs1 rs2 f7 := by
  obtain ⟨h1, h2, h3, h4, h5, h6⟩ := hb
  have e0 : ¬ (2 ^ 32 ≤ asmR opc rd f3 rs1 rs2 f7) := by unfold asmR; omega
  have e1 : bits (asmR opc rd f3 rs1 rs2 f7) 0 7 = opc := by unfold bits asmR; omega
  have e2 : bits (asmR opc rd f3 rs1 rs2 f7) 7 5 = rd := by unfold bits asmR; omega
  have e3 : bits (asmR opc rd f3 rs1 rs2 f7) 12 3 = f3 := by unfold bits asmR; omega
  have e4 : bits (asmR opc rd f3 rs1 rs2 f7) 15 5 = rs1 := by unfold bits asmR; omega
  have e5 : bits (asmR opc rd f3 rs1 rs2 f7) 20 5 = rs2 := by unfold bits asmR; omega
  have e6 : bits (asmR opc rd f3 rs1 rs2 f7) 25 7 = f7 := by unfold bits asmR; omega
  have e7 : bits (asmR opc rd f3 rs1 rs2 f7) 12 20 = f3 + rs1 * 8 + rs2 * 256 + f7 * 8192 := by unfold bits asmR; omega
  have e8 : bits (asmR opc rd f3 rs1 rs2 f7) 20 12 = rs2 + f7 * 32 := by unfold bits asmR; omega
  have e9 : bits (asmR opc rd f3 rs1 rs2 f7) 28 4 = f7 / 8 := by unfold bits asmR; omega
  have e10 : bits (asmR opc rd f3 rs1 rs2 f7) 24 4 = rs2 / 16 + f7 % 8 * 2 := by unfold bits asmR; omega
  have e11 : bits (asmR opc rd f3 rs1 rs2 f7) 20 4 = rs2 % 16 := by unfold bits asmR; omega
  have i1 : immI (asmR opc rd f3 rs1 rs2 f7) = immIF rs2 f7 := by unfold immI immIF; rw [e8]
  have i2 : immS (asmR opc rd f3 rs1 rs2 f7) = immSF rd f7 := by unfold immS immSF; rw [e6, e2]
  have i3 : immB (asmR opc rd f3 rs1 rs2 f7) = immBF rd f7 := by
    unfold immB immBF
    have a : bits (asmR opc rd f3 rs1 rs2 f7) 31 1 = f7 / 64 := by unfold bits asmR; omega
    have b : bits (asmR opc rd f3 rs1 rs2 f7) 7 1 = rd % 2 := by unfold bits asmR; omega
    have c : bits (asmR opc rd f3 rs1 rs2 f7) 25 6 = f7 % 64 := by unfold bits asmR; omega
    have d : bits (asmR opc rd f3 rs1 rs2 f7) 8 4 = rd / 2 := by unfold bits asmR; omega
    rw [a, b, c, d]
  have i4 : immJ (asmR opc rd f3 rs1 rs2 f7) = immJF f3 rs1 rs2 f7 := by
    unfold immJ immJF
    have a : bits (asmR opc rd f3 rs1 rs2 f7) 31 1 = f7 / 64 := by unfold bits asmR; omega
    have b : bits (asmR opc rd f3 rs1 rs2 f7) 12 8 = f3 + rs1 * 8 := by unfold bits asmR; omega
    have c : bits (asmR opc rd f3 rs1 rs2 f7) 20 1 = rs2 % 2 := by unfold bits asmR; omega
    have d : bits (asmR opc rd f3 rs1 rs2 f7) 21 10 = rs2 / 2 + f7 % 64 * 16 := by unfold bits asmR; omega
    rw [a, b, c, d]
  unfold decode decodeF
  simp only [e0, e1, e2, e3, e4, e5, e6, e7, e8, e9, e10, e11, i1, i2, i3, i4, if_false]


/-! ### the `put` chains as explicit field assemblies -/

macro "put1" : tactic => `(tactic| (rw [put_ok _ _ _ _ (by omega) (by omega) (by omega)]; simp only [bind, Except.bind]))

theorem pR_ok (opc rd f3 rs1 rs2 f7 : Int) (h1 : 0 ≤ opc ∧ opc < 128) (h2 : 0 ≤ rd ∧ rd < 32) (h3 : 0 ≤ f3 ∧ f3 < 8)
    (h4 : 0 ≤ rs1 ∧ rs1 < 32) (h5 : 0 ≤ rs2 ∧ rs2 < 32) (h6 : 0 ≤ f7 ∧ f7 < 128) :
    pR opc rd f3 rs1 rs2 f7 = .ok ((asmR opc.toNat rd.toNat f3.toNat rs1.toNat rs2.toNat f7.toNat : Nat) : Int) := by
  unfold pR asmR
  rw [put_ok 0 7 opc 0 (by omega) (by omega) (by omega)]; simp only [bind, Except.bind]
  rw [put_ok 7 5 rd _ (by omega) (by omega) (by omega)]; simp only [bind, Except.bind]
  rw [put_ok 12 3 f3 _ (by omega) (by omega) (by omega)]; simp only [bind, Except.bind]
  rw [put_ok 15 5 rs1 _ (by omega) (by omega) (by omega)]; simp only [bind, Except.bind]
  rw [put_ok 20 5 rs2 _ (by omega) (by omega) (by omega)]; simp only [bind, Except.bind]
  rw [put_ok 25 7 f7 _ (by omega) (by omega) (by omega)]
  exact congrArg Except.ok (by omega)

theorem pI_ok (opc rd f3 rs1 imm : Int) (h1 : 0 ≤ opc ∧ opc < 128) (h2 : 0 ≤ rd ∧ rd < 32) (h3 : 0 ≤ f3 ∧ f3 < 8)
    (h4 : 0 ≤ rs1 ∧ rs1 < 32) (h5 : -4096 ≤ imm ∧ imm < 4096) :
    pI opc rd f3 rs1 imm = .ok ((asmR opc.toNat rd.toNat f3.toNat rs1.toNat ((imm % 4096).toNat % 32) ((imm % 4096).toNat / 32) : Nat) : Int) := by
  unfold pI asmR
  rw [put_ok 0 7 opc 0 (by omega) (by omega) (by omega)]; simp only [bind, Except.bind]
  rw [put_ok 7 5 rd _ (by omega) (by omega) (by omega)]; simp only [bind, Except.bind]
  rw [put_ok 12 3 f3 _ (by omega) (by omega) (by omega)]; simp only [bind, Except.bind]
  rw [put_ok 15 5 rs1 _ (by omega) (by omega) (by omega)]; simp only [bind, Except.bind]
  rw [put_ok 20 12 imm _ (by omega) (by omega) (by omega)]
  exact congrArg Except.ok (by omega)

theorem pU_ok (opc rd imm : Int) (h1 : 0 ≤ opc ∧ opc < 128) (h2 : 0 ≤ rd ∧ rd < 32) (h5 : 0 ≤ imm ∧ imm < 1048576) :
    pU opc rd imm = .ok ((asmR opc.toNat rd.toNat (imm.toNat % 8) (imm.toNat / 8 % 32) (imm.toNat / 256 % 32)
      (imm.toNat / 8192) : Nat) : Int) := by
  unfold pU asmR
  rw [put_ok 0 7 opc 0 (by omega) (by omega) (by omega)]; simp only [bind, Except.bind]
  rw [put_ok 7 5 rd _ (by omega) (by omega) (by omega)]; simp only [bind, Except.bind]
  rw [put_ok 12 20 imm _ (by omega) (by omega) (by omega)]
  exact congrArg Except.ok (by omega)

theorem pJ_ok (opc rd : Int) (h1 : 0 ≤ opc ∧ opc < 128) (h2 : 0 ≤ rd ∧ rd < 32) :
    pJ opc rd = .ok ((asmR opc.toNat rd.toNat 0 0 0 0 : Nat) : Int) := by
  unfold pJ asmR
  rw [put_ok 0 7 opc 0 (by omega) (by omega) (by omega)]; simp only [bind, Except.bind]
  rw [put_ok 7 5 rd _ (by omega) (by omega) (by omega)]
  exact congrArg Except.ok (by omega)

theorem pB_ok (cond : Int) (invert : Bool) (rn rm : Int) (h3 : 0 ≤ cond ∧ cond < 8)
    (h4 : 0 ≤ rn ∧ rn < 32) (h5 : 0 ≤ rm ∧ rm < 32) :
    pB cond invert rn rm = .ok ((asmR 0x63 0 cond.toNat (if invert then rm.toNat else rn.toNat)
      (if invert then rn.toNat else rm.toNat) 0 : Nat) : Int) := by
  unfold pB asmR
  rw [put_ok 0 7 _ 0 (by omega) (by omega) (by omega)]; simp only [bind, Except.bind]
  rw [put_ok 12 3 cond _ (by omega) (by omega) (by omega)]; simp only [bind, Except.bind]
  cases invert
  · simp only [Bool.false_eq_true, if_false]
    rw [put_ok 15 5 rn _ (by omega) (by omega) (by omega)]; simp only [bind, Except.bind]
    rw [put_ok 20 5 rm _ (by omega) (by omega) (by omega)]
    exact congrArg Except.ok (by omega)
  · simp only [if_true]
    rw [put_ok 15 5 rm _ (by omega) (by omega) (by omega)]; simp only [bind, Except.bind]
    rw [put_ok 20 5 rn _ (by omega) (by omega) (by omega)]
    exact congrArg Except.ok (by omega)

theorem pS_ok (func rs1 rs2 offset : Int) (h3 : 0 ≤ func ∧ func < 8) (h4 : 0 ≤ rs1 ∧ rs1 < 32) (h5 : 0 ≤ rs2 ∧ rs2 < 32) :
    pS func rs1 rs2 offset = .ok ((asmR 0x23 (offset % 32).toNat func.toNat rs1.toNat rs2.toNat (offset / 32 % 128).toNat : Nat) : Int) := by
  unfold pS asmR
  simp only []
  rw [put_ok 0 7 _ 0 (by omega) (by omega) (by omega)]; simp only [bind, Except.bind]
  rw [put_ok 7 5 (offset % 32) _ (by omega) (by omega) (by omega)]; simp only [bind, Except.bind]
  rw [put_ok 12 3 func _ (by omega) (by omega) (by omega)]; simp only [bind, Except.bind]
  rw [put_ok 15 5 rs1 _ (by omega) (by omega) (by omega)]; simp only [bind, Except.bind]
  rw [put_ok 20 5 rs2 _ (by omega) (by omega) (by omega)]; simp only [bind, Except.bind]
  rw [put_ok 25 7 (offset / 32 % 128) _ (by omega) (by omega) (by omega)]
  exact congrArg Except.ok (by omega)

/-- the claim of Thm B for one class and one operand tuple -/
def Good (c : Cls) (o : Ops) : Prop :=
  ∃ w, enc c o = .ok w ∧ decodeAny c.size w.toNat = some (meaning c o)

theorem decodeAny_base {c : Cls} (hc : c.isC = false) (w : Nat) : decodeAny c.size w = (decode w).map .base := by
  simp [decodeAny, Cls.size, hc]

end Proofs.RVEnc
