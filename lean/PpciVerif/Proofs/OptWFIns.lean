import PpciVerif.Proofs.OptWFDel
/-!
# Proofs.OptWFIns — inserting a fresh `Const` before an instruction keeps a function well-formed

`WF_insertAt` : inserting `const n t c` (fresh name `n`, well-typed payload) at position `p` of block `bd`
(where an instruction that defines a value sits) keeps `WF`; positions `k ≥ p` of that block move to `k + 1`.
`insertBefore_eq` : `Model.Opt.insertBefore f d x` is that insertion when `d` is defined at `(bd, p)`.
Core Lean only.
-/
set_option linter.unusedSectionVars false
namespace Proofs.OptWFIns
open Spec.IR Spec.IRWF Proofs.IRGraph Proofs.IRWF Model.Opt Proofs.OptWF Proofs.OptWFDel

/-! ## list insertion -/

section Lists
variable {α : Type}

def insAt (l : List α) (p : Nat) (x : α) : List α := l.take p ++ x :: l.drop p

/-- where position `k` moves when something is inserted at `p` -/
def sh (p k : Nat) : Nat := if k < p then k else k + 1

theorem sh_lt {p j k : Nat} (h : j < k) : sh p j < sh p k := by
  unfold sh; split <;> split <;> omega

theorem sh_ne (p k : Nat) : sh p k ≠ p := by unfold sh; split <;> omega

theorem getElem?_insAt_sh (l : List α) (p : Nat) (x : α) (k : Nat) (a : α) (hp : p ≤ l.length)
    (h : l[k]? = some a) : (insAt l p x)[sh p k]? = some a := by
  unfold insAt sh
  have hlen : (l.take p).length = p := by simp [List.length_take]; omega
  by_cases hk : k < p
  · rw [if_pos hk, List.getElem?_append_left (by omega), List.getElem?_take]
    simp [hk, h]
  · rw [if_neg hk, List.getElem?_append_right (by omega), hlen]
    have : k + 1 - p = (k - p) + 1 := by omega
    rw [this, List.getElem?_cons_succ, List.getElem?_drop]
    have : p + (k - p) = k := by omega
    rw [this]; exact h

theorem getElem?_insAt_self (l : List α) (p : Nat) (x : α) (hp : p ≤ l.length) :
    (insAt l p x)[p]? = some x := by
  unfold insAt
  have hlen : (l.take p).length = p := by simp [List.length_take]; omega
  rw [List.getElem?_append_right (by omega), hlen]
  simp

theorem exists_of_getElem?_insAt (l : List α) (p : Nat) (x : α) (k' : Nat) (a : α) (hp : p ≤ l.length)
    (h : (insAt l p x)[k']? = some a) : (k' = p ∧ a = x) ∨ ∃ k, l[k]? = some a ∧ k' = sh p k := by
  unfold insAt at h
  have hlen : (l.take p).length = p := by simp [List.length_take]; omega
  by_cases hk : k' < p
  · rw [List.getElem?_append_left (by omega), List.getElem?_take] at h
    simp only [hk, if_true] at h
    exact Or.inr ⟨k', h, by unfold sh; rw [if_pos hk]⟩
  · rw [List.getElem?_append_right (by omega), hlen] at h
    by_cases he : k' = p
    · subst he; simp at h; exact Or.inl ⟨rfl, h.symm⟩
    · have e : k' - p = (k' - p - 1) + 1 := by omega
      rw [e, List.getElem?_cons_succ, List.getElem?_drop] at h
      refine Or.inr ⟨p + (k' - p - 1), h, ?_⟩
      unfold sh; rw [if_neg (by omega)]; omega

theorem mem_insAt (l : List α) (p : Nat) (x a : α) : a ∈ insAt l p x ↔ a = x ∨ a ∈ l := by
  unfold insAt
  constructor
  · intro h
    rcases List.mem_append.1 h with h | h
    · exact Or.inr (List.mem_of_mem_take h)
    · rcases List.mem_cons.1 h with h | h
      · exact Or.inl h
      · exact Or.inr (List.mem_of_mem_drop h)
  · rintro (h | h)
    · subst h; simp
    · rw [← List.take_append_drop p l] at h
      rcases List.mem_append.1 h with h | h
      · exact List.mem_append_left _ h
      · exact List.mem_append_right _ (List.mem_cons_of_mem _ h)

theorem getLast?_append_ne {l1 l2 : List α} (h : l2 ≠ []) : (l1 ++ l2).getLast? = l2.getLast? := by
  rw [List.getLast?_append]
  cases hl : l2.getLast? with
  | none => exact absurd (List.getLast?_eq_none_iff.1 hl) h
  | some a => rfl

theorem getLast?_insAt (l : List α) (p : Nat) (x : α) (hp : p < l.length) :
    (insAt l p x).getLast? = l.getLast? := by
  unfold insAt
  have hne : l.drop p ≠ [] := by
    intro h
    have := congrArg List.length h
    simp at this; omega
  have : l.take p ++ x :: l.drop p = (l.take p ++ [x]) ++ l.drop p := by simp
  rw [this, getLast?_append_ne hne]
  conv => rhs; rw [← List.take_append_drop p l]
  rw [getLast?_append_ne hne]

theorem flatMap_noinsert (P : α → Prop) [DecidablePred P] (x : α) : ∀ (l : List α), (∀ b ∈ l, ¬ P b) →
    l.flatMap (fun i => if P i then [x, i] else [i]) = l := by
  intro l
  induction l with
  | nil => intro _; rfl
  | cons z l ih =>
    intro hno
    simp only [List.flatMap_cons, if_neg (hno z (by simp))]
    rw [ih (fun b hb => hno b (List.mem_cons_of_mem _ hb))]
    rfl

/-- inserting before the only element that satisfies `P` -/
theorem flatMap_insert (P : α → Prop) [DecidablePred P] (x : α) : ∀ (l : List α) (p : Nat) (a : α),
    l[p]? = some a → P a → (∀ j b, l[j]? = some b → P b → j = p) →
    l.flatMap (fun i => if P i then [x, i] else [i]) = insAt l p x := by
  intro l
  induction l with
  | nil => intro p a h; simp at h
  | cons y l ih =>
    intro p a h hP huniq
    cases p with
    | zero =>
      simp at h; subst h
      have hno : ∀ b ∈ l, ¬ P b := by
        intro b hb hPb
        obtain ⟨j, hj⟩ := List.getElem?_of_mem hb
        have := huniq (j + 1) b (by simpa using hj) hPb
        omega
      have hrest := flatMap_noinsert P x l hno
      simp only [List.flatMap_cons, if_pos hP, hrest, insAt, List.take_zero, List.drop_zero, List.nil_append,
        List.cons_append]
    | succ p =>
      have h' : l[p]? = some a := by simpa using h
      have hy : ¬ P y := by
        intro hPy
        have := huniq 0 y (by simp) hPy
        omega
      simp only [List.flatMap_cons, if_neg hy]
      rw [ih p a h' hP (fun j b hj hb => by
        have := huniq (j + 1) b (by simpa using hj) hb
        omega)]
      simp [insAt]

end Lists

/-! ## block maps that keep names and successors -/

section BlockMap
variable {m : Module} {f : Func} {φ : Block → Block}

theorem mem_mapBlocks {b' : Block} : b' ∈ (mapBlocks f φ).blocks ↔ ∃ b ∈ f.blocks, b' = φ b := by
  unfold mapBlocks
  simp only [List.mem_map]
  constructor
  · rintro ⟨b, hb, e⟩; exact ⟨b, hb, e.symm⟩
  · rintro ⟨b, hb, e⟩; exact ⟨b, hb, e.symm⟩

variable (hname : ∀ b, (φ b).name = b.name) (hsucc : ∀ b ∈ f.blocks, (φ b).succs = b.succs)
include hname hsucc

theorem succOf_mapBlocks : (mapBlocks f φ).succOf = f.succOf := by
  funext n
  unfold Func.succOf Func.findBlock mapBlocks
  simp only [List.find?_map]
  have : ((fun x : Block => decide (x.name = n)) ∘ φ) = (fun x => decide (x.name = n)) := by
    funext b; simp [hname]
  rw [this]
  cases hb : f.blocks.find? (fun x => decide (x.name = n)) with
  | none => rfl
  | some b => simp [hsucc b (List.mem_of_find?_eq_some hb)]

theorem dom_mapBlocks (d v : String) : Dom (mapBlocks f φ) d v ↔ Dom f d v := by
  unfold Dom Path
  rw [succOf_mapBlocks hname hsucc]; rfl

theorem reachable_mapBlocks (v : String) : Reachable (mapBlocks f φ) v ↔ Reachable f v := by
  unfold Reachable Path
  rw [succOf_mapBlocks hname hsucc]; rfl

theorem isPred_mapBlocks (p n : String) : IsPred (mapBlocks f φ) p n ↔ IsPred f p n := by
  unfold IsPred
  constructor
  · rintro ⟨b', hb', h1, h2⟩
    obtain ⟨b, hb, e⟩ := mem_mapBlocks.1 hb'
    subst e
    rw [hsucc b hb] at h2; rw [hname] at h1
    exact ⟨b, hb, h1, h2⟩
  · rintro ⟨b, hb, h1, h2⟩
    exact ⟨φ b, mem_mapBlocks.2 ⟨b, hb, rfl⟩, by rw [hname]; exact h1, by rw [hsucc b hb]; exact h2⟩

end BlockMap

/-! ## inserting a constant -/

/-- insert `x` at position `p` of the block named `bn` -/
def insertAt (f : Func) (bn : String) (p : Nat) (x : Instr) : Func :=
  mapBlocks f fun b => if b.name = bn then { b with instrs := insAt b.instrs p x } else b

/-- well-typed payload of a `Const` -/
def constOk (t : Ty) (c : ConstVal) : Prop :=
  match t, c with
  | .int _, .int _ | .ptr, .int _ | .f32, _ | .f64, _ => True
  | _, _ => False

theorem flatMap_congr' {α β : Type} (g g' : α → List β) : ∀ l : List α, (∀ a ∈ l, g' a = g a) →
    l.flatMap g' = l.flatMap g := by
  intro l
  induction l with
  | nil => intro _; rfl
  | cons a l ih =>
    intro h
    simp only [List.flatMap_cons, h a (by simp), ih (fun a' ha' => h a' (List.mem_cons_of_mem _ ha'))]

theorem perm_flatMap_one (n : String) (g g' : Block → List String) (b0 : Block) : ∀ (l : List Block),
    (l.map (·.name)).Nodup → b0 ∈ l → (∀ b ∈ l, b.name ≠ b0.name → g' b = g b) →
    (g' b0).Perm (n :: g b0) → (l.flatMap g').Perm (n :: l.flatMap g) := by
  intro l
  induction l with
  | nil => intro _ h; simp at h
  | cons a l ih =>
    intro nd hb hsame hperm
    simp only [List.map_cons, List.nodup_cons] at nd
    simp only [List.flatMap_cons]
    by_cases e : a.name = b0.name
    · have hab : a = b0 := by
        rcases List.mem_cons.1 hb with h | h
        · exact h.symm
        · exact absurd (List.mem_map.2 ⟨b0, h, e.symm⟩) nd.1
      subst hab
      have hrest : l.flatMap g' = l.flatMap g := by
        apply flatMap_congr'
        intro b hb'
        apply hsame b (List.mem_cons_of_mem _ hb')
        intro e'
        exact nd.1 (List.mem_map.2 ⟨b, hb', e'⟩)
      rw [hrest]
      exact List.Perm.append_right _ hperm
    · have hb' : b0 ∈ l := by
        rcases List.mem_cons.1 hb with h | h
        · exact absurd (by rw [h]) e
        · exact h
      rw [hsame a (by simp) e]
      have := ih nd.2 hb' (fun b hbl => hsame b (List.mem_cons_of_mem _ hbl)) hperm
      exact (List.Perm.append_left (g a) this).trans List.perm_middle

section Insert
variable {m : Module} {f : Func} {bd : Block} {p : Nat} {i0 : Instr} {d : String} {ty : Ty}
  {n : String} {t : Ty} {c : ConstVal}

/-- the position map of block `bn` -/
def shB (bd : Block) (p : Nat) (bn : String) (k : Nat) : Nat := if bn = bd.name then sh p k else k

def shS (bd : Block) (p : Nat) : Option (String × Nat) → Option (String × Nat)
  | none => none
  | some (db, di) => some (db, shB bd p db di)

variable (hw : WF m f) (hb : bd ∈ f.blocks) (hi : bd.instrs[p]? = some i0) (hd : i0.dst? = some (d, ty))
include hw hb hi hd

theorem p_lt : p < bd.instrs.length := by
  have := List.getElem?_eq_some_iff.1 hi
  exact this.1

theorem ins_name (b : Block) :
    (if b.name = bd.name then ({ b with instrs := insAt b.instrs p (.const n t c) } : Block) else b).name = b.name := by
  split <;> rfl

theorem ins_succs (b : Block) (hbm : b ∈ f.blocks) :
    (if b.name = bd.name then ({ b with instrs := insAt b.instrs p (.const n t c) } : Block) else b).succs = b.succs := by
  by_cases e : b.name = bd.name
  · have : b = bd := eq_of_name_eq f.blocks hw.block_names b hbm bd hb e
    subst this
    rw [if_pos rfl]
    unfold Block.succs
    simp only [getLast?_insAt b.instrs p _ (p_lt hw hb hi hd)]
  · rw [if_neg e]

theorem getElem?_ins {b : Block} (hbm : b ∈ f.blocks) {k : Nat} {a : Instr} (h : b.instrs[k]? = some a) :
    (if b.name = bd.name then ({ b with instrs := insAt b.instrs p (.const n t c) } : Block) else b).instrs[shB bd p b.name k]?
      = some a := by
  unfold shB
  by_cases e : b.name = bd.name
  · have : b = bd := eq_of_name_eq f.blocks hw.block_names b hbm bd hb e
    subst this
    rw [if_pos rfl, if_pos rfl]
    exact getElem?_insAt_sh b.instrs p _ k a (Nat.le_of_lt (p_lt hw hb hi hd)) h
  · rw [if_neg e, if_neg e]; exact h

theorem exists_of_getElem?_ins {b : Block} (hbm : b ∈ f.blocks) {k' : Nat} {a : Instr}
    (h : (if b.name = bd.name then ({ b with instrs := insAt b.instrs p (.const n t c) } : Block) else b).instrs[k']?
      = some a) :
    (b = bd ∧ k' = p ∧ a = .const n t c) ∨ ∃ k, b.instrs[k]? = some a ∧ k' = shB bd p b.name k := by
  unfold shB
  by_cases e : b.name = bd.name
  · have : b = bd := eq_of_name_eq f.blocks hw.block_names b hbm bd hb e
    subst this
    rw [if_pos rfl] at h
    rcases exists_of_getElem?_insAt b.instrs p _ k' a (Nat.le_of_lt (p_lt hw hb hi hd)) h with ⟨h1, h2⟩ | ⟨k, h1, h2⟩
    · exact Or.inl ⟨rfl, h1, h2⟩
    · exact Or.inr ⟨k, h1, by rw [if_pos rfl]; exact h2⟩
  · rw [if_neg e] at h
    exact Or.inr ⟨k', h, by rw [if_neg e]⟩

theorem defSite_insert {x : String} {tx : Ty} {s : Option (String × Nat)} (hs : DefSite f x tx s) :
    DefSite (insertAt f bd.name p (.const n t c)) x tx (shS bd p s) := by
  cases hs with
  | param hp => exact DefSite.param hp
  | @instr b k i hbm hk hdst =>
    have := DefSite.instr (f := insertAt f bd.name p (.const n t c)) (x := x) (ty := tx)
      (mem_mapBlocks.2 ⟨b, hbm, rfl⟩) (getElem?_ins (n := n) (t := t) (c := c) hw hb hi hd hbm hk) hdst
    rw [ins_name hw hb hi hd] at this
    exact this

theorem hasTy_insert (o : Operand) (to : Ty) (h : HasTy m f o to) :
    HasTy m (insertAt f bd.name p (.const n t c)) o to := by
  cases o with
  | glob g => exact h
  | loc x =>
    obtain ⟨s, hs⟩ := h
    exact ⟨_, defSite_insert hw hb hi hd hs⟩

theorem useDominated_insert (bn : String) (k : Nat) (o : Operand) (h : UseDominated f bn k o) :
    UseDominated (insertAt f bd.name p (.const n t c)) bn (shB bd p bn k) o := by
  have hname := ins_name (n := n) (t := t) (c := c) hw hb hi hd
  have hsucc := ins_succs (n := n) (t := t) (c := c) hw hb hi hd
  cases o with
  | glob g => trivial
  | loc x =>
    obtain ⟨tx, s, hs, hm⟩ := h
    refine ⟨tx, shS bd p s, defSite_insert hw hb hi hd hs, ?_⟩
    cases s with
    | none => trivial
    | some q =>
      obtain ⟨db, di⟩ := q
      simp only [shS] at hm ⊢
      rcases hm with ⟨e, hlt⟩ | ⟨e, hdom⟩
      · left
        refine ⟨e, ?_⟩
        subst e
        unfold shB
        split
        · exact sh_lt hlt
        · exact hlt
      · right
        exact ⟨e, (dom_mapBlocks hname hsucc db bn).2 hdom⟩

theorem phiUseDominated_insert (pred : String) (o : Operand) (h : PhiUseDominated f pred o) :
    PhiUseDominated (insertAt f bd.name p (.const n t c)) pred o := by
  have hname := ins_name (n := n) (t := t) (c := c) hw hb hi hd
  have hsucc := ins_succs (n := n) (t := t) (c := c) hw hb hi hd
  cases o with
  | glob g => trivial
  | loc x =>
    obtain ⟨tx, s, hs, hm⟩ := h
    refine ⟨tx, shS bd p s, defSite_insert hw hb hi hd hs, ?_⟩
    cases s with
    | none => trivial
    | some q =>
      obtain ⟨db, di⟩ := q
      simp only [shS] at hm ⊢
      exact (dom_mapBlocks hname hsucc db pred).2 hm

theorem names_insert (hn : n ∉ f.defs.map (·.name)) :
    ((insertAt f bd.name p (.const n t c)).defs.map (·.name)).Nodup := by
  have h0 := hw.value_names
  rw [defs_names] at h0 hn ⊢
  have hperm : ((insertAt f bd.name p (.const n t c)).blocks.flatMap fun b => b.instrs.filterMap dstName).Perm
      (n :: f.blocks.flatMap fun b => b.instrs.filterMap dstName) := by
    unfold insertAt mapBlocks
    simp only [List.flatMap_map]
    refine perm_flatMap_one n (fun b => b.instrs.filterMap dstName) _ bd f.blocks hw.block_names hb ?_ ?_
    · intro b _ hne
      simp only [if_neg hne]
    · simp only [if_true, insAt, List.filterMap_append, List.filterMap_cons, dstName, Instr.dst?, Option.map_some]
      have : (List.filterMap dstName (List.take p bd.instrs) ++ List.filterMap dstName (List.drop p bd.instrs))
          = List.filterMap dstName bd.instrs := by
        rw [← List.filterMap_append, List.take_append_drop]
      have hm := @List.perm_middle _ n (List.filterMap dstName (List.take p bd.instrs))
        (List.filterMap dstName (List.drop p bd.instrs))
      rw [this] at hm
      exact hm
  have hparams : (insertAt f bd.name p (.const n t c)).params = f.params := rfl
  rw [hparams]
  have h1 : (f.params.map (·.1) ++ (insertAt f bd.name p (.const n t c)).blocks.flatMap
      fun b => b.instrs.filterMap dstName).Perm
      (n :: (f.params.map (·.1) ++ f.blocks.flatMap fun b => b.instrs.filterMap dstName)) :=
    (List.Perm.append_left _ hperm).trans List.perm_middle
  exact (List.Perm.nodup_iff h1).2 (List.nodup_cons.2 ⟨hn, h0⟩)

/-- Inserting a fresh, well-typed constant before a value-defining instruction keeps `WF`. -/
theorem WF_insertAt (hn : n ∉ f.defs.map (·.name)) (hc : constOk t c) :
    WF m (insertAt f bd.name p (.const n t c)) := by
  have hname := ins_name (n := n) (t := t) (c := c) hw hb hi hd
  have hsucc := ins_succs (n := n) (t := t) (c := c) hw hb hi hd
  have hplt := p_lt hw hb hi hd
  have hbn : (insertAt f bd.name p (.const n t c)).blockNames = f.blockNames := by
    simp only [Func.blockNames, insertAt, mapBlocks, List.map_map]
    apply List.map_congr_left
    intro b _; exact hname b
  refine ⟨?_, by rw [hbn]; exact hw.block_names, names_insert hw hb hi hd hn, ?_, ?_, ?_, ?_, ?_, ?_⟩
  · obtain ⟨b, rest, e, he⟩ := hw.entry_first
    refine ⟨_, _, by simp only [insertAt, mapBlocks, e, List.map_cons]; rfl, ?_⟩
    rw [hname]; exact he
  · -- terminated
    intro b' hb'
    obtain ⟨b, hbm, e⟩ := mem_mapBlocks.1 hb'
    subst e
    by_cases e : b.name = bd.name
    · have : b = bd := eq_of_name_eq f.blocks hw.block_names b hbm bd hb e
      subst this
      rw [if_pos rfl]
      obtain ⟨init, tm, he, ht, hin⟩ := hw.terminated b hbm
      have hpi : p < init.length := by
        have hlen : b.instrs.length = init.length + 1 := by rw [he]; simp
        rcases Nat.lt_or_ge p init.length with h | h
        · exact h
        · have : p = init.length := by omega
          subst this
          rw [he] at hi
          simp at hi
          subst hi
          rw [dst_not_terminator hd] at ht; cases ht
      refine ⟨insAt init p (.const n t c), tm, ?_, ht, ?_⟩
      · show insAt b.instrs p _ = _
        unfold insAt
        rw [he, List.take_append_of_le_length (by omega), List.drop_append_of_le_length (by omega)]
        simp
      · intro i hi'
        rcases (mem_insAt init p _ i).1 hi' with h | h
        · subst h; rfl
        · exact hin i h
    · rw [if_neg e]; exact hw.terminated b hbm
  · -- targets
    intro b' hb' i hi' tg htg
    obtain ⟨b, hbm, e⟩ := mem_mapBlocks.1 hb'
    subst e
    have him : i = .const n t c ∨ i ∈ b.instrs := by
      by_cases e : b.name = bd.name
      · rw [if_pos e] at hi'; exact (mem_insAt b.instrs p _ i).1 hi'
      · rw [if_neg e] at hi'; exact Or.inr hi'
    rcases him with h | h
    · subst h; simp [Instr.targets] at htg
    · obtain ⟨b2, hb2, e2⟩ := hw.targets b hbm i h tg htg
      exact ⟨_, mem_mapBlocks.2 ⟨b2, hb2, rfl⟩, by rw [hname]; exact e2⟩
  · -- reachable
    intro b' hb'
    obtain ⟨b, hbm, e⟩ := mem_mapBlocks.1 hb'
    subst e
    rw [hname]
    exact (reachable_mapBlocks hname hsucc _).2 (hw.reachable b hbm)
  · -- phis
    intro b' hb' i hi' hphi
    obtain ⟨b, hbm, e⟩ := mem_mapBlocks.1 hb'
    subst e
    have him : i ∈ b.instrs := by
      by_cases e : b.name = bd.name
      · rw [if_pos e] at hi'
        rcases (mem_insAt b.instrs p _ i).1 hi' with h | h
        · subst h; cases hphi
        · exact h
      · rw [if_neg e] at hi'; exact hi'
    obtain ⟨p1, p2⟩ := hw.phis b hbm i him hphi
    refine ⟨p1, fun q => ?_⟩
    rw [p2 q, hname]
    exact (isPred_mapBlocks hname hsucc q b.name).symm
  · -- typed
    intro b' hb' i hi'
    obtain ⟨b, hbm, e⟩ := mem_mapBlocks.1 hb'
    subst e
    have him : i = .const n t c ∨ i ∈ b.instrs := by
      by_cases e : b.name = bd.name
      · rw [if_pos e] at hi'; exact (mem_insAt b.instrs p _ i).1 hi'
      · rw [if_neg e] at hi'; exact Or.inr hi'
    rcases him with h | h
    · subst h; exact hc
    · exact instrTyped_mono (m := m) (f := f) (f' := insertAt f bd.name p (.const n t c)) rfl i
        (fun o _ to hto => hasTy_insert hw hb hi hd o to hto) (hw.typed b hbm i h)
  · -- dominated
    intro b' hb' k' i hk'
    obtain ⟨b, hbm, e⟩ := mem_mapBlocks.1 hb'
    subst e
    rw [hname]
    rcases exists_of_getElem?_ins hw hb hi hd hbm hk' with ⟨_, _, e3⟩ | ⟨k, hk, ek⟩
    · subst e3
      exact ⟨by intro o ho; simp [Instr.uses] at ho, by intro q hq; simp [Instr.phiIns] at hq⟩
    · obtain ⟨d1, d2⟩ := hw.dominated b hbm k i hk
      rw [ek]
      exact ⟨fun o ho => useDominated_insert hw hb hi hd b.name k o (d1 o ho),
             fun q hq => phiUseDominated_insert hw hb hi hd q.1 q.2 (d2 q hq)⟩

/-- `Model.Opt.insertBefore f d x` inserts at the definition site of `d` -/
theorem insertBefore_eq (x : Instr) : insertBefore f d x = insertAt f bd.name p x := by
  have hwf := (wfFunc_iff m f).2 hw
  unfold insertBefore insertAt mapBlocks
  congr 1
  apply List.map_congr_left
  intro b hbm
  by_cases e : b.name = bd.name
  · have : b = bd := eq_of_name_eq f.blocks hw.block_names b hbm bd hb e
    subst this
    rw [if_pos rfl]
    congr 1
    refine flatMap_insert (fun i => dstName i = some d) x b.instrs p i0 hi (by simp [dstName, hd]) ?_
    intro j a hj ha
    cases hda : a.dst? with
    | none => simp [dstName, hda] at ha
    | some pr =>
      obtain ⟨d', ty'⟩ := pr
      have : d' = d := by simp [dstName, hda] at ha; exact ha
      subst this
      have f1 := findDef_at hwf hbm hj hda
      have f2 := findDef_at hwf hbm hi hd
      rw [f1] at f2
      simp only [Option.some.injEq, Def.mk.injEq] at f2
      exact f2.2.2.2
  · rw [if_neg e]
    have hno : ∀ a ∈ b.instrs, ¬ dstName a = some d := by
      intro a ha hda
      obtain ⟨j, hj⟩ := List.getElem?_of_mem ha
      cases hdst : a.dst? with
      | none => simp [dstName, hdst] at hda
      | some pr =>
        obtain ⟨d', ty'⟩ := pr
        have : d' = d := by simp [dstName, hdst] at hda; exact hda
        subst this
        have f1 := findDef_at hwf hbm hj hdst
        have f2 := findDef_at hwf hb hi hd
        rw [f1] at f2
        simp only [Option.some.injEq, Def.mk.injEq] at f2
        exact e f2.2.2.1
    rw [flatMap_noinsert (fun i => dstName i = some d) x b.instrs hno]

end Insert

end Proofs.OptWFIns
