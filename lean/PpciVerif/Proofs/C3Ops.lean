import PpciVerif.Spec.C3
import PpciVerif.Model.C3
import PpciVerif.Proofs.IRArith
import PpciVerif.Proofs.C3
/-! The value lemmas behind Props.C37: for every C3 operator, every integer type and all operand
values, a defined value of the equivalent C expression (`Spec.C3.binop`, over `Spec.CInt`) is the value
of the IR operator of the same symbol at the IR type of the same signedness and width
(`Spec.IRArith.binop`); the same for unary minus, casts, constant expressions; accepted operand
conversions are exact. -/
namespace Proofs.C3
open Spec.IRArith Spec.C3 Proofs.IRArith

/-! ### the IR operator each C3 operator has to become -/
def irOp : Spec.C3.Op → Spec.IRArith.Op
  | .add => .add | .sub => .sub | .mul => .mul | .div => .div | .rem => .rem
  | .shl => .shl | .shr => .shr | .band => .and | .bor => .or | .bxor => .xor

theorem map_some {f : Int → Int} {o : Option Int} {v : Int} (h : o.map f = some v) : ∃ r, o = some r ∧ f r = v := by
  cases o with
  | none => simp at h
  | some r => exact ⟨r, rfl, by simpa using h⟩

theorem compTy_bits_le (t : Ty) : (t.bits : Int) ≤ (compTy t).bits := by
  cases t <;> simp [compTy, Ty.bits]

theorem cTy_bits (w : Ty) : (cTy w).bits = w.bits := by cases w <;> rfl
theorem cTy_signed (w : Ty) : (cTy w).signed = w.signed := by cases w <;> rfl

theorem cInRange_iff (w : Ty) (x : Int) : Spec.CInt.inRange (cTy w) x = true ↔ InRange w x := by
  cases w <;> simp [Spec.CInt.inRange, cTy, Spec.CInt.Ty.minV, Spec.CInt.Ty.maxV, Spec.CInt.Ty.signed, Spec.CInt.Ty.bits,
    InRange, Ty.minVal, Ty.maxVal, Ty.signed, Ty.bits]

/-- a defined C left shift is the C arithmetic result of the multiplication by the power of two -/
theorem shl_some (w : Ty) (x c r : Int) (h : Spec.CInt.evalShift .shl (cTy w) x c = some r) :
    Spec.CInt.arith (cTy w) (x * 2 ^ c.toNat) = some r := by
  simp only [Spec.CInt.evalShift] at h
  by_cases hc : c < 0 ∨ c ≥ ((cTy w).bits : Int)
  · simp [hc] at h
  · simp only [hc, if_false] at h
    simp only [Spec.CInt.arith]
    by_cases hs : (cTy w).signed = true
    · simp only [hs, if_true] at h ⊢
      by_cases hx : x < 0
      · simp [hx] at h
      · simpa [hx] using h
    · simpa [hs] using h

theorem binop_agrees (t : Ty) (op : Spec.C3.Op) (a b v : Int) (ha : InRange t a) (hb : InRange t b)
    (h : Spec.C3.binop t op a b = some v) : Spec.IRArith.binop t (irOp op) a b = some v := by
  unfold Spec.C3.binop at h
  have hw : withinDeclared t op a b := by
    by_cases hw : withinDeclared t op a b
    · exact hw
    · simp [hw] at h
  simp only [hw, if_true] at h
  rw [convert_comp t a ha, convert_comp t b hb] at h
  cases op
  case add =>
    simp only [cArith, cOp, Spec.CInt.evalArith] at h
    simp only [irOp, Spec.IRArith.binop]; exact congrArg some (arith_back t _ v h)
  case sub =>
    simp only [cArith, cOp, Spec.CInt.evalArith] at h
    simp only [irOp, Spec.IRArith.binop]; exact congrArg some (arith_back t _ v h)
  case mul =>
    simp only [cArith, cOp, Spec.CInt.evalArith] at h
    simp only [irOp, Spec.IRArith.binop]; exact congrArg some (arith_back t _ v h)
  case div =>
    simp only [cArith, cOp, Spec.CInt.evalArith] at h
    by_cases hb0 : b = 0
    · simp [hb0] at h
    simp only [hb0, if_false] at h
    have hv := arith_back t _ v h
    have hnd : ¬ divUndefined t a b := by
      simp only [withinDeclared] at hw
      simp only [divUndefined, not_or]; exact ⟨hb0, hw⟩
    simp only [irOp, Spec.IRArith.binop, hnd, if_false]
    rw [← hv, wrap_of_inRange t _ (tdiv_inRange t a b ha hb hnd)]
  case rem =>
    simp only [cArith, cOp, Spec.CInt.evalArith] at h
    by_cases hb0 : b = 0
    · simp [hb0] at h
    simp only [hb0, if_false] at h
    have hq : Spec.CInt.inRange (cTy (compTy t)) (Int.tdiv a b) = true := by
      by_cases hq : Spec.CInt.inRange (cTy (compTy t)) (Int.tdiv a b) = true
      · exact hq
      · simp [hq] at h
    simp only [hq, if_true, Option.map_some, Option.some.injEq] at h
    have hnd : ¬ divUndefined t a b := by
      simp only [withinDeclared] at hw
      simp only [divUndefined, not_or]; exact ⟨hb0, hw⟩
    simp only [irOp, Spec.IRArith.binop, hnd, if_false]
    rw [← h, convert_of_inRange t _ (tmod_inRange t a b ha hb hb0)]
  case shl =>
    simp only [cArith, cOp] at h
    obtain ⟨r, h1, h2⟩ := map_some h
    have h3 := shl_some _ _ _ _ h1
    have h4 : (Spec.CInt.arith (cTy (compTy t)) (a * 2 ^ b.toNat)).map (convert t) = some v := by
      rw [h3]; simp [h2]
    have hok : shiftOk t b := by simpa [withinDeclared, shiftOk] using hw
    simp only [irOp, Spec.IRArith.binop, hok, if_true]
    exact congrArg some (arith_back t _ v h4)
  case shr =>
    simp only [cArith, cOp, Spec.CInt.evalShift] at h
    have hok : shiftOk t b := by simpa [withinDeclared, shiftOk] using hw
    have hc : ¬ (b < 0 ∨ b ≥ ((cTy (compTy t)).bits : Int)) := by
      have := compTy_bits_le t
      rw [cTy_bits]; simp only [shiftOk] at hok; omega
    simp only [hc, if_false, Option.map_some, Option.some.injEq] at h
    simp only [irOp, Spec.IRArith.binop, hok, if_true]
    have hr := ediv_pow_inRange t a b.toNat ha
    rw [convert_of_inRange t _ hr] at h
    by_cases hs : t.signed = true
    · simp [hs, h]
    · have ha0 : 0 ≤ a := by
        cases t <;> simp [Ty.signed] at hs <;> simp [InRange, Ty.minVal, Ty.signed] at ha <;> omega
      simp only [hs]
      rw [shiftRight_logical a _ ha0]; simp [h]
  case band =>
    simp only [cArith, cOp, Spec.CInt.evalArith, Option.map_some, Option.some.injEq] at h
    simp only [irOp, Spec.IRArith.binop]
    rw [← h, bit_back t (· &&& ·) (fun m n k => Nat.and_mod_two_pow)]
  case bor =>
    simp only [cArith, cOp, Spec.CInt.evalArith, Option.map_some, Option.some.injEq] at h
    simp only [irOp, Spec.IRArith.binop]
    rw [← h, bit_back t (· ||| ·) (fun m n k => Nat.or_mod_two_pow)]
  case bxor =>
    simp only [cArith, cOp, Spec.CInt.evalArith, Option.map_some, Option.some.injEq] at h
    simp only [irOp, Spec.IRArith.binop]
    rw [← h, bit_back t (· ^^^ ·) (fun m n k => Nat.xor_mod_two_pow)]

/-- unary minus -/
theorem neg_agrees (t : Ty) (a v : Int) (ha : InRange t a) (h : Spec.C3.neg t a = some v) : wrap t (-a) = v := by
  unfold Spec.C3.neg at h
  rw [convert_comp t a ha] at h
  simp only [Spec.CInt.evalUn] at h
  exact arith_back t _ v h


/-- an ir.Cast between integer types computes C's conversion -/
theorem cast_agrees (t : Ty) (v : Int) : Spec.IRArith.cast t v = convert t v := by
  rw [convert_eq_wrap]; rfl

/-! ### typing rules: accepted conversions of operands are exact -/

/-- an implicit coercion other than signed → unsigned never changes the value -/
theorem coerce_preserves (src dst : Ty) (h : coerce src dst ≠ .reject)
    (hs : src.signed = true → dst.signed = true) (v : Int) (hv : InRange src v) : InRange dst v := by
  cases src <;> cases dst <;>
    first
    | exact absurd (by decide) h
    | exact absurd (hs rfl) (by decide)
    | (simp [InRange, Ty.minVal, Ty.maxVal, Ty.signed, Ty.bits] at hv ⊢ <;> omega)

/-- when the operand's conversion to the common type is accepted, the common type contains the
    operand's values: the conversion inserted for a binary operator is exact -/
theorem common_left_exact (a b : Ty) (h : coerce a (commonType a b) ≠ .reject) (v : Int) (hv : InRange a v) :
    InRange (commonType a b) v := by
  cases a <;> cases b <;>
    first
    | exact absurd (by decide) h
    | (simp [commonType, ofSB, InRange, Ty.minVal, Ty.maxVal, Ty.signed, Ty.bits] at hv ⊢ <;> omega)

theorem commonType_comm (a b : Ty) : commonType a b = commonType b a := by
  cases a <;> cases b <;> rfl

theorem common_right_exact (a b : Ty) (h : coerce b (commonType a b) ≠ .reject) (v : Int) (hv : InRange b v) :
    InRange (commonType a b) v := by
  rw [commonType_comm] at h ⊢; exact common_left_exact b a h v hv

/-! ### constant expressions -/

theorem const_agrees (intTy : Ty) (hs : intTy.signed = true) (op : Spec.C3.Op) (a b v : Int)
    (hop : op = .add ∨ op = .sub ∨ op = .mul ∨ op = .div ∨ op = .rem)
    (h : Spec.C3.constOp intTy op a b = some v) : Model.C3.constOp op.symbol a b = .ok v := by
  unfold Spec.C3.constOp at h
  rcases hop with rfl | rfl | rfl | rfl | rfl <;>
    simp only [cArith, cOp, Spec.CInt.evalArith, arith_eq, hs, if_true] at h <;>
    simp only [Spec.C3.Op.symbol, Model.C3.constOp]
  · obtain ⟨-, rfl⟩ := ite_some h; rfl
  · obtain ⟨-, rfl⟩ := ite_some h; rfl
  · obtain ⟨-, rfl⟩ := ite_some h; rfl
  · by_cases hb0 : b = 0
    · simp [hb0] at h
    · simp only [hb0, if_false] at h ⊢
      obtain ⟨-, rfl⟩ := ite_some h; rfl
  · by_cases hb0 : b = 0
    · simp [hb0] at h
    · simp only [hb0, if_false] at h ⊢
      by_cases hq : Spec.CInt.inRange (cTy intTy) (Int.tdiv a b) = true
      · simp only [hq, if_true, Option.some.injEq] at h; rw [h]
      · simp [hq] at h

end Proofs.C3
