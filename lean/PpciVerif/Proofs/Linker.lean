import PpciVerif.Model.Linker
import PpciVerif.Spec.Link
/-! Helper lemmas for C12 (linker model). -/
namespace Proofs.Linker
open Model.Linker

/-! ### alignment arithmetic -/

theorem padLen_of_dvd (x a : Nat) (h : x % a = 0) : padLen x a = 0 := by
  simp [padLen, h]

theorem padLen_lt (x a : Nat) (ha : 0 < a) : padLen x a < a := Nat.mod_lt _ ha

theorem alignUp_ge (x a : Nat) : x ≤ alignUp x a := Nat.le_add_right _ _

theorem alignUp_lt (x a : Nat) (ha : 0 < a) : alignUp x a < x + a := by
  have := padLen_lt x a ha
  unfold alignUp; omega

theorem alignUp_of_aligned (x a : Nat) (h : x % a = 0) : alignUp x a = x := by
  simp [alignUp, padLen_of_dvd x a h]

theorem alignUp_mod (x a : Nat) (ha : 0 < a) : alignUp x a % a = 0 := by
  unfold alignUp padLen
  by_cases h : x % a = 0
  · simp [h]
  · have hr : x % a < a := Nat.mod_lt _ ha
    rw [Nat.mod_eq_of_lt (by omega : a - x % a < a)]
    have h1 := Nat.div_add_mod x a
    have h2 : x + (a - x % a) = a * (x / a + 1) := by
      rw [Nat.mul_add, Nat.mul_one]; omega
    rw [h2]; exact Nat.mul_mod_right _ _

/-- `alignUp x a` is the *least* multiple of `a` that is `≥ x` -/
theorem alignUp_least (x a y : Nat) (ha : 0 < a) (hxy : x ≤ y) (hy : y % a = 0) : alignUp x a ≤ y := by
  by_cases h : x % a = 0
  · rw [alignUp_of_aligned x a h]; exact hxy
  · -- otherwise y ≥ x, y multiple of a, x not ⇒ y ≥ next multiple
    have hlt := alignUp_lt x a ha
    have hm := alignUp_mod x a ha
    have hge := alignUp_ge x a
    rcases Nat.lt_or_ge y (alignUp x a) with hc | hc
    · -- both y and alignUp are multiples of a and differ by less than a
      obtain ⟨k, hk⟩ := Nat.dvd_of_mod_eq_zero hm
      obtain ⟨l, hl⟩ := Nat.dvd_of_mod_eq_zero hy
      rw [hk, hl] at hc
      have hkl : l < k := Nat.lt_of_mul_lt_mul_left hc
      have : a * (l + 1) ≤ a * k := Nat.mul_le_mul_left a hkl
      rw [Nat.mul_add, Nat.mul_one] at this
      omega
    · exact hc

/-! ### sections by name -/

theorem getSec_cons (s : Section) (rest : List Section) (m : String) :
    getSec (s :: rest) m = if s.name = m then some s else getSec rest m := by
  unfold getSec
  rw [List.find?_cons]
  by_cases h : s.name = m
  · have : (s.name == m) = true := by simp [h]
    rw [this]; simp [h]
  · have : (s.name == m) = false := by simp [h]
    rw [this]; simp [h]

theorem getSec_nil (m : String) : getSec [] m = none := rfl

theorem updSec_cons (s : Section) (rest : List Section) (n : String) (f : Section → Section) :
    updSec (s :: rest) n f = (if s.name = n then f s else s) :: updSec rest n f := by
  simp [updSec]

theorem getSec_updSec_same (secs : List Section) (n : String) (f : Section → Section)
    (hf : ∀ s, (f s).name = s.name) :
    getSec (updSec secs n f) n = (getSec secs n).map f := by
  induction secs with
  | nil => simp [getSec, updSec]
  | cons s rest ih =>
    rw [updSec_cons, getSec_cons, getSec_cons, ih]
    by_cases hsn : s.name = n
    · simp [hsn, hf]
    · simp [hsn]

theorem getSec_updSec_other (secs : List Section) (n m : String) (f : Section → Section)
    (hf : ∀ s, (f s).name = s.name) (hmn : m ≠ n) :
    getSec (updSec secs n f) m = getSec secs m := by
  induction secs with
  | nil => simp [getSec, updSec]
  | cons s rest ih =>
    rw [updSec_cons, getSec_cons, getSec_cons, ih]
    by_cases hsn : s.name = n
    · have : ¬ n = m := fun h => hmn h.symm
      simp [hsn, hf, this]
    · simp [hsn]

theorem getSec_updSec (secs : List Section) (n m : String) (f : Section → Section)
    (hf : ∀ s, (f s).name = s.name) :
    getSec (updSec secs n f) m = if m = n then (getSec secs n).map f else getSec secs m := by
  by_cases hmn : m = n
  · subst hmn; simp [getSec_updSec_same _ _ _ hf]
  · simp [hmn, getSec_updSec_other _ _ _ _ hf hmn]

theorem getSec_append (a b : List Section) (m : String) :
    getSec (a ++ b) m = (getSec a m).or (getSec b m) := by
  simp [getSec, List.find?_append]

theorem getSec_single (s : Section) (m : String) :
    getSec [s] m = if s.name = m then some s else none := by
  rw [getSec_cons, getSec_nil]

theorem getSec_some_name {secs : List Section} {m : String} {s : Section} (h : getSec secs m = some s) :
    s.name = m := by
  have := List.find?_some h
  simpa using this

theorem getSec_ensureSec (secs : List Section) (n m : String) :
    getSec (ensureSec secs n) m =
      if m = n then some ((getSec secs n).getD { name := n }) else getSec secs m := by
  unfold ensureSec hasSec
  cases h : getSec secs n with
  | some s =>
    simp
    by_cases hmn : m = n
    · subst hmn; simp [h]
    · simp [hmn]
  | none =>
    simp [getSec_append, getSec_single]
    by_cases hmn : m = n
    · subst hmn; simp [h]
    · have : ¬ n = m := fun h => hmn h.symm
      simp [hmn, this]

/-- data of the section called `n` (empty if there is none) -/
def dataOf (secs : List Section) (n : String) : List Nat :=
  match getSec secs n with
  | some s => s.data
  | none => []

/-- alignment of the section called `n` (the default 4 if there is none) -/
def alignOf (secs : List Section) (n : String) : Nat :=
  match getSec secs n with
  | some s => s.alignment
  | none => 4

/-- address of the section called `n` (0 if there is none) -/
def addrOf (secs : List Section) (n : String) : Nat :=
  match getSec secs n with
  | some s => s.address
  | none => 0

theorem getD_data (secs : List Section) (n : String) :
    ((getSec secs n).getD { name := n }).data = dataOf secs n := by
  unfold dataOf; cases getSec secs n <;> rfl

theorem getD_alignment (secs : List Section) (n : String) :
    ((getSec secs n).getD { name := n }).alignment = alignOf secs n := by
  unfold alignOf; cases getSec secs n <;> rfl

theorem getD_address (secs : List Section) (n : String) :
    ((getSec secs n).getD { name := n }).address = addrOf secs n := by
  unfold addrOf; cases getSec secs n <;> rfl

/-! ### one step of the section loop of `inject_object` -/

structure InjStep (secs : List Section) (inp : Section) (secs' : List Section) (off : Nat) : Prop where
  align_pos : 0 < inp.alignment
  off_eq : off = alignUp (dataOf secs inp.name).length inp.alignment
  data_eq : dataOf secs' inp.name =
    dataOf secs inp.name ++ zeros (padLen (dataOf secs inp.name).length inp.alignment) ++ inp.data
  align_eq : alignOf secs' inp.name = max (alignOf secs inp.name) inp.alignment
  addr_eq : addrOf secs' inp.name = addrOf secs inp.name
  present : (getSec secs' inp.name).isSome
  other : ∀ m, m ≠ inp.name → getSec secs' m = getSec secs m

theorem appendPiece_name (inp : Section) (pad : Nat) (s : Section) : (appendPiece inp pad s).name = s.name := rfl
theorem setAddress_name (a : Nat) (s : Section) : (setAddress a s).name = s.name := rfl

theorem dataOf_of_get {secs : List Section} {n : String} {s : Section} (h : getSec secs n = some s) :
    dataOf secs n = s.data := by unfold dataOf; rw [h]
theorem alignOf_of_get {secs : List Section} {n : String} {s : Section} (h : getSec secs n = some s) :
    alignOf secs n = s.alignment := by unfold alignOf; rw [h]
theorem addrOf_of_get {secs : List Section} {n : String} {s : Section} (h : getSec secs n = some s) :
    addrOf secs n = s.address := by unfold addrOf; rw [h]

theorem injectSection_ok {secs : List Section} {inp : Section} {secs' : List Section} {off : Nat}
    (h : injectSection secs inp = .ok (secs', off)) : InjStep secs inp secs' off := by
  unfold injectSection at h
  by_cases ha : inp.alignment = 0
  · simp [ha] at h
  · simp only [ha, if_false, Except.ok.injEq, Prod.mk.injEq] at h
    obtain ⟨h1, h2⟩ := h
    have hd := getD_data secs inp.name
    have hal := getD_alignment secs inp.name
    have had := getD_address secs inp.name
    have hget : getSec secs' inp.name = some
        (appendPiece inp (padLen ((getSec secs inp.name).getD { name := inp.name }).data.length inp.alignment)
          ((getSec secs inp.name).getD { name := inp.name })) := by
      rw [← h1, getSec_updSec_same _ _ _ (appendPiece_name _ _), getSec_ensureSec]; simp
    generalize (getSec secs inp.name).getD { name := inp.name } = old at *
    refine ⟨Nat.pos_of_ne_zero ha, ?_, ?_, ?_, ?_, ?_, ?_⟩
    · rw [← h2, ← hd]; rfl
    · rw [dataOf_of_get hget, ← hd]; rfl
    · rw [alignOf_of_get hget, ← hal]; rfl
    · rw [addrOf_of_get hget, ← had]; rfl
    · rw [hget]; rfl
    · intro m hm
      rw [← h1, getSec_updSec_other _ _ _ _ (appendPiece_name _ _) hm, getSec_ensureSec]; simp [hm]

/-! ### occurrences of byte strings -/

/-- `bytes` stands in `d` at offset `off` -/
def Occurs (d : List Nat) (off : Nat) (bytes : List Nat) : Prop :=
  ∃ pre post, d = pre ++ bytes ++ post ∧ pre.length = off

theorem Occurs.append {d : List Nat} {off : Nat} {bytes : List Nat} (h : Occurs d off bytes) (x : List Nat) :
    Occurs (d ++ x) off bytes := by
  obtain ⟨pre, post, hd, hl⟩ := h
  exact ⟨pre, post ++ x, by simp [hd], hl⟩

theorem Occurs.bound {d : List Nat} {off : Nat} {bytes : List Nat} (h : Occurs d off bytes) :
    off + bytes.length ≤ d.length := by
  obtain ⟨pre, post, hd, hl⟩ := h
  subst hd; simp; omega

theorem Occurs.extract {d : List Nat} {off : Nat} {bytes : List Nat} (h : Occurs d off bytes) :
    (d.drop off).take bytes.length = bytes := by
  obtain ⟨pre, post, hd, hl⟩ := h
  subst hd; subst hl; simp

theorem Occurs.getElem {d : List Nat} {off : Nat} {bytes : List Nat} (h : Occurs d off bytes)
    (i : Nat) (hi : i < bytes.length) : d[off + i]? = bytes[i]? := by
  obtain ⟨pre, post, hd, hl⟩ := h
  subst hd; subst hl
  rw [List.append_assoc, List.getElem?_append_right (by omega)]
  simp [List.getElem?_append_left hi]

/-! ### placement records and the merge invariant -/

/-- an input section together with the offset `inject_object` recorded for it -/
structure Rec where
  piece : Section
  off : Nat

def recsOf : List Section → List (String × Nat) → List Rec
  | s :: ss, p :: ps => ⟨s, p.2⟩ :: recsOf ss ps
  | _, _ => []

/-- records of a whole link, in processing order -/
def traceRecs : List Obj → List ObjTrace → List Rec
  | o :: os, t :: ts => recsOf o.sections t.offsets ++ traceRecs os ts
  | _, _ => []

theorem dataOf_congr {secs secs' : List Section} {m : String} (h : getSec secs' m = getSec secs m) :
    dataOf secs' m = dataOf secs m := by unfold dataOf; rw [h]
theorem alignOf_congr {secs secs' : List Section} {m : String} (h : getSec secs' m = getSec secs m) :
    alignOf secs' m = alignOf secs m := by unfold alignOf; rw [h]
theorem addrOf_congr {secs secs' : List Section} {m : String} (h : getSec secs' m = getSec secs m) :
    addrOf secs' m = addrOf secs m := by unfold addrOf; rw [h]

structure Good (secs : List Section) (recs : List Rec) : Prop where
  occurs : ∀ r ∈ recs, Occurs (dataOf secs r.piece.name) r.off r.piece.data
  aligned : ∀ r ∈ recs, 0 < r.piece.alignment ∧ r.off % r.piece.alignment = 0
  ordered : recs.Pairwise (fun r1 r2 => r1.piece.name = r2.piece.name → r1.off + r1.piece.data.length ≤ r2.off)
  present : ∀ r ∈ recs, (getSec secs r.piece.name).isSome
  align_le : ∀ r ∈ recs, r.piece.alignment ≤ alignOf secs r.piece.name
  align_src : ∀ n, alignOf secs n = 4 ∨ ∃ r ∈ recs, r.piece.name = n ∧ alignOf secs n = r.piece.alignment

theorem Good.nil : Good [] [] :=
  ⟨by simp, by simp, by simp, by simp, by simp, fun n => Or.inl rfl⟩

theorem Good.step {secs : List Section} {recs : List Rec} (g : Good secs recs) {inp : Section}
    {secs' : List Section} {off : Nat} (h : injectSection secs inp = .ok (secs', off)) :
    Good secs' (recs ++ [⟨inp, off⟩]) := by
  have st := injectSection_ok h
  have hoff : off = (dataOf secs inp.name).length + padLen (dataOf secs inp.name).length inp.alignment := st.off_eq
  refine ⟨?_, ?_, ?_, ?_, ?_, ?_⟩
  · intro r hr
    rcases List.mem_append.1 hr with hr | hr
    · by_cases hn : r.piece.name = inp.name
      · rw [hn, st.data_eq, List.append_assoc]
        exact (hn ▸ g.occurs r hr).append _
      · rw [dataOf_congr (st.other _ hn)]; exact g.occurs r hr
    · simp at hr; subst hr
      simp only
      rw [st.data_eq]
      exact ⟨dataOf secs inp.name ++ zeros (padLen (dataOf secs inp.name).length inp.alignment), [],
        by simp, by simp [zeros, hoff]⟩
  · intro r hr
    rcases List.mem_append.1 hr with hr | hr
    · exact g.aligned r hr
    · simp at hr; subst hr
      exact ⟨st.align_pos, by simp only; rw [st.off_eq]; exact alignUp_mod _ _ st.align_pos⟩
  · rw [List.pairwise_append]
    refine ⟨g.ordered, by simp, ?_⟩
    intro r hr r2 hr2 hn
    simp at hr2; subst hr2
    simp only at hn ⊢
    have := (g.occurs r hr).bound
    rw [hn] at this
    omega
  · intro r hr
    rcases List.mem_append.1 hr with hr | hr
    · by_cases hn : r.piece.name = inp.name
      · rw [hn]; exact st.present
      · rw [st.other _ hn]; exact g.present r hr
    · simp at hr; subst hr; exact st.present
  · intro r hr
    rcases List.mem_append.1 hr with hr | hr
    · by_cases hn : r.piece.name = inp.name
      · have := g.align_le r hr
        rw [hn] at this ⊢
        rw [st.align_eq]; omega
      · rw [alignOf_congr (st.other _ hn)]; exact g.align_le r hr
    · simp at hr; subst hr
      simp only; rw [st.align_eq]; omega
  · intro n
    by_cases hn : n = inp.name
    · subst hn
      rw [st.align_eq]
      rcases Nat.le_total (alignOf secs inp.name) inp.alignment with hle | hle
      · right
        exact ⟨⟨inp, off⟩, by simp, rfl, by simp [Nat.max_eq_right hle]⟩
      · rw [Nat.max_eq_left hle]
        rcases g.align_src inp.name with h4 | ⟨r, hr, hrn, hra⟩
        · exact Or.inl h4
        · exact Or.inr ⟨r, List.mem_append_left _ hr, hrn, hra⟩
    · rw [alignOf_congr (st.other _ hn)]
      rcases g.align_src n with h4 | ⟨r, hr, hrn, hra⟩
      · exact Or.inl h4
      · exact Or.inr ⟨r, List.mem_append_left _ hr, hrn, hra⟩

theorem injectSections_good : ∀ {inps : List Section} {secs secs' : List Section} {offs : List (String × Nat)}
    {recs : List Rec}, injectSections secs inps = .ok (secs', offs) → Good secs recs →
    Good secs' (recs ++ recsOf inps offs) ∧ offs.map (·.1) = inps.map (·.name)
  | [], secs, secs', offs, recs, h, g => by
    simp [injectSections] at h
    obtain ⟨h1, h2⟩ := h
    subst h1; subst h2
    simpa [recsOf] using g
  | inp :: rest, secs, secs', offs, recs, h, g => by
    unfold injectSections at h
    cases h1 : injectSection secs inp with
    | error e => simp [h1] at h
    | ok p1 =>
      obtain ⟨secs1, off⟩ := p1
      simp only [h1] at h
      cases h2 : injectSections secs1 rest with
      | error e => simp [h2] at h
      | ok p2 =>
        obtain ⟨secs2, offs2⟩ := p2
        simp only [h2, Except.ok.injEq, Prod.mk.injEq] at h
        obtain ⟨e1, e2⟩ := h
        subst e1; subst e2
        have g1 := g.step h1
        have ⟨g2, hn⟩ := injectSections_good h2 g1
        refine ⟨?_, by simp [hn]⟩
        simpa [recsOf, List.append_assoc] using g2

/-! ### inversion of `inject_object` / `merge_objects` -/

theorem injectObject_inv {dst obj dst' : Obj} {t : ObjTrace} (h : injectObject dst obj = .ok (dst', t)) :
    injectSections dst.sections obj.sections = .ok (dst'.sections, t.offsets) ∧
    injectSymbols t.offsets dst.symbols obj.symbols = .ok (dst'.symbols, t.symIds) ∧
    (∃ rels, injectRelocs t.offsets ((obj.symbols.map (·.id)).zip t.symIds) obj.relocs = .ok rels ∧
      dst'.relocs = dst.relocs ++ rels) ∧
    mergeEntry dst.entry ((obj.symbols.map (·.id)).zip t.symIds) obj.entry = .ok dst'.entry ∧
    dst'.images = dst.images := by
  unfold injectObject at h
  cases h1 : injectSections dst.sections obj.sections with
  | error e => simp [h1] at h
  | ok p1 =>
    obtain ⟨secs, offs⟩ := p1
    simp only [h1] at h
    cases h2 : injectSymbols offs dst.symbols obj.symbols with
    | error e => simp [h2] at h
    | ok p2 =>
      obtain ⟨syms, ids⟩ := p2
      simp only [h2] at h
      cases h3 : injectRelocs offs ((obj.symbols.map (·.id)).zip ids) obj.relocs with
      | error e => simp [h3] at h
      | ok rels =>
        simp only [h3] at h
        cases h4 : mergeEntry dst.entry ((obj.symbols.map (·.id)).zip ids) obj.entry with
        | error e => simp [h4] at h
        | ok en =>
          simp only [h4, Except.ok.injEq, Prod.mk.injEq] at h
          obtain ⟨e1, e2⟩ := h
          subst e1; subst e2
          exact ⟨rfl, h2, ⟨rels, h3, rfl⟩, h4, rfl⟩

theorem mergeObjects_cons_inv {dst o : Obj} {rest : List Obj} {dst' : Obj} {tr : List ObjTrace}
    (h : mergeObjects dst (o :: rest) = .ok (dst', tr)) :
    ∃ dst1 t ts, injectObject dst o = .ok (dst1, t) ∧ mergeObjects dst1 rest = .ok (dst', ts) ∧ tr = t :: ts := by
  unfold mergeObjects at h
  cases h1 : injectObject dst o with
  | error e => simp [h1] at h
  | ok p1 =>
    obtain ⟨dst1, t⟩ := p1
    simp only [h1] at h
    cases h2 : mergeObjects dst1 rest with
    | error e => simp [h2] at h
    | ok p2 =>
      obtain ⟨dst2, ts⟩ := p2
      simp only [h2, Except.ok.injEq, Prod.mk.injEq] at h
      obtain ⟨e1, e2⟩ := h
      subst e1; subst e2
      exact ⟨dst1, t, ts, rfl, h2, rfl⟩

theorem mergeObjects_nil_inv {dst dst' : Obj} {tr : List ObjTrace} (h : mergeObjects dst [] = .ok (dst', tr)) :
    dst' = dst ∧ tr = [] := by
  simp [mergeObjects] at h; exact ⟨h.1.symm, h.2.symm⟩

theorem mergeObjects_good : ∀ {objs : List Obj} {dst dst' : Obj} {tr : List ObjTrace} {recs : List Rec},
    mergeObjects dst objs = .ok (dst', tr) → Good dst.sections recs →
    Good dst'.sections (recs ++ traceRecs objs tr)
  | [], dst, dst', tr, recs, h, g => by
    obtain ⟨e1, e2⟩ := mergeObjects_nil_inv h
    subst e1; subst e2; simpa [traceRecs] using g
  | o :: rest, dst, dst', tr, recs, h, g => by
    obtain ⟨dst1, t, ts, h1, h2, e⟩ := mergeObjects_cons_inv h
    subst e
    have ⟨g1, _⟩ := injectSections_good (injectObject_inv h1).1 g
    have g2 := mergeObjects_good h2 g1
    simpa [traceRecs, List.append_assoc] using g2

/-- shape of the trace: one entry per object, one offset per section (carrying its name), one id per symbol -/
def TraceShape (o : Obj) (t : ObjTrace) : Prop :=
  t.offsets.map (·.1) = o.sections.map (·.name) ∧ t.symIds.length = o.symbols.length

theorem injectSymbols_length : ∀ {inps : List Symbol} {offs : List (String × Nat)} {syms syms' : List Symbol}
    {ids : List Nat}, injectSymbols offs syms inps = .ok (syms', ids) → ids.length = inps.length
  | [], offs, syms, syms', ids, h => by
    simp [injectSymbols] at h; simp [← h.2]
  | s :: rest, offs, syms, syms', ids, h => by
    unfold injectSymbols at h
    cases h1 : injectOneSymbol offs syms s with
    | error e => simp [h1] at h
    | ok p1 =>
      obtain ⟨syms1, id⟩ := p1
      simp only [h1] at h
      cases h2 : injectSymbols offs syms1 rest with
      | error e => simp [h2] at h
      | ok p2 =>
        obtain ⟨syms2, ids2⟩ := p2
        simp only [h2, Except.ok.injEq, Prod.mk.injEq] at h
        obtain ⟨_, e2⟩ := h
        subst e2
        simp [injectSymbols_length h2]

theorem mergeObjects_shape : ∀ {objs : List Obj} {dst dst' : Obj} {tr : List ObjTrace},
    mergeObjects dst objs = .ok (dst', tr) → List.Forall₂ TraceShape objs tr
  | [], dst, dst', tr, h => by
    obtain ⟨_, e2⟩ := mergeObjects_nil_inv h
    subst e2; exact .nil
  | o :: rest, dst, dst', tr, h => by
    obtain ⟨dst1, t, ts, h1, h2, e⟩ := mergeObjects_cons_inv h
    subst e
    have inv := injectObject_inv h1
    have ⟨_, hn⟩ := injectSections_good inv.1 Good.nil.{0} |> fun x => x
    exact .cons ⟨hn, injectSymbols_length inv.2.1⟩ (mergeObjects_shape h2)

end Proofs.Linker
