import PpciVerif.Model.Linker
import PpciVerif.Spec.Link
/-! Helper lemmas for C12 (linker model). -/
namespace Proofs.Linker
open Model.Linker

/-! ### alignment arithmetic -/

theorem padLen_of_dvd (x a : Nat) (h : x % a = 0) : padLen x a = 0 := by
  simp [padLen, h]

theorem padLen_lt (x a : Nat) (ha : 0 < a) : padLen x a < a := Nat.mod_lt _ ha

theorem alignUp_ge (x a : Nat) : x ≤ alignUp x a := Nat.le_add_right _ _

theorem alignUp_lt (x a : Nat) (ha : 0 < a) : alignUp x a < x + a := by
  have := padLen_lt x a ha
  unfold alignUp; omega

theorem alignUp_of_aligned (x a : Nat) (h : x % a = 0) : alignUp x a = x := by
  simp [alignUp, padLen_of_dvd x a h]

theorem alignUp_mod (x a : Nat) (ha : 0 < a) : alignUp x a % a = 0 := by
  unfold alignUp padLen
  by_cases h : x % a = 0
  · simp [h]
  · have hr : x % a < a := Nat.mod_lt _ ha
    rw [Nat.mod_eq_of_lt (by omega : a - x % a < a)]
    have h1 := Nat.div_add_mod x a
    have h2 : x + (a - x % a) = a * (x / a + 1) := by
      rw [Nat.mul_add, Nat.mul_one]; omega
    rw [h2]; exact Nat.mul_mod_right _ _

/-- `alignUp x a` is the *least* multiple of `a` that is `≥ x` -/
theorem alignUp_least (x a y : Nat) (ha : 0 < a) (hxy : x ≤ y) (hy : y % a = 0) : alignUp x a ≤ y := by
  by_cases h : x % a = 0
  · rw [alignUp_of_aligned x a h]; exact hxy
  · -- otherwise y ≥ x, y multiple of a, x not ⇒ y ≥ next multiple
    have hlt := alignUp_lt x a ha
    have hm := alignUp_mod x a ha
    have hge := alignUp_ge x a
    rcases Nat.lt_or_ge y (alignUp x a) with hc | hc
    · -- both y and alignUp are multiples of a and differ by less than a
      obtain ⟨k, hk⟩ := Nat.dvd_of_mod_eq_zero hm
      obtain ⟨l, hl⟩ := Nat.dvd_of_mod_eq_zero hy
      rw [hk, hl] at hc
      have hkl : l < k := Nat.lt_of_mul_lt_mul_left hc
      have : a * (l + 1) ≤ a * k := Nat.mul_le_mul_left a hkl
      rw [Nat.mul_add, Nat.mul_one] at this
      omega
    · exact hc

/-! ### sections by name -/

theorem getSec_cons (s : Section) (rest : List Section) (m : String) :
    getSec (s :: rest) m = if s.name = m then some s else getSec rest m := by
  unfold getSec
  rw [List.find?_cons]
  by_cases h : s.name = m
  · have : (s.name == m) = true := by simp [h]
    rw [this]; simp [h]
  · have : (s.name == m) = false := by simp [h]
    rw [this]; simp [h]

theorem getSec_nil (m : String) : getSec [] m = none := rfl

theorem updSec_cons (s : Section) (rest : List Section) (n : String) (f : Section → Section) :
    updSec (s :: rest) n f = (if s.name = n then f s else s) :: updSec rest n f := by
  simp [updSec]

theorem getSec_updSec_same (secs : List Section) (n : String) (f : Section → Section)
    (hf : ∀ s, (f s).name = s.name) :
    getSec (updSec secs n f) n = (getSec secs n).map f := by
  induction secs with
  | nil => simp [getSec, updSec]
  | cons s rest ih =>
    rw [updSec_cons, getSec_cons, getSec_cons, ih]
    by_cases hsn : s.name = n
    · simp [hsn, hf]
    · simp [hsn]

theorem getSec_updSec_other (secs : List Section) (n m : String) (f : Section → Section)
    (hf : ∀ s, (f s).name = s.name) (hmn : m ≠ n) :
    getSec (updSec secs n f) m = getSec secs m := by
  induction secs with
  | nil => simp [getSec, updSec]
  | cons s rest ih =>
    rw [updSec_cons, getSec_cons, getSec_cons, ih]
    by_cases hsn : s.name = n
    · have : ¬ n = m := fun h => hmn h.symm
      simp [hsn, hf, this]
    · simp [hsn]

theorem getSec_updSec (secs : List Section) (n m : String) (f : Section → Section)
    (hf : ∀ s, (f s).name = s.name) :
    getSec (updSec secs n f) m = if m = n then (getSec secs n).map f else getSec secs m := by
  by_cases hmn : m = n
  · subst hmn; simp [getSec_updSec_same _ _ _ hf]
  · simp [hmn, getSec_updSec_other _ _ _ _ hf hmn]

theorem getSec_append (a b : List Section) (m : String) :
    getSec (a ++ b) m = (getSec a m).or (getSec b m) := by
  simp [getSec, List.find?_append]

theorem getSec_single (s : Section) (m : String) :
    getSec [s] m = if s.name = m then some s else none := by
  rw [getSec_cons, getSec_nil]

theorem getSec_some_name {secs : List Section} {m : String} {s : Section} (h : getSec secs m = some s) :
    s.name = m := by
  have := List.find?_some h
  simpa using this

theorem getSec_ensureSec (secs : List Section) (n m : String) :
    getSec (ensureSec secs n) m =
      if m = n then some ((getSec secs n).getD { name := n }) else getSec secs m := by
  unfold ensureSec hasSec
  cases h : getSec secs n with
  | some s =>
    simp
    by_cases hmn : m = n
    · subst hmn; simp [h]
    · simp [hmn]
  | none =>
    simp [getSec_append, getSec_single]
    by_cases hmn : m = n
    · subst hmn; simp [h]
    · have : ¬ n = m := fun h => hmn h.symm
      simp [hmn, this]

/-- data of the section called `n` (empty if there is none) -/
def dataOf (secs : List Section) (n : String) : List Nat :=
  match getSec secs n with
  | some s => s.data
  | none => []

/-- alignment of the section called `n` (the default 4 if there is none) -/
def alignOf (secs : List Section) (n : String) : Nat :=
  match getSec secs n with
  | some s => s.alignment
  | none => 4

/-- address of the section called `n` (0 if there is none) -/
def addrOf (secs : List Section) (n : String) : Nat :=
  match getSec secs n with
  | some s => s.address
  | none => 0

theorem getD_data (secs : List Section) (n : String) :
    ((getSec secs n).getD { name := n }).data = dataOf secs n := by
  unfold dataOf; cases getSec secs n <;> rfl

theorem getD_alignment (secs : List Section) (n : String) :
    ((getSec secs n).getD { name := n }).alignment = alignOf secs n := by
  unfold alignOf; cases getSec secs n <;> rfl

theorem getD_address (secs : List Section) (n : String) :
    ((getSec secs n).getD { name := n }).address = addrOf secs n := by
  unfold addrOf; cases getSec secs n <;> rfl

/-! ### one step of the section loop of `inject_object` -/

structure InjStep (secs : List Section) (inp : Section) (secs' : List Section) (off : Nat) : Prop where
  align_pos : 0 < inp.alignment
  off_eq : off = alignUp (dataOf secs inp.name).length inp.alignment
  data_eq : dataOf secs' inp.name =
    dataOf secs inp.name ++ zeros (padLen (dataOf secs inp.name).length inp.alignment) ++ inp.data
  align_eq : alignOf secs' inp.name = max (alignOf secs inp.name) inp.alignment
  addr_eq : addrOf secs' inp.name = addrOf secs inp.name
  present : (getSec secs' inp.name).isSome
  other : ∀ m, m ≠ inp.name → getSec secs' m = getSec secs m

theorem appendPiece_name (inp : Section) (pad : Nat) (s : Section) : (appendPiece inp pad s).name = s.name := rfl
theorem setAddress_name (a : Nat) (s : Section) : (setAddress a s).name = s.name := rfl

theorem dataOf_of_get {secs : List Section} {n : String} {s : Section} (h : getSec secs n = some s) :
    dataOf secs n = s.data := by unfold dataOf; rw [h]
theorem alignOf_of_get {secs : List Section} {n : String} {s : Section} (h : getSec secs n = some s) :
    alignOf secs n = s.alignment := by unfold alignOf; rw [h]
theorem addrOf_of_get {secs : List Section} {n : String} {s : Section} (h : getSec secs n = some s) :
    addrOf secs n = s.address := by unfold addrOf; rw [h]

theorem injectSection_ok {secs : List Section} {inp : Section} {secs' : List Section} {off : Nat}
    (h : injectSection secs inp = .ok (secs', off)) : InjStep secs inp secs' off := by
  unfold injectSection at h
  by_cases ha : inp.alignment = 0
  · simp [ha] at h
  · simp only [ha, if_false, Except.ok.injEq, Prod.mk.injEq] at h
    obtain ⟨h1, h2⟩ := h
    have hd := getD_data secs inp.name
    have hal := getD_alignment secs inp.name
    have had := getD_address secs inp.name
    have hget : getSec secs' inp.name = some
        (appendPiece inp (padLen ((getSec secs inp.name).getD { name := inp.name }).data.length inp.alignment)
          ((getSec secs inp.name).getD { name := inp.name })) := by
      rw [← h1, getSec_updSec_same _ _ _ (appendPiece_name _ _), getSec_ensureSec]; simp
    generalize (getSec secs inp.name).getD { name := inp.name } = old at *
    refine ⟨Nat.pos_of_ne_zero ha, ?_, ?_, ?_, ?_, ?_, ?_⟩
    · rw [← h2, ← hd]; rfl
    · rw [dataOf_of_get hget, ← hd]; rfl
    · rw [alignOf_of_get hget, ← hal]; rfl
    · rw [addrOf_of_get hget, ← had]; rfl
    · rw [hget]; rfl
    · intro m hm
      rw [← h1, getSec_updSec_other _ _ _ _ (appendPiece_name _ _) hm, getSec_ensureSec]; simp [hm]

/-! ### occurrences of byte strings -/

/-- `bytes` stands in `d` at offset `off` -/
def Occurs (d : List Nat) (off : Nat) (bytes : List Nat) : Prop :=
  ∃ pre post, d = pre ++ bytes ++ post ∧ pre.length = off

theorem Occurs.append {d : List Nat} {off : Nat} {bytes : List Nat} (h : Occurs d off bytes) (x : List Nat) :
    Occurs (d ++ x) off bytes := by
  obtain ⟨pre, post, hd, hl⟩ := h
  exact ⟨pre, post ++ x, by simp [hd], hl⟩

theorem Occurs.bound {d : List Nat} {off : Nat} {bytes : List Nat} (h : Occurs d off bytes) :
    off + bytes.length ≤ d.length := by
  obtain ⟨pre, post, hd, hl⟩ := h
  subst hd; simp; omega

theorem Occurs.extract {d : List Nat} {off : Nat} {bytes : List Nat} (h : Occurs d off bytes) :
    (d.drop off).take bytes.length = bytes := by
  obtain ⟨pre, post, hd, hl⟩ := h
  subst hd; subst hl; simp

theorem Occurs.getElem {d : List Nat} {off : Nat} {bytes : List Nat} (h : Occurs d off bytes)
    (i : Nat) (hi : i < bytes.length) : d[off + i]? = bytes[i]? := by
  obtain ⟨pre, post, hd, hl⟩ := h
  subst hd; subst hl
  rw [List.append_assoc, List.getElem?_append_right (by omega)]
  simp [List.getElem?_append_left hi]

/-! ### placement records and the merge invariant -/

/-- an input section together with the offset `inject_object` recorded for it -/
structure Rec where
  piece : Section
  off : Nat

def recsOf : List Section → List (String × Nat) → List Rec
  | s :: ss, p :: ps => ⟨s, p.2⟩ :: recsOf ss ps
  | _, _ => []

/-- records of a whole link, in processing order -/
def traceRecs : List Obj → List ObjTrace → List Rec
  | o :: os, t :: ts => recsOf o.sections t.offsets ++ traceRecs os ts
  | _, _ => []

theorem dataOf_congr {secs secs' : List Section} {m : String} (h : getSec secs' m = getSec secs m) :
    dataOf secs' m = dataOf secs m := by unfold dataOf; rw [h]
theorem alignOf_congr {secs secs' : List Section} {m : String} (h : getSec secs' m = getSec secs m) :
    alignOf secs' m = alignOf secs m := by unfold alignOf; rw [h]
theorem addrOf_congr {secs secs' : List Section} {m : String} (h : getSec secs' m = getSec secs m) :
    addrOf secs' m = addrOf secs m := by unfold addrOf; rw [h]

structure Good (secs : List Section) (recs : List Rec) : Prop where
  occurs : ∀ r ∈ recs, Occurs (dataOf secs r.piece.name) r.off r.piece.data
  aligned : ∀ r ∈ recs, 0 < r.piece.alignment ∧ r.off % r.piece.alignment = 0
  ordered : recs.Pairwise (fun r1 r2 => r1.piece.name = r2.piece.name → r1.off + r1.piece.data.length ≤ r2.off)
  present : ∀ r ∈ recs, (getSec secs r.piece.name).isSome
  align_le : ∀ r ∈ recs, r.piece.alignment ≤ alignOf secs r.piece.name
  align_src : ∀ n, alignOf secs n = 4 ∨ ∃ r ∈ recs, r.piece.name = n ∧ alignOf secs n = r.piece.alignment

theorem Good.nil : Good [] [] :=
  ⟨by simp, by simp, by simp, by simp, by simp, fun n => Or.inl rfl⟩

theorem Good.step {secs : List Section} {recs : List Rec} (g : Good secs recs) {inp : Section}
    {secs' : List Section} {off : Nat} (h : injectSection secs inp = .ok (secs', off)) :
    Good secs' (recs ++ [⟨inp, off⟩]) := by
  have st := injectSection_ok h
  have hoff : off = (dataOf secs inp.name).length + padLen (dataOf secs inp.name).length inp.alignment := st.off_eq
  refine ⟨?_, ?_, ?_, ?_, ?_, ?_⟩
  · intro r hr
    rcases List.mem_append.1 hr with hr | hr
    · by_cases hn : r.piece.name = inp.name
      · rw [hn, st.data_eq, List.append_assoc]
        exact (hn ▸ g.occurs r hr).append _
      · rw [dataOf_congr (st.other _ hn)]; exact g.occurs r hr
    · simp at hr; subst hr
      simp only
      rw [st.data_eq]
      exact ⟨dataOf secs inp.name ++ zeros (padLen (dataOf secs inp.name).length inp.alignment), [],
        by simp, by simp [zeros, hoff]⟩
  · intro r hr
    rcases List.mem_append.1 hr with hr | hr
    · exact g.aligned r hr
    · simp at hr; subst hr
      exact ⟨st.align_pos, by simp only; rw [st.off_eq]; exact alignUp_mod _ _ st.align_pos⟩
  · rw [List.pairwise_append]
    refine ⟨g.ordered, by simp, ?_⟩
    intro r hr r2 hr2 hn
    simp at hr2; subst hr2
    simp only at hn ⊢
    have := (g.occurs r hr).bound
    rw [hn] at this
    omega
  · intro r hr
    rcases List.mem_append.1 hr with hr | hr
    · by_cases hn : r.piece.name = inp.name
      · rw [hn]; exact st.present
      · rw [st.other _ hn]; exact g.present r hr
    · simp at hr; subst hr; exact st.present
  · intro r hr
    rcases List.mem_append.1 hr with hr | hr
    · by_cases hn : r.piece.name = inp.name
      · have := g.align_le r hr
        rw [hn] at this ⊢
        rw [st.align_eq]; omega
      · rw [alignOf_congr (st.other _ hn)]; exact g.align_le r hr
    · simp at hr; subst hr
      simp only; rw [st.align_eq]; omega
  · intro n
    by_cases hn : n = inp.name
    · subst hn
      rw [st.align_eq]
      rcases Nat.le_total (alignOf secs inp.name) inp.alignment with hle | hle
      · right
        exact ⟨⟨inp, off⟩, by simp, rfl, by simp [Nat.max_eq_right hle]⟩
      · rw [Nat.max_eq_left hle]
        rcases g.align_src inp.name with h4 | ⟨r, hr, hrn, hra⟩
        · exact Or.inl h4
        · exact Or.inr ⟨r, List.mem_append_left _ hr, hrn, hra⟩
    · rw [alignOf_congr (st.other _ hn)]
      rcases g.align_src n with h4 | ⟨r, hr, hrn, hra⟩
      · exact Or.inl h4
      · exact Or.inr ⟨r, List.mem_append_left _ hr, hrn, hra⟩

theorem injectSections_good : ∀ {inps : List Section} {secs secs' : List Section} {offs : List (String × Nat)}
    {recs : List Rec}, injectSections secs inps = .ok (secs', offs) → Good secs recs →
    Good secs' (recs ++ recsOf inps offs) ∧ offs.map (·.1) = inps.map (·.name)
  | [], secs, secs', offs, recs, h, g => by
    simp [injectSections] at h
    obtain ⟨h1, h2⟩ := h
    subst h1; subst h2
    simpa [recsOf] using g
  | inp :: rest, secs, secs', offs, recs, h, g => by
    unfold injectSections at h
    cases h1 : injectSection secs inp with
    | error e => simp [h1] at h
    | ok p1 =>
      obtain ⟨secs1, off⟩ := p1
      simp only [h1] at h
      cases h2 : injectSections secs1 rest with
      | error e => simp [h2] at h
      | ok p2 =>
        obtain ⟨secs2, offs2⟩ := p2
        simp only [h2, Except.ok.injEq, Prod.mk.injEq] at h
        obtain ⟨e1, e2⟩ := h
        subst e1; subst e2
        have g1 := g.step h1
        have ⟨g2, hn⟩ := injectSections_good h2 g1
        refine ⟨?_, by simp [hn]⟩
        simpa [recsOf, List.append_assoc] using g2

theorem injectSections_cons_inv {inp : Section} {rest secs secs' : List Section} {offs : List (String × Nat)}
    (h : injectSections secs (inp :: rest) = .ok (secs', offs)) :
    ∃ secs1 off offs2, injectSection secs inp = .ok (secs1, off) ∧
      injectSections secs1 rest = .ok (secs', offs2) ∧ offs = (inp.name, off) :: offs2 := by
  unfold injectSections at h
  cases h1 : injectSection secs inp with
  | error e => simp [h1] at h
  | ok p1 =>
    obtain ⟨secs1, off⟩ := p1
    simp only [h1] at h
    cases h2 : injectSections secs1 rest with
    | error e => simp [h2] at h
    | ok p2 =>
      obtain ⟨secs2, offs2⟩ := p2
      simp only [h2, Except.ok.injEq, Prod.mk.injEq] at h
      obtain ⟨e1, e2⟩ := h
      subst e1; subst e2
      exact ⟨secs1, off, offs2, rfl, h2, rfl⟩

theorem injectSections_names : ∀ {inps : List Section} {secs secs' : List Section} {offs : List (String × Nat)},
    injectSections secs inps = .ok (secs', offs) → offs.map (·.1) = inps.map (·.name)
  | [], secs, secs', offs, h => by
    simp [injectSections] at h; simp [← h.2]
  | inp :: rest, secs, secs', offs, h => by
    obtain ⟨secs1, off, offs2, _, h2, e⟩ := injectSections_cons_inv h
    subst e
    simp [injectSections_names h2]

/-! ### inversion of `inject_object` / `merge_objects` -/

theorem injectObject_inv {dst obj dst' : Obj} {t : ObjTrace} (h : injectObject dst obj = .ok (dst', t)) :
    injectSections dst.sections obj.sections = .ok (dst'.sections, t.offsets) ∧
    injectSymbols t.offsets dst.symbols obj.symbols = .ok (dst'.symbols, t.symIds) ∧
    (∃ rels, injectRelocs t.offsets ((obj.symbols.map (·.id)).zip t.symIds) obj.relocs = .ok rels ∧
      dst'.relocs = dst.relocs ++ rels) ∧
    mergeEntry dst.entry ((obj.symbols.map (·.id)).zip t.symIds) obj.entry = .ok dst'.entry ∧
    dst'.images = dst.images := by
  unfold injectObject at h
  cases h1 : injectSections dst.sections obj.sections with
  | error e => simp [h1] at h
  | ok p1 =>
    obtain ⟨secs, offs⟩ := p1
    simp only [h1] at h
    cases h2 : injectSymbols offs dst.symbols obj.symbols with
    | error e => simp [h2] at h
    | ok p2 =>
      obtain ⟨syms, ids⟩ := p2
      simp only [h2] at h
      cases h3 : injectRelocs offs ((obj.symbols.map (·.id)).zip ids) obj.relocs with
      | error e => simp [h3] at h
      | ok rels =>
        simp only [h3] at h
        cases h4 : mergeEntry dst.entry ((obj.symbols.map (·.id)).zip ids) obj.entry with
        | error e => simp [h4] at h
        | ok en =>
          simp only [h4, Except.ok.injEq, Prod.mk.injEq] at h
          obtain ⟨e1, e2⟩ := h
          subst e1; subst e2
          exact ⟨rfl, h2, ⟨rels, h3, rfl⟩, h4, rfl⟩

theorem mergeObjects_cons_inv {dst o : Obj} {rest : List Obj} {dst' : Obj} {tr : List ObjTrace}
    (h : mergeObjects dst (o :: rest) = .ok (dst', tr)) :
    ∃ dst1 t ts, injectObject dst o = .ok (dst1, t) ∧ mergeObjects dst1 rest = .ok (dst', ts) ∧ tr = t :: ts := by
  unfold mergeObjects at h
  cases h1 : injectObject dst o with
  | error e => simp [h1] at h
  | ok p1 =>
    obtain ⟨dst1, t⟩ := p1
    simp only [h1] at h
    cases h2 : mergeObjects dst1 rest with
    | error e => simp [h2] at h
    | ok p2 =>
      obtain ⟨dst2, ts⟩ := p2
      simp only [h2, Except.ok.injEq, Prod.mk.injEq] at h
      obtain ⟨e1, e2⟩ := h
      subst e1; subst e2
      exact ⟨dst1, t, ts, rfl, h2, rfl⟩

theorem mergeObjects_nil_inv {dst dst' : Obj} {tr : List ObjTrace} (h : mergeObjects dst [] = .ok (dst', tr)) :
    dst' = dst ∧ tr = [] := by
  simp [mergeObjects] at h; exact ⟨h.1.symm, h.2⟩

theorem mergeObjects_good : ∀ {objs : List Obj} {dst dst' : Obj} {tr : List ObjTrace} {recs : List Rec},
    mergeObjects dst objs = .ok (dst', tr) → Good dst.sections recs →
    Good dst'.sections (recs ++ traceRecs objs tr)
  | [], dst, dst', tr, recs, h, g => by
    obtain ⟨e1, e2⟩ := mergeObjects_nil_inv h
    subst e1; subst e2; simpa [traceRecs] using g
  | o :: rest, dst, dst', tr, recs, h, g => by
    obtain ⟨dst1, t, ts, h1, h2, e⟩ := mergeObjects_cons_inv h
    subst e
    have ⟨g1, _⟩ := injectSections_good (injectObject_inv h1).1 g
    have g2 := mergeObjects_good h2 g1
    simpa [traceRecs, List.append_assoc] using g2

/-- pointwise relation of two lists of equal length -/
inductive All2 {α β : Type} (R : α → β → Prop) : List α → List β → Prop
  | nil : All2 R [] []
  | cons {a b as bs} : R a b → All2 R as bs → All2 R (a :: as) (b :: bs)

theorem All2.length_eq {α β : Type} {R : α → β → Prop} {as : List α} {bs : List β} (h : All2 R as bs) :
    as.length = bs.length := by
  induction h with
  | nil => rfl
  | cons _ _ ih => simp [ih]

theorem All2.of_mem_zip {α β : Type} {R : α → β → Prop} {as : List α} {bs : List β} (h : All2 R as bs) :
    ∀ p ∈ as.zip bs, R p.1 p.2 := by
  induction h with
  | nil => simp
  | cons hr _ ih =>
    intro p hp
    simp only [List.zip_cons_cons, List.mem_cons] at hp
    rcases hp with hp | hp
    · subst hp; exact hr
    · exact ih p hp

theorem All2.imp {α β : Type} {R S : α → β → Prop} {as : List α} {bs : List β} (h : All2 R as bs)
    (hrs : ∀ a b, R a b → S a b) : All2 S as bs := by
  induction h with
  | nil => exact .nil
  | cons hr _ ih => exact .cons (hrs _ _ hr) ih

/-- shape of the trace: one entry per object, one offset per section (carrying its name), one id per symbol -/
def TraceShape (o : Obj) (t : ObjTrace) : Prop :=
  t.offsets.map (·.1) = o.sections.map (·.name) ∧ t.symIds.length = o.symbols.length

theorem injectSymbols_length : ∀ {inps : List Symbol} {offs : List (String × Nat)} {syms syms' : List Symbol}
    {ids : List Nat}, injectSymbols offs syms inps = .ok (syms', ids) → ids.length = inps.length
  | [], offs, syms, syms', ids, h => by
    simp [injectSymbols] at h; simp [← h.2]
  | s :: rest, offs, syms, syms', ids, h => by
    unfold injectSymbols at h
    cases h1 : injectOneSymbol offs syms s with
    | error e => simp [h1] at h
    | ok p1 =>
      obtain ⟨syms1, id⟩ := p1
      simp only [h1] at h
      cases h2 : injectSymbols offs syms1 rest with
      | error e => simp [h2] at h
      | ok p2 =>
        obtain ⟨syms2, ids2⟩ := p2
        simp only [h2, Except.ok.injEq, Prod.mk.injEq] at h
        obtain ⟨_, e2⟩ := h
        subst e2
        simp [injectSymbols_length h2]

theorem mergeObjects_shape : ∀ {objs : List Obj} {dst dst' : Obj} {tr : List ObjTrace},
    mergeObjects dst objs = .ok (dst', tr) → All2 TraceShape objs tr
  | [], dst, dst', tr, h => by
    obtain ⟨_, e2⟩ := mergeObjects_nil_inv h
    subst e2; exact .nil
  | o :: rest, dst, dst', tr, h => by
    obtain ⟨dst1, t, ts, h1, h2, e⟩ := mergeObjects_cons_inv h
    subst e
    have inv := injectObject_inv h1
    have hn := injectSections_names inv.1
    exact .cons ⟨hn, injectSymbols_length inv.2.1⟩ (mergeObjects_shape h2)

/-! ### symbol tables -/

/-- `b` extends `a`: positions, ids, names and bindings are kept and a defined symbol never changes -/
def Ext (a b : List Symbol) : Prop :=
  ∀ (i : Nat) (x : Symbol), a[i]? = some x → ∃ y : Symbol, b[i]? = some y ∧ y.id = x.id ∧ y.name = x.name ∧ y.binding = x.binding ∧
    (x.value.isSome → y = x)

/-- ids are positions (`inject_symbol` uses `len(symbols)`) -/
def IdInv (a : List Symbol) : Prop := ∀ (i : Nat) (x : Symbol), a[i]? = some x → x.id = i

theorem Ext.refl (a : List Symbol) : Ext a a := fun _ x h => ⟨x, h, rfl, rfl, rfl, fun _ => rfl⟩

theorem Ext.trans {a b c : List Symbol} (h1 : Ext a b) (h2 : Ext b c) : Ext a c := by
  intro i x hx
  obtain ⟨y, hy, e1, e2, e3, e4⟩ := h1 i x hx
  obtain ⟨z, hz, f1, f2, f3, f4⟩ := h2 i y hy
  refine ⟨z, hz, f1.trans e1, f2.trans e2, f3.trans e3, fun hv => ?_⟩
  have := e4 hv
  subst this
  exact f4 hv

theorem Ext.append (a l : List Symbol) : Ext a (a ++ l) := by
  intro i x hx
  have hi : i < a.length := by
    rcases Nat.lt_or_ge i a.length with h | h
    · exact h
    · rw [List.getElem?_eq_none h] at hx; cases hx
  exact ⟨x, by rw [List.getElem?_append_left hi]; exact hx, rfl, rfl, rfl, fun _ => rfl⟩

theorem Ext.defineGlobal (a : List Symbol) (n : String) (sect : Option String) (v : Nat) :
    Ext a (defineGlobal a n sect v) := by
  intro i x hx
  unfold Model.Linker.defineGlobal
  rw [List.getElem?_map, hx]
  simp only [Option.map_some]
  by_cases hc : (x.isGlobal && x.name == n && x.value.isNone) = true
  · rw [if_pos hc]
    refine ⟨_, rfl, rfl, rfl, rfl, fun hv => ?_⟩
    simp at hc
    rw [hc.2] at hv; cases hv
  · rw [if_neg hc]
    exact ⟨x, rfl, rfl, rfl, rfl, fun _ => rfl⟩

theorem IdInv.nil : IdInv [] := by intro i x h; simp at h

theorem IdInv.append_one {a : List Symbol} (h : IdInv a) (s : Symbol) (hs : s.id = a.length) : IdInv (a ++ [s]) := by
  intro i x hx
  rcases Nat.lt_or_ge i a.length with hi | hi
  · rw [List.getElem?_append_left hi] at hx; exact h i x hx
  · rw [List.getElem?_append_right hi] at hx
    rcases Nat.eq_or_lt_of_le hi with e | e
    · rw [← e] at hx; simp at hx; subst hx; omega
    · have : i - a.length ≥ 1 := by omega
      rw [List.getElem?_eq_none (by simp; omega)] at hx; cases hx

theorem IdInv.defineGlobal {a : List Symbol} (h : IdInv a) (n : String) (sect : Option String) (v : Nat) :
    IdInv (defineGlobal a n sect v) := by
  intro i x hx
  unfold Model.Linker.defineGlobal at hx
  rw [List.getElem?_map] at hx
  cases ha : a[i]? with
  | none => rw [ha] at hx; cases hx
  | some y =>
    rw [ha] at hx
    simp only [Option.map_some, Option.some.injEq] at hx
    have := h i y ha
    rw [← hx]
    split <;> exact this

theorem find_by_id : ∀ (l : List Symbol) (off i : Nat) (y : Symbol),
    (∀ (j : Nat) (x : Symbol), l[j]? = some x → x.id = off + j) → l[i]? = some y →
    l.find? (fun s => s.id == off + i) = some y
  | [], _, _, _, _, h => by simp at h
  | a :: l, off, 0, y, hinv, h => by
    simp at h; subst h
    have := hinv 0 a (by simp)
    simp [this]
  | a :: l, off, i + 1, y, hinv, h => by
    have ha := hinv 0 a (by simp)
    have hne : (a.id == off + (i + 1)) = false := by simp [ha]
    rw [List.find?_cons, hne]
    have := find_by_id l (off + 1) i y (fun j x hx => by
      have := hinv (j + 1) x (by simpa using hx)
      omega) (by simpa using h)
    simp only at this ⊢
    rw [show off + (i + 1) = off + 1 + i by omega]
    exact this

theorem getSymbolIdValue_of {o : Obj} {id : Nat} {y : Symbol} {v : Nat} {n : String} {sec : Section}
    (hinv : IdInv o.symbols) (hy : o.symbols[id]? = some y) (hv : y.value = some v) (hn : y.sect = some n)
    (hs : getSec o.sections n = some sec) : getSymbolIdValue o id = .ok (v + sec.address) := by
  unfold getSymbolIdValue
  have := find_by_id o.symbols 0 id y (fun j x hx => by simpa using hinv j x hx) hy
  simp only [Nat.zero_add] at this
  rw [this]
  simp only [hv, hn, hs]

theorem getSymbolIdValue_abs {o : Obj} {id : Nat} {y : Symbol} {v : Nat}
    (hinv : IdInv o.symbols) (hy : o.symbols[id]? = some y) (hv : y.value = some v) (hn : y.sect = none) :
    getSymbolIdValue o id = .ok v := by
  unfold getSymbolIdValue
  have := find_by_id o.symbols 0 id y (fun j x hx => by simpa using hinv j x hx) hy
  simp only [Nat.zero_add] at this
  rw [this]
  simp only [hv, hn]

theorem addSymbol_ok {syms syms' : List Symbol} {s : Symbol} (h : addSymbol syms s = .ok syms') :
    syms' = syms ++ [s] ∧ (s.isGlobal = true → findGlobal syms s.name = none) := by
  unfold addSymbol at h
  split at h
  · cases h
  · rename_i hc
    simp only [Except.ok.injEq] at h
    refine ⟨h.symm, fun hg => ?_⟩
    simp [hg] at hc
    exact hc

theorem injectSymbol_ok {syms syms' : List Symbol} {name : String} {b : Binding} {sect : Option String}
    {value : Option Nat} {typ : String} {size id : Nat}
    (h : injectSymbol syms name b sect value typ size = .ok (syms', id)) :
    id = syms.length ∧ syms' = syms ++ [{ id := syms.length, name, binding := b, value, sect, typ, size }] := by
  unfold injectSymbol at h
  cases h1 : addSymbol syms { id := syms.length, name, binding := b, value, sect, typ, size } with
  | error e => simp [h1] at h
  | ok s1 =>
    simp only [h1, Except.ok.injEq, Prod.mk.injEq] at h
    obtain ⟨e1, e2⟩ := h
    subst e1; subst e2
    exact ⟨rfl, (addSymbol_ok h1).1⟩

theorem findGlobal_some {syms : List Symbol} {n : String} {g : Symbol} (h : findGlobal syms n = some g) :
    g.isGlobal = true ∧ g.name = n ∧ ∃ i : Nat, syms[i]? = some g := by
  unfold findGlobal at h
  have h1 := List.find?_some h
  have h2 := List.mem_of_find?_eq_some h
  simp at h1
  exact ⟨h1.1, h1.2, List.getElem?_of_mem h2⟩

/-- what is known about the table entry a processed symbol is mapped to -/
def SymAt (syms : List Symbol) (id : Nat) (name : String) (b : Binding) (value : Option Nat)
    (sect : Option String) : Prop :=
  ∃ y, syms[id]? = some y ∧ y.name = name ∧ y.binding = b ∧ (∀ v, value = some v → y.value = some v ∧ y.sect = sect)

theorem SymAt.ext {syms syms' : List Symbol} {id : Nat} {name : String} {b : Binding} {value : Option Nat}
    {sect : Option String} (h : SymAt syms id name b value sect) (e : Ext syms syms') :
    SymAt syms' id name b value sect := by
  obtain ⟨y, hy, h1, h2, h3⟩ := h
  obtain ⟨z, hz, _, f2, f3, f4⟩ := e id y hy
  refine ⟨z, hz, f2.trans h1, f3.trans h2, fun v hv => ?_⟩
  have := h3 v hv
  have hz' : z = y := f4 (by rw [this.1]; rfl)
  subst hz'; exact this

theorem injectSymbol_spec {syms syms' : List Symbol} {name : String} {b : Binding} {sect : Option String}
    {value : Option Nat} {typ : String} {size id : Nat}
    (h : injectSymbol syms name b sect value typ size = .ok (syms', id)) (hinv : IdInv syms) :
    Ext syms syms' ∧ IdInv syms' ∧ SymAt syms' id name b value sect := by
  obtain ⟨e1, e2⟩ := injectSymbol_ok h
  subst e1; subst e2
  refine ⟨Ext.append _ _, hinv.append_one _ rfl,
    ⟨{ id := syms.length, name, binding := b, value, sect, typ, size }, ?_, rfl, rfl, fun v hv => ⟨hv, rfl⟩⟩⟩
  simp

theorem mergeGlobal_spec {syms syms' : List Symbol} {name : String} {sect : Option String}
    {value : Option Nat} {typ : String} {size id : Nat}
    (h : mergeGlobal syms name sect value typ size = .ok (syms', id)) (hinv : IdInv syms) :
    Ext syms syms' ∧ IdInv syms' ∧ SymAt syms' id name .global value sect := by
  unfold mergeGlobal at h
  cases hf : findGlobal syms name with
  | none =>
    rw [hf] at h
    exact injectSymbol_spec h hinv
  | some g =>
    rw [hf] at h
    obtain ⟨hg, hn, i, hi⟩ := findGlobal_some hf
    have hid : g.id = i := hinv i g hi
    have hb : g.binding = .global := by
      unfold Symbol.isGlobal at hg; simpa using hg
    cases value with
    | none =>
      simp only [Except.ok.injEq, Prod.mk.injEq] at h
      obtain ⟨e1, e2⟩ := h
      subst e1; subst e2
      exact ⟨Ext.refl _, hinv, ⟨g, by rw [hid]; exact hi, hn, hb, fun v hv => by cases hv⟩⟩
    | some v =>
      simp only at h
      split at h
      · rename_i hnone
        simp only [Except.ok.injEq, Prod.mk.injEq] at h
        obtain ⟨e1, e2⟩ := h
        subst e1; subst e2
        refine ⟨Ext.defineGlobal _ _ _ _, hinv.defineGlobal _ _ _, ?_⟩
        refine ⟨{ g with value := some v, sect := sect }, ?_, hn, hb, fun w hw => ?_⟩
        · rw [hid]
          unfold Model.Linker.defineGlobal
          rw [List.getElem?_map, hi]
          have hnone' : g.value = none := by simpa using hnone
          simp [hg, hn, hnone', hid]
        · cases hw; exact ⟨rfl, rfl⟩
      · cases h

/-- the table entry of input symbol `s` (of an object whose `section_offsets` are `offs`) -/
def SymOK (syms : List Symbol) (offs : List (String × Nat)) (s : Symbol) (id : Nat) : Prop :=
  ∃ y : Symbol, syms[id]? = some y ∧ y.name = s.name ∧ y.binding = s.binding ∧
    ∀ v n, s.value = some v → s.sect = some n →
      ∃ o, dictGet offs n = some o ∧ y.value = some (o + v) ∧ y.sect = some n

theorem SymOK.ext {syms syms' : List Symbol} {offs : List (String × Nat)} {s : Symbol} {id : Nat}
    (h : SymOK syms offs s id) (e : Ext syms syms') : SymOK syms' offs s id := by
  obtain ⟨y, hy, h1, h2, h3⟩ := h
  obtain ⟨z, hz, _, f2, f3, f4⟩ := e id y hy
  refine ⟨z, hz, f2.trans h1, f3.trans h2, fun v n hv hn => ?_⟩
  obtain ⟨o, ho, hyv, hys⟩ := h3 v n hv hn
  have hz' : z = y := f4 (by rw [hyv]; rfl)
  subst hz'; exact ⟨o, ho, hyv, hys⟩

theorem shiftSymbol_ok {offs : List (String × Nat)} {s : Symbol} {value : Option Nat} {sect : Option String}
    (h : shiftSymbol offs s = .ok (value, sect)) :
    (s.value = none → value = none ∧ sect = none) ∧
    (∀ v, s.value = some v → ∃ n o, s.sect = some n ∧ dictGet offs n = some o ∧ value = some (o + v) ∧ sect = some n) := by
  unfold shiftSymbol at h
  cases hv : s.value with
  | none =>
    simp only [hv, Except.ok.injEq, Prod.mk.injEq] at h
    exact ⟨fun _ => ⟨h.1.symm, h.2.symm⟩, fun v hv' => by cases hv'⟩
  | some v =>
    simp only [hv] at h
    cases hn : s.sect with
    | none => simp [hn] at h
    | some n =>
      simp only [hn] at h
      cases ho : dictGet offs n with
      | none => simp [ho] at h
      | some o =>
        simp only [ho, Except.ok.injEq, Prod.mk.injEq] at h
        refine ⟨fun h' => (by cases h'), fun w hw => ?_⟩
        cases hw
        exact ⟨n, o, rfl, ho, h.1.symm, h.2.symm⟩

theorem injectOneSymbol_spec {offs : List (String × Nat)} {syms syms' : List Symbol} {s : Symbol} {id : Nat}
    (h : injectOneSymbol offs syms s = .ok (syms', id)) (hinv : IdInv syms) :
    Ext syms syms' ∧ IdInv syms' ∧ SymOK syms' offs s id := by
  unfold injectOneSymbol at h
  cases hs : shiftSymbol offs s with
  | error e => simp [hs] at h
  | ok p =>
    obtain ⟨value, sect⟩ := p
    simp only [hs] at h
    have ⟨_, hdef⟩ := shiftSymbol_ok hs
    have key : ∀ b, b = s.binding → SymAt syms' id s.name b value sect → SymOK syms' offs s id := by
      intro b hb ⟨y, hy, h1, h2, h3⟩
      refine ⟨y, hy, h1, h2.trans hb, fun v n hv hn => ?_⟩
      obtain ⟨n', o, hn', ho, hval, hsect⟩ := hdef v hv
      rw [hn] at hn'; cases hn'
      have := h3 (o + v) hval
      exact ⟨o, ho, this.1, this.2.trans hsect⟩
    by_cases hg : s.isGlobal = true
    · simp only [hg, if_true] at h
      have ⟨e, i, a⟩ := mergeGlobal_spec h hinv
      have hb : Binding.global = s.binding := by
        unfold Symbol.isGlobal at hg; simp at hg; exact hg.symm
      exact ⟨e, i, key _ hb a⟩
    · simp only [hg] at h
      have ⟨e, i, a⟩ := injectSymbol_spec h hinv
      exact ⟨e, i, key _ rfl a⟩

theorem injectSymbols_cons_inv {offs : List (String × Nat)} {s : Symbol} {rest syms syms' : List Symbol}
    {ids : List Nat} (h : injectSymbols offs syms (s :: rest) = .ok (syms', ids)) :
    ∃ syms1 id ids2, injectOneSymbol offs syms s = .ok (syms1, id) ∧
      injectSymbols offs syms1 rest = .ok (syms', ids2) ∧ ids = id :: ids2 := by
  unfold injectSymbols at h
  cases h1 : injectOneSymbol offs syms s with
  | error e => simp [h1] at h
  | ok p1 =>
    obtain ⟨syms1, id⟩ := p1
    simp only [h1] at h
    cases h2 : injectSymbols offs syms1 rest with
    | error e => simp [h2] at h
    | ok p2 =>
      obtain ⟨syms2, ids2⟩ := p2
      simp only [h2, Except.ok.injEq, Prod.mk.injEq] at h
      obtain ⟨e1, e2⟩ := h
      subst e1; subst e2
      exact ⟨syms1, id, ids2, rfl, h2, rfl⟩

theorem injectSymbols_spec : ∀ {inps : List Symbol} {offs : List (String × Nat)} {syms syms' : List Symbol}
    {ids : List Nat}, injectSymbols offs syms inps = .ok (syms', ids) → IdInv syms →
    Ext syms syms' ∧ IdInv syms' ∧ ∀ q ∈ inps.zip ids, SymOK syms' offs q.1 q.2
  | [], offs, syms, syms', ids, h, hinv => by
    simp [injectSymbols] at h
    obtain ⟨e1, e2⟩ := h
    subst e1; subst e2
    exact ⟨Ext.refl _, hinv, by simp⟩
  | s :: rest, offs, syms, syms', ids, h, hinv => by
    obtain ⟨syms1, id, ids2, h1, h2, e⟩ := injectSymbols_cons_inv h
    subst e
    have ⟨e1, i1, ok1⟩ := injectOneSymbol_spec h1 hinv
    have ⟨e2, i2, ok2⟩ := injectSymbols_spec h2 i1
    refine ⟨e1.trans e2, i2, fun q hq => ?_⟩
    simp only [List.zip_cons_cons, List.mem_cons] at hq
    rcases hq with hq | hq
    · subst hq; exact ok1.ext e2
    · exact ok2 q hq

/-- symbol part of the merge: every input symbol of every object has its table entry -/
theorem mergeObjects_syms : ∀ {objs : List Obj} {dst dst' : Obj} {tr : List ObjTrace},
    mergeObjects dst objs = .ok (dst', tr) → IdInv dst.symbols →
    Ext dst.symbols dst'.symbols ∧ IdInv dst'.symbols ∧
    ∀ p ∈ objs.zip tr, ∀ q ∈ p.1.symbols.zip p.2.symIds, SymOK dst'.symbols p.2.offsets q.1 q.2
  | [], dst, dst', tr, h, hinv => by
    obtain ⟨e1, e2⟩ := mergeObjects_nil_inv h
    subst e1; subst e2
    exact ⟨Ext.refl _, hinv, by simp⟩
  | o :: rest, dst, dst', tr, h, hinv => by
    obtain ⟨dst1, t, ts, h1, h2, e⟩ := mergeObjects_cons_inv h
    subst e
    have ⟨e1, i1, ok1⟩ := injectSymbols_spec (injectObject_inv h1).2.1 hinv
    have ⟨e2, i2, ok2⟩ := mergeObjects_syms h2 i1
    refine ⟨e1.trans e2, i2, fun p hp => ?_⟩
    simp only [List.zip_cons_cons, List.mem_cons] at hp
    rcases hp with hp | hp
    · subst hp; exact fun q hq => (ok1 q hq).ext e2
    · exact ok2 p hp

end Proofs.Linker
