import PpciVerif.Spec.Relax
import PpciVerif.Model.Relax
import PpciVerif.Proofs.LinkerLayout
/-! Lemmas for C13 (core Lean only; kept in ONE module so that the thorough-tier `leanchecker` run loads the
import closure once):
 1. the re-indexing `φ`, `count_holes`, hole punching, the stable sort of the hole lists;
 2. `_apply_relaxation_holes`: symbols, relocation entries, section data, section addresses of the images;
 3. the candidate loop of `do_relaxations`, the registered holes, `do_relaxations` as a whole;
 4. two sections of one image: the address map never increases a distance. -/
namespace Proofs.Relax

/-! # 1. φ, count_holes, hole punching, sort -/
section RelaxPart
open Spec.Relax
open Model.Relax hiding Hole

/-! ### `removedBefore` / `phi` -/

theorem strictlyInside_cons (h : Hole) (rest : List Hole) (o : Nat) :
    strictlyInside (h :: rest) o = (decide (h.1 < o ∧ o < h.1 + h.2) || strictlyInside rest o) := by
  simp [strictlyInside]

theorem inHole_cons (h : Hole) (rest : List Hole) (o : Nat) :
    inHole (h :: rest) o = (decide (h.1 ≤ o ∧ o < h.1 + h.2) || inHole rest o) := by
  simp [inHole]

/-- a deleted byte is the only kind of offset that can lie strictly inside a hole -/
theorem strictlyInside_of_not_inHole {hs : List Hole} {o : Nat} (h : inHole hs o = false) :
    strictlyInside hs o = false := by
  induction hs with
  | nil => rfl
  | cons g rest ih =>
    rw [inHole_cons] at h
    rw [strictlyInside_cons]
    simp only [Bool.or_eq_false_iff, decide_eq_false_iff_not] at h ⊢
    exact ⟨fun c => h.1 ⟨by omega, c.2⟩, ih h.2⟩

/-- no hole starts before `o` when all holes start at or after `L ≥ o` -/
theorem removedBefore_zero : ∀ (hs : List Hole) (L o : Nat), HolesFrom L hs → o ≤ L → removedBefore hs o = 0
  | [], _, _, _, _ => rfl
  | h :: rest, L, o, hf, ho => by
    obtain ⟨h1, h2⟩ := hf
    have hn : ¬ h.1 < o := by omega
    simp only [removedBefore, if_neg hn, Nat.zero_add]
    exact removedBefore_zero rest (h.1 + h.2) o h2 (by omega)

/-- the bytes removed before `o` all lie in `[L, o)` when `o` is not strictly inside a hole -/
theorem removedBefore_le : ∀ (hs : List Hole) (L o : Nat), HolesFrom L hs → strictlyInside hs o = false →
    L ≤ o → removedBefore hs o + L ≤ o
  | [], _, _, _, _, h => by simpa [removedBefore] using h
  | h :: rest, L, o, hf, hs, hL => by
    obtain ⟨h1, h2⟩ := hf
    rw [strictlyInside_cons] at hs
    simp only [Bool.or_eq_false_iff, decide_eq_false_iff_not] at hs
    obtain ⟨hs1, hs2⟩ := hs
    simp only [removedBefore]
    by_cases c : h.1 < o
    · rw [if_pos c]
      have := removedBefore_le rest (h.1 + h.2) o h2 hs2 (by omega)
      omega
    · rw [if_neg c, removedBefore_zero rest (h.1 + h.2) o h2 (by omega)]
      omega

theorem removedBefore_mono (hs : List Hole) {o₁ o₂ : Nat} (h : o₁ ≤ o₂) :
    removedBefore hs o₁ ≤ removedBefore hs o₂ := by
  induction hs with
  | nil => exact Nat.le_refl _
  | cons g rest ih =>
    simp only [removedBefore]
    by_cases c1 : g.1 < o₁
    · have c2 : g.1 < o₂ := by omega
      rw [if_pos c1, if_pos c2]; omega
    · rw [if_neg c1]
      by_cases c2 : g.1 < o₂
      · rw [if_pos c2]; omega
      · rw [if_neg c2]; omega

/-- between two offsets at most `o₂ - o₁` bytes are removed -/
theorem removedBefore_lip : ∀ (hs : List Hole) (L o₁ o₂ : Nat), HolesFrom L hs → strictlyInside hs o₂ = false →
    o₁ ≤ o₂ → removedBefore hs o₂ + o₁ ≤ removedBefore hs o₁ + o₂
  | [], _, _, _, _, _, h => by simpa [removedBefore] using h
  | h :: rest, L, o₁, o₂, hf, hs, ho => by
    obtain ⟨h1, h2⟩ := hf
    rw [strictlyInside_cons] at hs
    simp only [Bool.or_eq_false_iff, decide_eq_false_iff_not] at hs
    obtain ⟨hs1, hs2⟩ := hs
    simp only [removedBefore]
    by_cases c1 : h.1 < o₁
    · have c2 : h.1 < o₂ := by omega
      rw [if_pos c1, if_pos c2]
      have := removedBefore_lip rest (h.1 + h.2) o₁ o₂ h2 hs2 ho
      omega
    · rw [if_neg c1, removedBefore_zero rest (h.1 + h.2) o₁ h2 (by omega)]
      by_cases c2 : h.1 < o₂
      · rw [if_pos c2]
        have := removedBefore_le rest (h.1 + h.2) o₂ h2 hs2 (by omega)
        omega
      · rw [if_neg c2, removedBefore_zero rest (h.1 + h.2) o₂ h2 (by omega)]
        omega

/-- `φ` never subtracts more than the offset itself (so the `Nat` subtraction is exact) -/
theorem removedBefore_le_self {hs : List Hole} {o : Nat} (hf : HolesFrom 0 hs) (hs' : strictlyInside hs o = false) :
    removedBefore hs o ≤ o := by
  have := removedBefore_le hs 0 o hf hs' (Nat.zero_le _)
  omega

/-- `φ` is monotone (towards offsets that are not strictly inside a hole) -/
theorem phi_mono {hs : List Hole} {o₁ o₂ : Nat} (hf : HolesFrom 0 hs) (hs' : strictlyInside hs o₂ = false)
    (h : o₁ ≤ o₂) : phi hs o₁ ≤ phi hs o₂ := by
  have a := removedBefore_lip hs 0 o₁ o₂ hf hs' h
  have b := removedBefore_le_self hf hs'
  unfold phi
  omega

/-- `φ` never increases a distance -/
theorem phi_nonexpanding (hs : List Hole) {o₁ o₂ : Nat} (h : o₁ ≤ o₂) : phi hs o₂ - phi hs o₁ ≤ o₂ - o₁ := by
  have := removedBefore_mono hs h
  unfold phi
  omega

/-- `φ` is the identity in front of the first hole -/
theorem phi_before {hs : List Hole} {L o : Nat} (hf : HolesFrom L hs) (h : o ≤ L) : phi hs o = o := by
  unfold phi
  rw [removedBefore_zero hs L o hf h]
  rfl

/-- all holes lie in `[L, n)`: their sizes add up to at most `n - L` -/
theorem totalSize_le : ∀ (hs : List Hole) (L n : Nat), HolesFrom L hs → holesWithin hs n → L ≤ n → totalSize hs + L ≤ n
  | [], _, _, _, _, h => by simpa [totalSize] using h
  | h :: rest, L, n, hf, hw, _ => by
    obtain ⟨h1, h2⟩ := hf
    have hh : h.1 + h.2 ≤ n := hw h (by simp)
    have := totalSize_le rest (h.1 + h.2) n h2 (fun g hg => hw g (by simp [hg])) hh
    simp only [totalSize]
    omega

/-- behind the last hole `φ` subtracts everything -/
theorem removedBefore_all : ∀ (hs : List Hole) (n : Nat), holesWithin hs n → (∀ h ∈ hs, 0 < h.2) →
    removedBefore hs n = totalSize hs
  | [], _, _, _ => rfl
  | h :: rest, n, hw, hp => by
    have hh : h.1 + h.2 ≤ n := hw h (by simp)
    have hp' : 0 < h.2 := hp h (by simp)
    have c : h.1 < n := by omega
    simp only [removedBefore, totalSize, if_pos c]
    rw [removedBefore_all rest n (fun g hg => hw g (by simp [hg])) (fun g hg => hp g (by simp [hg]))]

/-! ### `count_holes` (with the early `break`) is `removedBefore` on a sorted list -/

theorem countHoles_eq : ∀ (hs : List Hole) (L o : Nat), HolesFrom L hs → countHoles o hs = removedBefore hs o
  | [], _, _, _ => rfl
  | h :: rest, L, o, hf => by
    obtain ⟨h1, h2⟩ := hf
    simp only [countHoles, removedBefore]
    by_cases c : h.1 < o
    · rw [if_pos c, if_pos c, countHoles_eq rest (h.1 + h.2) o h2]
    · rw [if_neg c, if_neg c, removedBefore_zero rest (h.1 + h.2) o h2 (by omega)]

/-- what `value -= count_holes(value, holes)` computes -/
theorem sub_countHoles {hs : List Hole} {v v' : Nat} (hf : HolesFrom 0 hs)
    (h : sub? v (countHoles v hs) = .ok v') : v' = phi hs v ∧ removedBefore hs v ≤ v := by
  unfold sub? at h
  rw [countHoles_eq hs 0 v hf] at h
  split at h
  · cases h; exact ⟨rfl, by assumption⟩
  · cases h

/-- the subtraction never underflows for an offset that is not strictly inside a hole -/
theorem sub_countHoles_ok {hs : List Hole} {v : Nat} (hf : HolesFrom 0 hs) (hs' : strictlyInside hs v = false) :
    sub? v (countHoles v hs) = .ok (phi hs v) := by
  unfold sub?
  rw [countHoles_eq hs 0 v hf, if_pos (removedBefore_le_self hf hs')]
  rfl

/-! ### hole punching -/

theorem punch_cons_ok {data : List Nat} {h : Hole} {rest : List Hole} {X : List Nat}
    (hp : punch data (h :: rest) = .ok X) :
    ∃ X', punch data rest = .ok X' ∧ h.1 + h.2 ≤ X'.length ∧ X = X'.take h.1 ++ X'.drop (h.1 + h.2) := by
  simp only [punch] at hp
  cases hr : punch data rest with
  | error e => rw [hr] at hp; cases hp
  | ok X' =>
    rw [hr] at hp
    simp only [popHole] at hp
    split at hp
    · cases hp; exact ⟨X', rfl, by assumption, rfl⟩
    · cases hp

/-- length after punching -/
theorem punch_length : ∀ (hs : List Hole) (data X : List Nat), punch data hs = .ok X →
    X.length + totalSize hs = data.length
  | [], data, X, h => by simp only [punch] at h; cases h; simp [totalSize]
  | h :: rest, data, X, hp => by
    obtain ⟨X', hr, hb, rfl⟩ := punch_cons_ok hp
    have := punch_length rest data X' hr
    simp only [List.length_append, List.length_take, List.length_drop, totalSize]
    omega

/-- a successful punch with sorted disjoint holes: every hole lies inside the data -/
theorem punch_within : ∀ (hs : List Hole) (L : Nat) (data X : List Nat), HolesFrom L hs → punch data hs = .ok X →
    holesWithin hs data.length
  | [], _, _, _, _, _ => by intro g hg; cases hg
  | h :: rest, L, data, X, hf, hp => by
    obtain ⟨h1, h2⟩ := hf
    obtain ⟨X', hr, hb, rfl⟩ := punch_cons_ok hp
    have hw := punch_within rest (h.1 + h.2) data X' h2 hr
    have hl := punch_length rest data X' hr
    intro g hg
    rcases List.mem_cons.1 hg with rfl | hg
    · omega
    · exact hw g hg

/-- punching succeeds when the holes are sorted, disjoint and inside the data -/
theorem punch_ok : ∀ (hs : List Hole) (L : Nat) (data : List Nat), HolesFrom L hs → holesWithin hs data.length →
    ∃ X, punch data hs = .ok X
  | [], _, data, _, _ => ⟨data, rfl⟩
  | h :: rest, L, data, hf, hw => by
    obtain ⟨h1, h2⟩ := hf
    have hwr : holesWithin rest data.length := fun g hg => hw g (by simp [hg])
    obtain ⟨X', hr⟩ := punch_ok rest (h.1 + h.2) data h2 hwr
    have hl := punch_length rest data X' hr
    have ht := totalSize_le rest (h.1 + h.2) data.length h2 hwr (hw h (by simp))
    refine ⟨X'.take h.1 ++ X'.drop (h.1 + h.2), ?_⟩
    simp only [punch, hr, popHole]
    rw [if_pos (by omega)]

/-- THE INDEX THEOREM: the byte at a surviving offset `o` of the old data stands at `φ o` in the new data -/
theorem punch_index : ∀ (hs : List Hole) (L : Nat) (data X : List Nat), HolesFrom L hs → punch data hs = .ok X →
    ∀ o, o < data.length → inHole hs o = false → X[phi hs o]? = data[o]?
  | [], _, data, X, _, hp => by
    simp only [punch] at hp; cases hp
    intro o _ _
    simp [phi, removedBefore]
  | h :: rest, L, data, X, hf, hp => by
    obtain ⟨h1, h2⟩ := hf
    obtain ⟨X', hr, hb, rfl⟩ := punch_cons_ok hp
    have ih := punch_index rest (h.1 + h.2) data X' h2 hr
    intro o ho hin
    rw [inHole_cons] at hin
    simp only [Bool.or_eq_false_iff, decide_eq_false_iff_not] at hin
    obtain ⟨hin1, hin2⟩ := hin
    have hX := ih o ho hin2
    have hsi := strictlyInside_of_not_inHole hin2
    by_cases c : h.1 < o
    · -- behind the hole: the index moves down by its size
      have hge : h.1 + h.2 ≤ o := by omega
      have hk := removedBefore_le rest (h.1 + h.2) o h2 hsi hge
      have e : phi (h :: rest) o = phi rest o - h.2 := by
        simp only [phi, removedBefore, if_pos c]; omega
      have hk2 : h.1 + h.2 ≤ phi rest o := by simp only [phi]; omega
      rw [e, List.getElem?_append_right (by simp only [List.length_take]; omega)]
      simp only [List.length_take, List.getElem?_drop]
      rw [← hX]
      congr 1
      omega
    · -- in front of the hole (or at a hole of size 0): nothing moves
      have hz := removedBefore_zero rest (h.1 + h.2) o h2 (by omega)
      have e : phi (h :: rest) o = o := by simp only [phi, removedBefore, if_neg c, hz]; omega
      have e' : phi rest o = o := by simp only [phi, hz]; omega
      rw [e' ] at hX
      rw [e, ← hX]
      by_cases c2 : o < h.1
      · rw [List.getElem?_append_left (by simp only [List.length_take]; omega), List.getElem?_take]
        simp [c2]
      · have ho1 : o = h.1 := by omega
        have hz2 : h.2 = 0 := by omega
        rw [hz2, ho1]
        simp

/-! ### the stable sort of a hole list -/

theorem insertHole_perm (h : Hole) : ∀ l : List Hole, (insertHole h l).Perm (h :: l)
  | [] => List.Perm.refl _
  | g :: rest => by
    simp only [insertHole]
    split
    · exact List.Perm.refl _
    · exact ((insertHole_perm h rest).cons g).trans (List.Perm.swap h g rest)

theorem sortHoles_perm : ∀ l : List Hole, (sortHoles l).Perm l
  | [] => List.Perm.refl _
  | h :: rest => (insertHole_perm h (sortHoles rest)).trans ((sortHoles_perm rest).cons h)

theorem insertHole_sorted (h : Hole) : ∀ l : List Hole, l.Pairwise (fun a b => a.1 ≤ b.1) →
    (insertHole h l).Pairwise (fun a b => a.1 ≤ b.1)
  | [], _ => by simp [insertHole]
  | g :: rest, hp => by
    rw [List.pairwise_cons] at hp
    simp only [insertHole]
    split
    · rename_i c
      refine List.pairwise_cons.2 ⟨?_, List.pairwise_cons.2 hp⟩
      intro b hb
      rcases List.mem_cons.1 hb with rfl | hb
      · exact c
      · exact Nat.le_trans c (hp.1 b hb)
    · rename_i c
      refine List.pairwise_cons.2 ⟨?_, insertHole_sorted h rest hp.2⟩
      intro b hb
      rcases List.mem_cons.1 ((insertHole_perm h rest).mem_iff.1 hb) with rfl | hb
      · omega
      · exact hp.1 b hb

theorem sortHoles_sorted : ∀ l : List Hole, (sortHoles l).Pairwise (fun a b => a.1 ≤ b.1)
  | [] => List.Pairwise.nil
  | h :: rest => insertHole_sorted h _ (sortHoles_sorted rest)

theorem holesFrom_of_pairwise : ∀ (hs : List Hole) (L : Nat), hs.Pairwise (fun a b => a.1 + a.2 ≤ b.1) →
    (∀ h ∈ hs, L ≤ h.1) → HolesFrom L hs
  | [], _, _, _ => trivial
  | h :: rest, L, hp, hL => by
    rw [List.pairwise_cons] at hp
    exact ⟨hL h (by simp), holesFrom_of_pairwise rest _ hp.2 (fun g hg => hp.1 g hg)⟩

/-- pairwise separated holes of positive size, once sorted, are an ascending disjoint chain -/
theorem holesFrom_sortHoles (l : List Hole)
    (hsep : l.Pairwise (fun a b => a.1 + a.2 ≤ b.1 ∨ b.1 + b.2 ≤ a.1)) (hpos : ∀ h ∈ l, 0 < h.2) :
    HolesFrom 0 (sortHoles l) := by
  have hperm := sortHoles_perm l
  have h1 : (sortHoles l).Pairwise (fun a b => a.1 + a.2 ≤ b.1 ∨ b.1 + b.2 ≤ a.1) :=
    (hperm.pairwise_iff (fun {a b} h => by rcases h with h | h; exact Or.inr h; exact Or.inl h)).2 hsep
  have h2 := sortHoles_sorted l
  have h3 := h1.and h2
  refine holesFrom_of_pairwise _ 0 ?_ (fun _ _ => Nat.zero_le _)
  refine h3.imp_of_mem ?_
  intro a b _ hb hab
  have := hpos b (hperm.mem_iff.1 hb)
  omega

/-! ### punching = removing the bytes whose index lies in a hole -/

theorem inHole_false_before : ∀ (hs : List Hole) (L k : Nat), HolesFrom L hs → k < L → inHole hs k = false
  | [], _, _, _, _ => rfl
  | h :: rest, L, k, hf, hk => by
    obtain ⟨h1, h2⟩ := hf
    rw [inHole_cons, inHole_false_before rest (h.1 + h.2) k h2 (by omega)]
    simp only [Bool.or_false, decide_eq_false_iff_not]
    omega

theorem removeFrom_congr {α : Type} (hs hs' : List Hole) : ∀ (data : List α) (i : Nat),
    (∀ k, k < data.length → inHole hs (i + k) = inHole hs' (i + k)) → removeFrom hs i data = removeFrom hs' i data
  | [], _, _ => rfl
  | b :: rest, i, h => by
    have h0 := h 0 (by simp)
    simp only [Nat.add_zero] at h0
    have ih := removeFrom_congr hs hs' rest (i + 1) (fun k hk => by
      have := h (k + 1) (by simp only [List.length_cons]; omega)
      rwa [show i + (k + 1) = i + 1 + k by omega] at this)
    simp only [removeFrom, h0, ih]

theorem removeFrom_append {α : Type} (hs : List Hole) : ∀ (a b : List α) (i : Nat),
    removeFrom hs i (a ++ b) = removeFrom hs i a ++ removeFrom hs (i + a.length) b
  | [], b, i => by simp [removeFrom]
  | x :: a, b, i => by
    have ih := removeFrom_append hs a b (i + 1)
    simp only [List.cons_append, removeFrom, List.length_cons, ih]
    rw [show i + 1 + a.length = i + (a.length + 1) by omega]
    split <;> simp

theorem removeFrom_none {α : Type} (hs : List Hole) : ∀ (data : List α) (i : Nat),
    (∀ k, k < data.length → inHole hs (i + k) = false) → removeFrom hs i data = data
  | [], _, _ => rfl
  | b :: rest, i, h => by
    have h0 := h 0 (by simp)
    simp only [Nat.add_zero] at h0
    have ih := removeFrom_none hs rest (i + 1) (fun k hk => by
      have := h (k + 1) (by simp only [List.length_cons]; omega)
      rwa [show i + (k + 1) = i + 1 + k by omega] at this)
    simp [removeFrom, h0, ih]

theorem removeFrom_all {α : Type} (hs : List Hole) : ∀ (data : List α) (i : Nat),
    (∀ k, k < data.length → inHole hs (i + k) = true) → removeFrom hs i data = []
  | [], _, _ => rfl
  | b :: rest, i, h => by
    have h0 := h 0 (by simp)
    simp only [Nat.add_zero] at h0
    have ih := removeFrom_all hs rest (i + 1) (fun k hk => by
      have := h (k + 1) (by simp only [List.length_cons]; omega)
      rwa [show i + (k + 1) = i + 1 + k by omega] at this)
    simp [removeFrom, h0, ih]

/-- a section's data cut at a hole -/
theorem split3 (data : List Nat) (a b : Nat) (h : a + b ≤ data.length) :
    data = data.take a ++ ((data.drop a).take b ++ data.drop (a + b)) ∧
    (data.take a).length = a ∧ ((data.drop a).take b).length = b := by
  refine ⟨?_, by simp only [List.length_take]; omega, by simp only [List.length_take, List.length_drop]; omega⟩
  have e : data.drop (a + b) = (data.drop a).drop b := by rw [List.drop_drop]
  rw [e, List.take_append_drop, List.take_append_drop]

/-- THE DATA THEOREM: hole punching (last hole first, `pop` byte by byte) yields exactly the old data without
    the bytes whose index lies in a hole -/
theorem punch_eq_removeBytes : ∀ (hs : List Hole) (L : Nat) (data X : List Nat), HolesFrom L hs →
    punch data hs = .ok X → X = removeBytes hs data
  | [], _, data, X, _, hp => by
    simp only [punch] at hp; cases hp
    exact (removeFrom_none [] data 0 (fun _ _ => rfl)).symm
  | h :: rest, L, data, X, hf, hp => by
    have hw := punch_within (h :: rest) L data X hf hp
    obtain ⟨h1, h2⟩ := hf
    obtain ⟨X', hr, hb, rfl⟩ := punch_cons_ok hp
    have ih := punch_eq_removeBytes rest (h.1 + h.2) data X' h2 hr
    have hlen : h.1 + h.2 ≤ data.length := hw h (by simp)
    obtain ⟨hsplit, lA, lB⟩ := split3 data h.1 h.2 hlen
    generalize hA : data.take h.1 = A at hsplit lA
    generalize hB : (data.drop h.1).take h.2 = B at hsplit lB
    generalize hC : data.drop (h.1 + h.2) = C at hsplit
    -- the later holes leave the first `h.1 + h.2` bytes alone
    have e1 : X' = A ++ (B ++ removeFrom rest (h.1 + h.2) C) := by
      rw [ih]
      unfold removeBytes
      rw [hsplit, removeFrom_append, removeFrom_append, lA, lB,
        removeFrom_none rest A 0 (fun k hk => inHole_false_before rest _ _ h2 (by omega)),
        removeFrom_none rest B (0 + h.1) (fun k hk => inHole_false_before rest _ _ h2 (by omega))]
      simp
    -- all holes on the old data
    have e2 : removeBytes (h :: rest) data = A ++ removeFrom rest (h.1 + h.2) C := by
      unfold removeBytes
      rw [hsplit, removeFrom_append, removeFrom_append, lA, lB,
        removeFrom_none (h :: rest) A 0 (fun k hk => by
          rw [inHole_cons, inHole_false_before rest _ _ h2 (by omega)]
          simp only [Bool.or_false, decide_eq_false_iff_not]; omega),
        removeFrom_all (h :: rest) B (0 + h.1) (fun k hk => by
          rw [inHole_cons]
          simp only [Bool.or_eq_true, decide_eq_true_eq]; left; omega),
        removeFrom_congr (h :: rest) rest C (0 + h.1 + h.2) (fun k _ => by
          rw [inHole_cons]
          have : decide (h.1 ≤ 0 + h.1 + h.2 + k ∧ 0 + h.1 + h.2 + k < h.1 + h.2) = false := by
            simp only [decide_eq_false_iff_not]; omega
          rw [this, Bool.false_or])]
      simp
    rw [e2, e1]
    rw [List.take_append_of_le_length (by omega), List.take_of_length_le (by omega)]
    rw [← List.append_assoc, List.drop_append_of_le_length (by simp only [List.length_append]; omega),
      List.drop_of_length_le (by simp only [List.length_append]; omega)]
    simp

end RelaxPart

/-! # 2. _apply_relaxation_holes -/
section RelaxObjPart
open Spec.Relax Model.Linker Proofs.Linker
open Model.Relax hiding Hole

/-- every per-section hole list (after the sort) is ascending and disjoint -/
def HolesOK (m : HoleMap) : Prop := ∀ n, HolesFrom 0 (holesOf m n)

/-! ### symbols -/

/-- the relation between a symbol before and after `_apply_relaxation_holes` -/
def SymShift (m : HoleMap) (s s' : Symbol) : Prop :=
  match s.sect with
  | none => s' = s
  | some n => ∃ v, s.value = some v ∧ removedBefore (holesOf m n) v ≤ v ∧
      s' = { s with value := some (phi (holesOf m n) v) }

theorem shiftSymbol_spec {m : HoleMap} (hok : HolesOK m) {s s' : Symbol} (h : Model.Relax.shiftSymbol m s = .ok s') :
    SymShift m s s' := by
  unfold Model.Relax.shiftSymbol at h
  unfold SymShift
  cases hs : s.sect with
  | none => rw [hs] at h; cases h; rfl
  | some n =>
    rw [hs] at h
    simp only at h ⊢
    cases hv : s.value with
    | none => rw [hv] at h; cases h
    | some v =>
      rw [hv] at h
      simp only at h
      cases hsub : sub? v (countHoles v (holesOf m n)) with
      | error e => rw [hsub] at h; cases h
      | ok v' =>
        rw [hsub] at h
        cases h
        obtain ⟨e, hle⟩ := sub_countHoles (hok n) hsub
        exact ⟨v, rfl, hle, by rw [e]⟩

theorem shiftSymbols_spec {m : HoleMap} (hok : HolesOK m) : ∀ {syms syms' : List Symbol},
    shiftSymbols m syms = .ok syms' → All2 (SymShift m) syms syms'
  | [], syms', h => by simp only [shiftSymbols] at h; cases h; exact All2.nil
  | s :: rest, syms', h => by
    simp only [shiftSymbols] at h
    cases h1 : Model.Relax.shiftSymbol m s with
    | error e => rw [h1] at h; cases h
    | ok s' =>
      rw [h1] at h
      cases h2 : shiftSymbols m rest with
      | error e => rw [h2] at h; cases h
      | ok r =>
        rw [h2] at h
        cases h
        exact All2.cons (shiftSymbol_spec hok h1) (shiftSymbols_spec hok h2)

/-! ### relocation entries -/

def RelShift (m : HoleMap) (r r' : Reloc) : Prop :=
  removedBefore (holesOf m r.sect) r.offset ≤ r.offset ∧
    r' = { r with offset := phi (holesOf m r.sect) r.offset }

theorem shiftReloc_spec {m : HoleMap} (hok : HolesOK m) {r r' : Reloc} (h : shiftReloc m r = .ok r') :
    RelShift m r r' := by
  unfold shiftReloc at h
  split at h
  · cases h
  · cases hsub : sub? r.offset (countHoles r.offset (holesOf m r.sect)) with
    | error e => rw [hsub] at h; cases h
    | ok v' =>
      rw [hsub] at h
      cases h
      obtain ⟨e, hle⟩ := sub_countHoles (hok r.sect) hsub
      exact ⟨hle, by rw [e]⟩

theorem shiftRelocs_spec {m : HoleMap} (hok : HolesOK m) : ∀ {rels rels' : List Reloc},
    shiftRelocs m rels = .ok rels' → All2 (RelShift m) rels rels'
  | [], rels', h => by simp only [shiftRelocs] at h; cases h; exact All2.nil
  | r :: rest, rels', h => by
    simp only [shiftRelocs] at h
    cases h1 : shiftReloc m r with
    | error e => rw [h1] at h; cases h
    | ok r' =>
      rw [h1] at h
      cases h2 : shiftRelocs m rest with
      | error e => rw [h2] at h; cases h
      | ok rs =>
        rw [h2] at h
        cases h
        exact All2.cons (shiftReloc_spec hok h1) (shiftRelocs_spec hok h2)

/-! ### section data -/

def SecPunch (m : HoleMap) (s s' : Section) : Prop :=
  s'.name = s.name ∧ s'.address = s.address ∧ s'.alignment = s.alignment ∧
    punch s.data (holesOf m s.name) = .ok s'.data

theorem punchSections_spec {m : HoleMap} : ∀ {secs secs' : List Section},
    punchSections m secs = .ok secs' → All2 (SecPunch m) secs secs'
  | [], secs', h => by simp only [punchSections] at h; cases h; exact All2.nil
  | s :: rest, secs', h => by
    simp only [punchSections] at h
    cases h1 : punchSection m s with
    | error e => rw [h1] at h; cases h
    | ok s' =>
      rw [h1] at h
      cases h2 : punchSections m rest with
      | error e => rw [h2] at h; cases h
      | ok r =>
        rw [h2] at h
        cases h
        refine All2.cons ?_ (punchSections_spec h2)
        unfold punchSection at h1
        cases hp : punch s.data (holesOf m s.name) with
        | error e => rw [hp] at h1; cases h1
        | ok d => rw [hp] at h1; cases h1; exact ⟨rfl, rfl, rfl, hp⟩

/-! ### looking sections up by name in related lists -/

theorem getSec_forall₂ {R : Section → Section → Prop} (hR : ∀ s s', R s s' → s'.name = s.name) :
    ∀ {olds news : List Section}, All2 R olds news → ∀ n,
      (getSec olds n = none ∧ getSec news n = none) ∨
      (∃ so sn, getSec olds n = some so ∧ getSec news n = some sn ∧ R so sn)
  | _, _, .nil, n => Or.inl ⟨rfl, rfl⟩
  | _, _, .cons (a := so) (b := sn) (as := ro) (bs := rn) h t, n => by
    rw [getSec_cons, getSec_cons, hR so sn h]
    by_cases c : so.name = n
    · simp only [if_pos c]; exact Or.inr ⟨so, sn, rfl, rfl, h⟩
    · simp only [if_neg c]; exact getSec_forall₂ hR t n

theorem resolve_forall₂ {R : Section → Section → Prop} (hR : ∀ s s', R s s' → s'.name = s.name)
    {olds news : List Section} (h : All2 R olds news) :
    ∀ names : List String, All2 R (resolve olds names) (resolve news names)
  | [] => All2.nil
  | n :: rest => by
    have ih := resolve_forall₂ hR h rest
    unfold resolve at ih ⊢
    rw [List.filterMap_cons, List.filterMap_cons]
    rcases getSec_forall₂ hR h n with ⟨a, b⟩ | ⟨so, sn, a, b, r⟩
    · rw [a, b]; exact ih
    · rw [a, b]; exact All2.cons r ih

/-! ### the section addresses of one image -/

/-- `section.address -= delta; delta += section_changes[section.name]` along the sections of an image -/
def shiftRes (m : HoleMap) : Nat → List Section → List Section
  | _, [] => []
  | d, s :: r => setAddress (s.address - d) s :: shiftRes m (d + change m s.name) r

/-- none of the subtractions underflows -/
def ShiftFits (m : HoleMap) : Nat → List Section → Prop
  | _, [] => True
  | d, s :: r => d ≤ s.address ∧ ShiftFits m (d + change m s.name) r

theorem shiftImage_spec (m : HoleMap) : ∀ (names : List String) (secs secs' : List Section) (d : Nat),
    names.Nodup → shiftImage m secs d names = .ok secs' →
    (∀ n, n ∉ names → getSec secs' n = getSec secs n) ∧
    resolve secs' names = shiftRes m d (resolve secs names) ∧ ShiftFits m d (resolve secs names) ∧
    (resolve secs names).length = names.length
  | [], secs, secs', d, _, h => by
    simp only [shiftImage] at h; cases h
    exact ⟨fun _ _ => rfl, rfl, trivial, rfl⟩
  | n :: rest, secs, secs', d, hnd, h => by
    rw [List.nodup_cons] at hnd
    simp only [shiftImage] at h
    cases hg : getSec secs n with
    | none => rw [hg] at h; cases h
    | some sec =>
      rw [hg] at h
      simp only at h
      cases hsub : sub? sec.address d with
      | error e => rw [hsub] at h; cases h
      | ok a =>
        rw [hsub] at h
        simp only at h
        have ha : d ≤ sec.address ∧ a = sec.address - d := by
          unfold sub? at hsub
          split at hsub
          · cases hsub; exact ⟨by assumption, rfl⟩
          · cases hsub
        obtain ⟨ih1, ih2, ih3, ih4⟩ := shiftImage_spec m rest _ secs' _ hnd.2 h
        have hname : sec.name = n := getSec_some_name hg
        have hother : ∀ k, k ≠ n → getSec (updSec secs n (setAddress a)) k = getSec secs k :=
          fun k hk => getSec_updSec_other secs n k _ (fun s => rfl) hk
        have hrest : resolve (updSec secs n (setAddress a)) rest = resolve secs rest :=
          resolve_congr (fun k hk => hother k (fun e => hnd.1 (e ▸ hk)))
        have hn' : getSec secs' n = some (setAddress a sec) := by
          rw [ih1 n hnd.1, getSec_updSec_same secs n (setAddress a) (fun s => rfl), hg]; rfl
        refine ⟨?_, ?_, ?_, ?_⟩
        · intro k hk
          have hk1 : k ≠ n := fun e => hk (by simp [e])
          have hk2 : k ∉ rest := fun e => hk (by simp [e])
          rw [ih1 k hk2, hother k hk1]
        · show (n :: rest).filterMap (getSec secs') = _
          rw [List.filterMap_cons, hn']
          show _ :: resolve secs' rest = shiftRes m d ((n :: rest).filterMap (getSec secs))
          rw [List.filterMap_cons, hg]
          simp only [shiftRes]
          rw [ih2, hrest, hname, ha.2]
          rfl
        · show ShiftFits m d ((n :: rest).filterMap (getSec secs))
          rw [List.filterMap_cons, hg]
          simp only [ShiftFits]
          rw [hrest] at ih3
          rw [hname]
          exact ⟨ha.1, ih3⟩
        · show ((n :: rest).filterMap (getSec secs)).length = _
          rw [List.filterMap_cons, hg]
          rw [hrest] at ih4
          simp only [List.length_cons]
          exact congrArg (· + 1) ih4

/-- all images: with pairwise different placed names every image is shifted on its own -/
theorem shiftImages_spec (m : HoleMap) : ∀ (imgs : List Image) (secs secs' : List Section),
    (imgs.flatMap (·.sections)).Nodup → shiftImages m secs imgs = .ok secs' →
    (∀ n, n ∉ imgs.flatMap (·.sections) → getSec secs' n = getSec secs n) ∧
    ∀ img ∈ imgs, resolve secs' img.sections = shiftRes m 0 (resolve secs img.sections) ∧
      ShiftFits m 0 (resolve secs img.sections) ∧ (resolve secs img.sections).length = img.sections.length
  | [], secs, secs', _, h => by
    simp only [shiftImages] at h; cases h
    exact ⟨fun _ _ => rfl, fun _ hi => by cases hi⟩
  | img :: rest, secs, secs', hnd, h => by
    rw [List.flatMap_cons, List.nodup_append] at hnd
    obtain ⟨hnd1, hnd2, hdisj⟩ := hnd
    simp only [shiftImages] at h
    cases h1 : shiftImage m secs 0 img.sections with
    | error e => rw [h1] at h; cases h
    | ok secs1 =>
      rw [h1] at h
      simp only at h
      obtain ⟨a1, a2, a3, a4⟩ := shiftImage_spec m img.sections secs secs1 0 hnd1 h1
      obtain ⟨b1, b2⟩ := shiftImages_spec m rest secs1 secs' hnd2 h
      refine ⟨?_, ?_⟩
      · intro n hn
        rw [List.flatMap_cons, List.mem_append] at hn
        rw [b1 n (fun e => hn (Or.inr e)), a1 n (fun e => hn (Or.inl e))]
      · intro i hi
        rcases List.mem_cons.1 hi with rfl | hi
        · refine ⟨?_, a3, a4⟩
          rw [← a2]
          exact resolve_congr (fun k hk => b1 k (fun e => hdisj k hk k e rfl))
        · obtain ⟨c1, c2, c3⟩ := b2 i hi
          have hcong : resolve secs1 i.sections = resolve secs i.sections :=
            resolve_congr (fun k hk => a1 k (fun e => hdisj k e k (List.mem_flatMap.2 ⟨i, hi, hk⟩) rfl))
          rw [hcong] at c1 c2 c3
          exact ⟨c1, c2, c3⟩

/-! ### chains -/

/-- old sections vs. punched sections: same name and address, `change` bytes shorter -/
def Shorter (m : HoleMap) (so sn : Section) : Prop :=
  sn.name = so.name ∧ sn.address = so.address ∧ sn.data.length + change m so.name = so.data.length

/-- consecutive sections of an image that did not overlap before do not overlap afterwards -/
theorem chain_shiftRes (m : HoleMap) : ∀ {olds news : List Section}, All2 (Shorter m) olds news →
    ∀ (cur D : Nat), Chain cur olds → D ≤ cur → Chain (cur - D) (shiftRes m D news) ∧ ShiftFits m D news
  | _, _, .nil, _, _, _, _ => ⟨trivial, trivial⟩
  | _, _, .cons (a := so) (b := sn) (as := ro) (bs := rn) h t, cur, D, hc, hD => by
    obtain ⟨hn, ha, hl⟩ := h
    obtain ⟨hc1, hc2⟩ := hc
    have ih := chain_shiftRes m t (so.address + so.data.length) (D + change m sn.name) hc2 (by rw [hn]; omega)
    simp only [shiftRes, Chain, ShiftFits, setAddress]
    refine ⟨⟨by omega, ?_⟩, by omega, ih.2⟩
    have e : sn.address - D + sn.data.length = so.address + so.data.length - (D + change m sn.name) := by
      rw [hn]; omega
    rw [e]
    exact ih.1

theorem change_eq_totalSize (m : HoleMap) (n : String) : change m n = totalSize (holesOf m n) := by
  unfold change
  generalize holesOf m n = hs
  induction hs with
  | nil => rfl
  | cons h rest ih => simp only [List.map_cons, List.sum_cons, totalSize, ih]

theorem shorter_of_punch {m : HoleMap} {so sn : Section} (h : SecPunch m so sn) : Shorter m so sn := by
  obtain ⟨h1, h2, _, h4⟩ := h
  refine ⟨h1, h2, ?_⟩
  rw [change_eq_totalSize]
  exact punch_length _ _ _ h4

/-! ### everything but the address is left alone by the image loop -/

def SameButAddr (a b : Section) : Prop := b.name = a.name ∧ b.alignment = a.alignment ∧ b.data = a.data

theorem All2.refl' {α : Type} {R : α → α → Prop} (hr : ∀ a, R a a) : ∀ l : List α, All2 R l l
  | [] => .nil
  | a :: l => .cons (hr a) (All2.refl' hr l)

theorem All2.trans' {α : Type} {R S T : α → α → Prop} (hrst : ∀ a b c, R a b → S b c → T a c) :
    ∀ {l₁ l₂ l₃ : List α}, All2 R l₁ l₂ → All2 S l₂ l₃ → All2 T l₁ l₃
  | _, _, _, .nil, .nil => .nil
  | _, _, _, .cons h1 t1, .cons h2 t2 => .cons (hrst _ _ _ h1 h2) (All2.trans' hrst t1 t2)

theorem updSec_sameButAddr (n : String) (a : Nat) : ∀ secs : List Section, All2 SameButAddr secs (updSec secs n (setAddress a))
  | [] => .nil
  | s :: rest => by
    rw [updSec_cons]
    refine .cons ?_ (updSec_sameButAddr n a rest)
    split
    · exact ⟨rfl, rfl, rfl⟩
    · exact ⟨rfl, rfl, rfl⟩

theorem sameButAddr_trans (a b c : Section) (h1 : SameButAddr a b) (h2 : SameButAddr b c) : SameButAddr a c :=
  ⟨h2.1.trans h1.1, h2.2.1.trans h1.2.1, h2.2.2.trans h1.2.2⟩

theorem shiftImage_same (m : HoleMap) : ∀ (names : List String) (secs secs' : List Section) (d : Nat),
    shiftImage m secs d names = .ok secs' → All2 SameButAddr secs secs'
  | [], secs, secs', d, h => by
    simp only [shiftImage] at h; cases h
    exact All2.refl' (fun _ => ⟨rfl, rfl, rfl⟩) _
  | n :: rest, secs, secs', d, h => by
    simp only [shiftImage] at h
    cases hg : getSec secs n with
    | none => rw [hg] at h; cases h
    | some sec =>
      rw [hg] at h
      simp only at h
      cases hsub : sub? sec.address d with
      | error e => rw [hsub] at h; cases h
      | ok a =>
        rw [hsub] at h
        simp only at h
        exact All2.trans' sameButAddr_trans (updSec_sameButAddr n a secs) (shiftImage_same m rest _ secs' _ h)

theorem shiftImages_same (m : HoleMap) : ∀ (imgs : List Image) (secs secs' : List Section),
    shiftImages m secs imgs = .ok secs' → All2 SameButAddr secs secs'
  | [], secs, secs', h => by
    simp only [shiftImages] at h; cases h
    exact All2.refl' (fun _ => ⟨rfl, rfl, rfl⟩) _
  | img :: rest, secs, secs', h => by
    simp only [shiftImages] at h
    cases h1 : shiftImage m secs 0 img.sections with
    | error e => rw [h1] at h; cases h
    | ok secs1 =>
      rw [h1] at h
      simp only at h
      exact All2.trans' sameButAddr_trans (shiftImage_same m _ _ _ _ h1) (shiftImages_same m rest secs1 secs' h)

/-! ### `_apply_relaxation_holes` as a whole -/

theorem bind_ok {α β : Type} {x : Except Model.Relax.Err α} {f : α → Except Model.Relax.Err β} {r : β}
    (h : (x >>= f) = .ok r) : ∃ a, x = .ok a ∧ f a = .ok r := by
  cases x with
  | error e => cases h
  | ok a => exact ⟨a, rfl, h⟩

/-- section data and names after `_apply_relaxation_holes`, position by position -/
def SecData (m : HoleMap) (s s' : Section) : Prop :=
  s'.name = s.name ∧ s'.alignment = s.alignment ∧ punch s.data (holesOf m s.name) = .ok s'.data

theorem applyHoles_spec {m : HoleMap} {o o' : Obj} (hok : HolesOK m) (h : applyHoles m o = .ok o') :
    All2 (SymShift m) o.symbols o'.symbols ∧ All2 (RelShift m) o.relocs o'.relocs ∧
    o'.images = o.images ∧ o'.entry = o.entry ∧ All2 (SecData m) o.sections o'.sections ∧
    ∃ secsP, All2 (SecPunch m) o.sections secsP ∧ shiftImages m secsP o.images = .ok o'.sections := by
  unfold applyHoles at h
  obtain ⟨syms, h1, h⟩ := bind_ok h
  obtain ⟨rels, h2, h⟩ := bind_ok h
  obtain ⟨secsP, h3, h⟩ := bind_ok h
  obtain ⟨secs, h4, h⟩ := bind_ok h
  cases h
  have hp := punchSections_spec h3
  refine ⟨shiftSymbols_spec hok h1, shiftRelocs_spec hok h2, rfl, rfl, ?_, secsP, hp, h4⟩
  exact All2.trans' (fun a b c (hab : SecPunch m a b) (hbc : SameButAddr b c) =>
    (⟨hbc.1.trans hab.1, hbc.2.1.trans hab.2.2.1, by rw [hbc.2.2]; exact hab.2.2.2⟩ : SecData m a c))
    hp (shiftImages_same m _ _ _ h4)

/-- the images after relaxation: every image whose sections formed an ascending non-overlapping chain
    still does, and the addresses are the old ones minus the bytes removed from the sections in front -/
theorem applyHoles_images {m : HoleMap} {o o' : Obj} (hok : HolesOK m) (h : applyHoles m o = .ok o')
    (hnd : (o.images.flatMap (·.sections)).Nodup) :
    ∀ img ∈ o.images, ∃ news, All2 (Shorter m) (resolve o.sections img.sections) news ∧
      resolve o'.sections img.sections = shiftRes m 0 news ∧
      (Chain img.address (resolve o.sections img.sections) → Chain img.address (resolve o'.sections img.sections)) := by
  obtain ⟨_, _, _, _, _, secsP, hp, h4⟩ := applyHoles_spec hok h
  obtain ⟨_, b2⟩ := shiftImages_spec m o.images secsP o'.sections hnd h4
  intro img hi
  obtain ⟨c1, _, _⟩ := b2 img hi
  have hs : All2 (Shorter m) o.sections secsP := hp.imp (fun _ _ => shorter_of_punch)
  have hr := resolve_forall₂ (R := Shorter m) (fun s s' h => h.1) hs img.sections
  refine ⟨resolve secsP img.sections, hr, c1, ?_⟩
  intro hc
  rw [c1]
  have := (chain_shiftRes m hr img.address 0 hc (Nat.zero_le _)).1
  simpa using this

end RelaxObjPart

/-! # 3. the candidate loop and do_relaxations -/
section RelaxScanPart
open Spec.Relax Model.Linker Proofs.Linker
open Model.Relax hiding Hole

theorem find_all2 {α : Type} {R : α → α → Prop} {p p' : α → Bool} : ∀ {l l' : List α}, All2 R l l' →
    (∀ a b, R a b → p a = p' b) → ∀ {a}, l.find? p = some a → ∃ b, l'.find? p' = some b ∧ R a b
  | _, _, .nil, _, _, h => by cases h
  | _, _, .cons (a := x) (b := y) hxy t, hp, a, h => by
    rw [List.find?_cons] at h ⊢
    rw [← hp x y hxy]
    cases c : p x with
    | true => rw [c] at h; cases h; exact ⟨y, rfl, hxy⟩
    | false => rw [c] at h; exact find_all2 t hp h

/-! ### the relocation table -/

/-- every shrinkable relocation type of the table occupies 4 bytes -/
theorem shrink_size {t : String} {info : RelocInfo} {k : Shrink} (h : relocInfo t = some info)
    (hk : info.shrink = some k) : info.size = 4 := by
  unfold relocInfo at h
  cases hf : rvcTable.find? (fun p => p.1 == t) with
  | none => rw [hf] at h; cases h
  | some p =>
    rw [hf] at h; cases h
    have hm := List.mem_of_find?_eq_some hf
    simp only [rvcTable, List.mem_cons, List.mem_nil_iff, or_false] at hm
    rcases hm with rfl | rfl | rfl | rfl | rfl | rfl | rfl | rfl | rfl | rfl | rfl | rfl | rfl <;>
      first | rfl | (simp at hk)

def isShrinkable (t : String) : Bool :=
  match relocInfo t with
  | some info => info.shrink.isSome
  | none => false

/-! ### one step of the candidate loop -/

/-- the candidate loop only patches section data -/
def SameShape (s s' : Section) : Prop :=
  s'.name = s.name ∧ s'.address = s.address ∧ s'.alignment = s.alignment

theorem patch_length (k : Shrink) (data : List Nat) (h : data.length = 4) : (patch k data).length = 2 := by
  match data, h with
  | [_, _, _, _], _ => rfl

theorem updSec_sameShape (n : String) (f : Section → Section) (hf : ∀ s, s.name = n → SameShape s (f s)) :
    ∀ secs : List Section, All2 SameShape secs (updSec secs n f)
  | [] => .nil
  | s :: rest => by
    rw [updSec_cons]
    refine .cons ?_ (updSec_sameShape n f hf rest)
    split
    · rename_i c; exact hf s c
    · exact ⟨rfl, rfl, rfl⟩

theorem sameShape_trans (a b c : Section) (h1 : SameShape a b) (h2 : SameShape b c) : SameShape a c :=
  ⟨h2.1.trans h1.1, h2.2.1.trans h1.2.1, h2.2.2.trans h1.2.2⟩

theorem assert_ok {c : Bool} (h : Model.Relax.assert c = .ok ()) : c = true := by
  unfold Model.Relax.assert at h
  split at h
  · assumption
  · cases h

/-- what a successful `scanStep` did -/
theorem scanStep_spec {o : Obj} {secs secs' : List Section} {r : Reloc} {c : Option Cand}
    (h : scanStep o secs r = .ok (secs', c)) :
    (c = none ∧ secs' = secs) ∨
    (∃ k sec S, c = some { hole := (r.offset + 2, 2), reloc := r } ∧ isShrinkable r.typ = true ∧
      relocInfo r.typ = some ⟨4, some k⟩ ∧ getSec secs r.sect = some sec ∧
      liftL (getSymbolIdValue { o with sections := secs } r.symbolId) = .ok S ∧
      canShrink S (sec.address + r.offset) = .ok true ∧
      ((sec.data.drop r.offset).take 4).length = 4 ∧
      secs' = updSec secs r.sect (fun s => { s with data := splice s.data r.offset (patch k ((sec.data.drop r.offset).take 4)) })) := by
  unfold scanStep at h
  obtain ⟨S, hS, h⟩ := bind_ok h
  cases hg : getSec secs r.sect with
  | none => rw [hg] at h; cases h
  | some sec =>
    rw [hg] at h
    simp only at h
    cases hi : relocInfo r.typ with
    | none => rw [hi] at h; cases h
    | some info =>
      rw [hi] at h
      simp only at h
      cases hk : info.shrink with
      | none => rw [hk] at h; cases h; exact Or.inl ⟨rfl, rfl⟩
      | some k =>
        rw [hk] at h
        simp only at h
        obtain ⟨can, hc, h⟩ := bind_ok h
        cases can with
        | false => cases h; exact Or.inl ⟨rfl, rfl⟩
        | true =>
          have hsz : info.size = 4 := shrink_size hi hk
          simp only [Bool.not_true, Bool.false_eq_true, if_false] at h
          obtain ⟨_, a1, h⟩ := bind_ok h
          obtain ⟨_, a2, h⟩ := bind_ok h
          obtain ⟨_, a3, h⟩ := bind_ok h
          have l4 : ((sec.data.drop r.offset).take 4).length = 4 := by
            have := assert_ok a1
            rw [hsz] at this
            simpa using this
          rw [hsz] at h
          have lp := patch_length k _ l4
          rw [lp] at h
          cases h
          refine Or.inr ⟨k, sec, S, rfl, ?_, ?_, rfl, hS, hc, l4, rfl⟩
          · unfold isShrinkable; rw [hi]; simp [hk]
          · cases info with | mk sz sh => simp only at hsz hk; rw [hsz, hk]

theorem scanStep_shape {o : Obj} {secs secs' : List Section} {r : Reloc} {c : Option Cand}
    (h : scanStep o secs r = .ok (secs', c)) : All2 SameShape secs secs' := by
  rcases scanStep_spec h with ⟨_, rfl⟩ | ⟨k, sec, S, _, _, _, hg, _, _, l4, rfl⟩
  · exact All2.refl' (fun _ => ⟨rfl, rfl, rfl⟩) _
  · apply updSec_sameShape
    intro s _
    exact ⟨rfl, rfl, rfl⟩

/-! ### the whole loop -/

/-- what `lst` holds after the loop: one entry per accepted relocation, in relocation order, with the
    hole right behind the two bytes that stay -/
def CandOK (c : Cand) : Prop := c.hole = (c.reloc.offset + 2, 2) ∧ isShrinkable c.reloc.typ = true

theorem scan_spec {o : Obj} : ∀ {rels : List Reloc} {secs secs' : List Section} {cs : List Cand},
    scan o secs rels = .ok (secs', cs) →
    All2 SameShape secs secs' ∧ (cs.map (·.reloc)).Sublist rels ∧ ∀ c ∈ cs, CandOK c
  | [], secs, secs', cs, h => by
    simp only [scan] at h; cases h
    exact ⟨All2.refl' (fun _ => ⟨rfl, rfl, rfl⟩) _, List.Sublist.refl _, fun _ hc => by cases hc⟩
  | r :: rest, secs, secs', cs, h => by
    simp only [scan] at h
    cases h1 : scanStep o secs r with
    | error e => rw [h1] at h; cases h
    | ok p =>
      obtain ⟨secs1, c⟩ := p
      rw [h1] at h
      simp only at h
      cases h2 : scan o secs1 rest with
      | error e => rw [h2] at h; cases h
      | ok q =>
        obtain ⟨secs2, cs2⟩ := q
        rw [h2] at h
        cases h
        obtain ⟨i1, i2, i3⟩ := scan_spec h2
        refine ⟨All2.trans' sameShape_trans (scanStep_shape h1) i1, ?_, ?_⟩
        · rcases scanStep_spec h1 with ⟨rfl, _⟩ | ⟨k, sec, S, rfl, _⟩
          · exact List.Sublist.cons _ i2
          · exact List.Sublist.cons_cons _ i2
        · intro c' hc'
          rcases scanStep_spec h1 with ⟨rfl, _⟩ | ⟨k, sec, S, rfl, hsh, _⟩
          · exact i3 c' hc'
          · rcases List.mem_cons.1 hc' with rfl | hc'
            · exact ⟨rfl, hsh⟩
            · exact i3 c' hc'

/-! ### the registered holes are ascending and disjoint when the shrinkable sites do not overlap -/

/-- the shrinkable relocation sites of one section are pairwise disjoint (4 bytes each) -/
def SitesSeparated (rels : List Reloc) : Prop :=
  rels.Pairwise (fun r₁ r₂ => r₁.sect = r₂.sect → isShrinkable r₁.typ = true → isShrinkable r₂.typ = true →
    r₁.offset + 4 ≤ r₂.offset ∨ r₂.offset + 4 ≤ r₁.offset)

theorem holesOK_of_cands {rels : List Reloc} {cs : List Cand} (hsep : SitesSeparated rels)
    (hsub : (cs.map (·.reloc)).Sublist rels) (hc : ∀ c ∈ cs, CandOK c) :
    HolesOK (cs.map (fun c => (c.reloc.sect, c.hole))) := by
  intro n
  unfold holesOf
  apply holesFrom_sortHoles
  · -- separated
    have h1 : (cs.map (·.reloc)).Pairwise _ := hsep.sublist hsub
    rw [List.pairwise_map] at h1
    have h2 : cs.Pairwise (fun a b => a.reloc.sect = b.reloc.sect →
        (a.hole.1 + a.hole.2 ≤ b.hole.1 ∨ b.hole.1 + b.hole.2 ≤ a.hole.1)) := by
      refine h1.imp_of_mem ?_
      intro a b ha hb hab hs
      obtain ⟨ea, sa⟩ := hc a ha
      obtain ⟨eb, sb⟩ := hc b hb
      have := hab hs sa sb
      rw [ea, eb]
      simp only
      omega
    rw [List.filter_map, List.map_map]
    rw [List.pairwise_map]
    refine (h2.filter _).imp_of_mem ?_
    intro a b ha hb hab
    have ha' := (List.mem_filter.1 ha).2
    have hb' := (List.mem_filter.1 hb).2
    simp only [Function.comp, beq_iff_eq] at ha' hb'
    exact hab (ha'.trans hb'.symm)
  · intro h hh
    rw [List.mem_map] at hh
    obtain ⟨p, hp, rfl⟩ := hh
    have hp' := (List.mem_filter.1 hp).1
    rw [List.mem_map] at hp'
    obtain ⟨c, hcm, rfl⟩ := hp'
    rw [(hc c hcm).1]
    exact Nat.zero_lt_two

/-! ### `do_relaxations` as a whole -/

theorem doRelaxations_inv {o o' : Obj} {m : HoleMap} (h : doRelaxations o = .ok (o', m)) :
    ∃ secs cs, scan o o.sections o.relocs = .ok (secs, cs) ∧ m = (if cs.isEmpty then [] else cs.map (fun c => (c.reloc.sect, c.hole))) ∧
      ((cs = [] ∧ o' = { o with sections := secs }) ∨
       (cs ≠ [] ∧ ∃ rels, replaceRelocs o.relocs cs = .ok rels ∧
          applyHoles m { o with sections := secs, relocs := rels } = .ok o')) := by
  unfold doRelaxations at h
  obtain ⟨⟨secs, cs⟩, h1, h⟩ := bind_ok h
  refine ⟨secs, cs, h1, ?_⟩
  simp only at h
  cases hc : cs.isEmpty with
  | true =>
    rw [hc] at h
    simp only [if_true] at h
    cases h
    have : cs = [] := List.isEmpty_iff.1 hc
    exact ⟨by simp, Or.inl ⟨this, rfl⟩⟩
  | false =>
    rw [hc] at h
    simp only [Bool.false_eq_true, if_false] at h
    obtain ⟨rels, h2, h⟩ := bind_ok h
    obtain ⟨o1, h3, h⟩ := bind_ok h
    cases h
    have hne : cs ≠ [] := fun e => by rw [e] at hc; cases hc
    exact ⟨by simp, Or.inr ⟨hne, rels, h2, by simpa using h3⟩⟩

/-- the holes `do_relaxations` registers are ascending and disjoint per section as soon as the shrinkable
    relocation sites do not overlap -/
theorem doRelaxations_holesOK {o o' : Obj} {m : HoleMap} (h : doRelaxations o = .ok (o', m))
    (hsep : SitesSeparated o.relocs) : HolesOK m := by
  obtain ⟨secs, cs, h1, hm, _⟩ := doRelaxations_inv h
  obtain ⟨_, hsub, hc⟩ := scan_spec h1
  rw [hm]
  split
  · intro n; exact trivial
  · exact holesOK_of_cands hsep hsub hc

/-- `HolesOK` only has to be checked for the sections that have a hole (decidable) -/
theorem holesOK_of_names {m : HoleMap} (h : ∀ n ∈ m.map (·.1), HolesFrom 0 (holesOf m n)) : HolesOK m := by
  intro n
  by_cases c : n ∈ m.map (·.1)
  · exact h n c
  · have : m.filter (fun p => p.1 == n) = [] := by
      rw [List.filter_eq_nil_iff]
      intro p hp hpn
      exact c (List.mem_map.2 ⟨p, hp, by simpa using hpn⟩)
    unfold holesOf
    rw [this]
    exact trivial

/-! ### the relocation entries after the replacement -/

/-- a relocation entry without its type -/
def relKey (r : Reloc) : Nat × String × Nat × Int := (r.symbolId, r.sect, r.offset, r.addend)

theorem removeFirst_perm {r : Reloc} : ∀ {l l' : List Reloc}, removeFirst r l = .ok l' → l.Perm (r :: l')
  | [], _, h => by cases h
  | x :: rest, l', h => by
    simp only [removeFirst] at h
    split at h
    · rename_i c
      cases h
      have : x = r := by simpa using c
      rw [this]
    · cases hr : removeFirst r rest with
      | error e => rw [hr] at h; cases h
      | ok rest' =>
        rw [hr] at h; cases h
        exact ((removeFirst_perm hr).cons x).trans (List.Perm.swap r x rest')

/-- the replacement keeps every entry's symbol, section, offset and addend (as a multiset): only types
    change and the shrunk entries move to the end -/
theorem replaceRelocs_keys : ∀ {cs : List Cand} {rels rels' : List Reloc}, replaceRelocs rels cs = .ok rels' →
    (rels'.map relKey).Perm (rels.map relKey)
  | [], rels, rels', h => by simp only [replaceRelocs] at h; cases h; exact List.Perm.refl _
  | c :: cs, rels, rels', h => by
    simp only [replaceRelocs] at h
    cases h1 : removeFirst c.reloc rels with
    | error e => rw [h1] at h; cases h
    | ok rels1 =>
      rw [h1] at h
      simp only at h
      split at h
      · cases h
      · have ih := replaceRelocs_keys h
        refine ih.trans ?_
        have p1 := (removeFirst_perm h1).map relKey
        rw [List.map_append, List.map_cons, List.map_nil]
        refine List.Perm.trans ?_ p1.symm
        rw [List.map_cons]
        have : relKey { c.reloc with typ := shrunkType } = relKey c.reloc := rfl
        rw [this]
        exact List.perm_append_comm.trans (List.Perm.refl _)

/-! ### the candidate loop touches only the two bytes it keeps of every accepted jump -/

theorem splice_length {data new : List Nat} {off : Nat} (h : off + new.length ≤ data.length) :
    (splice data off new).length = data.length := by
  unfold splice
  simp only [List.length_append, List.length_take, List.length_drop]
  omega

theorem splice_get {data new : List Nat} {off i : Nat} (h : off + new.length ≤ data.length)
    (hi : i < off ∨ off + new.length ≤ i) : (splice data off new)[i]? = data[i]? := by
  unfold splice
  rcases hi with hi | hi
  · rw [List.getElem?_append_left (by simp only [List.length_append, List.length_take]; omega),
      List.getElem?_append_left (by simp only [List.length_take]; omega), List.getElem?_take]
    simp [hi]
  · rw [List.getElem?_append_right (by simp only [List.length_append, List.length_take]; omega)]
    simp only [List.length_append, List.length_take, List.getElem?_drop]
    congr 1
    omega

/-- what the candidates `cs` may have changed in a section -/
def Patched (cs : List Cand) (s s' : Section) : Prop :=
  SameShape s s' ∧ s'.data.length = s.data.length ∧
  ∀ i, (∀ c ∈ cs, c.reloc.sect = s.name → i < c.reloc.offset ∨ c.reloc.offset + 2 ≤ i) → s'.data[i]? = s.data[i]?

theorem getSec_of_mem_nodup : ∀ {secs : List Section} {s : Section}, (secs.map (·.name)).Nodup → s ∈ secs →
    getSec secs s.name = some s
  | [], _, _, h => by cases h
  | a :: rest, s, hnd, hs => by
    rw [List.map_cons, List.nodup_cons] at hnd
    rw [getSec_cons]
    rcases List.mem_cons.1 hs with rfl | hs
    · simp
    · have : a.name ≠ s.name := fun e => hnd.1 (e ▸ List.mem_map.2 ⟨s, hs, rfl⟩)
      simp only [if_neg this]
      exact getSec_of_mem_nodup hnd.2 hs

theorem all2_map_mem {α : Type} {R : α → α → Prop} (f : α → α) : ∀ (l : List α), (∀ a ∈ l, R a (f a)) → All2 R l (l.map f)
  | [], _ => .nil
  | a :: rest, h => .cons (h a (by simp)) (all2_map_mem f rest (fun x hx => h x (by simp [hx])))

theorem all2_names {secs secs' : List Section} (h : All2 SameShape secs secs') :
    secs'.map (·.name) = secs.map (·.name) := by
  induction h with
  | nil => rfl
  | cons hr _ ih => simp only [List.map_cons, ih, hr.1]

def candList : Option Cand → List Cand
  | some x => [x]
  | none => []

theorem scanStep_data {o : Obj} {secs secs' : List Section} {r : Reloc} {c : Option Cand}
    (hnd : (secs.map (·.name)).Nodup) (h : scanStep o secs r = .ok (secs', c)) :
    All2 (Patched (candList c)) secs secs' := by
  rcases scanStep_spec h with ⟨rfl, rfl⟩ | ⟨k, sec, S, rfl, _, _, hg, _, _, l4, rfl⟩
  · exact All2.refl' (fun _ => ⟨⟨rfl, rfl, rfl⟩, rfl, fun _ _ => rfl⟩) _
  · have hoff : r.offset + 4 ≤ sec.data.length := by
      simp only [List.length_take, List.length_drop] at l4
      omega
    unfold updSec
    apply all2_map_mem
    intro s hs
    by_cases hb : (s.name == r.sect) = true
    · rw [if_pos hb]
      have hsn : s.name = r.sect := by simpa using hb
      have : getSec secs r.sect = some s := hsn ▸ getSec_of_mem_nodup hnd hs
      rw [hg] at this
      cases this
      have lp := patch_length k _ l4
      refine ⟨⟨rfl, rfl, rfl⟩, splice_length (by rw [lp]; omega), ?_⟩
      intro i hi
      have := hi { hole := (r.offset + 2, 2), reloc := r } (by simp [candList]) hsn.symm
      exact splice_get (by rw [lp]; omega) (by rw [lp]; exact this)
    · rw [if_neg hb]
      exact ⟨⟨rfl, rfl, rfl⟩, rfl, fun _ _ => rfl⟩

theorem patched_trans {cs₁ cs₂ : List Cand} (a b c : Section) (h1 : Patched cs₁ a b) (h2 : Patched cs₂ b c) :
    Patched (cs₁ ++ cs₂) a c := by
  obtain ⟨s1, l1, d1⟩ := h1
  obtain ⟨s2, l2, d2⟩ := h2
  refine ⟨sameShape_trans a b c s1 s2, l2.trans l1, ?_⟩
  intro i hi
  rw [d2 i (fun x hx hn => hi x (List.mem_append.2 (Or.inr hx)) (hn.trans s1.1)),
    d1 i (fun x hx hn => hi x (List.mem_append.2 (Or.inl hx)) hn)]

/-- after the candidate loop every section has its old length and its old bytes, except for the first two
    bytes of every accepted jump (section names pairwise different) -/
theorem scan_data {o : Obj} : ∀ {rels : List Reloc} {secs secs' : List Section} {cs : List Cand},
    (secs.map (·.name)).Nodup → scan o secs rels = .ok (secs', cs) → All2 (Patched cs) secs secs'
  | [], secs, secs', cs, _, h => by
    simp only [scan] at h; cases h
    exact All2.refl' (fun _ => ⟨⟨rfl, rfl, rfl⟩, rfl, fun _ _ => rfl⟩) _
  | r :: rest, secs, secs', cs, hnd, h => by
    simp only [scan] at h
    cases h1 : scanStep o secs r with
    | error e => rw [h1] at h; cases h
    | ok p =>
      obtain ⟨secs1, c⟩ := p
      rw [h1] at h
      simp only at h
      cases h2 : scan o secs1 rest with
      | error e => rw [h2] at h; cases h
      | ok q =>
        obtain ⟨secs2, cs2⟩ := q
        rw [h2] at h
        cases h
        have hnd1 : (secs1.map (·.name)).Nodup := by rw [all2_names (scanStep_shape h1)]; exact hnd
        have key := All2.trans' patched_trans (scanStep_data hnd h1) (scan_data hnd1 h2)
        cases c <;> exact key

end RelaxScanPart

/-! # 4. two sections of one image -/
section RelaxRangePart
open Spec.Relax Model.Linker Proofs.Linker
open Model.Relax hiding Hole

/-- bytes removed in front of the `i`-th section of an image (`delta` when the loop reaches it) -/
def deltaAt (m : HoleMap) : Nat → List Section → Nat → Nat
  | d, [], _ => d
  | d, _ :: _, 0 => d
  | d, s :: r, i + 1 => deltaAt m (d + change m s.name) r i

theorem shiftRes_get (m : HoleMap) : ∀ (news : List Section) (d i : Nat) (s : Section), news[i]? = some s →
    (shiftRes m d news)[i]? = some (setAddress (s.address - deltaAt m d news i) s)
  | [], _, _, _, h => by cases h
  | a :: r, d, 0, s, h => by
    simp only [List.getElem?_cons_zero, Option.some.injEq] at h
    subst h
    simp [shiftRes, deltaAt]
  | a :: r, d, i + 1, s, h => by
    simp only [List.getElem?_cons_succ] at h
    simp only [shiftRes, List.getElem?_cons_succ, deltaAt]
    exact shiftRes_get m r _ i s h

theorem deltaAt_ge (m : HoleMap) : ∀ (news : List Section) (d i : Nat), d ≤ deltaAt m d news i
  | [], _, _ => by simp [deltaAt]
  | _ :: _, _, 0 => by simp [deltaAt]
  | a :: r, d, i + 1 => by
    simp only [deltaAt]
    have := deltaAt_ge m r (d + change m a.name) i
    omega

/-- a later section has lost at least the holes of every earlier one -/
theorem deltaAt_mono (m : HoleMap) : ∀ (news : List Section) (d i j : Nat) (s : Section), i < j → news[i]? = some s →
    deltaAt m d news i + change m s.name ≤ deltaAt m d news j
  | [], _, _, _, _, _, h => by cases h
  | a :: r, d, 0, j + 1, s, _, h => by
    simp only [List.getElem?_cons_zero, Option.some.injEq] at h
    subst h
    simp only [deltaAt]
    exact deltaAt_ge m r _ j
  | a :: r, d, i + 1, j + 1, s, hij, h => by
    simp only [List.getElem?_cons_succ] at h
    simp only [deltaAt]
    exact deltaAt_mono m r _ i j s (by omega) h

theorem shiftFits_get (m : HoleMap) : ∀ (news : List Section) (d i : Nat) (s : Section), ShiftFits m d news →
    news[i]? = some s → deltaAt m d news i ≤ s.address
  | [], _, _, _, _, h => by cases h
  | a :: r, d, 0, s, hf, h => by
    simp only [List.getElem?_cons_zero, Option.some.injEq] at h
    subst h
    exact hf.1
  | a :: r, d, i + 1, s, hf, h => by
    simp only [List.getElem?_cons_succ] at h
    simp only [deltaAt]
    exact shiftFits_get m r _ i s hf.2 h

theorem all2_get {α : Type} {R : α → α → Prop} : ∀ {l l' : List α}, All2 R l l' → ∀ (i : Nat) (a : α),
    l[i]? = some a → ∃ b, l'[i]? = some b ∧ R a b
  | _, _, .nil, _, _, h => by cases h
  | _, _, .cons (a := x) (b := y) hxy t, 0, a, h => by
    simp only [List.getElem?_cons_zero, Option.some.injEq] at h
    subst h
    exact ⟨y, by simp, hxy⟩
  | _, _, .cons (a := x) (b := y) hxy t, i + 1, a, h => by
    simp only [List.getElem?_cons_succ] at h ⊢
    exact all2_get t i a h

theorem pairwise_get {α : Type} {R : α → α → Prop} : ∀ {l : List α}, l.Pairwise R → ∀ (i j : Nat) (a b : α),
    i < j → l[i]? = some a → l[j]? = some b → R a b
  | [], _, _, _, _, _, _, h, _ => by cases h
  | x :: r, hp, 0, j + 1, a, b, _, ha, hb => by
    simp only [List.getElem?_cons_zero, Option.some.injEq] at ha
    simp only [List.getElem?_cons_succ] at hb
    subst ha
    exact (List.pairwise_cons.1 hp).1 b (List.mem_of_getElem? hb)
  | x :: r, hp, i + 1, j + 1, a, b, hij, ha, hb => by
    simp only [List.getElem?_cons_succ] at ha hb
    exact pairwise_get (List.pairwise_cons.1 hp).2 i j a b (by omega) ha hb

theorem removedBefore_le_total (hs : List Hole) (o : Nat) : removedBefore hs o ≤ totalSize hs := by
  induction hs with
  | nil => exact Nat.le_refl _
  | cons h rest ih =>
    simp only [removedBefore, totalSize]
    split <;> omega

/-- `φ` of an offset inside the section is inside the shrunk section -/
theorem phi_le_newlen {hs : List Hole} {len p : Nat} (hf : HolesFrom 0 hs) (hw : holesWithin hs len) (hp : p ≤ len) :
    phi hs p + totalSize hs ≤ len := by
  have hin : strictlyInside hs len = false := by
    unfold strictlyInside
    rw [List.any_eq_false]
    intro h hh
    have := hw h hh
    simp only [decide_eq_true_eq]
    omega
  have m1 := phi_mono hf hin hp
  have hall : removedBefore hs len = totalSize hs := by
    clear m1 hin hp hf
    induction hs with
    | nil => rfl
    | cons g rest ih =>
      have hg := hw g (by simp)
      simp only [removedBefore, totalSize]
      rw [ih (fun x hx => hw x (by simp [hx]))]
      split <;> omega
  have := removedBefore_le_self hf hin
  unfold phi at m1 ⊢
  omega

/-- TWO SECTIONS OF ONE IMAGE.  `olds` are the sections of an image before relaxation (an ascending
    non-overlapping chain), `news` the same sections after hole punching; `sn₁`, `sn₂` are sections `i < j`
    of the image after the address shift.  For an offset `p` in the earlier and `t` in the later section
    (neither strictly inside a hole) the address map keeps the order and never increases the distance. -/
theorem two_sections_distance (m : HoleMap) (hok : HolesOK m) {olds news : List Section} {cur : Nat}
    (hrel : All2 (Shorter m) olds news) (hc : Chain cur olds)
    {i j : Nat} (hij : i < j) {so₁ so₂ sn₁ sn₂ : Section}
    (ho₁ : olds[i]? = some so₁) (ho₂ : olds[j]? = some so₂)
    (hn₁ : (shiftRes m 0 news)[i]? = some sn₁) (hn₂ : (shiftRes m 0 news)[j]? = some sn₂)
    (hw₁ : holesWithin (holesOf m so₁.name) so₁.data.length)
    {p t : Nat} (hp : p ≤ so₁.data.length)
    (hsp : strictlyInside (holesOf m so₁.name) p = false) (hst : strictlyInside (holesOf m so₂.name) t = false) :
    so₁.address + p ≤ so₂.address + t ∧
    sn₁.address + phi (holesOf m so₁.name) p ≤ sn₂.address + phi (holesOf m so₂.name) t ∧
    (sn₂.address + phi (holesOf m so₂.name) t) - (sn₁.address + phi (holesOf m so₁.name) p)
      ≤ (so₂.address + t) - (so₁.address + p) := by
  obtain ⟨q₁, hq₁, r₁⟩ := all2_get hrel i so₁ ho₁
  obtain ⟨q₂, hq₂, r₂⟩ := all2_get hrel j so₂ ho₂
  have e₁ := shiftRes_get m news 0 i q₁ hq₁
  have e₂ := shiftRes_get m news 0 j q₂ hq₂
  rw [hn₁] at e₁; rw [hn₂] at e₂
  simp only [Option.some.injEq] at e₁ e₂
  obtain ⟨cs, fits⟩ := chain_shiftRes m hrel cur 0 hc (Nat.zero_le _)
  have f₁ := shiftFits_get m news 0 i q₁ fits hq₁
  have f₂ := shiftFits_get m news 0 j q₂ fits hq₂
  have dm := deltaAt_mono m news 0 i j q₁ hij hq₁
  have oldpw := pairwise_get (chain_pairwise olds cur hc) i j so₁ so₂ hij ho₁ ho₂
  have newpw := pairwise_get (chain_pairwise _ _ cs) i j sn₁ sn₂ hij hn₁ hn₂
  obtain ⟨n₁, a₁, l₁⟩ := r₁
  obtain ⟨n₂, a₂, l₂⟩ := r₂
  have hc₁ : change m so₁.name = totalSize (holesOf m so₁.name) := change_eq_totalSize m so₁.name
  have hphi := phi_le_newlen (hok so₁.name) hw₁ hp
  have hrb₁ := removedBefore_le_total (holesOf m so₁.name) p
  have hrbp := removedBefore_le_self (hok so₁.name) hsp
  have hrbt := removedBefore_le_self (hok so₂.name) hst
  subst e₁ e₂
  simp only [setAddress] at newpw ⊢
  rw [n₁] at dm
  unfold phi at hphi ⊢
  refine ⟨by omega, by omega, by omega⟩

end RelaxRangePart

end Proofs.Relax
