import PpciVerif.Spec.Relax
import PpciVerif.Model.Relax
/-! Lemmas for C13, part 1: the re-indexing `φ` (`Spec.Relax.phi`), `count_holes` with its early `break`,
hole punching (`Model.Relax.punch`) and the stable sort of the hole lists.  Core Lean only. -/
namespace Proofs.Relax
open Spec.Relax
open Model.Relax hiding Hole

/-! ### `removedBefore` / `phi` -/

theorem strictlyInside_cons (h : Hole) (rest : List Hole) (o : Nat) :
    strictlyInside (h :: rest) o = (decide (h.1 < o ∧ o < h.1 + h.2) || strictlyInside rest o) := by
  simp [strictlyInside]

theorem inHole_cons (h : Hole) (rest : List Hole) (o : Nat) :
    inHole (h :: rest) o = (decide (h.1 ≤ o ∧ o < h.1 + h.2) || inHole rest o) := by
  simp [inHole]

/-- a deleted byte is the only kind of offset that can lie strictly inside a hole -/
theorem strictlyInside_of_not_inHole {hs : List Hole} {o : Nat} (h : inHole hs o = false) :
    strictlyInside hs o = false := by
  induction hs with
  | nil => rfl
  | cons g rest ih =>
    rw [inHole_cons] at h
    rw [strictlyInside_cons]
    simp only [Bool.or_eq_false_iff, decide_eq_false_iff_not] at h ⊢
    exact ⟨fun c => h.1 ⟨by omega, c.2⟩, ih h.2⟩

/-- no hole starts before `o` when all holes start at or after `L ≥ o` -/
theorem removedBefore_zero : ∀ (hs : List Hole) (L o : Nat), HolesFrom L hs → o ≤ L → removedBefore hs o = 0
  | [], _, _, _, _ => rfl
  | h :: rest, L, o, hf, ho => by
    obtain ⟨h1, h2⟩ := hf
    have hn : ¬ h.1 < o := by omega
    simp only [removedBefore, if_neg hn, Nat.zero_add]
    exact removedBefore_zero rest (h.1 + h.2) o h2 (by omega)

/-- the bytes removed before `o` all lie in `[L, o)` when `o` is not strictly inside a hole -/
theorem removedBefore_le : ∀ (hs : List Hole) (L o : Nat), HolesFrom L hs → strictlyInside hs o = false →
    L ≤ o → removedBefore hs o + L ≤ o
  | [], _, _, _, _, h => by simpa [removedBefore] using h
  | h :: rest, L, o, hf, hs, hL => by
    obtain ⟨h1, h2⟩ := hf
    rw [strictlyInside_cons] at hs
    simp only [Bool.or_eq_false_iff, decide_eq_false_iff_not] at hs
    obtain ⟨hs1, hs2⟩ := hs
    simp only [removedBefore]
    by_cases c : h.1 < o
    · rw [if_pos c]
      have := removedBefore_le rest (h.1 + h.2) o h2 hs2 (by omega)
      omega
    · rw [if_neg c, removedBefore_zero rest (h.1 + h.2) o h2 (by omega)]
      omega

theorem removedBefore_mono (hs : List Hole) {o₁ o₂ : Nat} (h : o₁ ≤ o₂) :
    removedBefore hs o₁ ≤ removedBefore hs o₂ := by
  induction hs with
  | nil => exact Nat.le_refl _
  | cons g rest ih =>
    simp only [removedBefore]
    by_cases c1 : g.1 < o₁
    · have c2 : g.1 < o₂ := by omega
      rw [if_pos c1, if_pos c2]; omega
    · rw [if_neg c1]
      by_cases c2 : g.1 < o₂
      · rw [if_pos c2]; omega
      · rw [if_neg c2]; omega

/-- between two offsets at most `o₂ - o₁` bytes are removed -/
theorem removedBefore_lip : ∀ (hs : List Hole) (L o₁ o₂ : Nat), HolesFrom L hs → strictlyInside hs o₂ = false →
    o₁ ≤ o₂ → removedBefore hs o₂ + o₁ ≤ removedBefore hs o₁ + o₂
  | [], _, _, _, _, _, h => by simpa [removedBefore] using h
  | h :: rest, L, o₁, o₂, hf, hs, ho => by
    obtain ⟨h1, h2⟩ := hf
    rw [strictlyInside_cons] at hs
    simp only [Bool.or_eq_false_iff, decide_eq_false_iff_not] at hs
    obtain ⟨hs1, hs2⟩ := hs
    simp only [removedBefore]
    by_cases c1 : h.1 < o₁
    · have c2 : h.1 < o₂ := by omega
      rw [if_pos c1, if_pos c2]
      have := removedBefore_lip rest (h.1 + h.2) o₁ o₂ h2 hs2 ho
      omega
    · rw [if_neg c1, removedBefore_zero rest (h.1 + h.2) o₁ h2 (by omega)]
      by_cases c2 : h.1 < o₂
      · rw [if_pos c2]
        have := removedBefore_le rest (h.1 + h.2) o₂ h2 hs2 (by omega)
        omega
      · rw [if_neg c2, removedBefore_zero rest (h.1 + h.2) o₂ h2 (by omega)]
        omega

/-- `φ` never subtracts more than the offset itself (so the `Nat` subtraction is exact) -/
theorem removedBefore_le_self {hs : List Hole} {o : Nat} (hf : HolesFrom 0 hs) (hs' : strictlyInside hs o = false) :
    removedBefore hs o ≤ o := by
  have := removedBefore_le hs 0 o hf hs' (Nat.zero_le _)
  omega

/-- `φ` is monotone (towards offsets that are not strictly inside a hole) -/
theorem phi_mono {hs : List Hole} {o₁ o₂ : Nat} (hf : HolesFrom 0 hs) (hs' : strictlyInside hs o₂ = false)
    (h : o₁ ≤ o₂) : phi hs o₁ ≤ phi hs o₂ := by
  have a := removedBefore_lip hs 0 o₁ o₂ hf hs' h
  have b := removedBefore_le_self hf hs'
  unfold phi
  omega

/-- `φ` never increases a distance -/
theorem phi_nonexpanding (hs : List Hole) {o₁ o₂ : Nat} (h : o₁ ≤ o₂) : phi hs o₂ - phi hs o₁ ≤ o₂ - o₁ := by
  have := removedBefore_mono hs h
  unfold phi
  omega

/-- `φ` is the identity in front of the first hole -/
theorem phi_before {hs : List Hole} {L o : Nat} (hf : HolesFrom L hs) (h : o ≤ L) : phi hs o = o := by
  unfold phi
  rw [removedBefore_zero hs L o hf h]
  rfl

/-- all holes lie in `[L, n)`: their sizes add up to at most `n - L` -/
theorem totalSize_le : ∀ (hs : List Hole) (L n : Nat), HolesFrom L hs → holesWithin hs n → L ≤ n → totalSize hs + L ≤ n
  | [], _, _, _, _, h => by simpa [totalSize] using h
  | h :: rest, L, n, hf, hw, _ => by
    obtain ⟨h1, h2⟩ := hf
    have hh : h.1 + h.2 ≤ n := hw h (by simp)
    have := totalSize_le rest (h.1 + h.2) n h2 (fun g hg => hw g (by simp [hg])) hh
    simp only [totalSize]
    omega

/-- behind the last hole `φ` subtracts everything -/
theorem removedBefore_all : ∀ (hs : List Hole) (n : Nat), holesWithin hs n → (∀ h ∈ hs, 0 < h.2) →
    removedBefore hs n = totalSize hs
  | [], _, _, _ => rfl
  | h :: rest, n, hw, hp => by
    have hh : h.1 + h.2 ≤ n := hw h (by simp)
    have hp' : 0 < h.2 := hp h (by simp)
    have c : h.1 < n := by omega
    simp only [removedBefore, totalSize, if_pos c]
    rw [removedBefore_all rest n (fun g hg => hw g (by simp [hg])) (fun g hg => hp g (by simp [hg]))]

/-! ### `count_holes` (with the early `break`) is `removedBefore` on a sorted list -/

theorem countHoles_eq : ∀ (hs : List Hole) (L o : Nat), HolesFrom L hs → countHoles o hs = removedBefore hs o
  | [], _, _, _ => rfl
  | h :: rest, L, o, hf => by
    obtain ⟨h1, h2⟩ := hf
    simp only [countHoles, removedBefore]
    by_cases c : h.1 < o
    · rw [if_pos c, if_pos c, countHoles_eq rest (h.1 + h.2) o h2]
    · rw [if_neg c, if_neg c, removedBefore_zero rest (h.1 + h.2) o h2 (by omega)]

/-- what `value -= count_holes(value, holes)` computes -/
theorem sub_countHoles {hs : List Hole} {v v' : Nat} (hf : HolesFrom 0 hs)
    (h : sub? v (countHoles v hs) = .ok v') : v' = phi hs v ∧ removedBefore hs v ≤ v := by
  unfold sub? at h
  rw [countHoles_eq hs 0 v hf] at h
  split at h
  · cases h; exact ⟨rfl, by assumption⟩
  · cases h

/-- the subtraction never underflows for an offset that is not strictly inside a hole -/
theorem sub_countHoles_ok {hs : List Hole} {v : Nat} (hf : HolesFrom 0 hs) (hs' : strictlyInside hs v = false) :
    sub? v (countHoles v hs) = .ok (phi hs v) := by
  unfold sub?
  rw [countHoles_eq hs 0 v hf, if_pos (removedBefore_le_self hf hs')]
  rfl

/-! ### hole punching -/

theorem punch_cons_ok {data : List Nat} {h : Hole} {rest : List Hole} {X : List Nat}
    (hp : punch data (h :: rest) = .ok X) :
    ∃ X', punch data rest = .ok X' ∧ h.1 + h.2 ≤ X'.length ∧ X = X'.take h.1 ++ X'.drop (h.1 + h.2) := by
  simp only [punch] at hp
  cases hr : punch data rest with
  | error e => rw [hr] at hp; cases hp
  | ok X' =>
    rw [hr] at hp
    simp only [popHole] at hp
    split at hp
    · cases hp; exact ⟨X', rfl, by assumption, rfl⟩
    · cases hp

/-- length after punching -/
theorem punch_length : ∀ (hs : List Hole) (data X : List Nat), punch data hs = .ok X →
    X.length + totalSize hs = data.length
  | [], data, X, h => by simp only [punch] at h; cases h; simp [totalSize]
  | h :: rest, data, X, hp => by
    obtain ⟨X', hr, hb, rfl⟩ := punch_cons_ok hp
    have := punch_length rest data X' hr
    simp only [List.length_append, List.length_take, List.length_drop, totalSize]
    omega

/-- a successful punch with sorted disjoint holes: every hole lies inside the data -/
theorem punch_within : ∀ (hs : List Hole) (L : Nat) (data X : List Nat), HolesFrom L hs → punch data hs = .ok X →
    holesWithin hs data.length
  | [], _, _, _, _, _ => by intro g hg; cases hg
  | h :: rest, L, data, X, hf, hp => by
    obtain ⟨h1, h2⟩ := hf
    obtain ⟨X', hr, hb, rfl⟩ := punch_cons_ok hp
    have hw := punch_within rest (h.1 + h.2) data X' h2 hr
    have hl := punch_length rest data X' hr
    intro g hg
    rcases List.mem_cons.1 hg with rfl | hg
    · omega
    · exact hw g hg

/-- punching succeeds when the holes are sorted, disjoint and inside the data -/
theorem punch_ok : ∀ (hs : List Hole) (L : Nat) (data : List Nat), HolesFrom L hs → holesWithin hs data.length →
    ∃ X, punch data hs = .ok X
  | [], _, data, _, _ => ⟨data, rfl⟩
  | h :: rest, L, data, hf, hw => by
    obtain ⟨h1, h2⟩ := hf
    have hwr : holesWithin rest data.length := fun g hg => hw g (by simp [hg])
    obtain ⟨X', hr⟩ := punch_ok rest (h.1 + h.2) data h2 hwr
    have hl := punch_length rest data X' hr
    have ht := totalSize_le rest (h.1 + h.2) data.length h2 hwr (hw h (by simp))
    refine ⟨X'.take h.1 ++ X'.drop (h.1 + h.2), ?_⟩
    simp only [punch, hr, popHole]
    rw [if_pos (by omega)]

/-- THE INDEX THEOREM: the byte at a surviving offset `o` of the old data stands at `φ o` in the new data -/
theorem punch_index : ∀ (hs : List Hole) (L : Nat) (data X : List Nat), HolesFrom L hs → punch data hs = .ok X →
    ∀ o, o < data.length → inHole hs o = false → X[phi hs o]? = data[o]?
  | [], _, data, X, _, hp => by
    simp only [punch] at hp; cases hp
    intro o _ _
    simp [phi, removedBefore]
  | h :: rest, L, data, X, hf, hp => by
    obtain ⟨h1, h2⟩ := hf
    obtain ⟨X', hr, hb, rfl⟩ := punch_cons_ok hp
    have ih := punch_index rest (h.1 + h.2) data X' h2 hr
    intro o ho hin
    rw [inHole_cons] at hin
    simp only [Bool.or_eq_false_iff, decide_eq_false_iff_not] at hin
    obtain ⟨hin1, hin2⟩ := hin
    have hX := ih o ho hin2
    have hsi := strictlyInside_of_not_inHole hin2
    by_cases c : h.1 < o
    · -- behind the hole: the index moves down by its size
      have hge : h.1 + h.2 ≤ o := by omega
      have hk := removedBefore_le rest (h.1 + h.2) o h2 hsi hge
      have e : phi (h :: rest) o = phi rest o - h.2 := by
        simp only [phi, removedBefore, if_pos c]; omega
      have hk2 : h.1 + h.2 ≤ phi rest o := by simp only [phi]; omega
      rw [e, List.getElem?_append_right (by simp only [List.length_take]; omega)]
      simp only [List.length_take, List.getElem?_drop]
      rw [← hX]
      congr 1
      omega
    · -- in front of the hole (or at a hole of size 0): nothing moves
      have hz := removedBefore_zero rest (h.1 + h.2) o h2 (by omega)
      have e : phi (h :: rest) o = o := by simp only [phi, removedBefore, if_neg c, hz]; omega
      have e' : phi rest o = o := by simp only [phi, hz]; omega
      rw [e' ] at hX
      rw [e, ← hX]
      by_cases c2 : o < h.1
      · rw [List.getElem?_append_left (by simp only [List.length_take]; omega), List.getElem?_take]
        simp [c2]
      · have ho1 : o = h.1 := by omega
        have hz2 : h.2 = 0 := by omega
        rw [hz2, ho1]
        simp

/-! ### the stable sort of a hole list -/

theorem insertHole_perm (h : Hole) : ∀ l : List Hole, (insertHole h l).Perm (h :: l)
  | [] => List.Perm.refl _
  | g :: rest => by
    simp only [insertHole]
    split
    · exact List.Perm.refl _
    · exact ((insertHole_perm h rest).cons g).trans (List.Perm.swap h g rest)

theorem sortHoles_perm : ∀ l : List Hole, (sortHoles l).Perm l
  | [] => List.Perm.refl _
  | h :: rest => (insertHole_perm h (sortHoles rest)).trans ((sortHoles_perm rest).cons h)

theorem insertHole_sorted (h : Hole) : ∀ l : List Hole, l.Pairwise (fun a b => a.1 ≤ b.1) →
    (insertHole h l).Pairwise (fun a b => a.1 ≤ b.1)
  | [], _ => by simp [insertHole]
  | g :: rest, hp => by
    rw [List.pairwise_cons] at hp
    simp only [insertHole]
    split
    · rename_i c
      refine List.pairwise_cons.2 ⟨?_, List.pairwise_cons.2 hp⟩
      intro b hb
      rcases List.mem_cons.1 hb with rfl | hb
      · exact c
      · exact Nat.le_trans c (hp.1 b hb)
    · rename_i c
      refine List.pairwise_cons.2 ⟨?_, insertHole_sorted h rest hp.2⟩
      intro b hb
      rcases List.mem_cons.1 ((insertHole_perm h rest).mem_iff.1 hb) with rfl | hb
      · omega
      · exact hp.1 b hb

theorem sortHoles_sorted : ∀ l : List Hole, (sortHoles l).Pairwise (fun a b => a.1 ≤ b.1)
  | [] => List.Pairwise.nil
  | h :: rest => insertHole_sorted h _ (sortHoles_sorted rest)

theorem holesFrom_of_pairwise : ∀ (hs : List Hole) (L : Nat), hs.Pairwise (fun a b => a.1 + a.2 ≤ b.1) →
    (∀ h ∈ hs, L ≤ h.1) → HolesFrom L hs
  | [], _, _, _ => trivial
  | h :: rest, L, hp, hL => by
    rw [List.pairwise_cons] at hp
    exact ⟨hL h (by simp), holesFrom_of_pairwise rest _ hp.2 (fun g hg => hp.1 g hg)⟩

/-- pairwise separated holes of positive size, once sorted, are an ascending disjoint chain -/
theorem holesFrom_sortHoles (l : List Hole)
    (hsep : l.Pairwise (fun a b => a.1 + a.2 ≤ b.1 ∨ b.1 + b.2 ≤ a.1)) (hpos : ∀ h ∈ l, 0 < h.2) :
    HolesFrom 0 (sortHoles l) := by
  have hperm := sortHoles_perm l
  have h1 : (sortHoles l).Pairwise (fun a b => a.1 + a.2 ≤ b.1 ∨ b.1 + b.2 ≤ a.1) :=
    (hperm.pairwise_iff (fun {a b} h => by rcases h with h | h; exact Or.inr h; exact Or.inl h)).2 hsep
  have h2 := sortHoles_sorted l
  have h3 := h1.and h2
  refine holesFrom_of_pairwise _ 0 ?_ (fun _ _ => Nat.zero_le _)
  refine h3.imp_of_mem ?_
  intro a b _ hb hab
  have := hpos b (hperm.mem_iff.1 hb)
  omega

/-! ### punching = removing the bytes whose index lies in a hole -/

theorem inHole_false_before : ∀ (hs : List Hole) (L k : Nat), HolesFrom L hs → k < L → inHole hs k = false
  | [], _, _, _, _ => rfl
  | h :: rest, L, k, hf, hk => by
    obtain ⟨h1, h2⟩ := hf
    rw [inHole_cons, inHole_false_before rest (h.1 + h.2) k h2 (by omega)]
    simp only [Bool.or_false, decide_eq_false_iff_not]
    omega

theorem removeFrom_congr {α : Type} (hs hs' : List Hole) : ∀ (data : List α) (i : Nat),
    (∀ k, k < data.length → inHole hs (i + k) = inHole hs' (i + k)) → removeFrom hs i data = removeFrom hs' i data
  | [], _, _ => rfl
  | b :: rest, i, h => by
    have h0 := h 0 (by simp)
    simp only [Nat.add_zero] at h0
    have ih := removeFrom_congr hs hs' rest (i + 1) (fun k hk => by
      have := h (k + 1) (by simp only [List.length_cons]; omega)
      rwa [show i + (k + 1) = i + 1 + k by omega] at this)
    simp only [removeFrom, h0, ih]

theorem removeFrom_append {α : Type} (hs : List Hole) : ∀ (a b : List α) (i : Nat),
    removeFrom hs i (a ++ b) = removeFrom hs i a ++ removeFrom hs (i + a.length) b
  | [], b, i => by simp [removeFrom]
  | x :: a, b, i => by
    have ih := removeFrom_append hs a b (i + 1)
    simp only [List.cons_append, removeFrom, List.length_cons, ih]
    rw [show i + 1 + a.length = i + (a.length + 1) by omega]
    split <;> simp

theorem removeFrom_none {α : Type} (hs : List Hole) : ∀ (data : List α) (i : Nat),
    (∀ k, k < data.length → inHole hs (i + k) = false) → removeFrom hs i data = data
  | [], _, _ => rfl
  | b :: rest, i, h => by
    have h0 := h 0 (by simp)
    simp only [Nat.add_zero] at h0
    have ih := removeFrom_none hs rest (i + 1) (fun k hk => by
      have := h (k + 1) (by simp only [List.length_cons]; omega)
      rwa [show i + (k + 1) = i + 1 + k by omega] at this)
    simp [removeFrom, h0, ih]

theorem removeFrom_all {α : Type} (hs : List Hole) : ∀ (data : List α) (i : Nat),
    (∀ k, k < data.length → inHole hs (i + k) = true) → removeFrom hs i data = []
  | [], _, _ => rfl
  | b :: rest, i, h => by
    have h0 := h 0 (by simp)
    simp only [Nat.add_zero] at h0
    have ih := removeFrom_all hs rest (i + 1) (fun k hk => by
      have := h (k + 1) (by simp only [List.length_cons]; omega)
      rwa [show i + (k + 1) = i + 1 + k by omega] at this)
    simp [removeFrom, h0, ih]

/-- a section's data cut at a hole -/
theorem split3 (data : List Nat) (a b : Nat) (h : a + b ≤ data.length) :
    data = data.take a ++ ((data.drop a).take b ++ data.drop (a + b)) ∧
    (data.take a).length = a ∧ ((data.drop a).take b).length = b := by
  refine ⟨?_, by simp only [List.length_take]; omega, by simp only [List.length_take, List.length_drop]; omega⟩
  have e : data.drop (a + b) = (data.drop a).drop b := by rw [List.drop_drop]
  rw [e, List.take_append_drop, List.take_append_drop]

/-- THE DATA THEOREM: hole punching (last hole first, `pop` byte by byte) yields exactly the old data without
    the bytes whose index lies in a hole -/
theorem punch_eq_removeBytes : ∀ (hs : List Hole) (L : Nat) (data X : List Nat), HolesFrom L hs →
    punch data hs = .ok X → X = removeBytes hs data
  | [], _, data, X, _, hp => by
    simp only [punch] at hp; cases hp
    exact (removeFrom_none [] data 0 (fun _ _ => rfl)).symm
  | h :: rest, L, data, X, hf, hp => by
    have hw := punch_within (h :: rest) L data X hf hp
    obtain ⟨h1, h2⟩ := hf
    obtain ⟨X', hr, hb, rfl⟩ := punch_cons_ok hp
    have ih := punch_eq_removeBytes rest (h.1 + h.2) data X' h2 hr
    have hlen : h.1 + h.2 ≤ data.length := hw h (by simp)
    obtain ⟨hsplit, lA, lB⟩ := split3 data h.1 h.2 hlen
    generalize hA : data.take h.1 = A at hsplit lA
    generalize hB : (data.drop h.1).take h.2 = B at hsplit lB
    generalize hC : data.drop (h.1 + h.2) = C at hsplit
    -- the later holes leave the first `h.1 + h.2` bytes alone
    have e1 : X' = A ++ (B ++ removeFrom rest (h.1 + h.2) C) := by
      rw [ih]
      unfold removeBytes
      rw [hsplit, removeFrom_append, removeFrom_append, lA, lB,
        removeFrom_none rest A 0 (fun k hk => inHole_false_before rest _ _ h2 (by omega)),
        removeFrom_none rest B (0 + h.1) (fun k hk => inHole_false_before rest _ _ h2 (by omega))]
      simp
    -- all holes on the old data
    have e2 : removeBytes (h :: rest) data = A ++ removeFrom rest (h.1 + h.2) C := by
      unfold removeBytes
      rw [hsplit, removeFrom_append, removeFrom_append, lA, lB,
        removeFrom_none (h :: rest) A 0 (fun k hk => by
          rw [inHole_cons, inHole_false_before rest _ _ h2 (by omega)]
          simp only [Bool.or_false, decide_eq_false_iff_not]; omega),
        removeFrom_all (h :: rest) B (0 + h.1) (fun k hk => by
          rw [inHole_cons]
          simp only [Bool.or_eq_true, decide_eq_true_eq]; left; omega),
        removeFrom_congr (h :: rest) rest C (0 + h.1 + h.2) (fun k _ => by
          rw [inHole_cons]
          have : decide (h.1 ≤ 0 + h.1 + h.2 + k ∧ 0 + h.1 + h.2 + k < h.1 + h.2) = false := by
            simp only [decide_eq_false_iff_not]; omega
          rw [this, Bool.false_or])]
      simp
    rw [e2, e1]
    rw [List.take_append_of_le_length (by omega), List.take_of_length_le (by omega)]
    rw [← List.append_assoc, List.drop_append_of_le_length (by simp only [List.length_append]; omega),
      List.drop_of_length_le (by simp only [List.length_append]; omega)]
    simp
