import PpciVerif.Proofs.OptWF
/-!
# Proofs.OptWFDel — removing unused value definitions keeps a function well-formed (C03, P part)

`wf_filterInstrs` : filtering the instruction lists of a well-formed function keeps it well-formed when
every removed instruction defines a value that no instruction of the function uses.
`wf_deleteUnused` : the model of `DeleteUnusedInstructionsPass`.

The argument is carried out on the declarative definition `Spec.IRWF.WF` (definition sites are
positions; under `List.filter` position `k` becomes `newIdx k` = number of kept instructions before `k`,
which is strictly monotone on kept positions).  Core Lean only.
-/
namespace Proofs.OptWFDel
open Spec.IR Spec.IRWF Proofs.IRGraph Proofs.IRWF Model.Opt Proofs.OptWF

/-! ## positions under `List.filter` -/

section Filter
variable {α : Type} (K : α → Bool)

/-- position of element `k` of `l` in `l.filter K` (when it is kept) -/
def newIdx (l : List α) (k : Nat) : Nat := ((l.take k).filter K).length

theorem getElem?_filter_newIdx : ∀ (l : List α) (k : Nat) (a : α), l[k]? = some a → K a = true →
    (l.filter K)[newIdx K l k]? = some a := by
  intro l
  induction l with
  | nil => intro k a h; simp at h
  | cons x l ih =>
    intro k a h hk
    cases k with
    | zero =>
      simp at h; subst h
      simp [newIdx, hk]
    | succ k =>
      have h' : l[k]? = some a := by simpa using h
      have := ih k a h' hk
      unfold newIdx at this ⊢
      simp only [List.take_succ_cons, List.filter_cons]
      by_cases hx : K x = true
      · simp only [hx, if_true, List.length_cons, List.getElem?_cons_succ]; exact this
      · simp only [hx]; exact this

theorem exists_of_getElem?_filter : ∀ (l : List α) (k' : Nat) (a : α), (l.filter K)[k']? = some a →
    ∃ k, l[k]? = some a ∧ K a = true ∧ k' = newIdx K l k := by
  intro l
  induction l with
  | nil => intro k' a h; simp at h
  | cons x l ih =>
    intro k' a h
    by_cases hx : K x = true
    · rw [List.filter_cons, if_pos hx] at h
      cases k' with
      | zero =>
        simp at h; subst h
        exact ⟨0, by simp, hx, by simp [newIdx]⟩
      | succ k' =>
        have h' : (l.filter K)[k']? = some a := by simpa using h
        obtain ⟨k, h1, h2, h3⟩ := ih k' a h'
        refine ⟨k + 1, by simpa using h1, h2, ?_⟩
        unfold newIdx at h3 ⊢
        simp only [List.take_succ_cons, List.filter_cons, hx, if_true, List.length_cons]
        omega
    · rw [List.filter_cons, if_neg hx] at h
      obtain ⟨k, h1, h2, h3⟩ := ih k' a h
      refine ⟨k + 1, by simpa using h1, h2, ?_⟩
      unfold newIdx at h3 ⊢
      simp only [List.take_succ_cons, List.filter_cons, hx]
      exact h3

theorem newIdx_lt : ∀ (l : List α) (j k : Nat) (a : α), l[j]? = some a → K a = true → j < k →
    newIdx K l j < newIdx K l k := by
  intro l
  induction l with
  | nil => intro j k a h; simp at h
  | cons x l ih =>
    intro j k a h hk hjk
    cases k with
    | zero => omega
    | succ k =>
      cases j with
      | zero =>
        simp at h; subst h
        simp [newIdx, hk]
      | succ j =>
        have h' : l[j]? = some a := by simpa using h
        have := ih j k a h' hk (by omega)
        unfold newIdx at this ⊢
        simp only [List.take_succ_cons, List.filter_cons]
        by_cases hx : K x = true
        · simp only [hx, if_true, List.length_cons]; omega
        · simp only [hx]; exact this

end Filter

/-! ## filtering the blocks of a function -/

/-- keep instruction `i` of block `b` iff `K b i` -/
def filterInstrs (f : Func) (K : Block → Instr → Bool) : Func :=
  mapBlocks f fun b => { b with instrs := b.instrs.filter (K b) }

/-- every removed instruction defines a value nobody uses (so it is not a terminator) -/
def Removable (f : Func) (K : Block → Instr → Bool) : Prop :=
  ∀ b ∈ f.blocks, ∀ i ∈ b.instrs, K b i = false →
    ∃ d ty, i.dst? = some (d, ty) ∧ ∀ b' ∈ f.blocks, ∀ i' ∈ b'.instrs, Operand.loc d ∉ allOps i'

theorem dst_not_terminator {i : Instr} {p : String × Ty} (h : i.dst? = some p) : i.isTerminator = false := by
  cases i <;> simp [Instr.dst?] at h <;> rfl

section FilterFunc
variable {m : Module} {f : Func} {K : Block → Instr → Bool}

theorem mem_filterInstrs_blocks {b' : Block} :
    b' ∈ (filterInstrs f K).blocks ↔ ∃ b ∈ f.blocks, b' = { b with instrs := b.instrs.filter (K b) } := by
  unfold filterInstrs mapBlocks
  simp only [List.mem_map]
  constructor
  · rintro ⟨b, hb, e⟩; exact ⟨b, hb, e.symm⟩
  · rintro ⟨b, hb, e⟩; exact ⟨b, hb, e.symm⟩

theorem succs_filter (hw : WF m f) (hr : Removable f K) {b : Block} (hb : b ∈ f.blocks) :
    Block.succs { b with instrs := b.instrs.filter (K b) } = b.succs := by
  obtain ⟨init, t, he, ht, _⟩ := hw.terminated b hb
  have hkt : K b t = true := by
    cases hk : K b t with
    | true => rfl
    | false =>
      obtain ⟨d, ty, hd, _⟩ := hr b hb t (by rw [he]; simp) hk
      rw [dst_not_terminator hd] at ht; cases ht
  unfold Block.succs
  simp only [he, List.filter_append, List.filter_cons, hkt, if_true, List.filter_nil,
    List.getLast?_append, List.getLast?_singleton, Option.some_or]

theorem findBlock_filterInstrs (n : String) :
    (filterInstrs f K).findBlock n =
      (f.findBlock n).map (fun b => { b with instrs := b.instrs.filter (K b) }) := by
  unfold Func.findBlock filterInstrs mapBlocks
  simp only [List.find?_map]
  rfl

theorem succOf_filterInstrs (hw : WF m f) (hr : Removable f K) : (filterInstrs f K).succOf = f.succOf := by
  funext n
  unfold Func.succOf
  rw [findBlock_filterInstrs]
  cases hb : f.findBlock n with
  | none => rfl
  | some b =>
    have hbm : b ∈ f.blocks := by unfold Func.findBlock at hb; exact List.mem_of_find?_eq_some hb
    simp [succs_filter hw hr hbm]

theorem path_filterInstrs (hw : WF m f) (hr : Removable f K) (u : String) (l : List String) (v : String) :
    Path (filterInstrs f K) u l v ↔ Path f u l v := by
  unfold Path
  rw [succOf_filterInstrs hw hr]

theorem entry_filterInstrs : (filterInstrs f K).entry = f.entry := rfl

theorem dom_filterInstrs (hw : WF m f) (hr : Removable f K) (d v : String) :
    Dom (filterInstrs f K) d v ↔ Dom f d v := by
  unfold Dom
  simp only [entry_filterInstrs, path_filterInstrs hw hr]

theorem reachable_filterInstrs (hw : WF m f) (hr : Removable f K) (v : String) :
    Reachable (filterInstrs f K) v ↔ Reachable f v := by
  unfold Reachable
  simp only [entry_filterInstrs, path_filterInstrs hw hr]

theorem isPred_filterInstrs (hw : WF m f) (hr : Removable f K) (p n : String) :
    IsPred (filterInstrs f K) p n ↔ IsPred f p n := by
  unfold IsPred
  constructor
  · rintro ⟨b', hb', h1, h2⟩
    obtain ⟨b, hb, e⟩ := mem_filterInstrs_blocks.1 hb'
    subst e
    rw [succs_filter hw hr hb] at h2
    exact ⟨b, hb, h1, h2⟩
  · rintro ⟨b, hb, h1, h2⟩
    refine ⟨_, mem_filterInstrs_blocks.2 ⟨b, hb, rfl⟩, h1, ?_⟩
    rw [succs_filter hw hr hb]; exact h2

/-! ### definitions -/

/-- a definition site of `f` whose instruction is kept is a definition site of the filtered function -/
theorem defSite_filter {x : String} {ty : Ty} {s : Option (String × Nat)} (hd : DefSite f x ty s)
    (hkeep : ∀ b ∈ f.blocks, ∀ i ∈ b.instrs, i.dst? = some (x, ty) → K b i = true) :
    ∃ s', DefSite (filterInstrs f K) x ty s' ∧
      match s, s' with
      | none, none => True
      | some (db, di), some (db', di') => db' = db ∧
          ∃ b ∈ f.blocks, b.name = db ∧ di' = newIdx (K b) b.instrs di
      | _, _ => False := by
  cases hd with
  | param hp => exact ⟨none, DefSite.param hp, trivial⟩
  | @instr b k i hb hk hdst =>
    have hK := hkeep b hb i (List.mem_of_getElem? hk) hdst
    refine ⟨some (b.name, newIdx (K b) b.instrs k), ?_, rfl, b, hb, rfl, rfl⟩
    exact DefSite.instr (b := { b with instrs := b.instrs.filter (K b) })
      (mem_filterInstrs_blocks.2 ⟨b, hb, rfl⟩) (getElem?_filter_newIdx (K b) b.instrs k i hk hK) hdst

/-- the definition of a value that some instruction of `f` uses is never removed -/
theorem used_kept (hr : Removable f K) {x : String} {b : Block} {i : Instr} (hb : b ∈ f.blocks)
    (hi : i ∈ b.instrs) (hu : Operand.loc x ∈ allOps i) {ty : Ty} :
    ∀ b0 ∈ f.blocks, ∀ j ∈ b0.instrs, j.dst? = some (x, ty) → K b0 j = true := by
  intro b0 hb0 j hj hd
  cases hk : K b0 j with
  | true => rfl
  | false =>
    obtain ⟨d, ty', hd', hun⟩ := hr b0 hb0 j hj hk
    rw [hd] at hd'
    simp only [Option.some.injEq, Prod.mk.injEq] at hd'
    obtain ⟨e, _⟩ := hd'
    subst e
    exact absurd hu (hun b hb i hi)

theorem hasTy_filter (hr : Removable f K) {b : Block} {i : Instr} (hb : b ∈ f.blocks) (hi : i ∈ b.instrs)
    (o : Operand) (ho : o ∈ allOps i) (t : Ty) (h : HasTy m f o t) : HasTy m (filterInstrs f K) o t := by
  cases o with
  | glob g => exact h
  | loc x =>
    obtain ⟨s, hs⟩ := h
    obtain ⟨s', hs', _⟩ := defSite_filter (K := K) hs (used_kept hr hb hi ho)
    exact ⟨s', hs'⟩

/-! ### typing only looks at the operands of the instruction -/

theorem argsTyped_mono {f' : Func} : ∀ (args : List Operand) (ps : List Ty),
    (∀ a ∈ args, ∀ t, HasTy m f a t → HasTy m f' a t) → ArgsTyped m f args ps → ArgsTyped m f' args ps := by
  intro args
  induction args with
  | nil => intro ps _ h; cases ps <;> exact h
  | cons a as ih =>
    intro ps hm h
    cases ps with
    | nil => exact h
    | cons p ps =>
      exact ⟨hm a (by simp) p h.1, ih ps (fun a' ha' => hm a' (List.mem_cons_of_mem _ ha')) h.2⟩

theorem callTyped_mono {f' : Func} (callee : Operand) (args : List Operand) (res : Option Ty)
    (hm : ∀ a ∈ callee :: args, ∀ t, HasTy m f a t → HasTy m f' a t) (h : CallTyped m f callee args res) :
    CallTyped m f' callee args res := by
  obtain ⟨h1, h2, h3⟩ := h
  refine ⟨hm callee (by simp) _ h1, ?_, ?_⟩
  · intro a ha
    obtain ⟨t, ht⟩ := h2 a ha
    exact ⟨t, hm a (List.mem_cons_of_mem _ ha) t ht⟩
  · cases callee with
    | loc x => trivial
    | glob g =>
      obtain ⟨ps, r, e1, e2, e3⟩ := h3
      exact ⟨ps, r, e1, e2, argsTyped_mono args ps (fun a ha => hm a (List.mem_cons_of_mem _ ha)) e3⟩

theorem instrTyped_mono {f' : Func} (hret : f'.ret = f.ret) (i : Instr)
    (hm : ∀ o ∈ allOps i, ∀ t, HasTy m f o t → HasTy m f' o t) (h : InstrTyped m f i) : InstrTyped m f' i := by
  cases i with
  | const d ty c => exact h
  | undefined d ty => exact h
  | literal d data => exact h
  | alloc d s a => exact h
  | addrof d src =>
    obtain ⟨s, a, hh⟩ := h
    exact ⟨s, a, hm src (by simp [allOps, Instr.uses]) _ hh⟩
  | binop d ty op a b =>
    exact ⟨h.1, hm a (by simp [allOps, Instr.uses]) _ h.2.1, hm b (by simp [allOps, Instr.uses]) _ h.2.2⟩
  | unop d ty op a => exact ⟨h.1, hm a (by simp [allOps, Instr.uses]) _ h.2⟩
  | cast d ty a =>
    obtain ⟨h1, t, h2, h3⟩ := h
    exact ⟨h1, t, hm a (by simp [allOps, Instr.uses]) _ h2, h3⟩
  | load d ty addr vol => exact ⟨h.1, hm addr (by simp [allOps, Instr.uses]) _ h.2⟩
  | store ty v addr vol =>
    exact ⟨h.1, hm v (by simp [allOps, Instr.uses]) _ h.2.1, hm addr (by simp [allOps, Instr.uses]) _ h.2.2⟩
  | copyblob d s n => exact ⟨hm d (by simp [allOps, Instr.uses]) _ h.1, hm s (by simp [allOps, Instr.uses]) _ h.2⟩
  | phi d ty ins =>
    refine ⟨h.1, fun p hp => hm p.2 ?_ _ (h.2 p hp)⟩
    simp only [allOps, Instr.uses, Instr.phiIns, List.nil_append, List.mem_map]
    exact ⟨p, hp, rfl⟩
  | fcall d ty callee args =>
    exact callTyped_mono callee args _ (fun a ha => hm a (by simpa [allOps, Instr.uses, Instr.phiIns] using ha)) h
  | pcall callee args =>
    exact callTyped_mono callee args _ (fun a ha => hm a (by simpa [allOps, Instr.uses, Instr.phiIns] using ha)) h
  | asm t ins outs cl =>
    intro a ha
    obtain ⟨t, ht⟩ := h a ha
    exact ⟨t, hm a (by simpa [allOps, Instr.uses, Instr.phiIns] using ha) t ht⟩
  | jump t => exact h
  | cjump a c b y n =>
    obtain ⟨t, h1, h2, h3⟩ := h
    exact ⟨t, hm a (by simp [allOps, Instr.uses]) _ h1, hm b (by simp [allOps, Instr.uses]) _ h2, h3⟩
  | ret v =>
    obtain ⟨rt, h1, h2⟩ := h
    exact ⟨rt, by rw [hret]; exact h1, hm v (by simp [allOps, Instr.uses]) _ h2⟩
  | exit => show f'.ret = none; rw [hret]; exact h

/-! ### value names stay distinct -/

theorem blockDefs_names (bn : String) (instrs : List Instr) : ∀ k,
    (blockDefs bn k instrs).map (·.name) = instrs.filterMap dstName := by
  induction instrs with
  | nil => intro k; rfl
  | cons i r ih =>
    intro k
    unfold blockDefs
    cases hd : i.dst? with
    | none => simp [dstName, hd, ih]
    | some p => obtain ⟨x, ty⟩ := p; simp [dstName, hd, ih]

theorem defs_names (g : Func) :
    g.defs.map (·.name) = g.params.map (·.1) ++ g.blocks.flatMap (fun b => b.instrs.filterMap dstName) := by
  unfold Func.defs
  simp only [List.map_append, List.map_map, List.map_flatMap, blockDefs_names]
  rfl

theorem flatMap_sublist {α β : Type} (g g' : α → List β) : ∀ l : List α, (∀ a ∈ l, (g' a).Sublist (g a)) →
    (l.flatMap g').Sublist (l.flatMap g) := by
  intro l
  induction l with
  | nil => intro _; exact List.Sublist.refl _
  | cons a l ih =>
    intro h
    simp only [List.flatMap_cons]
    exact List.Sublist.append (h a (by simp)) (ih fun a' ha' => h a' (List.mem_cons_of_mem _ ha'))

theorem names_filterInstrs (hw : WF m f) : ((filterInstrs f K).defs.map (·.name)).Nodup := by
  have h0 := hw.value_names
  rw [defs_names] at h0 ⊢
  refine List.Nodup.sublist ?_ h0
  refine List.Sublist.append (List.Sublist.refl _) ?_
  unfold filterInstrs mapBlocks
  simp only [List.flatMap_map]
  exact flatMap_sublist _ _ _ fun b _ => List.Sublist.filterMap _ List.filter_sublist

/-! ### the theorem -/

/-- Removing instructions whose values nobody uses keeps a well-formed function well-formed. -/
theorem WF_filterInstrs (hw : WF m f) (hr : Removable f K) : WF m (filterInstrs f K) := by
  have hbn : (filterInstrs f K).blockNames = f.blockNames := by
    simp [Func.blockNames, filterInstrs, mapBlocks, List.map_map, Function.comp_def]
  refine ⟨?_, by rw [hbn]; exact hw.block_names, names_filterInstrs hw, ?_, ?_, ?_, ?_, ?_, ?_⟩
  · obtain ⟨b, rest, e, hn⟩ := hw.entry_first
    exact ⟨{ b with instrs := b.instrs.filter (K b) },
      rest.map (fun b => { b with instrs := b.instrs.filter (K b) }), by simp [filterInstrs, mapBlocks, e], hn⟩
  · -- terminated
    intro b' hb'
    obtain ⟨b, hb, e⟩ := mem_filterInstrs_blocks.1 hb'
    subst e
    obtain ⟨init, t, he, ht, hi⟩ := hw.terminated b hb
    have hkt : K b t = true := by
      cases hk : K b t with
      | true => rfl
      | false =>
        obtain ⟨d, ty, hd, _⟩ := hr b hb t (by rw [he]; simp) hk
        rw [dst_not_terminator hd] at ht; cases ht
    refine ⟨init.filter (K b), t, by simp [he, List.filter_append, hkt], ht, ?_⟩
    intro i hi'
    exact hi i (List.mem_filter.1 hi').1
  · -- targets
    intro b' hb' i hi t ht
    obtain ⟨b, hb, e⟩ := mem_filterInstrs_blocks.1 hb'
    subst e
    obtain ⟨b2, hb2, e2⟩ := hw.targets b hb i (List.mem_filter.1 hi).1 t ht
    exact ⟨_, mem_filterInstrs_blocks.2 ⟨b2, hb2, rfl⟩, e2⟩
  · -- reachable
    intro b' hb'
    obtain ⟨b, hb, e⟩ := mem_filterInstrs_blocks.1 hb'
    subst e
    exact (reachable_filterInstrs hw hr _).2 (hw.reachable b hb)
  · -- phis
    intro b' hb' i hi hphi
    obtain ⟨b, hb, e⟩ := mem_filterInstrs_blocks.1 hb'
    subst e
    obtain ⟨p1, p2⟩ := hw.phis b hb i (List.mem_filter.1 hi).1 hphi
    exact ⟨p1, fun p => by rw [p2 p]; exact (isPred_filterInstrs hw hr p b.name).symm⟩
  · -- typed
    intro b' hb' i hi
    obtain ⟨b, hb, e⟩ := mem_filterInstrs_blocks.1 hb'
    subst e
    have him : i ∈ b.instrs := (List.mem_filter.1 hi).1
    exact instrTyped_mono (m := m) (f := f) (f' := filterInstrs f K) rfl i (fun o ho t ht => hasTy_filter hr hb him o ho t ht) (hw.typed b hb i him)
  · -- dominated
    intro b' hb' k' i hk'
    obtain ⟨b, hb, e⟩ := mem_filterInstrs_blocks.1 hb'
    subst e
    obtain ⟨k, hk, hKi, ek⟩ := exists_of_getElem?_filter (K b) b.instrs k' i hk'
    have him : i ∈ b.instrs := List.mem_of_getElem? hk
    obtain ⟨d1, d2⟩ := hw.dominated b hb k i hk
    constructor
    · intro o ho
      cases o with
      | glob g => trivial
      | loc x =>
        obtain ⟨ty, s, hs, hm⟩ := d1 _ ho
        have hu : Operand.loc x ∈ allOps i := by simp [allOps, ho]
        obtain ⟨s', hs', hrel⟩ := defSite_filter (K := K) hs (used_kept hr hb him hu)
        refine ⟨ty, s', hs', ?_⟩
        cases s with
        | none =>
          cases s' with
          | none => trivial
          | some p => exact False.elim hrel
        | some p =>
          obtain ⟨db, di⟩ := p
          cases s' with
          | none => exact False.elim hrel
          | some p' =>
            obtain ⟨db', di'⟩ := p'
            obtain ⟨e1, bd, hbd, e2, e3⟩ := hrel
            subst e1
            simp only at hm ⊢
            rcases hm with ⟨e, hlt⟩ | ⟨e, hdom⟩
            · left
              refine ⟨e, ?_⟩
              have hbb : bd = b := by
                apply eq_of_name_eq f.blocks hw.block_names bd hbd b hb
                rw [e2, e]
              subst hbb
              -- the defining instruction sits at position `di` of this block and is kept
              cases hs with
              | @instr b0 k0 j hb0 hk0 hdst =>
                have hb0b : b0 = bd := eq_of_name_eq f.blocks hw.block_names b0 hb0 bd hbd (by rw [e2])
                subst hb0b
                have hKj := used_kept hr hb him hu b0 hb0 j (List.mem_of_getElem? hk0) hdst
                rw [e3, ek]
                exact newIdx_lt (K b0) b0.instrs di k j hk0 hKj hlt
            · right
              exact ⟨e, (dom_filterInstrs hw hr db' b.name).2 hdom⟩
    · intro p hp
      cases ho : p.2 with
      | glob g => trivial
      | loc x =>
        have := d2 p hp
        rw [ho] at this
        obtain ⟨ty, s, hs, hm⟩ := this
        have hu : Operand.loc x ∈ allOps i := by
          simp only [allOps, List.mem_append, List.mem_map]
          exact Or.inr ⟨p, hp, ho⟩
        obtain ⟨s', hs', hrel⟩ := defSite_filter (K := K) hs (used_kept hr hb him hu)
        refine ⟨ty, s', hs', ?_⟩
        cases s with
        | none =>
          cases s' with
          | none => trivial
          | some p => exact False.elim hrel
        | some q =>
          obtain ⟨db, di⟩ := q
          cases s' with
          | none => exact False.elim hrel
          | some q' =>
            obtain ⟨db', di'⟩ := q'
            obtain ⟨e1, _⟩ := hrel
            subst e1
            simp only at hm ⊢
            exact (dom_filterInstrs hw hr db' p.1).2 hm

end FilterFunc

/-! ## DeleteUnusedInstructionsPass -/

theorem set_eq_map (g : Block → Block) : ∀ (l : List Block) (bi : Nat) (b : Block),
    (l.map (·.name)).Nodup → l[bi]? = some b →
    l.set bi (g b) = l.map (fun b0 => if b0.name = b.name then g b0 else b0) := by
  intro l
  induction l with
  | nil => intro bi b _ h; simp at h
  | cons x r ih =>
    intro bi b nd h
    simp only [List.map_cons, List.nodup_cons] at nd
    cases bi with
    | zero =>
      simp at h; subst h
      simp only [List.set_cons_zero, List.map_cons, if_true]
      congr 1
      have : ∀ b0 ∈ r, (if b0.name = x.name then g b0 else b0) = b0 := by
        intro b0 hb0
        have : b0.name ≠ x.name := fun e => nd.1 (List.mem_map.2 ⟨b0, hb0, e⟩)
        rw [if_neg this]
      rw [List.map_congr_left this, List.map_id']
    | succ bi =>
      have h' : r[bi]? = some b := by simpa using h
      have hx : x.name ≠ b.name := fun e => nd.1 (List.mem_map.2 ⟨b, List.mem_of_getElem? h', e.symm⟩)
      simp only [List.set_cons_succ, List.map_cons, if_neg hx]
      rw [ih bi b nd.2 h']

/-- which instructions `delUnusedBlock f bi` keeps, for the block `b` at index `bi` -/
def delKeep (f : Func) (b : Block) (b0 : Block) (i : Instr) : Bool :=
  if b0.name = b.name then !isDeadIn f i else true

theorem delUnusedBlock_eq {m : Module} {f : Func} (hw : WF m f) {bi : Nat} {b : Block} (hb : f.blocks[bi]? = some b) :
    delUnusedBlock f bi = filterInstrs f (delKeep f b) := by
  unfold delUnusedBlock
  rw [hb]
  simp only [setBlock, filterInstrs, mapBlocks]
  congr 1
  rw [set_eq_map (fun b0 => { b0 with instrs := b0.instrs.filter fun i => !isDeadIn f i }) f.blocks bi b
    hw.block_names hb]
  apply List.map_congr_left
  intro b0 _
  unfold delKeep
  by_cases e : b0.name = b.name
  · simp only [e, if_true]
  · simp only [e, if_false]
    have : b0.instrs.filter (fun _ => true) = b0.instrs := List.filter_eq_self.2 (fun _ _ => rfl)
    rw [this]

theorem removable_delKeep (f : Func) (b : Block) : Removable f (delKeep f b) := by
  intro b0 _ i _ hk
  unfold delKeep at hk
  by_cases e : b0.name = b.name
  · rw [if_pos e] at hk
    simp only [Bool.not_eq_false'] at hk
    have hdead : ∃ d, dstName i = some d ∧ isUsed f d = false := by
      unfold isDeadIn at hk
      cases hd : dstName i with
      | none => cases i <;> simp_all
      | some d => cases i <;> simp_all
    obtain ⟨d, hd, hu⟩ := hdead
    cases hdst : i.dst? with
    | none => simp [dstName, hdst] at hd
    | some p =>
      obtain ⟨d', ty⟩ := p
      have : d' = d := by simp [dstName, hdst] at hd; exact hd
      subst this
      refine ⟨d', ty, rfl, ?_⟩
      intro b' hb' i' hi' hmem
      unfold isUsed at hu
      have : (f.blocks.any fun b => b.instrs.any fun i => (allOps i).contains (.loc d')) = true := by
        simp only [List.any_eq_true, List.contains_iff_mem]
        exact ⟨b', hb', i', hi', hmem⟩
      rw [this] at hu; cases hu
  · rw [if_neg e] at hk; cases hk

theorem WF_delUnusedBlock {m : Module} {f : Func} (hw : WF m f) (bi : Nat) : WF m (delUnusedBlock f bi) := by
  cases hb : f.blocks[bi]? with
  | none => unfold delUnusedBlock; rw [hb]; exact hw
  | some b => rw [delUnusedBlock_eq hw hb]; exact WF_filterInstrs hw (removable_delKeep f b)

/-- the model of `DeleteUnusedInstructionsPass` keeps every well-formed function well-formed -/
theorem WF_deleteUnused {m : Module} (f : Func) (hw : WF m f) : WF m (deleteUnused f) := by
  unfold deleteUnused
  exact foldl_inv delUnusedBlock (fun f => WF m f) (fun s a hs => WF_delUnusedBlock hs a) _ f hw

theorem wf_deleteUnused {m : Module} (f : Func) (h : wfFunc m f = true) : wfFunc m (deleteUnused f) = true :=
  (wfFunc_iff m _).2 (WF_deleteUnused f ((wfFunc_iff m f).1 h))

theorem sameSig_delUnusedBlock (f : Func) (bi : Nat) : SameSig (delUnusedBlock f bi) f := by
  unfold delUnusedBlock
  cases f.blocks[bi]? with
  | none => exact sameSig_refl f
  | some b => exact ⟨rfl, rfl, rfl⟩

theorem sameSig_deleteUnused (f : Func) : SameSig (deleteUnused f) f := by
  unfold deleteUnused
  exact foldl_inv delUnusedBlock (fun s => SameSig s f)
    (fun s a hs => sameSig_trans (sameSig_delUnusedBlock s a) hs) _ f (sameSig_refl f)

end Proofs.OptWFDel
