import PpciVerif.Proofs.Linker
/-! Helper lemmas for C12: `Image.data`, `layout_sections`. -/
namespace Proofs.Linker
open Model.Linker

/-! ### chains of sections and `Image.data` -/

/-- sections in ascending address order, none starting before the previous one ends -/
def Chain : Nat → List Section → Prop
  | _, [] => True
  | cur, s :: r => cur ≤ s.address ∧ Chain (s.address + s.data.length) r

def chainEnd : Nat → List Section → Nat
  | cur, [] => cur
  | _, s :: r => chainEnd (s.address + s.data.length) r

theorem chain_append_one : ∀ (l : List Section) (cur : Nat) (s : Section),
    Chain cur (l ++ [s]) ↔ Chain cur l ∧ chainEnd cur l ≤ s.address
  | [], cur, s => by simp [Chain, chainEnd]
  | a :: l, cur, s => by
    simp only [List.cons_append, Chain, chainEnd]
    rw [chain_append_one l _ s]
    exact and_assoc.symm

theorem chainEnd_append_one : ∀ (l : List Section) (cur : Nat) (s : Section),
    chainEnd cur (l ++ [s]) = s.address + s.data.length
  | [], cur, s => by simp [chainEnd]
  | a :: l, cur, s => by
    simp only [List.cons_append, chainEnd]
    exact chainEnd_append_one l _ s

theorem chainEnd_ge : ∀ (l : List Section) (cur : Nat), Chain cur l → cur ≤ chainEnd cur l
  | [], cur, _ => Nat.le_refl _
  | a :: l, cur, h => by
    simp only [Chain, chainEnd] at h ⊢
    have := chainEnd_ge l _ h.2
    omega

theorem chain_mem_bounds : ∀ (l : List Section) (cur : Nat), Chain cur l → ∀ s ∈ l,
    cur ≤ s.address ∧ s.address + s.data.length ≤ chainEnd cur l
  | [], _, _, s, hs => by simp at hs
  | a :: l, cur, h, s, hs => by
    simp only [Chain, chainEnd] at h ⊢
    rcases List.mem_cons.1 hs with e | hs
    · subst e; exact ⟨h.1, chainEnd_ge l _ h.2⟩
    · have := chain_mem_bounds l _ h.2 s hs
      omega

theorem chain_pairwise : ∀ (l : List Section) (cur : Nat), Chain cur l →
    l.Pairwise (fun a b => a.address + a.data.length ≤ b.address)
  | [], _, _ => List.Pairwise.nil
  | a :: l, cur, h => by
    simp only [Chain] at h
    refine List.Pairwise.cons (fun b hb => (chain_mem_bounds l _ h.2 b hb).1) (chain_pairwise l _ h.2)

theorem imageDataFrom_error : ∀ (l : List Section) (cur : Nat) (e : Err),
    imageDataFrom cur l = .error e → e = .ValueError
  | [], cur, e, h => by simp [imageDataFrom] at h
  | a :: l, cur, e, h => by
    unfold imageDataFrom at h
    split at h
    · cases h; rfl
    · cases h2 : imageDataFrom (a.address + a.data.length) l with
      | error e' =>
        rw [h2] at h; simp at h; subst h
        exact imageDataFrom_error l _ _ h2
      | ok r => rw [h2] at h; simp at h

/-- `Image.data` succeeds exactly on chains -/
theorem imageDataFrom_ok_iff : ∀ (l : List Section) (cur : Nat),
    (∃ d, imageDataFrom cur l = .ok d) ↔ Chain cur l
  | [], cur => by simp [imageDataFrom, Chain]
  | a :: l, cur => by
    unfold imageDataFrom
    simp only [Chain]
    by_cases h : a.address < cur
    · simp [h]; omega
    · simp only [h, if_false]
      rw [← imageDataFrom_ok_iff l (a.address + a.data.length)]
      constructor
      · rintro ⟨d, hd⟩
        cases h2 : imageDataFrom (a.address + a.data.length) l with
        | error e => rw [h2] at hd; simp at hd
        | ok r => exact ⟨by omega, r, rfl⟩
      · rintro ⟨_, r, hr⟩
        rw [hr]; exact ⟨_, rfl⟩

/-- the bytes `Image.data` returns: total length, and every section stands at `address - base` -/
theorem imageDataFrom_spec : ∀ (l : List Section) (cur : Nat) (d : List Nat),
    imageDataFrom cur l = .ok d →
    d.length = chainEnd cur l - cur ∧ ∀ s ∈ l, Occurs d (s.address - cur) s.data
  | [], cur, d, h => by
    simp [imageDataFrom] at h; subst h; simp [chainEnd]
  | a :: l, cur, d, h => by
    have hc : Chain cur (a :: l) := (imageDataFrom_ok_iff _ _).1 ⟨d, h⟩
    unfold imageDataFrom at h
    simp only [Chain] at hc
    have hlt : ¬ a.address < cur := by omega
    simp only [hlt, if_false] at h
    cases h2 : imageDataFrom (a.address + a.data.length) l with
    | error e => rw [h2] at h; simp at h
    | ok r =>
      rw [h2] at h
      simp only [Except.ok.injEq] at h
      subst h
      have ⟨hlen, hocc⟩ := imageDataFrom_spec l _ r h2
      have hge := chainEnd_ge l _ hc.2
      refine ⟨by simp [chainEnd, zeros, hlen]; omega, fun s hs => ?_⟩
      rcases List.mem_cons.1 hs with e | hs
      · subst e
        exact ⟨zeros (s.address - cur), r, rfl, by simp [zeros]⟩
      · obtain ⟨pre, post, hr, hpre⟩ := hocc s hs
        have hb := (chain_mem_bounds l _ hc.2 s hs).1
        refine ⟨zeros (a.address - cur) ++ a.data ++ pre, post, by simp [hr], ?_⟩
        simp [zeros, hpre]; omega

/-! ### resolving placed names -/

def resolve (secs : List Section) (names : List String) : List Section := names.filterMap (getSec secs)

theorem imageSections_eq (secs : List Section) (img : Image) : imageSections secs img = resolve secs img.sections := rfl

theorem resolve_congr {secs secs' : List Section} {names : List String}
    (h : ∀ n ∈ names, getSec secs' n = getSec secs n) : resolve secs' names = resolve secs names := by
  induction names with
  | nil => rfl
  | cons a l ih =>
    unfold resolve at ih ⊢
    rw [List.filterMap_cons, List.filterMap_cons, h a (by simp), ih (fun n hn => h n (by simp [hn]))]

theorem resolve_append (secs : List Section) (a b : List String) :
    resolve secs (a ++ b) = resolve secs a ++ resolve secs b := by
  simp [resolve, List.filterMap_append]

theorem resolve_single {secs : List Section} {n : String} {s : Section} (h : getSec secs n = some s) :
    resolve secs [n] = [s] := by simp [resolve, h]

theorem resolve_names {secs : List Section} : ∀ {names : List String},
    (∀ n ∈ names, (getSec secs n).isSome) → (resolve secs names).map (·.name) = names
  | [], _ => rfl
  | a :: l, h => by
    have ha := h a (by simp)
    cases hg : getSec secs a with
    | none => rw [hg] at ha; cases ha
    | some s =>
      have := resolve_names (names := l) (fun n hn => h n (by simp [hn]))
      unfold resolve at this ⊢
      rw [List.filterMap_cons, hg]
      simp [this, getSec_some_name hg]

theorem mem_resolve {secs : List Section} {names : List String} {s : Section} (h : s ∈ resolve secs names) :
    ∃ n ∈ names, getSec secs n = some s := by
  unfold resolve at h
  simpa [List.mem_filterMap] using h

/-- data and alignment of existing sections are kept (addresses may change, sections may be added) -/
def Keeps (secs secs' : List Section) : Prop :=
  ∀ (n : String) (s : Section), getSec secs n = some s →
    ∃ s' : Section, getSec secs' n = some s' ∧ s'.data = s.data ∧ s'.alignment = s.alignment

theorem Keeps.refl (secs : List Section) : Keeps secs secs := fun _ s h => ⟨s, h, rfl, rfl⟩

theorem Keeps.trans {a b c : List Section} (h1 : Keeps a b) (h2 : Keeps b c) : Keeps a c := by
  intro n s hs
  obtain ⟨s1, g1, d1, a1⟩ := h1 n s hs
  obtain ⟨s2, g2, d2, a2⟩ := h2 n s1 g1
  exact ⟨s2, g2, d2.trans d1, a2.trans a1⟩

/-! ### one input of a memory -/

open Spec.Link (inputPlaced)

structure LInv (base : Nat) (st : LState) : Prop where
  present : ∀ n ∈ st.placed, (getSec st.secs n).isSome
  chain : Chain base (resolve st.secs st.placed)
  end_le : chainEnd base (resolve st.secs st.placed) ≤ st.cur
  aligned : ∀ s ∈ resolve st.secs st.placed, 0 < s.alignment ∧ s.address % s.alignment = 0

structure LStep (st st' : LState) (i : MemInput) : Prop where
  placed_eq : st'.placed = st.placed ++ inputPlaced i
  frame : ∀ m, m ∉ inputPlaced i → getSec st'.secs m = getSec st.secs m
  keeps : Keeps st.secs st'.secs
  ext : Ext st.syms st'.syms
  idinv : IdInv st'.syms

/-- appending one freshly placed section `x` (called `nn`, not yet present) -/
theorem linv_push {base : Nat} {st : LState} (inv : LInv base st) {secs' : List Section} {x : Section} {nn : String}
    (hx : getSec secs' nn = some x) (hframe : ∀ m, m ≠ nn → getSec secs' m = getSec st.secs m)
    (hfresh : nn ∉ st.placed) (haddr : st.cur ≤ x.address) (hal : 0 < x.alignment ∧ x.address % x.alignment = 0)
    {cur' : Nat} (hcur : x.address + x.data.length ≤ cur') {syms' : List Symbol} :
    LInv base { secs := secs', syms := syms', cur := cur', placed := st.placed ++ [nn] } := by
  have hres : resolve secs' (st.placed ++ [nn]) = resolve st.secs st.placed ++ [x] := by
    rw [resolve_append, resolve_single hx,
      resolve_congr (fun n hn => hframe n (fun e => hfresh (e ▸ hn)))]
  refine ⟨?_, ?_, ?_, ?_⟩
  · intro n hn
    simp only [List.mem_append, List.mem_singleton] at hn
    by_cases e : n = nn
    · subst e; rw [hx]; rfl
    · rcases hn with hn | hn
      · rw [hframe n e]; exact inv.present n hn
      · exact absurd hn e
  · show Chain base (resolve secs' (st.placed ++ [nn]))
    rw [hres, chain_append_one]
    exact ⟨inv.chain, Nat.le_trans inv.end_le haddr⟩
  · show chainEnd base (resolve secs' (st.placed ++ [nn])) ≤ cur'
    rw [hres, chainEnd_append_one]; exact hcur
  · intro s hs
    change s ∈ resolve secs' (st.placed ++ [nn]) at hs
    rw [hres] at hs
    rcases List.mem_append.1 hs with hs | hs
    · exact inv.aligned s hs
    · simp at hs; subst hs; exact hal

theorem getSec_append_one (secs : List Section) (x : Section) (m : String) :
    getSec (secs ++ [x]) m = (getSec secs m).or (if x.name = m then some x else none) := by
  rw [getSec_append, getSec_single]

theorem keeps_append_one (secs : List Section) (x : Section) : Keeps secs (secs ++ [x]) := by
  intro n s hs
  exact ⟨s, by rw [getSec_append_one, hs]; rfl, rfl, rfl⟩

theorem layoutInput_ok {base : Nat} {st st' : LState} {i : MemInput}
    (h : layoutInput st i = .ok st') (hfresh : ∀ n ∈ inputPlaced i, n ∉ st.placed)
    (inv : LInv base st) (hid : IdInv st.syms) : LInv base st' ∧ LStep st st' i := by
  cases i with
  | sect n =>
    simp only [layoutInput] at h
    split at h
    · cases h
    · rename_i hal
      simp only [Except.ok.injEq] at h
      subst h
      have hal' := getD_alignment st.secs n
      have hdat := getD_data st.secs n
      generalize hsec : (getSec st.secs n).getD { name := n } = sec at *
      have hget : getSec (updSec (ensureSec st.secs n) n (setAddress (alignUp st.cur sec.alignment))) n
          = some (setAddress (alignUp st.cur sec.alignment) sec) := by
        rw [getSec_updSec_same _ _ _ (setAddress_name _), getSec_ensureSec]; simp [hsec]
      have hframe : ∀ m, m ≠ n → getSec (updSec (ensureSec st.secs n) n (setAddress (alignUp st.cur sec.alignment))) m
          = getSec st.secs m := by
        intro m hm
        rw [getSec_updSec_other _ _ _ _ (setAddress_name _) hm, getSec_ensureSec]; simp [hm]
      have hpos : 0 < sec.alignment := Nat.pos_of_ne_zero hal
      refine ⟨linv_push inv hget hframe (hfresh n (by simp [inputPlaced])) (alignUp_ge _ _)
        ⟨hpos, alignUp_mod _ _ hpos⟩ (Nat.le_refl _), ⟨rfl, ?_, ?_, Ext.refl _, hid⟩⟩
      · intro m hm
        exact hframe m (by simpa [inputPlaced] using hm)
      · intro m s hs
        by_cases e : m = n
        · subst e
          refine ⟨_, hget, ?_, ?_⟩
          · simp only [setAddress]; rw [← hsec, hs]; rfl
          · simp only [setAddress]; rw [← hsec, hs]; rfl
        · exact ⟨s, by rw [hframe m e]; exact hs, rfl, rfl⟩
  | sectData n =>
    simp only [layoutInput] at h
    split at h
    · cases h
    · rename_i hnot
      split at h
      · cases h
      · rename_i src hsrc
        simp only [Except.ok.injEq] at h
        subst h
        have hnone : getSec st.secs (dollarName n) = none := by
          unfold hasSec at hnot; simpa using hnot
        have hget : getSec (st.secs ++ [{ name := dollarName n, address := st.cur, alignment := 1, data := src.data }])
            (dollarName n) = some { name := dollarName n, address := st.cur, alignment := 1, data := src.data } := by
          rw [getSec_append_one, hnone]; simp
        have hframe : ∀ m, m ≠ dollarName n →
            getSec (st.secs ++ [{ name := dollarName n, address := st.cur, alignment := 1, data := src.data }]) m
            = getSec st.secs m := by
          intro m hm
          have : ¬ dollarName n = m := fun e => hm e.symm
          rw [getSec_append_one]; simp [this]
        have hfr : dollarName n ∉ st.placed := fun hm => by
          have := inv.present _ hm; rw [hnone] at this; cases this
        refine ⟨linv_push inv hget hframe hfr (Nat.le_refl _) ⟨Nat.one_pos, Nat.mod_one _⟩ (Nat.le_refl _),
          ⟨rfl, ?_, keeps_append_one _ _, Ext.refl _, hid⟩⟩
        intro m hm
        exact hframe m (by simpa [inputPlaced] using hm)
  | symDef sname =>
    simp only [layoutInput] at h
    split at h
    · cases h
    · rename_i hnot
      split at h
      · cases h
      · rename_i syms' gid hmg
        simp only [Except.ok.injEq] at h
        subst h
        have hnone : getSec st.secs (dollarName sname) = none := by
          unfold hasSec at hnot; simpa using hnot
        have hget : getSec (st.secs ++ [{ name := dollarName sname, address := st.cur, alignment := 1 }])
            (dollarName sname) = some { name := dollarName sname, address := st.cur, alignment := 1 } := by
          rw [getSec_append_one, hnone]; simp
        have hframe : ∀ m, m ≠ dollarName sname →
            getSec (st.secs ++ [{ name := dollarName sname, address := st.cur, alignment := 1 }]) m
            = getSec st.secs m := by
          intro m hm
          have : ¬ dollarName sname = m := fun e => hm e.symm
          rw [getSec_append_one]; simp [this]
        have hfr : dollarName sname ∉ st.placed := fun hm => by
          have := inv.present _ hm; rw [hnone] at this; cases this
        have ⟨e1, i1, _⟩ := mergeGlobal_spec hmg hid
        refine ⟨linv_push inv hget hframe hfr (Nat.le_refl _) ⟨Nat.one_pos, Nat.mod_one _⟩ (Nat.le_refl _),
          ⟨rfl, ?_, keeps_append_one _ _, e1, i1⟩⟩
        intro m hm
        exact hframe m (by simpa [inputPlaced] using hm)
  | align a =>
    simp only [layoutInput] at h
    split at h
    · cases h
    · simp only [Except.ok.injEq] at h
      subst h
      refine ⟨⟨inv.present, inv.chain, Nat.le_trans inv.end_le (alignUp_ge _ _), inv.aligned⟩,
        ⟨by simp [inputPlaced], fun _ _ => rfl, Keeps.refl _, Ext.refl _, hid⟩⟩

/-! ### all inputs of one memory -/

theorem layoutInputs_cons_inv {st st' : LState} {i : MemInput} {rest : List MemInput}
    (h : layoutInputs st (i :: rest) = .ok st') :
    ∃ st1, layoutInput st i = .ok st1 ∧ layoutInputs st1 rest = .ok st' := by
  unfold layoutInputs at h
  cases h1 : layoutInput st i with
  | error e => simp [h1] at h
  | ok st1 => rw [h1] at h; exact ⟨st1, rfl, h⟩

structure LRun (st st' : LState) (names : List String) : Prop where
  placed_eq : st'.placed = st.placed ++ names
  frame : ∀ m, m ∉ names → getSec st'.secs m = getSec st.secs m
  keeps : Keeps st.secs st'.secs
  ext : Ext st.syms st'.syms
  idinv : IdInv st'.syms

theorem layoutInputs_ok : ∀ {inputs : List MemInput} {base : Nat} {st st' : LState},
    layoutInputs st inputs = .ok st' → (st.placed ++ inputs.flatMap inputPlaced).Nodup →
    LInv base st → IdInv st.syms → LInv base st' ∧ LRun st st' (inputs.flatMap inputPlaced)
  | [], base, st, st', h, _, inv, hid => by
    simp [layoutInputs] at h; subst h
    exact ⟨inv, ⟨by simp, fun _ _ => rfl, Keeps.refl _, Ext.refl _, hid⟩⟩
  | i :: rest, base, st, st', h, hnd, inv, hid => by
    obtain ⟨st1, h1, h2⟩ := layoutInputs_cons_inv h
    simp only [List.flatMap_cons] at hnd ⊢
    have hfresh : ∀ n ∈ inputPlaced i, n ∉ st.placed := by
      intro n hn hp
      have := (List.nodup_append.1 hnd).2.2 n hp n (List.mem_append_left _ hn)
      exact this rfl
    have ⟨inv1, s1⟩ := layoutInput_ok h1 hfresh inv hid
    have hnd1 : (st1.placed ++ rest.flatMap inputPlaced).Nodup := by
      rw [s1.placed_eq, List.append_assoc]; exact hnd
    have ⟨inv2, r2⟩ := layoutInputs_ok (base := base) h2 hnd1 inv1 s1.idinv
    refine ⟨inv2, ⟨?_, ?_, s1.keeps.trans r2.keeps, s1.ext.trans r2.ext, r2.idinv⟩⟩
    · rw [r2.placed_eq, s1.placed_eq, List.append_assoc]
    · intro m hm
      simp only [List.mem_append, not_or] at hm
      rw [r2.frame m hm.2, s1.frame m hm.1]

/-! ### one memory, all memories -/

structure MemOK (secs : List Section) (m : Memory) (img : Image) : Prop where
  name_eq : img.name = m.name
  addr_eq : img.address = m.location
  secs_eq : img.sections = m.inputs.flatMap inputPlaced
  present : (imageSections secs img).map (·.name) = img.sections
  chain : Chain m.location (imageSections secs img)
  fits : chainEnd m.location (imageSections secs img) ≤ m.location + m.size
  aligned : ∀ s ∈ imageSections secs img, 0 < s.alignment ∧ s.address % s.alignment = 0

theorem MemOK.frame {secs secs' : List Section} {m : Memory} {img : Image} (h : MemOK secs m img)
    (hf : ∀ n ∈ img.sections, getSec secs' n = getSec secs n) : MemOK secs' m img := by
  have e : imageSections secs' img = imageSections secs img := by
    rw [imageSections_eq, imageSections_eq]; exact resolve_congr hf
  exact ⟨h.name_eq, h.addr_eq, h.secs_eq, e ▸ h.present, e ▸ h.chain, e ▸ h.fits, e ▸ h.aligned⟩

structure MRun (dst dst' : Obj) (names : List String) : Prop where
  frame : ∀ m, m ∉ names → getSec dst'.sections m = getSec dst.sections m
  keeps : Keeps dst.sections dst'.sections
  ext : Ext dst.symbols dst'.symbols
  idinv : IdInv dst'.symbols
  relocs_eq : dst'.relocs = dst.relocs
  entry_eq : dst'.entry = dst.entry

theorem layoutMemory_ok {dst dst' : Obj} {m : Memory} (h : layoutMemory dst m = .ok dst')
    (hnd : (m.inputs.flatMap inputPlaced).Nodup) (hid : IdInv dst.symbols) :
    ∃ img, dst'.images = dst.images ++ [img] ∧ MemOK dst'.sections m img ∧
      MRun dst dst' (m.inputs.flatMap inputPlaced) := by
  unfold layoutMemory at h
  cases h1 : layoutInputs { secs := dst.sections, syms := dst.symbols, cur := m.location, placed := [] } m.inputs with
  | error e => simp [h1] at h
  | ok st =>
    simp only [h1] at h
    have inv0 : LInv m.location { secs := dst.sections, syms := dst.symbols, cur := m.location, placed := [] } :=
      ⟨by simp, by simp [resolve, Chain], by simp [resolve, chainEnd], by simp [resolve]⟩
    have ⟨inv, run⟩ := layoutInputs_ok h1 (by simpa using hnd) inv0 hid
    have hpl : st.placed = m.inputs.flatMap inputPlaced := by simpa using run.placed_eq
    cases h2 : imageData st.secs { name := m.name, address := m.location, sections := st.placed } with
    | error e => simp [h2] at h
    | ok d =>
      simp only [h2] at h
      split at h
      · cases h
      · rename_i hsz
        simp only [Except.ok.injEq] at h
        subst h
        have ⟨hlen, _⟩ := imageDataFrom_spec _ _ _ h2
        have hge := chainEnd_ge _ _ inv.chain
        refine ⟨_, rfl, ⟨rfl, rfl, hpl, resolve_names inv.present, inv.chain, ?_, inv.aligned⟩,
          ⟨run.frame, run.keeps, run.ext, run.idinv, rfl, rfl⟩⟩
        simp only [imageSections] at hlen ⊢
        change d.length = chainEnd m.location (resolve st.secs st.placed) - m.location at hlen
        change chainEnd m.location (resolve st.secs st.placed) ≤ m.location + m.size
        omega

theorem layoutSections_cons_inv {dst dst' : Obj} {m : Memory} {rest : List Memory}
    (h : layoutSections dst (m :: rest) = .ok dst') :
    ∃ dst1, layoutMemory dst m = .ok dst1 ∧ layoutSections dst1 rest = .ok dst' := by
  unfold layoutSections at h
  cases h1 : layoutMemory dst m with
  | error e => simp [h1] at h
  | ok dst1 => rw [h1] at h; exact ⟨dst1, rfl, h⟩

open Spec.Link (placedNames)

theorem placedNames_cons (m : Memory) (rest : List Memory) :
    placedNames (m :: rest) = m.inputs.flatMap inputPlaced ++ placedNames rest := by
  simp [placedNames]

theorem layoutSections_ok : ∀ {mems : List Memory} {dst dst' : Obj},
    layoutSections dst mems = .ok dst' → (placedNames mems).Nodup → IdInv dst.symbols →
    ∃ imgs, dst'.images = dst.images ++ imgs ∧ All2 (MemOK dst'.sections) mems imgs ∧
      MRun dst dst' (placedNames mems)
  | [], dst, dst', h, _, hid => by
    simp [layoutSections] at h; subst h
    exact ⟨[], by simp, .nil, ⟨fun _ _ => rfl, Keeps.refl _, Ext.refl _, hid, rfl, rfl⟩⟩
  | m :: rest, dst, dst', h, hnd, hid => by
    obtain ⟨dst1, h1, h2⟩ := layoutSections_cons_inv h
    rw [placedNames_cons] at hnd
    have hnd' := List.nodup_append.1 hnd
    obtain ⟨img, himg, ok1, run1⟩ := layoutMemory_ok h1 hnd'.1 hid
    obtain ⟨imgs, himgs, ok2, run2⟩ := layoutSections_ok h2 hnd'.2.1 run1.idinv
    refine ⟨img :: imgs, by rw [himgs, himg]; simp, .cons (ok1.frame ?_) ok2, ⟨?_, run1.keeps.trans run2.keeps,
      run1.ext.trans run2.ext, run2.idinv, run2.relocs_eq.trans run1.relocs_eq, run2.entry_eq.trans run1.entry_eq⟩⟩
    · intro n hn
      rw [ok1.secs_eq] at hn
      exact run2.frame n (fun hp => hnd'.2.2 n hn n hp rfl)
    · intro n hn
      rw [placedNames_cons] at hn
      simp only [List.mem_append, not_or] at hn
      rw [run2.frame n hn.2, run1.frame n hn.1]

/-! ### what every layout keeps (no hypothesis on the layout) -/

structure KRun (secs : List Section) (syms : List Symbol) (secs' : List Section) (syms' : List Symbol) : Prop where
  keeps : Keeps secs secs'
  ext : Ext syms syms'
  idinv : IdInv syms'

theorem layoutInput_keeps {st st' : LState} {i : MemInput} (h : layoutInput st i = .ok st') (hid : IdInv st.syms) :
    KRun st.secs st.syms st'.secs st'.syms := by
  cases i with
  | sect n =>
    simp only [layoutInput] at h
    split at h
    · cases h
    · simp only [Except.ok.injEq] at h
      subst h
      refine ⟨?_, Ext.refl _, hid⟩
      intro m s hs
      by_cases e : m = n
      · subst e
        refine ⟨setAddress (alignUp st.cur ((getSec st.secs m).getD { name := m }).alignment) s, ?_, rfl, rfl⟩
        rw [getSec_updSec_same _ _ _ (setAddress_name _), getSec_ensureSec]; simp [hs]
      · refine ⟨s, ?_, rfl, rfl⟩
        rw [getSec_updSec_other _ _ _ _ (setAddress_name _) e, getSec_ensureSec]; simp [e, hs]
  | sectData n =>
    simp only [layoutInput] at h
    split at h
    · cases h
    · split at h
      · cases h
      · simp only [Except.ok.injEq] at h
        subst h
        exact ⟨keeps_append_one _ _, Ext.refl _, hid⟩
  | symDef sname =>
    simp only [layoutInput] at h
    split at h
    · cases h
    · split at h
      · cases h
      · rename_i syms' gid hmg
        simp only [Except.ok.injEq] at h
        subst h
        have ⟨e1, i1, _⟩ := mergeGlobal_spec hmg hid
        exact ⟨keeps_append_one _ _, e1, i1⟩
  | align a =>
    simp only [layoutInput] at h
    split at h
    · cases h
    · simp only [Except.ok.injEq] at h
      subst h
      exact ⟨Keeps.refl _, Ext.refl _, hid⟩

theorem layoutInputs_keeps : ∀ {inputs : List MemInput} {st st' : LState},
    layoutInputs st inputs = .ok st' → IdInv st.syms → KRun st.secs st.syms st'.secs st'.syms
  | [], st, st', h, hid => by
    simp [layoutInputs] at h; subst h; exact ⟨Keeps.refl _, Ext.refl _, hid⟩
  | i :: rest, st, st', h, hid => by
    obtain ⟨st1, h1, h2⟩ := layoutInputs_cons_inv h
    have k1 := layoutInput_keeps h1 hid
    have k2 := layoutInputs_keeps h2 k1.idinv
    exact ⟨k1.keeps.trans k2.keeps, k1.ext.trans k2.ext, k2.idinv⟩

theorem layoutMemory_keeps {dst dst' : Obj} {m : Memory} (h : layoutMemory dst m = .ok dst') (hid : IdInv dst.symbols) :
    KRun dst.sections dst.symbols dst'.sections dst'.symbols := by
  unfold layoutMemory at h
  cases h1 : layoutInputs { secs := dst.sections, syms := dst.symbols, cur := m.location, placed := [] } m.inputs with
  | error e => simp [h1] at h
  | ok st =>
    simp only [h1] at h
    split at h
    · cases h
    · split at h
      · cases h
      · simp only [Except.ok.injEq] at h
        subst h
        exact layoutInputs_keeps h1 hid

theorem layoutSections_keeps : ∀ {mems : List Memory} {dst dst' : Obj},
    layoutSections dst mems = .ok dst' → IdInv dst.symbols →
    KRun dst.sections dst.symbols dst'.sections dst'.symbols
  | [], dst, dst', h, hid => by
    simp [layoutSections] at h; subst h; exact ⟨Keeps.refl _, Ext.refl _, hid⟩
  | m :: rest, dst, dst', h, hid => by
    obtain ⟨dst1, h1, h2⟩ := layoutSections_cons_inv h
    have k1 := layoutMemory_keeps h1 hid
    have k2 := layoutSections_keeps h2 k1.idinv
    exact ⟨k1.keeps.trans k2.keeps, k1.ext.trans k2.ext, k2.idinv⟩

/-! ### the images list the placed names (any layout) -/

theorem layoutInput_placed {st st' : LState} {i : MemInput} (h : layoutInput st i = .ok st') :
    st'.placed = st.placed ++ inputPlaced i := by
  cases i with
  | sect n =>
    simp only [layoutInput] at h
    split at h
    · cases h
    · simp only [Except.ok.injEq] at h; subst h; rfl
  | sectData n =>
    simp only [layoutInput] at h
    split at h
    · cases h
    · split at h
      · cases h
      · simp only [Except.ok.injEq] at h; subst h; rfl
  | symDef sname =>
    simp only [layoutInput] at h
    split at h
    · cases h
    · split at h
      · cases h
      · simp only [Except.ok.injEq] at h; subst h; rfl
  | align a =>
    simp only [layoutInput] at h
    split at h
    · cases h
    · simp only [Except.ok.injEq] at h; subst h; simp [inputPlaced]

theorem layoutInputs_placed : ∀ {inputs : List MemInput} {st st' : LState},
    layoutInputs st inputs = .ok st' → st'.placed = st.placed ++ inputs.flatMap inputPlaced
  | [], st, st', h => by simp [layoutInputs] at h; subst h; simp
  | i :: rest, st, st', h => by
    obtain ⟨st1, h1, h2⟩ := layoutInputs_cons_inv h
    rw [layoutInputs_placed h2, layoutInput_placed h1]; simp

theorem layoutMemory_imgnames {dst dst' : Obj} {m : Memory} (h : layoutMemory dst m = .ok dst') :
    dst'.images.flatMap (·.sections) = dst.images.flatMap (·.sections) ++ m.inputs.flatMap inputPlaced := by
  unfold layoutMemory at h
  cases h1 : layoutInputs { secs := dst.sections, syms := dst.symbols, cur := m.location, placed := [] } m.inputs with
  | error e => simp [h1] at h
  | ok st =>
    simp only [h1] at h
    split at h
    · cases h
    · split at h
      · cases h
      · simp only [Except.ok.injEq] at h
        subst h
        have := layoutInputs_placed h1
        simp at this
        simp [this]

theorem layoutSections_imgnames : ∀ {mems : List Memory} {dst dst' : Obj}, layoutSections dst mems = .ok dst' →
    dst'.images.flatMap (·.sections) = dst.images.flatMap (·.sections) ++ placedNames mems
  | [], dst, dst', h => by simp [layoutSections] at h; subst h; simp [placedNames]
  | m :: rest, dst, dst', h => by
    obtain ⟨dst1, h1, h2⟩ := layoutSections_cons_inv h
    rw [layoutSections_imgnames h2, layoutMemory_imgnames h1, placedNames_cons, List.append_assoc]

theorem mergeObjects_images : ∀ {objs : List Obj} {dst dst' : Obj} {tr : List ObjTrace},
    mergeObjects dst objs = .ok (dst', tr) → dst'.images = dst.images
  | [], dst, dst', tr, h => by rw [(mergeObjects_nil_inv h).1]
  | o :: rest, dst, dst', tr, h => by
    obtain ⟨dst1, t, ts, h1, h2, _⟩ := mergeObjects_cons_inv h
    rw [mergeObjects_images h2, (injectObject_inv h1).2.2.2.2]

theorem layoutChecked_inv {dst dst' : Obj} {mems : List Memory} (h : layoutChecked dst mems = .ok dst') :
    layoutSections dst mems = .ok dst' ∧ (dst'.images.flatMap (·.sections)).Nodup := by
  unfold layoutChecked at h
  cases h1 : layoutSections dst mems with
  | error e => simp [h1] at h
  | ok d =>
    simp only [h1] at h
    by_cases hn : (d.images.flatMap (·.sections)).Nodup
    · simp only [checkPlacedOnce, hn, if_true, Except.ok.injEq] at h
      subst h
      exact ⟨rfl, hn⟩
    · simp [checkPlacedOnce, hn] at h

/-! ### inversion of `link` -/

theorem initEntry_ok {e : Option String} {d0 : Obj} (h : initEntry e = .ok d0) :
    d0.sections = [] ∧ d0.images = [] ∧ d0.relocs = [] ∧ IdInv d0.symbols := by
  cases e with
  | none => simp [initEntry] at h; subst h; exact ⟨rfl, rfl, rfl, IdInv.nil⟩
  | some n =>
    simp only [initEntry] at h
    cases h1 : injectSymbol [] n .global none none "object" 0 with
    | error e => simp [h1] at h
    | ok p =>
      obtain ⟨syms, id⟩ := p
      simp only [h1, Except.ok.injEq] at h
      subst h
      exact ⟨rfl, rfl, rfl, (injectSymbol_spec h1 IdInv.nil).2.1⟩

theorem addExtras_ok : ∀ {xs : List (String × Nat)} {d d' : Obj}, addExtras d xs = .ok d' → IdInv d.symbols →
    d'.sections = d.sections ∧ d'.images = d.images ∧ d'.relocs = d.relocs ∧ IdInv d'.symbols ∧ Ext d.symbols d'.symbols
  | [], d, d', h, hid => by
    simp [addExtras] at h; subst h; exact ⟨rfl, rfl, rfl, hid, Ext.refl _⟩
  | (n, v) :: rest, d, d', h, hid => by
    simp only [addExtras] at h
    cases h1 : injectSymbol d.symbols n .global none (some v) "object" 0 with
    | error e => simp [h1] at h
    | ok p =>
      obtain ⟨syms, id⟩ := p
      simp only [h1] at h
      have ⟨e1, i1, _⟩ := injectSymbol_spec h1 hid
      have ⟨a, b, c, i2, e2⟩ := addExtras_ok h i1
      exact ⟨a, b, c, i2, e1.trans e2⟩

open Spec.Link (memories)

structure LinkInv (inp : LinkInput) (out : Obj) (tr : List ObjTrace) (d1 d2 : Obj) : Prop where
  init : ∃ d0, initEntry (entryName inp) = .ok d0 ∧ addExtras d0 inp.extras = .ok d1
  d1_secs : d1.sections = []
  d1_imgs : d1.images = []
  d1_idinv : IdInv d1.symbols
  merge : mergeObjects d1 inp.objs = .ok (d2, tr)
  layout : layoutSections d2 (memories inp) = .ok out
  placed_once : (placedNames (memories inp)).Nodup
  undef : inp.partialLink = false → hasUndefined out.symbols = false
  nonempty : inp.objs ≠ []
  no_partial_layout : ¬ (inp.partialLink = true ∧ inp.layout.isSome = true)

theorem linkT_inv {inp : LinkInput} {out : Obj} {tr : List ObjTrace} (h : linkT inp = .ok (out, tr)) :
    ∃ d1 d2, LinkInv inp out tr d1 d2 := by
  unfold linkT at h
  split at h
  · cases h
  · rename_i hne
    cases h0 : initEntry (entryName inp) with
    | error e => simp [h0] at h
    | ok d0 =>
      simp only [h0] at h
      cases h1 : addExtras d0 inp.extras with
      | error e => simp [h1] at h
      | ok d1 =>
        simp only [h1] at h
        cases h2 : mergeObjects d1 inp.objs with
        | error e => simp [h2] at h
        | ok p =>
          obtain ⟨d2, tr2⟩ := p
          simp only [h2] at h
          have ⟨s0, i0, _, id0⟩ := initEntry_ok h0
          have ⟨s1, i1, _, id1, _⟩ := addExtras_ok h1 id0
          have hne' : inp.objs ≠ [] := by
            intro e; rw [e] at hne; simp at hne
          by_cases hp : inp.partialLink = true
          · simp only [hp, if_true] at h
            split at h
            · cases h
            · rename_i hl
              simp only [Except.ok.injEq, Prod.mk.injEq] at h
              obtain ⟨e1, e2⟩ := h
              subst e1; subst e2
              have hm : memories inp = [] := by
                unfold memories; cases inp.layout <;> simp [hp]
              refine ⟨d1, d2, ⟨⟨d0, h0, h1⟩, s1.trans s0, i1.trans i0, id1, h2, ?_, ?_, ?_, hne', ?_⟩⟩
              · rw [hm]; rfl
              · rw [hm]; simp [placedNames]
              · intro hf; rw [hp] at hf; cases hf
              · intro hc; exact hl hc.2
          · have hp' : inp.partialLink = false := by simpa using hp
            simp only [hp'] at h
            simp only [Bool.false_eq_true, if_false] at h
            cases hl : inp.layout with
            | none =>
              simp only [hl] at h
              cases hu : checkUndefined d2 with
              | error e => simp [hu] at h
              | ok u =>
                simp only [hu, Except.ok.injEq, Prod.mk.injEq] at h
                obtain ⟨e1, e2⟩ := h
                subst e1; subst e2
                have hm : memories inp = [] := by unfold memories; simp [hl]
                refine ⟨d1, d2, ⟨⟨d0, h0, h1⟩, s1.trans s0, i1.trans i0, id1, h2, ?_, ?_, ?_, hne', ?_⟩⟩
                · rw [hm]; rfl
                · rw [hm]; simp [placedNames]
                · intro _
                  unfold checkUndefined at hu
                  split at hu
                  · cases hu
                  · rename_i hh; simpa using hh
                · intro hc; rw [hp'] at hc; cases hc.1
            | some l =>
              simp only [hl] at h
              cases h3c : layoutChecked d2 l.memories with
              | error e => simp [h3c] at h
              | ok d3 =>
                simp only [h3c] at h
                have ⟨h3, hnd3⟩ := layoutChecked_inv h3c
                cases hu : checkUndefined d3 with
                | error e => simp [hu] at h
                | ok u =>
                  simp only [hu, Except.ok.injEq, Prod.mk.injEq] at h
                  obtain ⟨e1, e2⟩ := h
                  subst e1; subst e2
                  have hm : memories inp = l.memories := by unfold memories; simp [hl, hp']
                  refine ⟨d1, d2, ⟨⟨d0, h0, h1⟩, s1.trans s0, i1.trans i0, id1, h2, ?_, ?_, ?_, hne', ?_⟩⟩
                  · rw [hm]; exact h3
                  · rw [hm]
                    rw [layoutSections_imgnames h3, mergeObjects_images h2, i1.trans i0] at hnd3
                    simpa using hnd3
                  · intro _
                    unfold checkUndefined at hu
                    split at hu
                    · cases hu
                    · rename_i hh; simpa using hh
                  · intro hc; rw [hp'] at hc; cases hc.1

/-! ### records enumerate the input sections; `section_offsets` lookups -/

theorem recsOf_pieces : ∀ {ss : List Section} {offs : List (String × Nat)}, offs.length = ss.length →
    (recsOf ss offs).map (·.piece) = ss ∧ (recsOf ss offs).map (·.off) = offs.map (·.2)
  | [], [], _ => by simp [recsOf]
  | [], _ :: _, h => by simp at h
  | _ :: _, [], h => by simp at h
  | s :: ss, p :: ps, h => by
    have := recsOf_pieces (ss := ss) (offs := ps) (by simpa using h)
    simp [recsOf, this.1, this.2]

theorem traceRecs_pieces : ∀ {objs : List Obj} {tr : List ObjTrace}, All2 TraceShape objs tr →
    (traceRecs objs tr).map (·.piece) = objs.flatMap (·.sections) ∧
    (traceRecs objs tr).map (·.off) = tr.flatMap (fun t => t.offsets.map (·.2))
  | [], [], _ => by simp [traceRecs]
  | o :: os, t :: ts, h => by
    cases h with
    | cons h1 h2 =>
      have hl : t.offsets.length = o.sections.length := by
        have := congrArg List.length h1.1; simpa using this
      have a := recsOf_pieces hl
      have b := traceRecs_pieces h2
      simp [traceRecs, a.1, a.2, b.1, b.2]

theorem find_unique_key : ∀ (l : List (String × Nat)) (p : String × Nat), (l.map (·.1)).Nodup → p ∈ l →
    l.find? (fun q => q.1 == p.1) = some p
  | [], p, _, h => by simp at h
  | a :: l, p, hnd, h => by
    simp only [List.map_cons, List.nodup_cons] at hnd
    rw [List.find?_cons]
    rcases List.mem_cons.1 h with e | h
    · subst e; simp
    · have hne : (a.1 == p.1) = false := by
        simp only [beq_eq_false_iff_ne, ne_eq]
        intro e
        exact hnd.1 (by rw [e]; exact List.mem_map_of_mem h)
      rw [hne]; exact find_unique_key l p hnd.2 h

theorem nodup_reverse' {α : Type} {l : List α} (h : l.Nodup) : l.reverse.Nodup := by
  unfold List.Nodup at *; rw [List.pairwise_reverse]; exact h.imp (fun h => Ne.symm h)

theorem dictGet_of_mem {d : List (String × Nat)} {p : String × Nat} (hnd : (d.map (·.1)).Nodup) (h : p ∈ d) :
    dictGet d p.1 = some p.2 := by
  unfold dictGet
  rw [find_unique_key d.reverse p (by rw [List.map_reverse]; exact nodup_reverse' hnd) (List.mem_reverse.2 h)]

theorem recsOf_mem : ∀ {ss : List Section} {offs : List (String × Nat)}, offs.map (·.1) = ss.map (·.name) →
    ∀ r ∈ recsOf ss offs, (r.piece.name, r.off) ∈ offs ∧ r.piece ∈ ss
  | [], [], _, r, hr => by simp [recsOf] at hr
  | [], _ :: _, h, _, _ => by simp at h
  | _ :: _, [], h, _, _ => by simp at h
  | s :: ss, p :: ps, h, r, hr => by
    simp only [List.map_cons, List.cons.injEq] at h
    simp only [recsOf, List.mem_cons] at hr
    rcases hr with e | hr
    · subst e; simp only; rw [← h.1]; simp
    · have := recsOf_mem h.2 r hr
      exact ⟨List.mem_cons_of_mem _ this.1, List.mem_cons_of_mem _ this.2⟩

/-- with distinct section names inside the object, `section_offsets[name]` is the recorded offset of that piece -/
theorem dictGet_recsOf {ss : List Section} {offs : List (String × Nat)} (hn : offs.map (·.1) = ss.map (·.name))
    (hnd : (ss.map (·.name)).Nodup) : ∀ r ∈ recsOf ss offs, dictGet offs r.piece.name = some r.off := by
  intro r hr
  exact dictGet_of_mem (p := (r.piece.name, r.off)) (hn ▸ hnd) (recsOf_mem hn r hr).1

theorem dictGet_some_mem {d : List (String × Nat)} {k : String} {o : Nat} (h : dictGet d k = some o) :
    (k, o) ∈ d := by
  unfold dictGet at h
  cases hf : d.reverse.find? (fun p => p.1 == k) with
  | none => rw [hf] at h; cases h
  | some p =>
    rw [hf] at h
    simp only [Option.some.injEq] at h
    have h1 := List.find?_some hf
    have h2 := List.mem_reverse.1 (List.mem_of_find?_eq_some hf)
    simp at h1
    rw [← h1, ← h]; exact h2

/-! ### powers of two -/

def IsPow2 (a : Nat) : Prop := ∃ k, a = 2 ^ k

theorem pow2_dvd_of_le {a b : Nat} (ha : IsPow2 a) (hb : IsPow2 b) (h : a ≤ b) : a ∣ b := by
  obtain ⟨k, rfl⟩ := ha
  obtain ⟨l, rfl⟩ := hb
  exact Nat.pow_dvd_pow 2 ((Nat.pow_le_pow_iff_right (by decide)).1 h)

/-- the alignment of an output section is a multiple of the alignment of each of its pieces,
    provided all pieces of that section have power-of-two alignments -/
theorem Good.piece_dvd {secs : List Section} {recs : List Rec} (g : Good secs recs) {r : Rec} (hr : r ∈ recs)
    (hp : ∀ r' ∈ recs, r'.piece.name = r.piece.name → IsPow2 r'.piece.alignment) :
    r.piece.alignment ∣ alignOf secs r.piece.name := by
  refine pow2_dvd_of_le (hp r hr rfl) ?_ (g.align_le r hr)
  rcases g.align_src r.piece.name with h4 | ⟨r', hr', hn, ha⟩
  · rw [h4]; exact ⟨2, rfl⟩
  · rw [ha]; exact hp r' hr' hn

/-! ### assembling the facts about a successful link -/

structure LinkFacts (inp : LinkInput) (out : Obj) (tr : List ObjTrace) (merged : List Section) : Prop where
  shape : All2 TraceShape inp.objs tr
  good : Good merged (traceRecs inp.objs tr)
  keeps : Keeps merged out.sections
  idinv : IdInv out.symbols
  syms : ∀ p ∈ inp.objs.zip tr, ∀ q ∈ p.1.symbols.zip p.2.symIds, SymOK out.symbols p.2.offsets q.1 q.2

theorem link_facts {inp : LinkInput} {out : Obj} {tr : List ObjTrace} {d1 d2 : Obj}
    (li : LinkInv inp out tr d1 d2) : LinkFacts inp out tr d2.sections := by
  have g := mergeObjects_good li.merge (recs := []) (by rw [li.d1_secs]; exact Good.nil)
  have ⟨_, i2, ok2⟩ := mergeObjects_syms li.merge li.d1_idinv
  have k := layoutSections_keeps li.layout i2
  exact ⟨mergeObjects_shape li.merge, by simpa using g, k.keeps, k.idinv,
    fun p hp q hq => (ok2 p hp q hq).ext k.ext⟩

theorem Keeps.dataOf {secs secs' : List Section} (k : Keeps secs secs') {n : String}
    (h : (getSec secs n).isSome) : dataOf secs' n = dataOf secs n ∧ alignOf secs' n = alignOf secs n ∧
      (getSec secs' n).isSome := by
  cases hg : getSec secs n with
  | none => rw [hg] at h; cases h
  | some s =>
    obtain ⟨s', hs', hd, ha⟩ := k n s hg
    exact ⟨by rw [dataOf_of_get hs', dataOf_of_get hg, hd], by rw [alignOf_of_get hs', alignOf_of_get hg, ha],
      by rw [hs']; rfl⟩

theorem All2.mem_right {α β : Type} {R : α → β → Prop} {as : List α} {bs : List β} (h : All2 R as bs) :
    ∀ b ∈ bs, ∃ a ∈ as, R a b := by
  induction h with
  | nil => simp
  | cons hr _ ih =>
    intro b hb
    rcases List.mem_cons.1 hb with e | hb
    · subst e; exact ⟨_, by simp, hr⟩
    · obtain ⟨a, ha, r⟩ := ih b hb
      exact ⟨a, by simp [ha], r⟩

/-- the images of a successful link are exactly one `MemOK` image per memory of the layout -/
theorem link_images {inp : LinkInput} {out : Obj} {tr : List ObjTrace} {d1 d2 : Obj}
    (li : LinkInv inp out tr d1 d2) :
    All2 (MemOK out.sections) (memories inp) out.images := by
  have ⟨_, i2, _⟩ := mergeObjects_syms li.merge li.d1_idinv
  obtain ⟨imgs, himgs, hall, _⟩ := layoutSections_ok li.layout li.placed_once i2
  rw [himgs, mergeObjects_images li.merge, li.d1_imgs, List.nil_append]
  exact hall

/-! ### symbols defined by the layout (DEFINESYMBOL) -/

/-- the global `s` is defined with value 0 in its marker section `_$s_`, which exists -/
def SymDefOK (secs : List Section) (syms : List Symbol) (s : String) : Prop :=
  (∃ id, SymAt syms id s .global (some 0) (some (dollarName s))) ∧ (getSec secs (dollarName s)).isSome = true

theorem SymDefOK.mono {secs secs' : List Section} {syms syms' : List Symbol} {s : String}
    (h : SymDefOK secs syms s) (k : KRun secs syms secs' syms') : SymDefOK secs' syms' s := by
  obtain ⟨⟨id, a⟩, hs⟩ := h
  refine ⟨⟨id, a.ext k.ext⟩, ?_⟩
  cases hg : getSec secs (dollarName s) with
  | none => rw [hg] at hs; cases hs
  | some x =>
    obtain ⟨x', hx', _, _⟩ := k.keeps _ x hg
    rw [hx']; rfl

theorem layoutInput_symdef {st st' : LState} {s : String} (h : layoutInput st (.symDef s) = .ok st')
    (hid : IdInv st.syms) : SymDefOK st'.secs st'.syms s := by
  simp only [layoutInput] at h
  split at h
  · cases h
  · split at h
    · cases h
    · rename_i syms' gid hmg
      simp only [Except.ok.injEq] at h
      subst h
      have ⟨_, _, a⟩ := mergeGlobal_spec hmg hid
      refine ⟨⟨gid, a⟩, ?_⟩
      simp only
      rw [getSec_append_one]
      cases getSec st.secs (dollarName s) <;> simp

theorem layoutInputs_symdef : ∀ {inputs : List MemInput} {st st' : LState},
    layoutInputs st inputs = .ok st' → IdInv st.syms →
    ∀ s, MemInput.symDef s ∈ inputs → SymDefOK st'.secs st'.syms s
  | [], _, _, _, _, s, hs => by simp at hs
  | i :: rest, st, st', h, hid, s, hs => by
    obtain ⟨st1, h1, h2⟩ := layoutInputs_cons_inv h
    have k1 := layoutInput_keeps h1 hid
    rcases List.mem_cons.1 hs with e | hs
    · subst e
      exact (layoutInput_symdef h1 hid).mono (layoutInputs_keeps h2 k1.idinv)
    · exact layoutInputs_symdef h2 k1.idinv s hs

theorem layoutMemory_symdef {dst dst' : Obj} {m : Memory} (h : layoutMemory dst m = .ok dst')
    (hid : IdInv dst.symbols) : ∀ s, MemInput.symDef s ∈ m.inputs → SymDefOK dst'.sections dst'.symbols s := by
  unfold layoutMemory at h
  cases h1 : layoutInputs { secs := dst.sections, syms := dst.symbols, cur := m.location, placed := [] } m.inputs with
  | error e => simp [h1] at h
  | ok st =>
    simp only [h1] at h
    split at h
    · cases h
    · split at h
      · cases h
      · simp only [Except.ok.injEq] at h
        subst h
        exact layoutInputs_symdef h1 hid

theorem layoutSections_symdef : ∀ {mems : List Memory} {dst dst' : Obj},
    layoutSections dst mems = .ok dst' → IdInv dst.symbols →
    ∀ m ∈ mems, ∀ s, MemInput.symDef s ∈ m.inputs → SymDefOK dst'.sections dst'.symbols s
  | [], _, _, _, _, m, hm => by simp at hm
  | m0 :: rest, dst, dst', h, hid, m, hm => by
    obtain ⟨dst1, h1, h2⟩ := layoutSections_cons_inv h
    have k1 := layoutMemory_keeps h1 hid
    intro s hs
    rcases List.mem_cons.1 hm with e | hm
    · subst e
      exact (layoutMemory_symdef h1 hid s hs).mono (layoutSections_keeps h2 k1.idinv)
    · exact layoutSections_symdef h2 k1.idinv m hm s hs

end Proofs.Linker
