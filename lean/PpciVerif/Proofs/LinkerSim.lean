import PpciVerif.Proofs.LinkerFail
/-! Helper lemmas for C12: the model's sections and layout are simulated by the abstract
(alignment, size) environment and placement of `Spec.Link`. -/
namespace Proofs.Linker
open Model.Linker
open Spec.Link (Env envGet envSet envAddPiece envOfPieces PState placeInput placeInputs placeMemory placeLayout
  MemPlan inputPlaced inputSymDef memDefs placedNames)

/-! ### environments -/

def secView (s : Section) : Nat × Nat := (s.alignment, s.data.length)

/-- the environment records alignment and size of exactly the present sections -/
def SimEnv (secs : List Section) (env : Env) : Prop :=
  ∀ n, envGet env n = (getSec secs n).map secView

theorem envGet_cons (p : String × Nat × Nat) (env : Env) (m : String) :
    envGet (p :: env) m = if p.1 = m then some p.2 else envGet env m := by
  unfold envGet
  rw [List.find?_cons]
  by_cases h : p.1 = m
  · have : (p.1 == m) = true := by simp [h]
    rw [this]; simp [h]
  · have : (p.1 == m) = false := by simp [h]
    rw [this]; simp [h]

theorem envGet_nil (m : String) : envGet [] m = none := rfl

theorem envGet_append_one (env : Env) (k : String) (v : Nat × Nat) (m : String) :
    envGet (env ++ [(k, v)]) m = (envGet env m).or (if k = m then some v else none) := by
  induction env with
  | nil => simp [envGet_cons, envGet_nil]
  | cons p rest ih =>
    rw [List.cons_append, envGet_cons, envGet_cons, ih]
    by_cases h : p.1 = m <;> simp [h]

theorem envGet_map_set (env : Env) (n : String) (v : Nat × Nat) (m : String) :
    envGet (env.map (fun p => if p.1 == n then (n, v) else p)) m =
      if m = n then (envGet env n).map (fun _ => v) else envGet env m := by
  induction env with
  | nil => simp [envGet_nil]
  | cons p rest ih =>
    simp only [List.map_cons, envGet_cons, ih]
    by_cases hpn : p.1 = n
    · by_cases hmn : m = n
      · simp [hpn, hmn]
      · have : ¬ n = m := fun e => hmn e.symm
        simp [hpn, hmn, this]
    · by_cases hmn : m = n
      · have : ¬ p.1 = m := by rw [hmn]; exact hpn
        simp [hpn, hmn]
      · simp [hpn, hmn]

theorem envGet_envSet (env : Env) (n : String) (v : Nat × Nat) (m : String) :
    envGet (envSet env n v) m = if m = n then some v else envGet env m := by
  unfold envSet
  cases h : envGet env n with
  | none =>
    simp only [Option.isSome_none, Bool.false_eq_true, if_false]
    rw [envGet_append_one]
    by_cases hmn : m = n
    · subst hmn; simp [h]
    · have : ¬ n = m := fun e => hmn e.symm
      simp [hmn, this]
  | some w =>
    simp only [Option.isSome_some, if_true]
    rw [envGet_map_set]
    by_cases hmn : m = n
    · subst hmn; simp [h]
    · simp [hmn]

theorem SimEnv.nil : SimEnv [] [] := fun _ => rfl

theorem SimEnv.append_one {secs : List Section} {env : Env} (h : SimEnv secs env) (x : Section) :
    SimEnv (secs ++ [x]) (env ++ [(x.name, x.alignment, x.data.length)]) := by
  intro m
  rw [envGet_append_one, getSec_append_one, h m]
  cases getSec secs m with
  | some s => simp
  | none =>
    by_cases e : x.name = m <;> simp [e, secView]

theorem SimEnv.injectSection {secs : List Section} {env : Env} (h : SimEnv secs env) {inp : Section}
    {secs' : List Section} {off : Nat} (hi : injectSection secs inp = .ok (secs', off)) :
    SimEnv secs' (envAddPiece env inp.name inp.alignment inp.data.length) := by
  have st := injectSection_ok hi
  intro m
  unfold envAddPiece
  have hold : (envGet env inp.name).getD (4, 0) = (alignOf secs inp.name, (dataOf secs inp.name).length) := by
    rw [h inp.name]; unfold alignOf dataOf
    cases getSec secs inp.name <;> simp [secView]
  rw [hold]
  simp only
  rw [envGet_envSet]
  by_cases hm : m = inp.name
  · subst hm
    simp only [if_true]
    cases hg : getSec secs' inp.name with
    | none => have := st.present; rw [hg] at this; cases this
    | some s' =>
      have hd := st.data_eq; have ha := st.align_eq
      rw [dataOf_of_get hg] at hd
      rw [alignOf_of_get hg] at ha
      simp only [Option.map_some, secView, ha, hd, alignUp, zeros, List.length_append, List.length_replicate]
  · rw [if_neg hm, st.other m hm, h m]

theorem envOfPieces_append : ∀ (a b : List Section) (env : Env),
    envOfPieces env (a ++ b) = envOfPieces (envOfPieces env a) b
  | [], b, env => rfl
  | p :: a, b, env => by simp only [List.cons_append, envOfPieces]; exact envOfPieces_append a b _

theorem SimEnv.injectSections : ∀ {inps : List Section} {secs : List Section} {env : Env} {secs' : List Section}
    {offs : List (String × Nat)}, SimEnv secs env → injectSections secs inps = .ok (secs', offs) →
    SimEnv secs' (envOfPieces env inps)
  | [], secs, env, secs', offs, h, hi => by
    simp [Model.Linker.injectSections] at hi; rw [← hi.1]; exact h
  | inp :: rest, secs, env, secs', offs, h, hi => by
    obtain ⟨secs1, off, offs2, h1, h2, _⟩ := injectSections_cons_inv hi
    exact SimEnv.injectSections (inps := rest) (h.injectSection h1) h2

theorem SimEnv.mergeObjects : ∀ {objs : List Obj} {dst dst' : Obj} {tr : List ObjTrace} {env : Env},
    SimEnv dst.sections env → mergeObjects dst objs = .ok (dst', tr) →
    SimEnv dst'.sections (envOfPieces env (objs.flatMap (·.sections)))
  | [], dst, dst', tr, env, h, hm => by
    rw [(mergeObjects_nil_inv hm).1]; exact h
  | o :: rest, dst, dst', tr, env, h, hm => by
    obtain ⟨dst1, t, ts, h1, h2, _⟩ := mergeObjects_cons_inv hm
    rw [List.flatMap_cons, envOfPieces_append]
    exact SimEnv.mergeObjects (h.injectSections (injectObject_inv h1).1) h2

/-! ### one layout input: model step vs abstract step -/

structure LSim (base : Nat) (st : LState) (pst : PState) : Prop where
  env : SimEnv st.secs pst.env
  cur : st.cur = pst.cur
  last : pst.last = chainEnd base (resolve st.secs st.placed)

theorem resolve_push {secs secs' : List Section} {placed : List String} {x : Section} {nn : String}
    (hx : getSec secs' nn = some x) (hframe : ∀ m, m ≠ nn → getSec secs' m = getSec secs m)
    (hfresh : nn ∉ placed) : resolve secs' (placed ++ [nn]) = resolve secs placed ++ [x] := by
  rw [resolve_append, resolve_single hx, resolve_congr (fun n hn => hframe n (fun e => hfresh (e ▸ hn)))]

theorem simEnv_isSome {secs : List Section} {env : Env} (h : SimEnv secs env) (n : String) :
    (envGet env n).isSome = hasSec secs n := by
  unfold hasSec; rw [h n]; cases getSec secs n <;> rfl

def symDefList (i : MemInput) : List String := (inputSymDef i).toList

theorem layoutInput_sim {base : Nat} {st : LState} {pst pst' : PState} {i : MemInput} {G D : List String}
    (sim : LSim base st pst) (tab : Tab st.syms G D) (hp : placeInput pst i = some pst') :
    (¬ Fresh D (symDefList i) → layoutInput st i = .error .CompilerError) ∧
    (Fresh D (symDefList i) → ∃ st', layoutInput st i = .ok st' ∧ LSim base st' pst' ∧
      Tab st'.syms (G ++ symDefList i) (D ++ symDefList i)) := by
  cases i with
  | sect n =>
    have hF : Fresh D (symDefList (.sect n)) := ⟨by simp [symDefList, inputSymDef], by simp [symDefList, inputSymDef]⟩
    refine ⟨fun h => absurd hF h, fun _ => ?_⟩
    have hview : (envGet pst.env n).getD (4, 0) =
        (((getSec st.secs n).getD { name := n }).alignment, ((getSec st.secs n).getD { name := n }).data.length) := by
      rw [sim.env n]; cases getSec st.secs n <;> simp [secView]
    simp only [placeInput, hview] at hp
    generalize hsec : (getSec st.secs n).getD { name := n } = sec at *
    split at hp
    · cases hp
    · rename_i hal
      simp only [Option.some.injEq] at hp
      subst hp
      have hget : getSec (updSec (ensureSec st.secs n) n (setAddress (alignUp st.cur sec.alignment))) n
          = some (setAddress (alignUp st.cur sec.alignment) sec) := by
        rw [getSec_updSec_same _ _ _ (setAddress_name _), getSec_ensureSec]; simp [hsec]
      have hframe : ∀ m, m ≠ n → getSec (updSec (ensureSec st.secs n) n (setAddress (alignUp st.cur sec.alignment))) m
          = getSec st.secs m := by
        intro m hm
        rw [getSec_updSec_other _ _ _ _ (setAddress_name _) hm, getSec_ensureSec]; simp [hm]
      refine ⟨LState.mk (updSec (ensureSec st.secs n) n (setAddress (alignUp st.cur sec.alignment))) st.syms
          (alignUp st.cur sec.alignment + sec.data.length) (st.placed ++ [n]),
        by simp only [layoutInput, hsec, hal, if_false], ⟨?_, ?_, ?_⟩,
        tab.congr (by simp [symDefList, inputSymDef]) (by simp [symDefList, inputSymDef])⟩
      · intro m
        simp only
        by_cases hm : m = n
        · subst hm
          rw [hget]
          cases hg : getSec st.secs m with
          | none =>
            have : (envGet pst.env m).isSome = false := by rw [sim.env m, hg]; rfl
            simp only [this, Bool.false_eq_true, if_false]
            rw [envGet_append_one, sim.env m, hg]
            rw [hg] at hsec
            simp [← hsec, secView, setAddress]
          | some s =>
            have : (envGet pst.env m).isSome = true := by rw [sim.env m, hg]; rfl
            simp only [this, if_true]
            rw [sim.env m, hg]
            rw [hg] at hsec
            simp [← hsec, secView, setAddress]
        · rw [hframe m hm]
          have : envGet (if (envGet pst.env n).isSome = true then pst.env else pst.env ++ [(n, 4, 0)]) m
              = envGet pst.env m := by
            split
            · rfl
            · have hne : ¬ n = m := fun e => hm e.symm
              rw [envGet_append_one]; simp [hne]
          rw [this, sim.env m]
      · simp only [sim.cur]
      · simp only
        rw [resolve_append, resolve_single hget, chainEnd_append_one, sim.cur]
        rfl
  | sectData n =>
    have hF : Fresh D (symDefList (.sectData n)) := ⟨by simp [symDefList, inputSymDef], by simp [symDefList, inputSymDef]⟩
    refine ⟨fun h => absurd hF h, fun _ => ?_⟩
    simp only [placeInput] at hp
    split at hp
    · cases hp
    · rename_i hnot
      have hnone : hasSec st.secs (dollarName n) = false := by
        rw [← simEnv_isSome sim.env]; simpa using hnot
      have hnone' : getSec st.secs (dollarName n) = none := by
        unfold hasSec at hnone; simpa using hnone
      have sim1 := sim.env.append_one { name := dollarName n, address := st.cur, alignment := 1 }
      simp only [List.length_nil] at sim1
      split at hp
      · cases hp
      · rename_i al sz hsrc
        simp only [Option.some.injEq] at hp
        subst hp
        have hsrc' := sim1 n
        rw [hsrc] at hsrc'
        cases hg : getSec (st.secs ++ [{ name := dollarName n, address := st.cur, alignment := 1 }]) n with
        | none => rw [hg] at hsrc'; cases hsrc'
        | some src =>
          rw [hg] at hsrc'
          simp only [Option.map_some, Option.some.injEq, secView, Prod.mk.injEq] at hsrc'
          have esz := hsrc'.2
          subst esz
          have hget : getSec (st.secs ++ [{ name := dollarName n, address := st.cur, alignment := 1, data := src.data }])
              (dollarName n) = some { name := dollarName n, address := st.cur, alignment := 1, data := src.data } := by
            rw [getSec_append_one, hnone']; simp
          have hframe : ∀ m, m ≠ dollarName n →
              getSec (st.secs ++ [{ name := dollarName n, address := st.cur, alignment := 1, data := src.data }]) m
              = getSec st.secs m := by
            intro m hm
            have : ¬ dollarName n = m := fun e => hm e.symm
            rw [getSec_append_one]; simp [this]
          refine ⟨LState.mk (st.secs ++ [{ name := dollarName n, address := st.cur, alignment := 1, data := src.data }])
              st.syms (st.cur + src.data.length) (st.placed ++ [dollarName n]),
            by simp only [layoutInput, hnone, Bool.false_eq_true, if_false, hg], ⟨?_, ?_, ?_⟩,
            tab.congr (by simp [symDefList, inputSymDef]) (by simp [symDefList, inputSymDef])⟩
          · have := sim.env.append_one { name := dollarName n, address := st.cur, alignment := 1, data := src.data }
            exact this
          · simp only [sim.cur]
          · simp only
            rw [resolve_append, resolve_single hget, chainEnd_append_one, sim.cur]
  | symDef sname =>
    simp only [placeInput] at hp
    split at hp
    · cases hp
    · rename_i hnot
      simp only [Option.some.injEq] at hp
      subst hp
      have hnone : hasSec st.secs (dollarName sname) = false := by
        rw [← simEnv_isSome sim.env]; simpa using hnot
      have hnone' : getSec st.secs (dollarName sname) = none := by
        unfold hasSec at hnone; simpa using hnone
      have hget : getSec (st.secs ++ [{ name := dollarName sname, address := st.cur, alignment := 1 }])
          (dollarName sname) = some { name := dollarName sname, address := st.cur, alignment := 1 } := by
        rw [getSec_append_one, hnone']; simp
      have hframe : ∀ m, m ≠ dollarName sname →
          getSec (st.secs ++ [{ name := dollarName sname, address := st.cur, alignment := 1 }]) m
          = getSec st.secs m := by
        intro m hm
        have : ¬ dollarName sname = m := fun e => hm e.symm
        rw [getSec_append_one]; simp [this]
      have ⟨r1, r2⟩ := mergeGlobal_run tab sname (some (dollarName sname)) (some 0) "object" 0
      have hFiff : Fresh D (symDefList (.symDef sname)) ↔ ¬ ((some 0 : Option Nat).isSome = true ∧ sname ∈ D) := by
        simp [Fresh, symDefList, inputSymDef]
      constructor
      · intro hnf
        have hc : (some 0 : Option Nat).isSome = true ∧ sname ∈ D := by
          rcases Classical.em ((some 0 : Option Nat).isSome = true ∧ sname ∈ D) with h | h
          · exact h
          · exact absurd (hFiff.2 h) hnf
        simp only [layoutInput, hnone, Bool.false_eq_true, if_false, r1 hc]
      · intro hf
        obtain ⟨syms', id, h1, t'⟩ := r2 (hFiff.1 hf)
        refine ⟨LState.mk (st.secs ++ [{ name := dollarName sname, address := st.cur, alignment := 1 }])
            syms' st.cur (st.placed ++ [dollarName sname]),
          by simp only [layoutInput, hnone, Bool.false_eq_true, if_false, h1], ⟨?_, ?_, ?_⟩,
          t'.congr (by simp [symDefList, inputSymDef]) (by simp [symDefList, inputSymDef, addIf])⟩
        · have := sim.env.append_one { name := dollarName sname, address := st.cur, alignment := 1 }
          simpa using this
        · simp only [sim.cur]
        · simp only
          rw [resolve_append, resolve_single hget, chainEnd_append_one, sim.cur]
          rfl
  | align a =>
    have hF : Fresh D (symDefList (.align a)) := ⟨by simp [symDefList, inputSymDef], by simp [symDefList, inputSymDef]⟩
    refine ⟨fun h => absurd hF h, fun _ => ?_⟩
    simp only [placeInput] at hp
    split at hp
    · cases hp
    · rename_i ha
      simp only [Option.some.injEq] at hp
      subst hp
      refine ⟨{ st with cur := alignUp st.cur a }, by simp only [layoutInput, ha, if_false],
        ⟨sim.env, by simp only [sim.cur], sim.last⟩,
        tab.congr (by simp [symDefList, inputSymDef]) (by simp [symDefList, inputSymDef])⟩

/-! ### all inputs of a memory, a memory, a layout -/

theorem filterMap_symDef_cons (i : MemInput) (rest : List MemInput) :
    (i :: rest).filterMap inputSymDef = symDefList i ++ rest.filterMap inputSymDef := by
  unfold symDefList
  rw [List.filterMap_cons]
  cases inputSymDef i <;> simp

theorem placeInputs_cons_inv {pst pst' : PState} {i : MemInput} {rest : List MemInput}
    (h : placeInputs pst (i :: rest) = some pst') :
    ∃ pst1, placeInput pst i = some pst1 ∧ placeInputs pst1 rest = some pst' := by
  unfold placeInputs at h
  cases h1 : placeInput pst i with
  | none => simp [h1] at h
  | some pst1 => rw [h1] at h; exact ⟨pst1, rfl, h⟩

structure LRes (base : Nat) (st st' : LState) (pst' : PState) (G D : List String) (names defs : List String) : Prop where
  inv : LInv base st'
  sim : LSim base st' pst'
  tab : Tab st'.syms (G ++ defs) (D ++ defs)
  idinv : IdInv st'.syms
  placed_eq : st'.placed = st.placed ++ names

theorem layoutInputs_sim : ∀ {inputs : List MemInput} {base : Nat} {st : LState} {pst pst' : PState}
    {G D : List String}, LInv base st → LSim base st pst → Tab st.syms G D → IdInv st.syms →
    (st.placed ++ inputs.flatMap inputPlaced).Nodup → placeInputs pst inputs = some pst' →
    (¬ Fresh D (inputs.filterMap inputSymDef) → layoutInputs st inputs = .error .CompilerError) ∧
    (Fresh D (inputs.filterMap inputSymDef) → ∃ st', layoutInputs st inputs = .ok st' ∧
      LRes base st st' pst' G D (inputs.flatMap inputPlaced) (inputs.filterMap inputSymDef))
  | [], base, st, pst, pst', G, D, inv, sim, tab, hid, _, hp => by
    simp [placeInputs] at hp; subst hp
    refine ⟨fun h => absurd (show Fresh D [] from ⟨by simp, by simp⟩) (by simpa using h), fun _ => ?_⟩
    exact ⟨st, rfl, ⟨inv, sim, tab.congr (by simp) (by simp), hid, by simp⟩⟩
  | i :: rest, base, st, pst, pst', G, D, inv, sim, tab, hid, hnd, hp => by
    obtain ⟨pst1, hp1, hp2⟩ := placeInputs_cons_inv hp
    simp only [List.flatMap_cons] at hnd ⊢
    have hfresh : ∀ n ∈ inputPlaced i, n ∉ st.placed := by
      intro n hn hpl
      exact (List.nodup_append.1 hnd).2.2 n hpl n (List.mem_append_left _ hn) rfl
    have ⟨r1, r2⟩ := layoutInput_sim sim tab hp1
    rw [filterMap_symDef_cons]
    unfold layoutInputs
    by_cases hf1 : Fresh D (symDefList i)
    · obtain ⟨st1, h1, sim1, tab1⟩ := r2 hf1
      rw [h1]
      simp only
      have ⟨inv1, step1⟩ := layoutInput_ok h1 hfresh inv hid
      have hnd1 : (st1.placed ++ rest.flatMap inputPlaced).Nodup := by
        rw [step1.placed_eq, List.append_assoc]; exact hnd
      have ⟨q1, q2⟩ := layoutInputs_sim (inputs := rest) inv1 sim1 tab1 step1.idinv hnd1 hp2
      constructor
      · intro hnf
        exact q1 (fun hf => hnf (fresh_cons_iff.2 ⟨hf1, hf⟩))
      · intro hf
        obtain ⟨st', h2, res⟩ := q2 (fresh_cons_iff.1 hf).2
        refine ⟨st', h2, ⟨res.inv, res.sim, res.tab.congr (by simp [List.append_assoc]) (by simp [List.append_assoc]),
          res.idinv, ?_⟩⟩
        rw [res.placed_eq, step1.placed_eq, List.append_assoc]
    · rw [r1 hf1]
      exact ⟨fun _ => rfl, fun hf => absurd (fresh_cons_iff.1 hf).1 hf1⟩

theorem memDefs_eq (m : Memory) : memDefs m = m.inputs.filterMap inputSymDef := rfl

theorem layoutMemory_sim {dst : Obj} {m : Memory} {env env' : Env} {plan : MemPlan} {G D : List String}
    (sim : SimEnv dst.sections env) (tab : Tab dst.symbols G D) (hid : IdInv dst.symbols)
    (hnd : (m.inputs.flatMap inputPlaced).Nodup) (hp : placeMemory env m = some (env', plan)) :
    (¬ (Fresh D (memDefs m) ∧ plan.need ≤ m.size) → layoutMemory dst m = .error .CompilerError) ∧
    (Fresh D (memDefs m) ∧ plan.need ≤ m.size → ∃ dst', layoutMemory dst m = .ok dst' ∧
      SimEnv dst'.sections env' ∧ Tab dst'.symbols (G ++ memDefs m) (D ++ memDefs m) ∧ IdInv dst'.symbols) := by
  unfold placeMemory at hp
  cases hpi : placeInputs { env := env, cur := m.location, last := m.location, placed := [] } m.inputs with
  | none => simp [hpi] at hp
  | some pst' =>
    simp only [hpi, Option.some.injEq, Prod.mk.injEq] at hp
    obtain ⟨e1, e2⟩ := hp
    subst e1; subst e2
    have inv0 : LInv m.location { secs := dst.sections, syms := dst.symbols, cur := m.location, placed := [] } :=
      ⟨by simp, by simp [resolve, Chain], by simp [resolve, chainEnd], by simp [resolve]⟩
    have sim0 : LSim m.location { secs := dst.sections, syms := dst.symbols, cur := m.location, placed := [] }
        { env := env, cur := m.location, last := m.location, placed := [] } :=
      ⟨sim, rfl, by simp [resolve, chainEnd]⟩
    have ⟨r1, r2⟩ := layoutInputs_sim inv0 sim0 tab hid (by simpa using hnd) hpi
    unfold layoutMemory
    rw [memDefs_eq]
    by_cases hf : Fresh D (m.inputs.filterMap inputSymDef)
    · obtain ⟨st', h1, res⟩ := r2 hf
      rw [h1]
      simp only
      have hchain := res.inv.chain
      obtain ⟨d, hd⟩ := (imageDataFrom_ok_iff _ _).2 hchain
      have hd' : imageData st'.secs { name := m.name, address := m.location, sections := st'.placed } = .ok d := hd
      rw [hd']
      simp only
      have hlen := (imageDataFrom_spec _ _ _ hd).1
      have hneed : d.length = pst'.last - m.location := by rw [hlen, res.sim.last]
      by_cases hsz : pst'.last - m.location ≤ m.size
      · have : ¬ d.length > m.size := by omega
        simp only [this, if_false]
        exact ⟨fun hc => absurd ⟨hf, hsz⟩ hc, fun _ => ⟨_, rfl, res.sim.env, res.tab, res.idinv⟩⟩
      · have : d.length > m.size := by omega
        simp only [this, if_true]
        exact ⟨fun _ => (by first | rfl | trivial), fun hc => absurd hc.2 hsz⟩
    · rw [r1 hf]
      exact ⟨fun _ => rfl, fun hc => absurd hc.1 hf⟩

theorem placeLayout_cons_inv {env : Env} {m : Memory} {rest : List Memory} {ps : List MemPlan}
    (h : placeLayout env (m :: rest) = some ps) :
    ∃ env1 p ps', placeMemory env m = some (env1, p) ∧ placeLayout env1 rest = some ps' ∧ ps = p :: ps' := by
  unfold placeLayout at h
  cases h1 : placeMemory env m with
  | none => simp [h1] at h
  | some q =>
    obtain ⟨env1, p⟩ := q
    simp only [h1] at h
    cases h2 : placeLayout env1 rest with
    | none => simp [h2] at h
    | some ps' =>
      simp only [h2, Option.some.injEq] at h
      exact ⟨env1, p, ps', rfl, h2, h.symm⟩

/-- every memory has room for what it needs -/
def Fits (mems : List Memory) (ps : List MemPlan) : Prop := ∀ q ∈ mems.zip ps, q.2.need ≤ q.1.size

theorem layoutSections_sim : ∀ {mems : List Memory} {dst : Obj} {env : Env} {ps : List MemPlan} {G D : List String},
    SimEnv dst.sections env → Tab dst.symbols G D → IdInv dst.symbols → (placedNames mems).Nodup →
    placeLayout env mems = some ps →
    (¬ (Fresh D (mems.flatMap memDefs) ∧ Fits mems ps) → layoutSections dst mems = .error .CompilerError) ∧
    (Fresh D (mems.flatMap memDefs) ∧ Fits mems ps → ∃ dst', layoutSections dst mems = .ok dst' ∧
      Tab dst'.symbols (G ++ mems.flatMap memDefs) (D ++ mems.flatMap memDefs))
  | [], dst, env, ps, G, D, _, tab, _, _, hp => by
    simp [placeLayout] at hp; subst hp
    have hF : Fresh D [] := ⟨by simp, by simp⟩
    refine ⟨fun h => absurd ⟨by simpa using hF, by simp [Fits]⟩ h, fun _ => ?_⟩
    exact ⟨dst, rfl, tab.congr (by simp) (by simp)⟩
  | m :: rest, dst, env, ps, G, D, sim, tab, hid, hnd, hp => by
    obtain ⟨env1, p, ps', hp1, hp2, e⟩ := placeLayout_cons_inv hp
    subst e
    rw [placedNames_cons] at hnd
    have hnd' := List.nodup_append.1 hnd
    have ⟨r1, r2⟩ := layoutMemory_sim sim tab hid hnd'.1 hp1
    have hfits : Fits (m :: rest) (p :: ps') ↔ p.need ≤ m.size ∧ Fits rest ps' := by
      simp [Fits]
    simp only [List.flatMap_cons]
    unfold layoutSections
    by_cases hc1 : Fresh D (memDefs m) ∧ p.need ≤ m.size
    · obtain ⟨dst1, h1, sim1, tab1, hid1⟩ := r2 hc1
      rw [h1]
      simp only
      have ⟨q1, q2⟩ := layoutSections_sim (mems := rest) sim1 tab1 hid1 hnd'.2.1 hp2
      constructor
      · intro hn
        refine q1 (fun hc => hn ⟨fresh_cons_iff.2 ⟨hc1.1, hc.1⟩, hfits.2 ⟨hc1.2, hc.2⟩⟩)
      · intro hc
        obtain ⟨dst', h2, tab2⟩ := q2 ⟨(fresh_cons_iff.1 hc.1).2, (hfits.1 hc.2).2⟩
        exact ⟨dst', h2, tab2.congr (by simp [List.append_assoc]) (by simp [List.append_assoc])⟩
    · rw [r1 hc1]
      refine ⟨fun _ => rfl, fun hc => absurd ⟨(fresh_cons_iff.1 hc.1).1, (hfits.1 hc.2).1⟩ hc1⟩

end Proofs.Linker
